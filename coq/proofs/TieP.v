(* C13 - ties and slurs: check_tie_notes and the four Slur modes (model/Tie.v), for ARBITRARY tied groups
   (induction over the list of collected notes), the slur branch of RunCore.emit_note, and the final flush
   of Compile.tracks_for_writer.  Vocabulary of the statements (runs of equal pitch, end of the group, the
   events each mode must write) is defined first and characterised independently of the model's loops. *)
From Sakura.Model Require Import Base Event Song F32 Tie RunCore Compile RunRsv.
From Sakura.Proofs Require Import ExtP IdleP RsvP.
From Coq Require Import Lia Sorted.
Open Scope Z_scope.

(* ------------------------------------------------------------------------------------------------ *)
(* 0. vocabulary                                                                                      *)

(* a group is `first :: rest`, the notes in the order written.  Its end: where the LAST note's gate ends *)
Fixpoint end_after (rest : list event) (en : Z) : Z :=
  match rest with [] => en | next :: r => end_after r (e_time next + e_v2 next) end.
Definition group_end (first : event) (rest : list event) : Z := end_after rest (e_time first + e_v2 first).

(* maximal runs of equal pitch, left to right: (first note of the run, end of the run's last note) *)
Fixpoint runs_lr (head : event) (en : Z) (rest : list event) : list (event * Z) :=
  match rest with
  | [] => [(head, en)]
  | next :: r =>
      if e_v1 head =? e_v1 next then runs_lr head (e_time next + e_v2 next) r
      else (head, en) :: runs_lr next (e_time next + e_v2 next) r
  end.
Definition runs (first : event) (rest : list event) : list (event * Z) :=
  runs_lr first (e_time first + e_v2 first) rest.

(* what "maximal runs of equal pitch" means, without reference to any loop: the group is cut into
   consecutive non-empty blocks h :: blk of one pitch, neighbouring blocks differ in pitch, and each block
   is reported as (h, end of its last note) *)
Inductive is_runs : list event -> list (event * Z) -> Prop :=
| IR_nil : is_runs [] []
| IR_cons : forall h blk tail rs,
    Forall (fun e => e_v1 e = e_v1 h) blk ->
    match tail with [] => True | h' :: _ => e_v1 h' <> e_v1 h end ->
    is_runs tail rs ->
    is_runs (h :: blk ++ tail) ((h, let l := last blk h in e_time l + e_v2 l) :: rs).

Definition note_count (l : list event) : nat := length (filter (fun e => etype_eqb (e_type e) NoteOn) l).
Definition is_bend (e : event) : Prop := e_type e = PitchBend.

(* the announcement of the bend range (RPN 0,0 = 12), once per track, one tick before the group (or at 0) *)
Definition announce_time (first_time : Z) : Z := if first_time <=? 0 then 0 else first_time - 1.
Definition announce (ch br first_time : Z) : list event :=
  if br <=? 0 then [ev_pitch_bend_range (announce_time first_time) ch 12] else [].
Definition eff_br (br : Z) : Z := if br <=? 0 then 12 else br.
Definition eff_tv (tb tv : Z) : Z := if tv =? 0 then Z.quot (tb * 4) 8 else tv.

(* mode 1: (diff as f32 * 8192f32 / range as f32) as isize + 8192, clamped *)
Definition bend_value (diff br : Z) : Z :=
  value_range 0 (f32_to_Z (f32_div (f32_mul (f32_of_Z diff) (f32_of_Z 8192)) (f32_of_Z br)) + 8192) 16383.
(* mode 0: the bend the glide arrives at, and the value at step i of tv *)
Definition bend_from (diff br : Z) : Z := f32_to_Z (f32_mul (f32_of_Z diff) (f32_div (f32_of_Z 8192) (f32_of_Z br))).
Definition port_v (bf i tv : Z) : Z := f32_to_Z (f32_mul (f32_of_Z bf) (f32_div (f32_of_Z i) (f32_of_Z tv))).

(* mode 2 *)
Fixpoint gate_notes (tv : Z) (rs : list (event * Z)) : list event :=
  match rs with
  | [] => []
  | (h, en) :: rs' =>
      set_v2 h (match rs' with
                | [] => en - e_time h
                | (h', _) :: _ => if tv =? 0 then e_time h' - e_time h else tv
                end) :: gate_notes tv rs'
  end.

(* mode 0 *)
Definition port_ramp (ch tv br : Z) (h h' : event) : list event :=
  port_bends (Z.to_nat tv) 0 tv (e_time h') ch (bend_from (e_v1 h' - e_v1 h) br) 0.
Fixpoint port_out (ch tv br : Z) (rs : list (event * Z)) : list event :=
  match rs with
  | [] => []
  | (h, en) :: rs' =>
      match rs' with
      | [] => [set_v2 h (en - e_time h)]
      | (h', _) :: _ =>
          port_ramp ch tv br h h' ++ [set_v2 h (e_time h' - e_time h); ev_pitch_bend (e_time h') ch 8192]
          ++ port_out ch tv br rs'
      end
  end.

(* the events check_tie_notes must append for the group first :: rest, per mode *)
Definition out_alpe (first : event) (rest : list event) : list event :=
  map (fun e => set_v2 e (group_end first rest - e_time e)) (first :: rest).
Definition out_gate (tv : Z) (first : event) (rest : list event) : list event := gate_notes tv (runs first rest).
Definition out_bend (ch br : Z) (first : event) (rest : list event) : list event :=
  announce ch br (e_time first) ++ [ev_pitch_bend (e_time first) ch 8192]
  ++ map (fun p => ev_pitch_bend (e_time (fst p)) ch (bend_value (e_v1 (fst p) - e_v1 first) (eff_br br))) (tl (runs first rest))
  ++ [set_v2 first (group_end first rest - e_time first); ev_pitch_bend (group_end first rest) ch 8192].
Definition out_port (tb ch tv br : Z) (first : event) (rest : list event) : list event :=
  (if (2 <=? length (runs first rest))%nat then announce ch br (e_time first) else [])
  ++ port_out ch (eff_tv tb tv) (eff_br br) (runs first rest).

Definition tie_out (tb : Z) (t : track) (first : event) (rest : list event) : list event :=
  let m := tr_tie_mode t in
  if m =? 1 then out_bend (tr_channel t) (tr_bend_range t) first rest
  else if m =? 2 then out_gate (tr_tie_value t) first rest
  else if m =? 3 then out_alpe first rest
  else out_port tb (tr_channel t) (tr_tie_value t) (tr_bend_range t) first rest.
Definition tie_bend_range (t : track) (first : event) (rest : list event) : Z :=
  let m := tr_tie_mode t in
  if m =? 1 then eff_br (tr_bend_range t)
  else if (m =? 2) || (m =? 3) then tr_bend_range t
  else if (2 <=? length (runs first rest))%nat then eff_br (tr_bend_range t) else tr_bend_range t.

(* ------------------------------------------------------------------------------------------------ *)
(* 1. events and runs                                                                                 *)

Lemma set_v2_eta e : set_v2 e (e_v2 e) = e.
Proof. destruct e; reflexivity. Qed.
Lemma set_v2_set_v2 e a b : set_v2 (set_v2 e a) b = set_v2 e b.
Proof. reflexivity. Qed.

Lemma last_default {A} : forall (l : list A) (a d d' : A), last (a :: l) d = last (a :: l) d'.
Proof. induction l as [|b l IH]; intros a d d'; [reflexivity|]. change (last (b :: l) d = last (b :: l) d'). apply IH. Qed.

Lemma end_after_last : forall rest first,
  end_after rest (e_time first + e_v2 first) = e_time (last rest first) + e_v2 (last rest first).
Proof.
  induction rest as [|x r IH]; intros first; [reflexivity|].
  cbn [end_after]. rewrite IH. destruct r as [|y r]; [reflexivity|].
  change (last (x :: y :: r) first) with (last (y :: r) first). rewrite (last_default r y x first). reflexivity.
Qed.

Lemma group_end_last first rest : group_end first rest = (let l := last rest first in e_time l + e_v2 l).
Proof. unfold group_end. apply end_after_last. Qed.

Lemma group_end_last_full first rest :
  group_end first rest = (let l := last (first :: rest) first in e_time l + e_v2 l).
Proof. rewrite group_end_last. destruct rest; reflexivity. Qed.

Lemma runs_lr_cons : forall r h en, exists en', runs_lr h en r = (h, en') :: tl (runs_lr h en r).
Proof.
  induction r as [|x r IH]; intros h en; cbn [runs_lr].
  - exists en. reflexivity.
  - destruct (e_v1 h =? e_v1 x); [apply IH | eexists; reflexivity].
Qed.

Lemma runs_lr_length : forall r h en, (1 <= length (runs_lr h en r) <= S (length r))%nat.
Proof.
  induction r as [|x r IH]; intros h en; cbn [runs_lr length]; [lia|].
  destruct (e_v1 h =? e_v1 x).
  - specialize (IH h (e_time x + e_v2 x)). lia.
  - cbn [length]. specialize (IH x (e_time x + e_v2 x)). lia.
Qed.

(* the end recorded for the last run is the end of the group *)
Lemma runs_lr_last_end : forall r h en d,
  snd (last (runs_lr h en r) d) = end_after r en.
Proof.
  induction r as [|x r IH]; intros h en d; cbn [runs_lr end_after]; [reflexivity|].
  destruct (e_v1 h =? e_v1 x); [apply IH|].
  rewrite <- (IH x (e_time x + e_v2 x) d). destruct (runs_lr_cons r x (e_time x + e_v2 x)) as [e' E]. rewrite E.
  reflexivity.
Qed.

(* all notes of one pitch: a single run *)
Lemma runs_lr_same : forall r h en, Forall (fun e => e_v1 e = e_v1 h) r -> runs_lr h en r = [(h, end_after r en)].
Proof.
  induction r as [|x r IH]; intros h en H; cbn [runs_lr end_after]; [reflexivity|].
  inversion H as [|? ? Hx Hr]; subst. rewrite Hx, Z.eqb_refl. apply IH. exact Hr.
Qed.

(* all pitches different from their neighbour: one run per note *)
Fixpoint neighbours_differ (h : event) (r : list event) : Prop :=
  match r with [] => True | x :: r' => e_v1 h <> e_v1 x /\ neighbours_differ x r' end.
Lemma runs_lr_distinct : forall r h en, neighbours_differ h r ->
  map fst (runs_lr h en r) = h :: r /\ length (runs_lr h en r) = S (length r).
Proof.
  induction r as [|x r IH]; intros h en H; cbn [runs_lr]; [split; reflexivity|].
  destruct H as [H1 H2]. apply Z.eqb_neq in H1. rewrite H1. cbn [map fst length].
  destruct (IH x (e_time x + e_v2 x) H2) as [A B]. rewrite A, B. split; reflexivity.
Qed.

(* runs really are the maximal runs of equal pitch *)
Lemma runs_lr_is_runs : forall r h en0 pre,
  Forall (fun e => e_v1 e = e_v1 h) pre ->
  en0 = (let l := last pre h in e_time l + e_v2 l) ->
  exists blk tail rs,
    pre ++ r = blk ++ tail /\ Forall (fun e => e_v1 e = e_v1 h) blk /\
    match tail with [] => True | h' :: _ => e_v1 h' <> e_v1 h end /\
    is_runs tail rs /\
    runs_lr h en0 r = (h, let l := last blk h in e_time l + e_v2 l) :: rs.
Proof.
  induction r as [|x r IH]; intros h en0 pre Hpre Hen.
  - exists pre, [], []. rewrite app_nil_r. repeat split; try assumption; try constructor.
    cbn [runs_lr]. rewrite Hen. reflexivity.
  - cbn [runs_lr]. destruct (e_v1 h =? e_v1 x) eqn:E.
    + apply Z.eqb_eq in E.
      destruct (IH h (e_time x + e_v2 x) (pre ++ [x])) as [blk [tail [rs [A [B [C [D F]]]]]]].
      * apply Forall_app. split; [exact Hpre | constructor; [symmetry; exact E | constructor]].
      * rewrite last_last. reflexivity.
      * exists blk, tail, rs. rewrite <- app_assoc in A. cbn [app] in A. repeat split; assumption.
    + apply Z.eqb_neq in E.
      destruct (IH x (e_time x + e_v2 x) []) as [blk [tail [rs [A [B [C [D F]]]]]]]; [constructor | reflexivity |].
      exists pre, (x :: r), ((x, let l := last blk x in e_time l + e_v2 l) :: rs).
      split; [reflexivity|]. split; [exact Hpre|]. split; [congruence|]. split.
      * cbn [app] in A. rewrite A. apply IR_cons; assumption.
      * rewrite Hen, F. reflexivity.
Qed.

Theorem runs_is_runs first rest : is_runs (first :: rest) (runs first rest).
Proof.
  destruct (runs_lr_is_runs rest first (e_time first + e_v2 first) []) as [blk [tail [rs [A [B [C [D F]]]]]]];
    [constructor | reflexivity |].
  unfold runs. rewrite F. cbn [app] in A. rewrite A. apply IR_cons; assumption.
Qed.

(* ------------------------------------------------------------------------------------------------ *)
(* 2. mode 2 (gate)                                                                                   *)

Lemma gate_loop_spec : forall rest h v tv events,
  gate_loop rest (set_v2 h v) tv events = events ++ gate_notes tv (runs_lr h (e_time h + v) rest).
Proof.
  induction rest as [|x r IH]; intros h v tv events.
  - cbn [gate_loop runs_lr gate_notes]. do 2 f_equal. destruct h; cbn. f_equal. lia.
  - cbn [gate_loop runs_lr]. change (e_v1 (set_v2 h v)) with (e_v1 h). change (e_time (set_v2 h v)) with (e_time h).
    destruct (e_v1 h =? e_v1 x) eqn:E.
    + rewrite set_v2_set_v2, IH. do 3 f_equal. lia.
    + rewrite set_v2_set_v2. rewrite <- (set_v2_eta x) at 1. rewrite IH. rewrite <- app_assoc. f_equal.
      destruct (runs_lr_cons r x (e_time x + e_v2 x)) as [e' H]. rewrite H. reflexivity.
Qed.

Lemma gate_notes_length tv rs : length (gate_notes tv rs) = length rs.
Proof. induction rs as [|[h en] rs IH]; cbn [gate_notes length]; [reflexivity | rewrite IH; reflexivity]. Qed.

(* pointwise reading of gate_notes: run i sounds its first note, until run i+1 begins / for tv ticks / to its own end *)
Lemma gate_notes_nth tv : forall rs i d, (i < length rs)%nat ->
  nth i (gate_notes tv rs) d =
    set_v2 (fst (nth i rs (d, 0)))
           (if (S i <? length rs)%nat
            then (if tv =? 0 then e_time (fst (nth (S i) rs (d, 0))) - e_time (fst (nth i rs (d, 0))) else tv)
            else snd (nth i rs (d, 0)) - e_time (fst (nth i rs (d, 0)))).
Proof.
  induction rs as [|[h en] rs IH]; intros i d Hi; cbn [length] in Hi; [lia|].
  destruct i as [|i].
  - cbn [gate_notes nth fst snd length]. destruct rs as [|[h' en'] rs']; reflexivity.
  - cbn [gate_notes nth length]. rewrite IH by lia.
    change (S (S i) <? S (length rs))%nat with (S i <? length rs)%nat. reflexivity.
Qed.

(* ------------------------------------------------------------------------------------------------ *)
(* 3. mode 1 (bend)                                                                                   *)

Lemma bend_loop_spec : forall rest last begin ch br lp events en,
  bend_loop rest last begin ch br lp events =
    (end_after rest lp,
     events ++ map (fun p => ev_pitch_bend (e_time (fst p)) ch (bend_value (e_v1 (fst p) - e_v1 begin) br))
                   (tl (runs_lr last en rest))).
Proof.
  induction rest as [|x r IH]; intros last begin ch br lp events en.
  - cbn [bend_loop end_after runs_lr tl map]. rewrite app_nil_r. reflexivity.
  - cbn [bend_loop end_after runs_lr]. destruct (e_v1 last =? e_v1 x) eqn:E.
    + apply IH.
    + rewrite (IH x begin ch br _ _ (e_time x + e_v2 x)). f_equal. rewrite <- app_assoc. f_equal.
      cbn [tl]. destruct (runs_lr_cons r x (e_time x + e_v2 x)) as [e' H]. rewrite H at 2.
      cbn [map fst app]. reflexivity.
Qed.

(* ------------------------------------------------------------------------------------------------ *)
(* 4. mode 0 (portamento)                                                                             *)

Lemma eff_br_idem br : eff_br (eff_br br) = eff_br br.
Proof. unfold eff_br. destruct (br <=? 0) eqn:A; [reflexivity | rewrite A; reflexivity]. Qed.
Lemma eff_br_pos br : (eff_br br <=? 0) = false.
Proof. unfold eff_br. destruct (br <=? 0) eqn:A; [reflexivity | exact A]. Qed.
Lemma eff_tv_idem tb tv : eff_tv tb (eff_tv tb tv) = eff_tv tb tv.
Proof.
  unfold eff_tv. destruct (tv =? 0) eqn:A.
  - destruct (Z.quot (tb * 4) 8 =? 0) eqn:B; reflexivity.
  - rewrite A. reflexivity.
Qed.

Lemma ensure_bend_range_spec ch br ft events :
  ensure_bend_range ch br ft events = (eff_br br, events ++ announce ch br ft).
Proof.
  unfold ensure_bend_range, eff_br, announce, announce_time. destruct (br <=? 0); [reflexivity|].
  rewrite app_nil_r. reflexivity.
Qed.

Lemma port_loop_spec : forall rest h v tb ch tv br events,
  port_loop rest (set_v2 h v) tb ch tv br events =
    (let rs := runs_lr h (e_time h + v) rest in
     (if (2 <=? length rs)%nat then eff_br br else br,
      events ++ (if (2 <=? length rs)%nat then announce ch br (e_time h) else [])
             ++ port_out ch (eff_tv tb tv) (eff_br br) rs)).
Proof.
  induction rest as [|x r IH]; intros h v tb ch tv br events.
  - cbn [port_loop runs_lr length Nat.leb port_out app]. do 3 f_equal. destruct h; cbn. f_equal. lia.
  - cbn [port_loop runs_lr]. change (e_v1 (set_v2 h v)) with (e_v1 h). change (e_time (set_v2 h v)) with (e_time h).
    destruct (e_v1 h =? e_v1 x) eqn:E.
    + rewrite set_v2_set_v2, IH. cbv zeta.
      replace (e_time h + (e_time x + e_v2 x - e_time h)) with (e_time x + e_v2 x) by lia. reflexivity.
    + rewrite ensure_bend_range_spec. rewrite set_v2_set_v2.
      fold (eff_tv tb tv).
      pose proof (IH x (e_v2 x)) as IH'. rewrite set_v2_eta in IH'. rewrite IH'. cbv zeta.
      rewrite eff_br_idem, eff_tv_idem.
      assert (A2 : announce ch (eff_br br) (e_time x) = []).
      { unfold announce. rewrite eff_br_pos. reflexivity. }
      rewrite A2.
      set (b := (2 <=? length (runs_lr x (e_time x + e_v2 x) r))%nat).
      destruct (runs_lr_cons r x (e_time x + e_v2 x)) as [e' H]. rewrite H.
      cbn [length Nat.leb port_out]. unfold port_ramp, bend_from.
      f_equal; [destruct b; reflexivity|].
      destruct b; cbn [app]; rewrite <- !app_assoc; cbn [app]; reflexivity.
Qed.

(* the glide: every event is a clamped bend at a tick of [next - tv, next), ticks strictly increasing *)
Lemma port_bends_shape : forall n i tv nt ch bf lv,
  Forall (fun e => exists j, i <= j < i + Z.of_nat n /\
                   e = ev_pitch_bend (nt - tv + j) ch (value_range 0 (port_v bf j tv + 8192) 16383))
         (port_bends n i tv nt ch bf lv)
  /\ StronglySorted (fun a b => e_time a < e_time b) (port_bends n i tv nt ch bf lv).
Proof.
  induction n as [|k IH]; intros i tv nt ch bf lv; cbn [port_bends]; [split; constructor|].
  fold (port_v bf i tv).
  assert (W : forall lv', Forall (fun e => exists j, i <= j < i + Z.of_nat (S k) /\
                   e = ev_pitch_bend (nt - tv + j) ch (value_range 0 (port_v bf j tv + 8192) 16383))
                   (port_bends k (i + 1) tv nt ch bf lv')).
  { intros lv'. destruct (IH (i + 1) tv nt ch bf lv') as [A _]. eapply Forall_impl; [|exact A].
    cbv beta. intros e [j [Hj He]]. exists j. split; [lia | exact He]. }
  destruct (lv =? port_v bf i tv).
  - split; [apply W | apply IH].
  - split.
    + constructor; [exists i; split; [lia | reflexivity] | apply W].
    + constructor; [apply IH|].
      destruct (IH (i + 1) tv nt ch bf (port_v bf i tv)) as [A _]. eapply Forall_impl; [|exact A].
      cbv beta. intros e [j [Hj ->]]. cbn [e_time ev_pitch_bend]. lia.
Qed.

Lemma port_ramp_shape ch tv br h h' :
  Forall (fun e => exists j, 0 <= j < tv /\
                   e = ev_pitch_bend (e_time h' - tv + j) ch
                         (value_range 0 (port_v (bend_from (e_v1 h' - e_v1 h) br) j tv + 8192) 16383))
         (port_ramp ch tv br h h')
  /\ StronglySorted (fun a b => e_time a < e_time b) (port_ramp ch tv br h h').
Proof.
  unfold port_ramp. destruct (port_bends_shape (Z.to_nat tv) 0 tv (e_time h') ch (bend_from (e_v1 h' - e_v1 h) br) 0) as [A B].
  split; [|exact B]. eapply Forall_impl; [|exact A]. cbv beta. intros e [j [Hj He]]. exists j. split; [lia | exact He].
Qed.

(* ------------------------------------------------------------------------------------------------ *)
(* 5. check_tie_notes                                                                                 *)

Theorem check_spec tb t first rest :
  tr_tie_notes t = first :: rest ->
  check_tie_notes tb t =
    tr_set_tie t (tr_tie_mode t) (tr_tie_value t) (tie_bend_range t first rest)
               (tr_events t ++ tie_out tb t first rest) [].
Proof.
  intros G. unfold check_tie_notes, tie_out, tie_bend_range. rewrite G. cbv zeta.
  destruct (tr_tie_mode t =? 1) eqn:M1.
  - rewrite ensure_bend_range_spec.
    rewrite (bend_loop_spec rest first first (tr_channel t) (eff_br (tr_bend_range t)) _ _ (e_time first + e_v2 first)).
    unfold out_bend, runs, group_end. rewrite <- !app_assoc. reflexivity.
  - destruct (tr_tie_mode t =? 2) eqn:M2.
    + cbn [orb]. rewrite <- (set_v2_eta first) at 1. rewrite gate_loop_spec. reflexivity.
    + destruct (tr_tie_mode t =? 3) eqn:M3.
      * cbn [orb]. unfold out_alpe. rewrite group_end_last_full. reflexivity.
      * cbn [orb]. rewrite <- (set_v2_eta first) at 1. rewrite port_loop_spec. cbv zeta.
        unfold out_port, runs. reflexivity.
Qed.

Lemma check_nil tb t : tr_tie_notes t = [] -> check_tie_notes tb t = t.
Proof. intros G. unfold check_tie_notes. rewrite G. reflexivity. Qed.

Theorem check_clears tb t : tr_tie_notes (check_tie_notes tb t) = [].
Proof.
  destruct (tr_tie_notes t) as [|first rest] eqn:G.
  - rewrite check_nil by exact G. exact G.
  - rewrite (check_spec tb t first rest G). reflexivity.
Qed.

Theorem check_frame tb t :
  let t' := check_tie_notes tb t in
  tr_timepos t' = tr_timepos t /\ tr_channel t' = tr_channel t /\ tr_length t' = tr_length t /\
  tr_octave t' = tr_octave t /\ tr_velocity t' = tr_velocity t /\ tr_qlen t' = tr_qlen t /\
  tr_timing t' = tr_timing t /\ tr_track_key t' = tr_track_key t /\
  tr_tie_mode t' = tr_tie_mode t /\ tr_tie_value t' = tr_tie_value t /\
  (exists new, tr_events t' = tr_events t ++ new) /\
  (tr_bend_range t' = tr_bend_range t \/ (tr_bend_range t <= 0 /\ tr_bend_range t' = 12)).
Proof.
  cbv zeta. destruct (tr_tie_notes t) as [|first rest] eqn:G.
  - rewrite check_nil by exact G. repeat split; try reflexivity; [exists []; rewrite app_nil_r; reflexivity | left; reflexivity].
  - rewrite (check_spec tb t first rest G). cbn [tr_set_tie tr_timepos tr_channel tr_length tr_octave tr_velocity tr_qlen
      tr_timing tr_track_key tr_tie_mode tr_tie_value tr_events tr_bend_range].
    repeat split; try reflexivity; [eexists; reflexivity|].
    unfold tie_bend_range, eff_br. destruct (tr_bend_range t <=? 0) eqn:B.
    + apply Z.leb_le in B.
      destruct (tr_tie_mode t =? 1); [right; split; [exact B | reflexivity]|].
      destruct ((tr_tie_mode t =? 2) || (tr_tie_mode t =? 3)); [left; reflexivity|].
      destruct (2 <=? length (runs first rest))%nat; [right; split; [exact B | reflexivity] | left; reflexivity].
    + left. destruct (tr_tie_mode t =? 1); [reflexivity|].
      destruct ((tr_tie_mode t =? 2) || (tr_tie_mode t =? 3)); [reflexivity|].
      destruct (2 <=? length (runs first rest))%nat; reflexivity.
Qed.

(* ------------------------------------------------------------------------------------------------ *)
(* 6. the per-mode theorems                                                                           *)

Theorem mode_gate_spec tb t first rest :
  tr_tie_notes t = first :: rest -> tr_tie_mode t = 2 ->
  tr_events (check_tie_notes tb t) = tr_events t ++ gate_notes (tr_tie_value t) (runs first rest)
  /\ length (gate_notes (tr_tie_value t) (runs first rest)) = length (runs first rest)
  /\ tr_bend_range (check_tie_notes tb t) = tr_bend_range t.
Proof.
  intros G M. rewrite (check_spec tb t first rest G). unfold tie_out, tie_bend_range, out_gate. rewrite M.
  cbn [Z.eqb Pos.eqb orb tr_set_tie tr_events tr_bend_range]. split; [reflexivity|]. split; [apply gate_notes_length | reflexivity].
Qed.

Theorem mode_alpe_spec tb t first rest :
  tr_tie_notes t = first :: rest -> tr_tie_mode t = 3 ->
  let out := map (fun e => set_v2 e (group_end first rest - e_time e)) (first :: rest) in
  tr_events (check_tie_notes tb t) = tr_events t ++ out
  /\ length out = length (first :: rest)
  /\ map (fun e => (e_type e, e_time e, e_ch e, e_v1 e, e_v3 e, e_data e)) out
     = map (fun e => (e_type e, e_time e, e_ch e, e_v1 e, e_v3 e, e_data e)) (first :: rest)
  /\ Forall (fun e => e_time e + e_v2 e = group_end first rest) out
  /\ tr_bend_range (check_tie_notes tb t) = tr_bend_range t.
Proof.
  intros G M. cbv zeta. rewrite (check_spec tb t first rest G). unfold tie_out, tie_bend_range, out_alpe. rewrite M.
  cbn [Z.eqb Pos.eqb orb tr_set_tie tr_events tr_bend_range]. split; [reflexivity|]. split; [apply map_length|].
  split; [rewrite map_map; reflexivity|]. split; [|reflexivity].
  apply Forall_forall. intros e He. apply in_map_iff in He. destruct He as [x [<- _]]. cbn [set_v2 e_time e_v2]. lia.
Qed.

Theorem mode_bend_spec tb t first rest :
  tr_tie_notes t = first :: rest -> tr_tie_mode t = 1 ->
  let ch := tr_channel t in
  let br := eff_br (tr_bend_range t) in
  let en := group_end first rest in
  tr_events (check_tie_notes tb t) =
    tr_events t ++ announce ch (tr_bend_range t) (e_time first)
    ++ [ev_pitch_bend (e_time first) ch 8192]
    ++ map (fun p => ev_pitch_bend (e_time (fst p)) ch (bend_value (e_v1 (fst p) - e_v1 first) br)) (tl (runs first rest))
    ++ [set_v2 first (en - e_time first); ev_pitch_bend en ch 8192]
  /\ tr_bend_range (check_tie_notes tb t) = br.
Proof.
  intros G M. cbv zeta. rewrite (check_spec tb t first rest G). unfold tie_out, tie_bend_range, out_bend. rewrite M.
  cbn [Z.eqb Pos.eqb tr_set_tie tr_events tr_bend_range]. split; reflexivity.
Qed.

Theorem mode_port_spec tb t first rest :
  tr_tie_notes t = first :: rest -> tr_tie_mode t = 0 ->
  let ch := tr_channel t in
  let rs := runs first rest in
  tr_events (check_tie_notes tb t) =
    tr_events t ++ (if (2 <=? length rs)%nat then announce ch (tr_bend_range t) (e_time first) else [])
    ++ port_out ch (eff_tv tb (tr_tie_value t)) (eff_br (tr_bend_range t)) rs
  /\ tr_bend_range (check_tie_notes tb t) = (if (2 <=? length rs)%nat then eff_br (tr_bend_range t) else tr_bend_range t).
Proof.
  intros G M. cbv zeta. rewrite (check_spec tb t first rest G). unfold tie_out, tie_bend_range, out_port. rewrite M.
  cbn [Z.eqb orb tr_set_tie tr_events tr_bend_range]. split; reflexivity.
Qed.

(* same pitch throughout: the group is one note (modes 0 and 2: nothing else; mode 1: bend 8192 before
   and after, and the bend-range announcement when the track had none) *)
Theorem same_pitch_merge tb t first rest :
  tr_tie_notes t = first :: rest -> Forall (fun e => e_v1 e = e_v1 first) rest ->
  let en := group_end first rest in
  let whole := set_v2 first (en - e_time first) in
  (tr_tie_mode t = 0 \/ tr_tie_mode t = 2 ->
     tr_events (check_tie_notes tb t) = tr_events t ++ [whole]
     /\ tr_bend_range (check_tie_notes tb t) = tr_bend_range t)
  /\ (tr_tie_mode t = 1 ->
     tr_events (check_tie_notes tb t) =
       tr_events t ++ announce (tr_channel t) (tr_bend_range t) (e_time first)
       ++ [ev_pitch_bend (e_time first) (tr_channel t) 8192; whole; ev_pitch_bend en (tr_channel t) 8192]).
Proof.
  intros G S. cbv zeta.
  assert (R : runs first rest = [(first, group_end first rest)]) by (apply runs_lr_same; exact S).
  split.
  - intros [M|M].
    + destruct (mode_port_spec tb t first rest G M) as [A B]. cbv zeta in A, B. rewrite A, B, R.
      cbn [length Nat.leb port_out app]. split; reflexivity.
    + destruct (mode_gate_spec tb t first rest G M) as [A [_ B]]. rewrite A, B, R. split; reflexivity.
  - intros M. destruct (mode_bend_spec tb t first rest G M) as [A _]. cbv zeta in A. rewrite A, R. reflexivity.
Qed.

(* ------------------------------------------------------------------------------------------------ *)
(* 7. every bend in range; no note twice                                                              *)

Definition bend_ok (e : event) : Prop := e_type e = PitchBend -> 0 <= e_v1 e <= 16383.

Lemma value_range_14 v : 0 <= value_range 0 v 16383 <= 16383.
Proof. unfold value_range. destruct (v <? 0) eqn:A; [lia|]. destruct (v >? 16383) eqn:B; lia. Qed.

Lemma runs_lr_heads (Q : event -> Prop) : forall r h en, Q h -> Forall Q r -> Forall (fun p => Q (fst p)) (runs_lr h en r).
Proof.
  induction r as [|x r IH]; intros h en Hh Hr; cbn [runs_lr]; [constructor; [exact Hh | constructor]|].
  inversion Hr as [|? ? Hx Hr']; subst.
  destruct (e_v1 h =? e_v1 x); [apply IH; assumption | constructor; [exact Hh | apply IH; assumption]].
Qed.

Lemma port_ramp_bends ch tv br h h' :
  Forall (fun e => e_type e = PitchBend /\ e_ch e = ch /\ e_time h' - tv <= e_time e < e_time h' /\ 0 <= e_v1 e <= 16383)
         (port_ramp ch tv br h h').
Proof.
  destruct (port_ramp_shape ch tv br h h') as [A _]. eapply Forall_impl; [|exact A]. cbv beta.
  intros e [j [Hj ->]]. cbn [ev_pitch_bend e_type e_ch e_time e_v1]. repeat split; try lia; apply value_range_14.
Qed.

Lemma port_out_facts ch tv br : forall rs, Forall (fun p => e_type (fst p) = NoteOn) rs ->
  Forall bend_ok (port_out ch tv br rs) /\ note_count (port_out ch tv br rs) = length rs.
Proof.
  induction rs as [|[h en] rs IH]; intros H; [split; [constructor | reflexivity]|].
  inversion H as [|? ? Hh Hr]; subst. cbn [fst] in Hh. specialize (IH Hr). destruct IH as [IH1 IH2].
  cbn [port_out]. destruct rs as [|[h' en'] rs'].
  - split.
    + constructor; [|constructor]. intros T. cbn [set_v2 e_type] in T. congruence.
    + unfold note_count. cbn [filter set_v2 e_type]. rewrite Hh. reflexivity.
  - split.
    + apply Forall_app. split.
      * eapply Forall_impl; [|apply port_ramp_bends]. cbv beta. intros e [_ [_ [_ V]]] _. exact V.
      * constructor; [intros T; cbn [set_v2 e_type] in T; congruence|].
        constructor; [intros _; cbn; lia | exact IH1].
    + unfold note_count in *. rewrite filter_app, app_length.
      assert (Z0 : length (filter (fun e => etype_eqb (e_type e) NoteOn) (port_ramp ch tv br h h')) = 0%nat).
      { pose proof (port_ramp_bends ch tv br h h') as F. induction F as [|e l [T _] _ IHl]; [reflexivity|].
        cbn [filter]. rewrite T. exact IHl. }
      rewrite Z0. cbn [app filter set_v2 e_type ev_pitch_bend etype_eqb]. rewrite Hh. cbn [etype_eqb length].
      rewrite IH2. reflexivity.
Qed.

Lemma gate_notes_facts tv : forall rs, Forall (fun p => e_type (fst p) = NoteOn) rs ->
  Forall bend_ok (gate_notes tv rs) /\ note_count (gate_notes tv rs) = length rs.
Proof.
  induction rs as [|[h en] rs IH]; intros H; [split; [constructor | reflexivity]|].
  inversion H as [|? ? Hh Hr]; subst. cbn [fst] in Hh. destruct (IH Hr) as [IH1 IH2]. cbn [gate_notes]. split.
  - constructor; [intros T; cbn [set_v2 e_type] in T; congruence | exact IH1].
  - unfold note_count in *. cbn [filter set_v2 e_type]. rewrite Hh. cbn [etype_eqb length]. rewrite IH2. reflexivity.
Qed.

Lemma announce_facts ch br ft : Forall bend_ok (announce ch br ft) /\ note_count (announce ch br ft) = 0%nat.
Proof.
  unfold announce. destruct (br <=? 0); split; try reflexivity; try constructor; [|constructor].
  intros T. cbn in T. discriminate.
Qed.

Lemma note_count_app a b : note_count (a ++ b) = (note_count a + note_count b)%nat.
Proof. unfold note_count. rewrite filter_app, app_length. reflexivity. Qed.

Theorem tie_out_facts tb t first rest :
  Forall (fun e => e_type e = NoteOn) (first :: rest) ->
  Forall bend_ok (tie_out tb t first rest)
  /\ note_count (tie_out tb t first rest) =
       (if tr_tie_mode t =? 1 then 1%nat else if tr_tie_mode t =? 3 then length (first :: rest) else length (runs first rest))
  /\ (length (runs first rest) <= length (first :: rest))%nat.
Proof.
  intros N. inversion N as [|? ? Nf Nr]; subst.
  assert (RH : Forall (fun p => e_type (fst p) = NoteOn) (runs first rest)) by (apply (runs_lr_heads (fun e => e_type e = NoteOn)); assumption).
  split; [|split].
  - unfold tie_out. destruct (tr_tie_mode t =? 1).
    + unfold out_bend. destruct (announce_facts (tr_channel t) (tr_bend_range t) (e_time first)) as [A _].
      apply Forall_app. split; [exact A|]. constructor; [intros _; cbn; lia|].
      apply Forall_app. split.
      * apply Forall_forall. intros e He. apply in_map_iff in He. destruct He as [p [<- _]]. intros _.
        cbn [ev_pitch_bend e_v1]. apply value_range_14.
      * constructor; [intros T; cbn [set_v2 e_type] in T; congruence|]. constructor; [intros _; cbn; lia | constructor].
    + destruct (tr_tie_mode t =? 2); [apply gate_notes_facts; exact RH|].
      destruct (tr_tie_mode t =? 3).
      * unfold out_alpe. apply Forall_forall. intros e He. apply in_map_iff in He. destruct He as [x [<- Hx]].
        intros T. cbn [set_v2 e_type] in T. rewrite Forall_forall in N. rewrite (N x Hx) in T. discriminate.
      * unfold out_port. apply Forall_app. split; [|apply port_out_facts; exact RH].
        destruct (2 <=? length (runs first rest))%nat; [apply announce_facts | constructor].
  - unfold tie_out. destruct (tr_tie_mode t =? 1).
    + unfold out_bend. rewrite !note_count_app.
      destruct (announce_facts (tr_channel t) (tr_bend_range t) (e_time first)) as [_ A]. rewrite A.
      assert (B : note_count (map (fun p => ev_pitch_bend (e_time (fst p)) (tr_channel t)
                   (bend_value (e_v1 (fst p) - e_v1 first) (eff_br (tr_bend_range t)))) (tl (runs first rest))) = 0%nat).
      { unfold note_count. induction (tl (runs first rest)) as [|p l IHl]; [reflexivity | exact IHl]. }
      rewrite B. unfold note_count. cbn [filter ev_pitch_bend set_v2 e_type etype_eqb]. rewrite Nf. reflexivity.
    + destruct (tr_tie_mode t =? 2) eqn:M2;
        [apply Z.eqb_eq in M2; rewrite M2; cbn [Z.eqb Pos.eqb]; apply gate_notes_facts; exact RH|].
      destruct (tr_tie_mode t =? 3).
      * unfold out_alpe, note_count.
        assert (F : forall l, Forall (fun e => e_type e = NoteOn) l ->
                  filter (fun e => etype_eqb (e_type e) NoteOn) (map (fun e => set_v2 e (group_end first rest - e_time e)) l)
                  = map (fun e => set_v2 e (group_end first rest - e_time e)) l).
        { induction l as [|x l IHl]; intros Hl; [reflexivity|]. inversion Hl as [|? ? Hx Hl']; subst.
          cbn [map filter set_v2 e_type]. rewrite Hx. cbn [etype_eqb]. rewrite IHl by exact Hl'. reflexivity. }
        rewrite F by exact N. apply map_length.
      * unfold out_port. rewrite note_count_app.
        destruct (port_out_facts (tr_channel t) (eff_tv tb (tr_tie_value t)) (eff_br (tr_bend_range t)) _ RH) as [_ C].
        rewrite C. destruct (2 <=? length (runs first rest))%nat; [|reflexivity].
        destruct (announce_facts (tr_channel t) (tr_bend_range t) (e_time first)) as [_ A]. rewrite A. reflexivity.
  - unfold runs. cbn [length]. apply runs_lr_length.
Qed.

(* ------------------------------------------------------------------------------------------------ *)
(* 8. the bend of mode 1 at the default range 12: the f32 expression is the exact truncated quotient   *)

Definition all_diffs : list Z := map (fun n => Z.of_nat n - 127) (seq 0 255).
Lemma bend_value_12_all :
  forallb (fun d => bend_value d 12 =? value_range 0 (Z.quot (d * 8192) 12 + 8192) 16383) all_diffs = true.
Proof. vm_compute. reflexivity. Qed.

Theorem bend_value_12 d : -127 <= d <= 127 -> bend_value d 12 = value_range 0 (Z.quot (d * 8192) 12 + 8192) 16383.
Proof.
  intros H. pose proof bend_value_12_all as A. rewrite forallb_forall in A. apply Z.eqb_eq. apply A.
  unfold all_diffs. apply in_map_iff. exists (Z.to_nat (d + 127)). split; [lia|]. apply in_seq. lia.
Qed.

(* ------------------------------------------------------------------------------------------------ *)
(* 9. the time pointer: emit_note for a lettered note outside a chord                                 *)

Definition cur_valid (s : song) : Prop := (s_cur s < length (s_tracks s))%nat.

Definition tie_frame_eq (a b : track) : Prop :=
  tr_timepos a = tr_timepos b /\ tr_channel a = tr_channel b /\ tr_length a = tr_length b /\
  tr_octave a = tr_octave b /\ tr_velocity a = tr_velocity b /\ tr_qlen a = tr_qlen b /\
  tr_timing a = tr_timing b /\ tr_track_key a = tr_track_key b /\
  tr_tie_mode a = tr_tie_mode b /\ tr_tie_value a = tr_tie_value b.

Lemma check_tie_frame_eq tb t : tie_frame_eq (check_tie_notes tb t) t.
Proof. pose proof (check_frame tb t) as H. cbv zeta in H. unfold tie_frame_eq. tauto. Qed.

Lemma upd_nth_len {A} (f : A -> A) l : forall n, length (upd_nth n f l) = length l.
Proof. induction l as [|x r IH]; intros [|n]; cbn [upd_nth length]; try reflexivity. rewrite IH. reflexivity. Qed.
Lemma nth_upd_nth_same {A} (f : A -> A) (d : A) l : forall n, (n < length l)%nat -> nth n (upd_nth n f l) d = f (nth n l d).
Proof.
  induction l as [|x r IH]; intros [|n] H; cbn [length] in H; try lia; cbn [upd_nth nth]; [reflexivity|]. apply IH. lia.
Qed.
Lemma nth_upd_nth_other {A} (f : A -> A) (d : A) l : forall n i, i <> n -> nth i (upd_nth n f l) d = nth i l d.
Proof.
  induction l as [|x r IH]; intros [|n] [|i] H; cbn [upd_nth nth]; try reflexivity; try congruence. apply IH. congruence.
Qed.

(* what one `upd_cur` does *)
Lemma upd_cur_facts s f : cur_valid s ->
  s_cur (upd_cur s f) = s_cur s /\ length (s_tracks (upd_cur s f)) = length (s_tracks s) /\
  (forall i d, i <> s_cur s -> nth i (s_tracks (upd_cur s f)) d = nth i (s_tracks s) d) /\
  s_set_tracks (upd_cur s f) [] = s_set_tracks s [] /\
  cur_track (upd_cur s f) = f (cur_track s).
Proof.
  intros H. unfold upd_cur, cur_track. cbn [s_set_tracks s_cur s_tracks].
  split; [reflexivity|]. split; [apply upd_nth_len|]. split; [intros i d Hi; apply nth_upd_nth_other; exact Hi|].
  split; [reflexivity|]. apply nth_upd_nth_same. exact H.
Qed.

Theorem emit_note_pointer s ev nl slur :
  cur_valid s -> s_harmony_flag s = false ->
  exists s', emit_note s ev nl true slur = Ok s' /\
    s_cur s' = s_cur s /\ length (s_tracks s') = length (s_tracks s) /\
    (forall i d, i <> s_cur s -> nth i (s_tracks s') d = nth i (s_tracks s) d) /\
    s_set_tracks s' [] = s_set_octave_once (s_set_tracks s []) 0 /\
    tie_frame_eq (cur_track s')
                 (tr_set_octave (tr_set_timepos (cur_track s) (tr_timepos (cur_track s) + nl))
                                (tr_octave (cur_track s) - s_octave_once s)).
Proof.
  intros Hc Hh. unfold emit_note.
  set (s1 := upd_cur s (fun t => tr_set_timepos t (tr_timepos t + nl))).
  destruct (upd_cur_facts s (fun t => tr_set_timepos t (tr_timepos t + nl)) Hc) as [A1 [A2 [A3 [A4 A5]]]]. fold s1 in A1, A2, A3, A4, A5.
  assert (Hc1 : cur_valid s1) by (unfold cur_valid; rewrite A1, A2; exact Hc).
  set (s2 := if s_octave_once s1 =? 0 then s1
             else s_set_octave_once (upd_cur s1 (fun t => tr_set_octave t (tr_octave t - s_octave_once s1))) 0).
  assert (B : s_cur s2 = s_cur s /\ length (s_tracks s2) = length (s_tracks s) /\
              (forall i d, i <> s_cur s -> nth i (s_tracks s2) d = nth i (s_tracks s) d) /\
              s_set_tracks s2 [] = s_set_octave_once (s_set_tracks s []) 0 /\
              s_harmony_flag s2 = false /\
              cur_track s2 = tr_set_octave (tr_set_timepos (cur_track s) (tr_timepos (cur_track s) + nl))
                                           (tr_octave (cur_track s) - s_octave_once s)).
  { assert (O1 : s_octave_once s1 = s_octave_once s) by reflexivity.
    subst s2. destruct (s_octave_once s1 =? 0) eqn:E.
    - apply Z.eqb_eq in E. split; [exact A1|]. split; [exact A2|]. split; [exact A3|].
      split; [rewrite A4; destruct s; cbn in *; subst; reflexivity|]. split; [exact Hh|].
      rewrite A5. rewrite <- O1, E, Z.sub_0_r. destruct (cur_track s); reflexivity.
    - destruct (upd_cur_facts s1 (fun t => tr_set_octave t (tr_octave t - s_octave_once s1)) Hc1) as [C1 [C2 [C3 [C4 C5]]]].
      split; [cbn [s_set_octave_once s_cur]; rewrite C1; exact A1|].
      split; [cbn [s_set_octave_once s_tracks]; rewrite C2; exact A2|].
      split; [intros i d Hi; cbn [s_set_octave_once s_tracks]; rewrite C3 by (rewrite A1; exact Hi); apply A3; exact Hi|].
      split; [reflexivity|]. split; [exact Hh|].
      unfold cur_track in *. cbn [s_set_octave_once s_tracks s_cur]. rewrite C5, A5. rewrite O1. reflexivity. }
  destruct B as [B1 [B2 [B3 [B4 [B5 B6]]]]]. rewrite B5.
  assert (Hc2 : cur_valid s2) by (unfold cur_valid; rewrite B1, B2; exact Hc).
  assert (K : forall f, (forall t, tie_frame_eq (f t) t) ->
    exists s', Ok (upd_cur s2 f) = Ok s' /\
      s_cur s' = s_cur s /\ length (s_tracks s') = length (s_tracks s) /\
      (forall i d, i <> s_cur s -> nth i (s_tracks s') d = nth i (s_tracks s) d) /\
      s_set_tracks s' [] = s_set_octave_once (s_set_tracks s []) 0 /\
      tie_frame_eq (cur_track s')
                   (tr_set_octave (tr_set_timepos (cur_track s) (tr_timepos (cur_track s) + nl))
                                  (tr_octave (cur_track s) - s_octave_once s))).
  { intros f Hf. exists (upd_cur s2 f). destruct (upd_cur_facts s2 f Hc2) as [D1 [D2 [D3 [D4 D5]]]].
    split; [reflexivity|]. split; [rewrite D1; exact B1|]. split; [rewrite D2; exact B2|].
    split; [intros i d Hi; rewrite D3 by (rewrite B1; exact Hi); apply B3; exact Hi|].
    split; [rewrite D4; exact B4|]. rewrite D5, <- B6. apply Hf. }
  destruct (slur >=? 1).
  - apply K. intros t. unfold tie_frame_eq, push_tie_note. cbn. tauto.
  - destruct (negb match tr_tie_notes (cur_track s2) with [] => true | _ :: _ => false end).
    + apply K. intros t. pose proof (check_tie_frame_eq (s_timebase s2) (push_tie_note t ev)) as F.
      unfold tie_frame_eq in *. cbn [push_tie_note tr_set_tie tr_timepos tr_channel tr_length tr_octave tr_velocity tr_qlen
        tr_timing tr_track_key tr_tie_mode tr_tie_value] in F. exact F.
    + apply K. intros t.
      destruct (trk_ext_frame _ _ (write_cc_notes_ext t (tr_timepos (cur_track s)))) as (F1 & F2 & F3 & F4 & F5 & F6 & F7 & F8 & F9 & F10 & _).
      unfold tie_frame_eq, tr_push_event. cbn. tauto.
Qed.

(* what happens to the group: '&' collects, the first untied note closes and writes the group *)
Theorem emit_note_group s ev nl slur :
  cur_valid s -> s_harmony_flag s = false ->
  exists s', emit_note s ev nl true slur = Ok s' /\
    let t := cur_track s in let t' := cur_track s' in
    (1 <= slur -> tr_tie_notes t' = tr_tie_notes t ++ [ev] /\ tr_events t' = tr_events t) /\
    (slur < 1 -> tr_tie_notes t = [] -> tr_tie_notes t' = [] /\
       (* the controller values reserved for this note (y.onNote / y.onNoteWave) are written first; none on an idle track *)
       exists cc, Forall plain_ev cc /\ tr_events t' = tr_events t ++ cc ++ [ev] /\ (tr_rsv t = rsv_new -> cc = [])) /\
    (slur < 1 -> tr_tie_notes t <> [] -> tr_tie_notes t' = [] /\
       exists first rest, tr_tie_notes t ++ [ev] = first :: rest /\
         tr_events t' = tr_events t ++ tie_out (s_timebase s) t first rest).
Proof.
  intros Hc Hh. unfold emit_note.
  set (s1 := upd_cur s (fun t => tr_set_timepos t (tr_timepos t + nl))).
  destruct (upd_cur_facts s (fun t => tr_set_timepos t (tr_timepos t + nl)) Hc) as [A1 [A2 [_ [_ A5]]]]. fold s1 in A1, A2, A5.
  assert (Hc1 : cur_valid s1) by (unfold cur_valid; rewrite A1, A2; exact Hc).
  set (s2 := if s_octave_once s1 =? 0 then s1
             else s_set_octave_once (upd_cur s1 (fun t => tr_set_octave t (tr_octave t - s_octave_once s1))) 0).
  assert (B : cur_valid s2 /\ s_harmony_flag s2 = false /\ s_timebase s2 = s_timebase s /\
              tr_tie_notes (cur_track s2) = tr_tie_notes (cur_track s) /\ tr_events (cur_track s2) = tr_events (cur_track s) /\
              tie_frame_eq (cur_track s2) (tr_set_octave (tr_set_timepos (cur_track s) (tr_timepos (cur_track s) + nl))
                                                         (tr_octave (cur_track s) - s_octave_once s)) /\
              tr_bend_range (cur_track s2) = tr_bend_range (cur_track s) /\ tr_rsv (cur_track s2) = tr_rsv (cur_track s)).
  { subst s2. destruct (s_octave_once s1 =? 0) eqn:E.
    - split; [exact Hc1|]. split; [exact Hh|]. split; [reflexivity|]. rewrite A5. split; [reflexivity|]. split; [reflexivity|].
      split; [|split; reflexivity]. apply Z.eqb_eq in E. change (s_octave_once s1) with (s_octave_once s) in E. rewrite E, Z.sub_0_r.
      unfold tie_frame_eq. cbn. tauto.
    - destruct (upd_cur_facts s1 (fun t => tr_set_octave t (tr_octave t - s_octave_once s1)) Hc1) as [C1 [C2 [_ [_ C5]]]].
      split; [unfold cur_valid; cbn [s_set_octave_once s_cur s_tracks]; rewrite C1, C2; exact Hc1|].
      split; [exact Hh|]. split; [reflexivity|].
      unfold cur_track in *. cbn [s_set_octave_once s_tracks s_cur]. rewrite C5, A5.
      split; [reflexivity|]. split; [reflexivity|]. split; [|split; reflexivity]. unfold tie_frame_eq. cbn. tauto. }
  destruct B as [Hc2 [B5 [Btb [Bt [Be [Bf [Bbr Brs]]]]]]]. rewrite B5.
  destruct (slur >=? 1) eqn:S1.
  - eexists. split; [reflexivity|]. cbv zeta. destruct (upd_cur_facts s2 (fun t => push_tie_note t ev) Hc2) as [_ [_ [_ [_ D5]]]].
    rewrite D5. cbn [push_tie_note tr_set_tie tr_tie_notes tr_events]. rewrite Bt, Be.
    split; [intros _; split; reflexivity|]. split; intros; lia.
  - destruct (tr_tie_notes (cur_track s2)) as [|x l] eqn:T; cbn [negb].
    + eexists. split; [reflexivity|]. cbv zeta.
      destruct (upd_cur_facts s2 (fun t => tr_push_event (write_cc_notes t (tr_timepos (cur_track s))) ev) Hc2) as [_ [_ [_ [_ D5]]]].
      rewrite D5.
      destruct (trk_ext_frame _ _ (write_cc_notes_ext (cur_track s2) (tr_timepos (cur_track s))))
        as (_ & _ & _ & _ & _ & _ & _ & _ & _ & _ & _ & Ftn & cc & Hcc & Fev).
      cbn [tr_push_event tr_set_events tr_tie_notes tr_events]. rewrite Ftn, Fev, T, Be, <- Bt.
      split; [intros; lia|]. split; [|intros _ N; congruence].
      intros _ _. split; [reflexivity|]. exists cc. split; [exact Hcc|]. split; [rewrite <- app_assoc; reflexivity|].
      intros Hidle. rewrite <- Brs in Hidle.
      rewrite (write_cc_notes_idle (cur_track s2) _ Hidle) in Fev. rewrite Be in Fev.
      rewrite <- (app_nil_r (tr_events (cur_track s))) in Fev at 1. apply app_inv_head in Fev. symmetry. exact Fev.
    + eexists. split; [reflexivity|]. cbv zeta.
      destruct (upd_cur_facts s2 (fun t => check_tie_notes (s_timebase s2) (push_tie_note t ev)) Hc2) as [_ [_ [_ [_ D5]]]].
      rewrite D5. split; [intros; lia|]. split; [intros _ N; congruence|]. intros _ _.
      split; [apply check_clears|]. exists x, (l ++ [ev]). split; [rewrite <- Bt; reflexivity|].
      rewrite (check_spec (s_timebase s2) (push_tie_note (cur_track s2) ev) x (l ++ [ev]))
        by (cbn [push_tie_note tr_set_tie tr_tie_notes]; rewrite T; reflexivity).
      cbn [push_tie_note tr_set_tie tr_events]. rewrite Be, Btb. f_equal.
      destruct Bf as [_ [Fch [_ [_ [_ [_ [_ [_ [Fm Fv]]]]]]]]].
      cbn [tr_set_octave tr_set_timepos tr_channel tr_tie_mode tr_tie_value] in Fch, Fm, Fv.
      unfold tie_out. cbn [push_tie_note tr_set_tie tr_tie_mode tr_channel tr_bend_range tr_tie_value].
      rewrite Fch, Fm, Fv, Bbr. reflexivity.
Qed.

(* ------------------------------------------------------------------------------------------------ *)
(* 10. the final flush (generate -> flush_tie_notes): a group that ends the track is written          *)

Lemma single_note tb t e :
  tr_tie_notes t = [e] -> tr_tie_mode t <> 1 -> tr_events (check_tie_notes tb t) = tr_events t ++ [e].
Proof.
  intros G M. rewrite (check_spec tb t e [] G). cbn [tr_set_tie tr_events]. f_equal.
  assert (E : set_v2 e (e_time e + e_v2 e - e_time e) = e) by (destruct e as [ty tm c k gt vl dt]; unfold set_v2; cbn [e_type e_time e_ch e_v1 e_v2 e_v3 e_data]; f_equal; lia).
  unfold tie_out. apply Z.eqb_neq in M. rewrite M.
  destruct (tr_tie_mode t =? 2); [unfold out_gate, runs; cbn [runs_lr gate_notes]; rewrite E; reflexivity|].
  destruct (tr_tie_mode t =? 3); [unfold out_alpe, group_end; cbn [end_after map]; rewrite E; reflexivity|].
  unfold out_port, runs. cbn [runs_lr length Nat.leb port_out app]. rewrite E. reflexivity.
Qed.

(* whatever generate() does to a track after the flush (PlayFrom: `post`; nothing without PlayFrom), it does
   it to the event list AFTER check_tie_notes *)
Theorem flush_at_end s :
  length (tracks_for_writer s) = length (s_tracks s) /\
  (exists post : list event -> list event,
     (s_play_from s < 0 -> forall evs, post evs = evs) /\
     tracks_for_writer s = map (fun t => post (tr_events (check_tie_notes (s_timebase s) t))) (s_tracks s)) /\
  forall i t, nth_error (s_tracks s) i = Some t ->
    (s_play_from s < 0 ->
       nth_error (tracks_for_writer s) i = Some (tr_events (check_tie_notes (s_timebase s) t)))
    /\ (forall first rest, tr_tie_notes t = first :: rest ->
          tr_events (check_tie_notes (s_timebase s) t) = tr_events t ++ tie_out (s_timebase s) t first rest)
    /\ (tr_tie_notes t = [] -> tr_events (check_tie_notes (s_timebase s) t) = tr_events t)
    /\ (forall e, tr_tie_notes t = [e] -> tr_tie_mode t <> 1 ->
          tr_events (check_tie_notes (s_timebase s) t) = tr_events t ++ [e]).
Proof.
  assert (P : exists post : list event -> list event,
     (s_play_from s < 0 -> forall evs, post evs = evs) /\
     tracks_for_writer s = map (fun t => post (tr_events (check_tie_notes (s_timebase s) t))) (s_tracks s)).
  { eexists. split.
    2:{ unfold tracks_for_writer. apply map_ext. intros t. cbv zeta.
        set (E := tr_events (check_tie_notes (s_timebase s) t)). clearbody E. reflexivity. }
    intros Hpf evs. cbv beta. apply Z.ltb_lt in Hpf. rewrite Hpf. reflexivity. }
  split; [unfold tracks_for_writer; apply map_length|]. split; [exact P|]. intros i t H.
  split.
  { intros Hpf. destruct P as [post [P1 P2]]. rewrite P2.
    rewrite (map_nth_error (fun t0 => post (tr_events (check_tie_notes (s_timebase s) t0))) i (s_tracks s) H).
    rewrite (P1 Hpf). reflexivity. }
  split; [intros first rest G; rewrite (check_spec _ t first rest G); reflexivity|].
  split; [intros G; rewrite check_nil by exact G; reflexivity|].
  intros e G M. apply single_note; assumption.
Qed.

(* ------------------------------------------------------------------------------------------------ *)
(* 11. the statements of props/C13.v about "what check_tie_notes adds"                                *)

Theorem bend_in_range tb t :
  Forall (fun e => e_type e = NoteOn) (tr_tie_notes t) ->
  exists new, tr_events (check_tie_notes tb t) = tr_events t ++ new /\
              Forall (fun e => e_type e = PitchBend -> 0 <= e_v1 e <= 16383) new.
Proof.
  intros N. destruct (tr_tie_notes t) as [|first rest] eqn:G.
  - exists []. rewrite check_nil by exact G. rewrite app_nil_r. split; [reflexivity | constructor].
  - exists (tie_out tb t first rest). rewrite (check_spec tb t first rest G). split; [reflexivity|].
    apply (tie_out_facts tb t first rest N).
Qed.

Theorem no_double tb t :
  Forall (fun e => e_type e = NoteOn) (tr_tie_notes t) ->
  exists new, tr_events (check_tie_notes tb t) = tr_events t ++ new /\
    (note_count new <= length (tr_tie_notes t))%nat /\
    (tr_tie_mode t = 3 -> note_count new = length (tr_tie_notes t)) /\
    (tr_tie_mode t = 1 -> tr_tie_notes t <> [] -> note_count new = 1%nat) /\
    (tr_tie_mode t = 0 \/ tr_tie_mode t = 2 -> forall first rest, tr_tie_notes t = first :: rest ->
       note_count new = length (runs first rest) /\
       (neighbours_differ first rest -> note_count new = length (tr_tie_notes t))).
Proof.
  intros N. destruct (tr_tie_notes t) as [|first rest] eqn:G.
  - exists []. rewrite check_nil by exact G. rewrite app_nil_r. split; [reflexivity|]. split; [cbn; lia|].
    split; [reflexivity|]. split; [congruence|]. intros _ f r H. discriminate.
  - exists (tie_out tb t first rest). rewrite (check_spec tb t first rest G). split; [reflexivity|].
    destruct (tie_out_facts tb t first rest N) as [_ [C L]]. rewrite C. split; [|split; [|split]].
    + destruct (tr_tie_mode t =? 1); [cbn [length]; lia|]. destruct (tr_tie_mode t =? 3); [lia | exact L].
    + intros M. rewrite M. reflexivity.
    + intros M _. rewrite M. reflexivity.
    + intros M f r H. injection H as <- <-.
      assert (E : (tr_tie_mode t =? 1) = false /\ (tr_tie_mode t =? 3) = false) by (destruct M as [M|M]; rewrite M; split; reflexivity).
      destruct E as [E1 E3]. rewrite E1, E3. split; [reflexivity|]. intros D.
      unfold runs. destruct (runs_lr_distinct rest first (e_time first + e_v2 first) D) as [_ B]. rewrite B. reflexivity.
Qed.

(* mode 2, read run by run *)
Theorem mode_gate_runs tb t first rest :
  tr_tie_notes t = first :: rest -> tr_tie_mode t = 2 ->
  let rs := runs first rest in
  let tv := tr_tie_value t in
  exists out, tr_events (check_tie_notes tb t) = tr_events t ++ out /\ length out = length rs /\
    forall i d, (i < length rs)%nat ->
      let h := fst (nth i rs (d, 0)) in
      nth i out d =
        set_v2 h (if (S i <? length rs)%nat
                  then (if tv =? 0 then e_time (fst (nth (S i) rs (d, 0))) - e_time h else tv)
                  else group_end first rest - e_time h).
Proof.
  intros G M. cbv zeta. destruct (mode_gate_spec tb t first rest G M) as [A [B _]].
  exists (gate_notes (tr_tie_value t) (runs first rest)). split; [exact A|]. split; [exact B|].
  intros i d Hi. rewrite gate_notes_nth by exact Hi.
  destruct (S i <? length (runs first rest))%nat eqn:E; [reflexivity|].
  apply Nat.ltb_ge in E. assert (Hl : i = (length (runs first rest) - 1)%nat) by lia.
  f_equal. f_equal. unfold runs, group_end in *. rewrite Hl.
  rewrite <- (runs_lr_last_end rest first (e_time first + e_v2 first) (d, 0)).
  destruct (runs_lr first (e_time first + e_v2 first) rest) as [|p l] eqn:R; [cbn in Hi; lia|].
  clear. cbn [length]. replace (S (length l) - 1)%nat with (length l) by lia.
  revert p. induction l as [|q l IH]; intros p; [reflexivity|].
  change (nth (length (q :: l)) (p :: q :: l) (d, 0)) with (nth (length l) (q :: l) (d, 0)).
  change (last (p :: q :: l) (d, 0)) with (last (q :: l) (d, 0)). apply IH.
Qed.
