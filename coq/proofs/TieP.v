(* C13 - ties and slurs: check_tie_notes and the four Slur modes (model/Tie.v), for ARBITRARY tied groups
   (induction over the list of collected notes), the slur branch of RunCore.emit_note, and the final flush
   of Compile.tracks_for_writer.  Vocabulary of the statements (runs of equal pitch, end of the group, the
   events each mode must write) is defined first and characterised independently of the model's loops. *)
From Sakura.Model Require Import Base Event Song F32 Tie RunCore Compile.
From Coq Require Import Lia Sorted.
Open Scope Z_scope.

(* ------------------------------------------------------------------------------------------------ *)
(* 0. vocabulary                                                                                      *)

(* a group is `first :: rest`, the notes in the order written.  Its end: where the LAST note's gate ends *)
Fixpoint end_after (rest : list event) (en : Z) : Z :=
  match rest with [] => en | next :: r => end_after r (e_time next + e_v2 next) end.
Definition group_end (first : event) (rest : list event) : Z := end_after rest (e_time first + e_v2 first).

(* maximal runs of equal pitch, left to right: (first note of the run, end of the run's last note) *)
Fixpoint runs_lr (head : event) (en : Z) (rest : list event) : list (event * Z) :=
  match rest with
  | [] => [(head, en)]
  | next :: r =>
      if e_v1 head =? e_v1 next then runs_lr head (e_time next + e_v2 next) r
      else (head, en) :: runs_lr next (e_time next + e_v2 next) r
  end.
Definition runs (first : event) (rest : list event) : list (event * Z) :=
  runs_lr first (e_time first + e_v2 first) rest.

(* what "maximal runs of equal pitch" means, without reference to any loop: the group is cut into
   consecutive non-empty blocks h :: blk of one pitch, neighbouring blocks differ in pitch, and each block
   is reported as (h, end of its last note) *)
Inductive is_runs : list event -> list (event * Z) -> Prop :=
| IR_nil : is_runs [] []
| IR_cons : forall h blk tail rs,
    Forall (fun e => e_v1 e = e_v1 h) blk ->
    match tail with [] => True | h' :: _ => e_v1 h' <> e_v1 h end ->
    is_runs tail rs ->
    is_runs (h :: blk ++ tail) ((h, let l := last blk h in e_time l + e_v2 l) :: rs).

Definition note_count (l : list event) : nat := length (filter (fun e => etype_eqb (e_type e) NoteOn) l).
Definition is_bend (e : event) : Prop := e_type e = PitchBend.

(* the announcement of the bend range (RPN 0,0 = 12), once per track, one tick before the group (or at 0) *)
Definition announce_time (first_time : Z) : Z := if first_time <=? 0 then 0 else first_time - 1.
Definition announce (ch br first_time : Z) : list event :=
  if br <=? 0 then [ev_pitch_bend_range (announce_time first_time) ch 12] else [].
Definition eff_br (br : Z) : Z := if br <=? 0 then 12 else br.
Definition eff_tv (tb tv : Z) : Z := if tv =? 0 then Z.quot (tb * 4) 8 else tv.

(* mode 1: (diff as f32 * 8192f32 / range as f32) as isize + 8192, clamped *)
Definition bend_value (diff br : Z) : Z :=
  value_range 0 (f32_to_Z (f32_div (f32_mul (f32_of_Z diff) (f32_of_Z 8192)) (f32_of_Z br)) + 8192) 16383.
(* mode 0: the bend the glide arrives at, and the value at step i of tv *)
Definition bend_from (diff br : Z) : Z := f32_to_Z (f32_mul (f32_of_Z diff) (f32_div (f32_of_Z 8192) (f32_of_Z br))).
Definition port_v (bf i tv : Z) : Z := f32_to_Z (f32_mul (f32_of_Z bf) (f32_div (f32_of_Z i) (f32_of_Z tv))).

(* mode 2 *)
Fixpoint gate_notes (tv : Z) (rs : list (event * Z)) : list event :=
  match rs with
  | [] => []
  | (h, en) :: rs' =>
      set_v2 h (match rs' with
                | [] => en - e_time h
                | (h', _) :: _ => if tv =? 0 then e_time h' - e_time h else tv
                end) :: gate_notes tv rs'
  end.

(* mode 0 *)
Definition port_ramp (ch tv br : Z) (h h' : event) : list event :=
  port_bends (Z.to_nat tv) 0 tv (e_time h') ch (bend_from (e_v1 h' - e_v1 h) br) 0.
Fixpoint port_out (ch tv br : Z) (rs : list (event * Z)) : list event :=
  match rs with
  | [] => []
  | (h, en) :: rs' =>
      match rs' with
      | [] => [set_v2 h (en - e_time h)]
      | (h', _) :: _ =>
          port_ramp ch tv br h h' ++ [set_v2 h (e_time h' - e_time h); ev_pitch_bend (e_time h') ch 8192]
          ++ port_out ch tv br rs'
      end
  end.

(* the events check_tie_notes must append for the group first :: rest, per mode *)
Definition out_alpe (first : event) (rest : list event) : list event :=
  map (fun e => set_v2 e (group_end first rest - e_time e)) (first :: rest).
Definition out_gate (tv : Z) (first : event) (rest : list event) : list event := gate_notes tv (runs first rest).
Definition out_bend (ch br : Z) (first : event) (rest : list event) : list event :=
  announce ch br (e_time first) ++ [ev_pitch_bend (e_time first) ch 8192]
  ++ map (fun p => ev_pitch_bend (e_time (fst p)) ch (bend_value (e_v1 (fst p) - e_v1 first) (eff_br br))) (tl (runs first rest))
  ++ [set_v2 first (group_end first rest - e_time first); ev_pitch_bend (group_end first rest) ch 8192].
Definition out_port (tb ch tv br : Z) (first : event) (rest : list event) : list event :=
  (if (2 <=? length (runs first rest))%nat then announce ch br (e_time first) else [])
  ++ port_out ch (eff_tv tb tv) (eff_br br) (runs first rest).

Definition tie_out (tb : Z) (t : track) (first : event) (rest : list event) : list event :=
  let m := tr_tie_mode t in
  if m =? 1 then out_bend (tr_channel t) (tr_bend_range t) first rest
  else if m =? 2 then out_gate (tr_tie_value t) first rest
  else if m =? 3 then out_alpe first rest
  else out_port tb (tr_channel t) (tr_tie_value t) (tr_bend_range t) first rest.
Definition tie_bend_range (t : track) (first : event) (rest : list event) : Z :=
  let m := tr_tie_mode t in
  if m =? 1 then eff_br (tr_bend_range t)
  else if (m =? 2) || (m =? 3) then tr_bend_range t
  else if (2 <=? length (runs first rest))%nat then eff_br (tr_bend_range t) else tr_bend_range t.

(* ------------------------------------------------------------------------------------------------ *)
(* 1. events and runs                                                                                 *)

Lemma set_v2_eta e : set_v2 e (e_v2 e) = e.
Proof. destruct e; reflexivity. Qed.
Lemma set_v2_set_v2 e a b : set_v2 (set_v2 e a) b = set_v2 e b.
Proof. reflexivity. Qed.

Lemma last_default {A} : forall (l : list A) (a d d' : A), last (a :: l) d = last (a :: l) d'.
Proof. induction l as [|b l IH]; intros a d d'; [reflexivity|]. change (last (b :: l) d = last (b :: l) d'). apply IH. Qed.

Lemma end_after_last : forall rest first,
  end_after rest (e_time first + e_v2 first) = e_time (last rest first) + e_v2 (last rest first).
Proof.
  induction rest as [|x r IH]; intros first; [reflexivity|].
  cbn [end_after]. rewrite IH. destruct r as [|y r]; [reflexivity|].
  change (last (x :: y :: r) first) with (last (y :: r) first). rewrite (last_default r y x first). reflexivity.
Qed.

Lemma group_end_last first rest : group_end first rest = (let l := last rest first in e_time l + e_v2 l).
Proof. unfold group_end. apply end_after_last. Qed.

Lemma group_end_last_full first rest :
  group_end first rest = (let l := last (first :: rest) first in e_time l + e_v2 l).
Proof. rewrite group_end_last. destruct rest; reflexivity. Qed.

Lemma runs_lr_cons : forall r h en, exists en', runs_lr h en r = (h, en') :: tl (runs_lr h en r).
Proof.
  induction r as [|x r IH]; intros h en; cbn [runs_lr].
  - exists en. reflexivity.
  - destruct (e_v1 h =? e_v1 x); [apply IH | eexists; reflexivity].
Qed.

Lemma runs_lr_length : forall r h en, (1 <= length (runs_lr h en r) <= S (length r))%nat.
Proof.
  induction r as [|x r IH]; intros h en; cbn [runs_lr length]; [lia|].
  destruct (e_v1 h =? e_v1 x).
  - specialize (IH h (e_time x + e_v2 x)). lia.
  - cbn [length]. specialize (IH x (e_time x + e_v2 x)). lia.
Qed.

(* the end recorded for the last run is the end of the group *)
Lemma runs_lr_last_end : forall r h en d,
  snd (last (runs_lr h en r) d) = end_after r en.
Proof.
  induction r as [|x r IH]; intros h en d; cbn [runs_lr end_after]; [reflexivity|].
  destruct (e_v1 h =? e_v1 x); [apply IH|].
  rewrite <- (IH x (e_time x + e_v2 x) d). destruct (runs_lr_cons r x (e_time x + e_v2 x)) as [e' E]. rewrite E.
  reflexivity.
Qed.

(* all notes of one pitch: a single run *)
Lemma runs_lr_same : forall r h en, Forall (fun e => e_v1 e = e_v1 h) r -> runs_lr h en r = [(h, end_after r en)].
Proof.
  induction r as [|x r IH]; intros h en H; cbn [runs_lr end_after]; [reflexivity|].
  inversion H as [|? ? Hx Hr]; subst. rewrite Hx, Z.eqb_refl. apply IH. exact Hr.
Qed.

(* all pitches different from their neighbour: one run per note *)
Fixpoint neighbours_differ (h : event) (r : list event) : Prop :=
  match r with [] => True | x :: r' => e_v1 h <> e_v1 x /\ neighbours_differ x r' end.
Lemma runs_lr_distinct : forall r h en, neighbours_differ h r ->
  map fst (runs_lr h en r) = h :: r /\ length (runs_lr h en r) = S (length r).
Proof.
  induction r as [|x r IH]; intros h en H; cbn [runs_lr]; [split; reflexivity|].
  destruct H as [H1 H2]. apply Z.eqb_neq in H1. rewrite H1. cbn [map fst length].
  destruct (IH x (e_time x + e_v2 x) H2) as [A B]. rewrite A, B. split; reflexivity.
Qed.

(* runs really are the maximal runs of equal pitch *)
Lemma runs_lr_is_runs : forall r h en0 pre,
  Forall (fun e => e_v1 e = e_v1 h) pre ->
  en0 = (let l := last pre h in e_time l + e_v2 l) ->
  exists blk tail rs,
    pre ++ r = blk ++ tail /\ Forall (fun e => e_v1 e = e_v1 h) blk /\
    match tail with [] => True | h' :: _ => e_v1 h' <> e_v1 h end /\
    is_runs tail rs /\
    runs_lr h en0 r = (h, let l := last blk h in e_time l + e_v2 l) :: rs.
Proof.
  induction r as [|x r IH]; intros h en0 pre Hpre Hen.
  - exists pre, [], []. rewrite app_nil_r. repeat split; try assumption; try constructor.
    cbn [runs_lr]. rewrite Hen. reflexivity.
  - cbn [runs_lr]. destruct (e_v1 h =? e_v1 x) eqn:E.
    + apply Z.eqb_eq in E.
      destruct (IH h (e_time x + e_v2 x) (pre ++ [x])) as [blk [tail [rs [A [B [C [D F]]]]]]].
      * apply Forall_app. split; [exact Hpre | constructor; [symmetry; exact E | constructor]].
      * rewrite last_last. reflexivity.
      * exists blk, tail, rs. rewrite <- app_assoc in A. cbn [app] in A. repeat split; assumption.
    + apply Z.eqb_neq in E.
      destruct (IH x (e_time x + e_v2 x) []) as [blk [tail [rs [A [B [C [D F]]]]]]]; [constructor | reflexivity |].
      exists pre, (x :: r), ((x, let l := last blk x in e_time l + e_v2 l) :: rs).
      split; [reflexivity|]. split; [exact Hpre|]. split; [congruence|]. split.
      * cbn [app] in A. rewrite A. apply IR_cons; assumption.
      * rewrite Hen, F. reflexivity.
Qed.

Theorem runs_is_runs first rest : is_runs (first :: rest) (runs first rest).
Proof.
  destruct (runs_lr_is_runs rest first (e_time first + e_v2 first) []) as [blk [tail [rs [A [B [C [D F]]]]]]];
    [constructor | reflexivity |].
  unfold runs. rewrite F. cbn [app] in A. rewrite A. apply IR_cons; assumption.
Qed.

(* ------------------------------------------------------------------------------------------------ *)
(* 2. mode 2 (gate)                                                                                   *)

Lemma gate_loop_spec : forall rest h v tv events,
  gate_loop rest (set_v2 h v) tv events = events ++ gate_notes tv (runs_lr h (e_time h + v) rest).
Proof.
  induction rest as [|x r IH]; intros h v tv events.
  - cbn [gate_loop runs_lr gate_notes]. do 2 f_equal. destruct h; cbn. f_equal. lia.
  - cbn [gate_loop runs_lr]. change (e_v1 (set_v2 h v)) with (e_v1 h). change (e_time (set_v2 h v)) with (e_time h).
    destruct (e_v1 h =? e_v1 x) eqn:E.
    + rewrite set_v2_set_v2, IH. do 3 f_equal. lia.
    + rewrite set_v2_set_v2. rewrite <- (set_v2_eta x) at 1. rewrite IH. rewrite <- app_assoc. f_equal.
      destruct (runs_lr_cons r x (e_time x + e_v2 x)) as [e' H]. rewrite H. reflexivity.
Qed.

Lemma gate_notes_length tv rs : length (gate_notes tv rs) = length rs.
Proof. induction rs as [|[h en] rs IH]; cbn [gate_notes length]; [reflexivity | rewrite IH; reflexivity]. Qed.

(* pointwise reading of gate_notes: run i sounds its first note, until run i+1 begins / for tv ticks / to its own end *)
Lemma gate_notes_nth tv : forall rs i d, (i < length rs)%nat ->
  nth i (gate_notes tv rs) d =
    set_v2 (fst (nth i rs (d, 0)))
           (if (S i <? length rs)%nat
            then (if tv =? 0 then e_time (fst (nth (S i) rs (d, 0))) - e_time (fst (nth i rs (d, 0))) else tv)
            else snd (nth i rs (d, 0)) - e_time (fst (nth i rs (d, 0)))).
Proof.
  induction rs as [|[h en] rs IH]; intros i d Hi; cbn [length] in Hi; [lia|].
  destruct i as [|i].
  - cbn [gate_notes nth fst snd length]. destruct rs as [|[h' en'] rs']; reflexivity.
  - cbn [gate_notes nth length]. rewrite IH by lia.
    change (S (S i) <? S (length rs))%nat with (S i <? length rs)%nat. reflexivity.
Qed.

(* ------------------------------------------------------------------------------------------------ *)
(* 3. mode 1 (bend)                                                                                   *)

Lemma bend_loop_spec : forall rest last begin ch br lp events en,
  bend_loop rest last begin ch br lp events =
    (end_after rest lp,
     events ++ map (fun p => ev_pitch_bend (e_time (fst p)) ch (bend_value (e_v1 (fst p) - e_v1 begin) br))
                   (tl (runs_lr last en rest))).
Proof.
  induction rest as [|x r IH]; intros last begin ch br lp events en.
  - cbn [bend_loop end_after runs_lr tl map]. rewrite app_nil_r. reflexivity.
  - cbn [bend_loop end_after runs_lr]. destruct (e_v1 last =? e_v1 x) eqn:E.
    + apply IH.
    + rewrite (IH x begin ch br _ _ (e_time x + e_v2 x)). f_equal. rewrite <- app_assoc. f_equal.
      cbn [tl]. destruct (runs_lr_cons r x (e_time x + e_v2 x)) as [e' H]. rewrite H at 2.
      cbn [map fst app]. reflexivity.
Qed.

(* ------------------------------------------------------------------------------------------------ *)
(* 4. mode 0 (portamento)                                                                             *)

Lemma eff_br_idem br : eff_br (eff_br br) = eff_br br.
Proof. unfold eff_br. destruct (br <=? 0) eqn:A; [reflexivity | rewrite A; reflexivity]. Qed.
Lemma eff_br_pos br : (eff_br br <=? 0) = false.
Proof. unfold eff_br. destruct (br <=? 0) eqn:A; [reflexivity | exact A]. Qed.
Lemma eff_tv_idem tb tv : eff_tv tb (eff_tv tb tv) = eff_tv tb tv.
Proof.
  unfold eff_tv. destruct (tv =? 0) eqn:A.
  - destruct (Z.quot (tb * 4) 8 =? 0) eqn:B; reflexivity.
  - rewrite A. reflexivity.
Qed.

Lemma ensure_bend_range_spec ch br ft events :
  ensure_bend_range ch br ft events = (eff_br br, events ++ announce ch br ft).
Proof.
  unfold ensure_bend_range, eff_br, announce, announce_time. destruct (br <=? 0); [reflexivity|].
  rewrite app_nil_r. reflexivity.
Qed.

Lemma port_loop_spec : forall rest h v tb ch tv br events,
  port_loop rest (set_v2 h v) tb ch tv br events =
    (let rs := runs_lr h (e_time h + v) rest in
     (if (2 <=? length rs)%nat then eff_br br else br,
      events ++ (if (2 <=? length rs)%nat then announce ch br (e_time h) else [])
             ++ port_out ch (eff_tv tb tv) (eff_br br) rs)).
Proof.
  induction rest as [|x r IH]; intros h v tb ch tv br events.
  - cbn [port_loop runs_lr length Nat.leb port_out app]. do 3 f_equal. destruct h; cbn. f_equal. lia.
  - cbn [port_loop runs_lr]. change (e_v1 (set_v2 h v)) with (e_v1 h). change (e_time (set_v2 h v)) with (e_time h).
    destruct (e_v1 h =? e_v1 x) eqn:E.
    + rewrite set_v2_set_v2, IH. cbv zeta.
      replace (e_time h + (e_time x + e_v2 x - e_time h)) with (e_time x + e_v2 x) by lia. reflexivity.
    + rewrite ensure_bend_range_spec. rewrite set_v2_set_v2.
      fold (eff_tv tb tv).
      pose proof (IH x (e_v2 x)) as IH'. rewrite set_v2_eta in IH'. rewrite IH'. cbv zeta.
      rewrite eff_br_idem, eff_tv_idem.
      assert (A2 : announce ch (eff_br br) (e_time x) = []).
      { unfold announce. rewrite eff_br_pos. reflexivity. }
      rewrite A2.
      set (b := (2 <=? length (runs_lr x (e_time x + e_v2 x) r))%nat).
      destruct (runs_lr_cons r x (e_time x + e_v2 x)) as [e' H]. rewrite H.
      cbn [length Nat.leb port_out]. unfold port_ramp, bend_from.
      f_equal; [destruct b; reflexivity|].
      destruct b; cbn [app]; rewrite <- !app_assoc; cbn [app]; reflexivity.
Qed.

(* the glide: every event is a clamped bend at a tick of [next - tv, next), ticks strictly increasing *)
Lemma port_bends_shape : forall n i tv nt ch bf lv,
  Forall (fun e => exists j, i <= j < i + Z.of_nat n /\
                   e = ev_pitch_bend (nt - tv + j) ch (value_range 0 (port_v bf j tv + 8192) 16383))
         (port_bends n i tv nt ch bf lv)
  /\ StronglySorted (fun a b => e_time a < e_time b) (port_bends n i tv nt ch bf lv).
Proof.
  induction n as [|k IH]; intros i tv nt ch bf lv; cbn [port_bends]; [split; constructor|].
  fold (port_v bf i tv).
  assert (W : forall lv', Forall (fun e => exists j, i <= j < i + Z.of_nat (S k) /\
                   e = ev_pitch_bend (nt - tv + j) ch (value_range 0 (port_v bf j tv + 8192) 16383))
                   (port_bends k (i + 1) tv nt ch bf lv')).
  { intros lv'. destruct (IH (i + 1) tv nt ch bf lv') as [A _]. eapply Forall_impl; [|exact A].
    cbv beta. intros e [j [Hj He]]. exists j. split; [lia | exact He]. }
  destruct (lv =? port_v bf i tv).
  - split; [apply W | apply IH].
  - split.
    + constructor; [exists i; split; [lia | reflexivity] | apply W].
    + constructor; [apply IH|].
      destruct (IH (i + 1) tv nt ch bf (port_v bf i tv)) as [A _]. eapply Forall_impl; [|exact A].
      cbv beta. intros e [j [Hj ->]]. cbn [e_time ev_pitch_bend]. lia.
Qed.

Lemma port_ramp_shape ch tv br h h' :
  Forall (fun e => exists j, 0 <= j < tv /\
                   e = ev_pitch_bend (e_time h' - tv + j) ch
                         (value_range 0 (port_v (bend_from (e_v1 h' - e_v1 h) br) j tv + 8192) 16383))
         (port_ramp ch tv br h h')
  /\ StronglySorted (fun a b => e_time a < e_time b) (port_ramp ch tv br h h').
Proof.
  unfold port_ramp. destruct (port_bends_shape (Z.to_nat tv) 0 tv (e_time h') ch (bend_from (e_v1 h' - e_v1 h) br) 0) as [A B].
  split; [|exact B]. eapply Forall_impl; [|exact A]. cbv beta. intros e [j [Hj He]]. exists j. split; [lia | exact He].
Qed.

(* ------------------------------------------------------------------------------------------------ *)
(* 5. check_tie_notes                                                                                 *)

Theorem check_spec tb t first rest :
  tr_tie_notes t = first :: rest ->
  check_tie_notes tb t =
    tr_set_tie t (tr_tie_mode t) (tr_tie_value t) (tie_bend_range t first rest)
               (tr_events t ++ tie_out tb t first rest) [].
Proof.
  intros G. unfold check_tie_notes, tie_out, tie_bend_range. rewrite G. cbv zeta.
  destruct (tr_tie_mode t =? 1) eqn:M1.
  - rewrite ensure_bend_range_spec.
    rewrite (bend_loop_spec rest first first (tr_channel t) (eff_br (tr_bend_range t)) _ _ (e_time first + e_v2 first)).
    unfold out_bend, runs, group_end. rewrite <- !app_assoc. reflexivity.
  - destruct (tr_tie_mode t =? 2) eqn:M2.
    + cbn [orb]. rewrite <- (set_v2_eta first) at 1. rewrite gate_loop_spec. reflexivity.
    + destruct (tr_tie_mode t =? 3) eqn:M3.
      * cbn [orb]. unfold out_alpe. rewrite group_end_last_full. reflexivity.
      * cbn [orb]. rewrite <- (set_v2_eta first) at 1. rewrite port_loop_spec. cbv zeta.
        unfold out_port, runs. reflexivity.
Qed.

Lemma check_nil tb t : tr_tie_notes t = [] -> check_tie_notes tb t = t.
Proof. intros G. unfold check_tie_notes. rewrite G. reflexivity. Qed.

Theorem check_clears tb t : tr_tie_notes (check_tie_notes tb t) = [].
Proof.
  destruct (tr_tie_notes t) as [|first rest] eqn:G.
  - rewrite check_nil by exact G. exact G.
  - rewrite (check_spec tb t first rest G). reflexivity.
Qed.

Theorem check_frame tb t :
  let t' := check_tie_notes tb t in
  tr_timepos t' = tr_timepos t /\ tr_channel t' = tr_channel t /\ tr_length t' = tr_length t /\
  tr_octave t' = tr_octave t /\ tr_velocity t' = tr_velocity t /\ tr_qlen t' = tr_qlen t /\
  tr_timing t' = tr_timing t /\ tr_track_key t' = tr_track_key t /\
  tr_tie_mode t' = tr_tie_mode t /\ tr_tie_value t' = tr_tie_value t /\
  (exists new, tr_events t' = tr_events t ++ new) /\
  (tr_bend_range t' = tr_bend_range t \/ (tr_bend_range t <= 0 /\ tr_bend_range t' = 12)).
Proof.
  cbv zeta. destruct (tr_tie_notes t) as [|first rest] eqn:G.
  - rewrite check_nil by exact G. repeat split; try reflexivity; [exists []; rewrite app_nil_r; reflexivity | left; reflexivity].
  - rewrite (check_spec tb t first rest G). cbn [tr_set_tie tr_timepos tr_channel tr_length tr_octave tr_velocity tr_qlen
      tr_timing tr_track_key tr_tie_mode tr_tie_value tr_events tr_bend_range].
    repeat split; try reflexivity; [eexists; reflexivity|].
    unfold tie_bend_range, eff_br. destruct (tr_bend_range t <=? 0) eqn:B.
    + apply Z.leb_le in B.
      destruct (tr_tie_mode t =? 1); [right; split; [exact B | reflexivity]|].
      destruct ((tr_tie_mode t =? 2) || (tr_tie_mode t =? 3)); [left; reflexivity|].
      destruct (2 <=? length (runs first rest))%nat; [right; split; [exact B | reflexivity] | left; reflexivity].
    + left. destruct (tr_tie_mode t =? 1); [reflexivity|].
      destruct ((tr_tie_mode t =? 2) || (tr_tie_mode t =? 3)); [reflexivity|].
      destruct (2 <=? length (runs first rest))%nat; reflexivity.
Qed.
