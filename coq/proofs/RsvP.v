(* What the reservation methods (model/Reserve.v, used by the pipeline through RunRsv) do to a pipeline track:
   they add controller / pitch-bend events - channel events without payload - and rewrite tr_rsv (and velocity /
   gate / timing / octave for the on-note lists); pointer, channel, length, keys, tie state, pending tie notes and
   the events already written are never touched.  For ALL tracks (no idleness assumed). *)
From Sakura.Model Require Import Base Cursor Length Event Song Token LoopMachine LexCore RunCore Tie RunRsv.
From Sakura.Model Require Reserve.
From Sakura.Proofs Require Import ExtP.
From Coq Require Import Lia.
Open Scope Z_scope.

(* ---- Reserve level: every method is `events := events ++ new` plus changes of reservation fields ---- *)
Lemma ramp_events_all (P : event -> Prop) mk base freq maxv seg :
  (forall t v, P (mk t v)) -> Forall P (Reserve.ramp_events mk base freq maxv seg).
Proof.
  intros H. destruct seg as [[lo hi] len]. unfold Reserve.ramp_events.
  induction (Reserve.zrange len) as [|j l IH]; cbn [flat_map]; [constructor|].
  apply Forall_app. split; [|exact IH]. destruct (_ =? 0); [constructor; [apply H|constructor]|constructor].
Qed.
Lemma ramp_segments_all (P : event -> Prop) mk freq maxv : (forall t v, P (mk t v)) ->
  forall segs base, Forall P (Reserve.ramp_segments mk base freq maxv segs).
Proof.
  intros H. induction segs as [|seg r IH]; intros base; cbn [Reserve.ramp_segments]; [constructor|].
  apply Forall_app. split; [apply ramp_events_all, H|apply IH].
Qed.

Lemma ev_cc_plain t c n v : plain_ev (ev_cc t c n v).
Proof. split; [reflexivity|exact I]. Qed.
Lemma ev_pb_plain t c v : plain_ev (ev_pitch_bend t c v).
Proof. split; [reflexivity|exact I]. Qed.

(* a Reserve track that differs from k only in the events (extended by plain ones) and in the controller lists *)
Definition ev_ext (k k' : Reserve.track) : Prop :=
  exists E cl cw, Forall plain_ev E /\
    k' = Reserve.set_cc_wave_list (Reserve.set_cc_list (Reserve.set_events k (Reserve.tr_events k ++ E)) cl) cw.

Lemma ev_ext_refl_with k E : Forall plain_ev E -> ev_ext k (Reserve.set_events k (Reserve.tr_events k ++ E)).
Proof. intros H. exists E, (Reserve.tr_cc_on_note k), (Reserve.tr_cc_on_note_wave k). split; [exact H|]. destruct k; reflexivity. Qed.
Lemma ev_ext_refl k : ev_ext k k.
Proof.
  exists [], (Reserve.tr_cc_on_note k), (Reserve.tr_cc_on_note_wave k). split; [constructor|].
  destruct k; cbn. rewrite app_nil_r. reflexivity.
Qed.
Lemma ev_ext_trans a b c : ev_ext a b -> ev_ext b c -> ev_ext a c.
Proof.
  intros (E1 & l1 & w1 & H1 & ->) (E2 & l2 & w2 & H2 & ->).
  exists (E1 ++ E2), l2, w2. split; [apply Forall_app; split; assumption|].
  destruct a; cbn. rewrite app_assoc. reflexivity.
Qed.

Lemma write_cc_on_time_ext k cc ia : ev_ext k (Reserve.write_cc_on_time k cc ia).
Proof. apply ev_ext_refl_with. apply ramp_segments_all. intros t v. apply ev_cc_plain. Qed.
Lemma write_pb_on_time_ext k b ia tb : ev_ext k (Reserve.write_pb_on_time k b ia tb).
Proof. apply ev_ext_refl_with. apply ramp_segments_all. intros t v. apply ev_pb_plain. Qed.
Lemma set_cc_list_ext k l : ev_ext k (Reserve.set_cc_list k l).
Proof.
  exists [], l, (Reserve.tr_cc_on_note_wave k). split; [constructor|]. destruct k; cbn. rewrite app_nil_r. reflexivity.
Qed.
Lemma set_cc_wave_list_ext k l : ev_ext k (Reserve.set_cc_wave_list k l).
Proof.
  exists [], (Reserve.tr_cc_on_note k), l. split; [constructor|]. destruct k; cbn. rewrite app_nil_r. reflexivity.
Qed.
Lemma remove_cc_on_ext k no : ev_ext k (Reserve.remove_cc_on k no).
Proof.
  unfold Reserve.remove_cc_on, Reserve.remove_cc_on_note_wave, Reserve.remove_cc_on_note.
  eapply ev_ext_trans; [apply set_cc_list_ext|apply set_cc_wave_list_ext].
Qed.
Lemma remove_cc_on_note_wave_ext k no : ev_ext k (Reserve.remove_cc_on_note_wave k no).
Proof. apply set_cc_wave_list_ext. Qed.
Lemma set_cc_on_note_ext k no ia : ev_ext k (Reserve.set_cc_on_note k no ia).
Proof. unfold Reserve.set_cc_on_note. eapply ev_ext_trans; [apply remove_cc_on_ext|apply set_cc_list_ext]. Qed.
Lemma set_cc_on_note_wave_ext k no ia : ev_ext k (Reserve.set_cc_on_note_wave k no ia).
Proof. unfold Reserve.set_cc_on_note_wave. eapply ev_ext_trans; [apply remove_cc_on_ext|apply set_cc_wave_list_ext]. Qed.

Lemma cc_note_events_plain sp ch l : Forall plain_ev (Reserve.cc_note_events sp ch l).
Proof.
  unfold Reserve.cc_note_events. induction l as [|c l IH]; cbn [flat_map]; [constructor|].
  apply Forall_app. split; [|exact IH]. destruct (Reserve.cc_pending c); [constructor; [apply ev_cc_plain|constructor]|constructor].
Qed.
Lemma write_cc_on_note_ext k sp : ev_ext k (Reserve.write_cc_on_note k sp).
Proof.
  unfold Reserve.write_cc_on_note.
  eapply ev_ext_trans; [apply ev_ext_refl_with, cc_note_events_plain|apply set_cc_list_ext].
Qed.

(* set_timepos commutes with the extension *)
Lemma wave_fold_ext l : forall k,
  ev_ext k (fold_left (fun t cow => Reserve.write_cc_on_time t (Reserve.cc_no cow) (Reserve.cc_data cow)) l k).
Proof.
  induction l as [|c l IH]; intros k; cbn [fold_left]; [apply ev_ext_refl|].
  eapply ev_ext_trans; [apply write_cc_on_time_ext|apply IH].
Qed.
Lemma write_cc_on_note_wave_ext k sp : ev_ext k (Reserve.write_cc_on_note_wave k sp).
Proof.
  unfold Reserve.write_cc_on_note_wave.
  destruct (wave_fold_ext (Reserve.tr_cc_on_note_wave k) (Reserve.set_timepos k sp)) as (E & cl & cw & HE & ->).
  exists E, cl, cw. split; [exact HE|]. destruct k; reflexivity.
Qed.

(* ---- pipeline level ---- *)
(* t' is t with further plain events and another reservation state *)
Definition trk_ext (t t' : track) : Prop :=
  exists E r, Forall plain_ev E /\ t' = tr_set_rsv (tr_set_events t (tr_events t ++ E)) r.

Lemma trk_ext_refl t : trk_ext t t.
Proof. exists [], (tr_rsv t). split; [constructor|]. destruct t; cbn. rewrite app_nil_r. reflexivity. Qed.
Lemma trk_ext_trans a b c : trk_ext a b -> trk_ext b c -> trk_ext a c.
Proof.
  intros (E1 & r1 & H1 & ->) (E2 & r2 & H2 & ->). exists (E1 ++ E2), r2. split; [apply Forall_app; split; assumption|].
  destruct a; cbn. rewrite app_assoc. reflexivity.
Qed.
Lemma on_rt_ext t f : ev_ext (to_rtrack t) (f (to_rtrack t)) -> trk_ext t (on_rt t f).
Proof.
  intros (E & cl & cw & HE & Hf). unfold on_rt. rewrite Hf. exists E. eexists. split; [exact HE|].
  destruct t as [x1 x2 x3 x4 x5 x6 x7 x8 x9 x10 x11 x12 x13 r]. destruct r. reflexivity.
Qed.

Lemma write_cc_notes_ext t sp : trk_ext t (write_cc_notes t sp).
Proof.
  unfold write_cc_notes. apply on_rt_ext.
  eapply ev_ext_trans; [apply write_cc_on_note_ext|apply write_cc_on_note_wave_ext].
Qed.

(* what an extension leaves alone *)
Lemma trk_ext_frame t t' : trk_ext t t' ->
  tr_timepos t' = tr_timepos t /\ tr_channel t' = tr_channel t /\ tr_length t' = tr_length t /\ tr_octave t' = tr_octave t /\
  tr_velocity t' = tr_velocity t /\ tr_qlen t' = tr_qlen t /\ tr_timing t' = tr_timing t /\ tr_track_key t' = tr_track_key t /\
  tr_tie_mode t' = tr_tie_mode t /\ tr_tie_value t' = tr_tie_value t /\ tr_bend_range t' = tr_bend_range t /\
  tr_tie_notes t' = tr_tie_notes t /\ exists E, Forall plain_ev E /\ tr_events t' = tr_events t ++ E.
Proof. intros (E & r & HE & ->). repeat split; try reflexivity. exists E. split; [exact HE|reflexivity]. Qed.

(* the six calc_* calls of a note: no event, no change of pointer / channel / length / keys / ties *)
Definition core_eq (k k' : Reserve.track) : Prop :=
  Reserve.tr_timepos k' = Reserve.tr_timepos k /\ Reserve.tr_channel k' = Reserve.tr_channel k /\
  Reserve.tr_events k' = Reserve.tr_events k.
Lemma core_eq_refl k : core_eq k k. Proof. repeat split. Qed.
Lemma core_eq_trans a b c : core_eq a b -> core_eq b c -> core_eq a c.
Proof. unfold core_eq. intros (A1 & A2 & A3) (B1 & B2 & B3). repeat split; congruence. Qed.

Lemma calc_v_on_time_core k d : core_eq k (snd (Reserve.calc_v_on_time k d)).
Proof.
  unfold Reserve.calc_v_on_time. destruct (Reserve.tr_v_on_time k); [|apply core_eq_refl].
  destruct (Reserve.v_on_time_loop _ _) as [area result]. cbn [snd]. destruct (_ <=? _); repeat split.
Qed.
Lemma on_note_core (f : Reserve.track -> Z -> Z * Reserve.track) :
  (f = Reserve.calc_v_on_note \/ f = Reserve.calc_t_on_note \/ f = Reserve.calc_qlen_on_note \/
   f = Reserve.calc_o_on_note \/ f = Reserve.calc_l_on_note) ->
  forall k d, core_eq k (snd (f k d)).
Proof.
  intros H k d.
  destruct H as [->|[->|[->|[->| ->]]]];
    unfold Reserve.calc_v_on_note, Reserve.calc_t_on_note, Reserve.calc_qlen_on_note, Reserve.calc_o_on_note, Reserve.calc_l_on_note;
    match goal with |- context [Reserve.on_note_step ?c ?r ?x] => destruct (Reserve.on_note_step c r x) as [[v r'] a] end;
    cbn [snd]; try destruct a; repeat split.
Qed.

Lemma rsv_on_note_core k v tm q : core_eq k (snd (rsv_on_note k v tm q)).
Proof.
  unfold rsv_on_note.
  pose proof (calc_v_on_time_core k v) as H1. destruct (Reserve.calc_v_on_time k v) as [v1 k1]. cbn [snd] in H1.
  pose proof (on_note_core Reserve.calc_v_on_note (or_introl eq_refl) k1 v1) as H2.
  destruct (Reserve.calc_v_on_note k1 v1) as [v2 k2]. cbn [snd] in H2.
  pose proof (on_note_core Reserve.calc_t_on_note (or_intror (or_introl eq_refl)) k2 tm) as H3.
  destruct (Reserve.calc_t_on_note k2 tm) as [t1 k3]. cbn [snd] in H3.
  pose proof (on_note_core Reserve.calc_qlen_on_note (or_intror (or_intror (or_introl eq_refl))) k3 q) as H4.
  destruct (Reserve.calc_qlen_on_note k3 q) as [q1 k4]. cbn [snd] in H4.
  pose proof (on_note_core Reserve.calc_o_on_note (or_intror (or_intror (or_intror (or_introl eq_refl)))) k4 (-1)) as H5.
  destruct (Reserve.calc_o_on_note k4 (-1)) as [o1 k5]. cbn [snd] in H5.
  pose proof (on_note_core Reserve.calc_l_on_note (or_intror (or_intror (or_intror (or_intror eq_refl)))) k5 (-1)) as H6.
  destruct (Reserve.calc_l_on_note k5 (-1)) as [l1 k6]. cbn [snd] in H6 |- *.
  repeat (eapply core_eq_trans; [eassumption|]). apply core_eq_refl.
Qed.

Lemma rsv_advance_frame t v tm q :
  tr_timepos (rsv_advance t v tm q) = tr_timepos t /\ tr_channel (rsv_advance t v tm q) = tr_channel t /\
  tr_length (rsv_advance t v tm q) = tr_length t /\ tr_track_key (rsv_advance t v tm q) = tr_track_key t /\
  tr_tie_mode (rsv_advance t v tm q) = tr_tie_mode t /\ tr_tie_value (rsv_advance t v tm q) = tr_tie_value t /\
  tr_bend_range (rsv_advance t v tm q) = tr_bend_range t /\ tr_tie_notes (rsv_advance t v tm q) = tr_tie_notes t /\
  tr_events (rsv_advance t v tm q) = tr_events t.
Proof.
  unfold rsv_advance. destruct (rsv_on_note_core (to_rtrack t) v tm q) as (A & B & C).
  cbn [of_rtrack tr_timepos tr_channel tr_length tr_track_key tr_tie_mode tr_tie_value tr_bend_range tr_tie_notes tr_events].
  rewrite A, B, C. repeat split; reflexivity.
Qed.

(* the reservation arms of step_song, as extensions *)
Ltac rsv_ext :=
  first [ apply write_cc_on_time_ext | apply write_pb_on_time_ext | apply set_cc_on_note_ext | apply set_cc_on_note_wave_ext
        | apply remove_cc_on_note_wave_ext
        | eapply ev_ext_trans; [apply remove_cc_on_ext|apply write_cc_on_time_ext] ].
