(* C03 - the vocabulary of the simulation theorem "the token machine computes the documented semantics":
     tokens_of   NoteSem syntax -> the tokens the model lexer produces for its printed text
     wf_cmd      the hypotheses of the property (sentinel collisions, counts, track numbers, chord items)
     R           the abstraction relation between the interpreter state (Song) and the semantic state (perf)
     fuel_of     an explicit sufficient per-loop fuel
   Definitions only (this file is extracted: the link lex (pprog p) = TLineNo 0 :: tokens_of p is TESTED on
   generated programs by tools/props/c03.py, kind lex_vs_tokens of ocaml/core_driver.ml; it is not proved). *)
From Coq Require Import Permutation.
From Sakura.Model Require Import Base Cursor Length Event Song Token LexCore RunCore Compile.
From Sakura.Gen Require Import VarRows.
From Sakura.Spec Require Import LenSpec NoteSem.
Open Scope Z_scope.

(* ---- tokens ---- *)
Definition osent (o : option Z) (d : Z) : Z := match o with Some v => v | None => d end.
(* read_note: an EMPTY velocity field followed by further fields (`c,,,5`) reads as 0, not as "unset" *)
Definition vel_sentinel (vel timing oct : option Z) : Z :=
  match vel with
  | Some v => v
  | None => match timing, oct with None, None => -1 | _, _ => 0 end
  end.
Definition zeros12 : list Z := [0;0;0;0;0;0;0;0;0;0;0;0].
Definition key_flags (sharp : bool) (letters : list Z) : list Z :=
  fold_left (fun l b => upd (Z.to_nat b) (fun _ => if sharp then 1 else -1) l) letters zeros12.

Fixpoint tok_cmd (c : cmd) : list tok :=
  let toks := flat_map tok_cmd in
  match c with
  | CNote base acc natural len gate vel timing oct =>
      [TNote base acc (if natural then 1 else 0) (plen len) (osent gate 0) (vel_sentinel vel timing oct)
             (osent timing ISIZE_MIN) (osent oct (-1)) 0]
  | CNoteN no len gate vel timing => [TNoteN no (plen len) (osent gate 0) (osent vel (-1)) (osent timing ISIZE_MIN) 0]
  | CRest len => [TRest 1 (plen len)]
  | CLen len => [TLength (plen len)]
  | COct v => [TOctave v]
  | CVel v => [TVelocity v (-1)]
  | CGate v => [TQLen v]
  | CTiming v => [TTiming v]
  | COctUp => [TOctaveRel 1]
  | COctDown => [TOctaveRel (-1)]
  | CVelUp => [TVelocityRel 1]
  | CVelDown => [TVelocityRel (-1)]
  | CLoop n body brk =>
      TLoopBegin (osent n 2) :: toks body ++ (match brk with Some b => TLoopBreak :: toks b | None => [] end) ++ [TLoopEnd]
  | CChord items len gate vel => THarmonyBegin :: toks items ++ [THarmonyEnd (plen len) (osent gate (-1)) vel]
  | CTuplet items len => let ch := TLineNo 0 :: toks items in [TDiv (div_count ch) (plen len) ch]
  | CSub body => [TSub (TLineNo 0 :: toks body)]
  | CTrack n => [TTrack n]
  | CChannel n => [TChannel n]
  | CVoice n => [TVoice [n]]
  | CKeyFlag sharp letters => [TKeyFlag (key_flags sharp letters)]
  | CKeyShift k => [TKeyShift k]
  | CTrackKey k => [TTrackKey k]
  | COnce marks base acc natural len gate vel timing oct =>
      map TOctaveOnce marks
      ++ [TNote base acc (if natural then 1 else 0) (plen len) (osent gate 0) (vel_sentinel vel timing oct)
                (osent timing ISIZE_MIN) (osent oct (-1)) 0]
  end.
Definition tokens_of (l : list cmd) : list tok := flat_map tok_cmd l.
(* what lex() returns for a whole source: every (nested) lex call opens with a line-number token *)
Definition top_tokens (l : list cmd) : list tok := TLineNo 0 :: tokens_of l.

(* the model lexer on the printed program (initial lexer state of Compile.run_source) *)
Definition lex_of_prog (p : list cmd) : res (list tok) :=
  do lx <- lex (mkLex 96 [] init_vars rhythm_rows false) (pprog p) 0; Ok (fst lx).

(* ---- well-formedness: the hypotheses of C03 ---- *)
Definition is_base (b : Z) : bool := existsb (Z.eqb b) [0; 2; 4; 5; 7; 9; 11].
Definition olen_wf (l : olen) : bool := match l with Some e => expr_wf e | None => true end.
Definition ogate_ok (g : option Z) : bool := match g with Some v => negb (v =? 0) | None => true end.
Definition ovel_ok (v : option Z) : bool := match v with Some x => 0 <=? x | None => true end.
Definition otiming_ok (t : option Z) : bool := match t with Some x => negb (x =? ISIZE_MIN) | None => true end.
Definition ooct_ok (o : option Z) : bool := match o with Some x => 0 <=? x | None => true end.
Definition is_none {A} (o : option A) : bool := match o with None => true | Some _ => false end.
(* a chord item: a lettered note without parameters, or an octave step *)
Definition chord_item_ok (c : cmd) : bool :=
  match c with
  | CNote base _ _ None None None None None => is_base base
  | COctUp | COctDown => true
  | _ => false
  end.

Fixpoint wf_cmd (c : cmd) : bool :=
  let all := forallb wf_cmd in
  match c with
  | CNote base acc natural len gate vel timing oct =>
      is_base base && olen_wf len && ogate_ok gate && ovel_ok vel && otiming_ok timing && ooct_ok oct
      && (negb (is_none vel) || (is_none timing && is_none oct))
  | CNoteN no len gate vel timing => olen_wf len && ogate_ok gate && ovel_ok vel && otiming_ok timing
  | CRest len => olen_wf len
  | CLen len => olen_wf len
  | CLoop n body brk =>
      (match n with Some k => 1 <=? k | None => true end) && all body && (match brk with Some b => all b | None => true end)
  | CChord items len gate vel =>
      forallb chord_item_ok items && olen_wf len
      && (match gate with Some g => 0 <? g | None => true end)
      && (match vel with Some v => (0 <=? v) && (v <=? 127) | None => true end)
  | CTuplet items len => all items && olen_wf len
  | CSub body => all body
  | CTrack n => (0 <=? n) && (n <=? 999)
  | COnce marks base acc natural len gate vel timing oct =>
      (* marks are back-quote (1) and double quote (-1); the note as for CNote *)
      forallb (fun k => (k =? 1) || (k =? -1)) marks
      && (is_base base && olen_wf len && ogate_ok gate && ovel_ok vel && otiming_ok timing && ooct_ok oct
          && (negb (is_none vel) || (is_none timing && is_none oct)))
  | _ => true
  end.
Definition wf_prog (l : list cmd) : bool := forallb wf_cmd l.

(* ---- lexical provisos of the (tested, unproved) link lex (pprog p) = top_tokens p: where the printed text
        of a well-formed tree would be read differently ---- *)
Definition head_char (l : olen) : Z := match plen l with c :: _ => c | [] => 0 end.
Definition num_ok (v : Z) : bool := (- 1000000000 <? v) && (v <? 1000000000).
Definition onum_ok (o : option Z) : bool := match o with Some v => num_ok v | None => true end.
Fixpoint lexable_cmd (c : cmd) : bool :=
  let all := forallb lexable_cmd in
  match c with
  | CNote base acc _ _ gate vel timing oct =>
      is_base base && num_ok acc && onum_ok gate && onum_ok vel && onum_ok timing && onum_ok oct
  | CNoteN no _ gate vel timing => num_ok no && onum_ok gate && onum_ok vel && onum_ok timing
  | CRest len => negb (head_char len =? 45)                          (* `r-4` is a backward rest *)
  | COct v | CVel v | CGate v | CTiming v | CTrack v | CChannel v | CVoice v | CKeyShift v | CTrackKey v => num_ok v
  | CLoop n body brk =>
      (match n with
       | Some k => (0 <=? k) && (k <=? 100000)
       | None => match body with CVelDown :: _ => false | _ => true end      (* `[ (` opens a parenthesised count *)
       end) && all body && (match brk with Some b => all b | None => true end)
  | CChord items len _ _ =>
      all items && ((head_char len =? 0) || is_digit (head_char len) || (head_char len =? 94))
  | CTuplet items _ => all items
  | CSub body => all body
  | CKeyFlag _ letters => forallb is_base letters
  | COnce _ base acc _ _ gate vel timing oct =>
      is_base base && num_ok acc && onum_ok gate && onum_ok vel && onum_ok timing && onum_ok oct
  | _ => true
  end.
Definition lexable_prog (l : list cmd) : bool := forallb lexable_cmd l.

(* ---- abstraction ---- *)
Definition note_of_event (e : event) : note := mkNote (e_ch e) (e_v1 e) (e_time e) (e_v2 e) (e_v3 e).
Definition is_note_on (e : event) : bool := etype_eqb (e_type e) NoteOn.
(* the sounded notes of an event list; program changes etc. are not notes *)
Definition notes_of (evs : list event) : list note := map note_of_event (filter is_note_on evs).

(* the notes of a track are compared as a multiset: a chord's notes are written last-first by the code
   (C06_chord), and the order of events inside a track's list is immaterial to the file (events_sort) *)
Definition track_rel (tr : track) (t : tstate) : Prop :=
  tr_timepos tr = t_pos t /\ tr_channel tr = t_ch t /\ tr_length tr = t_len t /\ tr_octave tr = t_oct t /\
  tr_velocity tr = t_vel t /\ tr_qlen tr = t_gate t /\ tr_timing tr = t_timing t /\ tr_track_key tr = t_key t /\
  tr_tie_notes tr = [] /\
  tr_rsv tr = rsv_new /\     (* nothing reserved: no onNote / onCycle / onTime list, no controller reservation, random widths 0 *)
  Permutation (notes_of (tr_events tr)) (t_notes t).

Definition R (s : song) (p : perf) : Prop :=
  Forall2 track_rel (s_tracks s) (p_tracks p) /\
  s_cur s = p_cur p /\ (s_cur s < length (s_tracks s))%nat /\
  s_timebase s = p_tb p /\ s_key_flag s = p_keyflag p /\ s_key_shift s = p_keyshift p /\
  s_use_key_shift s = true /\ s_v_add s = NoteSem.vAdd /\
  s_harmony_flag s = false /\ s_harmony_events s = [] /\ s_octave_once s = 0 /\ s_break_flag s = 0 /\
  p_oct_once p = 0.

(* ---- fuel ---- *)
(* machine steps of one exec() level (an upper bound): Sub / tuplet count as one token; a count below 1 runs once *)
Fixpoint flat_cost (c : cmd) : nat :=
  let sum := fun l => list_sum (map flat_cost l) in
  match c with
  | CLoop n body brk =>
      (1 + Nat.max 1 (Z.to_nat (osent n 2)) * (sum body + (match brk with Some b => sum b | None => O end) + 2))%nat
  | CChord items _ _ _ => (2 + sum items)%nat
  | COnce marks _ _ _ _ _ _ _ _ => S (length marks)
  | _ => 1%nat
  end.
Definition flat_cost_l (l : list cmd) : nat := list_sum (map flat_cost l).
(* the largest exec() level nested inside (its TLineNo included), plus one *)
Fixpoint inner_cost (c : cmd) : nat :=
  let mx := fun l => list_max (map inner_cost l) in
  match c with
  | CLoop _ body brk => Nat.max (mx body) (match brk with Some b => mx b | None => O end)
  | CChord items _ _ _ => mx items
  | CTuplet items _ => Nat.max (S (S (flat_cost_l items))) (mx items)
  | CSub body => Nat.max (S (S (flat_cost_l body))) (mx body)
  | _ => O
  end.
Definition inner_cost_l (l : list cmd) : nat := list_max (map inner_cost l).
(* per-loop fuel (`steps` of exec_f) that suffices for the program at every level *)
Definition fuel_of (l : list cmd) : nat := Nat.max (S (S (flat_cost_l l))) (inner_cost_l l).
