(* C01 / C02 lifted from the writer to the whole pipeline model Compile.compile.

   1. events_inv: every event the runner ever stores is one the track-decoding theorem covers
      (TrackSpec.event_ok); the pending lists (chord notes, tied notes) hold only channel events.
      song_new has it, every arm of step_song keeps it (for every exec_children that keeps it), hence
      exec_f keeps it (induction on the nesting fuel + BlockP.run_invariant); check_tie_notes, play_from,
      split_note_off and events_sort keep `Forall event_ok`.
   2. dims_inv: at most 1000 tracks (TTrack admits 0..999) and 48 <= time base <= 32767 (the lexer clamps
      TimeBase; proved over the whole lexer loop through LayoutP.LOOPG, as LogP does for the log bound).
   3. compile_decodes / compile_container: the statements of C02 / C01 for `compile src = Ok (bytes, log)`.
      The only size hypothesis left is that the FILE is shorter than 2^32 bytes (so every chunk length fits). *)
From Coq Require Import String Ascii.
From Sakura.Model Require Import Base Cursor Length Event Writer Song Token LoopMachine LexCore RunCore Tie Compile RunRsv.
From Sakura.Model Require Reserve.
From Sakura.Gen Require Import Consts VarRows.
From Sakura.Spec Require Import SmfSpec TrackSpec.
From Sakura.Proofs Require Import VlqP WriterP SortP ContainerP ExtP RsvP BlockP LayoutP LogP.
From Sakura.Proofs Require Import FollowP.
From Sakura.Spec Require Utf8Spec.
From Sakura.Proofs Require CmdP.
From Coq Require Import Lia Permutation.
Open Scope list_scope.
Open Scope Z_scope.

(* ------------------------------------------------------------------------------------------------ *)
(* 1. the event invariant                                                                             *)

Definition eok (e : event) : Prop := event_ok e = true.
(* a channel event: no payload, nothing for the writer to frame *)
Definition simple (e : event) : Prop :=
  match e_type e with Meta | SysEx | DirectSMF => False | _ => True end.

Lemma simple_eok e : simple e -> eok e.
Proof. unfold simple, eok, event_ok. destruct (e_type e); intros H; try reflexivity; destruct H. Qed.

(* the statement asked for: everything stored anywhere in the song is event_ok *)
Definition track_wf (t : track) : Prop := Forall eok (tr_events t) /\ Forall eok (tr_tie_notes t).
Definition events_wf (s : song) : Prop := Forall track_wf (s_tracks s) /\ Forall eok (s_harmony_events s).
(* the invariant that is preserved: the pending lists are rewritten (gate, velocity, time), which is
   harmless only for channel events *)
Definition track_inv (t : track) : Prop := Forall eok (tr_events t) /\ Forall simple (tr_tie_notes t).
Definition events_inv (s : song) : Prop := Forall track_inv (s_tracks s) /\ Forall simple (s_harmony_events s).

Lemma Forall_simple_eok l : Forall simple l -> Forall eok l.
Proof. intros H. eapply Forall_impl; [|exact H]. exact simple_eok. Qed.

Lemma events_inv_wf s : events_inv s -> events_wf s.
Proof.
  intros [H1 H2]. split; [|apply Forall_simple_eok, H2].
  eapply Forall_impl; [|exact H1]. intros t [A B]. split; [exact A|apply Forall_simple_eok, B].
Qed.

Lemma track_new_inv tb ch : track_inv (track_new tb ch).
Proof. split; constructor. Qed.

Lemma song_new_inv : events_inv song_new.
Proof. split; [constructor; [apply track_new_inv|constructor]|constructor]. Qed.
Lemma song_new_wf : events_wf song_new.
Proof. apply events_inv_wf, song_new_inv. Qed.

Lemma follow_track_inv old new t : track_inv t -> track_inv (follow_timebase old new t).
Proof.
  intros H. destruct (follow_timebase_cases old new t) as [-> | ->]; [exact H|]. destruct t; exact H.
Qed.
Lemma song_with_ls_inv s ls : events_inv s -> events_inv (song_with_ls s ls).
Proof.
  intros [H1 H2]. split.
  - rewrite song_with_ls_tracks. apply Forall_forall. intros t Ht. apply in_map_iff in Ht.
    destruct Ht as (t0 & <- & Ht0). apply follow_track_inv. rewrite Forall_forall in H1. apply H1. exact Ht0.
  - destruct s; exact H2.
Qed.
Lemma song_after_lex_inv ls : events_inv (song_after_lex ls).
Proof. apply song_with_ls_inv, song_new_inv. Qed.
Lemma song_after_lex_wf ls : events_wf (song_after_lex ls).
Proof. apply events_inv_wf, song_after_lex_inv. Qed.

(* ---- the constructors used by the runner ---- *)
Lemma simple_note t c n l v : simple (ev_note t c n l v). Proof. exact I. Qed.
Lemma simple_voice t c v : simple (ev_voice t c v). Proof. exact I. Qed.
Lemma simple_cc t c n v : simple (ev_cc t c n v). Proof. exact I. Qed.
Lemma simple_bend t c v : simple (ev_pitch_bend t c v). Proof. exact I. Qed.
Lemma simple_bend_range t c v : simple (ev_pitch_bend_range t c v). Proof. exact I. Qed.
Lemma simple_set_v2 e v : simple e -> simple (set_v2 e v).
Proof. exact (fun H => H). Qed.
Lemma simple_set_time e t : simple e -> simple (set_time e t).
Proof. exact (fun H => H). Qed.
Lemma eok_set_time e t : eok e -> eok (set_time e t).
Proof. exact (fun H => H). Qed.

Lemma byte_ok_as_u8 v : byte_ok (as_u8 v) = true.
Proof. unfold byte_ok, as_u8. pose proof (Z.mod_pos_bound v 256). lia. Qed.

Lemma eok_tempo t a b c : eok (ev_meta t 255 81 3 [as_u8 a; as_u8 b; as_u8 c]).
Proof.
  unfold eok, event_ok, ev_meta. cbn [e_type e_data e_v1 e_v2 e_v3 bytes_ok forallb].
  rewrite !byte_ok_as_u8. reflexivity.
Qed.
Lemma eok_timesig t a b : eok (ev_meta t 255 88 4 [as_u8 a; as_u8 b; 24; 8]).
Proof.
  unfold eok, event_ok, ev_meta. cbn [e_type e_data e_v1 e_v2 e_v3 bytes_ok forallb].
  rewrite !byte_ok_as_u8. reflexivity.
Qed.

(* ---- Tie.check_tie_notes ---- *)
Lemma ensure_bend_range_ok ch br ft evs :
  Forall eok evs -> Forall eok (snd (ensure_bend_range ch br ft evs)).
Proof.
  intros H. unfold ensure_bend_range. destruct (br <=? 0); cbn [snd]; [|exact H].
  apply Forall_app. split; [exact H|]. constructor; [apply simple_eok, simple_bend_range|constructor].
Qed.

Lemma port_bends_ok n : forall i tv nt ch bf lv, Forall eok (port_bends n i tv nt ch bf lv).
Proof.
  induction n as [|n IH]; intros; cbn [port_bends]; [constructor|].
  match goal with |- context [if ?b then _ else _] => destruct b end; [apply IH|].
  constructor; [apply simple_eok, simple_bend|apply IH].
Qed.

Lemma port_loop_ok rest : forall last tb ch tv br evs,
  Forall simple rest -> simple last -> Forall eok evs -> Forall eok (snd (port_loop rest last tb ch tv br evs)).
Proof.
  induction rest as [|next r IH]; intros last tb ch tv br evs Hr Hl He; cbn [port_loop].
  - cbn [snd]. apply Forall_app. split; [exact He|]. constructor; [apply simple_eok, Hl|constructor].
  - inversion Hr as [|x y Hn Hr']; subst.
    destruct (e_v1 last =? e_v1 next).
    + apply IH; [exact Hr'|apply simple_set_v2, Hl|exact He].
    + pose proof (ensure_bend_range_ok ch br (e_time last) evs He) as HE.
      destruct (ensure_bend_range ch br (e_time last) evs) as [br1 ev1]. cbn [snd] in HE.
      apply IH; [exact Hr'|exact Hn|].
      apply Forall_app. split; [exact HE|]. apply Forall_app. split; [apply port_bends_ok|].
      constructor; [apply simple_eok, simple_set_v2, Hl|]. constructor; [apply simple_eok, simple_bend|constructor].
Qed.

Lemma bend_loop_ok rest : forall last begin ch br lp evs,
  Forall eok evs -> Forall eok (snd (bend_loop rest last begin ch br lp evs)).
Proof.
  induction rest as [|next r IH]; intros last begin ch br lp evs He; cbn [bend_loop]; [exact He|].
  destruct (e_v1 last =? e_v1 next); [apply IH, He|].
  apply IH. apply Forall_app. split; [exact He|]. constructor; [apply simple_eok, simple_bend|constructor].
Qed.

Lemma gate_loop_ok rest : forall last tv evs,
  Forall simple rest -> simple last -> Forall eok evs -> Forall eok (gate_loop rest last tv evs).
Proof.
  induction rest as [|next r IH]; intros last tv evs Hr Hl He; cbn [gate_loop].
  - apply Forall_app. split; [exact He|]. constructor; [apply simple_eok, Hl|constructor].
  - inversion Hr as [|x y Hn Hr']; subst.
    destruct (e_v1 last =? e_v1 next).
    + apply IH; [exact Hr'|apply simple_set_v2, Hl|exact He].
    + apply IH; [exact Hr'|exact Hn|]. apply Forall_app. split; [exact He|].
      constructor; [apply simple_eok, simple_set_v2, Hl|constructor].
Qed.

Lemma check_tie_notes_inv tb t : track_inv t -> track_inv (check_tie_notes tb t).
Proof.
  intros [He Ht]. unfold check_tie_notes.
  destruct (tr_tie_notes t) as [|first rest] eqn:E; [split; [exact He|rewrite E; constructor]|].
  inversion Ht as [|x y Hf Hr]; subst.
  destruct (tr_tie_mode t =? 1).
  { pose proof (ensure_bend_range_ok (tr_channel t) (tr_bend_range t) (e_time first) (tr_events t) He) as HE.
    destruct (ensure_bend_range (tr_channel t) (tr_bend_range t) (e_time first) (tr_events t)) as [br ev1].
    cbn [snd] in HE.
    match goal with |- context [bend_loop ?a ?b ?c ?d ?e ?f ?g] =>
      pose proof (bend_loop_ok a b c d e f g) as HB; destruct (bend_loop a b c d e f g) as [lastpos ev3] end.
    cbn [snd] in HB. split; [|constructor]. cbn [tr_events tr_set_tie].
    apply Forall_app. split.
    - apply HB. apply Forall_app. split; [exact HE|]. constructor; [apply simple_eok, simple_bend|constructor].
    - constructor; [apply simple_eok, simple_set_v2, Hf|]. constructor; [apply simple_eok, simple_bend|constructor]. }
  destruct (tr_tie_mode t =? 2).
  { split; [|constructor]. cbn [tr_events tr_set_tie]. apply gate_loop_ok; assumption. }
  destruct (tr_tie_mode t =? 3).
  { split; [|constructor]. cbn [tr_events tr_set_tie]. apply Forall_app. split; [exact He|].
    apply Forall_forall. intros e Hin. apply in_map_iff in Hin. destruct Hin as (e0 & <- & Hin).
    apply simple_eok, simple_set_v2. rewrite Forall_forall in Ht. apply Ht, Hin. }
  match goal with |- context [port_loop ?a ?b ?c ?d ?e ?f ?g] =>
    pose proof (port_loop_ok a b c d e f g Hr Hf He) as HP; destruct (port_loop a b c d e f g) as [br evs] end.
  cbn [snd] in HP. split; [exact HP|constructor].
Qed.

(* the statement with event_ok on every list: the pending notes must be channel events for it to hold *)
Lemma check_tie_notes_events_ok tb t : track_inv t -> Forall eok (tr_events (check_tie_notes tb t)).
Proof. intros H. apply (check_tie_notes_inv tb t H). Qed.

(* ---- list / song bookkeeping ---- *)
Lemma Forall_upd_nth {A} (P : A -> Prop) (f : A -> A) l : forall n,
  (forall x, P x -> P (f x)) -> Forall P l -> Forall P (upd_nth n f l).
Proof.
  induction l as [|x r IH]; intros [|n] Hf H; cbn [upd_nth]; try exact H;
  inversion H as [|a b Hx Hr]; subst; constructor; auto.
Qed.

Lemma inv_upd_cur s f : (forall t, track_inv t -> track_inv (f t)) -> events_inv s -> events_inv (upd_cur s f).
Proof. intros Hf [H1 H2]. split; [|exact H2]. cbn [upd_cur s_tracks s_set_tracks]. apply Forall_upd_nth; assumption. Qed.

Lemma inv_same s s' : s_tracks s' = s_tracks s -> s_harmony_events s' = s_harmony_events s ->
  events_inv s -> events_inv s'.
Proof. unfold events_inv. intros -> ->. exact (fun H => H). Qed.

Lemma inv_add_log s m : events_inv s -> events_inv (add_log s m).
Proof. unfold add_log. destruct (_ <=? _); exact (fun H => H). Qed.

Lemma track_inv_push t e : eok e -> track_inv t -> track_inv (tr_push_event t e).
Proof.
  intros He [H1 H2]. split; [|exact H2]. cbn [tr_push_event tr_set_events tr_events].
  apply Forall_app. split; [exact H1|]. constructor; [exact He|constructor].
Qed.
Lemma track_inv_push_tie t e : simple e -> track_inv t -> track_inv (push_tie_note t e).
Proof.
  intros He [H1 H2]. split; [exact H1|]. cbn [push_tie_note tr_set_tie tr_tie_notes].
  apply Forall_app. split; [exact H2|]. constructor; [exact He|constructor].
Qed.

Lemma inv_settle s : events_inv s -> events_inv (settle_octave_once s).
Proof.
  intros H. unfold settle_octave_once. destruct (_ =? 0); [exact H|].
  apply (inv_upd_cur s (fun t => tr_set_octave t (tr_octave t - s_octave_once s))); [|exact H].
  intros t Ht. exact Ht.
Qed.

Lemma add_tracks_inv n : forall tb l, Forall track_inv l -> Forall track_inv (add_tracks n tb l).
Proof.
  induction n as [|n IH]; intros tb l H; cbn [add_tracks]; [exact H|].
  apply IH. apply Forall_app. split; [exact H|]. constructor; [apply track_new_inv|constructor].
Qed.

Lemma inv_change_cur_track s no : events_inv s -> events_inv (change_cur_track s no).
Proof.
  intros H. apply inv_settle in H. destruct H as [H1 H2]. unfold change_cur_track.
  split; [|exact H2]. cbn [s_tracks s_set_cur s_set_tracks]. apply add_tracks_inv, H1.
Qed.

Lemma inv_track_sync s : events_inv s -> events_inv (track_sync s).
Proof.
  intros [H1 H2]. split; [|exact H2]. cbn [track_sync s_tracks s_set_tracks].
  apply Forall_forall. intros t Hin. apply in_map_iff in Hin. destruct Hin as (t0 & <- & Hin).
  rewrite Forall_forall in H1. exact (H1 t0 Hin).
Qed.

(* ---- reservations: the methods add channel events and rewrite tr_rsv; the on-note lists rewrite velocity etc. ---- *)
Lemma plain_ev_simple e : plain_ev e -> simple e.
Proof. intros [_ H]. exact H. Qed.
Lemma track_inv_ext t t' : trk_ext t t' -> track_inv t -> track_inv t'.
Proof.
  intros (E & r & HE & ->) [H1 H2]. split; [|exact H2]. cbn [tr_events tr_set_rsv tr_set_events].
  apply Forall_app. split; [exact H1|]. eapply Forall_impl; [|exact HE]. intros e He. apply simple_eok, plain_ev_simple, He.
Qed.
Lemma track_inv_advance t v tm q : track_inv t -> track_inv (rsv_advance t v tm q).
Proof.
  intros [H1 H2]. destruct (rsv_advance_frame t v tm q) as (_ & _ & _ & _ & _ & _ & _ & A & B).
  split; [rewrite B; exact H1|rewrite A; exact H2].
Qed.
Lemma inv_set_rand_seed s v : events_inv s -> events_inv (s_set_rand_seed s v).
Proof. exact (fun H => H). Qed.
(* on_rt with a function that is an extension *)
Lemma track_inv_on_rt t f : ev_ext (to_rtrack t) (f (to_rtrack t)) -> track_inv t -> track_inv (on_rt t f).
Proof. intros H. apply track_inv_ext, on_rt_ext, H. Qed.

(* ---- the arms of step_song that create events ---- *)
Lemma emit_note_inv s ev nl lettered slur s' :
  events_inv s -> simple ev -> emit_note s ev nl lettered slur = Ok s' -> events_inv s'.
Proof.
  intros H Hev. unfold emit_note.
  destruct lettered.
  - match goal with |- context [s_octave_once ?x =? 0] => set (s1 := x) end.
    assert (H1 : events_inv s1).
    { subst s1. apply inv_upd_cur; [intros t Ht; exact Ht|exact H]. }
    match goal with |- context [s_harmony_flag ?x] => set (s2 := x) end.
    assert (H2 : events_inv s2).
    { subst s2. destruct (_ =? 0); [exact H1|].
      apply (inv_upd_cur s1 (fun t => tr_set_octave t (tr_octave t - s_octave_once s1))); [|exact H1].
      intros t Ht; exact Ht. }
    clearbody s2. clear H1. clearbody s1.
    destruct (s_harmony_flag s2).
    + intros E; injection E as <-. split.
      * apply (inv_upd_cur s2 (fun t => tr_set_timepos t (s_harmony_time s2))); [intros t Ht; exact Ht|exact H2].
      * cbn. apply Forall_app. split; [apply H2|]. constructor; [exact Hev|constructor].
    + destruct (slur >=? 1).
      * intros E; injection E as <-. apply inv_upd_cur; [|exact H2].
        intros t Ht. apply track_inv_push_tie; assumption.
      * destruct (negb _).
        -- intros E; injection E as <-. apply inv_upd_cur; [|exact H2].
           intros t Ht. apply check_tie_notes_inv, track_inv_push_tie; assumption.
        -- intros E; injection E as <-. apply inv_upd_cur; [|exact H2].
           intros t Ht. apply track_inv_push; [apply simple_eok, Hev|].
           apply (track_inv_ext t); [apply write_cc_notes_ext|exact Ht].
  - intros E; injection E as <-. apply inv_upd_cur; [|exact H].
    intros t Ht. apply (track_inv_push _ ev (simple_eok _ Hev)).
    apply (track_inv_ext t); [apply write_cc_notes_ext|exact Ht].
Qed.

Lemma exec_note_inv s base flag natural len qlen vel timing oct slur s' :
  events_inv s -> exec_note s base flag natural len qlen vel timing oct slur = Ok s' -> events_inv s'.
Proof.
  intros H. unfold exec_note. destr_pairs. apply emit_note_inv; [|apply simple_note].
  apply inv_set_rand_seed, inv_upd_cur; [|exact H]. intros t Ht. apply track_inv_advance, Ht.
Qed.
Lemma exec_note_n_inv s no len qlen vel timing slur s' :
  events_inv s -> exec_note_n s no len qlen vel timing slur = Ok s' -> events_inv s'.
Proof.
  intros H. unfold exec_note_n. destr_pairs. apply emit_note_inv; [|apply simple_note].
  apply inv_set_rand_seed, inv_upd_cur; [|exact H]. intros t Ht. apply track_inv_advance, Ht.
Qed.

Lemma exec_voice_inv s args : events_inv s -> events_inv (exec_voice s args).
Proof.
  intros H. unfold exec_voice.
  destruct args as [|a [|b l]]; apply inv_upd_cur; try exact H; intros t Ht;
    repeat (apply track_inv_push; [apply simple_eok; exact I|]); exact Ht.
Qed.

Lemma set_harmony_note_simple e a b c d : simple e -> simple (set_harmony_note e a b c d).
Proof. exact (fun H => H). Qed.

Lemma exec_harmony_end_inv s len qlen vel : events_inv s -> events_inv (exec_harmony_end s len qlen vel).
Proof.
  intros H. unfold exec_harmony_end. destruct (s_harmony_flag s); [|exact H].
  split; [|constructor].
  match goal with |- Forall track_inv (s_tracks (s_set_harmony (upd_cur s ?f) _ _ _)) =>
    change (Forall track_inv (s_tracks (upd_cur s f))); apply (inv_upd_cur s f) end; [|exact H].
  intros t [A B]. split; [|exact B]. cbn [tr_events tr_set_timepos tr_set_events].
  apply Forall_app. split; [exact A|]. apply Forall_forall. intros e Hin.
  apply in_map_iff in Hin. destruct Hin as (e0 & <- & Hin). apply simple_eok, set_harmony_note_simple.
  destruct H as [_ H2]. rewrite Forall_forall in H2. apply H2. apply in_rev. exact Hin.
Qed.

Lemma inv_runtime_error s m : events_inv s -> events_inv (runtime_error s m).
Proof. apply inv_add_log. Qed.

Lemma tempo_change_inv s v : events_inv s -> events_inv (tempo_change s v).
Proof.
  intros H. unfold tempo_change.
  match goal with |- events_inv (upd_cur ?x ?f) => apply (inv_upd_cur x f) end; [|exact H].
  intros t Ht. apply track_inv_push; [apply eok_tempo|exact Ht].
Qed.

Lemma exec_time_signature_inv s args : events_inv s -> events_inv (exec_time_signature s args).
Proof.
  intros H. unfold exec_time_signature.
  destruct args as [|a [|b l]]; try (apply inv_runtime_error, H).
  match goal with |- events_inv (upd_cur ?x ?f) => apply (inv_upd_cur x f) end.
  - intros t Ht. apply track_inv_push; [apply eok_timesig|exact Ht].
  - match goal with |- context [if ?c then s else _] => destruct c end; [exact H|apply inv_runtime_error, H].
Qed.

Lemma exec_get_time_inv s args cmd : events_inv s -> events_inv (snd (exec_get_time s args cmd)).
Proof.
  intros H. unfold exec_get_time. destruct args as [|a [|b [|c l]]]; cbn [snd]; try exact H; apply inv_runtime_error, H.
Qed.

(* the arms added with the controllers: channel events only *)
Lemma track_inv_push_events t evs : Forall eok evs -> track_inv t -> track_inv (tr_push_events t evs).
Proof.
  intros He [H1 H2]. split; [|exact H2]. cbn [tr_push_events tr_set_events tr_events].
  apply Forall_app. split; [exact H1|exact He].
Qed.
Lemma add_events_inv s f : (forall tp ch, Forall plain_ev (f tp ch)) -> events_inv s -> events_inv (add_events s f).
Proof.
  intros Hf H. rewrite add_events_eq. apply inv_upd_cur; [|exact H].
  intros t Ht. apply track_inv_push_events; [|exact Ht].
  eapply Forall_impl; [|apply Hf]. intros e He. apply simple_eok, plain_ev_simple, He.
Qed.
(* the arms added with the text metas / Port / SysEx: events with a payload *)
Lemma add_events_inv_eok s f : (forall tp ch, Forall eok (f tp ch)) -> events_inv s -> events_inv (add_events s f).
Proof.
  intros Hf H. rewrite add_events_eq. apply inv_upd_cur; [|exact H].
  intros t Ht. apply track_inv_push_events; [apply Hf|exact Ht].
Qed.
Lemma is_char_scalar txt : forallb Utf8.is_char txt = true -> Forall Utf8Spec.scalar txt.
Proof.
  intros H. rewrite forallb_forall in H. apply Forall_forall. intros c Hc. specialize (H c Hc).
  unfold Utf8.is_char in H. unfold Utf8Spec.scalar. lia.
Qed.
Lemma meta_text_eok tp ty txt : 0 <= ty < 128 -> ty <> 47 -> forallb Utf8.is_char txt = true ->
  Forall eok (Cmd.cmd_meta_text tp ty txt).
Proof.
  intros Hty H47 Hc. apply is_char_scalar in Hc. rewrite CmdP.meta_text_eq.
  destruct (CmdP.fit_below_spec txt 128 ltac:(lia)) as [rest [E1 [E2 E3]]].
  set (p := Utf8Spec.utf8 (Utf8Spec.fit_below 128 txt)) in *.
  assert (Hb : forallb byte_ok p = true).
  { apply CmdP.utf8_ok. rewrite E1 in Hc. apply Forall_app in Hc. tauto. }
  pose proof (CmdP.zlen_nonneg p) as Hp.
  constructor; [|constructor].
  unfold eok, event_ok, ev_meta, bytes_ok, data7. cbn [e_type e_data e_v1 e_v2 e_v3]. rewrite Hb.
  replace (ty =? 47) with false by lia.
  repeat (apply andb_true_intro; split); try reflexivity; lia.
Qed.
Lemma as_u8_byte v : byte_ok (as_u8 v) = true.
Proof. unfold byte_ok, as_u8. pose proof (Z.mod_pos_bound v 256 ltac:(lia)). lia. Qed.
Lemma cmd_port_eok tp v : Forall eok (Cmd.cmd_port tp v).
Proof.
  constructor; [|constructor]. unfold eok, event_ok, Cmd.cmd_port, ev_meta, bytes_ok, data7. cbn [e_type e_data e_v1 e_v2 e_v3 forallb].
  rewrite as_u8_byte. reflexivity.
Qed.
(* system exclusive events: every byte is `as u8` of something, the length is that of the argument list at most *)
Lemma sysex_sum_loop_ok : forall vs flag sum,
  forallb byte_ok (sysex_sum_loop vs flag sum) = true /\ (length (sysex_sum_loop vs flag sum) <= length vs)%nat.
Proof.
  induction vs as [|n r IH]; intros flag sum; [split; [reflexivity|apply le_n]|]. cbn [sysex_sum_loop].
  destruct (flag && (n =? -2)).
  - destruct (IH false sum) as [A B]. cbn [forallb length]. rewrite as_u8_byte, A. split; [reflexivity|lia].
  - destruct (n =? -1).
    + destruct (IH true 0) as [A B]. cbn [length]. split; [exact A|lia].
    + destruct (IH flag (if flag then sum + n else sum)) as [A B]. cbn [forallb length]. rewrite as_u8_byte, A. split; [reflexivity|lia].
Qed.
Lemma map_as_u8_ok vs : forallb byte_ok (map as_u8 vs) = true.
Proof. induction vs as [|v r IH]; [reflexivity|]. cbn [map forallb]. rewrite as_u8_byte, IH. reflexivity. Qed.
Lemma ev_sysex_eok time vs cs : zlen vs < 2 ^ 28 -> eok (ev_sysex time vs cs).
Proof.
  intros Hl. unfold eok, event_ok, ev_sysex. destruct cs; unfold ev_sysex_raw; cbn [e_type e_data]; unfold bytes_ok.
  - destruct (sysex_sum_loop_ok vs false 0) as [A B]. rewrite A. unfold zlen in *. cbn [andb]. lia.
  - rewrite map_as_u8_ok. unfold zlen in *. rewrite map_length. cbn [andb]. lia.
Qed.
Lemma cmd_sysex_eok tp args cs : zlen args <= SYSEX_MAX -> Forall eok (Cmd.cmd_sysex tp args cs).
Proof.
  intros Hl. unfold Cmd.cmd_sysex. destruct args as [|a0 r]; [constructor|]. constructor; [|constructor].
  apply ev_sysex_eok. unfold SYSEX_MAX, zlen in *.
  repeat match goal with |- context [if ?b then _ else _] => destruct b end;
    rewrite ?app_length; cbn [length] in *; lia.
Qed.
Lemma cmd_sysex_reset_eok tp d kind : Forall eok (Cmd.cmd_sysex_reset tp (as_u8 d) kind).
Proof.
  unfold Cmd.cmd_sysex_reset. repeat match goal with |- context [if ?b then _ else _] => destruct b end;
    repeat constructor; unfold eok, event_ok, ev_sysex_raw, bytes_ok; cbn [e_type e_data forallb]; rewrite ?as_u8_byte; reflexivity.
Qed.
Lemma cmd_sysex_command_eok tp tag args : Forall eok (Cmd.cmd_sysex_command tp tag args).
Proof.
  unfold Cmd.cmd_sysex_command. repeat match goal with |- context [if ?b then _ else _] => destruct b end;
    repeat constructor; apply ev_sysex_eok; vm_compute; reflexivity.
Qed.
Lemma gs_dt1_eok time dev body : zlen body < 1000 -> eok (Cmd.gs_dt1 time dev body).
Proof.
  intros Hl. unfold Cmd.gs_dt1. apply ev_sysex_eok. unfold zlen in *. rewrite !app_length. cbn [length]. lia.
Qed.
Lemma Ok_inj {A} (a b : A) : Ok a = Ok b -> a = b.
Proof. intros E; injection E as ->; reflexivity. Qed.
Lemma cmd_gs_effect_eok tp dev ch tag args evs : Cmd.cmd_gs_effect tp dev ch tag args = Ok evs -> Forall eok evs.
Proof.
  unfold Cmd.cmd_gs_effect.
  destruct (tag =? 0); [intros E; injection E as <-; repeat constructor; apply gs_dt1_eok; vm_compute; reflexivity|].
  destruct (tag =? 17).
  { destruct (12 <=? length args)%nat; intros E; apply Ok_inj in E; subst evs; [|constructor].
    apply Forall_forall. intros e Hin. apply in_map_iff in Hin. destruct Hin as (ic & <- & _).
    apply gs_dt1_eok. unfold zlen. rewrite app_length. cbn [length]. pose proof (firstn_le_length 12 args). lia. }
  destruct (tag =? 21); [intros E; injection E as <-; repeat constructor; apply gs_dt1_eok; vm_compute; reflexivity|].
  destruct ((48 <=? tag) && (tag <=? 64)); [|intros E; injection E as <-; constructor].
  destruct args as [|a0 r]; [discriminate|]. intros E; injection E as <-. repeat constructor. apply gs_dt1_eok. vm_compute. reflexivity.
Qed.
Lemma exec_rpn_direct_inv s nrpn args : events_inv s -> events_inv (exec_rpn_direct s nrpn args).
Proof.
  intros H. destruct (exec_rpn_direct_cases_plain s nrpn args) as [(f & -> & Hf)|[m ->]];
    [apply add_events_inv; assumption|apply inv_runtime_error, H].
Qed.

(* ------------------------------------------------------------------------------------------------ *)
(* 2. from the arms to exec_f: an invariant of step_song (relative to exec_children) is one of exec_f *)

Section ExecInv.
  Variable P : song -> Prop.
  Definition ec_keeps (ec : list tok -> res song -> res song) : Prop :=
    forall X s s2, P s -> ec X (Ok s) = Ok s2 -> P s2.
  Definition res_inv (r : res song) : Prop := match r with Ok s => P s | _ => True end.
  Hypothesis step_keeps : forall ec, ec_keeps ec -> forall t s s', P s -> step_song ec t s = Ok s' -> P s'.

  Lemma step_tok_keeps ec : ec_keeps ec -> forall t r, res_inv r -> res_inv (step_tok ec t r).
  Proof.
    intros Hec t [s| | |] H; cbn [step_tok bind res_inv]; try exact I.
    destruct (step_song ec t s) as [s'| | |] eqn:E; try exact I. cbn [res_inv] in *.
    exact (step_keeps ec Hec t s s' H E).
  Qed.

  Lemma exec_f_keeps steps : forall d, ec_keeps (exec_f d steps).
  Proof.
    induction d as [|d IH]; intros X s s2 H; [discriminate|]. cbn [exec_f].
    destruct (run _ _ _ _ _ _ _ _) as [r|] eqn:E; [|discriminate]. intros ->.
    apply (run_invariant (step_tok (exec_f d steps)) halted count_of res_inv
             (step_tok_keeps _ IH) _ _ _ _ (H : res_inv (Ok s)) E).
  Qed.
End ExecInv.

(* the macro arm, taken apart once: the variable's text is lexed with the song's lexer fields and executed *)
Definition value_text (name : list ch) (args : option (list (option marg))) (s : song) : res (list ch * song) :=
  match vars_get name (s_vars s) with
  | Some (VStr body _) => Ok (body, s)
  | Some _ => Unsupported U_VAR
  | None =>
      match args with
      | None => Ok ([], add_log s (zs "[WARN](" ++ show_int (s_lineno s) ++ zs ") Undefined: " ++ name))
      | Some _ => Ok ([], s)
      end
  end.
Definition value_body (args : option (list (option marg))) (body : list ch) : list ch :=
  match args with Some a => subst_args 1 a body | None => body end.
Definition value_run (ec : list tok -> res song -> res song) (args : option (list (option marg))) (lineno : Z)
  (ts : list ch * song) : res song :=
  do lx <- lex (ls_of_song (snd ts)) (value_body args (fst ts)) lineno;
  ec (fst lx) (Ok (song_with_ls (snd ts) (snd lx))).
Lemma step_value_eq ec name args lineno s :
  step_song ec (TValue name args lineno) s = (do ts <- value_text name args s; value_run ec args lineno ts).
Proof.
  cbn [step_song]. fold (value_text name args s).
  destruct (value_text name args s) as [[body s1]| | |]; cbn [bind]; try reflexivity.
  unfold value_run, value_body. cbn [fst snd].
  match goal with |- bind ?x _ = _ => destruct x as [[toks ls']| | |] end; reflexivity.
Qed.

Lemma bind_ok {A B} (r : res A) (f : A -> res B) b : bind r f = Ok b -> exists a, r = Ok a /\ f a = Ok b.
Proof. destruct r; cbn [bind]; try discriminate. intros H. eexists; split; [reflexivity|exact H]. Qed.

(* (stated so that the kernel unfolds value_run, never `bind (lex ...)`, when it checks the proof) *)
Lemma value_run_ok ec args lineno ts s' : value_run ec args lineno ts = Ok s' ->
  exists lx, lex (ls_of_song (snd ts)) (value_body args (fst ts)) lineno = Ok lx
             /\ ec (fst lx) (Ok (song_with_ls (snd ts) (snd lx))) = Ok s'.
Proof. exact (bind_ok _ _ _). Qed.

Lemma value_text_song name args s body s1 :
  value_text name args s = Ok (body, s1) -> s1 = s \/ exists m, s1 = add_log s m.
Proof.
  unfold value_text. destruct (vars_get name (s_vars s)) as [[b l|v|]|]; try discriminate.
  - intros E; injection E as _ <-. left; reflexivity.
  - destruct args; intros E; injection E as _ <-; [left; reflexivity|right; eexists; reflexivity].
Qed.

Lemma step_value_parts ec name args lineno s s' :
  step_song ec (TValue name args lineno) s = Ok s' ->
  exists s1 text toks ls',
    (s1 = s \/ exists m, s1 = add_log s m) /\
    lex (ls_of_song s1) text lineno = Ok (toks, ls') /\
    ec toks (Ok (song_with_ls s1 ls')) = Ok s'.
Proof.
  rewrite step_value_eq. intros E.
  apply bind_ok in E. destruct E as ([body s1] & T & E). apply value_text_song in T.
  apply value_run_ok in E. destruct E as ([toks ls'] & L & E).
  exists s1, (value_body args body), toks, ls'. split; [exact T|]. split; [exact L|exact E].
Qed.

Lemma exec_play_events_inv ec s args ln s' : ec_keeps events_inv ec ->
  events_inv s -> exec_play ec s args ln = Ok s' -> events_inv s'.
Proof.
  intros Hec H E. apply exec_play_ok in E. destruct E as (Hn & _ & s4 & last & Hp & ->).
  apply inv_change_cur_track, inv_track_sync. apply inv_upd_cur; [intros t Ht; exact Ht|].
  change (events_inv (fst (s4, last))).
  apply (play_parts_inv events_inv ec ln (tr_timepos (cur_track s))) in Hp; [exact Hp| | | |exact H].
  - intros s0 i _ H0. unfold play_enter. apply inv_upd_cur; [intros t Ht; exact Ht|]. apply inv_change_cur_track, H0.
  - intros s2 txt toks ls' s3 H2 _ E3. apply Hec in E3; [exact E3|]. apply song_with_ls_inv, H2.
  - unfold zlen in Hn. lia.
Qed.

Lemma step_song_events_inv ec : ec_keeps events_inv ec ->
  forall t s s', events_inv s -> step_song ec t s = Ok s' -> events_inv s'.
Proof.
  intros Hec t s s' H. destruct t; cbn [step_song];
  try (intros E; injection E as <-;
       first [ exact H
             | apply inv_upd_cur; [intros t0 Ht0; exact Ht0|exact H]
             | apply exec_harmony_end_inv, H
             | apply exec_voice_inv, H
             | apply inv_track_sync, H
             | apply exec_time_signature_inv, H
             | apply tempo_change_inv, H
             | apply add_events_inv; [ext_plain|exact H]
             | apply add_events_inv_eok; [intros; first [apply cmd_port_eok | apply cmd_sysex_reset_eok | apply cmd_sysex_command_eok]|exact H]
             | apply exec_rpn_direct_inv, H
             | apply inv_upd_cur; [intros t0 Ht0; first [destruct w; exact Ht0 | apply track_inv_on_rt; [rsv_ext|exact Ht0]]|exact H]
             | apply add_events_inv; [ext_plain|];
               apply inv_upd_cur; [intros t0 Ht0; apply track_inv_on_rt; [rsv_ext|exact Ht0]|exact H] ]).
  - (* TNote *) apply exec_note_inv, H.
  - (* TNoteN *) apply exec_note_n_inv, H.
  - (* TVelocity *) destruct (ino >? 0); [discriminate|]. intros E; injection E as <-.
    apply inv_upd_cur; [intros t0 Ht0; exact Ht0|exact H].
  - (* TDiv *)
    match goal with |- context [ec ?X (Ok ?x)] => destruct (ec X (Ok x)) as [s2| | |] eqn:E2 end;
      cbn [bind]; try discriminate. intros E; injection E as <-.
    apply Hec in E2; [|apply inv_upd_cur; [intros t0 Ht0; exact Ht0|exact H]].
    apply inv_upd_cur; [intros t0 Ht0; exact Ht0|exact E2].
  - (* TSub *)
    destruct (ec children (Ok s)) as [s2| | |] eqn:E2; cbn [bind]; try discriminate. intros E; injection E as <-.
    apply Hec in E2; [|exact H]. apply inv_upd_cur; [intros t0 Ht0; exact Ht0|exact E2].
  - (* TTrack *) destruct (_ || _); [discriminate|]. intros E; injection E as <-. apply inv_change_cur_track, H.
  - (* TTime *)
    pose proof (exec_get_time_inv s args (zs "TIME") H) as HG.
    destruct (exec_get_time s args (zs "TIME")) as [v s1]. cbn [snd] in HG.
    intros E; injection E as <-. apply inv_upd_cur; [intros t0 Ht0; exact Ht0|exact HG].
  - (* TPlayFrom *)
    pose proof (exec_get_time_inv s args (zs "PlayFrom") H) as HG.
    destruct (exec_get_time s args (zs "PlayFrom")) as [v s1]. cbn [snd] in HG.
    intros E; injection E as <-. exact HG.
  - (* TValue *)
    intros E. apply step_value_parts in E. destruct E as (s1 & text & toks & ls' & Hs1 & _ & E).
    apply Hec in E; [exact E|]. apply song_with_ls_inv.
    destruct Hs1 as [->|[m ->]]; [exact H|apply inv_add_log, H].
  - (* TDecresc *) destruct (_ <? _); [discriminate|]. intros E; injection E as <-.
    apply inv_upd_cur; [intros t0 Ht0; apply track_inv_on_rt; [rsv_ext|exact Ht0]|exact H].
  - (* TPlay *) intros E. apply (exec_play_events_inv ec s args lineno s' Hec H E).
  - (* TMetaText *)
    destruct (_ && _) eqn:G; [|discriminate]. intros E; injection E as <-.
    apply andb_prop in G. destruct G as [G G4]. apply andb_prop in G. destruct G as [G G3]. apply andb_prop in G. destruct G as [G1 G2].
    apply add_events_inv_eok; [|exact H]. intros tp _. apply meta_text_eok; [lia|lia|exact G4].
  - (* TTempoChange *) intros E. apply (exec_tempo_change_inv events_inv) in E; [exact E| | |exact H].
    + intros s0 v H0. apply tempo_change_inv, H0.
    + intros s0 f H0. apply inv_upd_cur; [intros t0 Ht0; exact Ht0|exact H0].
  - (* TSysEx *) intros E. apply exec_sysex_cases in E. destruct E as [[_ [m ->]]|[_ [Hl ->]]]; [apply inv_runtime_error, H|].
    apply add_events_inv_eok; [|exact H]. intros tp _. apply cmd_sysex_eok, Hl.
  - (* TGSEffect *) intros E. apply exec_gs_effect_cases in E. destruct E as (evs & Hg & ->).
    apply add_events_inv_eok; [|exact H]. intros _ _. apply (cmd_gs_effect_eok _ _ _ _ _ _ Hg).
Qed.

Theorem exec_f_events_inv steps d toks s s' :
  events_inv s -> exec_f d steps toks (Ok s) = Ok s' -> events_inv s'.
Proof. exact (exec_f_keeps events_inv step_song_events_inv steps d toks s s'). Qed.

(* ------------------------------------------------------------------------------------------------ *)
(* 3. dimensions: the time base stays in 48..32767 (lexer), the track count in 1..1000 (runner)      *)

Definition TB (ls : lexstate) : Prop := 48 <= lx_timebase ls <= 32767.

Lemma tb_add_log ls m : TB ls -> TB (lx_add_log ls m).
Proof. unfold TB. destruct (lx_add_log_other ls m) as [-> _]. exact (fun H => H). Qed.
Lemma tb_lex_error ls s ln m : TB ls -> TB (lex_error ls s ln m).
Proof. unfold TB. destruct (lex_error_other ls s ln m) as [-> _]. exact (fun H => H). Qed.
Lemma tb_read_error_cmd ls s ln c : TB ls -> TB (read_error_cmd ls s ln c).
Proof. apply tb_add_log. Qed.
(* read_timebase: max(48, v) then min(32767, .) *)
Lemma tb_clamp t0 a b c d :
  TB (mkLex (if (if t0 <=? 48 then 48 else t0) >? 32767 then 32767 else (if t0 <=? 48 then 48 else t0)) a b c d).
Proof. unfold TB. cbn [lx_timebase]. destruct (t0 <=? 48) eqn:E1; destruct (_ >? 32767) eqn:E2; lia. Qed.

Lemma read_args_tokens_tb ls s ln vs s' ln' ls' :
  read_args_tokens ls s ln = Ok (vs, s', ln', ls') -> TB ls -> TB ls'.
Proof.
  unfold read_args_tokens. intros H I. repeat brk H;
    injection H as <- <- <- <-; try exact I; apply tb_add_log, I.
Qed.
Lemma read_macro_args_tb ls s ln vs s' ln' ls' :
  read_macro_args ls s ln = Ok (vs, s', ln', ls') -> TB ls -> TB ls'.
Proof.
  unfold read_macro_args. intros H I. repeat brk H;
    injection H as <- <- <- <-; try exact I; apply tb_add_log, I.
Qed.
Lemma check_variables_tb ls cmd s ln ot s' ln' ls' :
  check_variables ls cmd s ln = Ok (ot, s', ln', ls') -> TB ls -> TB ls'.
Proof.
  unfold check_variables. intros H I. repeat brk H;
    injection H as <- <- <- <-; try exact I;
    try (apply tb_read_error_cmd, I); try (eapply read_macro_args_tb; eassumption).
Qed.

Lemma read_command_cc_tb ls no s ln ot s' ln' ls' :
  read_command_cc ls no s ln = Ok (ot, s', ln', ls') -> TB ls -> TB ls'.
Proof.
  unfold read_command_cc, cc_warn. intros H I. repeat brk H;
    injection H as <- <- <- <-; try exact I; try (apply tb_add_log, I); eapply read_args_tokens_tb; eassumption.
Qed.
Lemma guard_out_tb r x : guard_out r = Ok x -> r = Ok x.
Proof. unfold guard_out. destruct r as [a| | |]; cbn [bind]; try discriminate. destruct (otok_big _); [discriminate|]. exact (fun H => H). Qed.
Lemma read_cc_raw_tb ls is_c s ln ot s' ln' ls' :
  read_cc_raw ls is_c s ln = Ok (ot, s', ln', ls') -> TB ls -> TB ls'.
Proof.
  unfold read_cc_raw. intros H I. repeat brk H;
    try (injection H as ->; eapply read_command_cc_tb; eassumption);
    injection H as <- <- <- <-; try exact I; apply tb_read_error_cmd, I.
Qed.
Lemma read_cc_tb ls is_c s ln ot s' ln' ls' :
  read_cc ls is_c s ln = Ok (ot, s', ln', ls') -> TB ls -> TB ls'.
Proof. unfold read_cc. intros H. apply guard_out_tb in H. exact (read_cc_raw_tb _ _ _ _ _ _ _ _ H). Qed.
Lemma read_rpn_command_tb ls nrpn msb lsb s ln ot s' ln' ls' :
  read_rpn_command ls nrpn msb lsb s ln = Ok (ot, s', ln', ls') -> TB ls -> TB ls'.
Proof.
  unfold read_rpn_command. intros H I. repeat brk H;
    injection H as <- <- <- <-; try exact I; eapply read_args_tokens_tb; eassumption.
Qed.
Lemma read_play_tb ls s ln ot s' ln' ls' :
  read_play ls s ln = Ok (ot, s', ln', ls') -> TB ls -> TB ls'.
Proof.
  unfold read_play. intros H I. repeat brk H; injection H as <- <- <- <-. eapply read_macro_args_tb; eassumption.
Qed.
Lemma read_def_str_tb ls s ln ot s' ln' ls' :
  read_def_str ls s ln = Ok (ot, s', ln', ls') -> TB ls -> TB ls'.
Proof.
  unfold read_def_str. intros H I. repeat brk H;
    injection H as <- <- <- <-; try exact I; apply tb_add_log, I.
Qed.
Lemma read_int_args_tb ls s ln vs s' ln' ls' :
  read_int_args ls s ln = Ok (vs, s', ln', ls') -> TB ls -> TB ls'.
Proof.
  unfold read_int_args. intros H I. repeat brk H; injection H as <- <- <- <-. eapply read_args_tokens_tb; eassumption.
Qed.
Lemma read_int_command_tb ls ty t1 s ln ot s' ln' ls' :
  read_int_command ls ty t1 s ln = Ok (ot, s', ln', ls') -> TB ls -> TB ls'.
Proof.
  unfold read_int_command. intros H I. repeat brk H; injection H as <- <- <- <-; eapply read_int_args_tb; eassumption.
Qed.
Lemma read_ext_command_raw_tb ls ttype argt tag1 tag2 s ln ot s' ln' ls' :
  read_ext_command_raw ls ttype argt tag1 tag2 s ln = Ok (ot, s', ln', ls') -> TB ls -> TB ls'.
Proof.
  unfold read_ext_command_raw. intros H I. repeat brk H;
    try (injection H as ->; first [eapply read_cc_tb; eassumption | eapply read_command_cc_tb; eassumption
                                  | eapply read_rpn_command_tb; eassumption | eapply read_play_tb; eassumption
                                  | eapply read_def_str_tb; eassumption | eapply read_int_command_tb; eassumption]);
    injection H as <- <- <- <-; try exact I;
    first [eapply read_args_tokens_tb; eassumption | eapply read_macro_args_tb; eassumption].
Qed.
Lemma read_ext_command_tb ls ttype argt tag1 tag2 s ln ot s' ln' ls' :
  read_ext_command ls ttype argt tag1 tag2 s ln = Ok (ot, s', ln', ls') -> TB ls -> TB ls'.
Proof. unfold read_ext_command. intros H. apply guard_out_tb in H. exact (read_ext_command_raw_tb _ _ _ _ _ _ _ _ _ _ _ H). Qed.


Section LoopTB.
Variable sublex : lexstate -> list Z -> Z -> res lex_out.
Hypothesis sub_tb : forall ls s ln toks ls', sublex ls s ln = Ok (toks, ls') -> TB ls -> TB ls'.

Lemma LOOPG_tb : forall n ls s ln h acc toks ls',
  LOOPG sublex n ls s ln h acc = Ok (toks, ls') -> TB ls -> TB ls'.
Proof.
  induction n as [|n IH]; intros ls s ln h acc toks ls' H I; [discriminate H|].
  cbn [LOOPG] in H.
  repeat brk H;
  lazymatch type of H with
  | Ok _ = Ok _ => injection H as <- <-; exact I
  | _ => eapply IH; [exact H|]
  end;
  try exact I;
  try (apply tb_lex_error, I); try (apply tb_add_log, I);
  try (eapply check_variables_tb; eassumption);
  try (eapply read_args_tokens_tb; eassumption);
  try (eapply read_cc_tb; eassumption);
  try (eapply read_ext_command_tb; eassumption);
  try (eapply sub_tb; eassumption);
  try (apply tb_clamp).
Qed.
End LoopTB.

Lemma lex_f_tb : forall f ls src ln toks ls', lex_f f ls src ln = Ok (toks, ls') -> TB ls -> TB ls'.
Proof.
  induction f as [|f IH]; intros ls src ln toks ls' H I; [discriminate H|].
  rewrite lex_f_unfold in H. destruct (lex_pre src); [discriminate H|]. unfold LOOP in H. eapply LOOPG_tb; [exact IH|exact H|exact I].
Qed.
Theorem lex_tb ls src ln toks ls' : lex ls src ln = Ok (toks, ls') -> TB ls -> TB ls'.
Proof. unfold lex. apply lex_f_tb. Qed.

(* ---- the runner ---- *)
Definition dims_inv (s : song) : Prop :=
  (1 <= length (s_tracks s) <= 1000)%nat /\ 48 <= s_timebase s <= 32767.
(* what dims_inv looks at *)
Definition dsig (s : song) : nat * Z := (length (s_tracks s), s_timebase s).

Lemma dims_of_dsig s s' : dsig s' = dsig s -> dims_inv s -> dims_inv s'.
Proof. unfold dsig, dims_inv. intros E. injection E as -> ->. exact (fun H => H). Qed.

Ltac dsig_tac :=
  unfold dsig;
  cbn [s_tracks s_timebase upd_cur track_sync s_set_tracks s_set_cur s_set_key_flag s_set_key_shift
       s_set_use_key_shift s_set_v_add s_set_q_add s_set_harmony_flag s_set_harmony_time s_set_harmony_events
       s_set_octave_once s_set_break_flag s_set_tempo s_set_timesig_frac s_set_timesig_deno s_set_measure_shift
       s_set_play_from s_set_lineno s_set_logs s_set_vars s_set_rhythm s_set_rand_seed s_set_harmony s_set_time s_set_adds];
  rewrite ?upd_nth_length, ?map_length; reflexivity.

Lemma dsig_upd_cur s f : dsig (upd_cur s f) = dsig s.
Proof. dsig_tac. Qed.
Lemma dsig_add_log s m : dsig (add_log s m) = dsig s.
Proof. unfold add_log. destruct (_ <=? _); reflexivity. Qed.
Lemma dsig_runtime_error s m : dsig (runtime_error s m) = dsig s.
Proof. apply dsig_add_log. Qed.

Lemma dsig_add_events s f : dsig (add_events s f) = dsig s.
Proof. apply dsig_upd_cur. Qed.
Lemma dsig_exec_rpn_direct s nrpn args : dsig (exec_rpn_direct s nrpn args) = dsig s.
Proof.
  destruct (exec_rpn_direct_cases s nrpn args) as [[f ->]|[m ->]]; [apply dsig_add_events|apply dsig_runtime_error].
Qed.
Lemma dsig_emit_note s ev nl lettered slur s' : emit_note s ev nl lettered slur = Ok s' -> dsig s' = dsig s.
Proof.
  unfold emit_note.
  repeat match goal with |- context [if ?b then _ else _] => destruct b end;
    intros E; injection E as <-; dsig_tac.
Qed.

Lemma dsig_set_rand_seed s v : dsig (s_set_rand_seed s v) = dsig s.
Proof. reflexivity. Qed.
Lemma dsig_exec_note s base flag natural len qlen vel timing oct slur s' :
  exec_note s base flag natural len qlen vel timing oct slur = Ok s' -> dsig s' = dsig s.
Proof.
  unfold exec_note. destr_pairs. intros E. apply dsig_emit_note in E. rewrite E, dsig_set_rand_seed. apply dsig_upd_cur.
Qed.
Lemma dsig_exec_note_n s no len qlen vel timing slur s' :
  exec_note_n s no len qlen vel timing slur = Ok s' -> dsig s' = dsig s.
Proof.
  unfold exec_note_n. destr_pairs. intros E. apply dsig_emit_note in E. rewrite E, dsig_set_rand_seed. apply dsig_upd_cur.
Qed.
Lemma dsig_exec_voice s args : dsig (exec_voice s args) = dsig s.
Proof. unfold exec_voice. destruct args as [|a [|b l]]; apply dsig_upd_cur. Qed.
Lemma dsig_harmony_end s len q vel : dsig (exec_harmony_end s len q vel) = dsig s.
Proof. unfold exec_harmony_end. destruct (s_harmony_flag s); [dsig_tac|reflexivity]. Qed.
Lemma dsig_tempo_change s v : dsig (tempo_change s v) = dsig s.
Proof. unfold tempo_change. dsig_tac. Qed.
Lemma dsig_time_signature s args : dsig (exec_time_signature s args) = dsig s.
Proof.
  unfold exec_time_signature. destruct args as [|a [|b l]]; try apply dsig_runtime_error.
  rewrite dsig_upd_cur.
  match goal with |- context [if ?c then s else _] => destruct c end; [reflexivity|].
  transitivity (dsig (runtime_error s (zs "[TimeSignature] value must be 2/4/8/16,n"))); [reflexivity|apply dsig_runtime_error].
Qed.
Lemma dsig_get_time s args cmd : dsig (snd (exec_get_time s args cmd)) = dsig s.
Proof.
  unfold exec_get_time. destruct args as [|a [|b [|c l]]]; cbn [snd]; try reflexivity; apply dsig_runtime_error.
Qed.

Lemma add_tracks_length n : forall tb l, length (add_tracks n tb l) = (length l + n)%nat.
Proof.
  induction n as [|n IH]; intros tb l; cbn [add_tracks]; [lia|].
  rewrite IH, app_length. cbn [length]. lia.
Qed.
Lemma dsig_settle s : dsig (settle_octave_once s) = dsig s.
Proof. unfold settle_octave_once. destruct (_ =? 0); [reflexivity|dsig_tac]. Qed.
(* TR(no), 0 <= no <= 999: tracks 0..no exist afterwards, none beyond what existed or was asked for *)
Lemma dims_change_cur_track s no : (no <= 999)%nat -> dims_inv s -> dims_inv (change_cur_track s no).
Proof.
  intros Hn H. apply (dims_of_dsig s _ (dsig_settle s)) in H. destruct H as [H1 H2].
  unfold change_cur_track, dims_inv. cbn [s_tracks s_timebase s_set_cur s_set_tracks].
  rewrite add_tracks_length. split; [lia|exact H2].
Qed.

Lemma dims_song_with_ls s ls : TB ls -> dims_inv s -> dims_inv (song_with_ls s ls).
Proof.
  intros Ht [H1 _]. split; [|destruct s; exact Ht].
  rewrite song_with_ls_tracks, follow_length. exact H1.
Qed.
Lemma tb_ls_of_song s : dims_inv s -> TB (ls_of_song s).
Proof. intros [_ H]. exact H. Qed.

Lemma exec_play_dims ec s args ln s' : ec_keeps dims_inv ec ->
  dims_inv s -> exec_play ec s args ln = Ok s' -> dims_inv s'.
Proof.
  intros Hec H E. apply exec_play_ok in E. destruct E as (Hn & Hcur & s4 & last & Hp & ->).
  apply dims_change_cur_track; [exact Hcur|].
  assert (H4 : dims_inv s4).
  { change (dims_inv (fst (s4, last))).
    apply (play_parts_inv dims_inv ec ln (tr_timepos (cur_track s))) in Hp; [exact Hp| | | |exact H].
    - intros s0 i Hi H0. unfold play_enter. apply (dims_of_dsig (change_cur_track s0 i) _ (dsig_upd_cur _ _)).
      apply dims_change_cur_track; assumption.
    - intros s2 txt toks ls' s3 H2 L E3. apply Hec in E3; [exact E3|]. apply dims_song_with_ls; [|exact H2].
      apply (lex_tb _ _ _ _ _ L), tb_ls_of_song, H2.
    - unfold zlen in Hn. lia. }
  apply (dims_of_dsig s4); [|exact H4].
  unfold dsig, track_sync, upd_cur. cbn [s_tracks s_timebase s_set_tracks]. rewrite map_length, upd_nth_length. reflexivity.
Qed.

Lemma step_song_dims ec : ec_keeps dims_inv ec ->
  forall t s s', dims_inv s -> step_song ec t s = Ok s' -> dims_inv s'.
Proof.
  intros Hec t s s' H. destruct t; cbn [step_song];
  try (intros E; injection E as <-; apply (dims_of_dsig s); [|exact H];
       first [ reflexivity | dsig_tac | apply dsig_harmony_end | apply dsig_exec_voice
             | apply dsig_time_signature | apply dsig_tempo_change | apply dsig_add_events | apply dsig_exec_rpn_direct
             | (rewrite dsig_add_events; apply dsig_upd_cur) | apply dsig_upd_cur ]).
  - (* TNote *) intros E. apply dsig_exec_note in E. apply (dims_of_dsig s _ E H).
  - (* TNoteN *) intros E. apply dsig_exec_note_n in E. apply (dims_of_dsig s _ E H).
  - (* TVelocity *) destruct (ino >? 0); [discriminate|]. intros E; injection E as <-.
    apply (dims_of_dsig s _ (dsig_upd_cur s _) H).
  - (* TDiv *)
    match goal with |- context [ec ?X (Ok ?x)] => destruct (ec X (Ok x)) as [s2| | |] eqn:E2 end;
      cbn [bind]; try discriminate. intros E; injection E as <-.
    apply Hec in E2; [|apply (dims_of_dsig s _ (dsig_upd_cur s _) H)].
    apply (dims_of_dsig s2 _ (dsig_upd_cur s2 _) E2).
  - (* TSub *)
    destruct (ec children (Ok s)) as [s2| | |] eqn:E2; cbn [bind]; try discriminate. intros E; injection E as <-.
    apply Hec in E2; [|exact H]. apply (dims_of_dsig s2 _ (dsig_upd_cur s2 _) E2).
  - (* TTrack *) destruct (_ || _) eqn:Ev; [discriminate|]. intros E; injection E as <-.
    apply dims_change_cur_track; [lia|exact H].
  - (* TTime *)
    pose proof (dsig_get_time s args (zs "TIME")) as HG.
    destruct (exec_get_time s args (zs "TIME")) as [v s1]. cbn [snd] in HG.
    intros E; injection E as <-. apply (dims_of_dsig s); [|exact H]. rewrite dsig_upd_cur. exact HG.
  - (* TPlayFrom *)
    pose proof (dsig_get_time s args (zs "PlayFrom")) as HG.
    destruct (exec_get_time s args (zs "PlayFrom")) as [v s1]. cbn [snd] in HG.
    intros E; injection E as <-. apply (dims_of_dsig s); [|exact H]. exact HG.
  - (* TValue: the text is lexed with the song's time base; the lexer keeps it in range *)
    intros E. apply step_value_parts in E. destruct E as (s1 & text & toks & ls' & Hs1 & L & E).
    assert (H1 : dims_inv s1).
    { destruct Hs1 as [->|[m ->]]; [exact H|apply (dims_of_dsig s _ (dsig_add_log s m) H)]. }
    apply Hec in E; [exact E|]. apply dims_song_with_ls; [|exact H1].
    apply (lex_tb _ _ _ _ _ L), tb_ls_of_song, H1.
  - (* TDecresc *) destruct (_ <? _); [discriminate|]. intros E; injection E as <-.
    apply (dims_of_dsig s _ (dsig_upd_cur s _) H).
  - (* TPlay *) intros E. apply (exec_play_dims ec s args lineno s' Hec H E).
  - (* TMetaText *) destruct (_ && _); [|discriminate]. intros E; injection E as <-.
    apply (dims_of_dsig s _ (dsig_add_events s _) H).
  - (* TTempoChange *) intros E. apply (exec_tempo_change_inv dims_inv) in E; [exact E| | |exact H].
    + intros s0 v H0. apply (dims_of_dsig s0 _ (dsig_tempo_change s0 v) H0).
    + intros s0 f H0. apply (dims_of_dsig s0 _ (dsig_upd_cur s0 _) H0).
  - (* TSysEx *) intros E. apply exec_sysex_cases in E. destruct E as [[_ [m ->]]|[_ [Hl ->]]].
    + apply (dims_of_dsig s _ (dsig_add_log s _) H).
    + apply (dims_of_dsig s _ (dsig_add_events s _) H).
  - (* TGSEffect *) intros E. apply exec_gs_effect_cases in E. destruct E as (evs & Hg & ->).
    apply (dims_of_dsig s _ (dsig_add_events s _) H).
Qed.

Theorem exec_f_dims steps d toks s s' :
  dims_inv s -> exec_f d steps toks (Ok s) = Ok s' -> dims_inv s'.
Proof. exact (exec_f_keeps dims_inv step_song_dims steps d toks s s'). Qed.

(* ------------------------------------------------------------------------------------------------ *)
(* 4. from the final song to the writer: flush of ties, play_from, split_note_off, events_sort        *)

Lemma pf_step_ok tp a e : eok e -> Forall eok (pf_head a) -> Forall eok (pf_rest a) ->
  Forall eok (pf_head (pf_step tp a e)) /\ Forall eok (pf_rest (pf_step tp a e)).
Proof.
  intros He Hh Hr.
  assert (Hs : forall l t, Forall eok l -> Forall eok (l ++ [set_time e t])).
  { intros l t Hl. apply Forall_app. split; [exact Hl|]. constructor; [apply eok_set_time, He|constructor]. }
  unfold pf_step. destruct (e_type e);
    repeat match goal with |- context [if ?b then _ else _] => destruct b end;
    cbn [pf_head pf_rest]; split; auto.
Qed.

Lemma pf_fold_ok tp evs : forall a, Forall eok evs -> Forall eok (pf_head a) -> Forall eok (pf_rest a) ->
  Forall eok (pf_head (fold_left (pf_step tp) evs a)) /\ Forall eok (pf_rest (fold_left (pf_step tp) evs a)).
Proof.
  induction evs as [|e r IH]; intros a He Hh Hr; cbn [fold_left]; [split; assumption|].
  inversion He as [|x y He1 He2]; subst.
  destruct (pf_step_ok tp a e He1 Hh Hr) as [A B]. apply IH; assumption.
Qed.

Lemma restore_ccs_ok ccs : forall ch no, Forall eok (restore_ccs ch no ccs).
Proof.
  induction ccs as [|v r IH]; intros ch no; cbn [restore_ccs]; [constructor|].
  apply Forall_app. split; [|apply IH].
  destruct (v <? 0); [constructor|]. constructor; [apply simple_eok, simple_cc|constructor].
Qed.

Lemma restore_cc_rows_ok rows : forall ch, Forall eok (restore_cc_rows ch rows).
Proof.
  induction rows as [|row r IH]; intros ch; cbn [restore_cc_rows]; [constructor|].
  apply Forall_app. split; [apply restore_ccs_ok|apply IH].
Qed.

Lemma restore_voices_ok vs : forall ch, Forall eok (restore_voices ch vs).
Proof.
  induction vs as [|v r IH]; intros ch; cbn [restore_voices]; [constructor|].
  apply Forall_app. split; [|apply IH].
  destruct (v >=? 0); [|constructor]. constructor; [apply simple_eok, simple_voice|constructor].
Qed.

Theorem play_from_ok tp evs : Forall eok evs -> Forall eok (play_from tp evs).
Proof.
  intros H. unfold play_from.
  match goal with |- context [fold_left ?f evs ?a0] =>
    destruct (pf_fold_ok tp evs a0 H) as [A B]; [constructor|constructor|] end.
  apply Forall_app. split; [exact A|]. apply Forall_app. split; [apply restore_cc_rows_ok|].
  apply Forall_app. split; [apply restore_voices_ok|exact B].
Qed.

Theorem split_note_off_ok evs : Forall eok evs -> Forall eok (split_note_off evs).
Proof.
  induction 1 as [|e r He Hr IH]; cbn [split_note_off]; [constructor|].
  destruct (e_type e) eqn:Ty; try (constructor; [exact He|exact IH]).
  constructor; [exact He|]. constructor; [reflexivity|exact IH].
Qed.

Theorem events_sort_ok evs : Forall eok evs -> Forall eok (events_sort evs).
Proof. intros H. eapply Permutation_Forall; [apply Permutation_sym, events_sort_perm|exact H]. Qed.

Theorem normalize_and_sort_ok evs : Forall eok evs -> Forall eok (normalize_and_sort evs).
Proof. intros H. apply events_sort_ok, split_note_off_ok, H. Qed.

Lemma Forall_eok_forallb l : Forall eok l -> forallb event_ok l = true.
Proof. intros H. apply forallb_forall. rewrite Forall_forall in H. exact H. Qed.

(* every list handed to the writer *)
Theorem tracks_for_writer_ok s : events_inv s -> Forall (Forall eok) (tracks_for_writer s).
Proof.
  intros [H _]. unfold tracks_for_writer. apply Forall_forall. intros evs Hin.
  apply in_map_iff in Hin. destruct Hin as (t & <- & Hin).
  rewrite Forall_forall in H. pose proof (check_tie_notes_events_ok (s_timebase s) t (H t Hin)) as Ht.
  destruct (s_play_from s <? 0); [exact Ht|]. apply play_from_ok, events_sort_ok, Ht.
Qed.

Lemma tracks_for_writer_length s : length (tracks_for_writer s) = length (s_tracks s).
Proof. unfold tracks_for_writer. apply map_length. Qed.

(* ------------------------------------------------------------------------------------------------ *)
(* 5. the whole pipeline                                                                              *)

Theorem run_source_inv src s : run_source src = Ok s -> events_inv s /\ dims_inv s.
Proof.
  unfold run_source, run_source_lang. intros E. apply bind_ok in E. destruct E as ([toks ls] & L & E).
  assert (T : TB ls). { apply (lex_tb _ _ _ _ _ L). unfold TB. cbn [lx_timebase]. lia. }
  split.
  - apply (exec_f_events_inv _ _ _ _ _ (song_after_lex_inv ls) E).
  - apply (exec_f_dims _ _ _ _ _) in E; [exact E|].
    apply dims_song_with_ls; [exact T|]. split; [cbn; lia|cbn; lia].
Qed.
Theorem run_source_wf src s : run_source src = Ok s -> events_wf s.
Proof. intros E. apply events_inv_wf, (run_source_inv src s E). Qed.

Lemma ok_inj {A} (a b : A) : @Ok A a = Ok b -> a = b.
Proof. intros H. injection H as H. exact H. Qed.

(* the writer's loops, read back as the list of bodies *)
Lemma write_tracks_bodies tracks : forall out, write_tracks tracks = Ok out ->
  exists bodies, bodies_of tracks = Ok bodies /\ out = flat_map chunk bodies.
Proof.
  induction tracks as [|t r IH]; intros out H; cbn [write_tracks] in H.
  - injection H as <-. exists []. split; reflexivity.
  - apply bind_ok in H. destruct H as (b & G & H). apply bind_ok in H. destruct H as (rest & W & H).
    apply ok_inj in H. subst out. destruct (IH rest W) as (bs & B & ->).
    exists (b :: bs). split; [cbn [bodies_of]; rewrite G, B; reflexivity|].
    cbn [flat_map]. unfold chunk. rewrite <- !app_assoc. reflexivity.
Qed.

Lemma bodies_nth tracks : forall bodies i t b, bodies_of tracks = Ok bodies ->
  nth_error tracks i = Some t -> nth_error bodies i = Some b -> generate_track t = Ok b.
Proof.
  induction tracks as [|t0 r IH]; intros bodies i t b H Ht Hb; [destruct i; discriminate|].
  cbn [bodies_of] in H. apply bind_ok in H. destruct H as (b0 & G & H).
  apply bind_ok in H. destruct H as (bs & B & H). injection H as <-.
  destruct i as [|i]; cbn [nth_error] in Ht, Hb.
  - injection Ht as <-. injection Hb as <-. exact G.
  - exact (IH bs i t b B Ht Hb).
Qed.

Lemma body_le_chunks b : forall bodies, In b bodies -> (length b <= length (flat_map chunk bodies))%nat.
Proof.
  induction bodies as [|x r IH]; intros Hin; [destruct Hin|].
  cbn [flat_map]. rewrite app_length. destruct Hin as [->|Hin].
  - unfold chunk. rewrite !app_length. lia.
  - specialize (IH Hin). lia.
Qed.

Definition file_header (s : song) : header := mkHeader 1 (zlen (s_tracks s)) (s_timebase s).

(* Every source for which the model returns a value: the bytes are a container of one chunk per track of the
   final song, and every chunk whose delta times fit the SMF range decodes to the wire form of that track's
   normalized, sorted event list.  The one hypothesis: the file is shorter than 2^32 bytes. *)
Theorem compile_pipeline src bytes log :
  compile src = Ok (bytes, log) -> zlen bytes < 2 ^ 32 ->
  exists s bodies,
    run_source src = Ok s /\
    events_wf s /\ (1 <= length (s_tracks s) <= 1000)%nat /\ 48 <= s_timebase s <= 32767 /\
    parse_file bytes = Some (file_header s, bodies) /\
    container_ok bytes = true /\
    length bodies = length (s_tracks s) /\
    forall i evs body,
      nth_error (tracks_for_writer s) i = Some evs -> nth_error bodies i = Some body ->
      deltas_ok (wire 0 (normalize_and_sort evs)) = true ->
      decode_track body = Some (wire 0 (normalize_and_sort evs) ++ [EOTmsg]).
Proof.
  unfold compile, compile_lang. fold (run_source src). intros E Hsz. apply bind_ok in E. destruct E as (s & R & E).
  apply bind_ok in E. destruct E as (bs & G & E). injection E as -> _.
  destruct (run_source_inv src s R) as [Hev [Hn Htb]].
  unfold generate, generate_sorted in G. apply bind_ok in G. destruct G as (out & W & G).
  destruct (write_tracks_bodies _ _ W) as (bodies & B & ->).
  assert (Hlen : length bodies = length (s_tracks s)).
  { rewrite (bodies_length _ _ B), map_length. apply tracks_for_writer_length. }
  assert (Hd : dims_ok (s_timebase s) bodies).
  { split; [lia|]. split; [unfold zlen; lia|].
    apply Forall_forall. intros b Hin. pose proof (body_le_chunks b bodies Hin) as Hb.
    apply ok_inj in G. rewrite <- G in Hsz. unfold zlen in *. rewrite !app_length in Hsz. lia. }
  destruct (generate_container (s_timebase s) _ bodies B Hd) as (bs' & G' & P & C).
  unfold generate_sorted in G'. rewrite W in G'. cbn [bind] in G'. rewrite G in G'. injection G' as <-.
  exists s, bodies. split; [exact R|]. split; [apply events_inv_wf, Hev|]. split; [exact Hn|]. split; [exact Htb|].
  split. { rewrite P. unfold file_header, zlen. rewrite map_length, tracks_for_writer_length. reflexivity. }
  split; [exact C|]. split; [exact Hlen|].
  intros i evs body Hi Hb Hdl.
  assert (Hg : generate_track (normalize_and_sort evs) = Ok body).
  { apply (bodies_nth _ bodies i _ _ B); [|exact Hb]. rewrite nth_error_map, Hi. reflexivity. }
  pose proof (tracks_for_writer_ok s Hev) as Hall. rewrite Forall_forall in Hall.
  assert (Hok : forallb event_ok (normalize_and_sort evs) = true).
  { apply Forall_eok_forallb, normalize_and_sort_ok, Hall. eapply nth_error_In, Hi. }
  destruct (generate_track_decodes _ Hok Hdl) as (bs2 & G2 & D). rewrite Hg in G2. injection G2 as <-. exact D.
Qed.

(* the two faces of compile_pipeline, as C02 and C01 state them *)
Theorem compile_decodes src bytes log :
  compile src = Ok (bytes, log) -> zlen bytes < 2 ^ 32 ->
  exists s bodies,
    run_source src = Ok s /\ events_wf s /\
    parse_file bytes = Some (mkHeader 1 (zlen (s_tracks s)) (s_timebase s), bodies) /\
    length bodies = length (s_tracks s) /\
    forall i evs body,
      nth_error (tracks_for_writer s) i = Some evs -> nth_error bodies i = Some body ->
      deltas_ok (wire 0 (normalize_and_sort evs)) = true ->
      decode_track body = Some (wire 0 (normalize_and_sort evs) ++ [EOTmsg]).
Proof.
  intros E Hsz. destruct (compile_pipeline src bytes log E Hsz) as (s & bodies & R & W & _ & _ & P & _ & L & D).
  exists s, bodies. split; [exact R|]. split; [exact W|]. split; [exact P|]. split; [exact L|exact D].
Qed.

Theorem compile_container src bytes log :
  compile src = Ok (bytes, log) -> zlen bytes < 2 ^ 32 ->
  container_ok bytes = true /\
  exists s bodies,
    run_source src = Ok s /\
    parse_file bytes = Some (mkHeader 1 (zlen (s_tracks s)) (s_timebase s), bodies) /\
    length bodies = length (s_tracks s) /\
    (1 <= length (s_tracks s) <= 1000)%nat /\ 48 <= s_timebase s <= 32767.
Proof.
  intros E Hsz. destruct (compile_pipeline src bytes log E Hsz) as (s & bodies & R & _ & N & T & P & C & L & _).
  split; [exact C|]. exists s, bodies. split; [exact R|]. split; [exact P|]. split; [exact L|]. split; [exact N|exact T].
Qed.

Theorem dims_from_source src s :
  run_source src = Ok s -> (1 <= length (s_tracks s) <= 1000)%nat /\ 48 <= s_timebase s <= 32767.
Proof. intros R. exact (proj2 (run_source_inv src s R)). Qed.
