(* C01 / C02 lifted from the writer to the whole pipeline model Compile.compile.

   1. events_inv: every event the runner ever stores is one the track-decoding theorem covers
      (TrackSpec.event_ok); the pending lists (chord notes, tied notes) hold only channel events.
      song_new has it, every arm of step_song keeps it (for every exec_children that keeps it), hence
      exec_f keeps it (induction on the nesting fuel + BlockP.run_invariant); check_tie_notes, play_from,
      split_note_off and events_sort keep `Forall event_ok`.
   2. dims_inv: at most 1000 tracks (TTrack admits 0..999) and 48 <= time base <= 32767 (the lexer clamps
      TimeBase; proved over the whole lexer loop through LayoutP.LOOPG, as LogP does for the log bound).
   3. compile_decodes / compile_container: the statements of C02 / C01 for `compile src = Ok (bytes, log)`.
      The only size hypothesis left is that the FILE is shorter than 2^32 bytes (so every chunk length fits). *)
From Coq Require Import String Ascii.
From Sakura.Model Require Import Base Cursor Length Event Writer Song Token LoopMachine LexCore RunCore Tie Compile.
From Sakura.Gen Require Import Consts VarRows.
From Sakura.Spec Require Import SmfSpec TrackSpec.
From Sakura.Proofs Require Import VlqP WriterP SortP ContainerP BlockP LayoutP LogP.
From Coq Require Import Lia Permutation.
Open Scope list_scope.
Open Scope Z_scope.

(* ------------------------------------------------------------------------------------------------ *)
(* 1. the event invariant                                                                             *)

Definition eok (e : event) : Prop := event_ok e = true.
(* a channel event: no payload, nothing for the writer to frame *)
Definition simple (e : event) : Prop :=
  match e_type e with Meta | SysEx | DirectSMF => False | _ => True end.

Lemma simple_eok e : simple e -> eok e.
Proof. unfold simple, eok, event_ok. destruct (e_type e); intros H; try reflexivity; destruct H. Qed.

(* the statement asked for: everything stored anywhere in the song is event_ok *)
Definition track_wf (t : track) : Prop := Forall eok (tr_events t) /\ Forall eok (tr_tie_notes t).
Definition events_wf (s : song) : Prop := Forall track_wf (s_tracks s) /\ Forall eok (s_harmony_events s).
(* the invariant that is preserved: the pending lists are rewritten (gate, velocity, time), which is
   harmless only for channel events *)
Definition track_inv (t : track) : Prop := Forall eok (tr_events t) /\ Forall simple (tr_tie_notes t).
Definition events_inv (s : song) : Prop := Forall track_inv (s_tracks s) /\ Forall simple (s_harmony_events s).

Lemma Forall_simple_eok l : Forall simple l -> Forall eok l.
Proof. intros H. eapply Forall_impl; [|exact H]. exact simple_eok. Qed.

Lemma events_inv_wf s : events_inv s -> events_wf s.
Proof.
  intros [H1 H2]. split; [|apply Forall_simple_eok, H2].
  eapply Forall_impl; [|exact H1]. intros t [A B]. split; [exact A|apply Forall_simple_eok, B].
Qed.

Lemma track_new_inv tb ch : track_inv (track_new tb ch).
Proof. split; constructor. Qed.

Lemma song_new_inv : events_inv song_new.
Proof. split; [constructor; [apply track_new_inv|constructor]|constructor]. Qed.
Lemma song_new_wf : events_wf song_new.
Proof. apply events_inv_wf, song_new_inv. Qed.

Lemma song_with_ls_inv s ls : events_inv s -> events_inv (song_with_ls s ls).
Proof. exact (fun H => H). Qed.
Lemma song_after_lex_inv ls : events_inv (song_after_lex ls).
Proof. apply song_with_ls_inv, song_new_inv. Qed.
Lemma song_after_lex_wf ls : events_wf (song_after_lex ls).
Proof. apply events_inv_wf, song_after_lex_inv. Qed.

(* ---- the constructors used by the runner ---- *)
Lemma simple_note t c n l v : simple (ev_note t c n l v). Proof. exact I. Qed.
Lemma simple_voice t c v : simple (ev_voice t c v). Proof. exact I. Qed.
Lemma simple_cc t c n v : simple (ev_cc t c n v). Proof. exact I. Qed.
Lemma simple_bend t c v : simple (ev_pitch_bend t c v). Proof. exact I. Qed.
Lemma simple_bend_range t c v : simple (ev_pitch_bend_range t c v). Proof. exact I. Qed.
Lemma simple_set_v2 e v : simple e -> simple (set_v2 e v).
Proof. exact (fun H => H). Qed.
Lemma simple_set_time e t : simple e -> simple (set_time e t).
Proof. exact (fun H => H). Qed.
Lemma eok_set_time e t : eok e -> eok (set_time e t).
Proof. exact (fun H => H). Qed.

Lemma byte_ok_as_u8 v : byte_ok (as_u8 v) = true.
Proof. unfold byte_ok, as_u8. pose proof (Z.mod_pos_bound v 256). lia. Qed.

Lemma eok_tempo t a b c : eok (ev_meta t 255 81 3 [as_u8 a; as_u8 b; as_u8 c]).
Proof.
  unfold eok, event_ok, ev_meta. cbn [e_type e_data e_v1 e_v2 e_v3 bytes_ok forallb].
  rewrite !byte_ok_as_u8. reflexivity.
Qed.
Lemma eok_timesig t a b : eok (ev_meta t 255 88 4 [as_u8 a; as_u8 b; 24; 8]).
Proof.
  unfold eok, event_ok, ev_meta. cbn [e_type e_data e_v1 e_v2 e_v3 bytes_ok forallb].
  rewrite !byte_ok_as_u8. reflexivity.
Qed.

(* ---- Tie.check_tie_notes ---- *)
Lemma ensure_bend_range_ok ch br ft evs :
  Forall eok evs -> Forall eok (snd (ensure_bend_range ch br ft evs)).
Proof.
  intros H. unfold ensure_bend_range. destruct (br <=? 0); cbn [snd]; [|exact H].
  apply Forall_app. split; [exact H|]. constructor; [apply simple_eok, simple_bend_range|constructor].
Qed.

Lemma port_bends_ok n : forall i tv nt ch bf lv, Forall eok (port_bends n i tv nt ch bf lv).
Proof.
  induction n as [|n IH]; intros; cbn [port_bends]; [constructor|].
  match goal with |- context [if ?b then _ else _] => destruct b end; [apply IH|].
  constructor; [apply simple_eok, simple_bend|apply IH].
Qed.

Lemma port_loop_ok rest : forall last tb ch tv br evs,
  Forall simple rest -> simple last -> Forall eok evs -> Forall eok (snd (port_loop rest last tb ch tv br evs)).
Proof.
  induction rest as [|next r IH]; intros last tb ch tv br evs Hr Hl He; cbn [port_loop].
  - cbn [snd]. apply Forall_app. split; [exact He|]. constructor; [apply simple_eok, Hl|constructor].
  - inversion Hr as [|x y Hn Hr']; subst.
    destruct (e_v1 last =? e_v1 next).
    + apply IH; [exact Hr'|apply simple_set_v2, Hl|exact He].
    + pose proof (ensure_bend_range_ok ch br (e_time last) evs He) as HE.
      destruct (ensure_bend_range ch br (e_time last) evs) as [br1 ev1]. cbn [snd] in HE.
      apply IH; [exact Hr'|exact Hn|].
      apply Forall_app. split; [exact HE|]. apply Forall_app. split; [apply port_bends_ok|].
      constructor; [apply simple_eok, simple_set_v2, Hl|]. constructor; [apply simple_eok, simple_bend|constructor].
Qed.

Lemma bend_loop_ok rest : forall last begin ch br lp evs,
  Forall eok evs -> Forall eok (snd (bend_loop rest last begin ch br lp evs)).
Proof.
  induction rest as [|next r IH]; intros last begin ch br lp evs He; cbn [bend_loop]; [exact He|].
  destruct (e_v1 last =? e_v1 next); [apply IH, He|].
  apply IH. apply Forall_app. split; [exact He|]. constructor; [apply simple_eok, simple_bend|constructor].
Qed.

Lemma gate_loop_ok rest : forall last tv evs,
  Forall simple rest -> simple last -> Forall eok evs -> Forall eok (gate_loop rest last tv evs).
Proof.
  induction rest as [|next r IH]; intros last tv evs Hr Hl He; cbn [gate_loop].
  - apply Forall_app. split; [exact He|]. constructor; [apply simple_eok, Hl|constructor].
  - inversion Hr as [|x y Hn Hr']; subst.
    destruct (e_v1 last =? e_v1 next).
    + apply IH; [exact Hr'|apply simple_set_v2, Hl|exact He].
    + apply IH; [exact Hr'|exact Hn|]. apply Forall_app. split; [exact He|].
      constructor; [apply simple_eok, simple_set_v2, Hl|constructor].
Qed.

Lemma check_tie_notes_inv tb t : track_inv t -> track_inv (check_tie_notes tb t).
Proof.
  intros [He Ht]. unfold check_tie_notes.
  destruct (tr_tie_notes t) as [|first rest] eqn:E; [split; [exact He|rewrite E; constructor]|].
  inversion Ht as [|x y Hf Hr]; subst.
  destruct (tr_tie_mode t =? 1).
  { pose proof (ensure_bend_range_ok (tr_channel t) (tr_bend_range t) (e_time first) (tr_events t) He) as HE.
    destruct (ensure_bend_range (tr_channel t) (tr_bend_range t) (e_time first) (tr_events t)) as [br ev1].
    cbn [snd] in HE.
    match goal with |- context [bend_loop ?a ?b ?c ?d ?e ?f ?g] =>
      pose proof (bend_loop_ok a b c d e f g) as HB; destruct (bend_loop a b c d e f g) as [lastpos ev3] end.
    cbn [snd] in HB. split; [|constructor]. cbn [tr_events tr_set_tie].
    apply Forall_app. split.
    - apply HB. apply Forall_app. split; [exact HE|]. constructor; [apply simple_eok, simple_bend|constructor].
    - constructor; [apply simple_eok, simple_set_v2, Hf|]. constructor; [apply simple_eok, simple_bend|constructor]. }
  destruct (tr_tie_mode t =? 2).
  { split; [|constructor]. cbn [tr_events tr_set_tie]. apply gate_loop_ok; assumption. }
  destruct (tr_tie_mode t =? 3).
  { split; [|constructor]. cbn [tr_events tr_set_tie]. apply Forall_app. split; [exact He|].
    apply Forall_forall. intros e Hin. apply in_map_iff in Hin. destruct Hin as (e0 & <- & Hin).
    apply simple_eok, simple_set_v2. rewrite Forall_forall in Ht. apply Ht, Hin. }
  match goal with |- context [port_loop ?a ?b ?c ?d ?e ?f ?g] =>
    pose proof (port_loop_ok a b c d e f g Hr Hf He) as HP; destruct (port_loop a b c d e f g) as [br evs] end.
  cbn [snd] in HP. split; [exact HP|constructor].
Qed.

(* the statement with event_ok on every list: the pending notes must be channel events for it to hold *)
Lemma check_tie_notes_events_ok tb t : track_inv t -> Forall eok (tr_events (check_tie_notes tb t)).
Proof. intros H. apply (check_tie_notes_inv tb t H). Qed.

(* ---- list / song bookkeeping ---- *)
Lemma Forall_upd_nth {A} (P : A -> Prop) (f : A -> A) l : forall n,
  (forall x, P x -> P (f x)) -> Forall P l -> Forall P (upd_nth n f l).
Proof.
  induction l as [|x r IH]; intros [|n] Hf H; cbn [upd_nth]; try exact H;
  inversion H as [|a b Hx Hr]; subst; constructor; auto.
Qed.

Lemma inv_upd_cur s f : (forall t, track_inv t -> track_inv (f t)) -> events_inv s -> events_inv (upd_cur s f).
Proof. intros Hf [H1 H2]. split; [|exact H2]. cbn [upd_cur s_tracks s_set_tracks]. apply Forall_upd_nth; assumption. Qed.

Lemma inv_same s s' : s_tracks s' = s_tracks s -> s_harmony_events s' = s_harmony_events s ->
  events_inv s -> events_inv s'.
Proof. unfold events_inv. intros -> ->. exact (fun H => H). Qed.

Lemma inv_add_log s m : events_inv s -> events_inv (add_log s m).
Proof. unfold add_log. destruct (_ <=? _); exact (fun H => H). Qed.

Lemma track_inv_push t e : eok e -> track_inv t -> track_inv (tr_push_event t e).
Proof.
  intros He [H1 H2]. split; [|exact H2]. cbn [tr_push_event tr_set_events tr_events].
  apply Forall_app. split; [exact H1|]. constructor; [exact He|constructor].
Qed.
Lemma track_inv_push_tie t e : simple e -> track_inv t -> track_inv (push_tie_note t e).
Proof.
  intros He [H1 H2]. split; [exact H1|]. cbn [push_tie_note tr_set_tie tr_tie_notes].
  apply Forall_app. split; [exact H2|]. constructor; [exact He|constructor].
Qed.

Lemma inv_settle s : events_inv s -> events_inv (settle_octave_once s).
Proof.
  intros H. unfold settle_octave_once. destruct (_ =? 0); [exact H|].
  apply (inv_upd_cur s (fun t => tr_set_octave t (tr_octave t - s_octave_once s))); [|exact H].
  intros t Ht. exact Ht.
Qed.

Lemma add_tracks_inv n : forall tb l, Forall track_inv l -> Forall track_inv (add_tracks n tb l).
Proof.
  induction n as [|n IH]; intros tb l H; cbn [add_tracks]; [exact H|].
  apply IH. apply Forall_app. split; [exact H|]. constructor; [apply track_new_inv|constructor].
Qed.

Lemma inv_change_cur_track s no : events_inv s -> events_inv (change_cur_track s no).
Proof.
  intros H. apply inv_settle in H. destruct H as [H1 H2]. unfold change_cur_track.
  split; [|exact H2]. cbn [s_tracks s_set_cur s_set_tracks]. apply add_tracks_inv, H1.
Qed.

Lemma inv_track_sync s : events_inv s -> events_inv (track_sync s).
Proof.
  intros [H1 H2]. split; [|exact H2]. cbn [track_sync s_tracks s_set_tracks].
  apply Forall_forall. intros t Hin. apply in_map_iff in Hin. destruct Hin as (t0 & <- & Hin).
  rewrite Forall_forall in H1. exact (H1 t0 Hin).
Qed.

(* ---- the arms of step_song that create events ---- *)
Lemma emit_note_inv s ev nl lettered slur s' :
  events_inv s -> simple ev -> emit_note s ev nl lettered slur = Ok s' -> events_inv s'.
Proof.
  intros H Hev. unfold emit_note.
  destruct lettered.
  - match goal with |- context [s_octave_once ?x =? 0] => set (s1 := x) end.
    assert (H1 : events_inv s1).
    { subst s1. apply inv_upd_cur; [intros t Ht; exact Ht|exact H]. }
    match goal with |- context [s_harmony_flag ?x] => set (s2 := x) end.
    assert (H2 : events_inv s2).
    { subst s2. destruct (_ =? 0); [exact H1|].
      apply (inv_upd_cur s1 (fun t => tr_set_octave t (tr_octave t - s_octave_once s1))); [|exact H1].
      intros t Ht; exact Ht. }
    clearbody s2. clear H1. clearbody s1.
    destruct (s_harmony_flag s2).
    + intros E; injection E as <-. split.
      * apply (inv_upd_cur s2 (fun t => tr_set_timepos t (s_harmony_time s2))); [intros t Ht; exact Ht|exact H2].
      * cbn. apply Forall_app. split; [apply H2|]. constructor; [exact Hev|constructor].
    + destruct (slur >=? 1).
      * intros E; injection E as <-. apply inv_upd_cur; [|exact H2].
        intros t Ht. apply track_inv_push_tie; assumption.
      * destruct (negb _).
        -- intros E; injection E as <-. apply inv_upd_cur; [|exact H2].
           intros t Ht. apply check_tie_notes_inv, track_inv_push_tie; assumption.
        -- intros E; injection E as <-. apply inv_upd_cur; [|exact H2].
           intros t Ht. apply track_inv_push; [apply simple_eok, Hev|exact Ht].
  - intros E; injection E as <-. apply inv_upd_cur; [|exact H].
    intros t Ht. apply (track_inv_push t ev (simple_eok _ Hev) Ht).
Qed.

Lemma exec_voice_inv s args : events_inv s -> events_inv (exec_voice s args).
Proof.
  intros H. unfold exec_voice.
  destruct args as [|a [|b l]]; apply inv_upd_cur; try exact H; intros t Ht;
    repeat (apply track_inv_push; [apply simple_eok; exact I|]); exact Ht.
Qed.

Lemma set_harmony_note_simple e a b c d : simple e -> simple (set_harmony_note e a b c d).
Proof. exact (fun H => H). Qed.

Lemma exec_harmony_end_inv s len qlen vel : events_inv s -> events_inv (exec_harmony_end s len qlen vel).
Proof.
  intros H. unfold exec_harmony_end. destruct (s_harmony_flag s); [|exact H].
  split; [|constructor].
  match goal with |- Forall track_inv (s_tracks (s_set_harmony (upd_cur s ?f) _ _ _)) =>
    change (Forall track_inv (s_tracks (upd_cur s f))); apply (inv_upd_cur s f) end; [|exact H].
  intros t [A B]. split; [|exact B]. cbn [tr_events tr_set_timepos tr_set_events].
  apply Forall_app. split; [exact A|]. apply Forall_forall. intros e Hin.
  apply in_map_iff in Hin. destruct Hin as (e0 & <- & Hin). apply simple_eok, set_harmony_note_simple.
  destruct H as [_ H2]. rewrite Forall_forall in H2. apply H2. apply in_rev. exact Hin.
Qed.

Lemma inv_runtime_error s m : events_inv s -> events_inv (runtime_error s m).
Proof. apply inv_add_log. Qed.

Lemma tempo_change_inv s v : events_inv s -> events_inv (tempo_change s v).
Proof.
  intros H. unfold tempo_change.
  match goal with |- events_inv (upd_cur ?x ?f) => apply (inv_upd_cur x f) end; [|exact H].
  intros t Ht. apply track_inv_push; [apply eok_tempo|exact Ht].
Qed.

Lemma exec_time_signature_inv s args : events_inv s -> events_inv (exec_time_signature s args).
Proof.
  intros H. unfold exec_time_signature.
  destruct args as [|a [|b l]]; try (apply inv_runtime_error, H).
  match goal with |- events_inv (upd_cur ?x ?f) => apply (inv_upd_cur x f) end.
  - intros t Ht. apply track_inv_push; [apply eok_timesig|exact Ht].
  - match goal with |- context [if ?c then s else _] => destruct c end; [exact H|apply inv_runtime_error, H].
Qed.

Lemma exec_get_time_inv s args cmd : events_inv s -> events_inv (snd (exec_get_time s args cmd)).
Proof.
  intros H. unfold exec_get_time. destruct args as [|a [|b [|c l]]]; cbn [snd]; try exact H; apply inv_runtime_error, H.
Qed.

(* ------------------------------------------------------------------------------------------------ *)
(* 2. from the arms to exec_f: an invariant of step_song (relative to exec_children) is one of exec_f *)

Section ExecInv.
  Variable P : song -> Prop.
  Definition ec_keeps (ec : list tok -> res song -> res song) : Prop :=
    forall X s s2, P s -> ec X (Ok s) = Ok s2 -> P s2.
  Definition res_inv (r : res song) : Prop := match r with Ok s => P s | _ => True end.
  Hypothesis step_keeps : forall ec, ec_keeps ec -> forall t s s', P s -> step_song ec t s = Ok s' -> P s'.

  Lemma step_tok_keeps ec : ec_keeps ec -> forall t r, res_inv r -> res_inv (step_tok ec t r).
  Proof.
    intros Hec t [s| | |] H; cbn [step_tok bind res_inv]; try exact I.
    destruct (step_song ec t s) as [s'| | |] eqn:E; try exact I. cbn [res_inv] in *.
    exact (step_keeps ec Hec t s s' H E).
  Qed.

  Lemma exec_f_keeps steps : forall d, ec_keeps (exec_f d steps).
  Proof.
    induction d as [|d IH]; intros X s s2 H; [discriminate|]. cbn [exec_f].
    destruct (run _ _ _ _ _ _ _ _) as [r|] eqn:E; [|discriminate]. intros ->.
    apply (run_invariant (step_tok (exec_f d steps)) halted count_of res_inv
             (step_tok_keeps _ IH) _ _ _ _ (H : res_inv (Ok s)) E).
  Qed.
End ExecInv.

(* the macro arm, taken apart once: the variable's text is lexed with the song's lexer fields and executed *)
Lemma step_value_parts ec name args lineno s s' :
  step_song ec (TValue name args lineno) s = Ok s' ->
  exists s1 text toks ls',
    (s1 = s \/ exists m, s1 = add_log s m) /\
    lex (ls_of_song s1) text lineno = Ok (toks, ls') /\
    ec toks (Ok (song_with_ls s1 ls')) = Ok s'.
Proof.
  cbn [step_song]. intros E.
  match type of E with bind ?x _ = _ => destruct x as [[body s1]| | |] eqn:T end; cbn [bind] in E; try discriminate.
  assert (Hs1 : s1 = s \/ exists m, s1 = add_log s m).
  { destruct (vars_get name (s_vars s)) as [[b l|v|]|]; try discriminate.
    - injection T as _ <-. left; reflexivity.
    - destruct args; injection T as _ <-; [left; reflexivity|right; eexists; reflexivity]. }
  match type of E with bind (lex ?a ?b ?c) _ = _ => destruct (lex a b c) as [[toks ls']| | |] eqn:L end;
    cbn [bind] in E; try discriminate.
  eexists s1, _, toks, ls'. split; [exact Hs1|]. split; [exact L|exact E].
Qed.

Lemma step_song_events_inv ec : ec_keeps events_inv ec ->
  forall t s s', events_inv s -> step_song ec t s = Ok s' -> events_inv s'.
Proof.
  intros Hec t s s' H. destruct t; cbn [step_song].
  Time all: try (intros E; injection E as <-;
       first [ exact H
             | apply inv_upd_cur; [intros t0 Ht0; exact Ht0|exact H] ]).
  all: match goal with |- ?G => idtac "GOAL" G end.
  - (* TNote *) unfold exec_note. apply emit_note_inv; [exact H|apply simple_note].
  - (* TNoteN *) unfold exec_note_n. apply emit_note_inv; [exact H|apply simple_note].
  - (* TOctaveOnce *)
    apply (inv_upd_cur s (fun t => tr_set_octave t (value_range 0 (tr_octave t + v) 10))); [intros t0 Ht0; exact Ht0|exact H].
  - (* TVelocity *) destruct (ino >? 0); [discriminate|]. intros E; injection E as <-.
    apply inv_upd_cur; [intros t0 Ht0; exact Ht0|exact H].
  - (* THarmonyEnd *) apply exec_harmony_end_inv, H.
  - (* TDiv *)
    match goal with |- context [ec ?X (Ok ?x)] => destruct (ec X (Ok x)) as [s2| | |] eqn:E2 end;
      cbn [bind]; try discriminate. intros E; injection E as <-.
    apply Hec in E2; [|apply inv_upd_cur; [intros t0 Ht0; exact Ht0|exact H]].
    apply inv_upd_cur; [intros t0 Ht0; exact Ht0|exact E2].
  - (* TSub *)
    destruct (ec children (Ok s)) as [s2| | |] eqn:E2; cbn [bind]; try discriminate. intros E; injection E as <-.
    apply Hec in E2; [|exact H]. apply inv_upd_cur; [intros t0 Ht0; exact Ht0|exact E2].
  - (* TTrack *) destruct (_ || _); [discriminate|]. intros E; injection E as <-. apply inv_change_cur_track, H.
  - (* TVoice *) apply exec_voice_inv, H.
  - (* TTrackSync *) apply inv_track_sync, H.
  - (* TTime *)
    pose proof (exec_get_time_inv s args (zs "TIME") H) as HG.
    destruct (exec_get_time s args (zs "TIME")) as [v s1]. cbn [snd] in HG.
    intros E; injection E as <-. apply inv_upd_cur; [intros t0 Ht0; exact Ht0|exact HG].
  - (* TPlayFrom *)
    pose proof (exec_get_time_inv s args (zs "PlayFrom") H) as HG.
    destruct (exec_get_time s args (zs "PlayFrom")) as [v s1]. cbn [snd] in HG.
    intros E; injection E as <-. exact HG.
  - (* TTimeSignature *) apply exec_time_signature_inv, H.
  - (* TTempo *) apply tempo_change_inv, H.
  - (* TTieMode *) apply inv_upd_cur; [intros t0 Ht0; exact Ht0|exact H].
  - (* TValue *)
    intros E. apply step_value_parts in E. destruct E as (s1 & text & toks & ls' & Hs1 & _ & E).
    apply Hec in E; [exact E|]. apply song_with_ls_inv.
    destruct Hs1 as [->|[m ->]]; [exact H|apply inv_add_log, H].
Qed.

Theorem exec_f_events_inv steps d toks s s' :
  events_inv s -> exec_f d steps toks (Ok s) = Ok s' -> events_inv s'.
Proof. exact (exec_f_keeps events_inv step_song_events_inv steps d toks s s'). Qed.
