(* C11 - corollaries of the main theorem exec_vs_sem (proofs/ScriptP.v), each stated on the big-step semantics
   (spec/ScriptSem.v) for every program it quantifies over and then carried over to the exec() machine of the model
   (model/Script.v) through exec_vs_sem:

     1. loops as their unrolled text: WHILE = body k times, FOR = init; k x (body; increment)   (any k within the limit)
     2. BREAK / CONTINUE end / skip the innermost loop only (the enclosing block goes on with its next statement, the
        enclosing loop with its next pass); a BREAK / CONTINUE written in the increment slot of a FOR belongs to that FOR
     3. the iteration limit: a loop whose test never fails runs N + 1 passes, logs one error, continues behind the loop
     4. declared defaults: a call with the argument list vs is the call with the list `fill params vs`
        (missing / valueless arguments replaced by the defaults, extra arguments dropped)
     5. RETURN(e) anywhere in the body - under any nesting of IF / WHILE / FOR - ends the call at once with the value of e
     6. the caller's frames after a call are the caller's frames before it *)
From Coq Require Import String.
From Sakura.Model Require Import Base Cursor Length Event Song Token LoopMachine LexCore RunCore Compile Script.
From Sakura.Model Require Expr.
From Sakura.Spec Require Import ScriptSem.
From Sakura.Proofs Require Import ScriptP.
Open Scope Z_scope.
Open Scope list_scope.

(* ------------------------------------------------------------------------------------------------ *)
(* A. facts about the meaning (generic in the language)                                               *)

Section CorSem.
  Variables Name Atom Op Val World Bnd FId Err : Type.
  Variable L : lang Name Atom Op Val World Bnd FId Err.
  Variable funs : FId -> option (fundef Name Atom Op Val FId).

  Notation gcfg := (cfg Name World Bnd).
  Notation gstmt := (stmt Name Atom Op FId).
  Notation gexpr := (expr Name Op).
  Notation gres := (result Err).
  Notation SEM := (sem L funs).
  Notation PASSES := (passes Name Atom Op Val World Bnd FId Err L funs).
  Notation FPASSES := (fpasses Name Atom Op Val World Bnd FId Err L funs).
  Notation REPS := (reps Name Atom Op FId).

  (* a block that has a meaning at budget n has the same meaning as a statement list one level up *)
  Lemma sem_up n b c r : SEM n b c = Fin r -> exec_seq L funs (SEM n) b c = Fin r.
  Proof.
    intros H. change (exec_seq L funs (SEM n) b c) with (SEM (S n) b c).
    rewrite (sem_mono _ _ _ _ _ _ _ _ L funs n b c) by (rewrite H; discriminate). exact H.
  Qed.

  (* ---- 1. FOR as its unrolled text ---- *)
  (* k passes in which the test holds and changes nothing, the body and the increment run to their ends *)
  Inductive fstraight (n : nat) (cnd : option gexpr) (inc body : list gstmt) : nat -> gcfg -> gcfg -> Prop :=
  | fstraight_O : forall c, fstraight n cnd inc body 0 c c
  | fstraight_S : forall k c v c2 c3 c4,
      eval_opt L funs (SEM n) (l_vzero L) cnd c = Fin (v, c) -> l_truth L v = true ->
      SEM n body c = Fin (Normal, c2) -> SEM n inc c2 = Fin (Normal, c3) ->
      fstraight n cnd inc body k c3 c4 -> fstraight n cnd inc body (S k) c c4.

  Lemma fstraight_fpasses n cnd inc body k c ck :
    fstraight n cnd inc body k c ck -> FPASSES (SEM n) cnd inc body k c ck.
  Proof.
    induction 1 as [c|k c v c2 c3 c4 Ev Hv Hb Hi Hs IH]; [constructor|].
    eapply fpasses_S; [exact Ev | exact Hv | exact Hb | left; reflexivity | exact Hi | exact IH].
  Qed.

  Lemma fstraight_text n cnd inc body k c ck :
    fstraight n cnd inc body k c ck -> exec_seq L funs (SEM n) (REPS k (body ++ inc)) c = Fin (Normal, ck).
  Proof.
    induction 1 as [c|k c v c2 c3 c4 Ev Hv Hb Hi Hs IH]; [reflexivity|].
    cbn [reps]. rewrite <- app_assoc. rewrite exec_seq_app, (sem_up n body c _ Hb). cbn [rbind fst snd].
    rewrite exec_seq_app, (sem_up n inc c2 _ Hi). cbn [rbind fst snd]. exact IH.
  Qed.

  (* FOR(init; c; inc){body} whose test holds exactly k times (k within the limit) means  init; (body; inc) written k times *)
  Theorem for_unroll_text n init cnd inc body line k c c0 ck v :
    SEM n init c = Fin (Normal, c0) ->
    fstraight n cnd inc body k c0 ck -> (k <= l_limit L)%nat ->
    eval_opt L funs (SEM n) (l_vzero L) cnd ck = Fin (v, ck) -> l_truth L v = false ->
    exec_stmt L funs (SEM n) (For init cnd inc body line) c = SEM (S n) (init ++ REPS k (body ++ inc)) c.
  Proof.
    intros Hi Hs Hk Ev Hv.
    change (SEM (S n) (init ++ REPS k (body ++ inc)) c) with (exec_seq L funs (SEM n) (init ++ REPS k (body ++ inc)) c).
    rewrite exec_seq_app, (sem_up n init c _ Hi). cbn [rbind fst snd]. rewrite (fstraight_text _ _ _ _ _ _ _ Hs).
    cbn [exec_stmt]. rewrite Hi. cbn [rbind fst snd].
    exact (for_unroll _ _ _ _ _ _ _ _ L funs (SEM n) cnd inc body line k (l_limit L) c0 ck v ck (fstraight_fpasses _ _ _ _ _ _ _ Hs) Hk Ev Hv).
  Qed.

  (* ---- 2. BREAK / CONTINUE and the innermost loop ---- *)
  Section Innermost.
    Variable blk : list gstmt -> gcfg -> gres (signal * gcfg).
    Notation EVO := (eval_opt L funs blk).
    Notation XS := (exec_stmt L funs blk).
    Notation XQ := (exec_seq L funs blk).

    (* a statement that ends normally hands over to the next statement of its block *)
    Lemma seq_through pre s post c c1 c2 :
      XQ pre c = Fin (Normal, c1) -> XS s c1 = Fin (Normal, c2) -> XQ (pre ++ s :: post) c = XQ post c2.
    Proof. intros H1 H2. rewrite exec_seq_app, H1. cbn [rbind fst snd exec_seq]. rewrite H2. reflexivity. Qed.

    (* one pass of a loop that ends normally or with CONTINUE: the loop goes on with its next test (FOR: after the increment) *)
    Lemma while_next_pass cnd body line left c v c1 sg c2 :
      EVO (l_vzero L) cnd c = Fin (v, c1) -> l_truth L v = true -> blk body c1 = Fin (sg, c2) -> (sg = Normal \/ sg = Cont) ->
      while_sem L funs blk (S left) cnd body line c = while_sem L funs blk left cnd body line c2.
    Proof.
      intros Ev Hv Hb Hs. cbn [while_sem]. rewrite Ev. cbn [rbind fst snd]. rewrite Hv. cbn [negb]. rewrite Hb. cbn [rbind fst snd].
      destruct Hs as [-> | ->]; reflexivity.
    Qed.
    Lemma for_next_pass cnd inc body line left c v c1 sg c2 c3 :
      EVO (l_vzero L) cnd c = Fin (v, c1) -> l_truth L v = true -> blk body c1 = Fin (sg, c2) -> (sg = Normal \/ sg = Cont) ->
      blk inc c2 = Fin (Normal, c3) ->
      for_sem L funs blk (S left) cnd inc body line c = for_sem L funs blk left cnd inc body line c3.
    Proof.
      intros Ev Hv Hb Hs Hi. cbn [for_sem]. rewrite Ev. cbn [rbind fst snd]. rewrite Hv. cbn [negb]. rewrite Hb. cbn [rbind fst snd].
      destruct Hs as [-> | ->]; rewrite Hi; reflexivity.
    Qed.

    (* BREAK in pass k+1 of a FOR ends the FOR (the increment of that pass is not run) *)
    Theorem for_break cnd inc body line : forall k left c ck v c1 c2,
      FPASSES blk cnd inc body k c ck -> (k < left)%nat ->
      EVO (l_vzero L) cnd ck = Fin (v, c1) -> l_truth L v = true -> blk body c1 = Fin (Brk, c2) ->
      for_sem L funs blk left cnd inc body line c = Fin (Normal, c2).
    Proof.
      induction k as [|k IH]; intros left c ck v c1 c2 Hp Hk Ev Hv Hb; inversion Hp; subst.
      - destruct left as [|left]; [lia|]. cbn [for_sem]. rewrite Ev. cbn [rbind fst snd]. rewrite Hv. cbn [negb].
        rewrite Hb. reflexivity.
      - destruct left as [|left]; [lia|].
        erewrite for_next_pass by eassumption. eapply IH; [eassumption | lia | eassumption | assumption | assumption].
    Qed.
    Theorem for_return cnd inc body line : forall k left c ck v c1 c2,
      FPASSES blk cnd inc body k c ck -> (k < left)%nat ->
      EVO (l_vzero L) cnd ck = Fin (v, c1) -> l_truth L v = true -> blk body c1 = Fin (Ret, c2) ->
      for_sem L funs blk left cnd inc body line c = Fin (Ret, c2).
    Proof.
      induction k as [|k IH]; intros left c ck v c1 c2 Hp Hk Ev Hv Hb; inversion Hp; subst.
      - destruct left as [|left]; [lia|]. cbn [for_sem]. rewrite Ev. cbn [rbind fst snd]. rewrite Hv. cbn [negb].
        rewrite Hb. reflexivity.
      - destruct left as [|left]; [lia|].
        erewrite for_next_pass by eassumption. eapply IH; [eassumption | lia | eassumption | assumption | assumption].
    Qed.

    (* BREAK ends the innermost loop ONLY: a WHILE that sits in a block (the body of an enclosing loop, a branch, a function
       body) between `pre` and `post` and whose pass j+1 raises BREAK - from any depth of IFs inside its body - ends there,
       and the block goes on with `post`, in the configuration the BREAK was raised in *)
    Theorem break_innermost_while pre cnd body line post j c c1 cj v c2 c3 :
      XQ pre c = Fin (Normal, c1) ->
      PASSES blk cnd body j c1 cj -> (j < l_limit L)%nat ->
      EVO (l_vzero L) cnd cj = Fin (v, c2) -> l_truth L v = true -> blk body c2 = Fin (Brk, c3) ->
      XQ (pre ++ While cnd body line :: post) c = XQ post c3.
    Proof.
      intros Hpre Hp Hj Ev Hv Hb. apply (seq_through pre _ post c c1 c3 Hpre). cbn [exec_stmt].
      exact (while_break _ _ _ _ _ _ _ _ L funs blk cnd body line j (l_limit L) c1 cj v c2 c3 Hp Hj Ev Hv Hb).
    Qed.
    Theorem break_innermost_for pre init cnd inc body line post j c c1 c1' cj v c2 c3 :
      XQ pre c = Fin (Normal, c1) -> blk init c1 = Fin (Normal, c1') ->
      FPASSES blk cnd inc body j c1' cj -> (j < l_limit L)%nat ->
      EVO (l_vzero L) cnd cj = Fin (v, c2) -> l_truth L v = true -> blk body c2 = Fin (Brk, c3) ->
      XQ (pre ++ For init cnd inc body line :: post) c = XQ post c3.
    Proof.
      intros Hpre Hi Hp Hj Ev Hv Hb. apply (seq_through pre _ post c c1 c3 Hpre). cbn [exec_stmt]. rewrite Hi. cbn [rbind fst snd].
      exact (for_break cnd inc body line j (l_limit L) c1' cj v c2 c3 Hp Hj Ev Hv Hb).
    Qed.

    (* CONTINUE skips the rest of the innermost body only: the pass that raised it - from any depth of IFs - counts as a pass,
       the loop goes on with its next test; in a FOR the increment still runs first *)
    Theorem continue_innermost_while cnd body line left c v c1 c2 :
      EVO (l_vzero L) cnd c = Fin (v, c1) -> l_truth L v = true -> blk body c1 = Fin (Cont, c2) ->
      while_sem L funs blk (S left) cnd body line c = while_sem L funs blk left cnd body line c2.
    Proof. intros Ev Hv Hb. eapply while_next_pass; [exact Ev | exact Hv | exact Hb | right; reflexivity]. Qed.
    Theorem continue_innermost_for cnd inc body line left c v c1 c2 c3 :
      EVO (l_vzero L) cnd c = Fin (v, c1) -> l_truth L v = true -> blk body c1 = Fin (Cont, c2) -> blk inc c2 = Fin (Normal, c3) ->
      for_sem L funs blk (S left) cnd inc body line c = for_sem L funs blk left cnd inc body line c3.
    Proof. intros Ev Hv Hb Hi. eapply for_next_pass; [exact Ev | exact Hv | exact Hb | right; reflexivity | exact Hi]. Qed.

    (* a BREAK / CONTINUE raised by the INCREMENT part belongs to the FOR as well: BREAK in the increment of pass k+1 ends the
       FOR, nothing stays raised; CONTINUE there only ends the increment, the loop goes on with its next test *)
    Theorem for_break_in_increment cnd inc body line : forall k left c ck v c1 sg c2 c3,
      FPASSES blk cnd inc body k c ck -> (k < left)%nat ->
      EVO (l_vzero L) cnd ck = Fin (v, c1) -> l_truth L v = true -> blk body c1 = Fin (sg, c2) -> (sg = Normal \/ sg = Cont) ->
      blk inc c2 = Fin (Brk, c3) ->
      for_sem L funs blk left cnd inc body line c = Fin (Normal, c3).
    Proof.
      induction k as [|k IH]; intros left c ck v c1 sg c2 c3 Hp Hk Ev Hv Hb Hs Hi; inversion Hp; subst.
      - destruct left as [|left]; [lia|]. cbn [for_sem]. rewrite Ev. cbn [rbind fst snd]. rewrite Hv. cbn [negb].
        rewrite Hb. cbn [rbind fst snd]. destruct Hs as [-> | ->]; rewrite Hi; reflexivity.
      - destruct left as [|left]; [lia|].
        erewrite for_next_pass by eassumption. eapply IH; [eassumption | lia | eassumption | assumption | eassumption | assumption | assumption].
    Qed.
    Theorem for_continue_in_increment cnd inc body line left c v c1 sg c2 c3 :
      EVO (l_vzero L) cnd c = Fin (v, c1) -> l_truth L v = true -> blk body c1 = Fin (sg, c2) -> (sg = Normal \/ sg = Cont) ->
      blk inc c2 = Fin (Cont, c3) ->
      for_sem L funs blk (S left) cnd inc body line c = for_sem L funs blk left cnd inc body line c3.
    Proof.
      intros Ev Hv Hb Hs Hi. cbn [for_sem]. rewrite Ev. cbn [rbind fst snd]. rewrite Hv. cbn [negb]. rewrite Hb. cbn [rbind fst snd].
      destruct Hs as [-> | ->]; rewrite Hi; reflexivity.
    Qed.
    (* the block around the FOR goes on with `post` in the configuration the increment raised BREAK in *)
    Theorem break_in_increment_innermost pre init cnd inc body line post j c c1 c1' cj v c2 sg c3 c4 :
      XQ pre c = Fin (Normal, c1) -> blk init c1 = Fin (Normal, c1') ->
      FPASSES blk cnd inc body j c1' cj -> (j < l_limit L)%nat ->
      EVO (l_vzero L) cnd cj = Fin (v, c2) -> l_truth L v = true -> blk body c2 = Fin (sg, c3) -> (sg = Normal \/ sg = Cont) ->
      blk inc c3 = Fin (Brk, c4) ->
      XQ (pre ++ For init cnd inc body line :: post) c = XQ post c4.
    Proof.
      intros Hpre Hi Hp Hj Ev Hv Hb Hs Hinc. apply (seq_through pre _ post c c1 c4 Hpre). cbn [exec_stmt]. rewrite Hi. cbn [rbind fst snd].
      exact (for_break_in_increment cnd inc body line j (l_limit L) c1' cj v c2 sg c3 c4 Hp Hj Ev Hv Hb Hs Hinc).
    Qed.

    (* ... and neither signal leaves the loop statement.  For WHILE this is while_signals (ScriptP).  For FOR it holds for what
       the BODY raises and for what the INCREMENT part raises *)
    Theorem for_signals cnd inc body line :
      forall left c sg c', for_sem L funs blk left cnd inc body line c = Fin (sg, c') -> sg = Normal \/ sg = Ret.
    Proof.
      induction left as [|left IH]; intros c sg c' H; cbn [for_sem] in H.
      - destruct (EVO (l_vzero L) cnd c) as [[v c1]|e| |]; cbn [rbind fst snd] in H; try discriminate.
        destruct (negb (l_truth L v)). { injection H as <- _. left; reflexivity. }
        destruct (blk body c1) as [[s2 c2]|e| |]; cbn [rbind fst snd cut_off] in H; try discriminate.
        injection H as <- _. destruct s2; [left|left|left|right]; reflexivity.
      - destruct (EVO (l_vzero L) cnd c) as [[v c1]|e| |]; cbn [rbind fst snd] in H; try discriminate.
        destruct (negb (l_truth L v)). { injection H as <- _. left; reflexivity. }
        destruct (blk body c1) as [[s2 c2]|e| |]; cbn [rbind fst snd] in H; try discriminate.
        destruct s2; try (injection H as <- _; auto; fail);
          (destruct (blk inc c2) as [[s3 c3]|e| |] eqn:Ei; cbn [rbind fst snd] in H; try discriminate;
           destruct s3; try (injection H as <- _; auto; fail); eapply IH; exact H).
    Qed.
    (* (the initialiser runs BEFORE the loop: what it raises is not raised inside the FOR) *)
    Theorem for_stmt_signals init cnd inc body line :
      (forall c sg c', blk init c = Fin (sg, c') -> sg = Normal) ->
      forall c sg c', XS (For init cnd inc body line) c = Fin (sg, c') -> sg = Normal \/ sg = Ret.
    Proof.
      intros Hinit c sg c' H. cbn [exec_stmt] in H.
      destruct (blk init c) as [[s1 c1]|e| |] eqn:Ei; cbn [rbind fst snd] in H; try discriminate.
      rewrite (Hinit _ _ _ Ei) in H. exact (for_signals cnd inc body line _ _ _ _ H).
    Qed.
  End Innermost.

  (* the two levels together: the inner WHILE sits in the body of an outer WHILE; its BREAK ends it, the outer body goes on with
     `post`, and when that ends normally (or with its own CONTINUE) the OUTER loop goes on with its next test *)
  Theorem break_innermost_nested n cndO pre cndI bodyI lineI post lineO left j c vO c0 c1 cj v c2 c3 sg c4 :
    eval_opt L funs (SEM (S n)) (l_vzero L) cndO c = Fin (vO, c0) -> l_truth L vO = true ->
    exec_seq L funs (SEM n) pre c0 = Fin (Normal, c1) ->
    PASSES (SEM n) cndI bodyI j c1 cj -> (j < l_limit L)%nat ->
    eval_opt L funs (SEM n) (l_vzero L) cndI cj = Fin (v, c2) -> l_truth L v = true -> SEM n bodyI c2 = Fin (Brk, c3) ->
    exec_seq L funs (SEM n) post c3 = Fin (sg, c4) -> (sg = Normal \/ sg = Cont) ->
    while_sem L funs (SEM (S n)) (S left) cndO (pre ++ While cndI bodyI lineI :: post) lineO c
    = while_sem L funs (SEM (S n)) left cndO (pre ++ While cndI bodyI lineI :: post) lineO c4.
  Proof.
    intros EvO HvO Hpre Hp Hj Ev Hv Hb Hpost Hs.
    eapply (while_next_pass (SEM (S n))); [exact EvO | exact HvO | | exact Hs].
    change (SEM (S n) (pre ++ While cndI bodyI lineI :: post) c0) with (exec_seq L funs (SEM n) (pre ++ While cndI bodyI lineI :: post) c0).
    rewrite (break_innermost_while (SEM n) pre cndI bodyI lineI post j c0 c1 cj v c2 c3 Hpre Hp Hj Ev Hv Hb). exact Hpost.
  Qed.

  (* whatever BREAKs and CONTINUEs the passes of an inner WHILE raise, the block around it sees the loop end normally and goes on
     with the statement behind it - or sees a RETURN *)
  Theorem loop_signals_stay_inside blk pre cnd body line post c c1 sg c2 :
    exec_seq L funs blk pre c = Fin (Normal, c1) -> exec_stmt L funs blk (While cnd body line) c1 = Fin (sg, c2) ->
    (sg = Normal /\ exec_seq L funs blk (pre ++ While cnd body line :: post) c = exec_seq L funs blk post c2)
    \/ (sg = Ret /\ exec_seq L funs blk (pre ++ While cnd body line :: post) c = Fin (Ret, c2)).
  Proof.
    intros Hpre Hw. destruct (while_signals _ _ _ _ _ _ _ _ L funs blk cnd body line (l_limit L) c1 sg c2 Hw) as [-> | ->]; [left|right];
      (split; [reflexivity|]); rewrite exec_seq_app, Hpre; cbn [rbind fst snd exec_seq]; rewrite Hw; reflexivity.
  Qed.

  (* ---- 3. the iteration limit ---- *)
  Section Limit.
    Variable blk : list gstmt -> gcfg -> gres (signal * gcfg).
    Notation EVO := (eval_opt L funs blk).

    (* a WHILE whose test never fails (Inv: a property of the configurations at the test that every pass re-establishes):
       for ANY allowance `left` it runs exactly left + 1 passes, then is cut off: one note (the logged error) is added to the
       world of the configuration after the last pass, and the loop statement ends NORMALLY - nothing stays raised *)
    Theorem while_never_ends (Inv : gcfg -> Prop) cnd body line :
      (forall c, Inv c -> exists v c1 sg c2,
          EVO (l_vzero L) cnd c = Fin (v, c1) /\ l_truth L v = true /\ blk body c1 = Fin (sg, c2) /\ (sg = Normal \/ sg = Cont) /\ Inv c2) ->
      forall left c, Inv c ->
      exists c', PASSES blk cnd body (S left) c c' /\ Inv c' /\
                 while_sem L funs blk left cnd body line c = Fin (Normal, set_world c' (l_limit_note L false line (world c'))).
    Proof.
      intros Hstep. induction left as [|left IH]; intros c Hc; destruct (Hstep c Hc) as (v & c1 & sg & c2 & Ev & Hv & Hb & Hs & Hc2).
      - exists c2. split; [|split; [exact Hc2|]].
        + eapply passes_S; [exact Ev | exact Hv | exact Hb | exact Hs | constructor].
        + cbn [while_sem]. rewrite Ev. cbn [rbind fst snd]. rewrite Hv. cbn [negb]. rewrite Hb. cbn [rbind fst snd cut_off].
          destruct Hs as [-> | ->]; reflexivity.
      - destruct (IH c2 Hc2) as (c' & Hp & Hc' & Hw). exists c'. split; [|split; [exact Hc'|]].
        + eapply passes_S; [exact Ev | exact Hv | exact Hb | exact Hs | exact Hp].
        + rewrite (while_next_pass blk cnd body line left c v c1 sg c2 Ev Hv Hb Hs). exact Hw.
    Qed.

    (* FOR: left full passes (test, body, increment), then the test and the body once more; the increment of the last pass is not run *)
    Theorem for_never_ends (Inv : gcfg -> Prop) cnd inc body line :
      (forall c, Inv c -> exists v c1 sg c2 c3,
          EVO (l_vzero L) cnd c = Fin (v, c1) /\ l_truth L v = true /\ blk body c1 = Fin (sg, c2) /\ (sg = Normal \/ sg = Cont) /\
          blk inc c2 = Fin (Normal, c3) /\ Inv c3) ->
      forall left c, Inv c ->
      exists cl v c1 sg c2, FPASSES blk cnd inc body left c cl /\ Inv cl /\
                 EVO (l_vzero L) cnd cl = Fin (v, c1) /\ l_truth L v = true /\ blk body c1 = Fin (sg, c2) /\ (sg = Normal \/ sg = Cont) /\
                 for_sem L funs blk left cnd inc body line c = Fin (Normal, set_world c2 (l_limit_note L true line (world c2))).
    Proof.
      intros Hstep. induction left as [|left IH]; intros c Hc; destruct (Hstep c Hc) as (v & c1 & sg & c2 & c3 & Ev & Hv & Hb & Hs & Hi & Hc3).
      - exists c, v, c1, sg, c2. repeat split; try assumption; [constructor|].
        cbn [for_sem]. rewrite Ev. cbn [rbind fst snd]. rewrite Hv. cbn [negb]. rewrite Hb. cbn [rbind fst snd cut_off].
        destruct Hs as [-> | ->]; reflexivity.
      - destruct (IH c3 Hc3) as (cl & v' & c1' & sg' & c2' & Hp & Hcl & Ev' & Hv' & Hb' & Hs' & Hw).
        exists cl, v', c1', sg', c2'. repeat split; try assumption.
        + eapply fpasses_S; [exact Ev | exact Hv | exact Hb | exact Hs | exact Hi | exact Hp].
        + rewrite (for_next_pass blk cnd inc body line left c v c1 sg c2 c3 Ev Hv Hb Hs Hi). exact Hw.
    Qed.
  End Limit.

  (* ---- 4. declared defaults ---- *)
  (* what a parameter with the declared default d receives for the argument value v *)
  Definition resolve (d v : Val) : Val := if l_is_none L v then d else v.
  (* the argument list completed: one value per parameter - the argument, or the default where the argument is missing or has no value *)
  Fixpoint fill_from (ps : list (Name * Val)) (i : nat) (vs : list Val) : list Val :=
    match ps with
    | [] => []
    | (x, d) :: r => resolve d (nth i vs (l_vnone L)) :: fill_from r (S i) vs
    end.
  Definition fill (ps : list (Name * Val)) (vs : list Val) : list Val := fill_from ps 0 vs.

  Lemma resolve_idem d v : resolve d (resolve d v) = resolve d v.
  Proof. unfold resolve. destruct (l_is_none L v) eqn:E; [destruct (l_is_none L d); reflexivity | rewrite E; reflexivity]. Qed.

  Lemma bind_params_ext ps : forall i vs ws e,
    (forall j x d, nth_error ps j = Some (x, d) -> resolve d (nth (i + j) ws (l_vnone L)) = resolve d (nth (i + j) vs (l_vnone L))) ->
    ScriptSem.bind_params L ps i ws e = ScriptSem.bind_params L ps i vs e.
  Proof.
    induction ps as [|[x d] r IH]; intros i vs ws e H; [reflexivity|]. cbn [ScriptSem.bind_params].
    pose proof (H 0%nat x d eq_refl) as H0. rewrite Nat.add_0_r in H0. unfold resolve in H0. rewrite H0.
    apply IH. intros j y dy Hj. replace (S i + j)%nat with (i + S j)%nat by lia. exact (H (S j) y dy Hj).
  Qed.

  Lemma nth_fill_from ps : forall i j x d vs, nth_error ps j = Some (x, d) ->
    nth j (fill_from ps i vs) (l_vnone L) = resolve d (nth (i + j) vs (l_vnone L)).
  Proof.
    induction ps as [|[y dy] r IH]; intros i j x d vs Hj; [destruct j; discriminate|].
    destruct j as [|j]; cbn [nth_error] in Hj; cbn [fill_from nth].
    - injection Hj as _ <-. rewrite Nat.add_0_r. reflexivity.
    - rewrite (IH (S i) j x d vs Hj). replace (S i + j)%nat with (i + S j)%nat by lia. reflexivity.
  Qed.
  Lemma length_fill_from ps : forall i vs, length (fill_from ps i vs) = length ps.
  Proof. induction ps as [|[y dy] r IH]; intros i vs; [reflexivity|]. cbn [fill_from length]. rewrite IH. reflexivity. Qed.

  (* binding the parameters to the argument list vs IS binding them to the completed list: every parameter gets a value, the one the
     completed list shows; nothing else of vs matters (extra arguments are never looked at) *)
  Theorem bind_params_fill ps vs e : ScriptSem.bind_params L ps 0 (fill ps vs) e = ScriptSem.bind_params L ps 0 vs e.
  Proof.
    apply bind_params_ext. intros j x d Hj. cbn [Nat.add]. unfold fill. rewrite (nth_fill_from ps 0 j x d vs Hj). cbn [Nat.add].
    apply resolve_idem.
  Qed.
  Theorem call_body_fill blk fd vs c : call_body L blk fd (fill (fd_params fd) vs) c = call_body L blk fd vs c.
  Proof. unfold call_body. rewrite bind_params_fill. reflexivity. Qed.
  (* the entries of the completed list *)
  Theorem fill_given ps vs j x d : nth_error ps j = Some (x, d) -> l_is_none L (nth j vs (l_vnone L)) = false ->
    nth j (fill ps vs) (l_vnone L) = nth j vs (l_vnone L).
  Proof. intros Hj Hn. unfold fill. rewrite (nth_fill_from ps 0 j x d vs Hj). cbn [Nat.add]. unfold resolve. rewrite Hn. reflexivity. Qed.
  Theorem fill_missing ps vs j x d : l_is_none L (l_vnone L) = true ->
    nth_error ps j = Some (x, d) -> (length vs <= j)%nat -> nth j (fill ps vs) (l_vnone L) = d.
  Proof.
    intros Hnone Hj Hlen. unfold fill. rewrite (nth_fill_from ps 0 j x d vs Hj). cbn [Nat.add]. rewrite (nth_overflow vs _ Hlen).
    unfold resolve. rewrite Hnone. reflexivity.
  Qed.
  Theorem fill_valueless ps vs j x d : nth_error ps j = Some (x, d) -> l_is_none L (nth j vs (l_vnone L)) = true ->
    nth j (fill ps vs) (l_vnone L) = d.
  Proof. intros Hj Hn. unfold fill. rewrite (nth_fill_from ps 0 j x d vs Hj). cbn [Nat.add]. unfold resolve. rewrite Hn. reflexivity. Qed.
  (* arguments beyond the parameter list are ignored *)
  Theorem call_extra_args_ignored blk fd vs extra c :
    (length (fd_params fd) <= length vs)%nat -> call_body L blk fd (vs ++ extra) c = call_body L blk fd vs c.
  Proof.
    intros Hlen. unfold call_body. rewrite (bind_params_ext (fd_params fd) 0 vs (vs ++ extra)); [reflexivity|].
    intros j x d Hj. cbn [Nat.add]. rewrite app_nth1; [reflexivity|].
    assert (j < length (fd_params fd))%nat by (apply nth_error_Some; rewrite Hj; discriminate). lia.
  Qed.

  (* ---- 5. RETURN(e) from any depth ---- *)
  (* rets n b c v c': the run of block b from c reaches a RETURN(e) - in b itself, or inside a branch of an IF, a pass of a WHILE
     or of a FOR of b, to any depth - after e has been evaluated to v, leaving c'.  `post` (what is written behind the RETURN,
     behind the IF / the loop that contains it, at every level) is arbitrary: it plays no part. *)
  Inductive rets : nat -> list gstmt -> gcfg -> Val -> gcfg -> Prop :=
  | rets_here : forall n pre e post c c1 v c2,
      exec_seq L funs (SEM n) pre c = Fin (Normal, c1) -> eval L funs (SEM n) e c1 = Fin (v, c2) ->
      rets (S n) (pre ++ Return (Some e) :: post) c v c2
  | rets_if : forall n pre cnd th el post c c1 vc c2 v c3,
      exec_seq L funs (SEM n) pre c = Fin (Normal, c1) -> eval_opt L funs (SEM n) (l_vzero L) cnd c1 = Fin (vc, c2) ->
      rets n (if l_truth L vc then th else el) c2 v c3 ->
      rets (S n) (pre ++ If cnd th el :: post) c v c3
  | rets_while : forall n pre cnd body line post k c c1 ck vc c2 v c3,
      exec_seq L funs (SEM n) pre c = Fin (Normal, c1) -> PASSES (SEM n) cnd body k c1 ck -> (k < l_limit L)%nat ->
      eval_opt L funs (SEM n) (l_vzero L) cnd ck = Fin (vc, c2) -> l_truth L vc = true ->
      rets n body c2 v c3 ->
      rets (S n) (pre ++ While cnd body line :: post) c v c3
  | rets_for : forall n pre init cnd inc body line post k c c1 c1' ck vc c2 v c3,
      exec_seq L funs (SEM n) pre c = Fin (Normal, c1) -> SEM n init c1 = Fin (Normal, c1') ->
      FPASSES (SEM n) cnd inc body k c1' ck -> (k < l_limit L)%nat ->
      eval_opt L funs (SEM n) (l_vzero L) cnd ck = Fin (vc, c2) -> l_truth L vc = true ->
      rets n body c2 v c3 ->
      rets (S n) (pre ++ For init cnd inc body line :: post) c v c3.

  Lemma seq_raise blk pre s post c c1 sg c2 :
    exec_seq L funs blk pre c = Fin (Normal, c1) -> exec_stmt L funs blk s c1 = Fin (sg, c2) -> sg <> Normal ->
    exec_seq L funs blk (pre ++ s :: post) c = Fin (sg, c2).
  Proof.
    intros H1 H2 Hs. rewrite exec_seq_app, H1. cbn [rbind fst snd].
    exact (exec_seq_signal _ _ _ _ _ _ _ _ L funs blk s post c1 sg c2 H2 Hs).
  Qed.

  (* the block ends there, at once, with RETURN raised and Result bound to the value *)
  Theorem rets_sem : forall n b c v c', rets n b c v c' -> SEM n b c = Fin (Ret, bind_val L (l_result_name L) v c').
  Proof.
    induction 1 as [n pre e post c c1 v c2 Hpre Ev
                   |n pre cnd th el post c c1 vc c2 v c3 Hpre Ev Hr IH
                   |n pre cnd body line post k c c1 ck vc c2 v c3 Hpre Hp Hk Ev Hv Hr IH
                   |n pre init cnd inc body line post k c c1 c1' ck vc c2 v c3 Hpre Hi Hp Hk Ev Hv Hr IH];
      cbn [sem]; (eapply seq_raise; [exact Hpre | | discriminate]).
    - cbn [exec_stmt eval_opt]. rewrite Ev. reflexivity.
    - cbn [exec_stmt]. rewrite Ev. cbn [rbind fst snd]. exact IH.
    - cbn [exec_stmt].
      exact (while_return _ _ _ _ _ _ _ _ L funs (SEM n) cnd body line k (l_limit L) c1 ck vc c2 _ Hp Hk Ev Hv IH).
    - cbn [exec_stmt]. rewrite Hi. cbn [rbind fst snd].
      exact (for_return (SEM n) cnd inc body line k (l_limit L) c1' ck vc c2 _ Hp Hk Ev Hv IH).
  Qed.

  (* ... and the call yields that value: the function is left immediately, its frame dropped *)
  Theorem call_returns n fd vs c v c' :
    (forall x, l_name_eqb L x x = true) -> (forall w, l_view_of L (l_bnd_val L w) = BVal w) ->
    rets n (fd_body fd) (set_env c (ScriptSem.bind_params L (fd_params fd) 0 vs (env c))) v c' ->
    call_body L (SEM n) fd vs c = Fin (v, set_env c' (tl (env c'))).
  Proof.
    intros Hrefl Hview Hr. unfold call_body. rewrite (rets_sem _ _ _ _ _ Hr). cbn [rbind snd].
    unfold bind_val. cbn [env set_env]. destruct (env c') as [|fr rest]; cbn [bind lookup_frame tl]; rewrite Hrefl, Hview; reflexivity.
  Qed.

  (* ---- 6. reads go through the frames from the innermost outwards: a name the callee's frame does not bind is the caller's ---- *)
  Lemma lookup_through_frame x fr e : lookup_frame L x fr = None -> lookup L x (fr :: e) = lookup L x e.
  Proof. intros H. cbn [lookup]. rewrite H. reflexivity. Qed.

  (* statements that raise nothing: leaves, PRINT, declarations, assignments, X++, call statements *)
  Definition plain_stmt (s : gstmt) : bool :=
    match s with
    | Leaf _ | Print _ _ | Decl _ _ _ | Assign _ _ | Incr _ _ | CallS _ _ => true
    | _ => false
    end.
  Lemma plain_stmt_normal blk s c sg c' : plain_stmt s = true -> exec_stmt L funs blk s c = Fin (sg, c') -> sg = Normal.
  Proof.
    destruct s; cbn [plain_stmt]; intros Hp H; try discriminate Hp; cbn [exec_stmt] in H.
    - destruct (l_atom_sem L a (world c)); cbn [rbind] in H; try discriminate. injection H as <- _. reflexivity.
    - destruct (eval_args L funs blk args c) as [[vs c1]|e| |]; cbn [rbind] in H; try discriminate. injection H as <- _. reflexivity.
    - destruct (eval_opt L funs blk (l_vzero L) init c) as [[v c1]|e| |]; cbn [rbind] in H; try discriminate. injection H as <- _. reflexivity.
    - destruct (eval_opt L funs blk (l_vzero L) e c) as [[v c1]|e0| |]; cbn [rbind] in H; try discriminate. injection H as <- _. reflexivity.
    - destruct (lookup L x (env c)) as [b|].
      + destruct (l_view_of L b); try discriminate. injection H as <- _. reflexivity.
      + injection H as <- _. reflexivity.
    - exact (statement_call_signal _ _ _ _ _ _ _ _ L funs blk f args c sg c' H).
  Qed.
  Lemma plain_block_normal blk b : forallb plain_stmt b = true ->
    forall c sg c', exec_seq L funs blk b c = Fin (sg, c') -> sg = Normal.
  Proof.
    induction b as [|s r IH]; intros Hp c sg c' H; cbn [exec_seq] in H.
    - injection H as <- _. reflexivity.
    - cbn [forallb] in Hp. apply andb_prop in Hp. destruct Hp as [Hs Hr].
      destruct (exec_stmt L funs blk s c) as [[s1 c1]|e| |] eqn:E; cbn [rbind fst snd] in H; try discriminate.
      rewrite (plain_stmt_normal blk s c s1 c1 Hs E) in H. exact (IH Hr _ _ _ H).
  Qed.
  Lemma plain_sem_normal n b c sg c' : forallb plain_stmt b = true -> SEM n b c = Fin (sg, c') -> sg = Normal.
  Proof. destruct n; [discriminate|]. intros Hp H. exact (plain_block_normal (SEM n) b Hp c sg c' H). Qed.

  (* a FOR whose initialiser consists of plain statements (`INT I = a`, `I = I + k` ...) never lets BREAK / CONTINUE out, whatever
     its increment and body are *)
  Theorem for_plain_signals n init cnd inc body line c sg c' :
    forallb plain_stmt init = true ->
    exec_stmt L funs (SEM n) (For init cnd inc body line) c = Fin (sg, c') -> sg = Normal \/ sg = Ret.
  Proof.
    intros Hi. apply for_stmt_signals.
    intros c0 s0 c0'. apply plain_sem_normal, Hi.
  Qed.
End CorSem.

(* ------------------------------------------------------------------------------------------------ *)
(* B. the same facts on the exec() machine of the model, through exec_vs_sem                          *)

Notation SEMM ft := (sem ML (funs_of ft)).
Notation mpasses ft n := (passes (list ch) Token.tok mop Expr.sval song vv nat merr ML (funs_of ft) (SEMM ft n)).
Notation mfpasses ft n := (fpasses (list ch) Token.tok mop Expr.sval song vv nat merr ML (funs_of ft) (SEMM ft n)).
Notation mstraight ft := (straight (list ch) Token.tok mop Expr.sval song vv nat merr ML (funs_of ft)).
Notation mfstraight ft := (fstraight (list ch) Token.tok mop Expr.sval song vv nat merr ML (funs_of ft)).
Notation mreps := (reps (list ch) Token.tok mop nat).
Notation mrets ft := (rets (list ch) Token.tok mop Expr.sval song vv nat merr ML (funs_of ft)).
Notation mfill := (fill (list ch) Token.tok mop Expr.sval song vv nat merr ML).

(* names of the model: list_eqb decides equality *)
Lemma name_eqb_refl_m (a : list ch) : list_eqb a a = true.
Proof. induction a as [|x r IH]; [reflexivity|]. cbn [list_eqb]. rewrite Z.eqb_refl, IH. reflexivity. Qed.
Lemma name_eqb_true_m (a : list ch) : forall b, list_eqb a b = true -> a = b.
Proof.
  induction a as [|x r IH]; intros [|y b] H; cbn [list_eqb] in H; try discriminate; [reflexivity|].
  apply andb_prop in H. destruct H as [H1 H2]. apply Z.eqb_eq in H1. subst y. rewrite (IH b H2). reflexivity.
Qed.

(* ---- blocks of tokens ---- *)
Lemma steps_big : (2 < STEPS)%nat.
Proof. unfold STEPS. lia. Qed.
Lemma toks_ok_app_inv a b : toks_ok (a ++ b) = true -> toks_ok a = true /\ toks_ok b = true.
Proof.
  unfold toks_ok, blk_ok. rewrite forallb_app, app_length. intros H. apply andb_prop in H. destruct H as [H1 H2].
  apply andb_prop in H1. destruct H1 as [Ha Hb]. apply Nat.ltb_lt in H2.
  split; (apply andb_true_intro; split; [assumption | apply Nat.ltb_lt; lia]).
Qed.
Lemma toks_ok_cons_inv t r : toks_ok (t :: r) = true -> tok_ok t = true /\ toks_ok r = true.
Proof.
  intros H. destruct (toks_ok_app_inv [t] r H) as [H1 H2]. split; [|exact H2].
  unfold toks_ok, blk_ok in H1. cbn [forallb] in H1. apply andb_prop in H1. destruct H1 as [H1 _]. apply andb_prop in H1. apply H1.
Qed.
Lemma toks_ok_single t : tok_ok t = true -> toks_ok [t] = true.
Proof.
  intros H. unfold toks_ok, blk_ok. cbn [forallb length]. rewrite H. cbn [andb]. apply Nat.ltb_lt. pose proof steps_big. lia.
Qed.
Lemma toks_ok_while cnd body line : toks_ok body = true -> toks_ok [SWhile cnd body line] = true.
Proof. intros H. apply toks_ok_single. cbn [tok_ok bracket_free_tok andb]. exact H. Qed.
Lemma toks_ok_for init cnd inc body line :
  toks_ok init = true -> toks_ok inc = true -> toks_ok body = true -> toks_ok [SFor init cnd inc body line] = true.
Proof.
  intros H1 H2 H3. apply toks_ok_single. cbn [tok_ok bracket_free_tok andb].
  change (blk_ok tok_ok init) with (toks_ok init). change (blk_ok tok_ok inc) with (toks_ok inc). change (blk_ok tok_ok body) with (toks_ok body).
  rewrite H1, H2, H3. reflexivity.
Qed.

Lemma fold_halt_app f a b s : fold_halt f (a ++ b) s = fold_halt f b (fold_halt f a s).
Proof. unfold fold_halt. apply fold_left_app. Qed.
(* exec() of a block is exec() of its first part, then of the rest (which does nothing once a flag is raised or an error occurred) *)
Lemma exec_s_app d a b s : toks_ok (a ++ b) = true -> exec_s (S d) (a ++ b) s = exec_s (S d) b (exec_s (S d) a s).
Proof.
  intros H. destruct (toks_ok_app_inv a b H) as [Ha Hb].
  destruct (toks_ok_parts _ H) as [_ [H2 H3]]. destruct (toks_ok_parts _ Ha) as [_ [Ha2 Ha3]]. destruct (toks_ok_parts _ Hb) as [_ [Hb2 Hb3]].
  rewrite (exec_s_fold d _ s H2 H3), (exec_s_fold d a s Ha2 Ha3), (exec_s_fold d b _ Hb2 Hb3). apply fold_halt_app.
Qed.

(* a block with a meaning: the machine ends in the configuration of the meaning, the signal as the flag *)
Lemma exec_fin ft (Hft : ft_ok ft = true) n toks m c sg c' :
  wf c -> toks_ok toks = true -> SEMM ft n (prog_of toks) c = Fin (sg, c') ->
  exec_s n toks (Ok (emb ft m c)) = Ok (emb_sig ft m (sg, c')) /\ wf c'.
Proof.
  intros Hwf Hok Hs. destruct (exec_vs_sem ft Hft n toks m c Hwf Hok) as [E W]. { rewrite Hs. discriminate. }
  rewrite E, Hs. split; [reflexivity | exact (W sg c' Hs)].
Qed.
Lemma exec_fin_normal ft (Hft : ft_ok ft = true) n toks m c c' :
  wf c -> toks_ok toks = true -> SEMM ft n (prog_of toks) c = Fin (Normal, c') ->
  exec_s n toks (Ok (emb ft m c)) = Ok (emb ft m c') /\ wf c'.
Proof.
  intros Hwf Hok Hs. destruct (exec_fin ft Hft n toks m c Normal c' Hwf Hok Hs) as [E W].
  rewrite E, (emb_sig_normal ft m c' W). split; [reflexivity | exact W].
Qed.

Lemma iter_shift {A} (f : A -> A) k x : Nat.iter (S k) f x = Nat.iter k f (f x).
Proof. induction k as [|k IH]; [reflexivity|]. cbn [Nat.iter nat_rect] in *. rewrite IH. reflexivity. Qed.

(* the body written k times, as tokens *)
Fixpoint reps_t (k : nat) (body : list stok) : list stok :=
  match k with O => [] | S k' => body ++ reps_t k' body end.
Lemma prog_of_app a b : prog_of (a ++ b) = prog_of a ++ prog_of b.
Proof. apply map_app. Qed.
Lemma prog_of_reps_t k body : prog_of (reps_t k body) = mreps k (prog_of body).
Proof. induction k as [|k IH]; [reflexivity|]. cbn [reps_t reps]. rewrite prog_of_app, IH. reflexivity. Qed.

(* ---- 1. loops and their unrolled text on the machine ---- *)
Section UnrollExec.
  Variable ft : list fdef.
  Hypothesis Hft : ft_ok ft = true.

  Lemma straight_iter n cnd body k m c ck :
    toks_ok body = true -> mstraight ft n cnd (prog_of body) k c ck -> wf c ->
    Nat.iter k (exec_s n body) (Ok (emb ft m c)) = Ok (emb ft m ck) /\ wf ck.
  Proof.
    intros Hok Hs. induction Hs as [c|k c v c2 c3 Ev Hv Hb Hs IH]; intros Hwf; [split; [reflexivity | exact Hwf]|].
    rewrite iter_shift. destruct (exec_fin_normal ft Hft n body m c c2 Hwf Hok Hb) as [E W]. rewrite E. exact (IH W).
  Qed.

  (* WHILE whose test holds exactly k times and changes nothing, bodies running to their ends: the machine does what it does on
     the body executed k times in sequence - for every k up to the limit *)
  Theorem while_unroll_exec n cnd body line k m c ck v :
    wf c -> toks_ok body = true ->
    mstraight ft n (oexpr_of cnd) (prog_of body) k c ck -> (k <= m_N)%nat ->
    eval_opt ML (funs_of ft) (SEMM ft n) (Expr.SInt 0) (oexpr_of cnd) ck = Fin (v, ck) -> Expr.to_b v = false ->
    exec_s (S n) [SWhile cnd body line] (Ok (emb ft m c)) = Nat.iter k (exec_s n body) (Ok (emb ft m c)).
  Proof.
    intros Hwf Hok Hs Hk Ev Hv. rewrite (proj1 (straight_iter n (oexpr_of cnd) body k m c ck Hok Hs Hwf)).
    refine (proj1 (exec_fin_normal ft Hft (S n) [SWhile cnd body line] m c ck Hwf (toks_ok_while cnd body line Hok) _)).
    change (SEMM ft (S n) (prog_of [SWhile cnd body line]) c)
      with (rbind (exec_stmt ML (funs_of ft) (SEMM ft n) (While (oexpr_of cnd) (prog_of body) line) c)
              (fun p => match fst p with Normal => Fin (Normal, snd p) | sg => Fin (sg, snd p) end)).
    rewrite (loop_unroll_text _ _ _ _ _ _ _ _ ML (funs_of ft) n (oexpr_of cnd) (prog_of body) line k c ck v Hs Hk Ev Hv).
    rewrite (straight_text _ _ _ _ _ _ _ _ ML (funs_of ft) n (oexpr_of cnd) (prog_of body) k c ck Hs). reflexivity.
  Qed.
  (* ... and on the body WRITTEN k times, when that text is a block (shorter than the fuel of one exec() loop) *)
  Theorem while_unroll_exec_text n cnd body line k m c ck v :
    wf c -> toks_ok body = true -> toks_ok (reps_t k body) = true ->
    mstraight ft n (oexpr_of cnd) (prog_of body) k c ck -> (k <= m_N)%nat ->
    eval_opt ML (funs_of ft) (SEMM ft n) (Expr.SInt 0) (oexpr_of cnd) ck = Fin (v, ck) -> Expr.to_b v = false ->
    exec_s (S n) [SWhile cnd body line] (Ok (emb ft m c)) = exec_s (S n) (reps_t k body) (Ok (emb ft m c)).
  Proof.
    intros Hwf Hok Hokr Hs Hk Ev Hv. rewrite (while_unroll_exec n cnd body line k m c ck v Hwf Hok Hs Hk Ev Hv).
    rewrite (proj1 (straight_iter n (oexpr_of cnd) body k m c ck Hok Hs Hwf)). symmetry.
    refine (proj1 (exec_fin_normal ft Hft (S n) (reps_t k body) m c ck Hwf Hokr _)).
    rewrite prog_of_reps_t. exact (straight_text _ _ _ _ _ _ _ _ ML (funs_of ft) n (oexpr_of cnd) (prog_of body) k c ck Hs).
  Qed.

  Lemma fstraight_iter n cnd inc body k m c ck :
    toks_ok inc = true -> toks_ok body = true -> mfstraight ft n cnd (prog_of inc) (prog_of body) k c ck -> wf c ->
    Nat.iter k (fun s => exec_s n inc (exec_s n body s)) (Ok (emb ft m c)) = Ok (emb ft m ck) /\ wf ck.
  Proof.
    intros Hoki Hok Hs. induction Hs as [c|k c v c2 c3 c4 Ev Hv Hb Hi Hs IH]; intros Hwf; [split; [reflexivity | exact Hwf]|].
    rewrite iter_shift. destruct (exec_fin_normal ft Hft n body m c c2 Hwf Hok Hb) as [E W]. rewrite E.
    destruct (exec_fin_normal ft Hft n inc m c2 c3 W Hoki Hi) as [E2 W2]. rewrite E2. exact (IH W2).
  Qed.

  (* FOR: init; then k x (body; increment) *)
  Theorem for_unroll_exec n init cnd inc body line k m c c0 ck v :
    wf c -> toks_ok init = true -> toks_ok inc = true -> toks_ok body = true ->
    SEMM ft n (prog_of init) c = Fin (Normal, c0) ->
    mfstraight ft n (oexpr_of cnd) (prog_of inc) (prog_of body) k c0 ck -> (k <= m_N)%nat ->
    eval_opt ML (funs_of ft) (SEMM ft n) (Expr.SInt 0) (oexpr_of cnd) ck = Fin (v, ck) -> Expr.to_b v = false ->
    exec_s (S n) [SFor init cnd inc body line] (Ok (emb ft m c))
    = Nat.iter k (fun s => exec_s n inc (exec_s n body s)) (exec_s n init (Ok (emb ft m c))).
  Proof.
    intros Hwf Hokn Hoki Hok Hinit Hs Hk Ev Hv.
    destruct (exec_fin_normal ft Hft n init m c c0 Hwf Hokn Hinit) as [E0 W0]. rewrite E0.
    rewrite (proj1 (fstraight_iter n (oexpr_of cnd) inc body k m c0 ck Hoki Hok Hs W0)).
    refine (proj1 (exec_fin_normal ft Hft (S n) [SFor init cnd inc body line] m c ck Hwf (toks_ok_for init cnd inc body line Hokn Hoki Hok) _)).
    change (SEMM ft (S n) (prog_of [SFor init cnd inc body line]) c)
      with (rbind (exec_stmt ML (funs_of ft) (SEMM ft n) (For (prog_of init) (oexpr_of cnd) (prog_of inc) (prog_of body) line) c)
              (fun p => match fst p with Normal => Fin (Normal, snd p) | sg => Fin (sg, snd p) end)).
    rewrite (for_unroll_text _ _ _ _ _ _ _ _ ML (funs_of ft) n (prog_of init) (oexpr_of cnd) (prog_of inc) (prog_of body) line k c c0 ck v Hinit Hs Hk Ev Hv).
    change (SEMM ft (S n) (prog_of init ++ mreps k (prog_of body ++ prog_of inc)) c)
      with (exec_seq ML (funs_of ft) (SEMM ft n) (prog_of init ++ mreps k (prog_of body ++ prog_of inc)) c).
    rewrite exec_seq_app, (sem_up _ _ _ _ _ _ _ _ ML (funs_of ft) n (prog_of init) c _ Hinit). cbn [rbind fst snd].
    rewrite (fstraight_text _ _ _ _ _ _ _ _ ML (funs_of ft) n (oexpr_of cnd) (prog_of inc) (prog_of body) k c0 ck Hs). reflexivity.
  Qed.
  Theorem for_unroll_exec_text n init cnd inc body line k m c c0 ck v :
    wf c -> toks_ok init = true -> toks_ok inc = true -> toks_ok body = true -> toks_ok (init ++ reps_t k (body ++ inc)) = true ->
    SEMM ft n (prog_of init) c = Fin (Normal, c0) ->
    mfstraight ft n (oexpr_of cnd) (prog_of inc) (prog_of body) k c0 ck -> (k <= m_N)%nat ->
    eval_opt ML (funs_of ft) (SEMM ft n) (Expr.SInt 0) (oexpr_of cnd) ck = Fin (v, ck) -> Expr.to_b v = false ->
    exec_s (S n) [SFor init cnd inc body line] (Ok (emb ft m c)) = exec_s (S n) (init ++ reps_t k (body ++ inc)) (Ok (emb ft m c)).
  Proof.
    intros Hwf Hokn Hoki Hok Hokr Hinit Hs Hk Ev Hv.
    assert (Hfor : SEMM ft (S n) (prog_of [SFor init cnd inc body line]) c = SEMM ft (S n) (prog_of (init ++ reps_t k (body ++ inc))) c).
    { rewrite prog_of_app, prog_of_reps_t, prog_of_app.
      rewrite <- (for_unroll_text _ _ _ _ _ _ _ _ ML (funs_of ft) n (prog_of init) (oexpr_of cnd) (prog_of inc) (prog_of body) line k c c0 ck v Hinit Hs Hk Ev Hv).
      change (SEMM ft (S n) (prog_of [SFor init cnd inc body line]) c)
        with (rbind (exec_stmt ML (funs_of ft) (SEMM ft n) (For (prog_of init) (oexpr_of cnd) (prog_of inc) (prog_of body) line) c)
                (fun p => match fst p with Normal => Fin (Normal, snd p) | sg => Fin (sg, snd p) end)).
      destruct (exec_stmt _ _ _ _ c) as [[[] c']|e| |]; reflexivity. }
    assert (Hfin : SEMM ft (S n) (prog_of (init ++ reps_t k (body ++ inc))) c = Fin (Normal, ck)).
    { rewrite prog_of_app, prog_of_reps_t, prog_of_app.
      change (SEMM ft (S n) (prog_of init ++ mreps k (prog_of body ++ prog_of inc)) c)
        with (exec_seq ML (funs_of ft) (SEMM ft n) (prog_of init ++ mreps k (prog_of body ++ prog_of inc)) c).
      rewrite exec_seq_app, (sem_up _ _ _ _ _ _ _ _ ML (funs_of ft) n (prog_of init) c _ Hinit). cbn [rbind fst snd].
      exact (fstraight_text _ _ _ _ _ _ _ _ ML (funs_of ft) n (oexpr_of cnd) (prog_of inc) (prog_of body) k c0 ck Hs). }
    rewrite (proj1 (exec_fin_normal ft Hft (S n) _ m c ck Hwf Hokr Hfin)).
    rewrite Hfin in Hfor.
    exact (proj1 (exec_fin_normal ft Hft (S n) _ m c ck Hwf (toks_ok_for init cnd inc body line Hokn Hoki Hok) Hfor)).
  Qed.
End UnrollExec.

(* ---- 2. BREAK / CONTINUE on the machine ---- *)
Section InnermostExec.
  Variable ft : list fdef.
  Hypothesis Hft : ft_ok ft = true.

  (* BREAK raised in pass j+1 of a WHILE that stands between `pre` and `post` in a block (any depth of IFs between the WHILE and
     the BREAK): the machine leaves that WHILE only and goes on with `post`, break_flag lowered *)
  Theorem break_innermost_exec n pre cnd body line post j m c c1 cj v c2 c3 :
    wf c -> toks_ok (pre ++ SWhile cnd body line :: post) = true ->
    exec_seq ML (funs_of ft) (SEMM ft n) (prog_of pre) c = Fin (Normal, c1) ->
    mpasses ft n (oexpr_of cnd) (prog_of body) j c1 cj -> (j < m_N)%nat ->
    eval_opt ML (funs_of ft) (SEMM ft n) (Expr.SInt 0) (oexpr_of cnd) cj = Fin (v, c2) -> Expr.to_b v = true ->
    SEMM ft n (prog_of body) c2 = Fin (Brk, c3) ->
    exec_s (S n) (pre ++ SWhile cnd body line :: post) (Ok (emb ft m c)) = exec_s (S n) post (Ok (emb ft m c3)) /\ wf c3.
  Proof.
    intros Hwf Hok Hpre Hp Hj Ev Hv Hb.
    change (pre ++ SWhile cnd body line :: post) with (pre ++ [SWhile cnd body line] ++ post) in *. rewrite app_assoc in *.
    rewrite (exec_s_app n _ post _ Hok). destruct (toks_ok_app_inv _ post Hok) as [Hok1 _].
    assert (Hs : SEMM ft (S n) (prog_of (pre ++ [SWhile cnd body line])) c = Fin (Normal, c3)).
    { rewrite prog_of_app.
      change (SEMM ft (S n) (prog_of pre ++ prog_of [SWhile cnd body line]) c)
        with (exec_seq ML (funs_of ft) (SEMM ft n) (prog_of pre ++ While (oexpr_of cnd) (prog_of body) line :: []) c).
      exact (break_innermost_while _ _ _ _ _ _ _ _ ML (funs_of ft) (SEMM ft n) (prog_of pre) (oexpr_of cnd) (prog_of body) line [] j c c1 cj v c2 c3
               Hpre Hp Hj Ev Hv Hb). }
    destruct (exec_fin_normal ft Hft (S n) _ m c c3 Hwf Hok1 Hs) as [E W]. rewrite E. split; [reflexivity | exact W].
  Qed.
  Theorem break_innermost_for_exec n pre init cnd inc body line post j m c c1 c1' cj v c2 c3 :
    wf c -> toks_ok (pre ++ SFor init cnd inc body line :: post) = true ->
    exec_seq ML (funs_of ft) (SEMM ft n) (prog_of pre) c = Fin (Normal, c1) -> SEMM ft n (prog_of init) c1 = Fin (Normal, c1') ->
    mfpasses ft n (oexpr_of cnd) (prog_of inc) (prog_of body) j c1' cj -> (j < m_N)%nat ->
    eval_opt ML (funs_of ft) (SEMM ft n) (Expr.SInt 0) (oexpr_of cnd) cj = Fin (v, c2) -> Expr.to_b v = true ->
    SEMM ft n (prog_of body) c2 = Fin (Brk, c3) ->
    exec_s (S n) (pre ++ SFor init cnd inc body line :: post) (Ok (emb ft m c)) = exec_s (S n) post (Ok (emb ft m c3)) /\ wf c3.
  Proof.
    intros Hwf Hok Hpre Hi Hp Hj Ev Hv Hb.
    change (pre ++ SFor init cnd inc body line :: post) with (pre ++ [SFor init cnd inc body line] ++ post) in *. rewrite app_assoc in *.
    rewrite (exec_s_app n _ post _ Hok). destruct (toks_ok_app_inv _ post Hok) as [Hok1 _].
    assert (Hs : SEMM ft (S n) (prog_of (pre ++ [SFor init cnd inc body line])) c = Fin (Normal, c3)).
    { rewrite prog_of_app.
      change (SEMM ft (S n) (prog_of pre ++ prog_of [SFor init cnd inc body line]) c)
        with (exec_seq ML (funs_of ft) (SEMM ft n) (prog_of pre ++ For (prog_of init) (oexpr_of cnd) (prog_of inc) (prog_of body) line :: []) c).
      exact (break_innermost_for _ _ _ _ _ _ _ _ ML (funs_of ft) (SEMM ft n) (prog_of pre) (prog_of init) (oexpr_of cnd) (prog_of inc) (prog_of body) line []
               j c c1 c1' cj v c2 c3 Hpre Hi Hp Hj Ev Hv Hb). }
    destruct (exec_fin_normal ft Hft (S n) _ m c c3 Hwf Hok1 Hs) as [E W]. rewrite E. split; [reflexivity | exact W].
  Qed.
  (* the same for a BREAK raised by the INCREMENT of pass j+1: the FOR ends there, nothing stays raised, `post` is executed *)
  Theorem break_in_increment_exec n pre init cnd inc body line post j m c c1 c1' cj v c2 sg c3 c4 :
    wf c -> toks_ok (pre ++ SFor init cnd inc body line :: post) = true ->
    exec_seq ML (funs_of ft) (SEMM ft n) (prog_of pre) c = Fin (Normal, c1) -> SEMM ft n (prog_of init) c1 = Fin (Normal, c1') ->
    mfpasses ft n (oexpr_of cnd) (prog_of inc) (prog_of body) j c1' cj -> (j < m_N)%nat ->
    eval_opt ML (funs_of ft) (SEMM ft n) (Expr.SInt 0) (oexpr_of cnd) cj = Fin (v, c2) -> Expr.to_b v = true ->
    SEMM ft n (prog_of body) c2 = Fin (sg, c3) -> (sg = Normal \/ sg = Cont) -> SEMM ft n (prog_of inc) c3 = Fin (Brk, c4) ->
    exec_s (S n) (pre ++ SFor init cnd inc body line :: post) (Ok (emb ft m c)) = exec_s (S n) post (Ok (emb ft m c4)) /\ wf c4.
  Proof.
    intros Hwf Hok Hpre Hi Hp Hj Ev Hv Hb Hsg Hinc.
    change (pre ++ SFor init cnd inc body line :: post) with (pre ++ [SFor init cnd inc body line] ++ post) in *. rewrite app_assoc in *.
    rewrite (exec_s_app n _ post _ Hok). destruct (toks_ok_app_inv _ post Hok) as [Hok1 _].
    assert (Hs : SEMM ft (S n) (prog_of (pre ++ [SFor init cnd inc body line])) c = Fin (Normal, c4)).
    { rewrite prog_of_app.
      change (SEMM ft (S n) (prog_of pre ++ prog_of [SFor init cnd inc body line]) c)
        with (exec_seq ML (funs_of ft) (SEMM ft n) (prog_of pre ++ For (prog_of init) (oexpr_of cnd) (prog_of inc) (prog_of body) line :: []) c).
      exact (break_in_increment_innermost _ _ _ _ _ _ _ _ ML (funs_of ft) (SEMM ft n) (prog_of pre) (prog_of init) (oexpr_of cnd) (prog_of inc) (prog_of body) line []
               j c c1 c1' cj v c2 sg c3 c4 Hpre Hi Hp Hj Ev Hv Hb Hsg Hinc). }
    destruct (exec_fin_normal ft Hft (S n) _ m c c4 Hwf Hok1 Hs) as [E W]. rewrite E. split; [reflexivity | exact W].
  Qed.
End InnermostExec.

(* CONTINUE skips the rest of the body, whatever it is: a loop whose body is `pre; CONTINUE; post` means the loop whose body is `pre`
   (FOR: with the same increment, which still runs) *)
Section ContinueText.
  Variables Name Atom Op Val World Bnd FId Err : Type.
  Variable L : lang Name Atom Op Val World Bnd FId Err.
  Variable funs : FId -> option (fundef Name Atom Op Val FId).
  Notation gcfg := (cfg Name World Bnd).
  Notation gstmt := (stmt Name Atom Op FId).

  (* the two bodies differ only in Cont for Normal *)
  Definition same_but_cont (r r' : result Err (signal * gcfg)) : Prop :=
    r = r' \/ exists c, r = Fin (Cont, c) /\ r' = Fin (Normal, c).
  Lemma continue_body n pre post (c : gcfg) :
    same_but_cont (sem L funs n (pre ++ Continue :: post) c) (sem L funs n pre c).
  Proof.
    destruct n as [|n]; [left; reflexivity|]. cbn [sem]. rewrite exec_seq_app.
    destruct (exec_seq L funs (sem L funs n) pre c) as [[[] c1]|e| |]; cbn [rbind fst snd exec_seq exec_stmt]; try (left; reflexivity).
    right. exists c1. split; reflexivity.
  Qed.

  Theorem while_continue_text n cnd pre post line : forall left (c : gcfg),
    while_sem L funs (sem L funs n) left cnd (pre ++ Continue :: post) line c = while_sem L funs (sem L funs n) left cnd pre line c.
  Proof.
    induction left as [|left IH]; intros c; cbn [while_sem];
      (destruct (eval_opt L funs (sem L funs n) (l_vzero L) cnd c) as [[v c1]|e| |]; cbn [rbind fst snd]; try reflexivity;
       destruct (negb (l_truth L v)); [reflexivity|]).
    - destruct (continue_body n pre post c1) as [-> | [c2 [-> ->]]]; reflexivity.
    - destruct (continue_body n pre post c1) as [E | [c2 [-> ->]]].
      + rewrite E. destruct (sem L funs n pre c1) as [[[] c2]|e| |]; cbn [rbind fst snd]; try reflexivity; apply IH.
      + cbn [rbind fst snd]. apply IH.
  Qed.
  Theorem for_continue_text n cnd inc pre post line : forall left (c : gcfg),
    for_sem L funs (sem L funs n) left cnd inc (pre ++ Continue :: post) line c = for_sem L funs (sem L funs n) left cnd inc pre line c.
  Proof.
    induction left as [|left IH]; intros c; cbn [for_sem];
      (destruct (eval_opt L funs (sem L funs n) (l_vzero L) cnd c) as [[v c1]|e| |]; cbn [rbind fst snd]; try reflexivity;
       destruct (negb (l_truth L v)); [reflexivity|]).
    - destruct (continue_body n pre post c1) as [-> | [c2 [-> ->]]]; reflexivity.
    - destruct (continue_body n pre post c1) as [E | [c2 [-> ->]]].
      + rewrite E. destruct (sem L funs n pre c1) as [[[] c2]|e| |]; cbn [rbind fst snd]; try reflexivity;
          (destruct (sem L funs n inc c2) as [[[] c3]|e| |]; cbn [rbind fst snd]; try reflexivity; apply IH).
      + cbn [rbind fst snd]. destruct (sem L funs n inc c2) as [[[] c3]|e| |]; cbn [rbind fst snd]; try reflexivity; apply IH.
  Qed.
  Theorem continue_text_stmt n cnd pre post line (c : gcfg) :
    exec_stmt L funs (sem L funs n) (While cnd (pre ++ Continue :: post) line) c = exec_stmt L funs (sem L funs n) (While cnd pre line) c.
  Proof. apply while_continue_text. Qed.
  Theorem continue_text_for_stmt n init cnd inc pre post line (c : gcfg) :
    exec_stmt L funs (sem L funs n) (For init cnd inc (pre ++ Continue :: post) line) c
    = exec_stmt L funs (sem L funs n) (For init cnd inc pre line) c.
  Proof.
    cbn [exec_stmt]. destruct (sem L funs n init c) as [[[] c1]|e| |]; cbn [rbind fst snd]; try reflexivity. apply for_continue_text.
  Qed.
End ContinueText.

Section ContinueExec.
  Variable ft : list fdef.
  Hypothesis Hft : ft_ok ft = true.

  Lemma sem_single n t c :
    SEMM ft (S n) (prog_of [t]) c
    = rbind (exec_stmt ML (funs_of ft) (SEMM ft n) (stmt_of t) c) (fun p => match fst p with Normal => Fin (Normal, snd p) | sg => Fin (sg, snd p) end).
  Proof. reflexivity. Qed.

  (* on the machine: the tokens behind a CONTINUE in a loop body are never executed - the loop with them is the loop without them *)
  Theorem continue_skips_exec n cnd pre post line m c :
    wf c -> toks_ok (pre ++ SContinue :: post) = true ->
    SEMM ft (S n) (prog_of [SWhile cnd pre line]) c <> Stuck ->
    exec_s (S n) [SWhile cnd (pre ++ SContinue :: post) line] (Ok (emb ft m c)) = exec_s (S n) [SWhile cnd pre line] (Ok (emb ft m c)).
  Proof.
    intros Hwf Hok Hns. destruct (toks_ok_app_inv pre _ Hok) as [Hpre _].
    assert (E : SEMM ft (S n) (prog_of [SWhile cnd (pre ++ SContinue :: post) line]) c = SEMM ft (S n) (prog_of [SWhile cnd pre line]) c).
    { rewrite !sem_single. cbn [stmt_of]. rewrite map_app. cbn [map stmt_of].
      rewrite (continue_text_stmt _ _ _ _ _ _ _ _ ML (funs_of ft) n (oexpr_of cnd) (map stmt_of pre) (map stmt_of post) line c). reflexivity. }
    assert (Hns' : SEMM ft (S n) (prog_of [SWhile cnd (pre ++ SContinue :: post) line]) c <> Stuck) by (rewrite E; exact Hns).
    rewrite (proj1 (exec_vs_sem ft Hft (S n) _ m c Hwf (toks_ok_while cnd _ line Hok) Hns')).
    rewrite (proj1 (exec_vs_sem ft Hft (S n) _ m c Hwf (toks_ok_while cnd _ line Hpre) Hns)). rewrite E. reflexivity.
  Qed.
  Theorem continue_skips_for_exec n init cnd inc pre post line m c :
    wf c -> toks_ok init = true -> toks_ok inc = true -> toks_ok (pre ++ SContinue :: post) = true ->
    SEMM ft (S n) (prog_of [SFor init cnd inc pre line]) c <> Stuck ->
    exec_s (S n) [SFor init cnd inc (pre ++ SContinue :: post) line] (Ok (emb ft m c))
    = exec_s (S n) [SFor init cnd inc pre line] (Ok (emb ft m c)).
  Proof.
    intros Hwf Hokn Hoki Hok Hns. destruct (toks_ok_app_inv pre _ Hok) as [Hpre _].
    assert (E : SEMM ft (S n) (prog_of [SFor init cnd inc (pre ++ SContinue :: post) line]) c = SEMM ft (S n) (prog_of [SFor init cnd inc pre line]) c).
    { rewrite !sem_single. cbn [stmt_of]. rewrite map_app. cbn [map stmt_of].
      rewrite (continue_text_for_stmt _ _ _ _ _ _ _ _ ML (funs_of ft) n (map stmt_of init) (oexpr_of cnd) (map stmt_of inc) (map stmt_of pre) (map stmt_of post) line c).
      reflexivity. }
    assert (Hns' : SEMM ft (S n) (prog_of [SFor init cnd inc (pre ++ SContinue :: post) line]) c <> Stuck) by (rewrite E; exact Hns).
    rewrite (proj1 (exec_vs_sem ft Hft (S n) _ m c Hwf (toks_ok_for init cnd inc _ line Hokn Hoki Hok) Hns')).
    rewrite (proj1 (exec_vs_sem ft Hft (S n) _ m c Hwf (toks_ok_for init cnd inc _ line Hokn Hoki Hpre) Hns)). rewrite E. reflexivity.
  Qed.
End ContinueExec.

(* ---- 3. the iteration limit on the machine ---- *)
Lemma m_N_value : Z.of_nat m_N = 10000.
Proof. reflexivity. Qed.

Section LimitExec.
  Variable ft : list fdef.
  Hypothesis Hft : ft_ok ft = true.

  Lemma wf_limit_note is_for line c : wf c -> wf (set_world c (m_limit is_for line (world c))).
  Proof. intros H. unfold wf, m_limit. cbn [world set_world]. rewrite add_log_flag. exact H. Qed.

  (* WHILE whose test never fails (Inv holds at every test): the machine runs the body S m_N = 10001 times, logs the error once
     (add_log of limit_msg onto the song after the last pass), lowers nothing else, and goes on with the tokens behind the loop
     with break_flag = 0 *)
  Theorem while_limit_exec n (Inv : mcfg -> Prop) cnd body line rest m c :
    wf c -> toks_ok (SWhile cnd body line :: rest) = true ->
    (forall c0, Inv c0 -> exists v c1 sg c2,
        eval_opt ML (funs_of ft) (SEMM ft n) (Expr.SInt 0) (oexpr_of cnd) c0 = Fin (v, c1) /\ Expr.to_b v = true /\
        SEMM ft n (prog_of body) c1 = Fin (sg, c2) /\ (sg = Normal \/ sg = Cont) /\ Inv c2) ->
    Inv c ->
    exists c', mpasses ft n (oexpr_of cnd) (prog_of body) (S m_N) c c' /\ Inv c' /\
      wf (set_world c' (add_log (world c') (limit_msg (s_ja (world c')) false line))) /\
      exec_s (S n) (SWhile cnd body line :: rest) (Ok (emb ft m c))
      = exec_s (S n) rest (Ok (emb ft m (set_world c' (add_log (world c') (limit_msg (s_ja (world c')) false line))))).
  Proof.
    intros Hwf Hok Hstep Hinv.
    destruct (while_never_ends _ _ _ _ _ _ _ _ ML (funs_of ft) (SEMM ft n) Inv (oexpr_of cnd) (prog_of body) line Hstep m_N c Hinv)
      as (c' & Hp & Hc' & Hw).
    exists c'. split; [exact Hp|]. split; [exact Hc'|].
    change (SWhile cnd body line :: rest) with ([SWhile cnd body line] ++ rest) in *.
    destruct (toks_ok_app_inv _ rest Hok) as [Hok1 _].
    assert (Hs : SEMM ft (S n) (prog_of [SWhile cnd body line]) c = Fin (Normal, set_world c' (m_limit false line (world c')))).
    { rewrite sem_single. cbn [stmt_of exec_stmt]. change (l_limit ML) with m_N. change (map stmt_of body) with (prog_of body).
      rewrite Hw. reflexivity. }
    destruct (exec_fin_normal ft Hft (S n) _ m c _ Hwf Hok1 Hs) as [E W].
    split; [exact W|]. rewrite (exec_s_app n _ rest _ Hok), E. reflexivity.
  Qed.

  (* FOR: m_N full passes (test, body, increment), then the test and the body once more - the body has run 10001 times, the
     increment 10000 times *)
  Theorem for_limit_exec n (Inv : mcfg -> Prop) init cnd inc body line rest m c c0 :
    wf c -> toks_ok (SFor init cnd inc body line :: rest) = true ->
    SEMM ft n (prog_of init) c = Fin (Normal, c0) ->
    (forall c1, Inv c1 -> exists v c2 sg c3 c4,
        eval_opt ML (funs_of ft) (SEMM ft n) (Expr.SInt 0) (oexpr_of cnd) c1 = Fin (v, c2) /\ Expr.to_b v = true /\
        SEMM ft n (prog_of body) c2 = Fin (sg, c3) /\ (sg = Normal \/ sg = Cont) /\
        SEMM ft n (prog_of inc) c3 = Fin (Normal, c4) /\ Inv c4) ->
    Inv c0 ->
    exists cl v c1 sg c2,
      mfpasses ft n (oexpr_of cnd) (prog_of inc) (prog_of body) m_N c0 cl /\ Inv cl /\
      eval_opt ML (funs_of ft) (SEMM ft n) (Expr.SInt 0) (oexpr_of cnd) cl = Fin (v, c1) /\ Expr.to_b v = true /\
      SEMM ft n (prog_of body) c1 = Fin (sg, c2) /\ (sg = Normal \/ sg = Cont) /\
      wf (set_world c2 (add_log (world c2) (limit_msg (s_ja (world c2)) true line))) /\
      exec_s (S n) (SFor init cnd inc body line :: rest) (Ok (emb ft m c))
      = exec_s (S n) rest (Ok (emb ft m (set_world c2 (add_log (world c2) (limit_msg (s_ja (world c2)) true line))))).
  Proof.
    intros Hwf Hok Hinit Hstep Hinv.
    destruct (for_never_ends _ _ _ _ _ _ _ _ ML (funs_of ft) (SEMM ft n) Inv (oexpr_of cnd) (prog_of inc) (prog_of body) line Hstep m_N c0 Hinv)
      as (cl & v & c1 & sg & c2 & Hp & Hcl & Ev & Hv & Hb & Hsg & Hw).
    exists cl, v, c1, sg, c2. repeat (split; [assumption|]).
    change (SFor init cnd inc body line :: rest) with ([SFor init cnd inc body line] ++ rest) in *.
    destruct (toks_ok_app_inv _ rest Hok) as [Hok1 _].
    assert (Hs : SEMM ft (S n) (prog_of [SFor init cnd inc body line]) c = Fin (Normal, set_world c2 (m_limit true line (world c2)))).
    { rewrite sem_single. cbn [stmt_of exec_stmt]. change (l_limit ML) with m_N.
      change (map stmt_of body) with (prog_of body). change (map stmt_of inc) with (prog_of inc). change (map stmt_of init) with (prog_of init).
      rewrite Hinit. cbn [rbind fst snd]. rewrite Hw. reflexivity. }
    destruct (exec_fin_normal ft Hft (S n) _ m c _ Hwf Hok1 Hs) as [E W].
    split; [exact W|]. rewrite (exec_s_app n _ rest _ Hok), E. reflexivity.
  Qed.
End LimitExec.

(* ---- 4. declared defaults on the machine ---- *)
Section DefaultsExec.
  (* exec_userfunc_or_array_or_macro after the arguments: the list vs and the completed list give the same call *)
  Theorem finish_call_fill ec fd vs st : finish_call ec fd (mfill (f_params fd) vs) st = finish_call ec fd vs st.
  Proof.
    unfold finish_call. rewrite <- !bind_params_eq.
    rewrite (bind_params_fill _ _ _ _ _ _ _ _ ML (f_params fd) vs (ss_scopes st)). reflexivity.
  Qed.
  Theorem finish_call_extra_args ec fd vs extra st :
    (length (f_params fd) <= length vs)%nat -> finish_call ec fd (vs ++ extra) st = finish_call ec fd vs st.
  Proof.
    intros Hlen. unfold finish_call. rewrite <- !bind_params_eq.
    rewrite (bind_params_ext _ _ _ _ _ _ _ _ ML (f_params fd) 0 vs (vs ++ extra)); [reflexivity|].
    intros j x d Hj. cbn [Nat.add]. rewrite app_nth1; [reflexivity|].
    assert (j < length (f_params fd))%nat by (apply nth_error_Some; rewrite Hj; discriminate). lia.
  Qed.
  (* the entries of the completed list, in the model's own terms *)
  Theorem mfill_entry ps vs j x d : nth_error ps j = Some (x, d) ->
    nth j (mfill ps vs) Expr.SNone = (if Expr.is_none (nth j vs Expr.SNone) then d else nth j vs Expr.SNone).
  Proof. intros Hj. exact (nth_fill_from _ _ _ _ _ _ _ _ ML ps 0 j x d vs Hj). Qed.
  Theorem mfill_length ps vs : length (mfill ps vs) = length ps.
  Proof. apply length_fill_from. Qed.
End DefaultsExec.

(* ---- 5. RETURN on the machine ---- *)
Section ReturnExec.
  Variable ft : list fdef.
  Hypothesis Hft : ft_ok ft = true.

  (* the body of the function reaches RETURN(e) somewhere (rets: any nesting of IF / WHILE / FOR around it, anything behind it):
     the call ends there; with function_needs_return_value (m) the value pushed is that of e; the callee's scope is popped and
     break_flag is what it was before the call (0) *)
  Theorem return_exec n fd vs m c v c' :
    wf c -> toks_ok (f_body fd) = true ->
    mrets ft n (prog_of (f_body fd)) (set_env c (Script.bind_params (f_params fd) 0 vs (env c))) v c' ->
    finish_call (exec_s n) fd vs (emb ft m c) = Ok (if m then Some v else None, emb ft m (set_env c' (tl (env c')))).
  Proof.
    intros Hwf Hok Hr. rewrite <- bind_params_eq in Hr.
    assert (Hcb : call_body ML (SEMM ft n) (fundef_of fd) vs c = Fin (v, set_env c' (tl (env c')))).
    { apply call_returns; [intros x; apply name_eqb_refl_m | reflexivity | exact Hr]. }
    destruct (call_sim ft (SEMM ft n) (exec_s n) (fun b m0 c0 Hw Hb Hn => exec_vs_sem ft Hft n b m0 c0 Hw Hb Hn) m fd vs c Hwf Hok) as [E _].
    { rewrite Hcb. discriminate. }
    rewrite E, Hcb. reflexivity.
  Qed.
End ReturnExec.

(* ---- 6. scopes on the machine ---- *)
Section ScopeExec.
  Variable ft : list fdef.
  Hypothesis Hft : ft_ok ft = true.

  (* whatever a block of tokens does - declarations, assignments to any name, calls - the scopes BELOW the current one are after it
     what they were before *)
  Theorem block_scopes_exec n toks m c st' :
    wf c -> toks_ok toks = true -> SEMM ft n (prog_of toks) c <> Stuck ->
    exec_s n toks (Ok (emb ft m c)) = Ok st' -> tl (ss_scopes st') = tl (env c).
  Proof.
    intros Hwf Hok Hns H. rewrite (proj1 (exec_vs_sem ft Hft n toks m c Hwf Hok Hns)) in H.
    destruct (SEMM ft n (prog_of toks) c) as [[sg c']|[s| |w]| |] eqn:E; cbn [out_state rmap result_to_res] in H; try discriminate.
    injection H as <-. exact (sem_tail _ _ _ _ _ _ _ _ ML (funs_of ft) n _ c sg c' E).
  Qed.

  (* a call statement leaves EVERY scope of the caller as it was - also the current one - and no flag raised *)
  Theorem call_scopes_exec n id args m c st' :
    wf c -> SEMM ft (S n) (prog_of [SCall id args]) c <> Stuck ->
    exec_s (S n) [SCall id args] (Ok (emb ft m c)) = Ok st' -> ss_scopes st' = env c /\ st_flag st' = 0.
  Proof.
    intros Hwf Hns H. destruct (exec_vs_sem ft Hft (S n) [SCall id args] m c Hwf (toks_ok_single (SCall id args) eq_refl) Hns) as [E W].
    rewrite E in H. rewrite sem_single in *. cbn [stmt_of] in *.
    destruct (exec_stmt ML (funs_of ft) (SEMM ft n) (CallS id (map oexpr_of args)) c) as [[sg c']|[s| |w]| |] eqn:Es;
      cbn [rbind fst snd out_state rmap result_to_res] in *; try discriminate; try (exfalso; apply Hns; reflexivity).
    pose proof (statement_call_signal _ _ _ _ _ _ _ _ ML (funs_of ft) (SEMM ft n) id _ c sg c' Es) as ->.
    pose proof (statement_call_env _ _ _ _ _ _ _ _ ML (funs_of ft) (SEMM ft n) (sem_tail _ _ _ _ _ _ _ _ ML (funs_of ft) n) id _ c Normal c' Es) as Ee.
    cbn [rmap result_to_res] in H. injection H as <-. split; [exact Ee|].
    rewrite st_flag_emb_sig. reflexivity.
  Qed.

  (* the value of an expression - with any calls inside - is computed without changing any scope *)
  Theorem value_scopes_exec n e m c v st' :
    wf c -> eval_opt ML (funs_of ft) (SEMM ft n) (Expr.SInt 0) (oexpr_of e) c <> Stuck ->
    exec_value_o (exec_s n) e (emb ft m c) = Ok (v, st') -> ss_scopes st' = env c /\ st_flag st' = 0.
  Proof.
    intros Hwf Hns H.
    destruct (value_sim ft Hft (SEMM ft n) (exec_s n) (fun b m0 c0 Hw Hb Hn => exec_vs_sem ft Hft n b m0 c0 Hw Hb Hn) m e c Hwf Hns) as [E W].
    rewrite E in H.
    destruct (eval_opt ML (funs_of ft) (SEMM ft n) (Expr.SInt 0) (oexpr_of e) c) as [[v' c']|[s| |w]| |] eqn:Ev;
      cbn [val_out rmap result_to_res] in H; try discriminate.
    injection H as _ <-. split.
    - exact (eval_opt_env _ _ _ _ _ _ _ _ ML (funs_of ft) (SEMM ft n) (sem_tail _ _ _ _ _ _ _ _ ML (funs_of ft) n) _ _ c v' c' Ev).
    - exact (W v' c' eq_refl).
  Qed.
End ScopeExec.

(* ---- BREAK / CONTINUE written in the INCREMENT slot of a FOR belong to that FOR (before the repair of exec_for they did not:
   exec_for ran the increment AFTER its own handling of break_flag and re-entered the loop head with the flag raised, the FOR ended
   with the flag still up and the ENCLOSING loop took it - the sources below logged `0`, `99`).  exec_for now consumes the flag
   right after the increment. ---- *)
Definition src_for_inc_break : list ch := zs "FOR(INT I=0;I<5;BREAK){ PRINT(I) }".
Definition src_for_inc_break_nested : list ch := zs "INT X=0 WHILE(X<3){ FOR(INT I=0;I<5;BREAK){ PRINT(I) } X++ PRINT(X) } PRINT(99)".
Definition src_for_inc_continue_nested : list ch := zs "INT X=0 WHILE(X<2){ X++ FOR(INT I=0;I<2;I++ CONTINUE){ PRINT(I) } PRINT(X) } PRINT(99)".

(* the FOR statement itself ends NORMALLY after one pass: nothing is raised behind it ... *)
Lemma for_increment_break_stays :
  match lex_script src_for_inc_break with
  | Ok ([_; SFor init cnd inc body line], ls) =>
      inc = [SCore (TLineNo 0); SBreak] /\
      exists c', exec_stmt ML (funs_of (sl_funcs ls)) (sem ML (funs_of (sl_funcs ls)) 2)
                   (For (prog_of init) (oexpr_of cnd) (prog_of inc) (prog_of body) line) (cfg_after_lex ls) = Fin (Normal, c')
                 /\ logs_str (s_logs (world c')) = zs "[PRINT](0) 0"
  | _ => False
  end.
Proof. vm_compute. split; [reflexivity|]. eexists. split; reflexivity. Qed.
(* ... and inside a WHILE the WHILE goes on: every pass of the outer loop runs the FOR (one pass: 0), then X++ PRINT(X) *)
Lemma for_increment_break_outer_goes_on :
  match compile_script src_for_inc_break_nested with
  | Ok (_, log) => log = zs "[PRINT](0) 0" ++ [10] ++ zs "[PRINT](0) 1" ++ [10] ++ zs "[PRINT](0) 0" ++ [10] ++ zs "[PRINT](0) 2" ++ [10]
                         ++ zs "[PRINT](0) 0" ++ [10] ++ zs "[PRINT](0) 3" ++ [10] ++ zs "[PRINT](0) 99"
  | _ => False
  end.
Proof. vm_compute. reflexivity. Qed.
(* CONTINUE in the increment: the FOR runs all its passes (0 1), the statements of the outer body behind it are not skipped *)
Lemma for_increment_continue_outer_goes_on :
  match compile_script src_for_inc_continue_nested with
  | Ok (_, log) => log = zs "[PRINT](0) 0" ++ [10] ++ zs "[PRINT](0) 1" ++ [10] ++ zs "[PRINT](0) 1" ++ [10]
                         ++ zs "[PRINT](0) 0" ++ [10] ++ zs "[PRINT](0) 1" ++ [10] ++ zs "[PRINT](0) 2" ++ [10] ++ zs "[PRINT](0) 99"
  | _ => False
  end.
Proof. vm_compute. reflexivity. Qed.
