(* C08 - what the output can depend on. Lemmas behind props/C08.v:
   1. table lookups do not depend on the order in which the rows were inserted (pairwise distinct names);
   2. the one place where the code ITERATES over a HashMap (mml_def.rs init_reserved_words numbers the keys of the
      system-function map along its iteration order) cannot reach the output, because only `contains_key` is asked;
   3. the random numbers are the orbit of the seed under xorshift: the seed is only ever advanced by a draw.
   Fresh processes, hash seeding, the clock and the command-line tool are runtime facts; see props/C08.v. *)
From Coq Require Import ZArith List Bool Lia Permutation.
From Sakura.Model Require Import Base LexCore F32 Event Reserve.
From Sakura.Gen Require Import Consts SysFuncRows.
Import ListNotations.
Open Scope Z_scope.

(* ---- name comparison ---- *)
Lemma list_eqb_refl a : list_eqb a a = true.
Proof. induction a as [|x a IH]; cbn [list_eqb]; [reflexivity|]. rewrite Z.eqb_refl, IH. reflexivity. Qed.

Lemma list_eqb_true a : forall b, list_eqb a b = true -> a = b.
Proof.
  induction a as [|x a IH]; intros [|y b] H; cbn [list_eqb] in H; try discriminate; [reflexivity|].
  apply andb_true_iff in H. destruct H as [H1 H2]. apply Z.eqb_eq in H1. apply IH in H2. subst. reflexivity.
Qed.

Lemma list_eqb_false a b : a <> b -> list_eqb a b = false.
Proof. intros H. destruct (list_eqb a b) eqn:E; [|reflexivity]. apply list_eqb_true in E. contradiction. Qed.

(* ---- 1. sysfunc_lookup (HashMap built by inserting the rows in order, then `get`) ---- *)
Section Lookup.
Context {V : Type}.
(* the same function as LexCore.sysfunc_lookup, for any value type (so the statements also cover other tables) *)
Fixpoint lookup_acc (name : list Z) (rows : list (list Z * V)) (acc : option V) : option V :=
  match rows with
  | [] => acc
  | (n, v) :: r => lookup_acc name r (if list_eqb n name then Some v else acc)
  end.

Lemma lookup_acc_absent name rows : forall acc, ~ In name (map fst rows) -> lookup_acc name rows acc = acc.
Proof.
  induction rows as [|[n v] r IH]; intros acc H; cbn [lookup_acc]; [reflexivity|].
  cbn [map fst In] in H. rewrite IH by tauto. rewrite list_eqb_false by tauto. reflexivity.
Qed.

Lemma lookup_acc_present name v rows : forall acc,
  NoDup (map fst rows) -> In (name, v) rows -> lookup_acc name rows acc = Some v.
Proof.
  induction rows as [|[n w] r IH]; intros acc Hnd Hin; [destruct Hin|].
  cbn [map fst] in Hnd. inversion Hnd as [|? ? Hnot Hnd']; subst. cbn [lookup_acc]. destruct Hin as [E|Hin].
  - inversion E; subst. rewrite list_eqb_refl. apply lookup_acc_absent. exact Hnot.
  - apply IH; assumption.
Qed.

Lemma in_names_in_rows name (rows : list (list Z * V)) : In name (map fst rows) -> exists v, In (name, v) rows.
Proof. intros H. apply in_map_iff in H. destruct H as [[n v] [E H]]. cbn [fst] in E. subst. exists v. exact H. Qed.

(* the accumulator only matters when the name is absent *)
Lemma lookup_acc_split name rows : forall acc,
  lookup_acc name rows acc = match lookup_acc name rows None with Some v => Some v | None => acc end.
Proof.
  induction rows as [|[n v] r IH]; intros acc; cbn [lookup_acc]; [reflexivity|].
  destruct (list_eqb n name); [|apply IH]. rewrite IH. destruct (lookup_acc name r None); reflexivity.
Qed.

(* an adjacent swap of two rows with different names changes nothing (the step of the induction on Permutation) *)
Lemma lookup_acc_swap name (a b : list Z * V) r acc : fst a <> fst b ->
  lookup_acc name (a :: b :: r) acc = lookup_acc name (b :: a :: r) acc.
Proof.
  destruct a as [na va], b as [nb vb]. cbn [fst lookup_acc]. intros Hne.
  destruct (list_eqb na name) eqn:Ea, (list_eqb nb name) eqn:Eb; try reflexivity.
  apply list_eqb_true in Ea. apply list_eqb_true in Eb. congruence.
Qed.

Theorem lookup_acc_perm (rows rows' : list (list Z * V)) : Permutation rows rows' -> NoDup (map fst rows) ->
  forall name acc, lookup_acc name rows acc = lookup_acc name rows' acc.
Proof.
  induction 1 as [|x l l' Hp IH|x y l|l l' l'' Hp1 IH1 Hp2 IH2]; intros Hnd name acc.
  - reflexivity.
  - destruct x as [n v]. cbn [lookup_acc]. cbn [map fst] in Hnd. inversion Hnd; subst. apply IH. assumption.
  - apply lookup_acc_swap. cbn [map] in Hnd. inversion Hnd as [|? ? Hnot _]; subst. cbn [In] in Hnot. intros E. apply Hnot. left. symmetry. exact E.
  - rewrite IH1 by assumption. apply IH2. apply (Permutation_NoDup (Permutation_map fst Hp1)). assumption.
Qed.
End Lookup.

Lemma sysfunc_lookup_is name rows acc : sysfunc_lookup name rows acc = lookup_acc name rows acc.
Proof. revert acc. induction rows as [|[n v] r IH]; intros acc; cbn [sysfunc_lookup lookup_acc]; [reflexivity|apply IH]. Qed.

Theorem sysfunc_lookup_perm : forall rows rows', NoDup (map fst rows) -> Permutation rows rows' ->
  forall name acc, sysfunc_lookup name rows acc = sysfunc_lookup name rows' acc.
Proof. intros rows rows' Hnd Hp name acc. rewrite !sysfunc_lookup_is. apply lookup_acc_perm; assumption. Qed.

(* what the lookup returns: the row of that name, or nothing *)
Theorem sysfunc_lookup_spec : forall rows name, NoDup (map fst rows) ->
  (forall v, In (name, v) rows -> sysfunc_lookup name rows None = Some v) /\
  (~ In name (map fst rows) -> sysfunc_lookup name rows None = None).
Proof.
  intros rows name Hnd. split.
  - intros v Hin. rewrite sysfunc_lookup_is. apply lookup_acc_present; assumption.
  - intros H. rewrite sysfunc_lookup_is. apply lookup_acc_absent. exact H.
Qed.

(* decidable distinctness, for the regenerated table *)
Fixpoint names_distinctb (l : list (list Z)) : bool :=
  match l with
  | [] => true
  | a :: r => negb (existsb (list_eqb a) r) && names_distinctb r
  end.
Lemma names_distinctb_NoDup l : names_distinctb l = true -> NoDup l.
Proof.
  induction l as [|a r IH]; intros H; [constructor|]. cbn [names_distinctb] in H. apply andb_true_iff in H. destruct H as [H1 H2].
  constructor; [|apply IH; exact H2]. intros Hin. apply negb_true_iff in H1.
  assert (existsb (list_eqb a) r = true); [|congruence]. apply existsb_exists. exists a. split; [exact Hin|apply list_eqb_refl].
Qed.

Lemma sysfunc_rows_distinct : NoDup (map fst sysfunc_rows).
Proof. apply names_distinctb_NoDup. vm_compute. reflexivity. Qed.

(* ---- 2. init_reserved_words: numbers 100+i (as u8) along the ITERATION order of the system-function map, then the
        fixed rows (IF, ELSE, ... a later insert overrides); the lexer only asks contains_key ---- *)
Fixpoint number_keys (i : Z) (keys : list (list Z)) : list (list Z * Z) :=
  match keys with
  | [] => []
  | k :: r => (k, as_u8 (100 + i)) :: number_keys (i + 1) r
  end.
Definition reserved_words (order : list (list Z)) (fixed : list (list Z * Z)) : list (list Z * Z) :=
  number_keys 0 order ++ fixed.
Definition contains_key (m : list (list Z * Z)) (name : list Z) : bool := existsb (fun kv => list_eqb (fst kv) name) m.
Definition get_key (m : list (list Z * Z)) (name : list Z) : option Z := lookup_acc name m None.

Lemma contains_number_keys name keys : forall i,
  contains_key (number_keys i keys) name = existsb (fun k => list_eqb k name) keys.
Proof. induction keys as [|k r IH]; intros i; cbn [number_keys contains_key existsb fst]; [reflexivity|]. f_equal. apply IH. Qed.

Lemma existsb_perm {A} (f : A -> bool) l l' : Permutation l l' -> existsb f l = existsb f l'.
Proof.
  induction 1 as [|x l l' _ IH|x y l|l l' l'' _ IH1 _ IH2]; cbn [existsb].
  - reflexivity.
  - rewrite IH. reflexivity.
  - destruct (f x), (f y); reflexivity.
  - congruence.
Qed.

Theorem reserved_contains_perm : forall order order' fixed name, Permutation order order' ->
  contains_key (reserved_words order fixed) name = contains_key (reserved_words order' fixed) name.
Proof.
  intros order order' fixed name Hp. unfold reserved_words, contains_key. rewrite !existsb_app. f_equal.
  change (contains_key (number_keys 0 order) name = contains_key (number_keys 0 order') name).
  rewrite !contains_number_keys. apply existsb_perm. exact Hp.
Qed.

(* and it is exactly: a system-function name or a fixed word *)
Theorem reserved_contains_spec : forall order fixed name,
  contains_key (reserved_words order fixed) name = existsb (fun k => list_eqb k name) order || contains_key fixed name.
Proof. intros. unfold reserved_words, contains_key. rewrite existsb_app. f_equal. apply contains_number_keys. Qed.

(* ---- 3. the random numbers: the seed moves only by draws, each draw is one xorshift step ---- *)
Definition on_orbit (seed0 : Z) (s : rstate) : Prop := exists k : nat, rs_seed s = Nat.iter k rand_next seed0.

Lemma orbit_with_k seed0 s k : on_orbit seed0 s -> on_orbit seed0 (with_k s k).
Proof. exact (fun H => H). Qed.
Lemma orbit_with_length seed0 s x : on_orbit seed0 s -> on_orbit seed0 (with_length s x).
Proof. exact (fun H => H). Qed.
Lemma orbit_with_rand seed0 w s x : on_orbit seed0 s -> on_orbit seed0 (with_rand w s x).
Proof. destruct w; exact (fun H => H). Qed.

Lemma orbit_draw seed0 s v w x s' : draw s v w = (x, s') -> on_orbit seed0 s -> on_orbit seed0 s'.
Proof.
  unfold draw, calc_rand_value. intros E [k Hk]. destruct (w >? 0).
  - destruct (w <=? 0); inversion E; subst.
    + exists k. exact Hk.
    + exists (S k). cbn [with_seed rs_seed Nat.iter]. rewrite Hk. reflexivity.
  - inversion E; subst. exists k. exact Hk.
Qed.

(* a draw with a positive width consumes exactly one number; otherwise none *)
Lemma draw_seed s v w : rs_seed (snd (draw s v w)) = if w >? 0 then rand_next (rs_seed s) else rs_seed s.
Proof.
  unfold draw, calc_rand_value. destruct (w >? 0) eqn:E; [|reflexivity].
  assert (w <=? 0 = false) as ->; [apply Z.leb_gt; apply Z.gtb_lt in E; lia|]. reflexivity.
Qed.

Ltac split_pairs :=
  repeat match goal with
         | |- context [match ?x with (_, _) => _ end] => destruct x eqn:?
         | |- context [if ?c then _ else _] => destruct c
         end.
Ltac split_hyps :=
  repeat match goal with
         | H : context [if ?c then _ else _] |- _ => destruct c
         | H : context [match ?x with (_, _) => _ end] |- _ => destruct x eqn:?
         end.
Ltac orbit_back :=
  repeat first
    [ assumption
    | apply orbit_with_k
    | match goal with
      | H : draw ?a _ _ = (_, ?b) |- on_orbit _ ?b => apply (orbit_draw _ _ _ _ _ _ H)
      | H : (_, _) = (_, _) |- _ => inversion H; subst; clear H
      end ].

Lemma orbit_exec_note seed0 s pc : on_orbit seed0 s -> on_orbit seed0 (exec_note s pc).
Proof. intros H. unfold exec_note. split_pairs; split_hyps; orbit_back. Qed.

Lemma orbit_exec_note_n seed0 s key : on_orbit seed0 s -> on_orbit seed0 (exec_note_n s key).
Proof. intros H. unfold exec_note_n. split_pairs; split_hyps; orbit_back. Qed.

Lemma orbit_exec_cmd seed0 s c : on_orbit seed0 s -> on_orbit seed0 (exec_cmd s c).
Proof.
  intros H. destruct c; cbn [exec_cmd];
    try (apply orbit_with_k; exact H); try (apply orbit_with_rand; exact H);
    try (apply orbit_with_length; apply orbit_with_k; exact H);
    try (apply orbit_exec_note; exact H); try (apply orbit_exec_note_n; exact H);
    destruct w; first [apply orbit_with_k; exact H | apply orbit_with_length; apply orbit_with_k; exact H].
Qed.

Theorem seed_orbit : forall cs s, exists k : nat, rs_seed (exec_cmds s cs) = Nat.iter k rand_next (rs_seed s).
Proof.
  intros cs s. change (on_orbit (rs_seed s) (exec_cmds s cs)).
  assert (on_orbit (rs_seed s) s) as H by (exists O; reflexivity). revert H. generalize (rs_seed s) as seed0.
  intros seed0. revert s. unfold exec_cmds. induction cs as [|c cs IH]; intros s H; cbn [fold_left]; [exact H|].
  apply IH. apply orbit_exec_cmd. exact H.
Qed.

(* the i-th number drawn from a seed is the (i+1)-fold iterate: a function of the seed alone *)
Lemma iter_shift {A} (f : A -> A) n x : Nat.iter n f (f x) = f (Nat.iter n f x).
Proof. induction n as [|n IH]; [reflexivity|]. change (f (Nat.iter n f (f x)) = f (f (Nat.iter n f x))). rewrite IH. reflexivity. Qed.

Lemma rand_seq_nth : forall n seed i, (i < n)%nat -> nth i (rand_seq seed n) 0 = Nat.iter (S i) rand_next seed.
Proof.
  induction n as [|n IH]; intros seed i Hi; [lia|]. cbn [rand_seq]. destruct i as [|i]; [reflexivity|].
  cbn [nth]. rewrite IH by lia. exact (iter_shift rand_next (S i) seed).
Qed.
