(* Rounding error of the binary32 operations of Floats.SpecFloat (no library of lemmas comes with it):
   binary_round_aux returns a mantissa within half a unit of the exact quotient n / d at the exponent
   max ex (fexp (digits + ex)).  Integer statements only; the rational-valued reading is in F32ErrP.v. *)
From Coq Require Import ZArith Lia Bool.
From Sakura.Model Require Import F32.
Open Scope Z_scope.

Local Notation fexp32 := (fexp 24 128).

Lemma fexp32_eq e : fexp32 e = Z.max (e - 24) (-149).
Proof. reflexivity. Qed.

(* ---- digits ---- *)
Lemma digits2_size p : digits2_pos p = Pos.size p.
Proof. induction p as [p IH|p IH|]; cbn [digits2_pos Pos.size]; congruence. Qed.

Lemma Zdigits2_bounds m : 0 < m -> 2 ^ (Zdigits2 m - 1) <= m < 2 ^ Zdigits2 m.
Proof.
  intros Hm. destruct m as [|p|p]; try lia. cbn [Zdigits2]. rewrite digits2_size.
  pose proof (Pos.size_gt p) as Hgt. pose proof (Pos.size_le p) as Hle.
  assert (Hgt' : Z.pos p < 2 ^ Z.pos (Pos.size p)).
  { rewrite <- Pos2Z.inj_pow. apply Pos2Z.pos_lt_pos. exact Hgt. }
  assert (Hle' : 2 ^ Z.pos (Pos.size p) <= 2 * Z.pos p).
  { rewrite <- Pos2Z.inj_pow. change (2 * Z.pos p) with (Z.pos p~0). apply Pos2Z.pos_le_pos. exact Hle. }
  split; [|exact Hgt'].
  replace (Z.pos (Pos.size p)) with (Z.pos (Pos.size p) - 1 + 1) in Hle' by lia.
  rewrite Z.pow_add_r in Hle' by lia. change (2 ^ 1) with 2 in Hle'. lia.
Qed.

Lemma Zdigits2_nonneg m : 0 <= m -> 0 <= Zdigits2 m.
Proof. destruct m; cbn [Zdigits2]; lia. Qed.

(* m < 2^b gives digits <= b *)
Lemma Zdigits2_le m b : 0 <= m -> 0 <= b -> m < 2 ^ b -> Zdigits2 m <= b.
Proof.
  intros Hm Hb Hlt. destruct (Z.eq_dec m 0) as [->|Hne]; [cbn [Zdigits2]; lia|].
  destruct (Zdigits2_bounds m ltac:(lia)) as [Hlo _].
  destruct (Z_le_gt_dec (Zdigits2 m) b) as [|Hgt]; [assumption|exfalso].
  assert (2 ^ b <= 2 ^ (Zdigits2 m - 1)) by (apply Z.pow_le_mono_r; lia). lia.
Qed.

Lemma Zdigits2_pow2 b : 0 <= b -> Zdigits2 (2 ^ b) = b + 1.
Proof.
  intros Hb. assert (Hp : 0 < 2 ^ b) by (apply Z.pow_pos_nonneg; lia).
  destruct (Zdigits2_bounds (2 ^ b) Hp) as [Hlo Hhi].
  assert (Zdigits2 (2 ^ b) <= b + 1).
  { apply Zdigits2_le; try lia. apply Z.pow_lt_mono_r; lia. }
  assert (b < Zdigits2 (2 ^ b)).
  { apply (Z.pow_lt_mono_r_iff 2); try lia. pose proof (Zdigits2_nonneg (2 ^ b)). lia. }
  lia.
Qed.

(* ---- the shift record: (m, r, s) describes n / T: quotient, half bit, sticky bit ---- *)
Definition rec_ok (n T : Z) (mrs : shr_record) : Prop :=
  shr_m mrs = n / T /\ shr_r mrs = (T <=? 2 * (n mod T)) /\
  shr_s mrs = negb (2 * (n mod T) - (if shr_r mrs then T else 0) =? 0).

Definition loc_of (n d : Z) : location :=
  if n mod d =? 0 then loc_Exact else loc_Inexact (2 * (n mod d) ?= d).

Lemma rec_ok_init n d : 0 < d -> rec_ok n d (shr_record_of_loc (n / d) (loc_of n d)).
Proof.
  intros Hd. pose proof (Z.mod_pos_bound n d Hd) as Hr. unfold loc_of, rec_ok.
  destruct (Z.eqb_spec (n mod d) 0) as [E|E].
  - cbn [shr_record_of_loc shr_m shr_r shr_s]. rewrite E. split; [reflexivity|]. split; [|reflexivity].
    symmetry. apply Z.leb_gt. lia.
  - destruct (Z.compare_spec (2 * (n mod d)) d) as [C|C|C]; cbn [shr_record_of_loc shr_m shr_r shr_s];
      (split; [reflexivity|]); split.
    + symmetry. apply Z.leb_le. lia.
    + symmetry. apply negb_false_iff. apply Z.eqb_eq. lia.
    + symmetry. apply Z.leb_gt. lia.
    + symmetry. apply negb_true_iff. apply Z.eqb_neq. lia.
    + symmetry. apply Z.leb_le. lia.
    + symmetry. apply negb_true_iff. apply Z.eqb_neq. lia.
Qed.

Lemma rec_ok_step n T mrs : 0 <= n -> 0 < T -> rec_ok n T mrs -> rec_ok n (T * 2) (shr_1 mrs).
Proof.
  intros Hn HT [Hm [Hr Hs]]. destruct mrs as [m r s]. cbn [shr_m shr_r shr_s] in Hm, Hr, Hs.
  pose proof (Z.mod_pos_bound n T HT) as Hrem. pose proof (Z.div_pos n T Hn HT) as Hq.
  pose proof (Z.div_mod n T ltac:(lia)) as Hdm.
  assert (Hdiv : n / (T * 2) = (n / T) / 2) by (rewrite Z.div_div by lia; reflexivity).
  assert (Hmod : n mod (T * 2) = n mod T + T * ((n / T) mod 2)) by (apply Z.rem_mul_r; lia).
  rewrite <- Hm in Hdiv, Hmod.
  assert (Hrs : (r || s)%bool = negb (n mod T =? 0)).
  { rewrite Hs, Hr. destruct (Z.leb_spec T (2 * (n mod T))), (Z.eqb_spec (n mod T) 0); cbn [orb negb]; try lia; try reflexivity;
      try (apply negb_true_iff; apply Z.eqb_neq; lia). }
  unfold rec_ok.
  destruct m as [|p|p]; [| |lia].
  - cbn [shr_1 shr_m shr_r shr_s]. rewrite Hdiv, Hmod, Hrs. change (0 / 2) with 0. change (0 mod 2) with 0.
    rewrite Z.mul_0_r, Z.add_0_r. (split; [reflexivity|]); split.
    + symmetry. apply Z.leb_gt. lia.
    + f_equal. destruct (Z.eqb_spec (n mod T) 0), (Z.eqb_spec (2 * (n mod T) - 0) 0); try reflexivity; lia.
  - assert (Hp2 : Z.pos p = 2 * (Z.pos p / 2) + Z.pos p mod 2) by (apply Z.div_mod; lia).
    destruct p as [p'|p'|]; cbn [shr_1 shr_m shr_r shr_s]; rewrite Hdiv, Hmod, Hrs.
    + assert (E1 : Z.pos p'~1 / 2 = Z.pos p') by (rewrite Pos2Z.inj_xI; symmetry; apply (Z.div_unique _ 2 _ 1); lia).
      assert (E2 : Z.pos p'~1 mod 2 = 1) by (rewrite Pos2Z.inj_xI; symmetry; apply (Z.mod_unique _ 2 (Z.pos p') 1); lia).
      rewrite E1, E2. (split; [reflexivity|]); split.
      * symmetry. apply Z.leb_le. lia.
      * f_equal. destruct (Z.eqb_spec (n mod T) 0), (Z.eqb_spec (2 * (n mod T + T * 1) - T * 2) 0); try reflexivity; lia.
    + assert (E1 : Z.pos p'~0 / 2 = Z.pos p') by (rewrite Pos2Z.inj_xO; symmetry; apply (Z.div_unique _ 2 _ 0); lia).
      assert (E2 : Z.pos p'~0 mod 2 = 0) by (rewrite Pos2Z.inj_xO; symmetry; apply (Z.mod_unique _ 2 (Z.pos p') 0); lia).
      rewrite E1, E2. (split; [reflexivity|]); split.
      * symmetry. apply Z.leb_gt. lia.
      * f_equal. destruct (Z.eqb_spec (n mod T) 0), (Z.eqb_spec (2 * (n mod T + T * 0) - 0) 0); try reflexivity; lia.
    + change (1 / 2) with 0. change (1 mod 2) with 1. (split; [reflexivity|]); split.
      * symmetry. apply Z.leb_le. lia.
      * f_equal. destruct (Z.eqb_spec (n mod T) 0), (Z.eqb_spec (2 * (n mod T + T * 1) - T * 2) 0); try reflexivity; lia.
Qed.

Lemma pow2_xI p : 2 ^ Z.pos p~1 = 2 * 2 ^ Z.pos p * 2 ^ Z.pos p.
Proof.
  rewrite (Pos2Z.inj_xI p). replace (2 * Z.pos p + 1) with (Z.pos p + Z.pos p + 1) by lia.
  rewrite Z.pow_add_r by lia. rewrite Z.pow_add_r by lia. change (2 ^ 1) with 2. ring.
Qed.
Lemma pow2_xO p : 2 ^ Z.pos p~0 = 2 ^ Z.pos p * 2 ^ Z.pos p.
Proof.
  rewrite (Pos2Z.inj_xO p). replace (2 * Z.pos p) with (Z.pos p + Z.pos p) by lia.
  rewrite Z.pow_add_r by lia. ring.
Qed.

Lemma rec_ok_iter n : 0 <= n -> forall p T mrs, 0 < T -> rec_ok n T mrs ->
  rec_ok n (T * 2 ^ Z.pos p) (iter_pos shr_1 p mrs).
Proof.
  intros Hn. induction p as [p IH|p IH|]; intros T mrs HT H; cbn [iter_pos].
  - assert (HT2 : 0 < T * 2) by lia.
    pose proof (rec_ok_step n T mrs Hn HT H) as H1.
    assert (Hp : 0 < 2 ^ Z.pos p) by (apply Z.pow_pos_nonneg; lia).
    pose proof (IH (T * 2) _ HT2 H1) as H2.
    pose proof (IH (T * 2 * 2 ^ Z.pos p) _ ltac:(nia) H2) as H3.
    replace (T * 2 ^ Z.pos p~1) with (T * 2 * 2 ^ Z.pos p * 2 ^ Z.pos p); [exact H3|].
    rewrite pow2_xI. ring.
  - assert (Hp : 0 < 2 ^ Z.pos p) by (apply Z.pow_pos_nonneg; lia).
    pose proof (IH T _ HT H) as H2.
    pose proof (IH (T * 2 ^ Z.pos p) _ ltac:(nia) H2) as H3.
    replace (T * 2 ^ Z.pos p~0) with (T * 2 ^ Z.pos p * 2 ^ Z.pos p); [exact H3|].
    rewrite pow2_xO. ring.
  - change (2 ^ 1) with 2. apply rec_ok_step; assumption.
Qed.

Lemma shr_ok n T mrs e k : 0 <= n -> 0 < T -> rec_ok n T mrs ->
  snd (shr mrs e k) = e + Z.max 0 k /\ rec_ok n (T * 2 ^ Z.max 0 k) (fst (shr mrs e k)).
Proof.
  intros Hn HT H. destruct k as [|p|p]; cbn [shr fst snd].
  - rewrite Z.max_id. change (2 ^ 0) with 1. rewrite Z.mul_1_r, Z.add_0_r. split; [reflexivity|assumption].
  - rewrite Z.max_r by lia. split; [reflexivity|]. apply rec_ok_iter; assumption.
  - rewrite Z.max_l by lia. change (2 ^ 0) with 1. rewrite Z.mul_1_r, Z.add_0_r. split; [reflexivity|assumption].
Qed.

(* round to nearest even on the record: within half a unit of n / T *)
Lemma rne_ok n T mrs : 0 <= n -> 0 < T -> rec_ok n T mrs ->
  n / T <= round_nearest_even (shr_m mrs) (loc_of_shr_record mrs) <= n / T + 1 /\
  2 * Z.abs (round_nearest_even (shr_m mrs) (loc_of_shr_record mrs) * T - n) <= T.
Proof.
  intros Hn HT [Hm [Hr Hs]]. destruct mrs as [m r s]. cbn [shr_m shr_r shr_s] in *.
  pose proof (Z.mod_pos_bound n T HT) as Hrem. pose proof (Z.div_mod n T ltac:(lia)) as Hdm.
  rewrite <- Hm in *. 
  destruct r, s; cbn [loc_of_shr_record round_nearest_even];
    symmetry in Hr; [apply Z.leb_le in Hr | apply Z.leb_le in Hr | apply Z.leb_gt in Hr | apply Z.leb_gt in Hr];
    symmetry in Hs; [apply negb_true_iff in Hs; apply Z.eqb_neq in Hs | apply negb_false_iff in Hs; apply Z.eqb_eq in Hs
                    | apply negb_true_iff in Hs; apply Z.eqb_neq in Hs | apply negb_false_iff in Hs; apply Z.eqb_eq in Hs].
  - split; [lia|]. nia.
  - destruct (Z.even m); (split; [lia|]); nia.
  - split; [lia|]. nia.
  - split; [lia|]. nia.
Qed.

(* the result of binary_round_aux, given the rounded mantissa m1 (<= 2^24) at exponent e1 *)
Definition pack (s : bool) (m1 e1 : Z) : spec_float :=
  match m1 with
  | Z0 => S754_zero s
  | Zpos m => if m1 <? 2 ^ 24 then (if e1 <=? 104 then S754_finite s m e1 else S754_infinity s)
              else (if e1 + 1 <=? 104 then S754_finite s 8388608 (e1 + 1) else S754_infinity s)
  | Zneg _ => S754_nan
  end.

Lemma fexp32_ge e : -149 <= fexp32 e.
Proof. rewrite fexp32_eq. lia. Qed.

Theorem bra_spec s n d ex : 0 <= n -> 0 < d ->
  exists m1, 0 <= m1 <= 2 ^ 24 /\
    2 * Z.abs (m1 * (d * 2 ^ (Z.max ex (fexp32 (Zdigits2 (n / d) + ex)) - ex)) - n)
      <= d * 2 ^ (Z.max ex (fexp32 (Zdigits2 (n / d) + ex)) - ex) /\
    binary_round_aux 24 128 s (n / d) ex (loc_of n d) = pack s m1 (Z.max ex (fexp32 (Zdigits2 (n / d) + ex))).
Proof.
  intros Hn Hd. set (mx := n / d). set (dg := Zdigits2 mx). set (k := fexp32 (dg + ex) - ex).
  assert (Hmx : 0 <= mx) by (apply Z.div_pos; lia).
  assert (Hdg : 0 <= dg) by (apply Zdigits2_nonneg; assumption).
  assert (He1 : Z.max ex (fexp32 (dg + ex)) = ex + Z.max 0 k) by (unfold k; lia).
  rewrite He1. replace (ex + Z.max 0 k - ex) with (Z.max 0 k) by lia.
  set (K := Z.max 0 k). assert (HK : 0 <= K) by (unfold K; lia).
  assert (HpK : 0 < 2 ^ K) by (apply Z.pow_pos_nonneg; lia).
  pose proof (rec_ok_init n d Hd) as H0. fold mx in H0.
  destruct (shr_ok n d _ ex k Hn Hd H0) as [Hse Hsr]. fold K in Hse, Hsr.
  unfold binary_round_aux. unfold shr_fexp at 1. fold dg. fold k.
  destruct (shr (shr_record_of_loc mx (loc_of n d)) ex k) as [mrs' e'] eqn:Eshr. cbn [fst snd] in Hse, Hsr. subst e'.
  assert (HT : 0 < d * 2 ^ K) by nia.
  destruct (rne_ok n (d * 2 ^ K) mrs' Hn HT Hsr) as [Hb Herr].
  set (m1 := round_nearest_even (shr_m mrs') (loc_of_shr_record mrs')) in *.
  (* the shifted mantissa is below 2^24 *)
  assert (Hm' : n / (d * 2 ^ K) < 2 ^ 24).
  { rewrite <- Z.div_div by lia. fold mx. apply Z.div_lt_upper_bound; [lia|].
    destruct (Z.eq_dec mx 0) as [E0|E0]; [rewrite E0; nia|].
    destruct (Zdigits2_bounds mx ltac:(lia)) as [_ Hhi]. fold dg in Hhi.
    assert (dg <= K + 24) by (unfold K, k; rewrite fexp32_eq; lia).
    assert (2 ^ dg <= 2 ^ (K + 24)) by (apply Z.pow_le_mono_r; lia).
    rewrite Z.pow_add_r in * by lia. lia. }
  assert (Hq : 0 <= n / (d * 2 ^ K)) by (apply Z.div_pos; lia).
  exists m1. split; [lia|]. split; [exact Herr|].
  assert (Hemin : -149 <= ex + K).
  { unfold K, k. pose proof (fexp32_ge (dg + ex)). lia. }
  unfold shr_fexp. cbn [shr_record_of_loc].
  destruct (Z.eq_dec m1 (2 ^ 24)) as [E24|N24].
  - rewrite E24. rewrite (Zdigits2_pow2 24) by lia.
    replace (fexp32 (24 + 1 + (ex + K)) - (ex + K)) with 1 by (rewrite fexp32_eq; lia).
    cbn [shr iter_pos]. change (2 ^ 24) with 16777216. cbn [shr_1 shr_m]. unfold pack.
    change (16777216 <? 2 ^ 24) with false. cbv iota. change (128 - 24) with 104. reflexivity.
  - assert (Hlt : m1 < 2 ^ 24) by lia.
    assert (Hd1 : Zdigits2 m1 <= 24) by (apply Zdigits2_le; lia).
    assert (Hsh : fexp32 (Zdigits2 m1 + (ex + K)) - (ex + K) <= 0) by (rewrite fexp32_eq; lia).
    destruct (fexp32 (Zdigits2 m1 + (ex + K)) - (ex + K)) as [|p|p] eqn:Ek; try lia; cbn [shr shr_m]; unfold pack.
    + destruct m1 as [|pm|pm]; try lia; [reflexivity|].
      apply Z.ltb_lt in Hlt. rewrite Hlt. change (128 - 24) with 104. reflexivity.
    + destruct m1 as [|pm|pm]; try lia; [reflexivity|].
      apply Z.ltb_lt in Hlt. rewrite Hlt. change (128 - 24) with 104. reflexivity.
Qed.

Lemma Zdigits2_unique m a : 0 < m -> 2 ^ (a - 1) <= m < 2 ^ a -> Zdigits2 m = a.
Proof.
  intros Hm [Hlo Hhi]. assert (Ha : 0 <= a).
  { destruct (Z_lt_le_dec a 0) as [Hneg|]; [|assumption]. rewrite (Z.pow_neg_r 2 a Hneg) in Hhi. lia. }
  pose proof (Zdigits2_le m a ltac:(lia) Ha Hhi) as H1.
  destruct (Zdigits2_bounds m Hm) as [_ Hhi'].
  assert (a - 1 < Zdigits2 m).
  { destruct (Z.eq_dec a 0) as [->|]; [pose proof (Zdigits2_nonneg m); lia|].
    apply (Z.pow_lt_mono_r_iff 2); try lia. pose proof (Zdigits2_nonneg m). lia. }
  lia.
Qed.

Lemma Zdigits2_shift m d : 0 < m -> 0 <= d -> Zdigits2 (m * 2 ^ d) = Zdigits2 m + d.
Proof.
  intros Hm Hd. assert (Hp : 0 < 2 ^ d) by (apply Z.pow_pos_nonneg; lia).
  destruct (Zdigits2_bounds m Hm) as [Hlo Hhi].
  assert (Hdg : 0 < Zdigits2 m) by (destruct m; cbn [Zdigits2]; lia).
  apply Zdigits2_unique; [nia|].
  replace (Zdigits2 m + d - 1) with (Zdigits2 m - 1 + d) by lia.
  rewrite !Z.pow_add_r by lia. nia.
Qed.

(* shl_align keeps the value and lowers the exponent to min ex ex' *)
Lemma shl_align_spec mx ex ex' :
  let '(mz, ez) := shl_align mx ex ex' in
  ez = Z.min ex ex' /\ Z.pos mz = Z.pos mx * 2 ^ (ex - ez).
Proof.
  unfold shl_align. destruct (ex' - ex) as [|p|p] eqn:E.
  - split; [lia|]. replace (ex - ex) with 0 by lia. change (2 ^ 0) with 1. lia.
  - split; [lia|]. replace (ex - ex) with 0 by lia. change (2 ^ 0) with 1. lia.
  - split; [lia|]. rewrite shift_pos_correct. replace (ex - ex') with (Z.pos p) by lia.
    change (2 ^ Z.pos p) with (Z.pow_pos 2 p). lia.
Qed.

(* ---- division: the quotient and its location ---- *)
Lemma new_location_ok d r : 0 < d -> 0 <= r < d ->
  new_location d r = if r =? 0 then loc_Exact else loc_Inexact (2 * r ?= d).
Proof.
  intros Hd Hr. unfold new_location, new_location_even, new_location_odd.
  assert (Ezb : Zeq_bool r 0 = (r =? 0)).
  { unfold Zeq_bool, Z.eqb. destruct r; reflexivity. }
  destruct (Z.even d) eqn:Ev; rewrite Ezb; destruct (r =? 0) eqn:E0; try reflexivity.
  f_equal. assert (Hodd : Z.odd d = true) by (rewrite <- Z.negb_even, Ev; reflexivity).
  apply Z.odd_spec in Hodd. destruct Hodd as [c Hc].
  destruct (Z.compare_spec (2 * r + 1) d) as [C|C|C]; destruct (Z.compare_spec (2 * r) d) as [C'|C'|C']; try reflexivity; lia.
Qed.

Lemma div_core_spec m1 e1 m2 e2 :
  SFdiv_core_binary 24 128 (Z.pos m1) e1 (Z.pos m2) e2 =
  (Z.pos m1 * 2 ^ (e1 - e2 - Z.min (fexp32 (Zdigits2 (Z.pos m1) + e1 - (Zdigits2 (Z.pos m2) + e2))) (e1 - e2)) / Z.pos m2,
   Z.min (fexp32 (Zdigits2 (Z.pos m1) + e1 - (Zdigits2 (Z.pos m2) + e2))) (e1 - e2),
   loc_of (Z.pos m1 * 2 ^ (e1 - e2 - Z.min (fexp32 (Zdigits2 (Z.pos m1) + e1 - (Zdigits2 (Z.pos m2) + e2))) (e1 - e2)))
          (Z.pos m2)).
Proof.
  unfold SFdiv_core_binary.
  set (e' := Z.min (fexp32 (Zdigits2 (Z.pos m1) + e1 - (Zdigits2 (Z.pos m2) + e2))) (e1 - e2)).
  set (s := e1 - e2 - e'). assert (Hs : 0 <= s) by (unfold s, e'; lia).
  assert (Hm' : match s with Z.pos _ => Z.shiftl (Z.pos m1) s | 0 => Z.pos m1 | Z.neg _ => 0 end = Z.pos m1 * 2 ^ s).
  { destruct s as [|p|p] eqn:Es; [change (2 ^ 0) with 1; lia | apply Z.shiftl_mul_pow2; lia | lia]. }
  rewrite Hm'. set (n := Z.pos m1 * 2 ^ s).
  destruct (Z.div_eucl n (Z.pos m2)) as [q r] eqn:E.
  assert (Hq : q = n / Z.pos m2) by (unfold Z.div; rewrite E; reflexivity).
  assert (Hr : r = n mod Z.pos m2) by (unfold Z.modulo; rewrite E; reflexivity).
  rewrite new_location_ok; [|lia|rewrite Hr; apply Z.mod_pos_bound; lia].
  unfold loc_of. rewrite <- Hr, <- Hq. reflexivity.
Qed.
