(* C08 - the message language in the script-layer pipeline (model/Script.v: lex_s, exec_s, compile_script_lang): as in
   proofs/LangP.v, two runs that differ in the language flag and in the wording of the log read the same tokens, leave the
   same scopes and functions, make the same events and the same bytes.

   `SLOOPG` is the inner loop of `slex_f (S f)` re-stated at top level: the text between the two markers below is a verbatim
   copy of the body of the inner `fix loop` of Script.slex_f, with `loop` renamed to SLOOPG and the recursive sub-lexing
   `slex_f f` abstracted as the section variable `sublex` (regenerate with tools/regen_sloopg.py); `slex_f_unfold` proves by
   conversion that slex_f (S f) IS this loop, so a change of the model that is not mirrored here breaks that proof. *)
From Coq Require Import String Ascii.
From Sakura.Model Require Import Base Cursor Cursor2 Length Event Writer Song Token LoopMachine LexCore RunCore Compile Msg Script.
From Sakura.Model Require Expr.
From Sakura.Gen Require Import Consts SysFuncRows Messages VarRows.
From Sakura.Proofs Require Import LayoutP LangP.
From Coq Require Import Lia.
Open Scope list_scope.
Open Scope Z_scope.

Section SLoopCopy.
Variable sublex : slex -> list ch -> Z -> res slex_out.
Fixpoint SLOOPG (n : nat) (ls : slex) (s : list ch) (ln : Z) (harmony : bool) (acc : list stok) {struct n} : res slex_out :=
(* ---- BEGIN copy of the inner loop of slex_f ---- *)
       match n with
       | O => OutOfFuel
       | S n' =>
         match s with
         | [] => Ok (acc, ls)
         | c0 :: r =>
           let c := zen2han c0 in
           let tb := sl_timebase ls in
           let push (x : res (Token.tok * list ch * Z)) : res slex_out :=
             do y <- x; let '(t, s', ln') := y in SLOOPG n' ls s' ln' harmony (acc ++ [SCore t]) in
           (* readers that may answer with no token (reservation forms the core model reads: `l.Random(..)` ...) *)
           let pusho (x : res (option Token.tok * list ch * Z)) : res slex_out :=
             do y <- x; let '(ot, s', ln') := y in
             SLOOPG n' ls s' ln' harmony (match ot with Some t => acc ++ [SCore t] | None => acc end) in
           if (c =? 32) || (c =? 9) || (c =? 13) || (c =? 124) || (c =? 59) then SLOOPG n' ls r ln harmony acc
           else if c =? 10 then SLOOPG n' ls r (ln + 1) harmony (acc ++ [SCore (TLineNo (ln + 1))])
           else if (c =? 99) || (c =? 100) || (c =? 101) || (c =? 102) || (c =? 103) || (c =? 97) || (c =? 98) then
             push (Ok (read_note c r ln))
           else if c =? 110 then push (read_note_n tb r ln)
           else if c =? 114 then push (Ok (read_rest r ln))
           else if c =? 108 then pusho (read_length tb r ln)
           else if c =? 111 then pusho (read_octave tb r ln)
           else if ((c =? 113) || (c =? 118)) && negb (prefixb (zs "Add") r || ((c =? 113) && prefixb (zs "2Add") r)) then
             (if c =? 113 then pusho (read_qlen tb r ln) else pusho (read_velocity tb r ln))
           else if c =? 116 then pusho (read_timing tb r ln)
           else if (c =? 112) || (c =? 121) then Unsupported U_SCMD
           else if is_upper c || (c =? 95) || (c =? 35) then
             let s := c :: r in
             if (c =? 35) && (prefixb [35; 35] s || prefixb [35; 32] s || prefixb [35; 45] s) then
               let '(_, s1, ln1) := get_token_ch c_NL s ln in SLOOPG n' ls s1 ln1 harmony acc
             else if negb (c =? 35) && (prefixb (zs "End") s || prefixb (zs "END") s) then Ok (acc, ls)
             else
               (* read_upper_command *)
               let '(word, s1) := get_word s in
               if list_eqb word (zs "System") || list_eqb word (zs "SYSTEM") || (list_eqb word (zs "PlayFrom") && eq_char s1 46)
               then Unsupported U_SCMD
               else
               let lineno := ln in
               match sysfunc_lookup word sysfunc_rows None with
               | Some (ttype, (argt, _)) =>
                   if list_eqb ttype (zs "Print") then
                     let '(s2, ln2) := skip_space s1 ln in
                     let s3 := if eq_char s2 61 then tl s2 else s2 in
                     do ra <- read_args_tokens_s ls s3 ln2;
                     let '(args, s4, ln4, ls') := ra in
                     SLOOPG n' ls' s4 ln4 harmony (acc ++ [SPrint args lineno])
                   else if list_eqb ttype (zs "Break") then SLOOPG n' ls s1 ln harmony (acc ++ [SBreak])
                   else if list_eqb ttype (zs "Continue") then SLOOPG n' ls s1 ln harmony (acc ++ [SContinue])
                   else if list_eqb ttype (zs "TrackSync") then SLOOPG n' ls s1 ln harmony (acc ++ [SCore TTrackSync])
                   else if list_eqb ttype (zs "Return") then
                     (* RETURN without a value (no parentheses, or empty ones) has no children *)
                     let '(s2, ln2) := skip_space s1 ln in
                     if eq_char s2 40 then
                       do ra <- read_args_tokens_s ls s2 ln2;
                       let '(args, s4, ln4, ls') := ra in
                       do e <- return_value_of args;
                       SLOOPG n' ls' s4 ln4 harmony (acc ++ [SReturn e])
                     else SLOOPG n' ls s2 ln2 harmony (acc ++ [SReturn None])
                   else if list_eqb ttype (zs "DefInt") || list_eqb ttype (zs "DefStr") then
                     (* read_def_var *)
                     let is_int := list_eqb ttype (zs "DefInt") in
                     let '(s2, ln2) := skip_space s1 ln in
                     let '(name, s3) := get_word s2 in
                     match name with
                     | [] => Unsupported U_SYNTAX
                     | _ =>
                       if is_reserved name then Unsupported U_SYNTAX
                       else
                         let '(s4, ln4) := skip_space s3 ln2 in
                         do iv <- (if eq_char s4 61 then read_calc_tokens ls (tl s4) ln4 else Ok (None, s4, ln4));
                         let '(init, s5, ln5) := iv in
                         let ls' := sl_insert ls name (VV (if is_int then Expr.SInt 0 else Expr.SStr [])) in
                         SLOOPG n' ls' s5 ln5 harmony (acc ++ [SDefVar is_int name init])
                     end
                   else if list_eqb ttype (zs "If") then
                     (* read_if *)
                     let '(s2, ln2) := skip_space s1 ln in
                     if negb (eq_char s2 40) then Unsupported U_SYNTAX else
                     let '(cond_s, s3, ln3) := LexCore.get_token_nest s2 ln2 40 41 in
                     do cl <- lex_calc ls cond_s;
                     do cond <- cond_of cl;
                     let '(s4, ln4) := skip_space_ret s3 ln3 in
                     if negb (eq_char s4 123) then Unsupported U_SYNTAX else
                     let '(then_s, s5, ln5) := LexCore.get_token_nest s4 ln4 123 125 in
                     do th <- sublex ls then_s ln4;          (* the block starts on the line of its '{' *)
                     let '(then_tok, ls1) := th in
                     let '(s6, ln6) := skip_space_ret s5 ln5 in
                     if prefixb (zs "ELSE") s6 || prefixb (zs "Else") s6 then
                       let '(s7, ln7) := skip_space_ret (skipn 4 s6) ln6 in
                       if negb (eq_char s7 123) then Unsupported U_SYNTAX else
                       let '(else_s, s8, ln8) := LexCore.get_token_nest s7 ln7 123 125 in
                       do el <- sublex ls1 else_s ln7;       (* ... the ELSE block on the line of its '{' too *)
                       let '(else_tok, ls2) := el in
                       SLOOPG n' ls2 s8 ln8 harmony (acc ++ [SIf cond then_tok else_tok lineno])
                     else SLOOPG n' ls1 s6 ln6 harmony (acc ++ [SIf cond then_tok [] lineno])
                   else if list_eqb ttype (zs "While") then
                     (* read_while: the condition is lexed with the line of the word WHILE, the body with the line of its '{' *)
                     let '(s2, ln2) := skip_space s1 ln in
                     if negb (eq_char s2 40) then Unsupported U_SYNTAX else
                     let '(cond_s, s3, ln3) := LexCore.get_token_nest s2 ln2 40 41 in
                     do cl <- lex_calc ls cond_s;
                     do cond <- cond_of cl;
                     let '(s4, ln4) := skip_space_ret s3 ln3 in
                     let '(body_s, s5, ln5) := LexCore.get_token_nest s4 ln4 123 125 in
                     do bd <- sublex ls body_s ln4;
                     let '(body_tok, ls1) := bd in
                     SLOOPG n' ls1 s5 ln5 harmony (acc ++ [SWhile cond body_tok lineno])
                   else if list_eqb ttype (zs "For") then
                     (* read_for *)
                     let '(s2, ln2) := skip_space s1 ln in
                     if negb (eq_char s2 40) then Unsupported U_SYNTAX else
                     let '(init_raw, s3, ln3) := get_token_ch 59 (tl s2) ln2 in
                     let '(cond_s, s4, ln4) := get_token_ch 59 s3 ln3 in
                     let '(inc_s, s5, ln5) := get_token_close s4 ln4 0 in     (* up to the ')' that closes the header *)
                     let '(s6, ln6) := skip_space_ret s5 ln5 in
                     if negb (eq_char s6 123) then Unsupported U_SYNTAX else
                     let '(body_s, s7, ln7) := LexCore.get_token_nest s6 ln6 123 125 in
                     let init_t := trim init_raw in
                     let init_s := match init_t with
                                   | [] => init_t
                                   | _ => if starts_int init_t then init_t else zs "Int " ++ init_t
                                   end in
                     do it <- sublex ls init_s lineno;
                     let '(init_tok, ls1) := it in
                     do cl <- lex_calc ls1 cond_s;
                     do cond <- cond_of cl;
                     do ic <- sublex ls1 inc_s lineno;
                     let '(inc_tok, ls2) := ic in
                     do bd <- sublex ls2 body_s ln6;     (* the body starts on the line of its '{' *)
                     let '(body_tok, ls3) := bd in
                     SLOOPG n' ls3 s7 ln7 harmony (acc ++ [SFor init_tok cond inc_tok body_tok lineno])
                   else if list_eqb ttype (zs "DefUserFunction") then
                     (* read_def_user_function *)
                     let '(s2, ln2) := skip_space s1 ln in
                     let '(fname, s3) := get_word s2 in
                     let '(s4, ln4) := skip_space s3 ln2 in
                     if negb (eq_char s4 40) then Unsupported U_SYNTAX else
                     let '(args_str, s5, ln5) := LexCore.get_token_nest s4 ln4 40 41 in
                     do params <- read_params (S (length args_str)) tb args_str;
                     (* variables_stack_push; the parameters become local names *)
                     let ls1 := fold_left (fun l p => sl_insert l (fst p) (VV (snd p))) params (sl_set_scopes ls ([] :: sl_scopes ls)) in
                     let '(s6, ln6) := skip_space_ret s5 ln5 in
                     if negb (eq_char s6 123) then Unsupported U_SYNTAX else
                     let '(body_s, s7, ln7) := LexCore.get_token_nest s6 ln6 123 125 in
                     do bd <- sublex ls1 body_s ln6;
                     let '(body_tok, ls2) := bd in
                     let ls3 := sl_set_scopes ls2 (tl (sl_scopes ls2)) in        (* variables_stack_pop *)
                     match sl_get ls3 fname with
                     | Some (VFunc id) =>
                         if Nat.ltb id (length (sl_funcs ls3)) then
                           SLOOPG n' (sl_set_funcs ls3 (set_nth_f id (mkF fname params body_tok) (sl_funcs ls3))) s7 ln7 harmony acc
                         else Panic 1101
                     | _ => Unsupported U_SYNTAX
                     end
                   else Unsupported U_SCMD
               | None =>
                   (* check_variables *)
                   if prefixb [43; 43] s1 then SLOOPG n' ls (skipn 2 s1) ln harmony (acc ++ [SValueInc word 1])
                   else if prefixb [45; 45] s1 then SLOOPG n' ls (skipn 2 s1) ln harmony (acc ++ [SValueInc word (-1)])
                   else
                     let '(s2, ln2) := skip_space s1 ln in
                     if eq_char s2 61 then
                       let '(s3, ln3) := skip_space (tl s2) ln2 in
                       if is_reserved word then Unsupported U_SYNTAX
                       else if eq_char s3 123 then
                         let '(body, s4, ln4) := LexCore.get_token_nest s3 ln3 123 125 in
                         SLOOPG n' (sl_insert ls word (VV (Expr.SStr body))) s4 ln4 harmony acc
                       else
                         do rv <- read_calc_tokens ls s3 ln3;
                         let '(e, s4, ln4) := rv in
                         SLOOPG n' (sl_insert ls word (VV Expr.SNone)) s4 ln4 harmony (acc ++ [SLetVar word e])
                     else if prefixb (zs ".s(") s2 then Unsupported U_SCMD
                     else
                       match sl_get ls word with
                       | Some (VV (Expr.SStr _)) => Unsupported U_SMACRO
                       | Some (VFunc id) =>
                           (* read_call_function *)
                           let '(s3, ln3) := skip_space s2 ln2 in
                           do ra <- read_args_tokens_s ls s3 ln3;
                           let '(args, s4, ln4, ls') := ra in
                           SLOOPG n' ls' s4 ln4 harmony (acc ++ [SCall id args])
                       | Some _ => SLOOPG n' ls s2 ln2 harmony acc          (* Empty token "Could not execute" *)
                       | None => SLOOPG n' (read_error_cmd_s ls s2 ln word) s2 ln2 harmony acc   (* reported on the line of the word *)
                       end
               end
           else if (c =? 113) || (c =? 118) then Unsupported U_SCMD      (* vAdd / qAdd / q2Add *)
           else if c =? 64 then Unsupported U_SCMD
           else if c =? 62 then SLOOPG n' ls r ln harmony (acc ++ [SCore (TOctaveRel 1)])
           else if c =? 60 then SLOOPG n' ls r ln harmony (acc ++ [SCore (TOctaveRel (-1))])
           else if c =? 41 then SLOOPG n' ls r ln harmony (acc ++ [SCore (TVelocityRel 1)])
           else if c =? 40 then SLOOPG n' ls r ln harmony (acc ++ [SCore (TVelocityRel (-1))])
           else if c =? 47 then
             let s := c :: r in
             if prefixb [47; 47; 47] s then
               let '(_, s1, ln1) := get_token_ch c_NL s ln in SLOOPG n' ls s1 ln1 harmony (acc ++ [SCore TComment])
             else if prefixb [47; 47] s then
               let '(_, s1, ln1) := get_token_ch c_NL s ln in SLOOPG n' ls s1 ln1 harmony acc
             else if prefixb [47; 42; 42] s then
               let '(_, s1, ln1) := get_token_s [42; 47] s ln in SLOOPG n' ls s1 ln1 harmony (acc ++ [SCore TComment])
             else if prefixb [47; 42] s then
               let '(_, s1, ln1) := get_token_s [42; 47] s ln in SLOOPG n' ls s1 ln1 harmony acc
             else
               SLOOPG n' (lex_error_s ls r ln (zs "Could not parse flag '" ++ [c] ++ zs "'")) r ln harmony acc
           else if c =? 91 then push (read_loop tb r ln)
           else if c =? 58 then SLOOPG n' ls r ln harmony (acc ++ [SCore TLoopBreak])
           else if c =? 93 then SLOOPG n' ls r ln harmony (acc ++ [SCore TLoopEnd])
           else if c =? 39 then
             if harmony then
               let '(t, s1, ln1) := read_harmony_end r ln in SLOOPG n' ls s1 ln1 false (acc ++ [SCore t])
             else SLOOPG n' ls r ln true (acc ++ [SCore THarmonyBegin])
           else if (c =? 36) || (c =? 123) then Unsupported U_SCMD
           else if c =? 96 then SLOOPG n' ls r ln harmony (acc ++ [SCore (TOctaveOnce 1)])
           else if c =? 34 then SLOOPG n' ls r ln harmony (acc ++ [SCore (TOctaveOnce (-1))])
           else if c =? 63 then SLOOPG n' ls r ln harmony (acc ++ [SCore TPlayFromHere])
           else if c =? 38 then SLOOPG n' ls r ln harmony acc
           else SLOOPG n' (lex_error_s ls r ln [c]) r ln harmony acc
         end
       end
(* ---- END copy (the last `end` closes `match n`) ---- *)
       .
End SLoopCopy.

Lemma slex_f_unfold : forall f ls src ln,
  slex_f (S f) ls src ln = SLOOPG (slex_f f) (S (length src)) (lex_preprocess ls src ln) src ln false [SCore (TLineNo ln)].
Proof.
  intros. cbn [slex_f]. cbn [SLOOPG].
  Timeout 60 reflexivity.
Timeout 300 Qed.

(* ------------------------------------------------------------------------------------------ *)
(* 1. the lexer states of the script layer                                                      *)
(* ------------------------------------------------------------------------------------------ *)
Definition slR (a b : slex) : Prop :=
  sl_timebase a = sl_timebase b /\ sl_scopes a = sl_scopes b /\ sl_funcs a = sl_funcs b /\ logR (sl_logs a) (sl_logs b).
Definition soutR {X : Type} (x y : res (X * slex)) : Prop :=
  resR (fun a b => fst a = fst b /\ slR (snd a) (snd b)) x y.
Lemma slR_mk tb sc fn lg1 lg2 j1 j2 : logR lg1 lg2 -> slR (mkSL tb lg1 sc fn j1) (mkSL tb lg2 sc fn j2).
Proof. intros H. repeat split. exact H. Qed.

Ltac sl_split H :=
  lazymatch type of H with
  | slR ?a ?b =>
      let A := fresh "A" in let B := fresh "B" in let C := fresh "C" in let D := fresh "HL" in
      let tb1 := fresh "tb" in let lg1 := fresh "lg" in let sc1 := fresh "sc" in let fn1 := fresh "fn" in let j1 := fresh "ja" in
      let tb2 := fresh "tb" in let lg2 := fresh "lg" in let sc2 := fresh "sc" in let fn2 := fresh "fn" in let j2 := fresh "ja" in
      destruct a as [tb1 lg1 sc1 fn1 j1], b as [tb2 lg2 sc2 fn2 j2]; destruct H as (A & B & C & D);
      cbn [sl_timebase sl_scopes sl_funcs sl_logs] in A, B, C, D; subst
  end.
(* the setters applied: explicit records *)
Ltac sl_norm :=
  cbv beta iota delta [sl_timebase sl_logs sl_scopes sl_funcs sl_ja sl_set_scopes sl_set_funcs sl_insert sl_get].

(* the log writers as setters *)
Lemma sl_add_log_eq ls m :
  sl_add_log ls m = mkSL (sl_timebase ls) (log_push (sl_logs ls) m) (sl_scopes ls) (sl_funcs ls) (sl_ja ls).
Proof. unfold sl_add_log, log_push. destruct (SAKURA_MAX_LOGS <=? zlen (sl_logs ls)); [destruct ls|]; reflexivity. Qed.
(* lex_error on a log: at most LEX_MAX_ERROR entries, then one notice, then nothing *)
Definition lex_error_push (ja : bool) (lg : list (list Z)) (s : list Z) (ln : Z) (msg : list Z) : list (list Z) :=
  if zlen lg =? LEX_MAX_ERROR then log_push lg (zs "[ERROR](" ++ show_int ln ++ zs ") " ++ msg_TooManyErrorsInLexer ja)
  else if zlen lg <? LEX_MAX_ERROR then
    log_push lg (zs "[ERROR](" ++ show_int ln ++ zs ") " ++ msg_UnknownChar ja ++ zs ": """ ++ msg ++ zs """ "
                 ++ msg_Near ja ++ zs " """ ++ near_text s ++ zs """")
  else lg.
Lemma lex_error_s_eq ls s ln msg :
  lex_error_s ls s ln msg = mkSL (sl_timebase ls) (lex_error_push (sl_ja ls) (sl_logs ls) s ln msg) (sl_scopes ls) (sl_funcs ls) (sl_ja ls).
Proof.
  unfold lex_error_s, lex_error_push. rewrite !sl_add_log_eq.
  destruct (zlen (sl_logs ls) =? LEX_MAX_ERROR); [reflexivity|]. destruct (zlen (sl_logs ls) <? LEX_MAX_ERROR); [reflexivity|].
  destruct ls; reflexivity.
Qed.
Lemma lex_error_push_R j1 j2 a b s ln msg : logR a b -> logR (lex_error_push j1 a s ln msg) (lex_error_push j2 b s ln msg).
Proof.
  intros H. unfold lex_error_push. rewrite (logR_zlen _ _ H).
  destruct (zlen b =? LEX_MAX_ERROR); [apply log_push_R; [exact H|txt_solve]|].
  destruct (zlen b <? LEX_MAX_ERROR); [apply log_push_R; [exact H|txt_solve]|exact H].
Qed.
Ltac logR_solve ::=
  first [ assumption | apply logR_refl | apply log_push_R; [logR_solve | txt_solve] | apply lex_error_push_R; logR_solve ].
(* the writers of the script lexer, unfolded to setters (where their arguments are closed terms) *)
Ltac sl_unfold :=
  unfold read_warning_s, read_error_s, read_error_cmd_s, reserved_msg, read_calc_tokens, lex_calc;
  rewrite ?sl_add_log_eq, ?lex_error_s_eq.
Ltac slR_solve := first [ assumption | sl_unfold; sl_norm; apply slR_mk; logR_solve ].

(* ------------------------------------------------------------------------------------------ *)
(* 2. the readers of the script lexer                                                          *)
(* ------------------------------------------------------------------------------------------ *)
Lemma resR_eq {A} (x y : res A) : resR eq x y -> x = y.
Proof. destruct x, y; cbn [resR]; intros H; try contradiction; congruence. Qed.
Lemma resR_eq_refl {A} (x : res A) : resR eq x x.
Proof. destruct x; cbn [resR]; reflexivity || exact I. Qed.

Lemma read_args_loop_s_R : forall f l1 l2 s ln, slR l1 l2 -> read_args_loop_s f l1 s ln = read_args_loop_s f l2 s ln.
Proof.
  intros f l1 l2 s ln H. sl_split H. revert s ln.
  induction f as [|f IH]; intros s ln; [reflexivity|]. apply resR_eq. cbn [read_args_loop_s]. sl_unfold. sl_norm.
  repeat first [ sync_step | progress (cbv beta iota zeta delta [bind fst snd]; rewrite IH) ].
  all: apply resR_eq_refl.
Qed.
Lemma read_args_tokens_s_R l1 l2 s ln : slR l1 l2 -> soutR (read_args_tokens_s l1 s ln) (read_args_tokens_s l2 s ln).
Proof.
  intros H. unfold read_args_tokens_s, soutR.
  assert (E : forall f s ln, read_args_loop_s f l1 s ln = read_args_loop_s f l2 s ln) by (intros; apply read_args_loop_s_R, H).
  sl_split H. sl_unfold. sl_norm.
  repeat first [ sync_step | progress (cbv beta iota zeta delta [bind fst snd]; rewrite E) ].
  all: cbv beta iota zeta delta [bind fst snd]; cbn [resR]; first [ exact I | reflexivity | split; [reflexivity|slR_solve] ].
Qed.

(* a step of the script lexer proofs: case analysis on a shared scrutinee, then the writers as setters *)
Ltac sl_step := sync_step; sl_unfold; sl_norm.

(* an innermost case analysis anywhere in the goal (a state chosen by a `match`) *)
Ltac inner_case :=
  lazymatch goal with
  | |- ?G =>
      match G with
      | context [match ?c with _ => _ end] =>
          lazymatch c with context [match _ with _ => _ end] => fail | _ => idtac end;
          (tryif is_var c then destruct c else destruct c eqn:?)
      end
  end.

Lemma preprocess_f_R : forall f l1 l2 s ln, slR l1 l2 -> slR (preprocess_f f l1 s ln) (preprocess_f f l2 s ln).
Proof.
  induction f as [|f IH]; intros l1 l2 s ln H; [exact H|].
  cbn [preprocess_f]. sl_split H. sl_unfold. sl_norm.
  (* the result is a state, not an outcome: wrap it to use the steps *)
  match goal with |- slR ?A ?B => change (resR slR (Ok A) (Ok B)) end.
  repeat first [ sl_step | inner_case; cbv beta iota zeta delta [bind fst snd]; sl_unfold; sl_norm ].
  all: cbn [resR]; first [ apply IH; slR_solve | slR_solve ].
Qed.

Lemma fold_insert_eq (params : list (list Z * Expr.sval)) : forall ls,
  fold_left (fun l p => sl_insert l (fst p) (VV (snd p))) params ls
  = sl_set_scopes ls (fold_left (fun sc p => vars_insert (fst p) (VV (snd p)) sc) params (sl_scopes ls)).
Proof.
  induction params as [|p r IH]; intros ls; cbn [fold_left]; [destruct ls; reflexivity|]. rewrite IH. reflexivity.
Qed.

Section SLoopLang.
Variable sublex : slex -> list Z -> Z -> res slex_out.
Hypothesis sub_R : forall l1 l2 s ln, slR l1 l2 -> soutR (sublex l1 s ln) (sublex l2 s ln).

Ltac sl_pair :=
  cbv beta iota zeta delta [bind fst snd];
  lazymatch goal with
  | |- resR _ ?A ?B =>
      lazymatch A with
      | match _ with _ => _ end =>
          let x := hs A in let y := hs B in
          let P := fresh "P" in
          assert (P : soutR x y) by (first [apply sub_R | apply read_args_tokens_s_R]; slR_solve);
          destruct x as [[? ?]| | |], y as [[? ?]| | |]; cbn [soutR resR fst snd] in P; try contradiction;
          [ let E := fresh "E" in destruct P as [E P]; subst; sl_split P | subst | | subst ]
      end
  end.

Lemma SLOOPG_R : forall n l1 l2 s ln h acc, slR l1 l2 ->
  soutR (SLOOPG sublex n l1 s ln h acc) (SLOOPG sublex n l2 s ln h acc).
Proof.
  induction n as [|n IH]; intros l1 l2 s ln h acc H; [exact I|].
  cbn [SLOOPG]. unfold soutR in *. sl_split H. sl_unfold. sl_norm.
  repeat (first [sync_step | sl_pair]; rewrite ?fold_insert_eq; sl_unfold; sl_norm).
  all: cbv beta iota zeta delta [bind fst snd].
  all: lazymatch goal with
       | |- resR _ (Panic _) (Panic _) => reflexivity
       | |- resR _ OutOfFuel OutOfFuel => exact I
       | |- resR _ (Unsupported _) (Unsupported _) => reflexivity
       | |- resR _ (Ok _) (Ok _) => cbn [resR fst snd]; split; [reflexivity | slR_solve]
       | |- _ => apply IH; slR_solve
       end.
Qed.
End SLoopLang.

Theorem slex_f_R : forall f l1 l2 src ln, slR l1 l2 -> soutR (slex_f f l1 src ln) (slex_f f l2 src ln).
Proof.
  induction f as [|f IH]; intros l1 l2 src ln H; [exact I|].
  rewrite !slex_f_unfold. apply SLOOPG_R; [exact IH|]. unfold lex_preprocess. apply preprocess_f_R, H.
Qed.
Theorem lex_s_R l1 l2 src ln : slR l1 l2 -> soutR (lex_s l1 src ln) (lex_s l2 src ln).
Proof. unfold lex_s. apply slex_f_R. Qed.

(* ------------------------------------------------------------------------------------------ *)
(* 3. the states of the script runner                                                          *)
(* ------------------------------------------------------------------------------------------ *)
Definition stR (a b : sstate) : Prop :=
  sgR (ss_song a) (ss_song b) /\ ss_scopes a = ss_scopes b /\ ss_funcs a = ss_funcs b /\ ss_needs a = ss_needs b.
Definition voutR {X : Type} (x y : res (X * sstate)) : Prop :=
  resR (fun a b => fst a = fst b /\ stR (snd a) (snd b)) x y.
Lemma stR_mk a b c d e f g h i j k l m n o p q r s lg1 lg2 t u v w j1 j2 sc fn nd : logR lg1 lg2 ->
  stR (mkS (mkSong a b c d e f g h i j k l m n o p q r s lg1 t u v w j1) sc fn nd)
      (mkS (mkSong a b c d e f g h i j k l m n o p q r s lg2 t u v w j2) sc fn nd).
Proof. intros H. split; [apply sgR_mk, H|repeat split]. Qed.
Ltac st_split H :=
  lazymatch type of H with
  | stR ?a ?b =>
      let S := fresh "S" in let B := fresh "B" in let C := fresh "C" in let D := fresh "D" in
      let g1 := fresh "sg" in let sc1 := fresh "sc" in let fn1 := fresh "fn" in let nd1 := fresh "nd" in
      let g2 := fresh "sg" in let sc2 := fresh "sc" in let fn2 := fresh "fn" in let nd2 := fresh "nd" in
      destruct a as [g1 sc1 fn1 nd1], b as [g2 sc2 fn2 nd2]; destruct H as (S & B & C & D);
      cbn [ss_song ss_scopes ss_funcs ss_needs] in S, B, C, D; subst; sg_split S
  end.
Ltac st_norm :=
  cbv beta iota delta
      [ss_song ss_scopes ss_funcs ss_needs st_set_song st_set_scopes st_set_needs st_flag st_set_flag st_insert
       s_tracks s_cur s_timebase s_key_flag s_key_shift s_use_key_shift s_v_add s_q_add s_harmony_flag s_harmony_time
       s_harmony_events s_octave_once s_break_flag s_tempo s_timesig_frac s_timesig_deno s_measure_shift s_play_from s_lineno
       s_logs s_vars s_rhythm s_rand_seed s_device s_ja
       s_set_tracks s_set_cur s_set_timebase s_set_key_flag s_set_key_shift s_set_use_key_shift s_set_v_add s_set_q_add
       s_set_harmony_flag s_set_harmony_time s_set_harmony_events s_set_octave_once s_set_break_flag s_set_tempo
       s_set_timesig_frac s_set_timesig_deno s_set_measure_shift s_set_play_from s_set_lineno s_set_logs s_set_vars
       s_set_rhythm s_set_rand_seed s_set_device s_set_ja s_set_harmony s_set_time s_set_adds].
(* the log writers of the script runner as setters *)
Ltac st_unfold := unfold st_log, st_runtime_error, runtime_error, limit_exit; rewrite ?add_log_eq.
Ltac stR_solve := first [ assumption | st_unfold; st_norm; apply stR_mk; logR_solve ].
Ltac ss_leaf :=
  cbv beta iota zeta delta [bind fst snd];
  lazymatch goal with
  | |- resR _ (Panic _) (Panic _) => reflexivity
  | |- resR _ OutOfFuel OutOfFuel => exact I
  | |- resR _ (Unsupported _) (Unsupported _) => reflexivity
  | |- resR _ (Ok _) (Ok _) => cbn [resR voutR fst snd]; first [ stR_solve | split; [reflexivity | stR_solve] ]
  end.
(* the scrutinee is a call on the two states: `ss_solver` (set before each lemma) proves that the two calls are related *)
Ltac ss_solver := fail.
Ltac ss_pair :=
  cbv beta iota zeta delta [bind fst snd];
  lazymatch goal with
  | |- resR _ ?A ?B =>
      lazymatch A with
      | match _ with _ => _ end =>
          let x := hs A in let y := hs B in
          let P := fresh "P" in
          let T := type of x in
          lazymatch T with
          | res (_ * sstate)%type =>
              assert (P : voutR x y) by ss_solver;
              destruct x as [[? ?]| | |], y as [[? ?]| | |]; cbn [voutR resR fst snd] in P; try contradiction;
              [ let E := fresh "E" in destruct P as [E P]; subst; st_split P | subst | | subst ]
          | res sstate =>
              assert (P : resR stR x y) by ss_solver;
              destruct x as [?| | |], y as [?| | |]; cbn [resR] in P; try contradiction; [ st_split P | subst | | subst ]
          | res song =>
              assert (P : resR sgR x y) by ss_solver;
              destruct x as [?| | |], y as [?| | |]; cbn [resR] in P; try contradiction; [ sg_split P | subst | | subst ]
          end
      end
  end.
(* a related call by a hypothesis (an induction hypothesis, the nested exec()) *)
Ltac by_hyp := match goal with H : _ |- _ => apply H; first [ assumption | cbn [resR]; stR_solve ] end.
Ltac ss_step := first [ sync_step | sync_in_ok | ss_pair | inner_case; cbv beta iota zeta delta [bind fst snd] ]; st_unfold; st_norm.

Lemma value_inc_R a b name d : stR a b -> resR stR (value_inc a name d) (value_inc b name d).
Proof. intros H. unfold value_inc. st_split H. st_norm. repeat ss_step. all: ss_leaf. Qed.

Section EtokInd.
  Variable P : Expr.tok -> Prop.
  Hypothesis HInt : forall v, P (Expr.TConstInt v).
  Hypothesis HStr : forall s, P (Expr.TConstStr s).
  Hypothesis HVar : forall x, P (Expr.TGetVar x).
  Hypothesis HCalc : forall tag prio l r, P l -> P r -> P (Expr.TCalc tag prio l r).
  Hypothesis HCall : forall u name args, Forall P args -> P (Expr.TCall u name args).
  Hypothesis HInc : forall x d, P (Expr.TValueInc x d).
  Hypothesis HArr : forall items, Forall P items -> P (Expr.TMakeArray items).
  Fixpoint etok_induction (t : Expr.tok) : P t :=
    match t with
    | Expr.TConstInt v => HInt v
    | Expr.TConstStr s => HStr s
    | Expr.TGetVar x => HVar x
    | Expr.TCalc tag prio l r => HCalc tag prio l r (etok_induction l) (etok_induction r)
    | Expr.TCall u name args =>
        HCall u name args ((fix go (l : list Expr.tok) : Forall P l :=
                              match l with [] => Forall_nil P | x :: r => Forall_cons x (etok_induction x) (go r) end) args)
    | Expr.TValueInc x d => HInc x d
    | Expr.TMakeArray items =>
        HArr items ((fix go (l : list Expr.tok) : Forall P l :=
                       match l with [] => Forall_nil P | x :: r => Forall_cons x (etok_induction x) (go r) end) items)
    end.
End EtokInd.

Ltac ss_solver ::= by_hyp.
Lemma eval_list_R (f : etok -> sstate -> res (option sval * sstate)) dflt l :
  Forall (fun t => forall a b, stR a b -> voutR (f t a) (f t b)) l ->
  forall a b, stR a b -> voutR (eval_list f dflt l a) (eval_list f dflt l b).
Proof.
  induction 1 as [|t r Ht Hr IH]; intros a b H; cbn [eval_list]; [split; [reflexivity|exact H]|].
  unfold voutR in *. st_split H. repeat ss_step. all: ss_leaf.
Qed.

Section StepLangS.
  Variable ec : list stok -> res sstate -> res sstate.
  Hypothesis ec_R : forall toks r1 r2, resR stR r1 r2 -> resR stR (ec toks r1) (ec toks r2).

  Ltac by_ec := apply ec_R; cbn [resR]; stR_solve.

  Ltac ss_solver ::= by_ec.
  Lemma finish_call_R fd vs a b : stR a b -> voutR (finish_call ec fd vs a) (finish_call ec fd vs b).
  Proof. intros H. unfold finish_call, voutR. st_split H. st_unfold. st_norm. repeat ss_step. all: ss_leaf. Qed.

  Ltac ss_solver ::= first [ by_hyp | apply finish_call_R; stR_solve | apply value_inc_R; stR_solve
                           | apply eval_list_R; [assumption | stR_solve] ].
  Lemma eval_tok_R : forall t a b, stR a b -> voutR (eval_tok ec t a) (eval_tok ec t b).
  Proof.
    apply (etok_induction (fun t => forall a b, stR a b -> voutR (eval_tok ec t a) (eval_tok ec t b))).
    all: intros; match goal with H : stR _ _ |- _ => unfold voutR in *; cbn [eval_tok]; st_split H end; st_unfold; st_norm.
    all: repeat ss_step.
    all: first [ ss_leaf | apply finish_call_R; stR_solve ].
  Qed.

  Ltac ss_solver ::= first [ apply eval_tok_R; stR_solve | by_hyp ].
  Lemma exec_value_o_R e a b : stR a b -> voutR (exec_value_o ec e a) (exec_value_o ec e b).
  Proof. intros H. unfold exec_value_o, voutR. st_split H. st_unfold. st_norm. repeat ss_step. all: ss_leaf. Qed.
  Lemma eval_args_o_R l : forall a b, stR a b -> voutR (eval_args_o ec l a) (eval_args_o ec l b).
  Proof.
    induction l as [|x r IH]; intros a b H; cbn [eval_args_o]; [split; [reflexivity|exact H]|].
    unfold voutR in *. st_split H. repeat ss_step. all: ss_leaf.
  Qed.
  Ltac ss_solver ::= first [ apply eval_args_o_R; stR_solve | by_hyp ].
  Lemma exec_args_o_R l a b : stR a b -> voutR (exec_args_o ec l a) (exec_args_o ec l b).
  Proof. intros H. unfold exec_args_o, voutR. st_split H. st_unfold. st_norm. repeat ss_step. all: ss_leaf. Qed.

  Ltac ss_solver ::= first [ apply exec_value_o_R; stR_solve | by_ec | by_hyp ].
  Lemma while_loop_R cnd body ln : forall n cnt a b, stR a b ->
    resR stR (while_loop ec n cnd body ln cnt a) (while_loop ec n cnd body ln cnt b).
  Proof.
    induction n as [|n IH]; intros cnt a b H; [exact I|]. cbn [while_loop]. st_split H. st_unfold. st_norm.
    repeat ss_step. all: first [ ss_leaf | apply IH; stR_solve ].
  Qed.
  Lemma for_loop_R cnd inc body ln : forall n cnt a b, stR a b ->
    resR stR (for_loop ec n cnd inc body ln cnt a) (for_loop ec n cnd inc body ln cnt b).
  Proof.
    induction n as [|n IH]; intros cnt a b H; [exact I|]. cbn [for_loop]. st_split H. st_unfold. st_norm.
    repeat ss_step. all: first [ ss_leaf | apply IH; stR_solve ].
  Qed.

  Ltac ss_solver ::= first [ apply exec_value_o_R; stR_solve | apply exec_args_o_R; stR_solve | apply finish_call_R; stR_solve
                           | apply value_inc_R; stR_solve | by_ec
                           | apply step_song_R; [intros; reflexivity | sgR_solve] ].
  Lemma sstep_R t a b : stR a b -> resR stR (sstep ec t a) (sstep ec t b).
  Proof.
    intros H. destruct t; cbn [sstep]; st_split H; st_unfold; st_norm.
    all: repeat ss_step.
    all: first [ ss_leaf | by_ec | apply while_loop_R; stR_solve | apply for_loop_R; stR_solve | apply value_inc_R; stR_solve ].
  Qed.
End StepLangS.

(* ------------------------------------------------------------------------------------------ *)
(* 4. exec() of the script layer, the pipeline                                                  *)
(* ------------------------------------------------------------------------------------------ *)
Lemma halted_s_R r1 r2 : resR stR r1 r2 -> halted_s r1 = halted_s r2.
Proof.
  destruct r1 as [a| | |], r2 as [b| | |]; cbn [resR halted_s]; intros H; try contradiction; try reflexivity.
  st_split H. reflexivity.
Qed.
Theorem exec_s_R : forall d toks r1 r2, resR stR r1 r2 -> resR stR (exec_s d toks r1) (exec_s d toks r2).
Proof.
  induction d as [|d IH]; intros toks r1 r2 H; [exact I|]. cbn [exec_s].
  pose proof (run_R stok (res sstate) (step_stok (exec_s d)) halted_s count_of_s (resR stR)) as K.
  specialize (K (fun t x y Hxy => resR_bind stR stR x y _ _ Hxy (sstep_R (exec_s d) IH t)) halted_s_R
                (fun n x y _ => eq_refl) STEPS (map to_ltok_s toks) r1 r2 H).
  destruct (run stok (res sstate) _ halted_s count_of_s STEPS (map to_ltok_s toks) r1),
           (run stok (res sstate) _ halted_s count_of_s STEPS (map to_ltok_s toks) r2); cbn [optR] in K; try contradiction; [exact K|exact I].
Qed.

Lemma state_after_lex_R l1 l2 : slR l1 l2 -> stR (state_after_lex l1) (state_after_lex l2).
Proof.
  intros H. sl_split H. unfold state_after_lex. sl_norm. split; [|repeat split].
  cbn [ss_song]. apply song_after_lex_R. apply lsR_mk. exact HL.
Qed.
Theorem run_script_lang_R j1 j2 src : resR stR (run_script_lang j1 src) (run_script_lang j2 src).
Proof.
  unfold run_script_lang, lex_script_lang.
  pose proof (lex_s_R (mkSL 96 [] [global_scope] [] j1) (mkSL 96 [] [global_scope] [] j2) src 0 (slR_mk _ _ _ _ _ _ _ (logR_refl []))) as L.
  destruct (lex_s (mkSL 96 [] [global_scope] [] j1) src 0) as [[toks l1]| | |],
           (lex_s (mkSL 96 [] [global_scope] [] j2) src 0) as [[toks2 l2]| | |];
    cbn [soutR resR fst snd] in L; cbn [bind]; try contradiction; try exact L.
  destruct L as [<- L]. apply exec_s_R. cbn [resR]. apply state_after_lex_R, L.
Qed.
Theorem compile_script_lang_R j1 j2 src : resR (fun x y => fst x = fst y) (compile_script_lang j1 src) (compile_script_lang j2 src).
Proof.
  unfold compile_script_lang. pose proof (run_script_lang_R j1 j2 src) as R.
  destruct (run_script_lang j1 src) as [a| | |], (run_script_lang j2 src) as [b| | |]; cbn [resR] in R; cbn [bind];
    try contradiction; try exact R.
  destruct R as (R & _). destruct (writer_input_R _ _ R) as [-> ->].
  destruct (generate (s_timebase (ss_song b)) (tracks_for_writer (ss_song b))); cbn [bind resR fst]; reflexivity.
Qed.

(* ------------------------------------------------------------------------------------------ *)
(* 5. the statements of props/C08.v                                                             *)
(* ------------------------------------------------------------------------------------------ *)
Theorem language_script_noninterference : forall (j1 j2 : bool) (src : list Z),
  match compile_script_lang j1 src, compile_script_lang j2 src with
  | Ok (bytes1, _), Ok (bytes2, _) => bytes1 = bytes2
  | Panic p, Panic q => p = q
  | OutOfFuel, OutOfFuel => True
  | Unsupported u, Unsupported v => u = v
  | _, _ => False
  end.
Proof.
  intros j1 j2 src. pose proof (compile_script_lang_R j1 j2 src) as H.
  destruct (compile_script_lang j1 src) as [[b1 g1]| | |], (compile_script_lang j2 src) as [[b2 g2]| | |]; exact H.
Qed.
Theorem language_script_only_in_log : forall (j1 j2 : bool) (src : list Z),
  match run_script_lang j1 src, run_script_lang j2 src with
  | Ok st1, Ok st2 =>
      ss_scopes st1 = ss_scopes st2 /\ ss_funcs st1 = ss_funcs st2 /\ ss_needs st1 = ss_needs st2 /\
      s_set_ja (s_set_logs (ss_song st1) []) false = s_set_ja (s_set_logs (ss_song st2) []) false /\
      Forall2 txtR (s_logs (ss_song st1)) (s_logs (ss_song st2)) /\
      length (s_logs (ss_song st1)) = length (s_logs (ss_song st2))
  | Panic p, Panic q => p = q
  | OutOfFuel, OutOfFuel => True
  | Unsupported u, Unsupported v => u = v
  | _, _ => False
  end.
Proof.
  intros j1 j2 src. pose proof (run_script_lang_R j1 j2 src) as H.
  destruct (run_script_lang j1 src) as [a| | |], (run_script_lang j2 src) as [b| | |]; cbn [resR] in H; try exact H.
  destruct H as ([E L] & B & C & D). repeat split; try assumption. apply logR_length, L.
Qed.
