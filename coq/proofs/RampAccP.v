(* C16: accuracy of the f32 interpolation ((hi - lo) as f32 * (j as f32 / len as f32) + lo as f32) as isize
   against the straight line, from the rounding-error bounds of F32ErrP. *)
From Coq Require Import ZArith QArith Qabs Qpower Lia Lqa Bool.
From Sakura.Model Require Import Base F32.
From Sakura.Proofs Require Import F32RoundP F32ErrP.
Open Scope Q_scope.

Local Notation fexp32 := (fexp 24 128).

Ltac qzg := unfold Z.sub; repeat (first [rewrite inject_Z_mult | rewrite inject_Z_plus | rewrite inject_Z_opp]).

(* any length below 2^24: y - 1 - 3 * 2^(b-25) < v <= y + 3 * 2^(b-25), y the exact value on the line *)
Theorem ramp_accuracy_any (b lo hi j len : Z) :
  (0 <= b <= 23)%Z -> (0 <= lo < 2 ^ b)%Z -> (0 <= hi < 2 ^ b)%Z -> (0 <= j < len)%Z -> (len < 2 ^ 24)%Z ->
  ((ramp_value lo hi j len * len - (lo * len + (hi - lo) * j)) * 2 ^ 25 <= 3 * 2 ^ b * len)%Z /\
  ((lo * len + (hi - lo) * j - (ramp_value lo hi j len + 1) * len) * 2 ^ 25 < 3 * 2 ^ b * len)%Z /\
  (0 <= ramp_value lo hi j len)%Z.
Proof.
  intros [Hb Hb23] Hlo Hhi Hj Hlen.
  assert (Hpb : (0 < 2 ^ b)%Z) by (apply Z.pow_pos_nonneg; lia).
  assert (Hpb23 : (2 ^ b <= 2 ^ 23)%Z) by (apply Z.pow_le_mono_r; lia).
  change (2 ^ 23)%Z with 8388608%Z in Hpb23. change (2 ^ 24)%Z with 16777216%Z in Hlen.
  (* the four conversions are exact *)
  destruct (of_Z_exact j ltac:(change (2 ^ 24)%Z with 16777216%Z; nia)) as [FJ VJ].
  destruct (of_Z_exact len ltac:(change (2 ^ 24)%Z with 16777216%Z; nia)) as [FL VL].
  destruct (of_Z_exact (hi - lo) ltac:(change (2 ^ 24)%Z with 16777216%Z; lia)) as [FD VD].
  destruct (of_Z_exact lo ltac:(change (2 ^ 24)%Z with 16777216%Z; lia)) as [FLO VLO].
  unfold ramp_value, ramp_f32.
  set (fj := f32_of_Z j) in *. set (fl := f32_of_Z len) in *. set (fd := f32_of_Z (hi - lo)) in *. set (flo := f32_of_Z lo) in *.
  set (J := inject_Z j) in *. set (L := inject_Z len) in *. set (LO := inject_Z lo) in *.
  assert (VD' : SFv fd == inject_Z hi - LO) by (rewrite VD; unfold Z.sub; rewrite inject_Z_plus, inject_Z_opp; reflexivity).
  set (HI := inject_Z hi) in *.
  assert (HJ0 : 0 <= J) by (apply inject_Z_nonneg; lia).
  assert (HJL : J + 1 <= L) by (unfold J, L; change 1 with (inject_Z 1); rewrite <- inject_Z_plus, <- Zle_Qle; lia).
  assert (HLO0 : 0 <= LO) by (apply inject_Z_nonneg; lia).
  assert (HHI0 : 0 <= HI) by (apply inject_Z_nonneg; lia).
  pose proof (pow2_Z b Hb) as HPb.
  assert (HLO1 : LO + 1 <= pow2 b) by (rewrite HPb; unfold LO; change 1 with (inject_Z 1); rewrite <- inject_Z_plus, <- Zle_Qle; lia).
  assert (HHI1 : HI + 1 <= pow2 b) by (rewrite HPb; unfold HI; change 1 with (inject_Z 1); rewrite <- inject_Z_plus, <- Zle_Qle; lia).
  (* u = 2^(b-25): half a unit in the last place below 2^b *)
  set (u := pow2 (b - 25)).
  assert (Hu : pow2 b == u * (33554432 # 1)).
  { unfold u. replace b with ((b - 25) + 25)%Z at 1 by lia. rewrite pow2_add. reflexivity. }
  assert (Hu0 : 0 < u) by apply pow2_pos.
  assert (Hu1 : u <= 1 # 4).
  { assert (pow2 b <= 8388608 # 1) by (rewrite HPb; change (8388608 # 1) with (inject_Z 8388608); rewrite <- Zle_Qle; lia). lra. }
  (* q = j / len *)
  set (xq := J / L). assert (HL0 : 0 < L) by lra.
  assert (Hxq : xq * SFv fl == SFv fj) by (rewrite VJ, VL; unfold xq; field; lra).
  assert (Hxq' : xq * L == J) by (unfold xq; field; lra).
  assert (Hxq0 : 0 <= xq) by nra. assert (Hxq1 : xq < 1).
  { destruct (Qlt_le_dec xq 1) as [|Hge]; [assumption|exfalso]. assert (0 <= (xq - 1) * L) by nra. lra. }
  destruct (div_err fj fl xq 0 FJ FL ltac:(rewrite VJ; exact HJ0) ltac:(rewrite VL; exact HL0) Hxq
              ltac:(rewrite pow2_0; exact Hxq1) ltac:(rewrite fexp32_eq; lia)) as [FQ NQ].
  replace (fexp32 0 - 1)%Z with (-25)%Z in NQ by (rewrite fexp32_eq; lia).
  assert (E25 : pow2 (-25) == 1 # 33554432) by reflexivity. unfold near in NQ. rewrite E25 in NQ.
  set (q := f32_div fj fl) in *. set (Q := SFv q) in *.
  (* p = (hi - lo) * q *)
  set (Dq := HI - LO) in *.
  assert (HDb : - pow2 b < Dq < pow2 b) by (unfold Dq; lra).
  assert (HPb1 : 1 <= pow2 b) by (apply pow2_ge1; assumption).
  assert (HDQ : - pow2 b < Dq * Q < pow2 b).
  { assert (HQ : - (1 # 33554432) <= Q <= 1 + (1 # 33554432)) by lra.
    assert (- (HI * (1 # 33554432)) <= HI * Q) by nra. assert (- (LO * (1 # 33554432)) <= LO * Q) by nra.
    assert (HI * Q <= HI * (1 + (1 # 33554432))) by nra. assert (LO * Q <= LO * (1 + (1 # 33554432))) by nra.
    unfold Dq. split; lra. }
  destruct (mul_err fd q b 1 b FD FQ ltac:(rewrite VD'; exact HDb)
              ltac:(change (pow2 1) with (2 # 1); fold Q; lra) ltac:(lia)
              ltac:(rewrite VD'; fold Q; exact HDQ) ltac:(rewrite fexp32_eq; lia)) as [FP NP].
  replace (fexp32 b - 1)%Z with (b - 25)%Z in NP by (rewrite fexp32_eq; lia). fold u in NP.
  unfold near in NP. rewrite VD' in NP. fold Q in NP.
  set (p := f32_mul fd q) in *. set (P := SFv p) in *.
  (* the exact value and the distance of p + lo from it *)
  set (y := LO + Dq * xq).
  assert (Hy0 : 0 <= y) by (unfold y, Dq; nra).
  assert (Hy1 : y + 1 <= pow2 b) by (unfold y, Dq; nra).
  assert (HDerr : - u <= Dq * Q - Dq * xq <= u).
  { assert (- (1 # 33554432) <= Q - xq <= 1 # 33554432) by lra.
    assert (- pow2 b * (1 # 33554432) <= Dq * (Q - xq) <= pow2 b * (1 # 33554432)) by nra. lra. }
  assert (HPLO : - pow2 b < P + LO < pow2 b) by (unfold y in *; lra).
  destruct (add_err p flo (b + 1) b FP FLO ltac:(fold P; rewrite pow2_add; change (pow2 1) with (2 # 1); lra) ltac:(lia)
              ltac:(fold P; rewrite VLO; exact HPLO) ltac:(rewrite fexp32_eq; lia)) as [FS NS].
  replace (fexp32 b - 1)%Z with (b - 25)%Z in NS by (rewrite fexp32_eq; lia). fold u in NS.
  unfold near in NS. rewrite VLO in NS. fold P in NS.
  set (sf := f32_add p flo) in *. set (S := SFv sf) in *.
  assert (HSy : - (3 * u) <= S - y <= 3 * u) by (unfold y; lra).
  (* truncation *)
  assert (HS62 : - pow2 62 < S < pow2 62).
  { assert (pow2 b <= pow2 62) by (apply pow2_le; lia). lra. }
  destruct (to_Z_trunc sf FS HS62) as [Tpos Tneg]. fold S in Tpos, Tneg.
  set (V := inject_Z (f32_to_Z sf)) in *.
  assert (HyL : y * L == inject_Z (lo * len + (hi - lo) * j)).
  { unfold y, Dq. rewrite inject_Z_plus, !inject_Z_mult. unfold Z.sub. rewrite inject_Z_plus, inject_Z_opp.
    fold LO HI L J. rewrite <- Hxq'. ring. }
  set (Y := (lo * len + (hi - lo) * j)%Z) in *.
  assert (HY0 : 0 <= inject_Z Y) by (rewrite <- HyL; nra).
  assert (G : V * L <= inject_Z Y + 3 * u * L /\ inject_Z Y - 3 * u * L < (V + 1) * L /\ -1 < V).
  { destruct (Qlt_le_dec S 0) as [Sneg|Spos].
    - specialize (Tneg ltac:(lra)).
      assert (HV : V == 0).
      { assert (Hv1 : V < 1) by lra. assert (Hv2 : - 1 < V) by lra.
        unfold V in *. change 1 with (inject_Z 1) in Hv1. change (- 1) with (inject_Z (-1)) in Hv2.
        rewrite <- Zlt_Qlt in Hv1, Hv2. assert (E : f32_to_Z sf = 0%Z) by lia. rewrite E. reflexivity. }
      assert (y * L < 3 * u * L) by nra. rewrite HV. rewrite <- HyL. split; [nra|split; [nra|lra]].
    - specialize (Tpos Spos). rewrite <- HyL. split; [nra|split; [nra|lra]]. }
  destruct G as [G1 [G2 G3]].
  assert (E3 : inject_Z 3 * inject_Z (2 ^ b) == 3 * u * (33554432 # 1)) by (rewrite <- HPb, Hu; change (inject_Z 3) with 3; ring).
  split; [|split].
  - rewrite Zle_Qle. qzg. change (inject_Z (2 ^ 25)) with (33554432 # 1). fold V L. rewrite E3. fold Y.
    change (lo * len + (hi + - lo) * j)%Z with Y. lra.
  - rewrite Zlt_Qlt. qzg. change (inject_Z (2 ^ 25)) with (33554432 # 1). fold V L. rewrite E3.
    change (inject_Z 1) with 1. lra.
  - unfold V in G3. change (-1) with (inject_Z (-1)) in G3. rewrite <- Zlt_Qlt in G3. lia.
Qed.

(* lengths below 2^25 / (3 * 2^b): the value is the exact one rounded down, or one less when the exact value is an integer *)
Theorem ramp_accuracy (b lo hi j len : Z) :
  (0 <= b)%Z -> (0 <= lo < 2 ^ b)%Z -> (0 <= hi < 2 ^ b)%Z -> (0 <= j < len)%Z -> (3 * 2 ^ b * len < 2 ^ 25)%Z ->
  (lo * len + (hi - lo) * j - len <= ramp_value lo hi j len * len <= lo * len + (hi - lo) * j)%Z.
Proof.
  intros Hb Hlo Hhi Hj Hlen.
  assert (Hpb : (0 < 2 ^ b)%Z) by (apply Z.pow_pos_nonneg; lia).
  assert (Hb23 : (b <= 23)%Z).
  { assert (2 ^ b < 2 ^ 24)%Z by (change (2 ^ 24)%Z with 16777216%Z; change (2 ^ 25)%Z with 33554432%Z in Hlen; nia).
    assert (b < 24)%Z by (apply (Z.pow_lt_mono_r_iff 2); lia). lia. }
  assert (Hl24 : (len < 2 ^ 24)%Z) by (change (2 ^ 24)%Z with 16777216%Z; change (2 ^ 25)%Z with 33554432%Z in Hlen; nia).
  destruct (ramp_accuracy_any b lo hi j len ltac:(lia) Hlo Hhi Hj Hl24) as [H1 [H2 _]].
  change (2 ^ 25)%Z with 33554432%Z in *. lia.
Qed.

(* the clamp of the writers is the identity on these values: the emitted value is ramp_value itself *)
Theorem ramp_accuracy_clamp (b lo hi j len : Z) :
  (0 <= b)%Z -> (0 <= lo < 2 ^ b)%Z -> (0 <= hi < 2 ^ b)%Z -> (0 <= j < len)%Z -> (3 * 2 ^ b * len < 2 ^ 25)%Z ->
  value_range 0 (ramp_value lo hi j len) (2 ^ b - 1) = ramp_value lo hi j len /\
  (lo * len + (hi - lo) * j - len <= ramp_value lo hi j len * len <= lo * len + (hi - lo) * j)%Z.
Proof.
  intros Hb Hlo Hhi Hj Hlen. pose proof (ramp_accuracy b lo hi j len Hb Hlo Hhi Hj Hlen) as Hacc.
  split; [|exact Hacc].
  assert (Hpb : (0 < 2 ^ b)%Z) by (apply Z.pow_pos_nonneg; lia).
  assert (Hb23 : (b <= 23)%Z).
  { assert (2 ^ b < 2 ^ 24)%Z by (change (2 ^ 24)%Z with 16777216%Z; change (2 ^ 25)%Z with 33554432%Z in Hlen; nia).
    assert (b < 24)%Z by (apply (Z.pow_lt_mono_r_iff 2); lia). lia. }
  assert (Hl24 : (len < 2 ^ 24)%Z) by (change (2 ^ 24)%Z with 16777216%Z; change (2 ^ 25)%Z with 33554432%Z in Hlen; nia).
  destruct (ramp_accuracy_any b lo hi j len ltac:(lia) Hlo Hhi Hj Hl24) as [_ [_ H0]].
  set (v := ramp_value lo hi j len) in *.
  assert (Hv : (v <= 2 ^ b - 1)%Z) by nia.
  unfold value_range. destruct (Z.ltb_spec v 0) as [L|L]; [lia|]. destruct (Z.gtb_spec v (2 ^ b - 1)) as [G|G]; [lia|reflexivity].
Qed.
