(* C05 - the generic results of LoopParseP.v for the interpreter of the model (RunCore.exec_f over the loop machine):
   exec() on a token list whose loop brackets are balanced IS the structured meaning of the parsed program; the two shapes
   of the property on token lists; the simplest unbalanced lists.  Tokens of the same exec() level only: the token lists
   carried by Sub / tuplet tokens are leaves here (each is run by its own exec() call, to which the same theorems apply);
   macro calls and PLAY lex their text at run time and are leaves too. *)
From Coq Require Import String.
From Sakura.Model Require Import Base Cursor Length Event Song Token LoopMachine LexCore RunCore Compile.
From Sakura.Gen Require Import VarRows.
From Sakura.Spec Require Import LoopSpec.
From Sakura.Proofs Require Import LoopP BlockP LoopParseP.
From Coq Require Import Lia.
Open Scope list_scope.
Open Scope Z_scope.

(* the structured program of a token list, if its brackets are balanced *)
Definition parse_toks (toks : list tok) : option (prog tok) := parse_loops (map to_ltok toks).
Definition balanced_toks (toks : list tok) : bool := match parse_toks toks with Some _ => true | None => false end.

Notation SEM1 ec := (LoopSpec.sem tok (res song) (step_tok ec) halted (count1 count_of)).
Notation COST1 ec := (LoopSpec.cost tok (res song) (step_tok ec) halted (count1 count_of)).
Notation SEMc ec := (LoopSpec.sem tok (res song) (step_tok ec) halted count_of).
Notation COSTc ec := (LoopSpec.cost tok (res song) (step_tok ec) halted count_of).

(* every loop count written in the program is at least 1 *)
Definition counts_pos (p : prog tok) : Prop := counts (fun n => 1 <= n) p.
Lemma counts_pos_loops_pos p : counts_pos p -> loops_pos tok (res song) count_of p.
Proof.
  unfold counts_pos, loops_pos. apply (counts_impl tok). intros n Hn s. unfold count_of. lia.
Qed.

(* exec() = the structured meaning; a count below 1 runs once (count1) *)
Theorem exec_f_parsed d steps toks p r :
  parse_toks toks = Some p -> (COST1 (exec_f d steps) p r < steps)%nat ->
  exec_f (S d) steps toks r = SEM1 (exec_f d steps) p r.
Proof.
  intros H Hf. cbn [exec_f]. rewrite (run_parsed tok (res song) _ halted count_of (map to_ltok toks) p r steps H Hf). reflexivity.
Qed.
(* all counts positive: the meaning with the counts as written *)
Theorem exec_f_parsed_pos d steps toks p r :
  parse_toks toks = Some p -> counts_pos p -> (COSTc (exec_f d steps) p r < steps)%nat ->
  exec_f (S d) steps toks r = SEMc (exec_f d steps) p r.
Proof.
  intros H Hp Hf. cbn [exec_f].
  rewrite (run_parsed_pos tok (res song) _ halted count_of (map to_ltok toks) p r steps H (counts_pos_loops_pos p Hp) Hf). reflexivity.
Qed.
(* the same for what the lexer made of a source text *)
Corollary exec_lexed ls src ln toks ls' p d steps s :
  lex ls src ln = Ok (toks, ls') -> parse_toks toks = Some p -> counts_pos p ->
  (COSTc (exec_f d steps) p (Ok s) < steps)%nat ->
  exec_f (S d) steps toks (Ok s) = SEMc (exec_f d steps) p (Ok s).
Proof. intros _. apply exec_f_parsed_pos. Qed.

(* ---- the two shapes ---- *)
Lemma map_concat_repeat (body : list tok) k :
  map to_ltok (concat (repeat body k)) = concat (repeat (map to_ltok body) k).
Proof. induction k as [|k IH]; [reflexivity|]. cbn [repeat concat]. rewrite map_app, IH. reflexivity. Qed.
Lemma count1_pos n r : 1 <= n -> count1 count_of n r = Z.to_nat n.
Proof. intros H. unfold count1, count_of. lia. Qed.

(* `[n body]` runs like body written n times *)
Theorem exec_repeat_tokens d steps n body pb r :
  parse_toks body = Some pb -> 1 <= n ->
  (LoopSpec.cost_item tok (res song) (step_tok (exec_f d steps)) halted (count1 count_of) (Loop n pb None) r < steps)%nat ->
  exec_f (S d) steps (TLoopBegin n :: body ++ [TLoopEnd]) r = exec_f (S d) steps (concat (repeat body (Z.to_nat n))) r.
Proof.
  intros H Hn Hf. cbn [exec_f]. rewrite map_concat_repeat.
  change (map to_ltok (TLoopBegin n :: body ++ [TLoopEnd])) with (LBegin n :: map to_ltok (body ++ [TLoopEnd])).
  rewrite map_app. change (map to_ltok [TLoopEnd]) with [@LEnd tok].
  rewrite (repeat_tokens tok (res song) _ halted count_of n (map to_ltok body) pb r (Z.to_nat n) steps H (count1_pos n r Hn) Hf).
  reflexivity.
Qed.
(* `[n a : b]` runs like (a b) written n-1 times, then a *)
Theorem exec_break_tokens d steps n ta tb pa pb r :
  parse_toks ta = Some pa -> parse_toks tb = Some pb -> 1 <= n ->
  (LoopSpec.cost_item tok (res song) (step_tok (exec_f d steps)) halted (count1 count_of) (Loop n pa (Some pb)) r < steps)%nat ->
  exec_f (S d) steps (TLoopBegin n :: ta ++ [TLoopBreak] ++ tb ++ [TLoopEnd]) r
  = exec_f (S d) steps (concat (repeat (ta ++ tb) (Z.to_nat n - 1)) ++ ta) r.
Proof.
  intros Ha Hb Hn Hf. cbn [exec_f]. rewrite map_app, map_concat_repeat, map_app.
  change (map to_ltok (TLoopBegin n :: ta ++ [TLoopBreak] ++ tb ++ [TLoopEnd]))
    with (LBegin n :: map to_ltok (ta ++ [TLoopBreak] ++ tb ++ [TLoopEnd])).
  rewrite !map_app. change (map to_ltok [TLoopEnd]) with [@LEnd tok]. change (map to_ltok [TLoopBreak]) with [@LBreak tok].
  assert (Hk : count1 count_of n r = S (Z.to_nat n - 1)) by (rewrite count1_pos by exact Hn; lia).
  rewrite (break_tokens tok (res song) _ halted count_of n (map to_ltok ta) (map to_ltok tb) pa pb r (Z.to_nat n - 1) steps Ha Hb Hk Hf).
  reflexivity.
Qed.

(* ---- unbalanced lists ---- *)
Lemma parse_toks_sound toks p : parse_toks toks = Some p -> flatten p = map to_ltok toks.
Proof. apply parse_loops_sound. Qed.

(* a `]` or a `:` outside any loop is passed over *)
Theorem exec_lone_end d steps ta tb pa pb r :
  parse_toks ta = Some pa -> parse_toks tb = Some pb ->
  (COST1 (exec_f d steps) pa r + 1 + COST1 (exec_f d steps) pb (SEM1 (exec_f d steps) pa r) < steps)%nat ->
  exec_f (S d) steps (ta ++ TLoopEnd :: tb) r = exec_f (S d) steps (ta ++ tb) r.
Proof.
  intros Ha Hb Hf. cbn [exec_f]. rewrite !map_app. cbn [map to_ltok].
  rewrite <- (parse_toks_sound ta pa Ha), <- (parse_toks_sound tb pb Hb).
  rewrite (run_lone_end tok (res song) _ halted count_of pa pb r steps Hf).
  rewrite <- flatten_app.
  rewrite (run_flat_total tok (res song) _ halted count_of (papp pa pb) r steps) by (rewrite cost_papp; lia).
  rewrite sem_app. reflexivity.
Qed.
Theorem exec_lone_break d steps ta tb pa pb r :
  parse_toks ta = Some pa -> parse_toks tb = Some pb ->
  (COST1 (exec_f d steps) pa r + 1 + COST1 (exec_f d steps) pb (SEM1 (exec_f d steps) pa r) < steps)%nat ->
  exec_f (S d) steps (ta ++ TLoopBreak :: tb) r = exec_f (S d) steps (ta ++ tb) r.
Proof.
  intros Ha Hb Hf. cbn [exec_f]. rewrite !map_app. cbn [map to_ltok].
  rewrite <- (parse_toks_sound ta pa Ha), <- (parse_toks_sound tb pb Hb).
  rewrite (run_lone_break tok (res song) _ halted count_of pa pb r steps Hf).
  rewrite <- flatten_app.
  rewrite (run_flat_total tok (res song) _ halted count_of (papp pa pb) r steps) by (rewrite cost_papp; lia).
  rewrite sem_app. reflexivity.
Qed.
(* a `[n` that is never closed: what follows runs once, whatever n *)
Theorem exec_unclosed_begin d steps n ta pa r :
  parse_toks ta = Some pa -> (1 + COST1 (exec_f d steps) pa r < steps)%nat ->
  exec_f (S d) steps (TLoopBegin n :: ta) r = exec_f (S d) steps ta r.
Proof.
  intros Ha Hf. cbn [exec_f]. cbn [map to_ltok]. rewrite <- (parse_toks_sound ta pa Ha).
  rewrite (run_unclosed_begin tok (res song) _ halted count_of n pa r steps Hf).
  rewrite (run_flat_total tok (res song) _ halted count_of pa r steps) by lia. reflexivity.
Qed.

(* ---- a concrete lexed source: nested loops, a ':' at two levels ---- *)
Definition ex_src : list Z := zs "[2 c [3 d : e] : f] g".
Definition ex_toks : list tok :=
  match lex (mkLex 96 [] init_vars rhythm_rows false) ex_src 0 with Ok (toks, _) => toks | _ => [] end.
Definition ex_note (b : Z) : tok := TNote b 0 0 [] 0 (-1) ISIZE_MIN (-1) 0.
Definition ex_p : prog tok :=
  PCons (Leaf (TLineNo 0))
   (PCons (Loop 2 (PCons (Leaf (ex_note 0)) (PCons (Loop 3 (PCons (Leaf (ex_note 2)) PNil) (Some (PCons (Leaf (ex_note 4)) PNil))) PNil))
                  (Some (PCons (Leaf (ex_note 5)) PNil)))
     (PCons (Leaf (ex_note 7)) PNil)).
Example ex_parse : parse_toks ex_toks = Some ex_p /\ counts_pos ex_p.
Proof. split; [vm_compute; reflexivity|]. unfold counts_pos, ex_p. cbn [counts counts_item]. repeat split; lia. Qed.
Example ex_run :
  exec_f 2 100 ex_toks (Ok song_new) = SEMc (exec_f 1 100) ex_p (Ok song_new) /\
  (COSTc (exec_f 1 100) ex_p (Ok song_new) < 100)%nat /\
  match exec_f 2 100 ex_toks (Ok song_new) with
  | Ok s => map e_v1 (tr_events (cur_track s)) = [60; 62; 64; 62; 64; 62; 65; 60; 62; 64; 62; 64; 62; 67]
  | _ => False
  end.
Proof. split; [vm_compute; reflexivity|]. split; [vm_compute; lia|vm_compute; reflexivity]. Qed.
