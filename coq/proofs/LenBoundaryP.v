(* C04: where a length ends.  get_note_length (source_cursor.rs) on the printed form of a length expression followed
   by any text that starts outside the length alphabet returns exactly that printed form and leaves the cursor at the
   text; for ANY input what it returns is made of length characters only, taken in order from the text it consumed, and
   it stops only where a length cannot go on (maximal munch).  Then the readers of the note language that take a
   length (l, r, lettered notes), the `!L` literal of the argument readers, and the execution of the rest. *)
From Sakura.Model Require Import Base Cursor Length.
From Sakura.Spec Require Import LenSpec.
From Sakura.Proofs Require Import LengthP LayoutP TermP LocalityP.
From Coq Require Import Lia.
Open Scope list_scope.
Open Scope Z_scope.

(* ------------------------------------------------------------------------------------------ *)
(* 1. the boundary predicate                                                                    *)
(* ------------------------------------------------------------------------------------------ *)
(* The text after a length: empty, or a first character that is neither a length character (0-9 . ^ % - +) nor one of
   the blanks dropped inside a length (space, '|', TAB, CR); a line break qualifies unless the next character after
   blanks, line breaks and comments is '^' (then the length goes on in the next line). *)
Definition len_boundary (r : list Z) : bool := len_stop r 0.

Lemma len_stop_ln r ln ln' : len_stop r ln = len_stop r ln'.
Proof.
  destruct r as [|b r']; [reflexivity|]. cbn [len_stop]. unfold skip_space_ret.
  rewrite (skip_space_ret_f_ln _ r' (ln + 1) (ln' + 1)). reflexivity.
Qed.
Lemma len_boundary_stop r ln : len_boundary r = true -> len_stop r ln = true.
Proof. unfold len_boundary. rewrite (len_stop_ln r ln 0). auto. Qed.

(* the common case: a character that is none of  0-9 . ^ % - +  space | TAB CR LF *)
Lemma len_boundary_plain c r :
  is_len_char c = false -> is_len_blank c = false -> c <> 10 -> len_boundary (c :: r) = true.
Proof.
  intros H1 H2 H3. unfold len_boundary. cbn [len_stop]. rewrite H1, H2.
  destruct (Z.eqb_spec c 10); [contradiction|]. reflexivity.
Qed.

(* ------------------------------------------------------------------------------------------ *)
(* 2. the printed form of an expression is made of length characters                            *)
(* ------------------------------------------------------------------------------------------ *)
Lemma forallb_app_true {A} (f : A -> bool) a b : forallb f a = true -> forallb f b = true -> forallb f (a ++ b) = true.
Proof. intros H1 H2. rewrite forallb_app, H1, H2. reflexivity. Qed.

Lemma digits_len_chars ds : forallb digit_ok ds = true -> forallb is_len_char (map (fun d => 48 + d) ds) = true.
Proof.
  induction ds as [|d ds IH]; cbn [forallb map]; [reflexivity|]. intros H. apply andb_true_iff in H. destruct H as [H1 H2].
  rewrite (IH H2), andb_true_r. pose proof (digit_ok_range d H1) as R.
  unfold is_len_char, is_digit. replace ((48 <=? 48 + d) && (48 + d <=? 57)) with true by lia. reflexivity.
Qed.
Lemma dots_len_chars k : forallb is_len_char (repeat 46 k) = true.
Proof. induction k as [|k IH]; cbn [repeat forallb]; [reflexivity|]. rewrite IH. reflexivity. Qed.

Lemma print_atom_len_chars a : forallb digit_ok (a_num a) = true -> forallb is_len_char (print_atom a) = true.
Proof.
  intros H. unfold print_atom. repeat apply forallb_app_true.
  - destruct (a_step a); reflexivity.
  - destruct (a_neg a); reflexivity.
  - apply digits_len_chars, H.
  - apply dots_len_chars.
Qed.
Lemma atom_wf_digits a : atom_wf a = true -> forallb digit_ok (a_num a) = true.
Proof. intros H. apply atom_wf_inv in H. tauto. Qed.
Lemma part_wf_digits a : part_wf a = true -> forallb digit_ok (a_num a) = true.
Proof. unfold part_wf. intros H. apply andb_true_iff in H. destruct H as [H _]. apply atom_wf_digits, H. Qed.

Lemma print_parts_len_chars ps : forallb (fun p => part_wf (snd p)) ps = true ->
  forallb is_len_char (flat_map print_part ps) = true.
Proof.
  induction ps as [|p ps IH]; cbn [flat_map forallb]; [reflexivity|]. intros H. apply andb_true_iff in H. destruct H as [H1 H2].
  apply forallb_app_true; [|apply IH, H2]. unfold print_part. apply forallb_app_true.
  - destruct (fst p); reflexivity.
  - apply print_atom_len_chars, part_wf_digits, H1.
Qed.
Theorem print_len_chars e : expr_wf e = true -> forallb is_len_char (print e) = true.
Proof.
  unfold expr_wf, head_wf, print. intros H. apply andb_true_iff in H. destruct H as [H1 H2].
  apply forallb_app_true; [apply print_atom_len_chars, atom_wf_digits, H1 | apply print_parts_len_chars, H2].
Qed.

(* ------------------------------------------------------------------------------------------ *)
(* 3. the boundary theorem                                                                      *)
(* ------------------------------------------------------------------------------------------ *)
(* a printed expression followed by a boundary: the text is the expression, the cursor is at the boundary, the line
   counter is unchanged.  Blanks and bars between the expression and the boundary are consumed (they cannot begin a
   command). *)
Theorem len_token_boundary e r ln : expr_wf e = true -> len_boundary r = true ->
  get_note_length (print e ++ r) ln = (print e, r, ln).
Proof.
  intros W B. exact (get_note_length_contract (print e) [] r ln (print_len_chars e W) eq_refl (len_boundary_stop r ln B)).
Qed.
Theorem len_token_boundary_blanks e bl r ln : expr_wf e = true -> forallb is_len_blank bl = true -> len_boundary r = true ->
  get_note_length (print e ++ bl ++ r) ln = (print e, r, ln).
Proof.
  intros W BL B. exact (get_note_length_contract (print e) bl r ln (print_len_chars e W) BL (len_boundary_stop r ln B)).
Qed.

(* blanks and bars anywhere inside are dropped: the text returned is the length characters, in order *)
Definition is_len_or_blank (c : Z) : bool := is_len_char c || is_len_blank c.
Lemma gnl_mixed : forall u f r ln, forallb is_len_or_blank u = true -> len_stop r ln = true ->
  get_note_length_f (length u + S f) (u ++ r) ln = (filter is_len_char u, r, ln).
Proof.
  induction u as [|c u IH]; intros f r ln H S; cbn [length app Nat.add filter].
  - apply gnl_stop, S.
  - cbn [forallb] in H. apply andb_true_iff in H. destruct H as [H1 H2]. cbn [get_note_length_f].
    rewrite (IH f r ln H2 S). unfold is_len_or_blank in H1. destruct (is_len_char c) eqn:C; [reflexivity|].
    cbn [orb] in H1. rewrite H1. reflexivity.
Qed.
Theorem len_token_mixed u r ln : forallb is_len_or_blank u = true -> len_boundary r = true ->
  get_note_length (u ++ r) ln = (filter is_len_char u, r, ln).
Proof.
  intros H B. unfold get_note_length. replace (S (length (u ++ r))) with (length u + S (length r))%nat by (rewrite app_length; lia).
  apply gnl_mixed; [exact H | apply len_boundary_stop, B].
Qed.

(* ------------------------------------------------------------------------------------------ *)
(* 4. a line break before '^' continues the length                                              *)
(* ------------------------------------------------------------------------------------------ *)
Lemma get_note_length_f_fuel : forall f f' s ln, (length s < f)%nat -> (length s < f')%nat ->
  get_note_length_f f s ln = get_note_length_f f' s ln.
Proof.
  induction f as [|f IH]; intros f' s ln H H'; [lia|]. destruct f' as [|f']; [lia|].
  destruct s as [|c r]; [reflexivity|]. cbn [length] in H, H'. cbn [get_note_length_f].
  destruct (is_len_char c). { rewrite (IH f' r ln) by lia. reflexivity. }
  destruct (is_len_blank c). { apply IH; lia. }
  destruct (c =? c_NL); [|reflexivity].
  pose proof (skip_space_ret_sfx r (ln + 1)) as Q. unfold sfs in Q.
  destruct (skip_space_ret r (ln + 1)) as [r2 ln2]. cbn [fst] in Q. apply suffix_length in Q.
  destruct (eq_char r2 c_HAT); [|reflexivity]. apply IH; lia.
Qed.

(* white space between the line break and the '^' : blanks, TABs, CRs and further line breaks (comments are also
   skipped by the code; they are left out of this statement) *)
Definition is_ws (c : Z) : bool := (c =? 13) || (c =? 9) || (c =? 32) || (c =? 10).
Definition count_nl (w : list Z) : Z := zlen (filter (fun c => c =? 10) w).

Lemma skip_space_ret_f_ws : forall w f x ln, forallb is_ws w = true -> (length w < f)%nat ->
  skip_space_ret_f f (w ++ 94 :: x) ln = (94 :: x, ln + count_nl w).
Proof.
  induction w as [|c w IH]; intros f x ln H F; (destruct f as [|f]; [cbn [length] in F; lia|]).
  - cbn [app skip_space_ret_f]. unfold count_nl, zlen. cbn. f_equal. lia.
  - cbn [forallb] in H. apply andb_true_iff in H. destruct H as [H1 H2]. cbn [length] in F.
    cbn [app skip_space_ret_f]. unfold is_ws in H1. unfold c_CR, c_TAB, c_SP, c_NL.
    destruct ((c =? 13) || (c =? 9) || (c =? 32)) eqn:E.
    + rewrite (IH f x ln H2) by lia. unfold count_nl. cbn [filter].
      replace (c =? 10) with false by lia. reflexivity.
    + cbn [orb] in H1. rewrite H1. rewrite (IH f x (ln + 1) H2) by lia. unfold count_nl. cbn [filter]. rewrite H1.
      unfold zlen. cbn [length]. f_equal. lia.
Qed.

Theorem len_line_break len1 w len2 r ln :
  forallb is_len_char len1 = true -> forallb is_ws w = true -> forallb is_len_char len2 = true -> len_boundary r = true ->
  get_note_length (len1 ++ 10 :: w ++ 94 :: len2 ++ r) ln = (len1 ++ 94 :: len2, r, ln + 1 + count_nl w).
Proof.
  intros L1 W L2 B. unfold get_note_length.
  set (tail := 10 :: w ++ 94 :: len2 ++ r).
  replace (S (length (len1 ++ tail))) with (length len1 + S (length tail))%nat by (rewrite app_length; lia).
  rewrite (gnl_len len1 _ tail ln L1).
  assert (G : get_note_length_f (S (length tail)) tail ln = (94 :: len2, r, ln + 1 + count_nl w)).
  { unfold tail at 2. cbn [get_note_length_f]. change (is_len_char 10) with false. change (is_len_blank 10) with false.
    change (10 =? c_NL) with true. cbv iota. unfold skip_space_ret.
    rewrite (skip_space_ret_f_ws w _ (len2 ++ r) (ln + 1) W) by (rewrite app_length; cbn [length]; lia).
    cbn [eq_char]. change (94 =? c_HAT) with true. cbv iota.
    rewrite (get_note_length_f_fuel (length tail) (Nat.add (length (94 :: len2)) (S (length r))) (94 :: len2 ++ r))
      by (unfold tail; cbn [length]; rewrite ?app_length; cbn [length]; rewrite ?app_length; lia).
    change (94 :: len2 ++ r) with ((94 :: len2) ++ r).
    rewrite (gnl_len (94 :: len2) _ r (ln + 1 + count_nl w)) by (cbn [forallb]; rewrite L2; reflexivity).
    rewrite (gnl_stop _ r _ (len_boundary_stop r _ B)). cbn [fst snd]. rewrite app_nil_r. reflexivity. }
  rewrite G. cbn [fst snd]. reflexivity.
Qed.

(* on expressions: a '^' part may be written on the next line *)
Theorem len_token_line_break h ps1 a ps2 w r ln :
  expr_wf (h, ps1 ++ (true, a) :: ps2) = true -> forallb is_ws w = true -> len_boundary r = true ->
  get_note_length (print (h, ps1) ++ 10 :: w ++ flat_map print_part ((true, a) :: ps2) ++ r) ln
  = (print (h, ps1 ++ (true, a) :: ps2), r, ln + 1 + count_nl w).
Proof.
  intros WF W B.
  assert (WF' := print_len_chars _ WF).
  assert (E2 : print (h, ps1 ++ (true, a) :: ps2)
               = (print_atom h ++ flat_map print_part ps1) ++ 94 :: (print_atom a ++ flat_map print_part ps2)).
  { unfold print. cbn [fst snd]. rewrite flat_map_app. cbn [flat_map]. unfold print_part at 2. cbn [fst snd app].
    rewrite <- !app_assoc. reflexivity. }
  assert (E1 : print (h, ps1) ++ 10 :: w ++ flat_map print_part ((true, a) :: ps2) ++ r
               = (print_atom h ++ flat_map print_part ps1) ++ 10 :: w ++ 94 :: (print_atom a ++ flat_map print_part ps2) ++ r).
  { unfold print. cbn [fst snd flat_map]. unfold print_part at 2. cbn [fst snd app]. rewrite <- !app_assoc. reflexivity. }
  rewrite E2 in WF' |- *. rewrite E1. clear E1 E2.
  rewrite forallb_app in WF'. apply andb_true_iff in WF'. destruct WF' as [A1 A2].
  cbn [forallb] in A2. apply andb_true_iff in A2. destruct A2 as [_ A2].
  exact (len_line_break _ w _ r ln A1 W A2 B).
Qed.

(* ------------------------------------------------------------------------------------------ *)
(* 5. safety, for any input                                                                     *)
(* ------------------------------------------------------------------------------------------ *)
Inductive subseq : list Z -> list Z -> Prop :=
| subseq_nil : forall u, subseq [] u
| subseq_take : forall c t u, subseq t u -> subseq (c :: t) (c :: u)
| subseq_skip : forall c t u, subseq t u -> subseq t (c :: u).
Lemma subseq_app_skip p t u : subseq t u -> subseq t (p ++ u).
Proof. induction p as [|c p IH]; intros H; [exact H|]. cbn [app]. apply subseq_skip, IH, H. Qed.

Lemma get_token_ch_ln sp : forall s ln, ln <= snd (get_token_ch sp s ln).
Proof.
  induction s as [|c r IH]; intros ln; cbn [get_token_ch]; [cbn; lia|].
  destruct (c =? sp); [cbn [snd]; destruct (c =? c_NL); lia|].
  specialize (IH (if c =? c_NL then ln + 1 else ln)). destruct (get_token_ch sp r _) as [[a b] d]. cbn [snd] in *.
  destruct (c =? c_NL); lia.
Qed.
Lemma get_token_s_ln sp : forall s ln, ln <= snd (get_token_s sp s ln).
Proof.
  induction s as [|c r IH]; intros ln; cbn [get_token_s]; [cbn; lia|].
  destruct (prefixb sp (c :: r)); [cbn [snd]; lia|].
  specialize (IH (if c =? c_NL then ln + 1 else ln)). destruct (get_token_s sp r _) as [[a b] d]. cbn [snd] in *.
  destruct (c =? c_NL); lia.
Qed.
Lemma skip_space_ret_f_mono : forall f s ln, ln <= snd (skip_space_ret_f f s ln).
Proof.
  induction f as [|f IH]; intros s ln; [cbn; lia|]. cbn [skip_space_ret_f]. destruct s as [|c r]; [cbn; lia|].
  destruct ((c =? c_CR) || (c =? c_TAB) || (c =? c_SP)); [apply IH|].
  destruct (c =? c_NL). { specialize (IH r (ln + 1)). lia. }
  destruct (c =? c_SLASH); [|cbn; lia].
  destruct (prefixb [c_SLASH; c_SLASH] (c :: r)).
  - pose proof (get_token_ch_ln c_NL (c :: r) ln) as Q. destruct (get_token_ch c_NL (c :: r) ln) as [[a b] d].
    cbn [snd] in Q. specialize (IH b d). lia.
  - destruct (prefixb [c_SLASH; c_STAR] (c :: r)); [|cbn; lia].
    pose proof (get_token_s_ln [c_STAR; c_SLASH] (c :: r) ln) as Q. destruct (get_token_s [c_STAR; c_SLASH] (c :: r) ln) as [[a b] d].
    cbn [snd] in Q. specialize (IH b d). lia.
Qed.

(* what is returned: length characters only; they are taken, in order, from the part of the text that was consumed;
   the remaining text is a suffix of the input; the line counter does not go back; and the reader stopped at a boundary *)
Definition gnl_safe_at (s : list Z) (ln : Z) (x : list Z * list Z * Z) : Prop :=
  let '(t, r, ln') := x in
  forallb is_len_char t = true /\ (exists u, s = u ++ r /\ subseq t u) /\ ln <= ln' /\ len_boundary r = true.

Lemma get_note_length_f_safe : forall f s ln, (length s < f)%nat -> gnl_safe_at s ln (get_note_length_f f s ln).
Proof.
  induction f as [|f IH]; intros s ln F; [lia|]. destruct s as [|c r].
  { cbn. repeat split; try lia. exists []. split; [reflexivity|constructor]. }
  cbn [length] in F. cbn [get_note_length_f].
  assert (STOP : len_stop (c :: r) ln = true -> gnl_safe_at (c :: r) ln ([], c :: r, ln)).
  { intros H3. unfold gnl_safe_at. split; [reflexivity|]. split; [|split; [lia|]].
    - exists []. split; [reflexivity|constructor].
    - unfold len_boundary. rewrite (len_stop_ln _ 0 ln). exact H3. }
  destruct (is_len_char c) eqn:C.
  { specialize (IH r ln ltac:(lia)). destruct (get_note_length_f f r ln) as [[t r'] ln']. cbn in IH |- *.
    destruct IH as [I1 [[u [I2 I3]] [I4 I5]]]. rewrite C, I1. repeat split; try assumption.
    exists (c :: u). split; [rewrite I2; reflexivity | constructor; exact I3]. }
  destruct (is_len_blank c) eqn:Bk.
  { specialize (IH r ln ltac:(lia)). destruct (get_note_length_f f r ln) as [[t r'] ln']. cbn in IH |- *.
    destruct IH as [I1 [[u [I2 I3]] [I4 I5]]]. repeat split; try assumption.
    exists (c :: u). split; [rewrite I2; reflexivity | apply subseq_skip; exact I3]. }
  destruct (c =? c_NL) eqn:N.
  - pose proof (skip_space_ret_sfx r (ln + 1)) as Q. unfold sfs in Q.
    pose proof (skip_space_ret_f_mono (S (length r)) r (ln + 1)) as M. fold (skip_space_ret r (ln + 1)) in M.
    destruct (skip_space_ret r (ln + 1)) as [r2 ln2] eqn:SK. cbn [fst snd] in Q, M.
    destruct (eq_char r2 c_HAT) eqn:HT.
    + pose proof (suffix_length _ _ Q) as QL. specialize (IH r2 ln2 ltac:(lia)).
      destruct (get_note_length_f f r2 ln2) as [[t r'] ln']. cbn in IH |- *.
      destruct IH as [I1 [[u [I2 I3]] [I4 I5]]]. repeat split; try assumption; try lia.
      destruct Q as [p Q]. exists (c :: p ++ u). split.
      * rewrite Q, I2. cbn [app]. rewrite app_assoc. reflexivity.
      * apply subseq_skip, subseq_app_skip, I3.
    + apply STOP. cbn [len_stop]. rewrite C, Bk. cbn [negb andb]. rewrite SK. cbn [fst].
      unfold c_HAT in HT. rewrite HT. apply orb_true_r.
  - apply STOP. cbn [len_stop]. rewrite C, Bk. unfold c_NL in N. rewrite N. reflexivity.
Qed.

Theorem get_note_length_safe s ln : gnl_safe_at s ln (get_note_length s ln).
Proof. apply get_note_length_f_safe. lia. Qed.

(* on a text without blanks, bars and line breaks up to the point where the reader stops, the text returned is a
   prefix of the input *)
Lemma get_note_length_f_prefix : forall f s ln, (length s < f)%nat ->
  forallb (fun c => negb (is_len_blank c) && negb (c =? 10)) s = true ->
  s = fst (fst (get_note_length_f f s ln)) ++ snd (fst (get_note_length_f f s ln)).
Proof.
  induction f as [|f IH]; intros s ln F H; [lia|]. destruct s as [|c r]; [reflexivity|].
  cbn [length] in F. cbn [forallb] in H. apply andb_true_iff in H. destruct H as [H1 H2].
  apply andb_true_iff in H1. destruct H1 as [H1 H3]. apply negb_true_iff in H1, H3.
  cbn [get_note_length_f]. rewrite H1. unfold c_NL. rewrite H3.
  destruct (is_len_char c); [|reflexivity].
  specialize (IH r ln ltac:(lia) H2). destruct (get_note_length_f f r ln) as [[t r'] ln']. cbn [fst snd] in *.
  rewrite IH at 1. reflexivity.
Qed.
Theorem get_note_length_prefix s ln :
  forallb (fun c => negb (is_len_blank c) && negb (c =? 10)) s = true ->
  s = fst (fst (get_note_length s ln)) ++ snd (fst (get_note_length s ln)).
Proof. apply get_note_length_f_prefix. lia. Qed.

(* ------------------------------------------------------------------------------------------ *)
(* 6. the `!L` literal: the tick count of the length L, a quarter note being the default        *)
(* ------------------------------------------------------------------------------------------ *)
From Sakura.Model Require Import LexCore.
From Sakura.Model Require Expr.
From Sakura.Proofs Require ExprP.

Lemma bang_value e r ln tb : expr_wf e = true -> len_boundary r = true ->
  (let '(len_str, s2, ln2) := get_note_length (print e ++ r) ln in (calc_length len_str tb tb, s2, ln2))
  = (denote tb tb e, r, ln).
Proof. intros W B. rewrite (len_token_boundary e r ln W B), (calc_length_denotes tb tb e W). reflexivity. Qed.

(* lexer.rs read_arg_value (the argument of n o v q t, of loops, of the reservation lists ...) *)
Theorem read_arg_value_bang f tb e r ln : expr_wf e = true -> len_boundary r = true ->
  read_arg_value (S f) tb (33 :: print e ++ r) ln = Ok (AInt (denote tb tb e), r, ln).
Proof.
  intros W B. cbn [read_arg_value]. rewrite (skip_space_stop (33 :: print e ++ r) ln eq_refl). cbn [peek0 tl].
  change (is_upper 33 || (33 =? 95)) with false. change (33 =? 33) with true. cbv iota.
  rewrite (len_token_boundary e r ln W B), (calc_length_denotes tb tb e W). reflexivity.
Qed.
(* blanks and TABs (and /* */ comments) before the '!' are skipped: stated for blanks and TABs *)
Lemma skip_space_f_blanks : forall bl n s ln, forallb (fun c => (c =? 32) || (c =? 9)) bl = true -> (length bl < n)%nat ->
  skip_space_f n (bl ++ 33 :: s) ln = (33 :: s, ln).
Proof.
  induction bl as [|c bl IH]; intros n s ln H F; (destruct n as [|n]; [cbn [length] in F; lia|]); cbn [app skip_space_f].
  - reflexivity.
  - cbn [forallb] in H. apply andb_true_iff in H. destruct H as [H1 H2]. unfold c_TAB, c_SP.
    replace ((c =? 9) || (c =? 32)) with true by lia. apply IH; [exact H2|]. cbn [length] in F. lia.
Qed.
Lemma skip_space_blanks bl s ln : forallb (fun c => (c =? 32) || (c =? 9)) bl = true ->
  skip_space (bl ++ 33 :: s) ln = (33 :: s, ln).
Proof. intros H. unfold skip_space. apply skip_space_f_blanks; [exact H|]. rewrite app_length. cbn [length]. lia. Qed.

Theorem read_arg_value_bang_blanks f tb bl e r ln :
  forallb (fun c => (c =? 32) || (c =? 9)) bl = true -> expr_wf e = true -> len_boundary r = true ->
  read_arg_value (S f) tb (bl ++ 33 :: print e ++ r) ln = Ok (AInt (denote tb tb e), r, ln).
Proof.
  intros HB W B. cbn [read_arg_value]. rewrite (skip_space_blanks bl _ ln HB). cbn [peek0 tl].
  change (is_upper 33 || (33 =? 95)) with false. change (33 =? 33) with true. cbv iota.
  rewrite (len_token_boundary e r ln W B), (calc_length_denotes tb tb e W). reflexivity.
Qed.

(* what may follow a `!L` operand of read_value (lexer.rs read_calc with no operator): a boundary of the length that
   is not an operator character - typically ',' ')' or the end of the text *)
Definition bang_follow (r : list Z) : bool := len_boundary r && negb (is_operator_char (peek0 r)).

Lemma bang_follow_skip r ln : bang_follow r = true -> skip_space r ln = (r, ln).
Proof.
  unfold bang_follow. intros H. apply andb_true_iff in H. destruct H as [B O]. apply negb_true_iff in O.
  apply skip_space_stop. destruct r as [|c r']; [reflexivity|]. cbn [eq_char peek0] in *.
  unfold len_boundary in B. cbn [len_stop] in B.
  apply andb_true_iff in B. destruct B as [B _]. apply andb_true_iff in B. destruct B as [_ B]. apply negb_true_iff in B.
  unfold is_len_blank, c_SP, c_BAR, c_TAB, c_CR in B.
  apply orb_false_elim in B. destruct B as [B _]. apply orb_false_elim in B. destruct B as [B T].
  apply orb_false_elim in B. destruct B as [Sp _]. rewrite T, Sp. cbn [negb andb].
  unfold is_operator_char in O. cbn [prefixb]. destruct (Z.eqb_spec 47 c) as [E|E]; [|reflexivity].
  subst c. discriminate O.
Qed.

(* lexer.rs read_value, as read by read_calc for a literal argument (LexCore.read_calc_literal) *)
Theorem read_calc_literal_bang tb e r ln : expr_wf e = true -> bang_follow r = true ->
  read_calc_literal tb (33 :: print e ++ r) ln = Ok (Some (denote tb tb e), r, ln).
Proof.
  intros W F. pose proof F as F'. unfold bang_follow in F'. apply andb_true_iff in F'. destruct F' as [B O]. apply negb_true_iff in O.
  unfold read_calc_literal. rewrite (skip_space_stop (33 :: print e ++ r) ln eq_refl). cbn [peek0 tl].
  change (is_digit 33 || (33 =? c_DOLLAR)) with false. change (33 =? c_MINUS) with false. change (33 =? 33) with true. cbv iota.
  rewrite (len_token_boundary e r ln W B), (calc_length_denotes tb tb e W).
  destruct r as [|c r']; [reflexivity|]. rewrite (bang_follow_skip (c :: r') ln F). rewrite O. reflexivity.
Qed.

(* the expression reader of the script language (model/Expr.v read_value; the same Rust function) *)
Theorem expr_read_value_bang tb lexvars f e r : expr_wf e = true -> len_boundary r = true ->
  Expr.read_value tb lexvars (S f) (33 :: print e ++ r) = Ok (Some (Expr.TConstInt (denote tb tb e)), r).
Proof.
  intros W B. rewrite ExprP.read_value_S. unfold Expr.sksp. rewrite (skip_space_stop (33 :: print e ++ r) 0 eq_refl). cbn [fst].
  change (33 =? 40) with false. change (33 =? 45) with false. change (is_digit 33 || (33 =? 36)) with false.
  change (33 =? 33) with true. cbv iota.
  rewrite (len_token_boundary e r 0 W B), (calc_length_denotes tb tb e W). reflexivity.
Qed.

(* a parenthesised list of `!L` arguments, as the reservation commands read it (lexer.rs read_arg_int_array:
   v.onTime(!4,!8) ...): every item denotes its tick count *)
Fixpoint print_bangs (es : list expr) : list Z :=
  match es with
  | [] => []
  | [e] => 33 :: print e
  | e :: es' => 33 :: print e ++ 44 :: print_bangs es'
  end.

Lemma boundary_comma x : len_boundary (44 :: x) = true.
Proof. apply len_boundary_plain; [reflexivity|reflexivity|discriminate]. Qed.

Lemma read_int_array_bangs tb : forall es f r ln, es <> [] -> forallb expr_wf es = true ->
  len_boundary r = true -> eq_char r 44 = false -> prefixb [47; 42] r = false -> (length es <= f)%nat ->
  read_int_array_loop f tb (print_bangs es ++ r) ln = Ok (map (denote tb tb) es, r, ln).
Proof.
  induction es as [|e es IH]; intros f r ln NE W B C SL F; [contradiction|].
  destruct f as [|f]; [cbn [length] in F; lia|]. cbn [forallb] in W. apply andb_true_iff in W. destruct W as [W1 W2].
  assert (SK : skip_space r ln = (r, ln)).
  { apply skip_space_stop. rewrite SL. destruct r as [|c r']; [reflexivity|]. cbn [eq_char].
    unfold len_boundary in B. cbn [len_stop] in B.
    apply andb_true_iff in B. destruct B as [B _]. apply andb_true_iff in B. destruct B as [_ B]. apply negb_true_iff in B.
    unfold is_len_blank, c_SP, c_BAR, c_TAB, c_CR in B.
    apply orb_false_elim in B. destruct B as [B _]. apply orb_false_elim in B. destruct B as [B T].
    apply orb_false_elim in B. destruct B as [Sp _]. rewrite T, Sp. reflexivity. }
  destruct es as [|e2 es].
  - cbn [print_bangs app map]. cbn [read_int_array_loop].
    rewrite (skip_space_stop (33 :: print e ++ r) ln eq_refl). unfold arg_fuel.
    rewrite (read_arg_value_bang _ tb e r ln W1 B). cbn [bind]. rewrite SK, C. reflexivity.
  - change (print_bangs (e :: e2 :: es)) with (33 :: print e ++ 44 :: print_bangs (e2 :: es)).
    cbn [app map]. rewrite <- app_assoc. cbn [app]. cbn [read_int_array_loop].
    rewrite (skip_space_stop (33 :: print e ++ 44 :: print_bangs (e2 :: es) ++ r) ln eq_refl). unfold arg_fuel.
    rewrite (read_arg_value_bang _ tb e (44 :: print_bangs (e2 :: es) ++ r) ln W1 (boundary_comma _)). cbn [bind].
    rewrite (skip_space_stop (44 :: print_bangs (e2 :: es) ++ r) ln eq_refl). cbn [eq_char tl]. change (44 =? 44) with true. cbv iota.
    rewrite (IH f r ln ltac:(discriminate) W2 B C SL ltac:(cbn [length] in F |- *; lia)). reflexivity.
Qed.

Lemma print_bangs_length es : (length es <= length (print_bangs es))%nat.
Proof.
  induction es as [|e es IH]; [cbn; lia|]. destruct es as [|e2 es]; [cbn [print_bangs length]; lia|].
  change (print_bangs (e :: e2 :: es)) with (33 :: print e ++ 44 :: print_bangs (e2 :: es)).
  cbn [length] in *. rewrite app_length. cbn [length]. lia.
Qed.

Theorem read_arg_int_array_bangs tb es r ln : es <> [] -> forallb expr_wf es = true ->
  read_arg_int_array tb (40 :: print_bangs es ++ 41 :: r) ln = Ok (map (denote tb tb) es, r, ln).
Proof.
  intros NE W. unfold read_arg_int_array. rewrite (skip_space_stop (40 :: print_bangs es ++ 41 :: r) ln eq_refl).
  cbn [eq_char tl]. change (40 =? 40) with true. cbv iota.
  rewrite (read_int_array_bangs tb es _ (41 :: r) ln NE W); try reflexivity.
  cbn [length]. rewrite app_length. pose proof (print_bangs_length es). lia.
Qed.

(* the statement of props/C04.v: all three model readers of `!L` *)
Theorem bang_all : forall (tb : Z) (e : expr) (r : list Z) (ln : Z) (f : nat) (lexvars : list (list Z)),
  expr_wf e = true ->
  (len_boundary r = true -> read_arg_value (S f) tb (33 :: print e ++ r) ln = Ok (AInt (denote tb tb e), r, ln)) /\
  (bang_follow r = true -> read_calc_literal tb (33 :: print e ++ r) ln = Ok (Some (denote tb tb e), r, ln)) /\
  (len_boundary r = true -> Expr.read_value tb lexvars (S f) (33 :: print e ++ r) = Ok (Some (Expr.TConstInt (denote tb tb e)), r)).
Proof.
  intros tb e r ln f lexvars W. split; [|split].
  - apply read_arg_value_bang, W.
  - apply read_calc_literal_bang, W.
  - apply expr_read_value_bang, W.
Qed.

(* ------------------------------------------------------------------------------------------ *)
(* 7. lengths inside the note language: l, r and lettered notes                                 *)
(* ------------------------------------------------------------------------------------------ *)
From Sakura.Model Require Import Event Song Token RunCore.
From Sakura.Proofs Require Import TimeP.

Definition tok_length (t : tok) : list Z :=
  match t with
  | TNote _ _ _ len _ _ _ _ _ => len
  | TNoteN _ len _ _ _ _ => len
  | TRest _ len => len
  | TLength len => len
  | _ => []
  end.

(* `l` + length.  "l." + one of the words Random onTime T onNote N onCycle C is the reservation syntax (l.onNote(..));
   with any other word - or none - after the dot the reader goes back to the dot, which then belongs to the length
   ("l." = the dotted default length; /repo eb20c24).  l_dot_ok: the text does not start with '.', or the word after that
   dot is none of these words.  It holds for every length that does not consist of the one dot alone (l_dot_ok_auto). *)
Module LDotDefs.
  Import Coq.Strings.String.
  Definition l_res_word (w : list Z) : bool :=
    list_eqb w (zs "Random"%string) || is_w w "onTime"%string "T"%string || is_w w "onNote"%string "N"%string
    || is_w w "onCycle"%string "C"%string.
End LDotDefs.
Definition l_res_word := LDotDefs.l_res_word.
Definition l_dot_ok (s : list Z) : bool := negb (eq_char s 46) || negb (l_res_word (fst (get_word (tl s)))).

Theorem read_length_len tb e r ln : expr_wf e = true -> len_boundary r = true -> l_dot_ok (print e ++ r) = true ->
  read_length tb (print e ++ r) ln = Ok (Some (TLength (print e)), r, ln).
Proof.
  intros W B D. unfold read_length. unfold c_DOT. unfold l_dot_ok in D.
  destruct (eq_char (print e ++ r) 46) eqn:E.
  - cbn [negb orb] in D. apply negb_true_iff in D. destruct (get_word (tl (print e ++ r))) as [cmd s1]. cbn [fst] in D.
    unfold l_res_word, LDotDefs.l_res_word in D. apply orb_false_elim in D. destruct D as [D D4]. apply orb_false_elim in D. destruct D as [D D3].
    apply orb_false_elim in D. destruct D as [D1 D2]. rewrite D1, D2, D3, D4. cbn [orb].
    rewrite (len_token_boundary e r ln W B). reflexivity.
  - rewrite (len_token_boundary e r ln W B). reflexivity.
Qed.

(* a text that starts with '.' and goes on with a character that is not a word character: the word after the dot is empty *)
Lemma l_dot_ok_nonword c x : is_word_char c = false -> c <> 35 -> l_dot_ok (46 :: c :: x) = true.
Proof.
  intros H N. unfold l_dot_ok. cbn [eq_char tl]. change (46 =? 46) with true. cbn [negb orb].
  assert (G : fst (get_word (c :: x)) = []).
  { unfold get_word. destruct (Z.eq_dec c 35) as [->|_]; [contradiction|].
    replace (match c :: x with 35 :: r => let '(w, r') := take_word r in (35 :: w, r') | _ => take_word (c :: x) end)
      with (take_word (c :: x)).
    - cbn [take_word]. rewrite H. reflexivity.
    - destruct c as [|q|q]; try reflexivity. do 6 (destruct q as [q|q|]; try reflexivity). contradiction. }
  rewrite G. reflexivity.
Qed.
Theorem l_dot_ok_auto e r : expr_wf e = true -> len_boundary r = true -> print e <> [46] -> l_dot_ok (print e ++ r) = true.
Proof.
  intros W B NE. unfold l_dot_ok. destruct (eq_char (print e ++ r) 46) eqn:E; [|reflexivity].
  fold (l_dot_ok (print e ++ r)).
  destruct e as [h ps]. unfold print in *. cbn [fst snd] in *.
  unfold expr_wf, head_wf in W. cbn [fst snd] in W. apply andb_true_iff in W. destruct W as [Wh _].
  pose proof (atom_wf_digits h Wh) as Dg. unfold print_atom in *.
  destruct (a_step h); [discriminate E|]. destruct (a_neg h); [discriminate E|]. cbn [app] in *.
  destruct (a_num h) as [|d ds].
  - cbn [map app] in *. destruct (a_dots h) as [|k].
    + cbn [repeat app] in *. destruct ps as [|[[|] a] ps'].
      * cbn [flat_map app] in E. unfold len_boundary in B. destruct r as [|c r']; [discriminate E|].
        cbn [eq_char] in E. apply Z.eqb_eq in E. subst c. discriminate B.
      * discriminate E.
      * discriminate E.
    + cbn [repeat app]. destruct k as [|k].
      * cbn [repeat app] in *. destruct ps as [|[[|] a] ps'].
        -- contradiction NE. reflexivity.
        -- cbn [flat_map print_part fst app]. apply l_dot_ok_nonword; [reflexivity|discriminate].
        -- cbn [flat_map print_part fst app]. apply l_dot_ok_nonword; [reflexivity|discriminate].
      * cbn [repeat app]. apply l_dot_ok_nonword; [reflexivity|discriminate].
  - cbn [map app forallb] in *. apply andb_true_iff in Dg. destruct Dg as [Dg _]. pose proof (digit_ok_range d Dg).
    cbn [eq_char] in E. apply Z.eqb_eq in E. lia.
Qed.

(* `r` + length.  '*' and '-' directly after the r are read by the rest command itself ("r-4" is a backward rest) *)
Theorem read_rest_len e r ln : expr_wf e = true -> len_boundary r = true ->
  eq_char (print e ++ r) 42 = false -> eq_char (print e ++ r) 45 = false ->
  read_rest (print e ++ r) ln = (TRest 1 (print e), fst (skip_space r ln), snd (skip_space r ln)).
Proof.
  intros W B S M. unfold read_rest. rewrite S. unfold c_MINUS. rewrite M. rewrite (len_token_boundary e r ln W B).
  destruct (skip_space r ln) as [s4 ln4]. reflexivity.
Qed.

(* a lettered note: after the accidentals `fl` (plus, sharp, minus, star), the length field of the token is the expression, whatever
   follows the boundary (gate, velocity, timing, octave fields, '&').  The first character of the length must not be
   an accidental itself ("c-4" is c flat, 4) *)
Theorem read_note_len z fl e r ln : forallb is_flag_char fl = true -> expr_wf e = true -> len_boundary r = true ->
  is_flag_char (peek0 (print e ++ r)) = false ->
  tok_length (fst (fst (read_note z (fl ++ print e ++ r) ln))) = print e.
Proof.
  intros F W B S. unfold read_note. rewrite (read_note_flags_app fl _ 0 false F S).
  destruct (flags_val fl 0 false) as [flag natural]. cbn [fst snd].
  rewrite (len_token_boundary e r ln W B).
  repeat match goal with
         | |- context [match ?x with _ => _ end] => destruct x
         end; reflexivity.
Qed.

(* ---- and executed: the time pointer moves by the documented value of the expression ---- *)
Lemma cur_timepos_shift L s : cur_valid s -> tr_timepos (cur_track (shift_song L s)) = tr_timepos (cur_track s) + L.
Proof. intros V. unfold shift_song. rewrite (t_cur_track_upd_cur s _ V). reflexivity. Qed.

(* `r` + expression: read, then executed in any state with a current track (whatever is pending in it): the pointer
   advances by denote (time base) (default length of the track) e *)
Theorem rest_in_program ec e r ln s : expr_wf e = true -> len_boundary r = true ->
  eq_char (print e ++ r) 42 = false -> eq_char (print e ++ r) 45 = false -> cur_valid s ->
  let '(t, r', _) := read_rest (print e ++ r) ln in
  t = TRest 1 (print e) /\ r' = fst (skip_space r ln) /\
  exists s', step_song ec t s = Ok s' /\
    tr_timepos (cur_track s') = tr_timepos (cur_track s) + denote (s_timebase s) (tr_length (cur_track s)) e.
Proof.
  intros W B S M V. rewrite (read_rest_len e r ln W B S M). split; [reflexivity|]. split; [reflexivity|].
  eexists. split; [apply rest_is_shift|]. rewrite (cur_timepos_shift _ s V), (calc_length_denotes _ _ e W). reflexivity.
Qed.

(* `l` + expression: the default length of the track becomes denote tb tb e (omitted parts mean a quarter note) *)
Theorem length_in_program ec tb e r ln s : expr_wf e = true -> len_boundary r = true -> l_dot_ok (print e ++ r) = true ->
  cur_valid s ->
  exists t, read_length tb (print e ++ r) ln = Ok (Some t, r, ln) /\ t = TLength (print e) /\
  exists s', step_song ec t s = Ok s' /\ tr_length (cur_track s') = denote (s_timebase s) (s_timebase s) e /\
             tr_timepos (cur_track s') = tr_timepos (cur_track s).
Proof.
  intros W B D V. eexists. split; [apply (read_length_len tb e r ln W B D)|]. split; [reflexivity|].
  cbn [step_song]. eexists. split; [reflexivity|]. rewrite (t_cur_track_upd_cur s _ V).
  rewrite (calc_length_denotes _ _ e W). split; reflexivity.
Qed.

(* a lettered note + expression, read and executed in a state of the simulation of C03 (R: nothing reserved, no tie
   pending, no chord open): the pointer advances by denote (time base) (default length) e, whatever the gate *)
From Sakura.Spec Require Import NoteSem.
From Sakura.Proofs Require Import NoteSimDefs NoteSimP NoteExecP.

Lemma note_base_is_base z : is_base (note_base z) = true.
Proof. unfold note_base. repeat (destruct (_ =? _); [reflexivity|]). reflexivity. Qed.

Theorem note_in_program ec z fl e r ln s q :
  forallb is_flag_char fl = true -> expr_wf e = true -> note_boundary r ln = true ->
  is_flag_char (peek0 (print e ++ r)) = false -> R s q ->
  exists t, read_note z (fl ++ print e ++ r) ln = (t, r, ln) /\ tok_length t = print e /\
  exists s', step_song ec t s = Ok s' /\
    tr_timepos (cur_track s') = tr_timepos (cur_track s) + denote (s_timebase s) (tr_length (cur_track s)) e.
Proof.
  intros F W NB S HR.
  assert (S' : is_flag_char (peek0 (print e ++ [] ++ r)) = false) by exact S.
  pose proof (read_note_contract z fl (print e) [] r ln F (print_len_chars e W) eq_refl S' NB) as RC. cbn [app] in RC.
  exists (simple_note_tok z fl (print e)). split; [exact RC|]. split; [reflexivity|].
  set (acc := fst (flags_val fl 0 false)). set (nat_ := snd (flags_val fl 0 false)).
  assert (WF : wf_cmd (CNote (note_base z) acc nat_ (Some e) None None None None) = true).
  { cbn [wf_cmd olen_wf ogate_ok ovel_ok otiming_ok ooct_ok is_none]. rewrite note_base_is_base, W. reflexivity. }
  destruct (step_note _ _ _ _ _ _ _ _ WF ec s q O HR) as (s' & E & HR').
  exists s'. split; [exact E|].
  pose proof (R_cur _ _ HR) as (Epos & _ & Elen & _). pose proof (R_cur _ _ HR') as (Epos' & _).
  pose proof HR as (Htr & Hcur & Hlt & Htb & _).
  assert (Hpc : (p_cur q < length (p_tracks q))%nat) by (rewrite <- Hcur, <- (Forall2_len _ _ _ Htr); exact Hlt).
  rewrite Epos', Epos, Elen, Htb. cbn [NoteSem.sem]. unfold play, cur at 1, with_cur. cbn [p_tracks p_cur].
  rewrite (nth_upd _ _ _ _ Hpc). cbn [t_pos set_pos add_note]. reflexivity.
Qed.
