(* Variable-length quantities: the writer's encoder against the specification decoder. *)
From Sakura.Model Require Import Base Event Writer.
From Sakura.Spec Require Import SmfSpec.
From Coq Require Import Lia.
Open Scope Z_scope.

(* ---- bridges from the bit operations of the code to arithmetic ---- *)
Lemma land_127 v : Z.land v 127 = v mod 128.
Proof. change 127 with (Z.ones 7). rewrite Z.land_ones by lia. reflexivity. Qed.
Lemma land_255 v : Z.land v 255 = v mod 256.
Proof. change 255 with (Z.ones 8). rewrite Z.land_ones by lia. reflexivity. Qed.
Lemma shiftr_7 v : Z.shiftr v 7 = v / 128.
Proof. rewrite Z.shiftr_div_pow2 by lia. reflexivity. Qed.
Lemma shiftr_k v k : 0 <= k -> Z.shiftr v k = v / 2 ^ k.
Proof. intros. apply Z.shiftr_div_pow2; assumption. Qed.

Lemma lor_128_small x : 0 <= x < 128 -> Z.lor 128 x = 128 + x.
Proof.
  intros H.
  assert (F : forallb (fun n => Z.lor 128 (Z.of_nat n) =? 128 + Z.of_nat n) (seq 0 128) = true)
    by (vm_compute; reflexivity).
  rewrite forallb_forall in F.
  specialize (F (Z.to_nat x)). rewrite Z2Nat.id in F by lia.
  apply Z.eqb_eq. apply F. apply in_seq. lia.
Qed.

Lemma as_u8_small x : 0 <= x < 256 -> as_u8 x = x.
Proof. intros. unfold as_u8. apply Z.mod_small; assumption. Qed.

(* ---- the encoder in arithmetic form ---- *)
Lemma delta_hi_S f v : delta_hi (S f) v =
  if v >? 0 then delta_hi f (v / 128) ++ [128 + v mod 128] else [].
Proof.
  cbn [delta_hi]. destruct (v >? 0) eqn:E; [|reflexivity].
  rewrite shiftr_7, land_127.
  rewrite lor_128_small by (apply Z.mod_pos_bound; lia).
  rewrite as_u8_small by (pose proof (Z.mod_pos_bound v 128); lia).
  reflexivity.
Qed.

Lemma push_delta_eq t : 0 <= t -> push_delta t = delta_hi 10 (t / 128) ++ [t mod 128].
Proof.
  intros H. unfold push_delta. replace (t <? 0) with false by lia.
  rewrite shiftr_7, land_127. rewrite as_u8_small by (pose proof (Z.mod_pos_bound t 128); lia).
  reflexivity.
Qed.

Lemma push_delta_neg t : t < 0 -> push_delta t = [0].
Proof. intros H. unfold push_delta. replace (t <? 0) with true by lia. reflexivity. Qed.

Lemma delta_hi_length f : forall v k, 0 <= v < 128 ^ Z.of_nat k -> (length (delta_hi f v) <= k)%nat.
Proof.
  induction f as [|f IH]; intros v k H; [cbn; lia|].
  rewrite delta_hi_S. destruct (v >? 0) eqn:E; [|cbn; lia].
  destruct k as [|k].
  - cbn in H. lia.
  - rewrite app_length. cbn [length].
    assert (0 <= v / 128 < 128 ^ Z.of_nat k).
    { rewrite Nat2Z.inj_succ, Z.pow_succ_r in H by lia. split.
      - apply Z.div_pos; lia.
      - apply Z.div_lt_upper_bound; lia. }
    specialize (IH (v / 128) k H0). lia.
Qed.

Lemma delta_hi_bytes f : forall v, Forall (fun b => 128 <= b < 256) (delta_hi f v).
Proof.
  induction f as [|f IH]; intros v; [constructor|].
  rewrite delta_hi_S. destruct (v >? 0); [|constructor].
  apply Forall_app. split; [apply IH|]. constructor; [|constructor].
  pose proof (Z.mod_pos_bound v 128). lia.
Qed.

(* decoding the continuation bytes accumulates the value *)
Lemma vlq_hi_decode f : forall v acc t, 0 <= v < 128 ^ Z.of_nat f ->
  vlq_decode_u acc (delta_hi f v ++ t)
  = vlq_decode_u (acc * 128 ^ Z.of_nat (length (delta_hi f v)) + v) t.
Proof.
  induction f as [|f IH]; intros v acc t H.
  - cbn in H. assert (v = 0) by lia. subst. cbn. f_equal. lia.
  - rewrite delta_hi_S. destruct (v >? 0) eqn:E.
    + assert (Hq : 0 <= v / 128 < 128 ^ Z.of_nat f).
      { rewrite Nat2Z.inj_succ, Z.pow_succ_r in H by lia. split.
        - apply Z.div_pos; lia.
        - apply Z.div_lt_upper_bound; lia. }
      rewrite <- app_assoc. rewrite (IH (v / 128) acc _ Hq).
      cbn [app vlq_decode_u].
      pose proof (Z.mod_pos_bound v 128 ltac:(lia)) as Hm.
      replace ((0 <=? 128 + v mod 128) && (128 + v mod 128 <? 128)) with false by lia.
      replace ((128 <=? 128 + v mod 128) && (128 + v mod 128 <? 256)) with true by lia.
      f_equal. rewrite app_length. cbn [length].
      rewrite Nat2Z.inj_add. change (Z.of_nat 1) with 1. rewrite Z.pow_add_r by lia.
      change (128 ^ 1) with 128.
      pose proof (Z.div_mod v 128 ltac:(lia)) as Hdm.
      set (P := 128 ^ Z.of_nat (length (delta_hi f (v / 128)))).
      set (q := v / 128) in *. set (m := v mod 128) in *. clearbody P q m. subst v. ring.
    + assert (v = 0) by lia. subst. cbn. f_equal. lia.
Qed.

Theorem vlq_roundtrip n r : 0 <= n < 2 ^ 28 ->
  vlq_decode (push_delta n ++ r) = Some (n, r) /\ (length (push_delta n) <= 4)%nat.
Proof.
  intros H. rewrite push_delta_eq by lia.
  assert (Hq : 0 <= n / 128 < 128 ^ Z.of_nat 3).
  { split; [apply Z.div_pos; lia | apply Z.div_lt_upper_bound; cbn; lia]. }
  assert (Hq10 : 0 <= n / 128 < 128 ^ Z.of_nat 10).
  { split; [lia|]. eapply Z.lt_le_trans; [apply Hq|]. cbn. lia. }
  pose proof (delta_hi_length 10 (n / 128) 3 Hq) as HL.
  split.
  - unfold vlq_decode. rewrite <- app_assoc.
    rewrite (vlq_hi_decode 10 (n / 128) 0 _ Hq10).
    cbn [app vlq_decode_u].
    pose proof (Z.mod_pos_bound n 128 ltac:(lia)) as Hm.
    replace ((0 <=? n mod 128) && (n mod 128 <? 128)) with true by lia.
    rewrite !app_length. cbn [length].
    assert (EL : Nat.leb (length (delta_hi 10 (n / 128)) + S (length r) - length r) 4 = true)
      by (apply Nat.leb_le; lia).
    rewrite EL. rewrite Z.mul_0_l, Z.add_0_l.
    f_equal. f_equal. pose proof (Z.div_mod n 128 ltac:(lia)). lia.
  - rewrite app_length. cbn [length]. lia.
Qed.

(* big-endian writers *)
Theorem push_u16_be v : 0 <= v < 65536 ->
  exists a b, push_u16 v = [a; b] /\ 0 <= a < 256 /\ 0 <= b < 256 /\ be16 a b = v.
Proof.
  intros H. unfold push_u16. rewrite !land_255, shiftr_k by lia.
  exists ((v / 2 ^ 8) mod 256), (v mod 256).
  rewrite !as_u8_small by (apply Z.mod_pos_bound; lia).
  repeat split; try (apply Z.mod_pos_bound; lia).
  unfold be16. change (2 ^ 8) with 256.
  rewrite (Z.mod_small (v / 256)) by (split; [apply Z.div_pos; lia | apply Z.div_lt_upper_bound; lia]).
  pose proof (Z.div_mod v 256 ltac:(lia)). lia.
Qed.

Theorem push_u32_be v : 0 <= v < 2 ^ 32 ->
  exists a b c d, push_u32 v = [a; b; c; d] /\ 0 <= a < 256 /\ 0 <= b < 256 /\ 0 <= c < 256 /\ 0 <= d < 256
                  /\ be32 a b c d = v.
Proof.
  intros H. unfold push_u32. rewrite !land_255, !shiftr_k by lia.
  exists ((v / 2 ^ 24) mod 256), ((v / 2 ^ 16) mod 256), ((v / 2 ^ 8) mod 256), (v mod 256).
  rewrite !as_u8_small by (apply Z.mod_pos_bound; lia).
  split; [reflexivity|].
  repeat split; try (apply Z.mod_pos_bound; lia).
  unfold be32.
  change (2 ^ 24) with 16777216. change (2 ^ 16) with 65536. change (2 ^ 8) with 256.
  assert (E1 : v / 65536 = (v / 256) / 256) by (rewrite Z.div_div by lia; reflexivity).
  assert (E2 : v / 16777216 = (v / 256 / 256) / 256) by (rewrite !Z.div_div by lia; reflexivity).
  rewrite E2, E1.
  set (x := v / 256). set (y := x / 256). set (z := y / 256).
  assert (0 <= z < 256).
  { unfold z, y, x. split; [repeat apply Z.div_pos; lia|].
    repeat (apply Z.div_lt_upper_bound; [lia|]). cbn. lia. }
  rewrite (Z.mod_small z) by lia.
  pose proof (Z.div_mod v 256 ltac:(lia)). pose proof (Z.div_mod x 256 ltac:(lia)).
  pose proof (Z.div_mod y 256 ltac:(lia)). fold x in H1. fold y in H2. fold z in H3. lia.
Qed.
