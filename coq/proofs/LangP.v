(* C08 - the message language (Song::set_language, read through song.get_message) reaches the TEXT of log entries and
   nothing else: two runs of the pipeline model that differ only in the language flag and in the wording of the log
   entries written so far read the same tokens, make the same events, answer with the same outcome, and write log
   entries that are equal up to the language of the catalogue messages they contain.

   The relation: `txtR a b` - the texts a and b are equal up to replacing catalogue messages (Msg.all_messages) by the
   same message in another language; `logR` - entry by entry (hence the same NUMBER of entries: the caps of lx_add_log,
   add_log and lex_error read the length of the log only); `lsR` / `sgR` - lexer states / songs equal in every field
   except the language flag and the log, whose entries are related by logR.
   Every reader of LexCore.v, every arm of the lexer loop (the copy LOOPG of LayoutP.v), every arm of RunCore.step_song,
   the loop machine, macros and PLAY parts (lexed at run time in the language of the song) keep the relation. *)
From Coq Require Import String Ascii.
From Sakura.Model Require Import Base Cursor Length Event Writer Song Token LoopMachine LexCore RunCore Tie Compile RunRsv Msg.
From Sakura.Gen Require Import Consts Messages VarRows.
From Sakura.Proofs Require Import LayoutP.
From Coq Require Import Lia.
Open Scope list_scope.
Open Scope Z_scope.

(* ------------------------------------------------------------------------------------------ *)
(* 1. texts equal up to the language of the catalogue messages                                  *)
(* ------------------------------------------------------------------------------------------ *)
Inductive txtR : list Z -> list Z -> Prop :=
| txt_same (l : list Z) : txtR l l
| txt_msg (m : bool -> list Z) (j1 j2 : bool) : In m all_messages -> txtR (m j1) (m j2)
| txt_app (a b c d : list Z) : txtR a b -> txtR c d -> txtR (a ++ c) (b ++ d).
Definition logR (a b : list (list Z)) : Prop := Forall2 txtR a b.

Lemma logR_length a b : logR a b -> length a = length b.
Proof. induction 1 as [|x y a b T H IH]; [reflexivity|]. cbn [length]. rewrite IH. reflexivity. Qed.
Lemma logR_zlen a b : logR a b -> zlen a = zlen b.
Proof. intros H. unfold zlen. rewrite (logR_length a b H). reflexivity. Qed.
Lemma logR_refl a : logR a a.
Proof. induction a as [|x a IH]; constructor; [apply txt_same|exact IH]. Qed.
Lemma logR_snoc a b x y : logR a b -> txtR x y -> logR (a ++ [x]) (b ++ [y]).
Proof. intros H T. apply Forall2_app; [exact H|]. constructor; [exact T|constructor]. Qed.

(* a text built by ++ from common pieces and catalogue messages *)
Ltac txt_solve :=
  repeat first [ apply txt_same
               | apply txt_msg; cbv [all_messages In]; tauto
               | apply txt_app ].

(* the outcome of two runs: the same kind, related values *)
Definition resR {A : Type} (R : A -> A -> Prop) (x y : res A) : Prop :=
  match x, y with
  | Ok a, Ok b => R a b
  | Panic p, Panic q => p = q
  | OutOfFuel, OutOfFuel => True
  | Unsupported u, Unsupported v => u = v
  | _, _ => False
  end.
Lemma resR_bind {A B} (RA : A -> A -> Prop) (RB : B -> B -> Prop) x y (f g : A -> res B) :
  resR RA x y -> (forall a b, RA a b -> resR RB (f a) (g b)) -> resR RB (bind x f) (bind y g).
Proof. destruct x, y; cbn [resR bind]; intros H K; try contradiction; try exact H. apply K, H. Qed.

(* ------------------------------------------------------------------------------------------ *)
(* 2. lexer states                                                                              *)
(* ------------------------------------------------------------------------------------------ *)
Definition lsR (a b : lexstate) : Prop :=
  lx_timebase a = lx_timebase b /\ lx_vars a = lx_vars b /\ lx_rhythm a = lx_rhythm b /\ logR (lx_logs a) (lx_logs b).
(* what a reader with a state answers: the same value, related states *)
Definition outR {X : Type} (x y : res (X * lexstate)) : Prop :=
  resR (fun a b => fst a = fst b /\ lsR (snd a) (snd b)) x y.

Lemma lsR_mk tb vs rh lg1 lg2 j1 j2 : logR lg1 lg2 -> lsR (mkLex tb lg1 vs rh j1) (mkLex tb lg2 vs rh j2).
Proof. intros H. repeat split. exact H. Qed.
Lemma lx_add_log_R l1 l2 m1 m2 : lsR l1 l2 -> txtR m1 m2 -> lsR (lx_add_log l1 m1) (lx_add_log l2 m2).
Proof.
  intros (A & B & C & D) T. unfold lx_add_log. rewrite (logR_zlen _ _ D).
  destruct (SAKURA_MAX_LOGS <=? zlen (lx_logs l2)); [repeat split; assumption|].
  repeat split; cbn [lx_timebase lx_vars lx_rhythm lx_logs]; try assumption. apply logR_snoc; assumption.
Qed.
Lemma lex_error_R l1 l2 s ln m : lsR l1 l2 -> lsR (lex_error l1 s ln m) (lex_error l2 s ln m).
Proof.
  intros H. pose proof H as (A & B & C & D). unfold lex_error. rewrite (logR_zlen _ _ D).
  destruct (zlen (lx_logs l2) =? LEX_MAX_ERROR); [apply lx_add_log_R; [exact H|txt_solve]|].
  destruct (zlen (lx_logs l2) <? LEX_MAX_ERROR); [apply lx_add_log_R; [exact H|txt_solve]|exact H].
Qed.
Lemma read_error_cmd_R l1 l2 s ln c : lsR l1 l2 -> lsR (read_error_cmd l1 s ln c) (read_error_cmd l2 s ln c).
Proof. intros H. unfold read_error_cmd. apply lx_add_log_R; [exact H|txt_solve]. Qed.
Lemma cc_warn_R l1 l2 ln w : lsR l1 l2 -> lsR (cc_warn l1 ln w) (cc_warn l2 ln w).
Proof. intros H. unfold cc_warn. apply lx_add_log_R; [exact H|txt_solve]. Qed.
Lemma vars_insert_R l1 l2 n v : lsR l1 l2 -> lsR (vars_insert l1 n v) (vars_insert l2 n v).
Proof. intros (A & B & C & D). unfold vars_insert. repeat split; cbn [lx_timebase lx_vars lx_rhythm lx_logs]; congruence || assumption. Qed.

(* ------------------------------------------------------------------------------------------ *)
(* 3. the tactic: both runs are the same function applied to related states; case analysis on    *)
(*    every scrutinee both sides share, the lemma of the callee where the scrutinees are calls    *)
(*    on the two states                                                                          *)
(* ------------------------------------------------------------------------------------------ *)
Ltac hs t :=
  lazymatch t with
  | match ?x with _ => _ end => hs x
  | _ => t
  end.
(* two related lexer states: shared components, two logs, two flags *)
Ltac ls_split H :=
  lazymatch type of H with
  | lsR ?a ?b =>
      let A := fresh "A" in let B := fresh "B" in let C := fresh "C" in let D := fresh "HL" in
      let tb1 := fresh "tb" in let lg1 := fresh "lg" in let vs1 := fresh "vs" in let rh1 := fresh "rh" in let j1 := fresh "ja" in
      let tb2 := fresh "tb" in let lg2 := fresh "lg" in let vs2 := fresh "vs" in let rh2 := fresh "rh" in let j2 := fresh "ja" in
      destruct a as [tb1 lg1 vs1 rh1 j1], b as [tb2 lg2 vs2 rh2 j2]; destruct H as (A & B & C & D);
      cbn [lx_timebase lx_vars lx_rhythm lx_logs] in A, B, C, D; subst
  end.
Ltac lsR_solve :=
  first [ assumption
        | apply lsR_mk; first [assumption | apply logR_refl]
        | apply lx_add_log_R; [lsR_solve | txt_solve]
        | apply lex_error_R; lsR_solve
        | apply read_error_cmd_R; lsR_solve
        | apply cc_warn_R; lsR_solve
        | apply vars_insert_R; lsR_solve ].
(* the lemmas of the readers proved so far (extended below) *)
Ltac reader_R := fail.
Ltac rel_pair x y :=
  let P := fresh "P" in
  assert (P : outR x y) by (reader_R; lsR_solve);
  destruct x as [[? ?]| | |], y as [[? ?]| | |]; cbn [outR resR fst snd] in P; try contradiction;
  [ let E := fresh "E" in destruct P as [E P]; subst | subst | | subst ].
Ltac sync_step :=
  cbv beta iota zeta delta [bind fst snd];
  lazymatch goal with
  | |- resR _ ?A ?B =>
      lazymatch A with
      | match _ with _ => _ end =>
          let x := hs A in let y := hs B in
          first [ constr_eq x y; (tryif is_var x then destruct x else destruct x eqn:?)
                | rel_pair x y ]
      end
  end.
Ltac leaf :=
  cbn [resR outR fst snd];
  first [ exact I | reflexivity | split; [reflexivity | lsR_solve] ].
Ltac reader_tac H := unfold outR; ls_split H; cbn [lx_timebase lx_vars lx_rhythm lx_logs]; repeat sync_step; leaf.

(* ------------------------------------------------------------------------------------------ *)
(* 4. the readers that take the lexer state                                                      *)
(* ------------------------------------------------------------------------------------------ *)
Lemma read_args_tokens_R l1 l2 s ln : lsR l1 l2 -> outR (read_args_tokens l1 s ln) (read_args_tokens l2 s ln).
Proof. intros H. unfold read_args_tokens. reader_tac H. Qed.
Lemma read_macro_args_R l1 l2 s ln : lsR l1 l2 -> outR (read_macro_args l1 s ln) (read_macro_args l2 s ln).
Proof. intros H. unfold read_macro_args. reader_tac H. Qed.
Ltac reader_R ::= first [apply read_args_tokens_R | apply read_macro_args_R].
Lemma check_variables_R l1 l2 c s ln : lsR l1 l2 -> outR (check_variables l1 c s ln) (check_variables l2 c s ln).
Proof. intros H. unfold check_variables. reader_tac H. Qed.
Lemma read_command_cc_R l1 l2 no s ln : lsR l1 l2 -> outR (read_command_cc l1 no s ln) (read_command_cc l2 no s ln).
Proof. intros H. unfold read_command_cc. reader_tac H. Qed.
Ltac reader_R ::= first [apply read_args_tokens_R | apply read_macro_args_R | apply check_variables_R | apply read_command_cc_R].
Lemma read_cc_R l1 l2 c s ln : lsR l1 l2 -> outR (read_cc l1 c s ln) (read_cc l2 c s ln).
Proof. intros H. unfold read_cc, guard_out, read_cc_raw. reader_tac H. Qed.
Lemma read_rpn_command_R l1 l2 n m l s ln : lsR l1 l2 -> outR (read_rpn_command l1 n m l s ln) (read_rpn_command l2 n m l s ln).
Proof. intros H. unfold read_rpn_command. reader_tac H. Qed.
Lemma read_play_R l1 l2 s ln : lsR l1 l2 -> outR (read_play l1 s ln) (read_play l2 s ln).
Proof. intros H. unfold read_play. reader_tac H. Qed.
Lemma read_def_str_R l1 l2 s ln : lsR l1 l2 -> outR (read_def_str l1 s ln) (read_def_str l2 s ln).
Proof. intros H. unfold read_def_str. reader_tac H. Qed.
Lemma read_int_args_R l1 l2 s ln : lsR l1 l2 -> outR (read_int_args l1 s ln) (read_int_args l2 s ln).
Proof. intros H. unfold read_int_args. reader_tac H. Qed.
Ltac reader_R ::= first [apply read_args_tokens_R | apply read_macro_args_R | apply check_variables_R | apply read_command_cc_R
                        | apply read_cc_R | apply read_rpn_command_R | apply read_play_R | apply read_def_str_R | apply read_int_args_R].
Lemma read_int_command_R l1 l2 ty t1 s ln : lsR l1 l2 -> outR (read_int_command l1 ty t1 s ln) (read_int_command l2 ty t1 s ln).
Proof. intros H. unfold read_int_command. reader_tac H. Qed.
Ltac reader_R ::= first [apply read_args_tokens_R | apply read_macro_args_R | apply check_variables_R | apply read_command_cc_R
                        | apply read_cc_R | apply read_rpn_command_R | apply read_play_R | apply read_def_str_R | apply read_int_args_R
                        | apply read_int_command_R].
Lemma read_ext_command_R l1 l2 ty a t1 t2 s ln : lsR l1 l2 ->
  outR (read_ext_command l1 ty a t1 t2 s ln) (read_ext_command l2 ty a t1 t2 s ln).
Proof. intros H. unfold read_ext_command, guard_out, read_ext_command_raw. reader_tac H. Qed.
Ltac reader_R ::= first [apply read_args_tokens_R | apply read_macro_args_R | apply check_variables_R | apply read_command_cc_R
                        | apply read_cc_R | apply read_rpn_command_R | apply read_play_R | apply read_def_str_R | apply read_int_args_R
                        | apply read_int_command_R | apply read_ext_command_R].

(* ------------------------------------------------------------------------------------------ *)
(* 5. the loop of lex(), lex_f, lex                                                              *)
(* ------------------------------------------------------------------------------------------ *)
Section LoopLang.
Variable sublex : lexstate -> list Z -> Z -> res lex_out.
Hypothesis sub_R : forall l1 l2 s ln, lsR l1 l2 -> outR (sublex l1 s ln) (sublex l2 s ln).

Lemma LOOPG_R : forall n l1 l2 s ln h acc, lsR l1 l2 ->
  outR (LOOPG sublex n l1 s ln h acc) (LOOPG sublex n l2 s ln h acc).
Proof.
  induction n as [|n IH]; intros l1 l2 s ln h acc H; [exact I|].
  cbn [LOOPG]. unfold outR in *. ls_split H. cbn [lx_timebase lx_vars lx_rhythm lx_logs].
  repeat (sync_step || (cbv beta iota zeta delta [bind fst snd];
                        lazymatch goal with
                        | |- resR _ ?A ?B =>
                            lazymatch A with
                            | match _ with _ => _ end =>
                                let x := hs A in let y := hs B in
                                let P := fresh "P" in
                                assert (P : outR x y) by (apply sub_R; lsR_solve);
                                destruct x as [[? ?]| | |], y as [[? ?]| | |]; cbn [outR resR fst snd] in P; try contradiction;
                                [ let E := fresh "E" in destruct P as [E P]; subst | subst | | subst ]
                            end
                        end));
  first [ apply IH; lsR_solve | leaf ].
Qed.
End LoopLang.

Theorem lex_f_R : forall f l1 l2 src ln, lsR l1 l2 -> outR (lex_f f l1 src ln) (lex_f f l2 src ln).
Proof.
  induction f as [|f IH]; intros l1 l2 src ln H; [exact I|].
  rewrite !lex_f_unfold. destruct (lex_pre src); [reflexivity|]. unfold LOOP. apply LOOPG_R; [exact IH|exact H].
Qed.
(* the lexer reads the same tokens in either language, and leaves related states *)
Theorem lex_R l1 l2 src ln : lsR l1 l2 -> outR (lex l1 src ln) (lex l2 src ln).
Proof. unfold lex. apply lex_f_R. Qed.

(* ------------------------------------------------------------------------------------------ *)
(* 6. songs                                                                                     *)
(* ------------------------------------------------------------------------------------------ *)
(* the song without its log and its language *)
Definition sg_erase (s : song) : song := s_set_ja (s_set_logs s []) false.
Definition sgR (a b : song) : Prop := sg_erase a = sg_erase b /\ logR (s_logs a) (s_logs b).

(* add_log as a setter: the log is pushed unless it is full *)
Definition log_push (lg : list (list Z)) (m : list Z) : list (list Z) :=
  if SAKURA_MAX_LOGS <=? zlen lg then lg else lg ++ [m].
Lemma add_log_eq s m : add_log s m = s_set_logs s (log_push (s_logs s) m).
Proof. unfold add_log, log_push. destruct (SAKURA_MAX_LOGS <=? zlen (s_logs s)); [destruct s|]; reflexivity. Qed.
Lemma log_push_R a b x y : logR a b -> txtR x y -> logR (log_push a x) (log_push b y).
Proof.
  intros H T. unfold log_push. rewrite (logR_zlen _ _ H). destruct (SAKURA_MAX_LOGS <=? zlen b); [exact H|apply logR_snoc; assumption].
Qed.
Ltac logR_solve :=
  first [ assumption | apply logR_refl | apply log_push_R; [logR_solve | txt_solve] ].
Ltac lsR_solve ::=
  first [ assumption
        | apply lsR_mk; logR_solve
        | apply lx_add_log_R; [lsR_solve | txt_solve]
        | apply lex_error_R; lsR_solve
        | apply read_error_cmd_R; lsR_solve
        | apply cc_warn_R; lsR_solve
        | apply vars_insert_R; lsR_solve ].

Ltac song_cbn :=
  cbn [s_tracks s_cur s_timebase s_key_flag s_key_shift s_use_key_shift s_v_add s_q_add s_harmony_flag s_harmony_time
       s_harmony_events s_octave_once s_break_flag s_tempo s_timesig_frac s_timesig_deno s_measure_shift s_play_from s_lineno
       s_logs s_vars s_rhythm s_rand_seed s_device s_ja
       s_set_tracks s_set_cur s_set_timebase s_set_key_flag s_set_key_shift s_set_use_key_shift s_set_v_add s_set_q_add
       s_set_harmony_flag s_set_harmony_time s_set_harmony_events s_set_octave_once s_set_break_flag s_set_tempo
       s_set_timesig_frac s_set_timesig_deno s_set_measure_shift s_set_play_from s_set_lineno s_set_logs s_set_vars
       s_set_rhythm s_set_rand_seed s_set_device s_set_ja s_set_harmony s_set_time s_set_adds
       lx_timebase lx_logs lx_vars lx_rhythm lx_ja].
Ltac song_cbn_in H :=
  cbn [s_tracks s_cur s_timebase s_key_flag s_key_shift s_use_key_shift s_v_add s_q_add s_harmony_flag s_harmony_time
       s_harmony_events s_octave_once s_break_flag s_tempo s_timesig_frac s_timesig_deno s_measure_shift s_play_from s_lineno
       s_logs s_vars s_rhythm s_rand_seed s_device s_ja
       s_set_tracks s_set_cur s_set_timebase s_set_key_flag s_set_key_shift s_set_use_key_shift s_set_v_add s_set_q_add
       s_set_harmony_flag s_set_harmony_time s_set_harmony_events s_set_octave_once s_set_break_flag s_set_tempo
       s_set_timesig_frac s_set_timesig_deno s_set_measure_shift s_set_play_from s_set_lineno s_set_logs s_set_vars
       s_set_rhythm s_set_rand_seed s_set_device s_set_ja s_set_harmony s_set_time s_set_adds
       lx_timebase lx_logs lx_vars lx_rhythm lx_ja] in H.
(* two related songs: shared fields, two logs, two flags *)
Ltac sg_split H :=
  lazymatch type of H with
  | sgR ?a ?b =>
      let E := fresh "E" in let D := fresh "HL" in
      let lg1 := fresh "lg" in let j1 := fresh "ja" in let lg2 := fresh "lg" in let j2 := fresh "ja" in
      destruct a as [? ? ? ? ? ? ? ? ? ? ? ? ? ? ? ? ? ? ? lg1 ? ? ? ? j1], b as [? ? ? ? ? ? ? ? ? ? ? ? ? ? ? ? ? ? ? lg2 ? ? ? ? j2];
      destruct H as [E D]; unfold sg_erase in E; song_cbn_in E; song_cbn_in D; injection E as -> -> -> -> -> -> -> -> -> -> -> -> -> -> -> -> -> -> -> -> -> -> ->
  end.
Lemma sgR_mk a b c d e f g h i j k l m n o p q r s lg1 lg2 t u v w j1 j2 : logR lg1 lg2 ->
  sgR (mkSong a b c d e f g h i j k l m n o p q r s lg1 t u v w j1) (mkSong a b c d e f g h i j k l m n o p q r s lg2 t u v w j2).
Proof. intros H. split; [reflexivity|exact H]. Qed.
Ltac sgR_solve := first [ assumption | apply sgR_mk; logR_solve ].

Lemma sgR_refl s : sgR s s.
Proof. split; [reflexivity|apply logR_refl]. Qed.
Lemma ls_of_song_R a b : sgR a b -> lsR (ls_of_song a) (ls_of_song b).
Proof. intros H. sg_split H. unfold ls_of_song. song_cbn. lsR_solve. Qed.
Lemma song_with_ls_R a b l1 l2 : sgR a b -> lsR l1 l2 -> sgR (song_with_ls a l1) (song_with_ls b l2).
Proof. intros H K. sg_split H. ls_split K. unfold song_with_ls. song_cbn. sgR_solve. Qed.

(* ------------------------------------------------------------------------------------------ *)
(* 7. the loop machine keeps a relation its step keeps                                          *)
(* ------------------------------------------------------------------------------------------ *)
Section MachineR.
  Variables (D St : Type) (step : D -> St -> St) (halted : St -> bool) (cnt : Z -> St -> nat) (R : St -> St -> Prop).
  Hypothesis step_R : forall d a b, R a b -> R (step d a) (step d b).
  Hypothesis halted_R : forall a b, R a b -> halted a = halted b.
  Hypothesis cnt_R : forall n a b, R a b -> cnt n a = cnt n b.

  Definition cfgR (c1 c2 : config St) : Prop := pos St c1 = pos St c2 /\ stack St c1 = stack St c2 /\ R (st St c1) (st St c2).
  Definition optR {A} (Q : A -> A -> Prop) (x y : option A) : Prop :=
    match x, y with Some a, Some b => Q a b | None, None => True | _, _ => False end.

  Lemma mstep_R toks c1 c2 : cfgR c1 c2 -> optR cfgR (mstep D St step halted cnt toks c1) (mstep D St step halted cnt toks c2).
  Proof.
    intros (P & S & T). destruct c1 as [p1 k1 s1], c2 as [p2 k2 s2]. cbn [pos stack st] in P, S, T. subst p2 k2.
    unfold mstep. cbn [pos stack st]. destruct (nth_error toks p1) as [t|]; [|exact I].
    rewrite (halted_R _ _ T). destruct (halted s2); [exact I|].
    destruct t as [n| | |d].
    - rewrite (cnt_R n _ _ T). repeat split; exact T.
    - destruct k1 as [|it rest]; [repeat split; exact T|].
      destruct (Nat.leb _ _); [|repeat split; exact T]. destruct (Nat.ltb _ _); repeat split; exact T.
    - destruct k1 as [|it rest]; [repeat split; exact T|]. destruct (Nat.ltb _ _); repeat split; exact T.
    - repeat split. cbn [st]. apply step_R, T.
  Qed.
  Lemma mrun_R toks : forall fuel c1 c2, cfgR c1 c2 ->
    optR cfgR (mrun D St step halted cnt fuel toks c1) (mrun D St step halted cnt fuel toks c2).
  Proof.
    induction fuel as [|f IH]; intros c1 c2 H; [exact I|]. cbn [mrun].
    pose proof (mstep_R toks c1 c2 H) as M.
    destruct (mstep D St step halted cnt toks c1), (mstep D St step halted cnt toks c2); cbn [optR] in M; try contradiction.
    - apply IH, M.
    - exact H.
  Qed.
  Lemma run_R fuel toks a b : R a b -> optR R (run D St step halted cnt fuel toks a) (run D St step halted cnt fuel toks b).
  Proof.
    intros H. unfold run. assert (C : cfgR (mkCfg St 0 [] a) (mkCfg St 0 [] b)) by (repeat split; exact H).
    pose proof (mrun_R toks fuel _ _ C) as M.
    destruct (mrun D St step halted cnt fuel toks (mkCfg St 0 [] a)), (mrun D St step halted cnt fuel toks (mkCfg St 0 [] b));
      cbn [optR] in M |- *; try contradiction; [exact (proj2 (proj2 M))|exact I].
  Qed.
End MachineR.

(* ------------------------------------------------------------------------------------------ *)
(* 8. the arms of the runner                                                                    *)
(* ------------------------------------------------------------------------------------------ *)
(* the setters applied: two explicit records (no conversion between unreduced setter chains is left to the kernel) *)
Ltac song_norm :=
  cbv beta iota delta
      [s_tracks s_cur s_timebase s_key_flag s_key_shift s_use_key_shift s_v_add s_q_add s_harmony_flag s_harmony_time
       s_harmony_events s_octave_once s_break_flag s_tempo s_timesig_frac s_timesig_deno s_measure_shift s_play_from s_lineno
       s_logs s_vars s_rhythm s_rand_seed s_device s_ja
       s_set_tracks s_set_cur s_set_timebase s_set_key_flag s_set_key_shift s_set_use_key_shift s_set_v_add s_set_q_add
       s_set_harmony_flag s_set_harmony_time s_set_harmony_events s_set_octave_once s_set_break_flag s_set_tempo
       s_set_timesig_frac s_set_timesig_deno s_set_measure_shift s_set_play_from s_set_lineno s_set_logs s_set_vars
       s_set_rhythm s_set_rand_seed s_set_device s_set_ja s_set_harmony s_set_time s_set_adds
       lx_timebase lx_logs lx_vars lx_rhythm lx_ja].
Ltac run_unfold :=
  unfold exec_note, exec_note_n, emit_note, note_number, key_flag_at, exec_rest, exec_voice, exec_harmony_end,
         exec_get_time, exec_tempo_change, exec_time_signature, exec_sysex, exec_gs_effect, exec_rpn_direct, runtime_error,
         add_events, tempo_change, change_cur_track, settle_octave_once, track_sync, upd_cur, cur_track, ls_of_song, song_with_ls.
Ltac sgR_solve ::= first [ assumption | song_norm; apply sgR_mk; logR_solve ].
Ltac run_leaf :=
  cbv beta iota zeta delta [bind fst snd];
  lazymatch goal with
  | |- resR _ (Panic _) (Panic _) => reflexivity
  | |- resR _ OutOfFuel OutOfFuel => exact I
  | |- resR _ (Unsupported _) (Unsupported _) => reflexivity
  | |- resR _ (Ok _) (Ok _) => cbn [resR outR fst snd]; first [ sgR_solve | split; [reflexivity | sgR_solve] ]
  end.
(* a case analysis inside the value both runs answer with *)
Ltac sync_in_ok :=
  lazymatch goal with
  | |- resR _ (Ok ?A) (Ok ?B) =>
      lazymatch A with
      | match _ with _ => _ end =>
          let x := hs A in let y := hs B in
          constr_eq x y; (tryif is_var x then destruct x else destruct x eqn:?); cbv beta iota zeta delta [bind fst snd]
      end
  end.
(* a condition inside a scrutinee (a field of a song chosen by an `if`) *)
Ltac inner_if :=
  lazymatch goal with
  | |- resR _ ?A ?B =>
      match A with
      | context [if ?c then _ else _] => lazymatch B with context [c] => destruct c eqn:? end
      end
  end.
Ltac run_step := first [sync_step | sync_in_ok | inner_if]; song_norm.
Ltac run_tac := run_unfold; rewrite ?add_log_eq; song_norm; repeat run_step; run_leaf.

Lemma tempo_change_R a b v : sgR a b -> sgR (tempo_change a v) (tempo_change b v).
Proof. intros H. sg_split H. run_unfold. song_norm. sgR_solve. Qed.
Lemma tempo_ramp_loop_R x w st n idx : forall a b, sgR a b -> sgR (tempo_ramp_loop a x w st n idx) (tempo_ramp_loop b x w st n idx).
Proof.
  induction idx as [|i r IH]; intros a b H; [exact H|]. cbn [tempo_ramp_loop]. apply IH.
  pose proof (tempo_change_R a b (tempo_ramp_value x w i n) H) as K. sg_split K. unfold upd_cur. song_norm. sgR_solve.
Qed.
Lemma tempo_change_a_to_b_R a b x y len : sgR a b -> resR sgR (tempo_change_a_to_b a x y len) (tempo_change_a_to_b b x y len).
Proof.
  intros H. unfold tempo_change_a_to_b.
  assert (E1 : s_timebase a = s_timebase b) by (sg_split H; reflexivity).
  assert (E2 : tr_timepos (cur_track a) = tr_timepos (cur_track b)) by (sg_split H; reflexivity).
  rewrite E1, E2. destruct (_ =? 0); [reflexivity|]. destruct (RAMP_MAX <? len); [reflexivity|]. cbn [resR].
  pose proof (tempo_ramp_loop_R x (y - x) (Z.quot (s_timebase b * 4) 16) (Z.quot len (Z.quot (s_timebase b * 4) 16))
                (Reserve.zrange (Z.quot len (Z.quot (s_timebase b * 4) 16))) a b H) as K.
  set (p := tr_timepos (cur_track b)) in *. clearbody p.
  match type of K with sgR ?u ?v => set (u1 := u) in *; set (v1 := v) in *; clearbody u1 v1 end.
  assert (K2 : sgR (upd_cur u1 (fun t => tr_set_timepos t (p + len))) (upd_cur v1 (fun t => tr_set_timepos t (p + len))))
    by (sg_split K; unfold upd_cur; song_norm; sgR_solve).
  apply (tempo_change_R _ _ y) in K2. sg_split K2. unfold upd_cur. song_norm. sgR_solve.
Qed.

Section StepLang.
  Variable ec : list tok -> res song -> res song.
  Hypothesis ec_R : forall toks r1 r2, resR sgR r1 r2 -> resR sgR (ec toks r1) (ec toks r2).

  (* the scrutinee is a nested exec() or a run-time lex() on the two songs *)
  Ltac run_pair :=
    cbv beta iota zeta delta [bind fst snd];
    lazymatch goal with
    | |- resR _ ?A ?B =>
        lazymatch A with
        | match _ with _ => _ end =>
            let x := hs A in let y := hs B in
            let P := fresh "P" in
            first [ assert (P : resR sgR x y) by (apply ec_R; cbn [resR]; sgR_solve);
                    destruct x as [?| | |], y as [?| | |]; cbn [resR] in P; try contradiction; [sg_split P | subst | | subst]
                  | assert (P : outR x y) by (apply lex_R; lsR_solve);
                    destruct x as [[? ?]| | |], y as [[? ?]| | |]; cbn [outR resR fst snd] in P; try contradiction;
                    [ let E := fresh "E" in destruct P as [E P]; subst; ls_split P | subst | | subst ] ]
        end
    end.
  Ltac run_step2 := first [sync_step | sync_in_ok | inner_if | run_pair]; song_norm.

  Definition ppR (x y : song * Z) : Prop := sgR (fst x) (fst y) /\ snd x = snd y.
  Lemma play_parts_R ln sp args : forall idx a b last, sgR a b ->
    resR ppR (play_parts ec ln sp args idx a last) (play_parts ec ln sp args idx b last).
  Proof.
    induction args as [|x r IH]; intros idx a b last H; cbn [play_parts]; [split; [exact H|reflexivity]|].
    sg_split H. run_unfold. song_norm. repeat run_step2.
    all: first [ run_leaf | apply IH; sgR_solve ].
  Qed.
  Lemma exec_play_R a b args ln : sgR a b -> resR sgR (exec_play ec a args ln) (exec_play ec b args ln).
  Proof.
    intros H. unfold exec_play.
    assert (E1 : s_cur a = s_cur b) by (sg_split H; reflexivity).
    assert (E2 : tr_timepos (cur_track a) = tr_timepos (cur_track b)) by (sg_split H; reflexivity).
    rewrite E1, E2. destruct (_ || _); [reflexivity|].
    pose proof (play_parts_R ln (tr_timepos (cur_track b)) args 1 a b (tr_timepos (cur_track b)) H) as K.
    destruct (play_parts ec ln _ args 1 a _) as [[s4 l4]| | |], (play_parts ec ln _ args 1 b _) as [[s5 l5]| | |];
      cbn [resR] in K; cbn [bind]; try contradiction; try exact K.
    destruct K as [K E]. cbn [fst snd] in K, E. subst l5. sg_split K. run_unfold. song_norm. repeat run_step2. all: run_leaf.
  Qed.

  Lemma step_song_R t a b : sgR a b -> resR sgR (step_song ec t a) (step_song ec t b).
  Proof.
    intros H. destruct t; cbn [step_song]; sg_split H.
    all: try (solve [run_tac]).
    all: run_unfold; rewrite ?add_log_eq; song_norm; repeat run_step2.
    all: try (solve [run_leaf]).
    all: try (solve [apply ec_R; cbn [resR]; sgR_solve]).
    all: try (solve [apply exec_play_R; sgR_solve]).
    all: try (solve [apply tempo_change_a_to_b_R; sgR_solve]).
  Qed.
End StepLang.

(* ------------------------------------------------------------------------------------------ *)
(* 9. exec(), the pipeline                                                                      *)
(* ------------------------------------------------------------------------------------------ *)
Lemma halted_R r1 r2 : resR sgR r1 r2 -> halted r1 = halted r2.
Proof.
  destruct r1 as [a| | |], r2 as [b| | |]; cbn [resR halted]; intros H; try contradiction; try reflexivity.
  sg_split H. reflexivity.
Qed.
Theorem exec_f_R steps : forall d toks r1 r2, resR sgR r1 r2 -> resR sgR (exec_f d steps toks r1) (exec_f d steps toks r2).
Proof.
  induction d as [|d IH]; intros toks r1 r2 H; [exact I|]. cbn [exec_f].
  pose proof (run_R tok (res song) (step_tok (exec_f d steps)) halted count_of (resR sgR)) as K.
  specialize (K (fun t x y Hxy => resR_bind sgR sgR x y _ _ Hxy (step_song_R (exec_f d steps) IH t)) halted_R
                (fun n x y _ => eq_refl) steps (map to_ltok toks) r1 r2 H).
  destruct (run tok (res song) _ halted count_of steps (map to_ltok toks) r1),
           (run tok (res song) _ halted count_of steps (map to_ltok toks) r2); cbn [optR] in K; try contradiction; [exact K|exact I].
Qed.

Lemma song_new_lang_R j1 j2 : sgR (song_new_lang j1) (song_new_lang j2).
Proof. unfold song_new_lang, song_new. sgR_solve. Qed.
Lemma song_after_lex_R l1 l2 : lsR l1 l2 -> sgR (song_after_lex l1) (song_after_lex l2).
Proof. intros H. unfold song_after_lex. apply song_with_ls_R; [apply song_new_lang_R|exact H]. Qed.

(* the song after lex and exec: the same in every field but the log and the flag, in either language *)
Theorem run_source_lang_R j1 j2 src : resR sgR (run_source_lang j1 src) (run_source_lang j2 src).
Proof.
  unfold run_source_lang.
  pose proof (lex_R (mkLex 96 [] init_vars rhythm_rows j1) (mkLex 96 [] init_vars rhythm_rows j2) src 0
                (lsR_mk _ _ _ _ _ _ _ (logR_refl []))) as L.
  destruct (lex (mkLex 96 [] init_vars rhythm_rows j1) src 0) as [[toks l1]| | |],
           (lex (mkLex 96 [] init_vars rhythm_rows j2) src 0) as [[toks2 l2]| | |];
    cbn [outR resR fst snd] in L; cbn [bind]; try contradiction; try exact L.
  destruct L as [<- L]. apply exec_f_R. cbn [resR]. apply song_after_lex_R, L.
Qed.
Lemma writer_input_R a b : sgR a b -> s_timebase a = s_timebase b /\ tracks_for_writer a = tracks_for_writer b.
Proof. intros H. sg_split H. split; reflexivity. Qed.
(* the bytes: the same outcome, and the same file *)
Theorem compile_lang_R j1 j2 src : resR (fun x y => fst x = fst y) (compile_lang j1 src) (compile_lang j2 src).
Proof.
  unfold compile_lang. pose proof (run_source_lang_R j1 j2 src) as R.
  destruct (run_source_lang j1 src) as [a| | |], (run_source_lang j2 src) as [b| | |]; cbn [resR] in R; cbn [bind];
    try contradiction; try exact R.
  destruct (writer_input_R a b R) as [-> ->].
  destruct (generate (s_timebase b) (tracks_for_writer b)); cbn [bind resR fst]; reflexivity.
Qed.

(* ------------------------------------------------------------------------------------------ *)
(* 10. the statements of props/C08.v                                                            *)
(* ------------------------------------------------------------------------------------------ *)
Theorem language_lexer : forall (j1 j2 : bool) (tb : Z) (vars : list (list Z * vval)) (rhythm : list (Z * list Z)) (src : list Z) (ln : Z),
  match lex (mkLex tb [] vars rhythm j1) src ln, lex (mkLex tb [] vars rhythm j2) src ln with
  | Ok (toks1, ls1), Ok (toks2, ls2) =>
      toks1 = toks2 /\ lx_timebase ls1 = lx_timebase ls2 /\ lx_vars ls1 = lx_vars ls2 /\ lx_rhythm ls1 = lx_rhythm ls2 /\
      Forall2 txtR (lx_logs ls1) (lx_logs ls2)
  | Panic p, Panic q => p = q
  | OutOfFuel, OutOfFuel => True
  | Unsupported u, Unsupported v => u = v
  | _, _ => False
  end.
Proof.
  intros j1 j2 tb vars rhythm src ln.
  pose proof (lex_R (mkLex tb [] vars rhythm j1) (mkLex tb [] vars rhythm j2) src ln (lsR_mk _ _ _ _ _ _ _ (logR_refl []))) as L.
  destruct (lex (mkLex tb [] vars rhythm j1) src ln) as [[t1 l1]| | |], (lex (mkLex tb [] vars rhythm j2) src ln) as [[t2 l2]| | |];
    cbn [outR resR fst snd] in L; try contradiction; exact L.
Qed.
Theorem language_noninterference : forall (j1 j2 : bool) (src : list Z),
  match compile_lang j1 src, compile_lang j2 src with
  | Ok (bytes1, _), Ok (bytes2, _) => bytes1 = bytes2
  | Panic p, Panic q => p = q
  | OutOfFuel, OutOfFuel => True
  | Unsupported u, Unsupported v => u = v
  | _, _ => False
  end.
Proof.
  intros j1 j2 src. pose proof (compile_lang_R j1 j2 src) as H.
  destruct (compile_lang j1 src) as [[b1 g1]| | |], (compile_lang j2 src) as [[b2 g2]| | |]; exact H.
Qed.
Theorem language_only_in_log : forall (j1 j2 : bool) (src : list Z),
  match run_source_lang j1 src, run_source_lang j2 src with
  | Ok s1, Ok s2 =>
      s_set_ja (s_set_logs s1 []) false = s_set_ja (s_set_logs s2 []) false /\
      Forall2 txtR (s_logs s1) (s_logs s2) /\ length (s_logs s1) = length (s_logs s2)
  | Panic p, Panic q => p = q
  | OutOfFuel, OutOfFuel => True
  | Unsupported u, Unsupported v => u = v
  | _, _ => False
  end.
Proof.
  intros j1 j2 src. pose proof (run_source_lang_R j1 j2 src) as H.
  destruct (run_source_lang j1 src) as [a| | |], (run_source_lang j2 src) as [b| | |]; cbn [resR] in H; try exact H.
  destruct H as [E L]. split; [exact E|]. split; [exact L|apply logR_length, L].
Qed.
(* txtR relates only texts made of the same pieces: it keeps emptiness apart (every catalogue message is non-empty) *)
Lemma txtR_nil a b : txtR a b -> (a = [] <-> b = []).
Proof.
  induction 1 as [l|m j1 j2 Hin|a b c d H1 IH1 H2 IH2].
  - tauto.
  - cbv [all_messages In] in Hin.
    repeat (destruct Hin as [<-|Hin]; [destruct j1, j2; split; intros E; discriminate E|]). contradiction.
  - split; intros E; apply app_eq_nil in E; destruct E as [E1 E2]; [apply IH1 in E1; apply IH2 in E2|apply IH1 in E1; apply IH2 in E2]; subst; reflexivity.
Qed.
