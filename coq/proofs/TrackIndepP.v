(* C12 - tracks are independent: default channels of created tracks, TrackSync, and the frame /
   independence of the track-local arms of RunCore.step_song. *)
From Sakura.Model Require Import Base Cursor Length Event Song Token LoopMachine LexCore RunCore RunRsv.
From Sakura.Proofs Require Import ExtP BlockP.
Open Scope Z_scope.

Notation dtrk := (track_new 0 0).

(* ------------------------------------------------------------------------------------------------ *)
(* 1. change_cur_track                                                                                *)

Definition default_track (tb : Z) (i : nat) : track := track_new tb (Z.of_nat i - 1).

Lemma add_tracks_seq tb : forall k l,
  add_tracks k tb l = l ++ map (default_track tb) (seq (length l) k).
Proof.
  induction k as [|k IH]; intros l; cbn [add_tracks seq map]; [rewrite app_nil_r; reflexivity|].
  rewrite IH, app_length, <- app_assoc. cbn [length app]. unfold default_track at 2, zlen.
  replace (length l + 1)%nat with (S (length l)) by lia. reflexivity.
Qed.

Lemma track_new_channel tb c : tr_channel (track_new tb c) = Z.max 0 (Z.min 15 c).
Proof. unfold track_new. cbn [tr_channel]. destruct (Z.ltb_spec c 0); [lia|]. destruct (Z.gtb_spec c 15); lia. Qed.

(* a pending octave-once is undone on the track it was written on (the old current track) and cleared *)
Lemma settle_octave_once_law s :
  let s1 := settle_octave_once s in
  s_octave_once s1 = 0 /\ s_cur s1 = s_cur s /\ length (s_tracks s1) = length (s_tracks s) /\
  (forall i, i <> s_cur s -> nth i (s_tracks s1) dtrk = nth i (s_tracks s) dtrk) /\
  (cur_ok s -> cur_track s1 = tr_set_octave (cur_track s) (tr_octave (cur_track s) - s_octave_once s)) /\
  s_set_octave_once (s_set_tracks s1 []) 0 = s_set_octave_once (s_set_tracks s []) 0 /\
  (s_octave_once s = 0 -> s1 = s).
Proof.
  unfold settle_octave_once. destruct (Z.eqb_spec (s_octave_once s) 0) as [E|E].
  - repeat split; try assumption; try reflexivity. intros Hc. rewrite E, Z.sub_0_r. destruct (cur_track s); reflexivity.
  - split; [reflexivity|]. split; [reflexivity|].
    split; [cbn [s_tracks s_set_octave_once upd_cur s_set_tracks]; apply upd_nth_length|].
    split; [intros i Hi; cbn [s_tracks s_set_octave_once]; apply upd_cur_other; exact Hi|].
    split; [|split; [reflexivity|intros E'; contradiction]]. intros Hc. unfold cur_track at 1. cbn [s_tracks s_cur s_set_octave_once].
    exact (cur_track_upd_cur s (fun t => tr_set_octave t (tr_octave t - s_octave_once s)) Hc).
Qed.

Theorem change_cur_track_law s n :
  let s' := change_cur_track s n in
  let s0 := settle_octave_once s in
  let old := length (s_tracks s) in
  s_cur s' = n /\ cur_ok s' /\
  s_set_cur (s_set_tracks s' []) 0 = s_set_cur (s_set_tracks s0 []) 0 /\
  s_tracks s' = s_tracks s0 ++ map (default_track (s_timebase s)) (seq old (S n - old)) /\
  length (s_tracks s') = Nat.max old (S n) /\
  (forall i, (i < old)%nat -> nth i (s_tracks s') dtrk = nth i (s_tracks s0) dtrk) /\
  (forall i, (i < old)%nat -> i <> s_cur s -> nth i (s_tracks s') dtrk = nth i (s_tracks s) dtrk) /\
  (forall i, (old <= i < length (s_tracks s'))%nat ->
     nth i (s_tracks s') dtrk = track_new (s_timebase s) (Z.of_nat i - 1) /\
     tr_channel (nth i (s_tracks s') dtrk) = Z.max 0 (Z.min 15 (Z.of_nat i - 1))).
Proof.
  intros s' s0 old. destruct (settle_octave_once_law s) as [_ [_ [L0 [O0 _]]]]. fold s0 in L0, O0.
  assert (Htb : s_timebase s0 = s_timebase s) by (unfold s0, settle_octave_once; destruct (_ =? _); reflexivity).
  unfold s', change_cur_track. fold s0. cbn [s_cur s_tracks s_set_cur s_set_tracks].
  rewrite add_tracks_seq, L0, Htb. fold old.
  assert (Hlen : length (s_tracks s0 ++ map (default_track (s_timebase s)) (seq old (S n - old))) = Nat.max old (S n))
    by (rewrite app_length, map_length, seq_length, L0; fold old; lia).
  split; [reflexivity|]. split; [unfold cur_ok; cbn [s_cur s_tracks s_set_cur s_set_tracks]; rewrite Hlen; lia|].
  split; [reflexivity|]. split; [reflexivity|]. split; [exact Hlen|].
  assert (Hold : forall i, (i < old)%nat ->
            nth i (s_tracks s0 ++ map (default_track (s_timebase s)) (seq old (S n - old))) dtrk = nth i (s_tracks s0) dtrk)
    by (intros i Hi; apply app_nth1; rewrite L0; exact Hi).
  split; [exact Hold|]. split; [intros i Hi Hne; rewrite (Hold i Hi); apply O0; exact Hne|].
  intros i [Hlo Hhi]. rewrite Hlen in Hhi.
  rewrite app_nth2 by (rewrite L0; exact Hlo). rewrite L0. fold old.
  assert (Hi : (i - old < length (seq old (S n - old)))%nat) by (rewrite seq_length; lia).
  rewrite (nth_indep _ dtrk (default_track (s_timebase s) 0)) by (rewrite map_length; exact Hi).
  rewrite map_nth. rewrite seq_nth by (rewrite seq_length in Hi; exact Hi).
  replace (old + (i - old))%nat with i by lia. unfold default_track. split; [reflexivity|apply track_new_channel].
Qed.

Lemma change_cur_track_existing s n : (n < length (s_tracks s))%nat ->
  change_cur_track s n = s_set_cur (settle_octave_once s) n.
Proof.
  intros H. unfold change_cur_track. destruct (settle_octave_once_law s) as [_ [_ [L0 _]]]. rewrite L0.
  replace (S n - length (s_tracks s))%nat with O by lia.
  cbn [add_tracks]. rewrite s_set_tracks_same. reflexivity.
Qed.

Lemma change_cur_track_settled s n : s_octave_once (change_cur_track s n) = 0.
Proof.
  unfold change_cur_track. cbn [s_octave_once s_set_cur s_set_tracks]. apply (settle_octave_once_law s).
Qed.

(* whatever order the tracks are first used in: after any sequence of track switches the tracks beyond
   the original ones are the default tracks of their own numbers (the original ones are unchanged, except
   that an octave-once pending at the first switch is undone on the track it was written on) *)
Theorem change_cur_track_any_order ns : forall s,
  let s' := fold_left change_cur_track ns s in
  exists k l0, s_tracks s' = l0 ++ map (default_track (s_timebase s)) (seq (length (s_tracks s)) k) /\
               length l0 = length (s_tracks s) /\ (s_octave_once s = 0 -> l0 = s_tracks s) /\
               s_timebase s' = s_timebase s.
Proof.
  induction ns as [|n ns IH]; intros s; cbn [fold_left].
  - exists O, (s_tracks s). cbn [seq map]. rewrite app_nil_r. repeat split; reflexivity.
  - destruct (IH (change_cur_track s n)) as [k [l1 [Ht [Hl1 [Hz Hb]]]]].
    specialize (Hz (change_cur_track_settled s n)). subst l1.
    destruct (change_cur_track_law s n) as [_ [_ [_ [Hs [Hl _]]]]].
    destruct (settle_octave_once_law s) as [_ [_ [L0 [_ [_ [_ Hid]]]]]].
    set (old := length (s_tracks s)) in *.
    assert (Htb : s_timebase (change_cur_track s n) = s_timebase s)
      by (unfold change_cur_track, settle_octave_once; destruct (_ =? _); reflexivity).
    exists ((S n - old) + k)%nat, (s_tracks (settle_octave_once s)).
    split; [|split; [exact L0|split; [intros Ho; rewrite (Hid Ho); reflexivity|rewrite Hb; exact Htb]]].
    rewrite Ht, Htb, Hl. rewrite Hs at 1. rewrite <- app_assoc, <- map_app. f_equal. f_equal.
    rewrite seq_app. f_equal. f_equal. lia.
Qed.

(* ------------------------------------------------------------------------------------------------ *)
(* 2. track_sync                                                                                      *)

Theorem track_sync_law s :
  let s' := track_sync s in
  let tp := tr_timepos (cur_track s) in
  s_set_tracks s' [] = s_set_tracks s [] /\
  length (s_tracks s') = length (s_tracks s) /\
  (forall i, (i < length (s_tracks s))%nat ->
     nth i (s_tracks s') dtrk = tr_set_timepos (nth i (s_tracks s) dtrk) tp /\
     tr_timepos (nth i (s_tracks s') dtrk) = tp) /\
  (cur_ok s -> cur_track s' = cur_track s).
Proof.
  intros s' tp. unfold s', track_sync. fold tp. cbn [s_tracks s_set_tracks].
  split; [reflexivity|]. split; [apply map_length|]. split.
  - intros i Hi. rewrite (nth_indep _ dtrk (tr_set_timepos dtrk tp)) by (rewrite map_length; exact Hi).
    rewrite (map_nth (fun t => tr_set_timepos t tp)). split; reflexivity.
  - intros Hc. unfold cur_track at 1. cbn [s_tracks s_cur s_set_tracks].
    rewrite (nth_indep _ dtrk (tr_set_timepos dtrk tp)) by (rewrite map_length; exact Hc).
    rewrite (map_nth (fun t => tr_set_timepos t tp)). fold (cur_track s). unfold tp. apply tr_set_timepos_same.
Qed.

(* ------------------------------------------------------------------------------------------------ *)
(* 3. track-local tokens: frame and independence                                                      *)

Definition track_local (t : tok) : bool :=
  match t with
  | TNote _ _ _ _ _ _ _ _ _ | TNoteN _ _ _ _ _ _ | TRest _ _ | TLength _
  | TOctave _ | TOctaveRel _ | TOctaveOnce _ | TVelocity _ _ | TVelocityRel _
  | TQLen _ | TQLenRel _ | TTiming _ | TChannel _ | TTrackKey _ | TVoice _
  | THarmonyBegin | THarmonyEnd _ _ _
  | TCC _ _ | TPitchBend _ _ | TRpnCmd _ _ _ _               (* controller / bend events on the current track *)
  | TRandom _ _ | TOnNote _ _ _ | TVOnTime _ | TCCOnTime _ _ | TCCOnNote _ _ | TCCOnNoteWave _ _ | TCCFreq _
  | TPBOnTime _ _ | TDecresc _ _ _ => true                   (* reservations of the current track *)
  | TMetaText _ _ | TPort _ => true                          (* a meta event on the current track *)
  | TSysexReset _ | TSysExCommand _ _ | TGSEffect _ _ _ => true   (* a system exclusive event on the current track (SysEx may write a log entry) *)
  | _ => false
  end.

(* projections through the setters (all by computation; independent of how the setters are written) *)
Lemma pj_tracks_upd_cur s f : s_tracks (upd_cur s f) = upd_nth (s_cur s) f (s_tracks s). Proof. reflexivity. Qed.
Lemma pj_tracks_harm s a b c : s_tracks (s_set_harmony s a b c) = s_tracks s. Proof. reflexivity. Qed.
Lemma pj_tracks_oo s v : s_tracks (s_set_octave_once s v) = s_tracks s. Proof. reflexivity. Qed.
Lemma pj_tracks_set s l : s_tracks (s_set_tracks s l) = l. Proof. reflexivity. Qed.
Lemma pj_cur_upd_cur s f : s_cur (upd_cur s f) = s_cur s. Proof. reflexivity. Qed.
Lemma pj_cur_harm s a b c : s_cur (s_set_harmony s a b c) = s_cur s. Proof. reflexivity. Qed.
Lemma pj_cur_oo s v : s_cur (s_set_octave_once s v) = s_cur s. Proof. reflexivity. Qed.
Lemma pj_cur_set s l : s_cur (s_set_tracks s l) = s_cur s. Proof. reflexivity. Qed.
Lemma pj_tb_upd_cur s f : s_timebase (upd_cur s f) = s_timebase s. Proof. reflexivity. Qed.
Lemma pj_tb_harm s a b c : s_timebase (s_set_harmony s a b c) = s_timebase s. Proof. reflexivity. Qed.
Lemma pj_tb_oo s v : s_timebase (s_set_octave_once s v) = s_timebase s. Proof. reflexivity. Qed.
Lemma pj_tb_set s l : s_timebase (s_set_tracks s l) = s_timebase s. Proof. reflexivity. Qed.
Lemma pj_hf_upd_cur s f : s_harmony_flag (upd_cur s f) = s_harmony_flag s. Proof. reflexivity. Qed.
Lemma pj_hf_harm s a b c : s_harmony_flag (s_set_harmony s a b c) = a. Proof. reflexivity. Qed.
Lemma pj_hf_oo s v : s_harmony_flag (s_set_octave_once s v) = s_harmony_flag s. Proof. reflexivity. Qed.
Lemma pj_he_upd_cur s f : s_harmony_events (upd_cur s f) = s_harmony_events s. Proof. reflexivity. Qed.
Lemma pj_he_harm s a b c : s_harmony_events (s_set_harmony s a b c) = c. Proof. reflexivity. Qed.
Lemma pj_he_oo s v : s_harmony_events (s_set_octave_once s v) = s_harmony_events s. Proof. reflexivity. Qed.
Lemma pj_oo_upd_cur s f : s_octave_once (upd_cur s f) = s_octave_once s. Proof. reflexivity. Qed.
Lemma pj_oo_harm s a b c : s_octave_once (s_set_harmony s a b c) = s_octave_once s. Proof. reflexivity. Qed.
Lemma pj_oo_oo s v : s_octave_once (s_set_octave_once s v) = v. Proof. reflexivity. Qed.
Lemma pj_tracks_seed s v : s_tracks (s_set_rand_seed s v) = s_tracks s. Proof. reflexivity. Qed.
Lemma pj_cur_seed s v : s_cur (s_set_rand_seed s v) = s_cur s. Proof. reflexivity. Qed.
Lemma pj_tb_seed s v : s_timebase (s_set_rand_seed s v) = s_timebase s. Proof. reflexivity. Qed.
Lemma pj_hf_seed s v : s_harmony_flag (s_set_rand_seed s v) = s_harmony_flag s. Proof. reflexivity. Qed.
Lemma pj_he_seed s v : s_harmony_events (s_set_rand_seed s v) = s_harmony_events s. Proof. reflexivity. Qed.
Lemma pj_oo_seed s v : s_octave_once (s_set_rand_seed s v) = s_octave_once s. Proof. reflexivity. Qed.
Ltac pj := repeat rewrite ?pj_tracks_seed, ?pj_cur_seed, ?pj_tb_seed, ?pj_hf_seed, ?pj_he_seed, ?pj_oo_seed, ?pj_tracks_upd_cur, ?pj_tracks_harm, ?pj_tracks_oo, ?pj_tracks_set, ?pj_cur_upd_cur, ?pj_cur_harm,
             ?pj_cur_oo, ?pj_cur_set, ?pj_tb_upd_cur, ?pj_tb_harm, ?pj_tb_oo, ?pj_tb_set, ?pj_hf_upd_cur, ?pj_hf_harm, ?pj_hf_oo,
             ?pj_he_upd_cur, ?pj_he_harm, ?pj_he_oo, ?pj_oo_upd_cur, ?pj_oo_harm, ?pj_oo_oo.
Ltac pj_in H := repeat rewrite ?pj_tracks_seed, ?pj_cur_seed, ?pj_tb_seed, ?pj_tracks_upd_cur, ?pj_tracks_harm, ?pj_tracks_oo, ?pj_tracks_set, ?pj_cur_upd_cur, ?pj_cur_harm,
             ?pj_cur_oo, ?pj_cur_set, ?pj_tb_upd_cur, ?pj_tb_harm, ?pj_tb_oo, ?pj_tb_set in H.

(* only the current track may differ *)
Definition frame_rel (s s' : song) : Prop :=
  s_cur s' = s_cur s /\ length (s_tracks s') = length (s_tracks s) /\
  (forall i, i <> s_cur s -> nth i (s_tracks s') dtrk = nth i (s_tracks s) dtrk) /\
  s_timebase s' = s_timebase s.

Ltac frame_leaf :=
  split; [reflexivity|]; split;
  [pj; rewrite ?upd_nth_length; reflexivity|];
  split; [|reflexivity];
  intros i Hi; pj; rewrite ?nth_upd_nth_neq by exact Hi; reflexivity.

Lemma emit_note_frame s ev nl b slur s' : emit_note s ev nl b slur = Ok s' -> frame_rel s s'.
Proof.
  unfold emit_note.
  repeat match goal with |- context [if ?c then _ else _] => destruct c end;
    try discriminate; intros E; injection E as <-; frame_leaf.
Qed.

Lemma frame_rel_trans a b c : frame_rel a b -> frame_rel b c -> frame_rel a c.
Proof.
  intros (A1 & A2 & A3 & A4) (B1 & B2 & B3 & B4). split; [congruence|]. split; [congruence|]. split; [|congruence].
  intros i Hi. rewrite B3 by (rewrite A1; exact Hi). apply A3, Hi.
Qed.
Lemma frame_advance s F sd : frame_rel s (s_set_rand_seed (upd_cur s F) sd).
Proof. frame_leaf. Qed.
Lemma exec_note_frame s base flag natural len qlen vel timing oct slur s' :
  exec_note s base flag natural len qlen vel timing oct slur = Ok s' -> frame_rel s s'.
Proof.
  unfold exec_note. destr_pairs. intros E. apply emit_note_frame in E. eapply frame_rel_trans; [apply frame_advance|exact E].
Qed.
Lemma exec_note_n_frame s no len qlen vel timing slur s' :
  exec_note_n s no len qlen vel timing slur = Ok s' -> frame_rel s s'.
Proof.
  unfold exec_note_n. destr_pairs. intros E. apply emit_note_frame in E. eapply frame_rel_trans; [apply frame_advance|exact E].
Qed.

Theorem step_frame ec t s s' : track_local t = true -> step_song ec t s = Ok s' -> frame_rel s s'.
Proof.
  destruct t; cbn [track_local]; try discriminate; intros _; cbn [step_song];
  first
  [ solve [intros E; injection E as <-; frame_leaf]
  | solve [unfold add_events; intros E; injection E as <-; frame_leaf]
  | solve [destruct (_ && _); [|discriminate]; unfold add_events; intros E; injection E as <-; frame_leaf]   (* guarded arms *)
  | solve [intros E; apply exec_gs_effect_cases in E; destruct E as (evs & _ & ->); unfold add_events; frame_leaf]
  | solve [apply exec_note_frame]
  | solve [apply exec_note_n_frame]
  | solve [unfold exec_rest, exec_harmony_end, exec_voice;
           repeat match goal with
                  | |- context [if ?b then _ else _] => destruct b
                  | |- context [match ?a with [] => _ | _ => _ end] => destruct a as [|a0 [|a1 ar]]
                  end;
           try discriminate; intros E; injection E as <-;
           first [frame_leaf | (split; [reflexivity|]; split; [reflexivity|]; split; reflexivity)]] ].
Qed.

(* the other tracks replaced by anything: l2 is any track list that has the same current track *)
Definition same_cur (s : song) (l2 : list track) : Prop :=
  cur_ok s /\ (s_cur s < length l2)%nat /\ nth (s_cur s) l2 dtrk = cur_track s.

Definition lift (s : song) (l2 : list track) (r : res song) : res song :=
  match r with
  | Ok s' => Ok (s_set_tracks s' (upd_nth (s_cur s) (fun _ => cur_track s') l2))
  | Panic x => Panic x | OutOfFuel => OutOfFuel | Unsupported w => Unsupported w
  end.

Lemma cur_track_swap s l2 : same_cur s l2 -> cur_track (s_set_tracks s l2) = cur_track s.
Proof. intros [_ [_ H]]. exact H. Qed.

(* a leaf: some updates of the current track and of the global flags *)
Ltac indep_leaf Hs :=
  destruct Hs as [Hc [Hc2 Hn]]; unfold lift; f_equal; apply song_eq; [reflexivity|];
  unfold cur_track, cur_ok in *; pj;
  rewrite ?upd_nth_upd_nth; rewrite ?nth_upd_nth_eq by exact Hc;
  match goal with
  | |- upd_nth ?c ?F ?l = _ => rewrite (upd_nth_const F dtrk l c); rewrite Hn; reflexivity
  | |- ?l = upd_nth ?c _ ?l => symmetry; apply (upd_nth_id _ dtrk); symmetry; exact Hn
  end.

Lemma emit_note_indep s l2 ev nl b slur : same_cur s l2 ->
  emit_note (s_set_tracks s l2) ev nl b slur = lift s l2 (emit_note s ev nl b slur).
Proof.
  intros Hs. unfold emit_note.
  change (s_octave_once (upd_cur (s_set_tracks s l2) (fun t => tr_set_timepos t (tr_timepos t + nl)))) with (s_octave_once s).
  change (s_octave_once (upd_cur s (fun t => tr_set_timepos t (tr_timepos t + nl)))) with (s_octave_once s).
  destruct b; [|indep_leaf Hs].
  destruct (s_octave_once s =? 0).
  - change (s_harmony_flag (upd_cur (s_set_tracks s l2) (fun t => tr_set_timepos t (tr_timepos t + nl)))) with (s_harmony_flag s).
    change (s_harmony_flag (upd_cur s (fun t => tr_set_timepos t (tr_timepos t + nl)))) with (s_harmony_flag s).
    destruct (s_harmony_flag s); [indep_leaf Hs|].
    destruct (slur >=? 1); [indep_leaf Hs|].
    assert (Ht : cur_track (upd_cur (s_set_tracks s l2) (fun t => tr_set_timepos t (tr_timepos t + nl)))
                 = cur_track (upd_cur s (fun t => tr_set_timepos t (tr_timepos t + nl)))).
    { destruct Hs as [Hc [Hc2 Hn]]. rewrite (cur_track_upd_cur s _ Hc).
      unfold cur_track at 1, upd_cur. cbn [s_tracks s_cur s_set_tracks]. rewrite nth_upd_nth_eq by exact Hc2. rewrite Hn. reflexivity. }
    rewrite Ht. destruct (negb _); indep_leaf Hs.
  - set (F := fun t => tr_set_timepos t (tr_timepos t + nl)).
    set (G := fun t => tr_set_octave t (tr_octave t - s_octave_once s)).
    change (s_harmony_flag (s_set_octave_once (upd_cur (upd_cur (s_set_tracks s l2) F) G) 0)) with (s_harmony_flag s).
    change (s_harmony_flag (s_set_octave_once (upd_cur (upd_cur s F) G) 0)) with (s_harmony_flag s).
    destruct (s_harmony_flag s); [indep_leaf Hs|].
    destruct (slur >=? 1); [indep_leaf Hs|].
    assert (Ht : cur_track (s_set_octave_once (upd_cur (upd_cur (s_set_tracks s l2) F) G) 0)
                 = cur_track (s_set_octave_once (upd_cur (upd_cur s F) G) 0)).
    { destruct Hs as [Hc [Hc2 Hn]]. unfold cur_track, upd_cur. cbn [s_tracks s_cur s_set_tracks s_set_octave_once].
      rewrite !upd_nth_upd_nth. rewrite nth_upd_nth_eq by exact Hc2. rewrite nth_upd_nth_eq by exact Hc.
      unfold cur_track in Hn. rewrite Hn. reflexivity. }
    rewrite Ht. destruct (negb _); indep_leaf Hs.
Qed.

(* the note arms first advance the reservations of the current track (and the seed): the same on any other tracks *)
Lemma advance_indep s l2 F sd ev nl b slur : same_cur s l2 ->
  emit_note (s_set_rand_seed (upd_cur (s_set_tracks s l2) F) sd) ev nl b slur
  = lift s l2 (emit_note (s_set_rand_seed (upd_cur s F) sd) ev nl b slur).
Proof.
  intros Hs. set (s1 := s_set_rand_seed (upd_cur s F) sd). set (l2' := upd_nth (s_cur s) F l2).
  change (s_set_rand_seed (upd_cur (s_set_tracks s l2) F) sd) with (s_set_tracks s1 l2').
  assert (Hs1 : same_cur s1 l2').
  { destruct Hs as [Hc [Hc2 Hn]]. split; [exact (cur_ok_upd_cur s F Hc)|]. split.
    - unfold l2'. rewrite upd_nth_length. exact Hc2.
    - change (cur_track s1) with (cur_track (upd_cur s F)). rewrite cur_track_upd_cur by exact Hc.
      change (s_cur s1) with (s_cur s). unfold l2'. rewrite nth_upd_nth_eq by exact Hc2. rewrite Hn. reflexivity. }
  rewrite (emit_note_indep s1 l2' ev nl b slur Hs1).
  destruct (emit_note s1 ev nl b slur) as [s'| | |]; cbn [lift]; try reflexivity.
  change (s_cur s1) with (s_cur s). unfold l2'. rewrite upd_nth_upd_nth. reflexivity.
Qed.
Lemma exec_note_indep s l2 base flag natural len qlen vel timing oct slur : same_cur s l2 ->
  exec_note (s_set_tracks s l2) base flag natural len qlen vel timing oct slur
  = lift s l2 (exec_note s base flag natural len qlen vel timing oct slur).
Proof.
  intros Hs. unfold exec_note, note_number, key_flag_at. rewrite (cur_track_swap s l2 Hs).
  cbn [s_timebase s_use_key_shift s_key_flag s_key_shift s_rand_seed s_set_tracks].
  destr_pairs. apply advance_indep. exact Hs.
Qed.
Lemma exec_note_n_indep s l2 no len qlen vel timing slur : same_cur s l2 ->
  exec_note_n (s_set_tracks s l2) no len qlen vel timing slur = lift s l2 (exec_note_n s no len qlen vel timing slur).
Proof.
  intros Hs. unfold exec_note_n. rewrite (cur_track_swap s l2 Hs).
  cbn [s_timebase s_key_shift s_rand_seed s_set_tracks].
  destr_pairs. apply advance_indep. exact Hs.
Qed.

(* the ControlChange arm as ONE update of the current track *)
Lemma cc_arm_eq s no (f : Z -> Z -> list event) : cur_ok s ->
  add_events (upd_cur s (fun t => on_rt t (fun k => Reserve.remove_cc_on_note_wave k no))) f
  = upd_cur s (fun t => tr_push_events (on_rt t (fun k => Reserve.remove_cc_on_note_wave k no))
                                       (f (tr_timepos (cur_track s)) (tr_channel (cur_track s)))).
Proof.
  intros Hc. unfold add_events. rewrite cur_track_upd_cur by exact Hc. rewrite upd_cur_upd_cur. reflexivity.
Qed.

Theorem step_indep ec t s l2 : track_local t = true -> same_cur s l2 ->
  step_song ec t (s_set_tracks s l2) = lift s l2 (step_song ec t s).
Proof.
  intros Ht Hs. pose proof (cur_track_swap s l2 Hs) as Hct.
  destruct t; cbn [track_local] in Ht; try discriminate; cbn [step_song];
  first
  [ solve [apply exec_note_indep; exact Hs]
  | solve [apply exec_note_n_indep; exact Hs]
  | solve [unfold add_events; rewrite ?Hct; indep_leaf Hs]
  | solve [destruct (_ && _); [|reflexivity]; unfold add_events; rewrite ?Hct; indep_leaf Hs]   (* guarded arms *)
  | solve [unfold exec_gs_effect; rewrite ?Hct; cbn [s_device s_set_tracks];
           match goal with |- context [Cmd.cmd_gs_effect ?a ?b ?c ?d ?e] => destruct (Cmd.cmd_gs_effect a b c d e) end;
           cbn [bind lift]; try reflexivity; unfold add_events; rewrite ?Hct; indep_leaf Hs]
  | solve [rewrite (cc_arm_eq s _ _ (proj1 Hs)), (cc_arm_eq (s_set_tracks s l2) _ _ (proj1 (proj2 Hs))); rewrite ?Hct; indep_leaf Hs]
  | solve [unfold exec_rest, exec_harmony_end, exec_voice; rewrite ?Hct;
           cbn [s_timebase s_octave_once s_v_add s_q_add s_harmony_flag s_harmony_time s_harmony_events s_set_tracks];
           repeat match goal with
                  | |- context [if ?b then _ else _] => destruct b
                  | |- context [match ?a with [] => _ | _ => _ end] => destruct a as [|a0 [|a1 ar]]
                  end;
           first [reflexivity | indep_leaf Hs]] ].
Qed.

(* ------------------------------------------------------------------------------------------------ *)
(* 4. blocks of track-local tokens                                                                    *)

Definition local_block (A : list tok) : Prop := Forall (fun t => track_local t = true) A.

Lemma frame_rel_refl s : frame_rel s s.
Proof. repeat split; reflexivity. Qed.

Lemma fold_steps_err ec A (r : res song) : (forall s, r <> Ok s) -> fold_steps ec A r = r.
Proof.
  induction A as [|t A IH]; intros H; [reflexivity|].
  change (fold_steps ec (t :: A) r) with (fold_steps ec A (step_tok ec t r)).
  destruct r as [s| | |]; [exfalso; apply (H s); reflexivity| | |]; cbn [step_tok bind]; apply IH; intros s; discriminate.
Qed.

Theorem fold_frame ec A : local_block A -> forall s s', fold_steps ec A (Ok s) = Ok s' -> frame_rel s s'.
Proof.
  induction 1 as [|t A Ht _ IH]; intros s s' E.
  - injection E as <-. apply frame_rel_refl.
  - rewrite fold_steps_cons in E. destruct (step_song ec t s) as [s1| | |] eqn:E1;
      try (rewrite fold_steps_err in E by (intros; discriminate); discriminate).
    apply (frame_rel_trans s s1 s'); [apply (step_frame ec t s s1 Ht E1)|apply IH; exact E].
Qed.

Theorem fold_indep ec A : local_block A -> forall s l2, same_cur s l2 ->
  fold_steps ec A (Ok (s_set_tracks s l2)) = lift s l2 (fold_steps ec A (Ok s)).
Proof.
  induction 1 as [|t A Ht _ IH]; intros s l2 Hs.
  - cbn [fold_steps fold_left lift]. f_equal. apply song_eq; [reflexivity|]. cbn [s_tracks s_set_tracks].
    symmetry. apply (upd_nth_id _ dtrk). symmetry. apply Hs.
  - rewrite !fold_steps_cons. rewrite (step_indep ec t s l2 Ht Hs).
    destruct (step_song ec t s) as [s1| | |] eqn:E1; cbn [lift];
      try (rewrite !fold_steps_err by (intros; discriminate); reflexivity).
    destruct (step_frame ec t s s1 Ht E1) as [F1 [F2 [F3 F4]]].
    destruct Hs as [Hc [Hc2 Hn]].
    assert (Hs1 : same_cur s1 (upd_nth (s_cur s) (fun _ => cur_track s1) l2)).
    { split; [unfold cur_ok in *; lia|]. rewrite F1, upd_nth_length. split; [exact Hc2|].
      apply nth_upd_nth_eq. exact Hc2. }
    rewrite (IH s1 _ Hs1). destruct (fold_steps ec A (Ok s1)) as [s2| | |]; cbn [lift]; try reflexivity.
    rewrite F1, upd_nth_upd_nth. reflexivity.
Qed.

Lemma frame_tracks s s' : frame_rel s s' ->
  s_tracks s' = upd_nth (s_cur s) (fun _ => nth (s_cur s) (s_tracks s') dtrk) (s_tracks s).
Proof.
  intros [F1 [F2 [F3 _]]]. apply (nth_ext _ _ dtrk dtrk); [rewrite upd_nth_length; exact F2|].
  intros n Hn. destruct (Nat.eq_dec n (s_cur s)) as [->|Hne].
  - rewrite nth_upd_nth_eq by lia. reflexivity.
  - rewrite nth_upd_nth_neq by exact Hne. apply F3. exact Hne.
Qed.

Lemma upd_nth_comm {A} (f g : A -> A) l : forall i j, i <> j -> upd_nth j g (upd_nth i f l) = upd_nth i f (upd_nth j g l).
Proof.
  induction l as [|x r IH]; intros [|i] [|j] H; cbn [upd_nth]; try reflexivity; try congruence.
  rewrite IH by congruence. reflexivity.
Qed.

(* everything of a song except its tracks and the current-track index *)
Definition globals_eq (a b : song) : Prop := s_set_cur (s_set_tracks a []) 0 = s_set_cur (s_set_tracks b []) 0.

Lemma globals_swap a b k : globals_eq a b -> s_set_cur a k = s_set_tracks (s_set_cur b k) (s_tracks a).
Proof. unfold globals_eq. destruct a, b; cbn. intros H. injection H. intros. subst. reflexivity. Qed.

(* the Track arm on an existing track: settle a pending octave-once on the old track, then switch *)
Lemma step_track_gen ec s i : (i < length (s_tracks s))%nat -> (i <= 999)%nat ->
  step_song ec (TTrack (Z.of_nat i)) s = Ok (s_set_cur (settle_octave_once s) i).
Proof.
  intros H1 H2. cbn [step_song]. destruct (Z.ltb_spec (Z.of_nat i) 0); [lia|]. destruct (Z.gtb_spec (Z.of_nat i) 999); [lia|].
  cbn [orb]. rewrite Nat2Z.id. rewrite change_cur_track_existing by exact H1. reflexivity.
Qed.

Lemma step_track ec s i : (i < length (s_tracks s))%nat -> (i <= 999)%nat -> s_octave_once s = 0 ->
  step_song ec (TTrack (Z.of_nat i)) s = Ok (s_set_cur s i).
Proof.
  intros H1 H2 Ho. rewrite (step_track_gen ec s i H1 H2). unfold settle_octave_once. rewrite Ho. reflexivity.
Qed.

Lemma globals_octave_once a b : globals_eq a b -> s_octave_once a = s_octave_once b.
Proof. unfold globals_eq. intros H. apply (f_equal s_octave_once) in H. exact H. Qed.

(* "TR(i) A TR(j) B" from s, given what A and B do on their own tracks and that A leaves the global flags
   (chord, octave-once) as it found them *)
Lemma two_blocks ec A B s i j sA sB :
  local_block A -> local_block B -> i <> j ->
  (i < length (s_tracks s))%nat -> (j < length (s_tracks s))%nat -> (i <= 999)%nat -> (j <= 999)%nat ->
  s_octave_once s = 0 ->
  fold_steps ec A (Ok (s_set_cur s i)) = Ok sA -> globals_eq sA s ->
  fold_steps ec B (Ok (s_set_cur s j)) = Ok sB ->
  fold_steps ec (TTrack (Z.of_nat i) :: A ++ TTrack (Z.of_nat j) :: B) (Ok s)
  = Ok (s_set_tracks sB (upd_nth j (fun _ => nth j (s_tracks sB) dtrk)
                           (upd_nth i (fun _ => nth i (s_tracks sA) dtrk) (s_tracks s)))).
Proof.
  intros HA HB Hij Hi Hj Hi9 Hj9 Ho EA GA EB.
  pose proof (fold_frame ec A HA _ _ EA) as FA. pose proof (fold_frame ec B HB _ _ EB) as FB.
  destruct FA as [A1 [A2 [A3 A4]]]. cbn [s_cur s_tracks s_set_cur] in A1, A2, A3.
  assert (HoA : s_octave_once sA = 0) by (rewrite (globals_octave_once sA s GA); exact Ho).
  rewrite fold_steps_cons, (step_track ec s i Hi Hi9 Ho), fold_steps_app, EA.
  rewrite fold_steps_cons, (step_track ec sA j) by (try rewrite A2; assumption).
  rewrite (globals_swap sA s j GA).
  assert (Hs : same_cur (s_set_cur s j) (s_tracks sA)).
  { split; [exact Hj|]. cbn [s_cur s_set_cur]. split; [rewrite A2; exact Hj|].
    unfold cur_track. cbn [s_cur s_tracks s_set_cur]. apply A3. congruence. }
  rewrite (fold_indep ec B HB _ _ Hs), EB. cbn [lift s_cur s_set_cur]. f_equal. f_equal.
  destruct FB as [B1 _]. cbn [s_cur s_set_cur] in B1. unfold cur_track. rewrite B1.
  rewrite (frame_tracks (s_set_cur s i) sA) at 1 by (repeat split; assumption).
  reflexivity.
Qed.

(* blocks addressed to different existing tracks commute *)
Theorem blocks_commute ec A B s i j sA sB :
  local_block A -> local_block B -> i <> j ->
  (i < length (s_tracks s))%nat -> (j < length (s_tracks s))%nat -> (i <= 999)%nat -> (j <= 999)%nat ->
  s_octave_once s = 0 ->
  fold_steps ec A (Ok (s_set_cur s i)) = Ok sA -> globals_eq sA s ->
  fold_steps ec B (Ok (s_set_cur s j)) = Ok sB -> globals_eq sB s ->
  exists r1 r2,
    fold_steps ec (TTrack (Z.of_nat i) :: A ++ TTrack (Z.of_nat j) :: B) (Ok s) = Ok r1 /\
    fold_steps ec (TTrack (Z.of_nat j) :: B ++ TTrack (Z.of_nat i) :: A) (Ok s) = Ok r2 /\
    s_tracks r1 = s_tracks r2 /\ globals_eq r1 r2 /\ s_cur r1 = j /\ s_cur r2 = i /\
    s_tracks r1 = upd_nth j (fun _ => nth j (s_tracks sB) dtrk) (upd_nth i (fun _ => nth i (s_tracks sA) dtrk) (s_tracks s)).
Proof.
  intros HA HB Hij Hi Hj Hi9 Hj9 Ho EA GA EB GB.
  eexists. eexists.
  split; [apply (two_blocks ec A B s i j sA sB); assumption|].
  split; [apply (two_blocks ec B A s j i sB sA); try assumption; congruence|].
  cbn [s_tracks s_set_tracks s_cur].
  destruct (fold_frame ec A HA _ _ EA) as [A1 _]. destruct (fold_frame ec B HB _ _ EB) as [B1 _].
  cbn [s_cur s_set_cur] in A1, B1.
  split; [apply upd_nth_comm; exact Hij|]. split; [|split; [exact B1|split; [exact A1|reflexivity]]].
  unfold globals_eq in *. cbn [s_set_tracks s_set_cur] in *.
  transitivity (s_set_cur (s_set_tracks s []) 0); [|symmetry]; assumption.
Qed.

(* ------------------------------------------------------------------------------------------------ *)
(* 5. the start tick remembered from the last chord (harmony_time) is dead while no chord is open      *)

Definition hnorm (s : song) : song :=
  if s_harmony_flag s then s else s_set_harmony s false 0 (s_harmony_events s).
Definition hnorm_res (r : res song) : res song :=
  match r with Ok s => Ok (hnorm s) | Panic x => Panic x | OutOfFuel => OutOfFuel | Unsupported w => Unsupported w end.

Lemma hnorm_tracks s : s_tracks (hnorm s) = s_tracks s.
Proof. unfold hnorm. destruct (s_harmony_flag s); reflexivity. Qed.
Lemma hnorm_cur s : s_cur (hnorm s) = s_cur s.
Proof. unfold hnorm. destruct (s_harmony_flag s); reflexivity. Qed.
Lemma hnorm_octave_once s : s_octave_once (hnorm s) = s_octave_once s.
Proof. unfold hnorm. destruct (s_harmony_flag s); reflexivity. Qed.
Lemma hnorm_idem s : hnorm (hnorm s) = hnorm s.
Proof. unfold hnorm. destruct (s_harmony_flag s) eqn:F; [rewrite F; reflexivity|]. cbn [s_harmony_flag s_set_harmony]. reflexivity. Qed.

Ltac hnorm_leaf F :=
  unfold hnorm_res, hnorm; pj; rewrite ?F; reflexivity.

Lemma emit_note_hnorm s ev nl b slur : s_harmony_flag s = false ->
  hnorm_res (emit_note (s_set_harmony s false 0 (s_harmony_events s)) ev nl b slur) = hnorm_res (emit_note s ev nl b slur).
Proof.
  intros F. unfold emit_note, cur_track. pj.
  destruct b; [|hnorm_leaf F].
  destruct (s_octave_once s =? 0); pj; rewrite ?F;
    (destruct (slur >=? 1); [hnorm_leaf F|]); destruct (negb _); hnorm_leaf F.
Qed.

Lemma advance_hnorm s F sd ev nl b slur : s_harmony_flag s = false ->
  hnorm_res (emit_note (s_set_rand_seed (upd_cur (s_set_harmony s false 0 (s_harmony_events s)) F) sd) ev nl b slur)
  = hnorm_res (emit_note (s_set_rand_seed (upd_cur s F) sd) ev nl b slur).
Proof.
  intros Hf. set (s1 := s_set_rand_seed (upd_cur s F) sd).
  change (s_set_rand_seed (upd_cur (s_set_harmony s false 0 (s_harmony_events s)) F) sd)
    with (s_set_harmony s1 false 0 (s_harmony_events s1)).
  apply emit_note_hnorm. exact Hf.
Qed.
Lemma exec_note_hnorm s base flag natural len qlen vel timing oct slur : s_harmony_flag s = false ->
  hnorm_res (exec_note (s_set_harmony s false 0 (s_harmony_events s)) base flag natural len qlen vel timing oct slur)
  = hnorm_res (exec_note s base flag natural len qlen vel timing oct slur).
Proof.
  intros Hf. unfold exec_note, note_number, key_flag_at.
  change (cur_track (s_set_harmony s false 0 (s_harmony_events s))) with (cur_track s).
  cbn [s_timebase s_use_key_shift s_key_flag s_key_shift s_rand_seed s_set_harmony s_set_harmony_flag s_set_harmony_time s_set_harmony_events].
  destr_pairs. apply advance_hnorm. exact Hf.
Qed.
Lemma exec_note_n_hnorm s no len qlen vel timing slur : s_harmony_flag s = false ->
  hnorm_res (exec_note_n (s_set_harmony s false 0 (s_harmony_events s)) no len qlen vel timing slur)
  = hnorm_res (exec_note_n s no len qlen vel timing slur).
Proof.
  intros Hf. unfold exec_note_n.
  change (cur_track (s_set_harmony s false 0 (s_harmony_events s))) with (cur_track s).
  cbn [s_timebase s_key_shift s_rand_seed s_set_harmony s_set_harmony_flag s_set_harmony_time s_set_harmony_events].
  destr_pairs. apply advance_hnorm. exact Hf.
Qed.

Theorem step_hnorm ec t s : track_local t = true ->
  hnorm_res (step_song ec t (hnorm s)) = hnorm_res (step_song ec t s).
Proof.
  intros Ht. unfold hnorm at 1. destruct (s_harmony_flag s) eqn:F; [reflexivity|].
  destruct t; cbn [track_local] in Ht; try discriminate; cbn [step_song];
  first
  [ solve [hnorm_leaf F]
  | solve [unfold add_events, cur_track; pj; hnorm_leaf F]
  | solve [destruct (_ && _); [|reflexivity]; unfold add_events, cur_track; pj; hnorm_leaf F]   (* guarded arms *)
  | solve [unfold exec_gs_effect, cur_track; pj; cbn [s_device s_set_harmony s_set_harmony_flag s_set_harmony_time s_set_harmony_events];
           match goal with |- context [Cmd.cmd_gs_effect ?a ?b ?c ?d ?e] => destruct (Cmd.cmd_gs_effect a b c d e) end;
           cbn [bind]; try reflexivity; unfold add_events, cur_track; pj; hnorm_leaf F]
  | solve [apply exec_note_hnorm; exact F]
  | solve [apply exec_note_n_hnorm; exact F]
  | solve [change (cur_track (s_set_harmony s false 0 (s_harmony_events s))) with (cur_track s);
           change (s_timebase (s_set_harmony s false 0 (s_harmony_events s))) with (s_timebase s);
           match goal with |- context [if ?b then _ else _] => destruct b end; [reflexivity|hnorm_leaf F]]
  | solve [unfold exec_rest, exec_harmony_end, exec_voice; pj; rewrite ?F; lazy beta iota;
           repeat match goal with
                  | |- context [if ?b then _ else _] => destruct b
                  | |- context [match ?a with [] => _ | _ => _ end] => destruct a as [|a0 [|a1 ar]]
                  end;
           first [reflexivity | hnorm_leaf F]] ].
Qed.

Lemma fold_hnorm_res ec A : local_block A -> forall r1 r2,
  hnorm_res r1 = hnorm_res r2 -> hnorm_res (fold_steps ec A r1) = hnorm_res (fold_steps ec A r2).
Proof.
  induction 1 as [|t A Ht _ IH]; intros r1 r2 E; [exact E|].
  change (fold_steps ec (t :: A) r1) with (fold_steps ec A (step_tok ec t r1)).
  change (fold_steps ec (t :: A) r2) with (fold_steps ec A (step_tok ec t r2)).
  apply IH. destruct r1 as [a| | |], r2 as [b| | |]; cbn [hnorm_res] in E; try discriminate; try exact E.
  cbn [step_tok bind]. injection E as E.
  rewrite <- (step_hnorm ec t a Ht), <- (step_hnorm ec t b Ht), E. reflexivity.
Qed.

Lemma fold_hnorm ec A s : local_block A ->
  hnorm_res (fold_steps ec A (Ok (hnorm s))) = hnorm_res (fold_steps ec A (Ok s)).
Proof. intros HA. apply fold_hnorm_res; [exact HA|]. cbn [hnorm_res]. rewrite hnorm_idem. reflexivity. Qed.

Lemma hnorm_res_ok r s : hnorm_res r = Ok s -> exists s0, r = Ok s0 /\ hnorm s0 = s.
Proof. destruct r as [a| | |]; cbn [hnorm_res]; try discriminate. intros E; injection E as <-. exists a. split; reflexivity. Qed.

Lemma hnorm_set_cur s k : hnorm (s_set_cur s k) = s_set_cur (hnorm s) k.
Proof. unfold hnorm. cbn [s_harmony_flag s_set_cur]. destruct (s_harmony_flag s); reflexivity. Qed.

Lemma hnorm_set_tracks s l : hnorm (s_set_tracks s l) = s_set_tracks (hnorm s) l.
Proof. unfold hnorm. cbn [s_harmony_flag s_set_tracks]. destruct (s_harmony_flag s); reflexivity. Qed.

Lemma lift_hnorm s l2 r : hnorm_res (lift s l2 r) = lift s l2 (hnorm_res r).
Proof.
  destruct r as [a| | |]; cbn [lift hnorm_res]; try reflexivity.
  rewrite hnorm_set_tracks. unfold cur_track. rewrite hnorm_tracks, hnorm_cur. reflexivity.
Qed.

(* "TR(i) A TR(j) B" when A leaves the global registers as found UP TO the dead harmony_time *)
Lemma two_blocks_h ec A B s i j sA sB :
  local_block A -> local_block B -> i <> j ->
  (i < length (s_tracks s))%nat -> (j < length (s_tracks s))%nat -> (i <= 999)%nat -> (j <= 999)%nat ->
  s_octave_once s = 0 ->
  fold_steps ec A (Ok (s_set_cur s i)) = Ok sA -> globals_eq (hnorm sA) (hnorm s) ->
  fold_steps ec B (Ok (s_set_cur s j)) = Ok sB ->
  exists r, fold_steps ec (TTrack (Z.of_nat i) :: A ++ TTrack (Z.of_nat j) :: B) (Ok s) = Ok r /\
    hnorm r = s_set_tracks (hnorm sB) (upd_nth j (fun _ => nth j (s_tracks sB) dtrk)
                                         (upd_nth i (fun _ => nth i (s_tracks sA) dtrk) (s_tracks s))).
Proof.
  intros HA HB Hij Hi Hj Hi9 Hj9 Ho EA GA EB.
  pose proof (fold_frame ec A HA _ _ EA) as FA. pose proof (fold_frame ec B HB _ _ EB) as FB.
  destruct FA as [A1 [A2 [A3 A4]]]. cbn [s_cur s_tracks s_set_cur] in A1, A2, A3.
  assert (HoA : s_octave_once sA = 0)
    by (rewrite <- (hnorm_octave_once sA), (globals_octave_once _ _ GA), hnorm_octave_once; exact Ho).
  rewrite fold_steps_cons, (step_track ec s i Hi Hi9 Ho), fold_steps_app, EA.
  rewrite fold_steps_cons, (step_track ec sA j) by (try rewrite A2; assumption).
  (* the run of B from sA, up to hnorm *)
  assert (Hs : same_cur (hnorm (s_set_cur s j)) (s_tracks sA)).
  { unfold same_cur, cur_ok, cur_track. rewrite hnorm_tracks, hnorm_cur. cbn [s_cur s_tracks s_set_cur].
    split; [exact Hj|]. split; [rewrite A2; exact Hj|]. apply A3. congruence. }
  assert (E1 : hnorm (s_set_cur sA j) = s_set_tracks (hnorm (s_set_cur s j)) (s_tracks sA)).
  { rewrite !hnorm_set_cur. rewrite (globals_swap (hnorm sA) (hnorm s) j GA). rewrite hnorm_tracks. reflexivity. }
  assert (E2 : hnorm_res (fold_steps ec B (Ok (s_set_cur sA j)))
               = lift (hnorm (s_set_cur s j)) (s_tracks sA) (Ok (hnorm sB))).
  { rewrite <- (fold_hnorm ec B (s_set_cur sA j) HB), E1, (fold_indep ec B HB _ _ Hs), lift_hnorm.
    rewrite (fold_hnorm ec B (s_set_cur s j) HB), EB. reflexivity. }
  cbn [lift] in E2. apply hnorm_res_ok in E2. destruct E2 as [r [Er Hr]]. exists r. split; [exact Er|].
  rewrite Hr. f_equal. rewrite hnorm_cur. cbn [s_cur s_set_cur]. unfold cur_track. rewrite hnorm_tracks, hnorm_cur.
  destruct FB as [B1 _]. cbn [s_cur s_set_cur] in B1. rewrite B1.
  rewrite (frame_tracks (s_set_cur s i) sA) at 1 by (repeat split; assumption).
  reflexivity.
Qed.

(* blocks addressed to different existing tracks commute: same tracks, same global registers up to the
   dead harmony_time *)
Theorem blocks_commute_h ec A B s i j sA sB :
  local_block A -> local_block B -> i <> j ->
  (i < length (s_tracks s))%nat -> (j < length (s_tracks s))%nat -> (i <= 999)%nat -> (j <= 999)%nat ->
  s_octave_once s = 0 ->
  fold_steps ec A (Ok (s_set_cur s i)) = Ok sA -> globals_eq (hnorm sA) (hnorm s) ->
  fold_steps ec B (Ok (s_set_cur s j)) = Ok sB -> globals_eq (hnorm sB) (hnorm s) ->
  exists r1 r2,
    fold_steps ec (TTrack (Z.of_nat i) :: A ++ TTrack (Z.of_nat j) :: B) (Ok s) = Ok r1 /\
    fold_steps ec (TTrack (Z.of_nat j) :: B ++ TTrack (Z.of_nat i) :: A) (Ok s) = Ok r2 /\
    s_tracks r1 = s_tracks r2 /\ globals_eq (hnorm r1) (hnorm r2) /\ s_cur r1 = j /\ s_cur r2 = i /\
    s_tracks r1 = upd_nth j (fun _ => nth j (s_tracks sB) dtrk) (upd_nth i (fun _ => nth i (s_tracks sA) dtrk) (s_tracks s)).
Proof.
  intros HA HB Hij Hi Hj Hi9 Hj9 Ho EA GA EB GB.
  destruct (two_blocks_h ec A B s i j sA sB HA HB Hij Hi Hj Hi9 Hj9 Ho EA GA EB) as [r1 [E1 H1]].
  destruct (two_blocks_h ec B A s j i sB sA HB HA (not_eq_sym Hij) Hj Hi Hj9 Hi9 Ho EB GB EA) as [r2 [E2 H2]].
  exists r1, r2. split; [exact E1|]. split; [exact E2|].
  destruct (fold_frame ec A HA _ _ EA) as [A1 _]. destruct (fold_frame ec B HB _ _ EB) as [B1 _].
  cbn [s_cur s_set_cur] in A1, B1.
  assert (T1 : s_tracks r1 = upd_nth j (fun _ => nth j (s_tracks sB) dtrk) (upd_nth i (fun _ => nth i (s_tracks sA) dtrk) (s_tracks s)))
    by (rewrite <- (hnorm_tracks r1), H1; reflexivity).
  assert (T2 : s_tracks r2 = upd_nth i (fun _ => nth i (s_tracks sA) dtrk) (upd_nth j (fun _ => nth j (s_tracks sB) dtrk) (s_tracks s)))
    by (rewrite <- (hnorm_tracks r2), H2; reflexivity).
  split; [rewrite T1, T2; apply upd_nth_comm; exact Hij|].
  split; [|split; [rewrite <- (hnorm_cur r1), H1; cbn [s_cur s_set_tracks]; rewrite hnorm_cur; exact B1|
                   split; [rewrite <- (hnorm_cur r2), H2; cbn [s_cur s_set_tracks]; rewrite hnorm_cur; exact A1|exact T1]]].
  rewrite H1, H2. unfold globals_eq in *. cbn [s_set_tracks s_set_cur] in *.
  transitivity (s_set_cur (s_set_tracks (hnorm s) []) 0); [|symmetry]; assumption.
Qed.
