(* TimeBase and the default length: song_with_ls lets tracks that still have the default length follow the time base. *)
From Sakura.Model Require Import Base Cursor Length Event Song Token LexCore RunCore.
From Coq Require Import Lia.
Open Scope Z_scope.

Lemma follow_timebase_same tb t : follow_timebase tb tb t = t.
Proof. unfold follow_timebase. rewrite Z.eqb_refl. rewrite andb_false_r. reflexivity. Qed.

Lemma map_follow_same tb l : map (follow_timebase tb tb) l = l.
Proof. induction l as [|t l IH]; cbn [map]; [reflexivity|]. rewrite follow_timebase_same, IH. reflexivity. Qed.

(* only the default length changes *)
Lemma follow_timebase_cases old new t :
  follow_timebase old new t = t \/ follow_timebase old new t = tr_set_length t new.
Proof. unfold follow_timebase. destruct ((tr_length t =? old) && negb (old =? new)); auto. Qed.

Lemma follow_timebase_events old new t : tr_events (follow_timebase old new t) = tr_events t.
Proof. destruct (follow_timebase_cases old new t) as [-> | ->]; [reflexivity|]. destruct t; reflexivity. Qed.

Lemma follow_length old new l : length (map (follow_timebase old new) l) = length l.
Proof. apply map_length. Qed.

Lemma song_with_ls_same_tb s ls : lx_timebase ls = s_timebase s ->
  s_tracks (song_with_ls s ls) = s_tracks s.
Proof.
  intros H. unfold song_with_ls. rewrite H.
  destruct s; cbn. apply map_follow_same.
Qed.

Lemma song_with_ls_tracks s ls :
  s_tracks (song_with_ls s ls) = map (follow_timebase (s_timebase s) (lx_timebase ls)) (s_tracks s).
Proof. unfold song_with_ls. destruct s; reflexivity. Qed.
