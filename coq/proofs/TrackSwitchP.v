(* C12 - what stands between two blocks of one track - a switch to another track and back, or nothing - changes nothing on
   that track.
     1. the one-step law: `TR(j) TR(i)` executed on track i restores the song exactly, except that the tracks up to j exist
        afterwards (created with their defaults); a pending octave-once mark is the only thing a switch settles
     2. programs: "TR(i) A TR(j) B TR(i) C" and "TR(i) A C TR(j) B" build the same tracks (blocks as in TrackBlocksP)
     3. any number of blocks: every track is what the concatenation of its own blocks alone makes of it, so every rendering
        that keeps the order of the blocks of each track (any interleaving, or all blocks of a track under one track
        command) builds the same tracks *)
From Coq Require Import String.
From Sakura.Model Require Import Base Cursor Length Event Song Token LoopMachine LexCore RunCore RunRsv.
From Sakura.Spec Require Import LoopSpec.
From Sakura.Proofs Require Import LoopP BlockP ExtP TrackIndepP LoopParseP LoopExecP TrackBlocksP.
From Coq Require Import Lia.
Open Scope list_scope.
Open Scope Z_scope.

(* ------------------------------------------------------------------------------------------------ *)
(* 1. a switch and back                                                                               *)

(* the tracks missing up to number j, created with their defaults (nothing when j exists) *)
Definition new_tracks (s : song) (j : nat) : list track :=
  map (default_track (s_timebase s)) (seq (length (s_tracks s)) (S j - length (s_tracks s))).
Definition with_tracks_upto (s : song) (j : nat) : song := s_set_tracks s (s_tracks s ++ new_tracks s j).

Lemma settle_timebase s : s_timebase (settle_octave_once s) = s_timebase s.
Proof. unfold settle_octave_once. destruct (_ =? _); reflexivity. Qed.

Lemma step_track_any ec s j : (j <= 999)%nat -> step_song ec (TTrack (Z.of_nat j)) s = Ok (change_cur_track s j).
Proof.
  intros Hj. cbn [step_song]. destruct (Z.ltb_spec (Z.of_nat j) 0); [lia|]. destruct (Z.gtb_spec (Z.of_nat j) 999); [lia|].
  cbn [orb]. rewrite Nat2Z.id. reflexivity.
Qed.

Lemma change_cur_track_with s j :
  change_cur_track s j = s_set_cur (with_tracks_upto (settle_octave_once s) j) j.
Proof.
  unfold change_cur_track, with_tracks_upto, new_tracks. rewrite add_tracks_seq. reflexivity.
Qed.

(* the general form: a pending octave-once is settled (on the current track, where it was written), nothing else *)
Theorem switch_and_back_gen ec s j :
  cur_ok s -> (s_cur s <= 999)%nat -> (j <= 999)%nat ->
  fold_steps ec [TTrack (Z.of_nat j); TTrack (Z.of_nat (s_cur s))] (Ok s) = Ok (with_tracks_upto (settle_octave_once s) j).
Proof.
  intros Hc Hi Hj. rewrite fold_steps_cons, (step_track_any ec s j Hj), fold_steps_cons.
  destruct (settle_octave_once_law s) as [S1 [S2 [S3 _]]].
  rewrite (step_track_gen ec (change_cur_track s j) (s_cur s)); [|
    destruct (change_cur_track_law s j) as [_ [_ [_ [_ [L _]]]]]; rewrite L; unfold cur_ok in Hc; lia | exact Hi].
  cbn [fold_steps fold_left]. f_equal.
  assert (E : settle_octave_once (change_cur_track s j) = change_cur_track s j)
    by (apply settle_octave_once_law, change_cur_track_settled).
  rewrite E, change_cur_track_with. unfold with_tracks_upto. cbn [s_set_cur s_set_tracks s_tracks s_cur s_timebase].
  rewrite <- S2. destruct (settle_octave_once s); reflexivity.
Qed.

Lemma with_tracks_upto_existing s j : (j < length (s_tracks s))%nat -> with_tracks_upto s j = s.
Proof.
  intros H. unfold with_tracks_upto, new_tracks. replace (S j - length (s_tracks s))%nat with O by lia.
  cbn [seq map]. rewrite app_nil_r. apply s_set_tracks_same.
Qed.

Lemma with_tracks_upto_facts s j :
  let s' := with_tracks_upto s j in
  s_cur s' = s_cur s /\ (cur_ok s -> cur_track s' = cur_track s) /\ s_set_tracks s' [] = s_set_tracks s [] /\
  (forall k, (k < length (s_tracks s))%nat -> nth k (s_tracks s') dtrk = nth k (s_tracks s) dtrk) /\
  length (s_tracks s') = Nat.max (length (s_tracks s)) (S j) /\
  (forall k, (length (s_tracks s) <= k < length (s_tracks s'))%nat ->
     nth k (s_tracks s') dtrk = track_new (s_timebase s) (Z.of_nat k - 1)) /\
  ((j < length (s_tracks s))%nat -> s' = s).
Proof.
  intros s'. unfold s', with_tracks_upto, new_tracks. cbn [s_cur s_tracks s_set_tracks].
  set (old := length (s_tracks s)).
  assert (Hlen : length (s_tracks s ++ map (default_track (s_timebase s)) (seq old (S j - old))) = Nat.max old (S j))
    by (rewrite app_length, map_length, seq_length; fold old; lia).
  split; [reflexivity|]. split; [intros Hc; unfold cur_track; cbn [s_cur s_tracks s_set_tracks]; apply app_nth1; exact Hc|].
  split; [reflexivity|]. split; [intros k Hk; apply app_nth1; exact Hk|]. split; [exact Hlen|]. split.
  - intros k [Hlo Hhi]. rewrite Hlen in Hhi. rewrite app_nth2 by exact Hlo. fold old.
    assert (Hi : (k - old < length (seq old (S j - old)))%nat) by (rewrite seq_length; lia).
    rewrite (nth_indep _ dtrk (default_track (s_timebase s) 0)) by (rewrite map_length; exact Hi).
    rewrite map_nth, seq_nth by (rewrite seq_length in Hi; exact Hi).
    replace (old + (k - old))%nat with k by lia. reflexivity.
  - intros H. apply (with_tracks_upto_existing s j H).
Qed.

Theorem switch_and_back ec s j :
  cur_ok s -> (s_cur s <= 999)%nat -> (j <= 999)%nat -> s_octave_once s = 0 ->
  fold_steps ec [TTrack (Z.of_nat j); TTrack (Z.of_nat (s_cur s))] (Ok s) = Ok (with_tracks_upto s j).
Proof.
  intros Hc Hi Hj Ho. rewrite (switch_and_back_gen ec s j Hc Hi Hj).
  replace (settle_octave_once s) with s; [reflexivity|]. symmetry. apply settle_octave_once_law. exact Ho.
Qed.

(* the same for exec() itself *)
Theorem switch_and_back_exec d steps s j :
  cur_ok s -> (s_cur s <= 999)%nat -> (j <= 999)%nat -> s_octave_once s = 0 -> s_break_flag s = 0 -> (2 < steps)%nat ->
  exec_f (S d) steps [TTrack (Z.of_nat j); TTrack (Z.of_nat (s_cur s))] (Ok s) = Ok (with_tracks_upto s j).
Proof.
  intros Hc Hi Hj Ho Hb Hs. rewrite exec_f_loopfree; [apply switch_and_back; assumption|reflexivity|exact Hs|exact Hb].
Qed.

(* ------------------------------------------------------------------------------------------------ *)
(* 2. exec() of a concatenation                                                                       *)

Lemma parse_app X Y pX pY : parse_toks X = Some pX -> parse_toks Y = Some pY -> parse_toks (X ++ Y) = Some (papp pX pY).
Proof.
  intros EX EY. unfold parse_toks. rewrite map_app, <- (parse_toks_sound X pX EX), <- (parse_toks_sound Y pY EY), <- (flatten_app tok).
  apply parse_loops_complete.
Qed.

Lemma exec_app d steps X Y pX pY r :
  parse_toks X = Some pX -> parse_toks Y = Some pY -> (scost lbound pX + scost lbound pY < steps)%nat ->
  exec_f (S d) steps (X ++ Y) r = exec_f (S d) steps Y (exec_f (S d) steps X r).
Proof.
  intros EX EY H.
  rewrite (exec_f_parsed d steps _ _ r (parse_app X Y pX pY EX EY))
    by (pose proof (cost_bound (exec_f d steps) (papp pX pY) r); rewrite scost_papp in *; lia).
  rewrite sem_app.
  rewrite (exec_f_parsed d steps X pX r EX) by (pose proof (cost_bound (exec_f d steps) pX r); lia).
  rewrite (exec_f_parsed d steps Y pY _ EY)
    by (match goal with |- (LoopSpec.cost _ _ _ _ _ _ ?r0 < _)%nat => pose proof (cost_bound (exec_f d steps) pY r0) end; lia).
  reflexivity.
Qed.

Lemma parse_track x : parse_toks [TTrack x] = Some (PCons (Leaf (TTrack x)) PNil).
Proof. reflexivity. Qed.

Lemma exec_track d steps x r : (1 < steps)%nat ->
  exec_f (S d) steps [TTrack x] r = leafT (step_song (exec_f d steps) (TTrack x)) r.
Proof.
  intros H. rewrite (exec_f_parsed d steps _ _ r (parse_track x))
    by (pose proof (cost_bound (exec_f d steps) (PCons (Leaf (TTrack x)) PNil) r) as Hc; cbn [scost scost_item] in Hc; lia).
  reflexivity.
Qed.

Lemma exec_track_cons d steps x Y pY r : parse_toks Y = Some pY -> (scost lbound pY + 1 < steps)%nat ->
  exec_f (S d) steps (TTrack x :: Y) r = exec_f (S d) steps Y (leafT (step_song (exec_f d steps) (TTrack x)) r).
Proof.
  intros EY H. change (TTrack x :: Y) with ([TTrack x] ++ Y).
  rewrite (exec_app d steps [TTrack x] Y _ pY r (parse_track x) EY) by (cbn [scost scost_item]; lia).
  rewrite exec_track by lia. reflexivity.
Qed.

(* a track command addressed to the current track does nothing (no octave-once pending, not halted) *)
Lemma track_cur_id ec s : cur_ok s -> (s_cur s <= 999)%nat -> s_octave_once s = 0 -> s_break_flag s = 0 ->
  leafT (step_song ec (TTrack (Z.of_nat (s_cur s)))) (Ok s) = Ok s.
Proof.
  intros Hc Hi Ho Hb. unfold leafT. cbn [halted bind]. rewrite Hb. cbn [Z.eqb negb].
  rewrite (step_track ec s (s_cur s) Hc Hi Ho). destruct s; reflexivity.
Qed.

Lemma track_leaf ec s i : (i < length (s_tracks s))%nat -> (i <= 999)%nat -> s_octave_once s = 0 -> s_break_flag s = 0 ->
  leafT (step_song ec (TTrack (Z.of_nat i))) (Ok s) = Ok (s_set_cur s i).
Proof.
  intros Hi Hi9 Ho Hb. unfold leafT. cbn [halted bind]. rewrite Hb. cbn [Z.eqb negb]. apply step_track; assumption.
Qed.

Lemma block_parses d steps A : block_ok (S d) steps A = true -> exists p, parse_toks A = Some p /\ (scost lbound p < steps)%nat.
Proof.
  cbn [block_ok]. destruct (parse_toks A) as [p|]; [|discriminate]. intros H. apply andb_prop in H. destruct H as [H _].
  apply Nat.ltb_lt in H. exists p. split; [reflexivity|exact H].
Qed.

(* ------------------------------------------------------------------------------------------------ *)
(* 3. "TR(i) A TR(j) B TR(i) C" and "TR(i) A C TR(j) B"                                               *)

Definition triple_fuel_ok (steps : nat) (A B C : list tok) : bool :=
  match parse_toks A, parse_toks B, parse_toks C with
  | Some pA, Some pB, Some pC => (scost lbound pA + scost lbound pB + scost lbound pC + 3 <? steps)%nat
  | _, _, _ => false
  end.

Theorem group_blocks_exec d steps A B C s i j sA sB sC :
  block_ok (S d) steps A = true -> block_ok (S d) steps B = true -> block_ok (S d) steps C = true ->
  triple_fuel_ok steps A B C = true -> i <> j ->
  (i < length (s_tracks s))%nat -> (j < length (s_tracks s))%nat -> (i <= 999)%nat -> (j <= 999)%nat ->
  s_octave_once s = 0 -> s_break_flag s = 0 ->
  exec_f (S d) steps A (Ok (s_set_cur s i)) = Ok sA -> s_octave_once sA = 0 ->
  exec_f (S d) steps C (Ok sA) = Ok sC -> globals_eq (gnorm sC) (gnorm sA) ->
  exec_f (S d) steps B (Ok (s_set_cur sA j)) = Ok sB -> globals_eq (gnorm sB) (gnorm sA) ->
  exists r1 r2,
    exec_f (S d) steps (TTrack (Z.of_nat i) :: A ++ TTrack (Z.of_nat j) :: B ++ TTrack (Z.of_nat i) :: C) (Ok s) = Ok r1 /\
    exec_f (S d) steps (TTrack (Z.of_nat i) :: (A ++ C) ++ TTrack (Z.of_nat j) :: B) (Ok s) = Ok r2 /\
    exec_f (S d) steps (A ++ C) (Ok (s_set_cur s i)) = Ok sC /\
    s_tracks r1 = s_tracks r2 /\ globals_eq (gnorm r1) (gnorm r2) /\ s_cur r1 = i /\ s_cur r2 = j /\
    s_tracks r1 = upd_nth j (fun _ => nth j (s_tracks sB) dtrk) (upd_nth i (fun _ => nth i (s_tracks sC) dtrk) (s_tracks s)).
Proof.
  intros HA HB HC HF Hij Hi Hj Hi9 Hj9 Ho Hb EA HoA EC GC EB GB.
  pose proof (block_local steps (S d) A HA) as LA.
  destruct (lt_frame _ LA _ _ EA) as [A1 [A2 [A3 A4]]]. cbn [s_cur s_tracks s_set_cur] in A1, A2, A3.
  assert (HbA : s_break_flag sA = 0) by (rewrite (exec_f_keeps_break_flag steps (S d) A _ _ EA); exact Hb).
  assert (HcA : cur_ok sA) by (unfold cur_ok; rewrite A1, A2; exact Hi).
  assert (EsA : s_set_cur sA i = sA) by (rewrite <- A1; destruct sA; reflexivity).
  unfold triple_fuel_ok in HF.
  destruct (parse_toks A) as [pA|] eqn:PA; [|discriminate HF]. destruct (parse_toks B) as [pB|] eqn:PB; [|discriminate HF].
  destruct (parse_toks C) as [pC|] eqn:PC; [|discriminate HF]. apply Nat.ltb_lt in HF.
  assert (HFBC : pair_fuel_ok steps B C = true) by (unfold pair_fuel_ok; rewrite PB, PC; apply Nat.ltb_lt; lia).
  rewrite <- EsA in EC.
  destruct (blocks_commute_exec d steps B C sA j i sB sC HB HC HFBC (not_eq_sym Hij)) as [r1 [r2 [E1 [E2 [T12 [G12 [C1 [C2 T1]]]]]]]];
    try assumption; try (rewrite A2; assumption).
  rewrite EsA in EC.
  exists r1, r2.
  (* the parsed pieces *)
  assert (PjB : parse_toks (TTrack (Z.of_nat j) :: B) = Some (PCons (Leaf (TTrack (Z.of_nat j))) pB))
    by (apply (parse_app [TTrack (Z.of_nat j)] B _ pB (parse_track _) PB)).
  assert (PiC : parse_toks (TTrack (Z.of_nat i) :: C) = Some (PCons (Leaf (TTrack (Z.of_nat i))) pC))
    by (apply (parse_app [TTrack (Z.of_nat i)] C _ pC (parse_track _) PC)).
  assert (PiA : parse_toks (TTrack (Z.of_nat i) :: A) = Some (PCons (Leaf (TTrack (Z.of_nat i))) pA))
    by (apply (parse_app [TTrack (Z.of_nat i)] A _ pA (parse_track _) PA)).
  assert (PjBiC : parse_toks (TTrack (Z.of_nat j) :: B ++ TTrack (Z.of_nat i) :: C)
                  = Some (papp (PCons (Leaf (TTrack (Z.of_nat j))) pB) (PCons (Leaf (TTrack (Z.of_nat i))) pC)))
    by (apply (parse_app (TTrack (Z.of_nat j) :: B) (TTrack (Z.of_nat i) :: C) _ _ PjB PiC)).
  assert (PCjB : parse_toks (C ++ TTrack (Z.of_nat j) :: B) = Some (papp pC (PCons (Leaf (TTrack (Z.of_nat j))) pB)))
    by (apply (parse_app C (TTrack (Z.of_nat j) :: B) _ _ PC PjB)).
  assert (EiA : exec_f (S d) steps (TTrack (Z.of_nat i) :: A) (Ok s) = Ok sA).
  { rewrite (exec_track_cons d steps _ A pA (Ok s) PA) by lia. rewrite (track_leaf _ s i Hi Hi9 Ho Hb). exact EA. }
  split.
  { change (TTrack (Z.of_nat i) :: A ++ TTrack (Z.of_nat j) :: B ++ TTrack (Z.of_nat i) :: C)
      with ((TTrack (Z.of_nat i) :: A) ++ (TTrack (Z.of_nat j) :: B ++ TTrack (Z.of_nat i) :: C)).
    rewrite (exec_app d steps _ _ _ _ (Ok s) PiA PjBiC) by (rewrite scost_papp; cbn [scost scost_item]; lia).
    rewrite EiA. exact E1. }
  split.
  { replace (TTrack (Z.of_nat i) :: (A ++ C) ++ TTrack (Z.of_nat j) :: B)
      with ((TTrack (Z.of_nat i) :: A) ++ (C ++ TTrack (Z.of_nat j) :: B)) by (cbn [app]; rewrite <- app_assoc; reflexivity).
    rewrite (exec_app d steps _ _ _ _ (Ok s) PiA PCjB) by (rewrite scost_papp; cbn [scost scost_item]; lia).
    rewrite EiA. rewrite <- E2.
    rewrite (exec_track_cons d steps _ (C ++ TTrack (Z.of_nat j) :: B) _ (Ok sA) PCjB) by (rewrite scost_papp; cbn [scost scost_item]; lia).
    assert (Hid : leafT (step_song (exec_f d steps) (TTrack (Z.of_nat i))) (Ok sA) = Ok sA).
    { pose proof (track_cur_id (exec_f d steps) sA HcA) as Hid. rewrite A1 in Hid. apply Hid; assumption. }
    rewrite Hid. reflexivity. }
  split.
  { rewrite (exec_app d steps A C pA pC _ PA PC) by lia. rewrite EA. exact EC. }
  split; [exact T12|]. split; [exact G12|]. split; [exact C1|]. split; [exact C2|].
  rewrite T1. rewrite (frame_tracks (s_set_cur s i) sA) by (repeat split; assumption). cbn [s_cur s_set_cur s_tracks].
  rewrite (upd_nth_comm _ _ _ j i (not_eq_sym Hij)), upd_nth_upd_nth. reflexivity.
Qed.

(* ------------------------------------------------------------------------------------------------ *)
(* the one-step law with everything it says spelled out                                               *)
Theorem switch_and_back_law ec s j :
  cur_ok s -> (s_cur s <= 999)%nat -> (j <= 999)%nat -> s_octave_once s = 0 ->
  let s' := with_tracks_upto s j in
  fold_steps ec [TTrack (Z.of_nat j); TTrack (Z.of_nat (s_cur s))] (Ok s) = Ok s' /\
  (forall d steps, s_break_flag s = 0 -> (2 < steps)%nat ->
     exec_f (S d) steps [TTrack (Z.of_nat j); TTrack (Z.of_nat (s_cur s))] (Ok s) = Ok s') /\
  s' = s_set_tracks s (s_tracks s ++ map (default_track (s_timebase s)) (seq (length (s_tracks s)) (S j - length (s_tracks s)))) /\
  s_cur s' = s_cur s /\ cur_track s' = cur_track s /\ s_set_tracks s' [] = s_set_tracks s [] /\
  (forall k, (k < length (s_tracks s))%nat -> nth k (s_tracks s') dtrk = nth k (s_tracks s) dtrk) /\
  length (s_tracks s') = Nat.max (length (s_tracks s)) (S j) /\
  (forall k, (length (s_tracks s) <= k < length (s_tracks s'))%nat ->
     nth k (s_tracks s') dtrk = track_new (s_timebase s) (Z.of_nat k - 1)) /\
  ((j < length (s_tracks s))%nat -> s' = s).
Proof.
  intros Hc Hi Hj Ho s'. destruct (with_tracks_upto_facts s j) as [F1 [F2 [F3 [F4 [F5 [F6 F7]]]]]]. fold s' in F1, F2, F3, F4, F5, F6, F7.
  split; [apply switch_and_back; assumption|].
  split; [intros d steps Hb Hs; apply switch_and_back_exec; assumption|].
  split; [reflexivity|]. split; [exact F1|]. split; [exact (F2 Hc)|]. split; [exact F3|]. split; [exact F4|].
  split; [exact F5|]. split; [exact F6|exact F7].
Qed.

(* ------------------------------------------------------------------------------------------------ *)
(* 4. any number of blocks                                                                            *)

(* two states that agree on the current track and on the global registers (up to the dead ones): a block cannot tell
   them apart *)
Definition sim (a b : song) : Prop :=
  cur_ok a /\ cur_ok b /\ s_cur b = s_cur a /\ cur_track b = cur_track a /\ globals_eq (gnorm a) (gnorm b).

Lemma s_set_cur_same s : s_set_cur s (s_cur s) = s.
Proof. destruct s; reflexivity. Qed.

Lemma globals_eq_refl a : globals_eq a a.
Proof. reflexivity. Qed.
Lemma globals_eq_sym a b : globals_eq a b -> globals_eq b a.
Proof. unfold globals_eq. intros H. symmetry. exact H. Qed.
Lemma globals_eq_trans a b c : globals_eq a b -> globals_eq b c -> globals_eq a c.
Proof. unfold globals_eq. intros H1 H2. rewrite H1. exact H2. Qed.
Lemma globals_eq_set_tracks a l : globals_eq (s_set_tracks a l) a.
Proof. reflexivity. Qed.
Lemma globals_eq_set_cur a k : globals_eq (s_set_cur a k) a.
Proof. reflexivity. Qed.

Lemma sim_step T a b a' : localT T -> sim a b -> T (Ok a) = Ok a' ->
  exists b', T (Ok b) = Ok b' /\ sim a' b'.
Proof.
  intros L (Ca & Cb & Ec & Et & G) Ea.
  destruct (lt_frame _ L _ _ Ea) as [F1 [F2 _]].
  assert (E0 : gnorm b = s_set_tracks (gnorm a) (s_tracks b)).
  { pose proof (globals_swap (gnorm b) (gnorm a) (s_cur a) (globals_eq_sym _ _ G)) as H.
    rewrite <- Ec in H at 1. rewrite <- (gnorm_cur b), s_set_cur_same in H.
    rewrite <- (gnorm_cur a), s_set_cur_same, gnorm_tracks in H. exact H. }
  assert (Hs : same_cur (gnorm a) (s_tracks b)).
  { unfold same_cur, cur_ok, cur_track. rewrite gnorm_tracks, gnorm_cur. split; [exact Ca|].
    unfold cur_ok in Cb. unfold cur_track in Et. rewrite Ec in Cb, Et. split; [exact Cb|exact Et]. }
  assert (E2 : gnorm_res (T (Ok b)) = lift (gnorm a) (s_tracks b) (Ok (gnorm a'))).
  { rewrite <- (gnorm_T T b L), E0, (lt_indep _ L _ _ Hs), lift_gnorm, (gnorm_T T a L), Ea. reflexivity. }
  cbn [lift] in E2. apply gnorm_res_ok_inv in E2. destruct E2 as [b' [Eb Hb]]. exists b'. split; [exact Eb|].
  assert (Tb : s_tracks b' = upd_nth (s_cur a) (fun _ => cur_track a') (s_tracks b)).
  { rewrite <- (gnorm_tracks b'), Hb. cbn [s_tracks s_set_tracks]. rewrite gnorm_cur, gnorm_cur_track. reflexivity. }
  assert (Cb' : s_cur b' = s_cur a').
  { rewrite <- (gnorm_cur b'), Hb. cbn [s_cur s_set_tracks]. apply gnorm_cur. }
  unfold sim, cur_ok. rewrite F1, F2, Cb', F1, Tb, upd_nth_length. split; [exact Ca|]. split; [rewrite <- Ec; exact Cb|].
  split; [reflexivity|]. split.
  - unfold cur_track at 1. rewrite Cb', F1, Tb. apply nth_upd_nth_eq. rewrite <- Ec. exact Cb.
  - rewrite Hb. apply globals_eq_sym, globals_eq_set_tracks.
Qed.

(* a program: blocks, each addressed to a track *)
Definition tprog := list (nat * list tok).
Definition render (P : tprog) : list tok := concat (map (fun tb => TTrack (Z.of_nat (fst tb)) :: snd tb) P).
Definition blocks_of (t : nat) (P : tprog) : list (list tok) := map snd (filter (fun tb => Nat.eqb (fst tb) t) P).

(* blocks run one after the other on one track, each leaving the global registers as it found them (up to the dead ones) *)
Inductive nrun (d steps : nat) : list (list tok) -> song -> song -> Prop :=
| nrun_nil s : nrun d steps [] s s
| nrun_cons b bs s0 s1 sf :
    exec_f d steps b (Ok s0) = Ok s1 -> globals_eq (gnorm s1) (gnorm s0) -> nrun d steps bs s1 sf -> nrun d steps (b :: bs) s0 sf.

Lemma nrun_snoc_inv d steps bs b s0 sf : nrun d steps (bs ++ [b]) s0 sf ->
  exists sa, nrun d steps bs s0 sa /\ exec_f d steps b (Ok sa) = Ok sf /\ globals_eq (gnorm sf) (gnorm sa).
Proof.
  revert s0. induction bs as [|x bs IH]; intros s0 H; cbn [app] in H.
  - inversion H as [|b0 bs0 s00 s1 sf0 E G N]; subst. inversion N; subst. exists s0. split; [constructor|]. split; assumption.
  - inversion H as [|b0 bs0 s00 s1 sf0 E G N]; subst. destruct (IH s1 N) as [sa [Na [Ea Ga]]].
    exists sa. split; [econstructor; eassumption|]. split; assumption.
Qed.

Lemma nrun_globals d steps bs s0 sf : nrun d steps bs s0 sf -> globals_eq (gnorm sf) (gnorm s0).
Proof.
  induction 1 as [s|b bs s0 s1 sf E G N IH]; [apply globals_eq_refl|]. eapply globals_eq_trans; eassumption.
Qed.

Definition balanced_all (l : list (list tok)) : Prop := Forall (fun b => balanced_toks b = true) l.
Definition pcost (toks : list tok) : nat := match parse_toks toks with Some p => scost lbound p | None => O end.

Lemma balanced_inv X : balanced_toks X = true -> exists p, parse_toks X = Some p /\ pcost X = scost lbound p.
Proof. unfold balanced_toks, pcost. destruct (parse_toks X) as [p|]; [|discriminate]. intros _. exists p. split; reflexivity. Qed.

Lemma balanced_app X Y : balanced_toks X = true -> balanced_toks Y = true ->
  balanced_toks (X ++ Y) = true /\ pcost (X ++ Y) = (pcost X + pcost Y)%nat.
Proof.
  intros HX HY. destruct (balanced_inv X HX) as [pX [EX CX]]. destruct (balanced_inv Y HY) as [pY [EY CY]].
  unfold balanced_toks, pcost at 1. rewrite (parse_app X Y pX pY EX EY), scost_papp, CX, CY. split; reflexivity.
Qed.

Lemma exec_app_b d steps X Y r : balanced_toks X = true -> balanced_toks Y = true -> (pcost X + pcost Y < steps)%nat ->
  exec_f (S d) steps (X ++ Y) r = exec_f (S d) steps Y (exec_f (S d) steps X r).
Proof.
  intros HX HY. destruct (balanced_inv X HX) as [pX [EX CX]]. destruct (balanced_inv Y HY) as [pY [EY CY]].
  rewrite CX, CY. apply exec_app; assumption.
Qed.

Lemma block_balanced d steps A : block_ok (S d) steps A = true -> balanced_toks A = true /\ (pcost A < steps)%nat.
Proof.
  intros H. destruct (block_parses d steps A H) as [p [E C]]. unfold balanced_toks, pcost. rewrite E. split; [reflexivity|exact C].
Qed.

Lemma balanced_track_cons x Y : balanced_toks Y = true ->
  balanced_toks (TTrack x :: Y) = true /\ pcost (TTrack x :: Y) = S (pcost Y).
Proof. intros HY. apply (balanced_app [TTrack x] Y (eq_refl : balanced_toks [TTrack x] = true) HY). Qed.

Lemma render_app P Q : render (P ++ Q) = render P ++ render Q.
Proof. unfold render. rewrite map_app, concat_app. reflexivity. Qed.

Lemma balanced_render P : Forall (fun tb => balanced_toks (snd tb) = true) P -> balanced_toks (render P) = true.
Proof.
  induction 1 as [|tb P Hb _ IH]; [reflexivity|]. change (render (tb :: P)) with ((TTrack (Z.of_nat (fst tb)) :: snd tb) ++ render P).
  apply balanced_app; [apply balanced_track_cons; exact Hb|exact IH].
Qed.

(* the well-formedness of a program on a song: its tracks exist, its blocks are blocks, the fuel suffices for the whole text *)
Definition prog_wf (d steps : nat) (n : nat) (P : tprog) : Prop :=
  Forall (fun tb => (fst tb < n)%nat /\ (fst tb <= 999)%nat /\ block_ok d steps (snd tb) = true) P /\ (pcost (render P) < steps)%nat.

Lemma blocks_of_app t P Q : blocks_of t (P ++ Q) = blocks_of t P ++ blocks_of t Q.
Proof. unfold blocks_of. rewrite filter_app, map_app. reflexivity. Qed.

Lemma exec_track_cons_b d steps x Y r : balanced_toks Y = true -> (S (pcost Y) < steps)%nat ->
  exec_f (S d) steps (TTrack x :: Y) r = exec_f (S d) steps Y (leafT (step_song (exec_f d steps) (TTrack x)) r).
Proof.
  intros HY H. destruct (balanced_inv Y HY) as [pY [EY CY]]. apply (exec_track_cons d steps x Y pY r EY). rewrite <- CY. lia.
Qed.

Lemma exec_nil d steps r : (0 < steps)%nat -> exec_f (S d) steps [] r = r.
Proof. intros H. rewrite (exec_f_parsed d steps [] PNil r eq_refl) by (cbn; exact H). reflexivity. Qed.

Lemma nrun_frame d steps bs s0 sf : Forall (fun b => block_ok (S d) steps b = true) bs -> nrun (S d) steps bs s0 sf -> frame_rel s0 sf.
Proof.
  intros HB N. induction N as [s|b bs s0 s1 sf E G N IH]; [apply frame_rel_refl|].
  inversion HB as [|b0 bs0 Hb Hbs]; subst. eapply frame_rel_trans; [|apply IH; exact Hbs].
  apply (lt_frame _ (block_local steps (S d) b Hb) _ _ E).
Qed.

Lemma blocks_of_ok d steps n t P :
  Forall (fun tb => (fst tb < n)%nat /\ (fst tb <= 999)%nat /\ block_ok d steps (snd tb) = true) P ->
  Forall (fun b => block_ok d steps b = true) (blocks_of t P).
Proof.
  intros H. unfold blocks_of. induction H as [|tb P Htb _ IH]; [constructor|]. cbn [filter].
  destruct (Nat.eqb (fst tb) t); [cbn [map]; constructor; [apply Htb|exact IH]|exact IH].
Qed.

Lemma globals_break a b : globals_eq a b -> s_break_flag a = s_break_flag b.
Proof. unfold globals_eq. intros H. apply (f_equal s_break_flag) in H. exact H. Qed.

(* every track is what its own blocks alone make of it *)
Theorem program_tracks d steps : forall (P : tprog) (s : song) (alone : nat -> song),
  prog_wf (S d) steps (length (s_tracks s)) P -> s_octave_once s = 0 -> s_break_flag s = 0 ->
  (forall t, (t < length (s_tracks s))%nat -> nrun (S d) steps (blocks_of t P) (s_set_cur s t) (alone t)) ->
  exists r, exec_f (S d) steps (render P) (Ok s) = Ok r /\
    length (s_tracks r) = length (s_tracks s) /\ globals_eq (gnorm r) (gnorm s) /\
    s_cur r = last (map fst P) (s_cur s) /\
    (forall t, (t < length (s_tracks s))%nat -> nth t (s_tracks r) dtrk = nth t (s_tracks (alone t)) dtrk).
Proof.
  induction P as [|[t b] P' IH] using rev_ind; intros s alone [W F] Ho Hb HN.
  - exists s. split; [apply exec_nil; cbn in F; lia|]. split; [reflexivity|]. split; [apply globals_eq_refl|]. split; [reflexivity|].
    intros t Ht. specialize (HN t Ht). cbn in HN. inversion HN; subst. reflexivity.
  - apply Forall_app in W. destruct W as [W' Wb]. inversion Wb as [|x l [Ht [Ht9 Hbk]] _]; subst. cbn [fst snd] in Ht, Ht9, Hbk.
    destruct (block_balanced d steps b Hbk) as [Bb Cb].
    assert (BP' : balanced_toks (render P') = true).
    { apply balanced_render. eapply Forall_impl; [|exact W']. intros tb [_ [_ H]]. apply (block_balanced d steps _ H). }
    assert (R1 : render [(t, b)] = TTrack (Z.of_nat t) :: b) by (unfold render; cbn [map concat fst snd]; apply app_nil_r).
    destruct (balanced_track_cons (Z.of_nat t) b Bb) as [Btb Ctb].
    rewrite render_app, R1 in F. destruct (balanced_app _ _ BP' Btb) as [_ Capp]. rewrite Capp, Ctb in F.
    (* the run of the last block alone *)
    pose proof (HN t Ht) as Nt. rewrite blocks_of_app in Nt. unfold blocks_of at 2 in Nt. cbn [filter fst snd] in Nt.
    rewrite Nat.eqb_refl in Nt. cbn [map] in Nt. apply nrun_snoc_inv in Nt. destruct Nt as [sa [Na [Ea Ga]]].
    set (alone' := fun u => if Nat.eqb u t then sa else alone u).
    destruct (IH s alone') as [r' [E' [L' [G' [C' N']]]]]; [split; [exact W'|lia]|exact Ho|exact Hb| |].
    { intros u Hu. unfold alone'. destruct (Nat.eqb_spec u t) as [->|Hne]; [exact Na|].
      pose proof (HN u Hu) as Nu. rewrite blocks_of_app in Nu. unfold blocks_of at 2 in Nu. cbn [filter fst snd] in Nu.
      destruct (Nat.eqb_spec t u) as [->|_]; [contradiction Hne; reflexivity|]. cbn [map] in Nu. rewrite app_nil_r in Nu. exact Nu. }
    assert (Ho' : s_octave_once r' = 0)
      by (rewrite <- (gnorm_octave_once r'), (globals_octave_once _ _ G'), gnorm_octave_once; exact Ho).
    assert (Hb' : s_break_flag r' = 0) by (rewrite <- (gnorm_break r'), (globals_break _ _ G'), gnorm_break; exact Hb).
    pose proof (nrun_frame d steps _ _ _ (blocks_of_ok (S d) steps _ t P' W') Na) as [Fa1 [Fa2 _]]. cbn [s_cur s_tracks s_set_cur] in Fa1, Fa2.
    assert (Sim : sim sa (s_set_cur r' t)).
    { unfold sim, cur_ok, cur_track. cbn [s_cur s_tracks s_set_cur]. rewrite Fa1, Fa2, L'. split; [exact Ht|]. split; [exact Ht|].
      split; [reflexivity|]. split.
      - rewrite (N' t Ht). unfold alone'. rewrite Nat.eqb_refl. reflexivity.
      - rewrite gnorm_set_cur. eapply globals_eq_trans; [apply (nrun_globals _ _ _ _ _ Na)|].
        rewrite gnorm_set_cur. eapply globals_eq_trans; [apply globals_eq_set_cur|].
        eapply globals_eq_trans; [apply globals_eq_sym; exact G'|]. apply globals_eq_sym, globals_eq_set_cur. }
    destruct (sim_step _ sa (s_set_cur r' t) (alone t) (block_local steps (S d) b Hbk) Sim Ea) as [r [Er Sr]].
    exists r. rewrite render_app, R1.
    rewrite (exec_app_b d steps _ _ (Ok s) BP' Btb) by (rewrite Ctb; lia). rewrite E'.
    rewrite (exec_track_cons_b d steps _ b (Ok r') Bb) by lia.
    rewrite (track_leaf _ r' t) by (try rewrite L'; assumption).
    split; [exact Er|].
    destruct (lt_frame _ (block_local steps (S d) b Hbk) _ _ Er) as [Fr1 [Fr2 [Fr3 _]]]. cbn [s_cur s_tracks s_set_cur] in Fr1, Fr2, Fr3.
    destruct Sr as (_ & _ & Sc & St & Sg).
    split; [rewrite Fr2; exact L'|]. split.
    { eapply globals_eq_trans; [apply globals_eq_sym; exact Sg|]. eapply globals_eq_trans; [exact Ga|].
      eapply globals_eq_trans; [apply (nrun_globals _ _ _ _ _ Na)|]. rewrite gnorm_set_cur. apply globals_eq_set_cur. }
    split; [rewrite map_app; cbn [map fst]; rewrite last_last; exact Fr1|].
    intros u Hu. destruct (Nat.eq_dec u t) as [->|Hne].
    + unfold cur_track in St. rewrite Sc in St. rewrite Fr1 in Sc. rewrite <- Sc in St. exact St.
    + rewrite (Fr3 u Hne), (N' u Hu). unfold alone'. destruct (Nat.eqb_spec u t) as [->|_]; [contradiction Hne; reflexivity|reflexivity].
Qed.

(* ---- two programs with the same blocks on every track, in the same order on each track (any interleaving) ---- *)
Theorem program_permute d steps (P Q : tprog) (s : song) (alone : nat -> song) :
  prog_wf (S d) steps (length (s_tracks s)) P -> prog_wf (S d) steps (length (s_tracks s)) Q ->
  (forall t, blocks_of t Q = blocks_of t P) ->
  s_octave_once s = 0 -> s_break_flag s = 0 ->
  (forall t, (t < length (s_tracks s))%nat -> nrun (S d) steps (blocks_of t P) (s_set_cur s t) (alone t)) ->
  exists r1 r2, exec_f (S d) steps (render P) (Ok s) = Ok r1 /\ exec_f (S d) steps (render Q) (Ok s) = Ok r2 /\
    s_tracks r1 = s_tracks r2 /\ globals_eq (gnorm r1) (gnorm r2) /\
    length (s_tracks r1) = length (s_tracks s) /\
    (forall t, (t < length (s_tracks s))%nat -> nth t (s_tracks r1) dtrk = nth t (s_tracks (alone t)) dtrk).
Proof.
  intros WP WQ HB Ho Hb HN.
  destruct (program_tracks d steps P s alone WP Ho Hb HN) as [r1 [E1 [L1 [G1 [_ N1]]]]].
  destruct (program_tracks d steps Q s alone WQ Ho Hb) as [r2 [E2 [L2 [G2 [_ N2]]]]]; [intros t Ht; rewrite HB; apply HN, Ht|].
  exists r1, r2. split; [exact E1|]. split; [exact E2|]. split.
  - apply (nth_ext _ _ dtrk dtrk); [congruence|]. intros t Ht. rewrite L1 in Ht. rewrite (N1 t Ht), (N2 t Ht). reflexivity.
  - split; [eapply globals_eq_trans; [exact G1|apply globals_eq_sym; exact G2]|]. split; [exact L1|exact N1].
Qed.

(* ---- all blocks of a track under ONE track command, tracks in the order of their first appearance ---- *)
Fixpoint firsts (l : list nat) : list nat :=
  match l with [] => [] | x :: r => x :: filter (fun y => negb (Nat.eqb y x)) (firsts r) end.
Definition grouped (P : tprog) : tprog := map (fun t => (t, concat (blocks_of t P))) (firsts (map fst P)).

Lemma firsts_in u : forall l, In u (firsts l) <-> In u l.
Proof.
  induction l as [|x r IH]; [reflexivity|]. cbn [firsts In]. rewrite filter_In, IH.
  destruct (Nat.eqb_spec u x) as [->|Hne]; cbn [negb]; [tauto|]. split; [tauto|]. intros [H|H]; [left; exact H|right; split; [exact H|reflexivity]].
Qed.
Lemma NoDup_filter {A} (f : A -> bool) l : NoDup l -> NoDup (filter f l).
Proof.
  induction 1 as [|x l Hx _ IH]; [constructor|]. cbn [filter]. destruct (f x); [|exact IH].
  constructor; [|exact IH]. intros H. apply filter_In in H. apply Hx, H.
Qed.
Lemma firsts_nodup : forall l, NoDup (firsts l).
Proof.
  induction l as [|x r IH]; [constructor|]. cbn [firsts]. constructor; [|apply NoDup_filter, IH].
  intros H. apply filter_In in H. destruct H as [_ H]. rewrite Nat.eqb_refl in H. discriminate H.
Qed.

Lemma blocks_of_tagged_out (f : nat -> list tok) u : forall L, ~ In u L -> blocks_of u (map (fun t => (t, f t)) L) = [].
Proof.
  unfold blocks_of. induction L as [|x L IH]; intros H; [reflexivity|]. cbn [map filter fst].
  destruct (Nat.eqb_spec x u) as [->|_]; [exfalso; apply H; left; reflexivity|]. apply IH. intros H2. apply H. right. exact H2.
Qed.
Lemma blocks_of_tagged_in (f : nat -> list tok) u : forall L, NoDup L -> In u L -> blocks_of u (map (fun t => (t, f t)) L) = [f u].
Proof.
  induction 1 as [|x L Hx HL IH]; intros H; [contradiction H|]. unfold blocks_of. cbn [map filter fst].
  destruct (Nat.eqb_spec x u) as [->|Hne].
  - cbn [map snd]. f_equal. apply (blocks_of_tagged_out f u L Hx).
  - destruct H as [H|H]; [contradiction Hne|]. apply IH, H.
Qed.
Lemma blocks_of_none u P : ~ In u (map fst P) -> blocks_of u P = [].
Proof.
  unfold blocks_of. induction P as [|tb P IH]; intros H; [reflexivity|]. cbn [filter].
  destruct (Nat.eqb_spec (fst tb) u) as [E|_]; [exfalso; apply H; left; exact E|]. apply IH. intros H2. apply H. right. exact H2.
Qed.

Definition run_blocks (d steps : nat) (bs : list (list tok)) (r : res song) : res song :=
  fold_left (fun r b => exec_f d steps b r) bs r.

Lemma balanced_concat bs : balanced_all bs -> balanced_toks (concat bs) = true.
Proof.
  induction 1 as [|b bs Hb _ IH]; [reflexivity|]. cbn [concat]. apply (balanced_app b (concat bs) Hb IH).
Qed.

Lemma exec_concat_blocks d steps : forall bs r, balanced_all bs -> (pcost (concat bs) < steps)%nat ->
  exec_f (S d) steps (concat bs) r = run_blocks (S d) steps bs r.
Proof.
  induction bs as [|b bs IH]; intros r HB HC; [apply exec_nil; lia|].
  inversion HB as [|b0 bs0 Hb Hbs]; subst. cbn [concat] in *. pose proof (balanced_concat bs Hbs) as Bc.
  destruct (balanced_app b (concat bs) Hb Bc) as [_ C]. rewrite C in HC.
  rewrite (exec_app_b d steps b (concat bs) r Hb Bc HC). cbn [run_blocks fold_left]. apply IH; [exact Hbs|lia].
Qed.

Lemma nrun_run d steps bs s0 sf : nrun d steps bs s0 sf -> run_blocks d steps bs (Ok s0) = Ok sf.
Proof. induction 1 as [s|b bs s0 s1 sf E G N IH]; [reflexivity|]. cbn [run_blocks fold_left]. rewrite E. exact IH. Qed.

Theorem program_grouped d steps (P : tprog) (s : song) (alone : nat -> song) :
  prog_wf (S d) steps (length (s_tracks s)) P -> prog_wf (S d) steps (length (s_tracks s)) (grouped P) ->
  s_octave_once s = 0 -> s_break_flag s = 0 ->
  (forall t, (t < length (s_tracks s))%nat -> nrun (S d) steps (blocks_of t P) (s_set_cur s t) (alone t)) ->
  exists r1 r2, exec_f (S d) steps (render P) (Ok s) = Ok r1 /\ exec_f (S d) steps (render (grouped P)) (Ok s) = Ok r2 /\
    s_tracks r1 = s_tracks r2 /\ globals_eq (gnorm r1) (gnorm r2) /\
    length (s_tracks r1) = length (s_tracks s) /\
    (forall t, (t < length (s_tracks s))%nat -> nth t (s_tracks r1) dtrk = nth t (s_tracks (alone t)) dtrk).
Proof.
  intros WP WQ Ho Hb HN.
  destruct (program_tracks d steps P s alone WP Ho Hb HN) as [r1 [E1 [L1 [G1 [_ N1]]]]].
  destruct (program_tracks d steps (grouped P) s alone WQ Ho Hb) as [r2 [E2 [L2 [G2 [_ N2]]]]].
  { intros t Ht. specialize (HN t Ht). unfold grouped.
    destruct (in_dec Nat.eq_dec t (map fst P)) as [Hin|Hout].
    - rewrite (blocks_of_tagged_in _ t _ (firsts_nodup _)) by (apply firsts_in; exact Hin).
      assert (Hblk : block_ok (S d) steps (concat (blocks_of t P)) = true).
      { destruct WQ as [WQ _]. rewrite Forall_forall in WQ.
        specialize (WQ (t, concat (blocks_of t P))). apply WQ. unfold grouped. apply in_map_iff. exists t. split; [reflexivity|].
        apply firsts_in. exact Hin. }
      destruct (block_balanced d steps _ Hblk) as [_ Cc].
      assert (HBl : balanced_all (blocks_of t P)).
      { destruct WP as [WP _]. pose proof (blocks_of_ok (S d) steps _ t P WP) as H. eapply Forall_impl; [|exact H].
        intros b Hbk. apply (block_balanced d steps b Hbk). }
      econstructor; [|apply (nrun_globals _ _ _ _ _ HN)|constructor].
      rewrite (exec_concat_blocks d steps _ _ HBl Cc). apply nrun_run. exact HN.
    - rewrite (blocks_of_tagged_out _ t) by (rewrite firsts_in; exact Hout).
      rewrite (blocks_of_none t P Hout) in HN. exact HN. }
  exists r1, r2. split; [exact E1|]. split; [exact E2|]. split.
  - apply (nth_ext _ _ dtrk dtrk); [congruence|]. intros t Ht. rewrite L1 in Ht. rewrite (N1 t Ht), (N2 t Ht). reflexivity.
  - split; [eapply globals_eq_trans; [exact G1|apply globals_eq_sym; exact G2]|]. split; [exact L1|exact N1].
Qed.

(* the well-formedness as a computation *)
Definition prog_wf_b (d steps n : nat) (P : tprog) : bool :=
  forallb (fun tb => (fst tb <? n)%nat && (fst tb <=? 999)%nat && block_ok d steps (snd tb)) P && (pcost (render P) <? steps)%nat.
Lemma prog_wf_b_ok d steps n P : prog_wf_b d steps n P = true -> prog_wf d steps n P.
Proof.
  unfold prog_wf_b, prog_wf. intros H. apply andb_prop in H. destruct H as [H1 H2]. split; [|apply Nat.ltb_lt; exact H2].
  apply Forall_forall. intros tb Hin. rewrite forallb_forall in H1. specialize (H1 tb Hin).
  apply andb_prop in H1. destruct H1 as [H1 H3]. apply andb_prop in H1. destruct H1 as [H1 H4].
  split; [apply Nat.ltb_lt; exact H1|]. split; [apply Nat.leb_le; exact H4|exact H3].
Qed.

(* ------------------------------------------------------------------------------------------------ *)
(* 5. tracks that do not exist yet: creating them beforehand changes nothing                          *)
(* The theorems above speak about existing tracks.  A track command creates the missing tracks up to its number, each the
   default track of its own number, whatever the order: running a program from s, or from s with the tracks up to m created
   beforehand (with_tracks_upto s m), gives the same song up to those tracks - and the same song when the program names m. *)

Definition wtu_res (m : nat) (r : res song) : res song :=
  match r with Ok s => Ok (with_tracks_upto s m) | Panic x => Panic x | OutOfFuel => OutOfFuel | Unsupported w => Unsupported w end.

Lemma upd_nth_app1 {A} (f : A -> A) (l l' : list A) : forall n, (n < length l)%nat -> upd_nth n f (l ++ l') = upd_nth n f l ++ l'.
Proof.
  induction l as [|x l IH]; intros n H; [cbn in H; lia|]. destruct n as [|n]; cbn [app upd_nth]; [reflexivity|].
  rewrite IH by (cbn in H; lia). reflexivity.
Qed.

Lemma wtu_settle s m : cur_ok s -> settle_octave_once (with_tracks_upto s m) = with_tracks_upto (settle_octave_once s) m.
Proof.
  intros Hc. unfold settle_octave_once, with_tracks_upto, new_tracks. cbn [s_octave_once s_set_tracks].
  destruct (s_octave_once s =? 0); [reflexivity|].
  unfold upd_cur. cbn [s_tracks s_cur s_set_tracks s_set_octave_once s_timebase]. rewrite upd_nth_length.
  rewrite upd_nth_app1 by exact Hc. reflexivity.
Qed.

Lemma wtu_wtu s t m : (t <= m)%nat -> with_tracks_upto (with_tracks_upto s t) m = with_tracks_upto s m.
Proof.
  intros H. unfold with_tracks_upto, new_tracks. cbn [s_tracks s_set_tracks s_timebase].
  rewrite <- app_assoc, <- map_app, app_length, map_length, seq_length. set (len := length (s_tracks s)).
  replace (S m - len)%nat with ((S t - len) + (S m - (len + (S t - len))))%nat by lia.
  rewrite seq_app. reflexivity.
Qed.

Lemma wtu_set_cur s m k : with_tracks_upto (s_set_cur s k) m = s_set_cur (with_tracks_upto s m) k.
Proof. reflexivity. Qed.

Lemma wtu_length s m : length (s_tracks (with_tracks_upto s m)) = Nat.max (length (s_tracks s)) (S m).
Proof. apply (with_tracks_upto_facts s m). Qed.

Lemma wtu_change s t m : cur_ok s -> (t <= m)%nat ->
  change_cur_track (with_tracks_upto s m) t = with_tracks_upto (change_cur_track s t) m.
Proof.
  intros Hc H. rewrite !change_cur_track_with, (wtu_settle s m Hc), wtu_set_cur, (wtu_wtu _ t m H).
  rewrite (with_tracks_upto_existing (with_tracks_upto (settle_octave_once s) m) t) by (rewrite wtu_length; lia). reflexivity.
Qed.

Lemma wtu_local T s m : localT T -> cur_ok s -> T (Ok (with_tracks_upto s m)) = wtu_res m (T (Ok s)).
Proof.
  intros L Hc. unfold with_tracks_upto at 1.
  assert (Hs : same_cur s (s_tracks s ++ new_tracks s m)).
  { split; [exact Hc|]. split; [rewrite app_length; unfold cur_ok in Hc; lia|]. apply app_nth1. exact Hc. }
  rewrite (lt_indep _ L s _ Hs). destruct (T (Ok s)) as [s'| | |] eqn:E; cbn [lift wtu_res]; try reflexivity.
  pose proof (lt_frame _ L _ _ E) as F. pose proof (frame_tracks s s' F) as Ft. destruct F as [F1 [F2 [_ F4]]].
  f_equal. unfold with_tracks_upto, new_tracks. rewrite F2, F4. f_equal.
  rewrite upd_nth_app1 by exact Hc. f_equal.
  symmetry. unfold cur_track. rewrite F1. exact Ft.
Qed.

(* a program as a composition of its track commands and blocks *)
Definition run_prog (d steps : nat) (P : tprog) (r : res song) : res song :=
  fold_left (fun r tb => exec_f (S d) steps (snd tb) (leafT (step_song (exec_f d steps) (TTrack (Z.of_nat (fst tb)))) r)) P r.

Lemma exec_render d steps : forall P r,
  Forall (fun tb => balanced_toks (snd tb) = true) P -> (pcost (render P) < steps)%nat ->
  exec_f (S d) steps (render P) r = run_prog d steps P r.
Proof.
  induction P as [|tb P IH]; intros r HB HC; [apply exec_nil; lia|].
  inversion HB as [|x l Hb HBs]; subst.
  change (render (tb :: P)) with ((TTrack (Z.of_nat (fst tb)) :: snd tb) ++ render P) in *.
  destruct (balanced_track_cons (Z.of_nat (fst tb)) (snd tb) Hb) as [B1 C1].
  pose proof (balanced_render P HBs) as B2. destruct (balanced_app _ _ B1 B2) as [_ C]. rewrite C, C1 in HC.
  rewrite (exec_app_b d steps _ _ r B1 B2) by (rewrite C1; lia).
  rewrite (exec_track_cons_b d steps _ _ r Hb) by lia.
  cbn [run_prog fold_left]. apply IH; [exact HBs|lia].
Qed.

Lemma run_prog_cons d steps tb P r :
  run_prog d steps (tb :: P) r
  = run_prog d steps P (exec_f (S d) steps (snd tb) (leafT (step_song (exec_f d steps) (TTrack (Z.of_nat (fst tb)))) r)).
Proof. reflexivity. Qed.
Lemma leafT_ok g s : leafT g (Ok s) = if negb (s_break_flag s =? 0) then Ok s else g s.
Proof. reflexivity. Qed.

Lemma run_prog_err d steps P r : Forall (fun tb => block_ok (S d) steps (snd tb) = true) P ->
  (forall s, r <> Ok s) -> run_prog d steps P r = r.
Proof.
  intros HB. revert r. induction HB as [|tb P Hb _ IH]; intros r H; [reflexivity|]. rewrite run_prog_cons.
  assert (E : exec_f (S d) steps (snd tb) (leafT (step_song (exec_f d steps) (TTrack (Z.of_nat (fst tb)))) r) = r).
  { assert (E0 : leafT (step_song (exec_f d steps) (TTrack (Z.of_nat (fst tb)))) r = r)
      by (destruct r as [s| | |]; [exfalso; apply (H s); reflexivity| | |]; reflexivity).
    rewrite E0. apply (lt_err _ (block_local steps (S d) _ Hb) r H). }
  rewrite E. apply IH, H.
Qed.

(* creating the tracks up to m beforehand commutes with a program whose tracks are at most m *)
Lemma run_prog_precreate d steps m : forall P s,
  Forall (fun tb => (fst tb <= m)%nat /\ (fst tb <= 999)%nat /\ block_ok (S d) steps (snd tb) = true) P -> cur_ok s ->
  run_prog d steps P (Ok (with_tracks_upto s m)) = wtu_res m (run_prog d steps P (Ok s)).
Proof.
  induction P as [|tb P IH]; intros s HP Hc; [reflexivity|]. inversion HP as [|x l [Ht [Ht9 Hb]] HP']; subst.
  rewrite !run_prog_cons, !leafT_ok.
  pose proof (block_local steps (S d) _ Hb) as L.
  assert (HB' : Forall (fun tb => block_ok (S d) steps (snd tb) = true) P)
    by (eapply Forall_impl; [|exact HP']; intros tb' [_ [_ H]]; exact H).
  change (s_break_flag (with_tracks_upto s m)) with (s_break_flag s).
  destruct (negb (s_break_flag s =? 0)).
  - rewrite (wtu_local _ s m L Hc). destruct (exec_f (S d) steps (snd tb) (Ok s)) as [s'| | |] eqn:E; cbn [wtu_res];
      try (rewrite !run_prog_err by (try exact HB'; intros; discriminate); reflexivity).
    apply IH; [exact HP'|]. destruct (lt_frame _ L _ _ E) as [F1 [F2 _]]. unfold cur_ok in *. rewrite F1, F2. exact Hc.
  - rewrite !(step_track_any _ _ _ Ht9), (wtu_change s _ m Hc Ht).
    assert (Hc1 : cur_ok (change_cur_track s (fst tb))) by apply (change_cur_track_law s (fst tb)).
    rewrite (wtu_local _ _ m L Hc1).
    destruct (exec_f (S d) steps (snd tb) (Ok (change_cur_track s (fst tb)))) as [s'| | |] eqn:E; cbn [wtu_res];
      try (rewrite !run_prog_err by (try exact HB'; intros; discriminate); reflexivity).
    apply IH; [exact HP'|]. destruct (lt_frame _ L _ _ E) as [F1 [F2 _]]. unfold cur_ok in *. rewrite F1, F2. exact Hc1.
Qed.

(* the number of tracks never goes down, and a track named by the program exists afterwards *)
Lemma run_prog_length d steps : forall P s r,
  Forall (fun tb => (fst tb <= 999)%nat /\ block_ok (S d) steps (snd tb) = true) P ->
  run_prog d steps P (Ok s) = Ok r ->
  (length (s_tracks s) <= length (s_tracks r))%nat /\ (s_break_flag s = 0 -> forall m, In m (map fst P) -> (m < length (s_tracks r))%nat).
Proof.
  induction P as [|tb P IH]; intros s r HP E.
  - injection E as <-. split; [lia|]. intros _ m [].
  - inversion HP as [|x l [Ht9 Hb] HP']; subst. rewrite run_prog_cons, leafT_ok in E.
    pose proof (block_local steps (S d) _ Hb) as L.
    assert (HB' : Forall (fun tb => block_ok (S d) steps (snd tb) = true) P)
      by (eapply Forall_impl; [|exact HP']; intros tb' [_ H]; exact H).
    destruct (Z.eqb_spec (s_break_flag s) 0) as [Hb0|Hb0]; cbn [negb] in E.
    + rewrite (step_track_any _ _ _ Ht9) in E.
      destruct (exec_f (S d) steps (snd tb) (Ok (change_cur_track s (fst tb)))) as [s'| | |] eqn:E1;
        try (rewrite run_prog_err in E by (try exact HB'; intros; discriminate); discriminate E).
      destruct (lt_frame _ L _ _ E1) as [_ [F2 _]]. destruct (change_cur_track_law s (fst tb)) as [_ [_ [_ [_ [Lc _]]]]].
      destruct (IH s' r HP' E) as [I1 I2]. split; [lia|]. intros _ m [<-|Hin]; [lia|]. apply I2; [|exact Hin].
      rewrite (exec_f_keeps_break_flag steps (S d) _ _ _ E1). unfold change_cur_track, settle_octave_once.
      destruct (s_octave_once s =? 0); exact Hb0.
    + destruct (exec_f (S d) steps (snd tb) (Ok s)) as [s'| | |] eqn:E1;
        try (rewrite run_prog_err in E by (try exact HB'; intros; discriminate); discriminate E).
      destruct (lt_frame _ L _ _ E1) as [_ [F2 _]]. destruct (IH s' r HP' E) as [I1 _]. split; [lia|]. intros H; contradiction.
Qed.

Definition prog_upto (d steps m : nat) (P : tprog) : Prop :=
  Forall (fun tb => (fst tb <= m)%nat /\ (fst tb <= 999)%nat /\ block_ok d steps (snd tb) = true) P /\ (pcost (render P) < steps)%nat.

Lemma prog_upto_balanced d steps m P : prog_upto (S d) steps m P -> Forall (fun tb => balanced_toks (snd tb) = true) P.
Proof. intros [H _]. eapply Forall_impl; [|exact H]. intros tb [_ [_ Hb]]. apply (block_balanced d steps _ Hb). Qed.

Theorem program_precreate d steps m P s : prog_upto (S d) steps m P -> cur_ok s ->
  exec_f (S d) steps (render P) (Ok (with_tracks_upto s m)) = wtu_res m (exec_f (S d) steps (render P) (Ok s)).
Proof.
  intros W Hc. pose proof (prog_upto_balanced d steps m P W) as HB. destruct W as [W F].
  rewrite !(exec_render d steps P _ HB F). apply run_prog_precreate; assumption.
Qed.

(* ... and when the program names track m, nothing at all *)
Theorem program_create_named d steps m P s r : prog_upto (S d) steps m P -> cur_ok s -> s_break_flag s = 0 ->
  In m (map fst P) ->
  exec_f (S d) steps (render P) (Ok (with_tracks_upto s m)) = Ok r -> exec_f (S d) steps (render P) (Ok s) = Ok r.
Proof.
  intros W Hc Hb Hin E. rewrite (program_precreate d steps m P s W Hc) in E.
  destruct (exec_f (S d) steps (render P) (Ok s)) as [r0| | |] eqn:E0; cbn [wtu_res] in E; try discriminate E.
  injection E as <-. f_equal. symmetry. apply with_tracks_upto_existing.
  pose proof (prog_upto_balanced d steps m P W) as HB. destruct W as [W F]. rewrite (exec_render d steps P _ HB F) in E0.
  apply (run_prog_length d steps P s r0); [|exact E0|exact Hb|exact Hin].
  eapply Forall_impl; [|exact W]. intros tb [_ H]. exact H.
Qed.

Lemma prog_wf_upto d steps m P : prog_wf d steps (S m) P -> prog_upto d steps m P.
Proof.
  intros [W F]. split; [|exact F]. eapply Forall_impl; [|exact W]. intros tb [H1 H2]. split; [lia|exact H2].
Qed.

Lemma grouped_tracks P : map fst (grouped P) = firsts (map fst P).
Proof. unfold grouped. rewrite map_map. cbn [fst]. apply map_id. Qed.

(* the grouped rendering from a song in which the tracks of the program do not all exist yet (m: the highest track number) *)
Theorem program_grouped_create d steps (P : tprog) (s : song) (m : nat) (alone : nat -> song) :
  let s1 := with_tracks_upto s m in
  cur_ok s -> (length (s_tracks s) <= S m)%nat -> In m (map fst P) ->
  prog_wf (S d) steps (S m) P -> prog_wf (S d) steps (S m) (grouped P) ->
  s_octave_once s = 0 -> s_break_flag s = 0 ->
  (forall t, (t <= m)%nat -> nrun (S d) steps (blocks_of t P) (s_set_cur s1 t) (alone t)) ->
  exists r1 r2, exec_f (S d) steps (render P) (Ok s) = Ok r1 /\ exec_f (S d) steps (render (grouped P)) (Ok s) = Ok r2 /\
    s_tracks r1 = s_tracks r2 /\ globals_eq (gnorm r1) (gnorm r2) /\
    length (s_tracks r1) = S m /\
    (forall t, (t <= m)%nat -> nth t (s_tracks r1) dtrk = nth t (s_tracks (alone t)) dtrk).
Proof.
  intros s1 Hc Hlen Hin WP WQ Ho Hb HN.
  assert (L1 : length (s_tracks s1) = S m) by (unfold s1; rewrite wtu_length; lia).
  destruct (program_grouped d steps P s1 alone) as [r1 [r2 [E1 [E2 [T [G [L N]]]]]]];
    try (rewrite L1; assumption); try assumption.
  { intros t Ht. apply HN. rewrite L1 in Ht. lia. }
  exists r1, r2.
  split; [apply (program_create_named d steps m P s r1 (prog_wf_upto _ _ _ _ WP) Hc Hb Hin E1)|].
  split; [apply (program_create_named d steps m _ s r2 (prog_wf_upto _ _ _ _ WQ) Hc Hb); [|exact E2];
          rewrite grouped_tracks; apply firsts_in; exact Hin|].
  split; [exact T|]. split; [exact G|]. split; [rewrite L; exact L1|]. intros t Ht. apply N. rewrite L1. lia.
Qed.
