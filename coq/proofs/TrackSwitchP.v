(* C12 - what stands between two blocks of one track - a switch to another track and back, or nothing - changes nothing on
   that track.
     1. the one-step law: `TR(j) TR(i)` executed on track i restores the song exactly, except that the tracks up to j exist
        afterwards (created with their defaults); a pending octave-once mark is the only thing a switch settles
     2. programs: "TR(i) A TR(j) B TR(i) C" and "TR(i) A C TR(j) B" build the same tracks (blocks as in TrackBlocksP)
     3. any number of blocks: every track is what the concatenation of its own blocks alone makes of it, so every rendering
        that keeps the order of the blocks of each track (any interleaving, or all blocks of a track under one track
        command) builds the same tracks *)
From Coq Require Import String.
From Sakura.Model Require Import Base Cursor Length Event Song Token LoopMachine LexCore RunCore RunRsv.
From Sakura.Spec Require Import LoopSpec.
From Sakura.Proofs Require Import LoopP BlockP ExtP TrackIndepP LoopParseP LoopExecP TrackBlocksP.
From Coq Require Import Lia.
Open Scope list_scope.
Open Scope Z_scope.

(* ------------------------------------------------------------------------------------------------ *)
(* 1. a switch and back                                                                               *)

(* the tracks missing up to number j, created with their defaults (nothing when j exists) *)
Definition new_tracks (s : song) (j : nat) : list track :=
  map (default_track (s_timebase s)) (seq (length (s_tracks s)) (S j - length (s_tracks s))).
Definition with_tracks_upto (s : song) (j : nat) : song := s_set_tracks s (s_tracks s ++ new_tracks s j).

Lemma settle_timebase s : s_timebase (settle_octave_once s) = s_timebase s.
Proof. unfold settle_octave_once. destruct (_ =? _); reflexivity. Qed.

Lemma step_track_any ec s j : (j <= 999)%nat -> step_song ec (TTrack (Z.of_nat j)) s = Ok (change_cur_track s j).
Proof.
  intros Hj. cbn [step_song]. destruct (Z.ltb_spec (Z.of_nat j) 0); [lia|]. destruct (Z.gtb_spec (Z.of_nat j) 999); [lia|].
  cbn [orb]. rewrite Nat2Z.id. reflexivity.
Qed.

Lemma change_cur_track_with s j :
  change_cur_track s j = s_set_cur (with_tracks_upto (settle_octave_once s) j) j.
Proof.
  unfold change_cur_track, with_tracks_upto, new_tracks. rewrite add_tracks_seq. reflexivity.
Qed.

(* the general form: a pending octave-once is settled (on the current track, where it was written), nothing else *)
Theorem switch_and_back_gen ec s j :
  cur_ok s -> (s_cur s <= 999)%nat -> (j <= 999)%nat ->
  fold_steps ec [TTrack (Z.of_nat j); TTrack (Z.of_nat (s_cur s))] (Ok s) = Ok (with_tracks_upto (settle_octave_once s) j).
Proof.
  intros Hc Hi Hj. rewrite fold_steps_cons, (step_track_any ec s j Hj), fold_steps_cons.
  destruct (settle_octave_once_law s) as [S1 [S2 [S3 _]]].
  rewrite (step_track_gen ec (change_cur_track s j) (s_cur s)); [|
    destruct (change_cur_track_law s j) as [_ [_ [_ [_ [L _]]]]]; rewrite L; unfold cur_ok in Hc; lia | exact Hi].
  cbn [fold_steps fold_left]. f_equal.
  assert (E : settle_octave_once (change_cur_track s j) = change_cur_track s j)
    by (apply settle_octave_once_law, change_cur_track_settled).
  rewrite E, change_cur_track_with. unfold with_tracks_upto. cbn [s_set_cur s_set_tracks s_tracks s_cur s_timebase].
  rewrite <- S2. destruct (settle_octave_once s); reflexivity.
Qed.

Lemma with_tracks_upto_existing s j : (j < length (s_tracks s))%nat -> with_tracks_upto s j = s.
Proof.
  intros H. unfold with_tracks_upto, new_tracks. replace (S j - length (s_tracks s))%nat with O by lia.
  cbn [seq map]. rewrite app_nil_r. apply s_set_tracks_same.
Qed.

Lemma with_tracks_upto_facts s j :
  let s' := with_tracks_upto s j in
  s_cur s' = s_cur s /\ (cur_ok s -> cur_track s' = cur_track s) /\ s_set_tracks s' [] = s_set_tracks s [] /\
  (forall k, (k < length (s_tracks s))%nat -> nth k (s_tracks s') dtrk = nth k (s_tracks s) dtrk) /\
  length (s_tracks s') = Nat.max (length (s_tracks s)) (S j) /\
  (forall k, (length (s_tracks s) <= k < length (s_tracks s'))%nat ->
     nth k (s_tracks s') dtrk = track_new (s_timebase s) (Z.of_nat k - 1)) /\
  ((j < length (s_tracks s))%nat -> s' = s).
Proof.
  intros s'. unfold s', with_tracks_upto, new_tracks. cbn [s_cur s_tracks s_set_tracks].
  set (old := length (s_tracks s)).
  assert (Hlen : length (s_tracks s ++ map (default_track (s_timebase s)) (seq old (S j - old))) = Nat.max old (S j))
    by (rewrite app_length, map_length, seq_length; fold old; lia).
  split; [reflexivity|]. split; [intros Hc; unfold cur_track; cbn [s_cur s_tracks s_set_tracks]; apply app_nth1; exact Hc|].
  split; [reflexivity|]. split; [intros k Hk; apply app_nth1; exact Hk|]. split; [exact Hlen|]. split.
  - intros k [Hlo Hhi]. rewrite Hlen in Hhi. rewrite app_nth2 by exact Hlo. fold old.
    assert (Hi : (k - old < length (seq old (S j - old)))%nat) by (rewrite seq_length; lia).
    rewrite (nth_indep _ dtrk (default_track (s_timebase s) 0)) by (rewrite map_length; exact Hi).
    rewrite map_nth, seq_nth by (rewrite seq_length in Hi; exact Hi).
    replace (old + (k - old))%nat with k by lia. reflexivity.
  - intros H. apply (with_tracks_upto_existing s j H).
Qed.

Theorem switch_and_back ec s j :
  cur_ok s -> (s_cur s <= 999)%nat -> (j <= 999)%nat -> s_octave_once s = 0 ->
  fold_steps ec [TTrack (Z.of_nat j); TTrack (Z.of_nat (s_cur s))] (Ok s) = Ok (with_tracks_upto s j).
Proof.
  intros Hc Hi Hj Ho. rewrite (switch_and_back_gen ec s j Hc Hi Hj).
  replace (settle_octave_once s) with s; [reflexivity|]. symmetry. apply settle_octave_once_law. exact Ho.
Qed.

(* the same for exec() itself *)
Theorem switch_and_back_exec d steps s j :
  cur_ok s -> (s_cur s <= 999)%nat -> (j <= 999)%nat -> s_octave_once s = 0 -> s_break_flag s = 0 -> (2 < steps)%nat ->
  exec_f (S d) steps [TTrack (Z.of_nat j); TTrack (Z.of_nat (s_cur s))] (Ok s) = Ok (with_tracks_upto s j).
Proof.
  intros Hc Hi Hj Ho Hb Hs. rewrite exec_f_loopfree; [apply switch_and_back; assumption|reflexivity|exact Hs|exact Hb].
Qed.

(* ------------------------------------------------------------------------------------------------ *)
(* 2. exec() of a concatenation                                                                       *)

Lemma parse_app X Y pX pY : parse_toks X = Some pX -> parse_toks Y = Some pY -> parse_toks (X ++ Y) = Some (papp pX pY).
Proof.
  intros EX EY. unfold parse_toks. rewrite map_app, <- (parse_toks_sound X pX EX), <- (parse_toks_sound Y pY EY), <- (flatten_app tok).
  apply parse_loops_complete.
Qed.

Lemma exec_app d steps X Y pX pY r :
  parse_toks X = Some pX -> parse_toks Y = Some pY -> (scost lbound pX + scost lbound pY < steps)%nat ->
  exec_f (S d) steps (X ++ Y) r = exec_f (S d) steps Y (exec_f (S d) steps X r).
Proof.
  intros EX EY H.
  rewrite (exec_f_parsed d steps _ _ r (parse_app X Y pX pY EX EY))
    by (pose proof (cost_bound (exec_f d steps) (papp pX pY) r); rewrite scost_papp in *; lia).
  rewrite sem_app.
  rewrite (exec_f_parsed d steps X pX r EX) by (pose proof (cost_bound (exec_f d steps) pX r); lia).
  rewrite (exec_f_parsed d steps Y pY _ EY)
    by (match goal with |- (LoopSpec.cost _ _ _ _ _ _ ?r0 < _)%nat => pose proof (cost_bound (exec_f d steps) pY r0) end; lia).
  reflexivity.
Qed.

Lemma parse_track x : parse_toks [TTrack x] = Some (PCons (Leaf (TTrack x)) PNil).
Proof. reflexivity. Qed.

Lemma exec_track d steps x r : (1 < steps)%nat ->
  exec_f (S d) steps [TTrack x] r = leafT (step_song (exec_f d steps) (TTrack x)) r.
Proof.
  intros H. rewrite (exec_f_parsed d steps _ _ r (parse_track x))
    by (pose proof (cost_bound (exec_f d steps) (PCons (Leaf (TTrack x)) PNil) r) as Hc; cbn [scost scost_item] in Hc; lia).
  reflexivity.
Qed.

Lemma exec_track_cons d steps x Y pY r : parse_toks Y = Some pY -> (scost lbound pY + 1 < steps)%nat ->
  exec_f (S d) steps (TTrack x :: Y) r = exec_f (S d) steps Y (leafT (step_song (exec_f d steps) (TTrack x)) r).
Proof.
  intros EY H. change (TTrack x :: Y) with ([TTrack x] ++ Y).
  rewrite (exec_app d steps [TTrack x] Y _ pY r (parse_track x) EY) by (cbn [scost scost_item]; lia).
  rewrite exec_track by lia. reflexivity.
Qed.

(* a track command addressed to the current track does nothing (no octave-once pending, not halted) *)
Lemma track_cur_id ec s : cur_ok s -> (s_cur s <= 999)%nat -> s_octave_once s = 0 -> s_break_flag s = 0 ->
  leafT (step_song ec (TTrack (Z.of_nat (s_cur s)))) (Ok s) = Ok s.
Proof.
  intros Hc Hi Ho Hb. unfold leafT. cbn [halted bind]. rewrite Hb. cbn [Z.eqb negb].
  rewrite (step_track ec s (s_cur s) Hc Hi Ho). destruct s; reflexivity.
Qed.

Lemma track_leaf ec s i : (i < length (s_tracks s))%nat -> (i <= 999)%nat -> s_octave_once s = 0 -> s_break_flag s = 0 ->
  leafT (step_song ec (TTrack (Z.of_nat i))) (Ok s) = Ok (s_set_cur s i).
Proof.
  intros Hi Hi9 Ho Hb. unfold leafT. cbn [halted bind]. rewrite Hb. cbn [Z.eqb negb]. apply step_track; assumption.
Qed.

Lemma block_parses d steps A : block_ok (S d) steps A = true -> exists p, parse_toks A = Some p /\ (scost lbound p < steps)%nat.
Proof.
  cbn [block_ok]. destruct (parse_toks A) as [p|]; [|discriminate]. intros H. apply andb_prop in H. destruct H as [H _].
  apply Nat.ltb_lt in H. exists p. split; [reflexivity|exact H].
Qed.

(* ------------------------------------------------------------------------------------------------ *)
(* 3. "TR(i) A TR(j) B TR(i) C" and "TR(i) A C TR(j) B"                                               *)

Definition triple_fuel_ok (steps : nat) (A B C : list tok) : bool :=
  match parse_toks A, parse_toks B, parse_toks C with
  | Some pA, Some pB, Some pC => (scost lbound pA + scost lbound pB + scost lbound pC + 3 <? steps)%nat
  | _, _, _ => false
  end.

Theorem group_blocks_exec d steps A B C s i j sA sB sC :
  block_ok (S d) steps A = true -> block_ok (S d) steps B = true -> block_ok (S d) steps C = true ->
  triple_fuel_ok steps A B C = true -> i <> j ->
  (i < length (s_tracks s))%nat -> (j < length (s_tracks s))%nat -> (i <= 999)%nat -> (j <= 999)%nat ->
  s_octave_once s = 0 -> s_break_flag s = 0 ->
  exec_f (S d) steps A (Ok (s_set_cur s i)) = Ok sA -> s_octave_once sA = 0 ->
  exec_f (S d) steps C (Ok sA) = Ok sC -> globals_eq (gnorm sC) (gnorm sA) ->
  exec_f (S d) steps B (Ok (s_set_cur sA j)) = Ok sB -> globals_eq (gnorm sB) (gnorm sA) ->
  exists r1 r2,
    exec_f (S d) steps (TTrack (Z.of_nat i) :: A ++ TTrack (Z.of_nat j) :: B ++ TTrack (Z.of_nat i) :: C) (Ok s) = Ok r1 /\
    exec_f (S d) steps (TTrack (Z.of_nat i) :: (A ++ C) ++ TTrack (Z.of_nat j) :: B) (Ok s) = Ok r2 /\
    exec_f (S d) steps (A ++ C) (Ok (s_set_cur s i)) = Ok sC /\
    s_tracks r1 = s_tracks r2 /\ globals_eq (gnorm r1) (gnorm r2) /\ s_cur r1 = i /\ s_cur r2 = j /\
    s_tracks r1 = upd_nth j (fun _ => nth j (s_tracks sB) dtrk) (upd_nth i (fun _ => nth i (s_tracks sC) dtrk) (s_tracks s)).
Proof.
  intros HA HB HC HF Hij Hi Hj Hi9 Hj9 Ho Hb EA HoA EC GC EB GB.
  pose proof (block_local steps (S d) A HA) as LA.
  destruct (lt_frame _ LA _ _ EA) as [A1 [A2 [A3 A4]]]. cbn [s_cur s_tracks s_set_cur] in A1, A2, A3.
  assert (HbA : s_break_flag sA = 0) by (rewrite (exec_f_keeps_break_flag steps (S d) A _ _ EA); exact Hb).
  assert (HcA : cur_ok sA) by (unfold cur_ok; rewrite A1, A2; exact Hi).
  assert (EsA : s_set_cur sA i = sA) by (rewrite <- A1; destruct sA; reflexivity).
  unfold triple_fuel_ok in HF.
  destruct (parse_toks A) as [pA|] eqn:PA; [|discriminate HF]. destruct (parse_toks B) as [pB|] eqn:PB; [|discriminate HF].
  destruct (parse_toks C) as [pC|] eqn:PC; [|discriminate HF]. apply Nat.ltb_lt in HF.
  assert (HFBC : pair_fuel_ok steps B C = true) by (unfold pair_fuel_ok; rewrite PB, PC; apply Nat.ltb_lt; lia).
  rewrite <- EsA in EC.
  destruct (blocks_commute_exec d steps B C sA j i sB sC HB HC HFBC (not_eq_sym Hij)) as [r1 [r2 [E1 [E2 [T12 [G12 [C1 [C2 T1]]]]]]]];
    try assumption; try (rewrite A2; assumption).
  rewrite EsA in EC.
  exists r1, r2.
  (* the parsed pieces *)
  assert (PjB : parse_toks (TTrack (Z.of_nat j) :: B) = Some (PCons (Leaf (TTrack (Z.of_nat j))) pB))
    by (apply (parse_app [TTrack (Z.of_nat j)] B _ pB (parse_track _) PB)).
  assert (PiC : parse_toks (TTrack (Z.of_nat i) :: C) = Some (PCons (Leaf (TTrack (Z.of_nat i))) pC))
    by (apply (parse_app [TTrack (Z.of_nat i)] C _ pC (parse_track _) PC)).
  assert (PiA : parse_toks (TTrack (Z.of_nat i) :: A) = Some (PCons (Leaf (TTrack (Z.of_nat i))) pA))
    by (apply (parse_app [TTrack (Z.of_nat i)] A _ pA (parse_track _) PA)).
  assert (PjBiC : parse_toks (TTrack (Z.of_nat j) :: B ++ TTrack (Z.of_nat i) :: C)
                  = Some (papp (PCons (Leaf (TTrack (Z.of_nat j))) pB) (PCons (Leaf (TTrack (Z.of_nat i))) pC)))
    by (apply (parse_app (TTrack (Z.of_nat j) :: B) (TTrack (Z.of_nat i) :: C) _ _ PjB PiC)).
  assert (PCjB : parse_toks (C ++ TTrack (Z.of_nat j) :: B) = Some (papp pC (PCons (Leaf (TTrack (Z.of_nat j))) pB)))
    by (apply (parse_app C (TTrack (Z.of_nat j) :: B) _ _ PC PjB)).
  assert (EiA : exec_f (S d) steps (TTrack (Z.of_nat i) :: A) (Ok s) = Ok sA).
  { rewrite (exec_track_cons d steps _ A pA (Ok s) PA) by lia. rewrite (track_leaf _ s i Hi Hi9 Ho Hb). exact EA. }
  split.
  { change (TTrack (Z.of_nat i) :: A ++ TTrack (Z.of_nat j) :: B ++ TTrack (Z.of_nat i) :: C)
      with ((TTrack (Z.of_nat i) :: A) ++ (TTrack (Z.of_nat j) :: B ++ TTrack (Z.of_nat i) :: C)).
    rewrite (exec_app d steps _ _ _ _ (Ok s) PiA PjBiC) by (rewrite scost_papp; cbn [scost scost_item]; lia).
    rewrite EiA. exact E1. }
  split.
  { replace (TTrack (Z.of_nat i) :: (A ++ C) ++ TTrack (Z.of_nat j) :: B)
      with ((TTrack (Z.of_nat i) :: A) ++ (C ++ TTrack (Z.of_nat j) :: B)) by (cbn [app]; rewrite <- app_assoc; reflexivity).
    rewrite (exec_app d steps _ _ _ _ (Ok s) PiA PCjB) by (rewrite scost_papp; cbn [scost scost_item]; lia).
    rewrite EiA. rewrite <- E2.
    rewrite (exec_track_cons d steps _ (C ++ TTrack (Z.of_nat j) :: B) _ (Ok sA) PCjB) by (rewrite scost_papp; cbn [scost scost_item]; lia).
    assert (Hid : leafT (step_song (exec_f d steps) (TTrack (Z.of_nat i))) (Ok sA) = Ok sA).
    { pose proof (track_cur_id (exec_f d steps) sA HcA) as Hid. rewrite A1 in Hid. apply Hid; assumption. }
    rewrite Hid. reflexivity. }
  split.
  { rewrite (exec_app d steps A C pA pC _ PA PC) by lia. rewrite EA. exact EC. }
  split; [exact T12|]. split; [exact G12|]. split; [exact C1|]. split; [exact C2|].
  rewrite T1. rewrite (frame_tracks (s_set_cur s i) sA) by (repeat split; assumption). cbn [s_cur s_set_cur s_tracks].
  rewrite (upd_nth_comm _ _ _ j i (not_eq_sym Hij)), upd_nth_upd_nth. reflexivity.
Qed.

(* ------------------------------------------------------------------------------------------------ *)
(* the one-step law with everything it says spelled out                                               *)
Theorem switch_and_back_law ec s j :
  cur_ok s -> (s_cur s <= 999)%nat -> (j <= 999)%nat -> s_octave_once s = 0 ->
  let s' := with_tracks_upto s j in
  fold_steps ec [TTrack (Z.of_nat j); TTrack (Z.of_nat (s_cur s))] (Ok s) = Ok s' /\
  (forall d steps, s_break_flag s = 0 -> (2 < steps)%nat ->
     exec_f (S d) steps [TTrack (Z.of_nat j); TTrack (Z.of_nat (s_cur s))] (Ok s) = Ok s') /\
  s' = s_set_tracks s (s_tracks s ++ map (default_track (s_timebase s)) (seq (length (s_tracks s)) (S j - length (s_tracks s)))) /\
  s_cur s' = s_cur s /\ cur_track s' = cur_track s /\ s_set_tracks s' [] = s_set_tracks s [] /\
  (forall k, (k < length (s_tracks s))%nat -> nth k (s_tracks s') dtrk = nth k (s_tracks s) dtrk) /\
  length (s_tracks s') = Nat.max (length (s_tracks s)) (S j) /\
  (forall k, (length (s_tracks s) <= k < length (s_tracks s'))%nat ->
     nth k (s_tracks s') dtrk = track_new (s_timebase s) (Z.of_nat k - 1)) /\
  ((j < length (s_tracks s))%nat -> s' = s).
Proof.
  intros Hc Hi Hj Ho s'. destruct (with_tracks_upto_facts s j) as [F1 [F2 [F3 [F4 [F5 [F6 F7]]]]]]. fold s' in F1, F2, F3, F4, F5, F6, F7.
  split; [apply switch_and_back; assumption|].
  split; [intros d steps Hb Hs; apply switch_and_back_exec; assumption|].
  split; [reflexivity|]. split; [exact F1|]. split; [exact (F2 Hc)|]. split; [exact F3|]. split; [exact F4|].
  split; [exact F5|]. split; [exact F6|exact F7].
Qed.
