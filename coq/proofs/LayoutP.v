(* C18 / C19: the main loop of lexer::lex at a command boundary - separators, line breaks, the five comment
   forms, full-width command characters, unknown characters, unknown words, End - as one-step equations.

   `LOOP f` is the inner loop of `lex_f (S f)` (model/LexCore.v) re-stated at top level: the text between the two
   markers below is a verbatim copy of the body of the inner `fix loop` of lex_f, with `loop` renamed to LOOPG and
   the recursive sub-lexing `lex_f f` abstracted as the section variable `sublex`; `lex_f_unfold` proves by
   conversion that lex_f (S f) IS this loop, so a change of the model that is not mirrored here breaks that proof.
   Regenerate the copy with:
     sed -n '/^    (fix loop (n : nat)/,/^       end) (S (length src))/p' model/LexCore.v   (drop the first line, cut the last one after `end`),
     s/lex_f f/sublex/g ; s/loop n'/LOOPG n'/g
   The step lemmas below do not depend on the arms they do not mention, and the log invariant of LogP.v treats all
   arms by one tactic, so after regenerating the copy nothing else normally needs to change. *)
From Coq Require Import String Ascii.
From Sakura.Model Require Import Base Cursor Length Event Song Token LexCore.
From Sakura.Gen Require Import Consts SysFuncRows Messages VarRows.
From Coq Require Import Lia.
Open Scope Z_scope.

Section LoopCopy.
Variable sublex : lexstate -> list ch -> Z -> res lex_out.
Fixpoint LOOPG (n : nat) (ls : lexstate) (s : list ch) (ln : Z) (harmony : bool) (acc : list tok) {struct n} : res lex_out :=
(* ---- BEGIN copy of the inner loop of lex_f ---- *)
       match n with
       | O => OutOfFuel
       | S n' =>
         match s with
         | [] => Ok (acc, ls)
         | c0 :: r =>
           let c := zen2han c0 in
           let tb := lx_timebase ls in
           let push (x : res (tok * list ch * Z)) : res lex_out :=
             do y <- x; let '(t, s', ln') := y in LOOPG n' ls s' ln' harmony (acc ++ [t]) in
           let pusho (x : res (option tok * list ch * Z)) : res lex_out :=
             do y <- x; let '(ot, s', ln') := y in
             LOOPG n' ls s' ln' harmony (match ot with Some t => acc ++ [t] | None => acc end) in
           if (c =? 32) || (c =? 9) || (c =? 13) || (c =? 124) || (c =? 59) then LOOPG n' ls r ln harmony acc
           else if c =? 10 then LOOPG n' ls r (ln + 1) harmony (acc ++ [TLineNo (ln + 1)])
           else if (c =? 99) || (c =? 100) || (c =? 101) || (c =? 102) || (c =? 103) || (c =? 97) || (c =? 98) then
             push (Ok (read_note c r ln))
           else if c =? 110 then push (read_note_n tb r ln)
           else if c =? 114 then push (Ok (read_rest r ln))
           else if c =? 108 then pusho (read_length tb r ln)
           else if c =? 111 then pusho (read_octave tb r ln)
           else if ((c =? 113) || (c =? 118)) && negb (prefixb (zs "Add") r || ((c =? 113) && prefixb (zs "2Add") r)) then
             (if c =? 113 then pusho (read_qlen tb r ln) else pusho (read_velocity tb r ln))
           else if c =? 116 then pusho (read_timing tb r ln)
           else if c =? 112 then push (read_pitch_bend 0 tb r ln)
           else if c =? 121 then
             do ra <- read_cc ls false r ln;
             let '(ot, s2, ln2, ls') := ra in
             LOOPG n' ls' s2 ln2 harmony (match ot with Some t => acc ++ [t] | None => acc end)
           else if is_upper c || (c =? 95) || (c =? 113) || (c =? 118) then
             (* cur.prev(): the command is re-read from the ORIGINAL character (vAdd / qAdd / q2Add arrive here too) *)
             (* cur.prev(); cur.replace_char(ch): the command is re-read with the converted character *)
             let s := c :: r in
             if true then
               if prefixb (zs "End") s || prefixb (zs "END") s then Ok (acc, ls)
               else
                 let '(word0, s1) := get_word s in
                 (* System. / PlayFrom. prefixes *)
                 let '(word, s1) :=
                   if list_eqb word0 (zs "System") || list_eqb word0 (zs "SYSTEM") then
                     let s2 := if eq_char s1 46 then tl s1 else s1 in
                     let '(w2, s3) := get_word s2 in
                     (zs "System" ++ (if eq_char s1 46 then [46] else []) ++ w2, s3)
                   else if list_eqb word0 (zs "PlayFrom") && eq_char s1 46 then
                     let '(w2, s3) := get_word (tl s1) in (word0 ++ [46] ++ w2, s3)
                   else (word0, s1) in
                 match sysfunc_lookup word sysfunc_rows None with
                 | None =>
                     do cv <- check_variables ls word s1 ln;
                     let '(ot, s2, ln2, ls') := cv in
                     LOOPG n' ls' s2 ln2 harmony (match ot with Some t => acc ++ [t] | None => acc end)
                 | Some (ttype, (argt, (tag1, tag2))) =>
                   if ((argt =? 73) || (argt =? 65)) &&
                      (list_eqb ttype (zs "Time") || list_eqb ttype (zs "PlayFrom") || list_eqb ttype (zs "TimeSignature")
                       || list_eqb ttype (zs "TieMode")) then
                     let '(s2, ln2) := skip_space s1 ln in
                     let s3 := if eq_char s2 61 then tl s2 else s2 in
                     do ra <- read_args_tokens ls s3 ln2;
                     let '(vs, s4, ln4, ls') := ra in
                     let args := map (fun o => match o with Some v => v | None => 0 end) vs in
                     let t := if list_eqb ttype (zs "Time") then TTime args
                              else if list_eqb ttype (zs "PlayFrom") then TPlayFrom args
                              else if list_eqb ttype (zs "TieMode") then TTieMode args else TTimeSignature args in
                     LOOPG n' ls' s4 ln4 harmony (acc ++ [t])
                   else if (argt =? 73) && (list_eqb ttype (zs "Track") || list_eqb ttype (zs "Channel")
                                       || list_eqb ttype (zs "KeyShift") || list_eqb ttype (zs "TrackKey")
                                       || list_eqb ttype (zs "MeasureShift") || list_eqb ttype (zs "Tempo")
                                       || list_eqb ttype (zs "SongVelocityAdd") || list_eqb ttype (zs "SongQAdd")) then
                     let '(s2, ln2) := skip_space s1 ln in
                     let s3 := if eq_char s2 61 then tl s2 else s2 in
                     do ra <- read_args_tokens ls s3 ln2;
                     let '(vs, s4, ln4, ls') := ra in
                     match vs with
                     | [_] =>
                       let v := last_arg vs in
                       let t := if list_eqb ttype (zs "Track") then TTrack v
                                else if list_eqb ttype (zs "Channel") then TChannel v
                                else if list_eqb ttype (zs "KeyShift") then TKeyShift v
                                else if list_eqb ttype (zs "MeasureShift") then TMeasureShift v
                                else if list_eqb ttype (zs "Tempo") then TTempo v
                                else if list_eqb ttype (zs "SongVelocityAdd") then TVAdd v
                                else if list_eqb ttype (zs "SongQAdd") then TQAdd v else TTrackKey v in
                       LOOPG n' ls' s4 ln4 harmony (acc ++ [t])
                     | _ => Unsupported U_UPPER
                     end
                   else if (argt =? 95) && list_eqb ttype (zs "TrackSync") then LOOPG n' ls s1 ln harmony (acc ++ [TTrackSync])
                   else if list_eqb ttype (zs "KeyFlag") then push (Ok (read_key_flag s1 ln))
                   else if list_eqb ttype (zs "TimeBase") then
                     (* read_timebase: the time base is set at lex time, clamped to 48..32767; Empty token *)
                     do ra <- read_arg_value (arg_fuel s1) tb s1 ln;
                     let '(v, s2, ln2) := ra in
                     let t0 := aval_to_i v in
                     let t1 := if t0 <=? 48 then 48 else t0 in
                     let t2 := if t1 >? 32767 then 32767 else t1 in
                     LOOPG n' (mkLex t2 (lx_logs ls) (lx_vars ls) (lx_rhythm ls) (lx_ja ls)) s2 ln2 harmony acc
                   else if list_eqb ttype (zs "Rhythm") then
                     let '(s2, ln2) := skip_space s1 ln in
                     let '(block, s3, ln3) := get_token_nest s2 ln2 123 125 in
                     do sub <- sublex ls (rhythm_expand (S (length block)) (lx_rhythm ls) block) ln2;
                     let '(toks, ls') := sub in
                     LOOPG n' ls' s3 ln3 harmony (acc ++ toks)
                   else if list_eqb ttype (zs "Sub") then
                     let '(s2, ln2) := skip_space s1 ln in
                     let '(block, s3, ln3) := get_token_nest s2 ln2 123 125 in
                     do sub <- sublex ls block ln2;      (* the block is lexed from the line it starts on *)
                     let '(toks, ls') := sub in
                     LOOPG n' ls' s3 ln3 harmony (acc ++ [TSub toks])
                   else if list_eqb ttype (zs "Div") then
                     let '(s2, ln2) := skip_space s1 ln in
                     let '(block, s3, ln3) := get_token_nest s2 ln2 123 125 in
                     let '(len, s4, ln4) := get_note_length s3 ln3 in
                     do sub <- sublex ls block ln2;
                     let '(toks, ls') := sub in
                     LOOPG n' ls' s4 ln4 harmony (acc ++ [TDiv (div_count toks) len toks])
                   else
                     do ra <- read_ext_command ls ttype argt tag1 tag2 s1 ln;
                     let '(ot, s2, ln2, ls') := ra in
                     LOOPG n' ls' s2 ln2 harmony (match ot with Some t => acc ++ [t] | None => acc end)
                 end
             else Unsupported U_CHAR   (* a full-width capital: prev() re-reads the unconverted character *)
           else if c =? 35 then
             let s := c :: r in
             if true then
               if prefixb [35; 35] s || prefixb [35; 32] s || prefixb [35; 45] s then
                 let '(_, s1, ln1) := get_token_ch c_NL s ln in LOOPG n' ls s1 ln1 harmony acc
               else
                 let '(word, s1) := get_word s in
                 do cv <- check_variables ls word s1 ln;
                 let '(ot, s2, ln2, ls') := cv in
                 LOOPG n' ls' s2 ln2 harmony (match ot with Some t => acc ++ [t] | None => acc end)
             else Unsupported U_CHAR
           else if c =? 64 then
             do ra <- read_args_tokens ls r ln;
             let '(vs, s1, ln1, ls') := ra in
             LOOPG n' ls' s1 ln1 harmony (acc ++ [TVoice (map (fun o => match o with Some v => v | None => 0 end) vs)])
           else if c =? 62 then LOOPG n' ls r ln harmony (acc ++ [TOctaveRel 1])
           else if c =? 60 then LOOPG n' ls r ln harmony (acc ++ [TOctaveRel (-1)])
           else if c =? 41 then LOOPG n' ls r ln harmony (acc ++ [TVelocityRel 1])
           else if c =? 40 then LOOPG n' ls r ln harmony (acc ++ [TVelocityRel (-1)])
           else if c =? 47 then
             let s := c :: r in
             if true then
               if prefixb [47; 47; 47] s then
                 let '(_, s1, ln1) := get_token_ch c_NL s ln in LOOPG n' ls s1 ln1 harmony (acc ++ [TComment])
               else if prefixb [47; 47] s then
                 let '(_, s1, ln1) := get_token_ch c_NL s ln in LOOPG n' ls s1 ln1 harmony acc
               else if prefixb [47; 42; 42] s then
                 let '(_, s1, ln1) := get_token_s [42; 47] s ln in LOOPG n' ls s1 ln1 harmony (acc ++ [TComment])
               else if prefixb [47; 42] s then
                 let '(_, s1, ln1) := get_token_s [42; 47] s ln in LOOPG n' ls s1 ln1 harmony acc
               else
                 LOOPG n' (lex_error ls r ln (zs "Could not parse flag '" ++ [c] ++ zs "'")) r ln harmony acc
             else Unsupported U_CHAR
           else if c =? 91 then push (read_loop tb r ln)
           else if c =? 58 then LOOPG n' ls r ln harmony (acc ++ [TLoopBreak])
           else if c =? 93 then LOOPG n' ls r ln harmony (acc ++ [TLoopEnd])
           else if c =? 39 then
             if harmony then
               let '(t, s1, ln1) := read_harmony_end r ln in LOOPG n' ls s1 ln1 false (acc ++ [t])
             else LOOPG n' ls r ln true (acc ++ [THarmonyBegin])
           else if c =? 36 then
             (* read_def_rhythm_macro: $x{...} *)
             match r with
             | [] => LOOPG n' (lx_add_log ls (zs "[ERROR](" ++ show_int ln ++ zs ") could not define Rhythm macro '" ++ [0] ++ zs "' ")) r ln harmony acc
             | mc :: r1 =>
                 let '(s2, ln2) := skip_space r1 ln in
                 let s3 := if eq_char s2 61 then tl s2 else s2 in
                 let '(s4, ln4) := skip_space s3 ln2 in
                 let '(body, s5, ln5) := get_token_nest s4 ln4 123 125 in
                 if (64 <=? mc) && (mc <=? 127) then
                   LOOPG n' (mkLex (lx_timebase ls) (lx_logs ls) (lx_vars ls) ((mc, body) :: lx_rhythm ls) (lx_ja ls)) s5 ln5 harmony acc
                 else
                   LOOPG n' (lx_add_log ls (zs "[ERROR](" ++ show_int ln5 ++ zs ") could not define Rhythm macro '" ++ [mc] ++ zs "' ")) s5 ln5 harmony acc
             end
           else if c =? 123 then
             let s := c :: r in
             if true then
               let '(block, s3, ln3) := get_token_nest s ln 123 125 in
               let '(len, s4, ln4) := get_note_length s3 ln3 in
               do sub <- sublex ls block ln;
               let '(toks, ls') := sub in
               LOOPG n' ls' s4 ln4 harmony (acc ++ [TDiv (div_count toks) len toks])
             else Unsupported U_CHAR
           else if c =? 96 then LOOPG n' ls r ln harmony (acc ++ [TOctaveOnce 1])
           else if c =? 34 then LOOPG n' ls r ln harmony (acc ++ [TOctaveOnce (-1)])
           else if c =? 63 then LOOPG n' ls r ln harmony (acc ++ [TPlayFromHere])
           else if c =? 38 then LOOPG n' ls r ln harmony acc       (* read_tie_error: an Empty token *)
           else LOOPG n' (lex_error ls r ln [c]) r ln harmony acc
         end
       end
(* ---- END copy (the last `end` closes `match n`) ---- *)
       .
End LoopCopy.
Definition LOOP (f : nat) := LOOPG (lex_f f).

(* lex_f (S f) is this loop - after the scan of lex_preprocess, which sends every source that defines a user function
   outside the model - started with fuel S (length src), no open chord, and the initial LineNo token *)
Lemma lex_f_unfold : forall f ls src ln,
  lex_f (S f) ls src ln
  = if lex_pre src then Unsupported U_FUNCTION else LOOP f (S (length src)) ls src ln false [TLineNo ln].
Proof.
  intros. cbn [lex_f]. unfold LOOP. cbn [LOOPG].
  (* in step with the model this takes well under a second; a copy that is out of date would send the conversion
     test astray for a very long time (while holding the build lock), hence the time limits *)
  Timeout 60 reflexivity.
Timeout 300 Qed.
Lemma lex_unfold : forall ls src ln,
  lex ls src ln
  = if lex_pre src then Unsupported U_FUNCTION else LOOP (length src) (S (length src)) ls src ln false [TLineNo ln].
Proof. intros. unfold lex. apply lex_f_unfold. Qed.
(* a source in which the scan finds no FUNCTION / Function *)
Lemma lex_unfold_plain : forall ls src ln, lex_pre src = false ->
  lex ls src ln = LOOP (length src) (S (length src)) ls src ln false [TLineNo ln].
Proof. intros ls src ln H. rewrite lex_unfold, H. reflexivity. Qed.

(* ------------------------------------------------------------------------------------------ *)
(* 1. cursor helpers used by the comment arms                                                   *)
(* ------------------------------------------------------------------------------------------ *)
Fixpoint count_nl (t : list Z) : Z :=
  match t with [] => 0 | c :: r => (if c =? 10 then 1 else 0) + count_nl r end.
Definition no_nl (t : list Z) : bool := forallb (fun c => negb (c =? 10)) t.
(* no "*/" inside t *)
Fixpoint no_close (t : list Z) : bool :=
  match t with [] => true | c :: r => negb ((c =? 42) && eq_char r 47) && no_close r end.

Lemma count_nl_app a b : count_nl (a ++ b) = count_nl a + count_nl b.
Proof. induction a as [|c a IH]; cbn [count_nl app]; [reflexivity|]. rewrite IH. lia. Qed.
Lemma count_nl_no_nl t : no_nl t = true -> count_nl t = 0.
Proof.
  induction t as [|c t IH]; cbn [count_nl no_nl forallb]; [reflexivity|].
  intros H. apply andb_true_iff in H. destruct H as [H1 H2]. rewrite (IH H2).
  destruct (c =? 10); [discriminate|reflexivity].
Qed.
Lemma count_nl_nonneg t : 0 <= count_nl t.
Proof. induction t as [|c t IH]; cbn [count_nl]; [lia|]. destruct (c =? 10); lia. Qed.

(* get_token_ch(sp): the text up to the first sp, the cursor after it, every line break counted *)
Lemma get_token_ch_found sp t r ln : forallb (fun c => negb (c =? sp)) t = true ->
  get_token_ch sp (t ++ sp :: r) ln = (t, r, ln + count_nl t + (if sp =? 10 then 1 else 0)).
Proof.
  revert ln. induction t as [|c t IH]; intros ln H; cbn [app get_token_ch count_nl].
  - rewrite Z.eqb_refl. unfold c_NL. destruct (sp =? 10); f_equal; lia.
  - cbn [forallb] in H. apply andb_true_iff in H. destruct H as [H1 H2].
    destruct (c =? sp); [discriminate|]. rewrite (IH _ H2). unfold c_NL.
    destruct (c =? 10); f_equal; lia.
Qed.
Lemma get_token_ch_eof sp t ln : forallb (fun c => negb (c =? sp)) t = true ->
  get_token_ch sp t ln = (t, [], ln + count_nl t).
Proof.
  revert ln. induction t as [|c t IH]; intros ln H; cbn [get_token_ch count_nl].
  - f_equal. lia.
  - cbn [forallb] in H. apply andb_true_iff in H. destruct H as [H1 H2].
    destruct (c =? sp); [discriminate|]. rewrite (IH _ H2). unfold c_NL.
    destruct (c =? 10); f_equal; lia.
Qed.
(* a line comment: text without a line break, then the line break *)
Lemma get_token_ch_line t r ln : no_nl t = true -> get_token_ch c_NL (t ++ 10 :: r) ln = (t, r, ln + 1).
Proof.
  intros H. unfold c_NL. rewrite (get_token_ch_found 10 t r ln H). rewrite (count_nl_no_nl t H).
  cbn. f_equal. lia.
Qed.
Lemma get_token_ch_line_eof t ln : no_nl t = true -> get_token_ch c_NL t ln = (t, [], ln).
Proof.
  intros H. unfold c_NL. rewrite (get_token_ch_eof 10 t ln H). rewrite (count_nl_no_nl t H). f_equal. lia.
Qed.

(* get_token_s("*/"): the text up to the first "*/", the cursor after it, every line break counted *)
Lemma get_token_s_close t r ln : no_close t = true ->
  get_token_s [42; 47] (t ++ 42 :: 47 :: r) ln = (t, r, ln + count_nl t).
Proof.
  revert ln. induction t as [|c t IH]; intros ln H.
  - cbn. f_equal. lia.
  - cbn [no_close] in H. apply andb_true_iff in H. destruct H as [H1 H2].
    change ((c :: t) ++ 42 :: 47 :: r) with (c :: (t ++ 42 :: 47 :: r)).
    cbn [get_token_s].
    assert (P : prefixb [42; 47] (c :: t ++ 42 :: 47 :: r) = false).
    { cbn [prefixb]. destruct (42 =? c) eqn:E; [|reflexivity]. apply Z.eqb_eq in E. subst c.
      rewrite Z.eqb_refl in H1. cbn [andb negb] in H1.
      destruct t as [|d t]; cbn [app prefixb]; [reflexivity|].
      cbn [eq_char] in H1. rewrite (Z.eqb_sym 47 d). destruct (d =? 47); [discriminate|reflexivity]. }
    rewrite P. rewrite (IH _ H2). cbn [count_nl]. unfold c_NL. destruct (c =? 10); f_equal; lia.
Qed.

(* ------------------------------------------------------------------------------------------ *)
(* 2. the loop sees its first character only through zen2han                                    *)
(* ------------------------------------------------------------------------------------------ *)
Lemma LOOP_zen2han f n ls c c' r ln h acc :
  zen2han c = zen2han c' -> LOOP f n ls (c :: r) ln h acc = LOOP f n ls (c' :: r) ln h acc.
Proof. intros E. unfold LOOP. destruct n; [reflexivity|]. cbn [LOOPG]. rewrite E. reflexivity. Qed.

Lemma zen2han_fullwidth c : 33 <= c <= 126 -> zen2han (c + 65248) = c /\ zen2han c = c.
Proof.
  intros H. unfold zen2han. split.
  - replace ((32 <=? c + 65248) && (c + 65248 <=? 126)) with false by lia.
    replace ((65281 <=? c + 65248) && (c + 65248 <=? 65374)) with true by lia. lia.
  - replace ((32 <=? c) && (c <=? 126)) with true by lia. reflexivity.
Qed.

(* every command character may be written in its full-width form: whichever arm is taken (including the arms that
   re-read the character: upper-case words, '#', '/', '{' - the model's `let s := c :: r` is the code's
   cur.prev(); cur.replace_char(ch)) sees the half-width character *)
Lemma fullwidth_command_char f n ls c r ln h acc : 33 <= c <= 126 ->
  LOOP f n ls ((c + 65248) :: r) ln h acc = LOOP f n ls (c :: r) ln h acc.
Proof. intros H. apply LOOP_zen2han. destruct (zen2han_fullwidth c H) as [A B]. congruence. Qed.

(* ------------------------------------------------------------------------------------------ *)
(* 3. separators and line breaks                                                                *)
(* ------------------------------------------------------------------------------------------ *)
Definition sep_code (z : Z) : bool := (z =? 32) || (z =? 9) || (z =? 13) || (z =? 124) || (z =? 59).
(* ' ' TAB CR '|' ';', the blanks zen2han maps to ' ' (U+3000, U+2002..U+200B, U+FEFF), full-width '|' and ';' *)
Definition is_sep_char (c : Z) : Prop :=
  In c [32; 9; 13; 124; 59; 12288; 65279; 65372; 65307] \/ 8194 <= c <= 8203.

Lemma sep_char_code c : is_sep_char c -> sep_code (zen2han c) = true.
Proof.
  intros [H|H].
  - cbn [In] in H. repeat (destruct H as [H|H]; [subst c; reflexivity|]). contradiction.
  - unfold zen2han.
    replace ((32 <=? c) && (c <=? 126)) with false by lia.
    replace ((65281 <=? c) && (c <=? 65374)) with false by lia.
    replace ((8194 <=? c) && (c <=? 8203)) with true by lia. reflexivity.
Qed.

Lemma sep_code_step f n ls c r ln h acc : sep_code (zen2han c) = true ->
  LOOP f (S n) ls (c :: r) ln h acc = LOOP f n ls r ln h acc.
Proof. intros E. unfold LOOP. cbn [LOOPG]. unfold sep_code in E. rewrite E. reflexivity. Qed.

Lemma separator_step f n ls c r ln h acc : is_sep_char c ->
  LOOP f (S n) ls (c :: r) ln h acc = LOOP f n ls r ln h acc.
Proof. intros H. apply sep_code_step, sep_char_code, H. Qed.

Lemma newline_step f n ls r ln h acc :
  LOOP f (S n) ls (10 :: r) ln h acc = LOOP f n ls r (ln + 1) h (acc ++ [TLineNo (ln + 1)]).
Proof. reflexivity. Qed.

(* collapse the dispatch once the character is known *)
Ltac arm0 E := unfold LOOP; cbn [LOOPG]; rewrite E.
Ltac collapse := cbn [Z.eqb Pos.eqb orb andb negb is_upper Z.leb Z.compare Pos.compare Pos.compare_cont].

(* ------------------------------------------------------------------------------------------ *)
(* 4. the five comment forms                                                                    *)
(* ------------------------------------------------------------------------------------------ *)
Lemma prefixb_cons a p s : prefixb (a :: p) (a :: s) = prefixb p s.
Proof. cbn [prefixb]. rewrite Z.eqb_refl. reflexivity. Qed.
Lemma prefixb_nil s : prefixb [] s = true.
Proof. destruct s; reflexivity. Qed.
Lemma prefixb_neq a b p s : a <> b -> prefixb (a :: p) (b :: s) = false.
Proof. intros H. cbn [prefixb]. destruct (a =? b) eqn:E; [apply Z.eqb_eq in E; contradiction|reflexivity]. Qed.
Lemma prefixb1_app a t x r : prefixb [a] (t ++ x :: r) = eq_char (t ++ [x]) a.
Proof. destruct t; cbn [app prefixb eq_char]; rewrite andb_true_r; apply Z.eqb_sym. Qed.

(* "//" text LF : nothing but the line; "///" text LF : a Comment token (the runner ignores it) *)
Lemma line_comment_step f n ls c t r ln h acc : zen2han c = 47 -> no_nl t = true ->
  LOOP f (S n) ls (c :: 47 :: t ++ 10 :: r) ln h acc
  = LOOP f n ls r (ln + 1) h (if eq_char t 47 then acc ++ [TComment] else acc).
Proof.
  intros E H. arm0 E.
  rewrite !prefixb_cons, prefixb_nil, prefixb1_app.
  change (47 :: 47 :: t ++ 10 :: r) with ((47 :: 47 :: t) ++ 10 :: r).
  rewrite get_token_ch_line by exact H. collapse.
  destruct t as [|d t]; cbn [app eq_char]; [reflexivity|]. destruct (d =? 47); reflexivity.
Qed.
(* "//" text at the end of the source *)
Lemma line_comment_eof_step f n ls c t ln h acc : zen2han c = 47 -> no_nl t = true ->
  LOOP f (S n) ls (c :: 47 :: t) ln h acc
  = LOOP f n ls [] ln h (if eq_char t 47 then acc ++ [TComment] else acc).
Proof.
  intros E H. arm0 E.
  rewrite !prefixb_cons, prefixb_nil.
  rewrite get_token_ch_line_eof by exact H. collapse.
  destruct t as [|d t]; cbn [prefixb eq_char]; [reflexivity|].
  rewrite andb_true_r, (Z.eqb_sym 47 d). destruct (d =? 47); reflexivity.
Qed.

(* "/*" text "*/" : nothing, the line breaks inside are counted; "/**" text "*/" : a Comment token.
   The scan for "*/" starts at the '/' of the opener, so "/*/" is a complete comment: the text must not begin with '/'. *)
Lemma block_comment_step f n ls c t r ln h acc : zen2han c = 47 -> no_close (42 :: t) = true ->
  LOOP f (S n) ls (c :: 42 :: t ++ 42 :: 47 :: r) ln h acc
  = LOOP f n ls r (ln + count_nl t) h (if eq_char (t ++ [42]) 42 then acc ++ [TComment] else acc).
Proof.
  intros E H. arm0 E.
  rewrite !prefixb_cons, prefixb_nil.
  rewrite (prefixb_neq 47 42) by discriminate.
  rewrite prefixb1_app.
  change (47 :: 42 :: t ++ 42 :: 47 :: r) with ((47 :: 42 :: t) ++ 42 :: 47 :: r).
  rewrite get_token_s_close by (cbn [no_close eq_char]; exact H).
  collapse. change (count_nl (47 :: 42 :: t)) with (0 + (0 + count_nl t)). rewrite !Z.add_0_l.
  destruct (eq_char (t ++ [42]) 42); reflexivity.
Qed.

(* "##" text LF, "# " text LF, "#-" text LF *)
Lemma hash_comment_step f n ls c x t r ln h acc : zen2han c = 35 -> x = 35 \/ x = 32 \/ x = 45 -> no_nl t = true ->
  LOOP f (S n) ls (c :: x :: t ++ 10 :: r) ln h acc = LOOP f n ls r (ln + 1) h acc.
Proof.
  intros E Hx H. arm0 E. collapse.
  change (35 :: x :: t ++ 10 :: r) with ((35 :: x :: t) ++ 10 :: r).
  rewrite get_token_ch_line by (destruct Hx as [->|[->| ->]]; exact H).
  destruct Hx as [->|[->| ->]]; reflexivity.
Qed.

(* ------------------------------------------------------------------------------------------ *)
(* 5. unknown characters                                                                        *)
(* ------------------------------------------------------------------------------------------ *)
(* the characters (after zen2han) that start an arm of the loop other than the default one *)
Definition cmd_codes : list Z :=
  [32; 9; 13; 124; 59; 10; 99; 100; 101; 102; 103; 97; 98; 110; 114; 108; 111; 113; 118; 116; 112; 121; 95; 35; 64;
   62; 60; 41; 40; 47; 91; 58; 93; 39; 36; 123; 96; 34; 63; 38].
Definition cmd_code (z : Z) : bool := is_upper z || existsb (Z.eqb z) cmd_codes.

Lemma not_cmd_neq z k : cmd_code z = false -> existsb (Z.eqb k) cmd_codes = true -> (z =? k) = false.
Proof.
  intros H K. destruct (z =? k) eqn:E; [|reflexivity]. apply Z.eqb_eq in E. subst k.
  unfold cmd_code in H. rewrite K, orb_true_r in H. discriminate.
Qed.
Lemma not_cmd_upper z : cmd_code z = false -> is_upper z = false.
Proof. unfold cmd_code. intros H. apply orb_false_elim in H. apply H. Qed.

(* an unknown character costs one log entry (lex_error), no token, exactly itself, and leaves the line counter *)
Lemma unknown_char_step f n ls c r ln h acc : cmd_code (zen2han c) = false ->
  LOOP f (S n) ls (c :: r) ln h acc = LOOP f n (lex_error ls r ln [zen2han c]) r ln h acc.
Proof.
  intros H. unfold LOOP. cbn [LOOPG].
  rewrite (not_cmd_upper _ H).
  repeat match goal with
         | |- context [zen2han c =? ?k] => rewrite (not_cmd_neq (zen2han c) k H eq_refl)
         end.
  cbn [orb andb negb]. reflexivity.
Qed.

Lemma existsb_eqb_false z l : ~ In z l -> existsb (Z.eqb z) l = false.
Proof.
  induction l as [|k l IH]; cbn [existsb In]; intros H; [reflexivity|].
  destruct (z =? k) eqn:E; [apply Z.eqb_eq in E; subst k; exfalso; apply H; left; reflexivity|].
  apply IH. intros K. apply H. right. exact K.
Qed.
Lemma unknown_char_step_in f n ls c r ln h acc : is_upper (zen2han c) = false -> ~ In (zen2han c) cmd_codes ->
  LOOP f (S n) ls (c :: r) ln h acc = LOOP f n (lex_error ls r ln [zen2han c]) r ln h acc.
Proof.
  intros U N. apply unknown_char_step. unfold cmd_code. rewrite U, (existsb_eqb_false _ _ N). reflexivity.
Qed.
(* the printable ASCII characters that are unknown at command position *)
Lemma unknown_ascii :
  filter (fun c => negb (cmd_code (zen2han c))) (map Z.of_nat (seq 33 94))
  = zs "!%*+,-.0123456789=\^hijkmsuwxz}~".
Proof. vm_compute. reflexivity. Qed.

(* ------------------------------------------------------------------------------------------ *)
(* 6. End / END, unknown words                                                                  *)
(* ------------------------------------------------------------------------------------------ *)
Lemma upper_not_code z k : is_upper z = true -> (k <? 65) || (90 <? k) = true -> (z =? k) = false.
Proof. unfold is_upper. lia. Qed.

Ltac upper_arm U :=
  unfold LOOP; cbn [LOOPG];
  repeat match goal with
         | |- context [?z =? ?k] =>
             match type of U with is_upper z = true => rewrite (upper_not_code z k U eq_refl) end
         end;
  rewrite U; cbn [orb andb negb].

(* everything after End / END (a word that merely begins with End counts) is ignored *)
Lemma end_step f n ls c r ln h acc : zen2han c = 69 ->
  prefixb (zs "nd") r || prefixb (zs "ND") r = true ->
  LOOP f (S n) ls (c :: r) ln h acc = Ok (acc, ls).
Proof.
  intros E H. arm0 E. collapse.
  change (zs "End") with (69 :: zs "nd"). change (zs "END") with (69 :: zs "ND").
  rewrite !prefixb_cons, H. reflexivity.
Qed.

Lemma take_word_app w r : forallb is_word_char w = true -> is_word_char (peek0 r) = false ->
  take_word (w ++ r) = (w, r).
Proof.
  intros H R. induction w as [|c w IH]; cbn [app].
  - destruct r as [|d r]; cbn [take_word]; [reflexivity|]. cbn [peek0] in R. rewrite R. reflexivity.
  - cbn [forallb] in H. apply andb_true_iff in H. destruct H as [H1 H2].
    cbn [take_word]. rewrite H1, (IH H2). reflexivity.
Qed.

(* the hypotheses of "an unknown bare upper-case word w, followed by r1": a complete word starting with a capital
   that is not End.., not a System./PlayFrom. prefix, not a system function, not a variable, not followed by
   ++ / -- / = / .s( *)
Definition unknown_word (ls : lexstate) (w r1 : list Z) (ln : Z) : bool :=
  is_upper (peek0 w) && forallb is_word_char w && negb (is_word_char (peek0 r1))
  && negb (prefixb (zs "End") (w ++ r1)) && negb (prefixb (zs "END") (w ++ r1))
  && negb (list_eqb w (zs "System")) && negb (list_eqb w (zs "SYSTEM")) && negb (list_eqb w (zs "PlayFrom") && eq_char r1 46)
  && match sysfunc_lookup w sysfunc_rows None with None => true | Some _ => false end
  && match vars_get w (lx_vars ls) with None => true | Some _ => false end
  && negb (prefixb [43; 43] r1) && negb (prefixb [45; 45] r1)
  && negb (eq_char (fst (skip_space r1 ln)) 61) && negb (prefixb (zs ".s(") (fst (skip_space r1 ln))).

(* an unknown word costs one "Syntax Error" entry, no token, the word and the blanks (and /* */ comments) after it *)
Lemma unknown_word_step f n ls c w' r1 ln h acc :
  unknown_word ls (zen2han c :: w') r1 ln = true ->
  LOOP f (S n) ls (c :: w' ++ r1) ln h acc
  = LOOP f n (read_error_cmd ls (fst (skip_space r1 ln)) ln (zen2han c :: w'))
         (fst (skip_space r1 ln)) (snd (skip_space r1 ln)) h acc.
Proof.
  unfold unknown_word. intros H.
  do 13 (apply andb_true_iff in H; let H2 := fresh "K" in destruct H as [H H2]).
  cbn [peek0] in H.
  apply negb_true_iff in K, K0, K1, K2, K5, K6, K7, K8, K9, K10.
  destruct (sysfunc_lookup (zen2han c :: w') sysfunc_rows None) eqn:SF; [discriminate|].
  destruct (vars_get (zen2han c :: w') (lx_vars ls)) eqn:VG; [discriminate|].
  upper_arm H.
  change (zen2han c :: w' ++ r1) with ((zen2han c :: w') ++ r1).
  rewrite K9, K8. cbn [orb].
  assert (GW : get_word ((zen2han c :: w') ++ r1) = (zen2han c :: w', r1)).
  { unfold get_word. cbn [app].
    destruct (zen2han c =? 35) eqn:E35; [apply Z.eqb_eq in E35; rewrite E35 in H; discriminate|].
    replace (match zen2han c with 35 => _ | _ => take_word (zen2han c :: w' ++ r1) end) with (take_word ((zen2han c :: w') ++ r1)).
    - apply take_word_app; [exact K11|exact K10].
    - destruct (zen2han c) as [|p|p]; try reflexivity.
      repeat (destruct p as [p|p|]; try reflexivity). discriminate. }
  rewrite GW. rewrite K7, K6. cbn [orb]. rewrite K5. rewrite SF.
  unfold check_variables. rewrite K2, K1. cbn [orb].
  destruct (skip_space r1 ln) as [s1 ln1] eqn:SS. cbn [fst snd] in *.
  rewrite K0, K, VG. cbn [bind]. reflexivity.
Qed.

(* ------------------------------------------------------------------------------------------ *)
(* 7. any sequence of separators, line breaks, comments and unknown characters at a command boundary *)
(* ------------------------------------------------------------------------------------------ *)
Inductive litem :=
| LSep (c : Z)                 (* one separator character *)
| LNewline                     (* LF *)
| LLine (t : list Z)           (* // t LF *)
| LBlock (t : list Z)          (* /* t */ *)
| LHash (x : Z) (t : list Z)   (* # x t LF   with x one of '#', ' ', '-' *)
| LBad (c : Z).                (* an unknown character *)

Definition litem_ok (i : litem) : bool :=
  match i with
  | LSep c => sep_code (zen2han c)
  | LNewline => true
  | LLine t => no_nl t
  | LBlock t => no_close (42 :: t)
  | LHash x t => ((x =? 35) || (x =? 32) || (x =? 45)) && no_nl t
  | LBad c => negb (cmd_code (zen2han c))
  end.
Definition is_layout (i : litem) : bool := match i with LBad _ => false | _ => true end.
Definition print_item (i : litem) : list Z :=
  match i with
  | LSep c => [c]
  | LNewline => [10]
  | LLine t => 47 :: 47 :: t ++ [10]
  | LBlock t => 47 :: 42 :: t ++ [42; 47]
  | LHash x t => 35 :: x :: t ++ [10]
  | LBad c => [c]
  end.
Fixpoint print_items (l : list litem) : list Z :=
  match l with [] => [] | i :: r => print_item i ++ print_items r end.

(* what one item does to the line counter, the token list and the log (rest = the text after the item) *)
Definition item_lines (i : litem) : Z :=
  match i with LSep _ | LBad _ => 0 | LNewline | LLine _ | LHash _ _ => 1 | LBlock t => count_nl t end.
Definition item_toks (ln : Z) (i : litem) : list tok :=
  match i with
  | LNewline => [TLineNo (ln + 1)]
  | LLine t => if eq_char t 47 then [TComment] else []
  | LBlock t => if eq_char (t ++ [42]) 42 then [TComment] else []
  | _ => []
  end.
Definition item_ls (ls : lexstate) (rest : list Z) (ln : Z) (i : litem) : lexstate :=
  match i with LBad c => lex_error ls rest ln [zen2han c] | _ => ls end.

Fixpoint items_lines (l : list litem) : Z := match l with [] => 0 | i :: r => item_lines i + items_lines r end.
Fixpoint items_toks (ln : Z) (l : list litem) : list tok :=
  match l with [] => [] | i :: r => item_toks ln i ++ items_toks (ln + item_lines i) r end.
Fixpoint items_ls (ls : lexstate) (r : list Z) (ln : Z) (l : list litem) : lexstate :=
  match l with
  | [] => ls
  | i :: l' => items_ls (item_ls ls (print_items l' ++ r) ln i) r (ln + item_lines i) l'
  end.

Lemma item_step f n ls i r ln h acc : litem_ok i = true ->
  LOOP f (S n) ls (print_item i ++ r) ln h acc
  = LOOP f n (item_ls ls r ln i) r (ln + item_lines i) h (acc ++ item_toks ln i).
Proof.
  intros H. destruct i as [c| |t|t|x t|c]; cbn [litem_ok print_item item_lines item_toks item_ls app] in *.
  - rewrite Z.add_0_r, app_nil_r. apply sep_code_step, H.
  - apply newline_step.
  - rewrite <- app_assoc. cbn [app]. rewrite (line_comment_step f n ls 47 t r ln h acc eq_refl H).
    destruct (eq_char t 47); [reflexivity|rewrite app_nil_r; reflexivity].
  - rewrite <- app_assoc. cbn [app]. rewrite (block_comment_step f n ls 47 t r ln h acc eq_refl H).
    destruct (eq_char (t ++ [42]) 42); [reflexivity|rewrite app_nil_r; reflexivity].
  - apply andb_true_iff in H. destruct H as [Hx H].
    rewrite <- app_assoc. cbn [app]. rewrite app_nil_r.
    apply (hash_comment_step f n ls 35 x t r ln h acc eq_refl); [lia|exact H].
  - rewrite Z.add_0_r, app_nil_r. apply unknown_char_step. apply negb_true_iff, H.
Qed.

(* one iteration of the loop per item *)
Theorem items_run f n : forall its ls r ln h acc, forallb litem_ok its = true ->
  LOOP f (length its + n) ls (print_items its ++ r) ln h acc
  = LOOP f n (items_ls ls r ln its) r (ln + items_lines its) h (acc ++ items_toks ln its).
Proof.
  induction its as [|i its IH]; intros ls r ln h acc H.
  - cbn [length print_items app items_ls items_lines items_toks Nat.add]. rewrite Z.add_0_r, app_nil_r. reflexivity.
  - cbn [forallb] in H. apply andb_true_iff in H. destruct H as [H1 H2].
    cbn [length print_items items_ls items_lines items_toks Nat.add]. rewrite <- app_assoc.
    rewrite (item_step f _ ls i _ ln h acc H1). rewrite (IH _ _ _ _ _ H2).
    rewrite Z.add_assoc, app_assoc. reflexivity.
Qed.

(* the line counter is the initial line plus the number of LF characters consumed *)
Lemma item_lines_count i : litem_ok i = true -> item_lines i = count_nl (print_item i).
Proof.
  destruct i as [c| |t|t|x t|c]; cbn [litem_ok print_item item_lines]; intros H.
  - cbn [count_nl]. destruct (c =? 10) eqn:E; [apply Z.eqb_eq in E; subst c; discriminate|reflexivity].
  - reflexivity.
  - cbn [count_nl]. rewrite count_nl_app, (count_nl_no_nl t H). reflexivity.
  - cbn [count_nl]. rewrite count_nl_app. cbn. lia.
  - apply andb_true_iff in H. destruct H as [Hx H].
    cbn [count_nl]. rewrite count_nl_app, (count_nl_no_nl t H).
    replace (x =? 10) with false by lia. reflexivity.
  - cbn [count_nl]. destruct (c =? 10) eqn:E; [apply Z.eqb_eq in E; subst c; discriminate|reflexivity].
Qed.
Lemma items_lines_count its : forallb litem_ok its = true -> items_lines its = count_nl (print_items its).
Proof.
  induction its as [|i its IH]; cbn [forallb items_lines print_items]; intros H; [reflexivity|].
  apply andb_true_iff in H. destruct H as [H1 H2].
  rewrite count_nl_app, (item_lines_count i H1), (IH H2). reflexivity.
Qed.

(* the tokens: nothing but LineNo and Comment *)
Definition is_layout_tok (t : tok) : bool := match t with TLineNo _ | TComment => true | _ => false end.
Definition erase_lineno (l : list tok) : list tok := filter (fun t => negb (is_layout_tok t)) l.
Lemma erase_lineno_app a b : erase_lineno (a ++ b) = erase_lineno a ++ erase_lineno b.
Proof. apply filter_app. Qed.
Lemma items_toks_layout : forall its ln, erase_lineno (items_toks ln its) = [].
Proof.
  induction its as [|i its IH]; intros ln; cbn [items_toks]; [reflexivity|].
  rewrite erase_lineno_app, IH, app_nil_r.
  destruct i as [c| |t|t|x t|c]; cbn [item_toks]; try reflexivity.
  - destruct (eq_char t 47); reflexivity.
  - destruct (eq_char (t ++ [42]) 42); reflexivity.
Qed.
Lemma items_toks_app : forall a b ln, items_toks ln (a ++ b) = items_toks ln a ++ items_toks (ln + items_lines a) b.
Proof.
  induction a as [|i a IH]; intros b ln; cbn [app items_toks items_lines].
  - rewrite Z.add_0_r. reflexivity.
  - rewrite IH, app_assoc, Z.add_assoc. reflexivity.
Qed.
(* layout alone never touches the log *)
Lemma items_ls_layout : forall its ls r ln, forallb is_layout its = true -> items_ls ls r ln its = ls.
Proof.
  induction its as [|i its IH]; intros ls r ln H; cbn [items_ls]; [reflexivity|].
  cbn [forallb] in H. apply andb_true_iff in H. destruct H as [H1 H2].
  rewrite (IH _ _ _ H2). destruct i; try reflexivity. discriminate.
Qed.

(* C18: layout at a command boundary changes only LineNo / Comment tokens and the line counter *)
Theorem layout_insensitive f n its ls r ln h acc :
  forallb litem_ok its = true -> forallb is_layout its = true ->
  LOOP f (length its + n) ls (print_items its ++ r) ln h acc
  = LOOP f n ls r (ln + count_nl (print_items its)) h (acc ++ items_toks ln its)
  /\ erase_lineno (acc ++ items_toks ln its) = erase_lineno acc.
Proof.
  intros H L. split.
  - rewrite (items_run f n its ls r ln h acc H), (items_ls_layout _ _ _ _ L), (items_lines_count _ H). reflexivity.
  - rewrite erase_lineno_app, items_toks_layout, app_nil_r. reflexivity.
Qed.

(* C19: the LineNo token pushed at a line break carries the initial line + the number of LF consumed so far,
   whatever separators, comments and unknown characters came before *)
Theorem line_counter f n its1 its2 ls r ln h acc :
  forallb litem_ok (its1 ++ LNewline :: its2) = true ->
  exists ls', 
  LOOP f (length (its1 ++ LNewline :: its2) + n) ls (print_items (its1 ++ LNewline :: its2) ++ r) ln h acc
  = LOOP f n ls' r (ln + count_nl (print_items (its1 ++ LNewline :: its2))) h
      (acc ++ items_toks ln its1 ++ [TLineNo (ln + count_nl (print_items (its1 ++ [LNewline])))]
           ++ items_toks (ln + count_nl (print_items (its1 ++ [LNewline]))) its2).
Proof.
  intros H. eexists. rewrite (items_run f n _ ls r ln h acc H), (items_lines_count _ H).
  rewrite items_toks_app. cbn [items_toks item_toks item_lines].
  assert (H1 : forallb litem_ok (its1 ++ [LNewline]) = true).
  { rewrite forallb_app in *. apply andb_true_iff in H. destruct H as [A B]. rewrite A. reflexivity. }
  rewrite <- (items_lines_count _ H1).
  assert (E : items_lines (its1 ++ [LNewline]) = items_lines its1 + 1).
  { clear. induction its1 as [|i l IH]; cbn [app items_lines]; [reflexivity|]. rewrite IH. lia. }
  rewrite E, <- !Z.add_assoc. cbn [app]. reflexivity.
Qed.

(* a source made only of such items: the whole token list and log of lex *)
Lemma print_items_length its : (length its <= length (print_items its))%nat.
Proof.
  induction its as [|i its IH]; cbn [print_items length]; [lia|]. rewrite app_length.
  assert (1 <= length (print_item i))%nat by (destruct i; cbn [print_item length]; lia). lia.
Qed.
Theorem lex_items its ls ln : forallb litem_ok its = true -> lex_pre (print_items its) = false ->
  lex ls (print_items its) ln = Ok (TLineNo ln :: items_toks ln its, items_ls ls [] ln its).
Proof.
  intros H NF. rewrite (lex_unfold_plain _ _ _ NF).
  pose proof (print_items_length its) as L.
  transitivity (LOOP (length (print_items its)) (length its + S (length (print_items its) - length its))
                     ls (print_items its ++ []) ln false [TLineNo ln]).
  - rewrite app_nil_r. f_equal. lia.
  - rewrite (items_run _ _ its ls [] ln false [TLineNo ln] H). reflexivity.
Qed.

(* ------------------------------------------------------------------------------------------ *)
(* 8. a reader contract: lettered notes without comma parameters (partial: the other readers are not treated) *)
(* ------------------------------------------------------------------------------------------ *)
Definition is_flag_char (c : Z) : bool := (c =? 43) || (c =? 35) || (c =? 45) || (c =? 42).
Fixpoint flags_val (fl : list Z) (flag : Z) (natural : bool) : Z * bool :=
  match fl with
  | [] => (flag, natural)
  | c :: r => if (c =? 43) || (c =? 35) then flags_val r (flag + 1) natural
              else if c =? 45 then flags_val r (flag - 1) natural
              else flags_val r flag true
  end.

Lemma read_note_flags_app : forall fl rest flag natural,
  forallb is_flag_char fl = true -> is_flag_char (peek0 rest) = false ->
  read_note_flags (fl ++ rest) flag natural
  = (fst (flags_val fl flag natural), snd (flags_val fl flag natural), rest).
Proof.
  induction fl as [|c fl IH]; intros rest flag natural H R; cbn [app flags_val fst snd].
  - destruct rest as [|d rest]; cbn [read_note_flags]; [reflexivity|].
    cbn [peek0] in R. unfold is_flag_char in R.
    apply orb_false_elim in R. destruct R as [R R4]. apply orb_false_elim in R. destruct R as [R R3].
    apply orb_false_elim in R. destruct R as [R1 R2]. rewrite R1, R2, R3, R4. reflexivity.
  - cbn [forallb] in H. apply andb_true_iff in H. destruct H as [H1 H2].
    cbn [read_note_flags]. destruct ((c =? 43) || (c =? 35)) eqn:A; [apply IH; assumption|].
    destruct (c =? 45) eqn:B; [apply IH; assumption|].
    assert (C : (c =? 42) = true).
    { unfold is_flag_char in H1. apply orb_false_elim in A. destruct A as [A1 A2]. rewrite A1, A2, B in H1. exact H1. }
    rewrite C. apply IH; assumption.
Qed.

Lemma len_blank_not_char c : is_len_blank c = true -> is_len_char c = false.
Proof. unfold is_len_blank, is_len_char, is_digit, c_SP, c_BAR, c_TAB, c_CR, c_DOT, c_HAT, c_PCT, c_MINUS, c_PLUS. lia. Qed.

Lemma gnl_len : forall len f rest ln, forallb is_len_char len = true ->
  get_note_length_f (length len + f) (len ++ rest) ln
  = (len ++ fst (fst (get_note_length_f f rest ln)), snd (fst (get_note_length_f f rest ln)), snd (get_note_length_f f rest ln)).
Proof.
  induction len as [|c len IH]; intros f rest ln H; cbn [length app Nat.add].
  - destruct (get_note_length_f f rest ln) as [[t r'] ln']. reflexivity.
  - cbn [forallb] in H. apply andb_true_iff in H. destruct H as [H1 H2].
    cbn [get_note_length_f]. rewrite H1, (IH f rest ln H2). reflexivity.
Qed.
Lemma gnl_blank : forall bl f rest ln, forallb is_len_blank bl = true ->
  get_note_length_f (length bl + f) (bl ++ rest) ln = get_note_length_f f rest ln.
Proof.
  induction bl as [|c bl IH]; intros f rest ln H; cbn [length app Nat.add]; [reflexivity|].
  cbn [forallb] in H. apply andb_true_iff in H. destruct H as [H1 H2].
  cbn [get_note_length_f]. rewrite (len_blank_not_char c H1), H1. apply IH, H2.
Qed.
(* where a length stops: at the end of the text, or at a character that is neither a length character nor a blank /
   bar; a line break stops it unless (after blanks, line breaks and // /* */ comments) a '^' follows *)
Definition len_stop (r : list Z) (ln : Z) : bool :=
  match r with
  | [] => true
  | b :: r' => negb (is_len_char b) && negb (is_len_blank b)
               && (negb (b =? 10) || negb (eq_char (fst (skip_space_ret r' (ln + 1))) 94))
  end.
Lemma gnl_stop f r ln : len_stop r ln = true -> get_note_length_f (S f) r ln = ([], r, ln).
Proof.
  destruct r as [|b r']; cbn [len_stop get_note_length_f]; [reflexivity|].
  intros H. apply andb_true_iff in H. destruct H as [H H3]. apply andb_true_iff in H. destruct H as [H1 H2].
  apply negb_true_iff in H1, H2. rewrite H1, H2. unfold c_NL, c_HAT.
  destruct (b =? 10); [|reflexivity]. cbn [negb orb] in H3. apply negb_true_iff in H3.
  destruct (skip_space_ret r' (ln + 1)) as [r2 ln2]. cbn [fst] in H3. rewrite H3. reflexivity.
Qed.
Lemma get_note_length_contract len bl r ln :
  forallb is_len_char len = true -> forallb is_len_blank bl = true -> len_stop r ln = true ->
  get_note_length (len ++ bl ++ r) ln = (len, r, ln).
Proof.
  intros H1 H2 H3. unfold get_note_length.
  replace (S (length (len ++ bl ++ r))) with (length len + (length bl + S (length r)))%nat
    by (rewrite !app_length; lia).
  rewrite (gnl_len len _ _ ln H1), (gnl_blank bl _ _ ln H2), (gnl_stop _ r ln H3).
  cbn [fst snd]. rewrite app_nil_r. reflexivity.
Qed.

(* the text after a simple note: the length stops there, and none of the optional continuations of read_note starts
   (no blank / TAB / "/*" for skip_space, no ',' , no '&') *)
Definition note_boundary (r : list Z) (ln : Z) : bool :=
  len_stop r ln && negb (prefixb [47; 42] r) && negb (eq_char r 44) && negb (eq_char r 38).

Lemma skip_space_stop r ln : negb (eq_char r 9) && negb (eq_char r 32) && negb (prefixb [47; 42] r) = true ->
  skip_space r ln = (r, ln).
Proof.
  intros H. apply andb_true_iff in H. destruct H as [H H3]. apply andb_true_iff in H. destruct H as [H1 H2].
  apply negb_true_iff in H1, H2, H3. unfold skip_space.
  destruct r as [|b r']; cbn [length skip_space_f]; [reflexivity|].
  cbn [eq_char] in H1, H2. unfold c_TAB, c_SP, c_SLASH, c_STAR. rewrite H1, H2. cbn [orb].
  destruct (b =? 47); [|reflexivity]. rewrite H3. reflexivity.
Qed.

Definition simple_note_tok (z : Z) (fl len : list Z) : tok :=
  TNote (note_base z) (fst (flags_val fl 0 false)) (if snd (flags_val fl 0 false) then 1 else 0) len 0 (-1) ISIZE_MIN (-1) 0.

(* read_note on  flags ++ length ++ blanks/bars ++ r  consumes exactly flags, length and blanks, and stops before r *)
Lemma read_note_contract z fl len bl r ln :
  forallb is_flag_char fl = true -> forallb is_len_char len = true -> forallb is_len_blank bl = true ->
  is_flag_char (peek0 (len ++ bl ++ r)) = false -> note_boundary r ln = true ->
  read_note z (fl ++ len ++ bl ++ r) ln = (simple_note_tok z fl len, r, ln).
Proof.
  intros F L B S N. unfold note_boundary in N.
  apply andb_true_iff in N. destruct N as [N N4]. apply andb_true_iff in N. destruct N as [N N3].
  apply andb_true_iff in N. destruct N as [N1 N2]. apply negb_true_iff in N3, N4.
  unfold read_note. rewrite (read_note_flags_app fl _ 0 false F S).
  rewrite (get_note_length_contract len bl r ln L B N1).
  assert (SS : skip_space r ln = (r, ln)).
  { apply skip_space_stop. rewrite N2, andb_true_r.
    destruct r as [|b r']; [reflexivity|]. cbn [len_stop] in N1. cbn [eq_char].
    apply andb_true_iff in N1. destruct N1 as [N1 _]. apply andb_true_iff in N1. destruct N1 as [_ N1].
    apply negb_true_iff in N1. unfold is_len_blank, c_SP, c_BAR, c_TAB in N1.
    apply orb_false_elim in N1. destruct N1 as [N1 _].
    apply orb_false_elim in N1. destruct N1 as [N1 T]. apply orb_false_elim in N1. destruct N1 as [Sp _].
    rewrite T, Sp. reflexivity. }
  unfold read_int_after_comma.
  repeat (first [rewrite SS | rewrite N3 | rewrite N4]; cbv beta iota).
  reflexivity.
Qed.

Definition is_note_letter (z : Z) : bool :=
  (z =? 99) || (z =? 100) || (z =? 101) || (z =? 102) || (z =? 103) || (z =? 97) || (z =? 98).

(* the loop on such a note: one token, the text up to r consumed, whatever r is (as long as it is a boundary) *)
Lemma note_step f n ls c fl len bl r ln h acc :
  is_note_letter (zen2han c) = true ->
  forallb is_flag_char fl = true -> forallb is_len_char len = true -> forallb is_len_blank bl = true ->
  is_flag_char (peek0 (len ++ bl ++ r)) = false -> note_boundary r ln = true ->
  LOOP f (S n) ls (c :: fl ++ len ++ bl ++ r) ln h acc
  = LOOP f n ls r ln h (acc ++ [simple_note_tok (zen2han c) fl len]).
Proof.
  intros Z F L B S N. unfold LOOP. cbn [LOOPG].
  assert (NS : sep_code (zen2han c) = false /\ (zen2han c =? 10) = false).
  { unfold is_note_letter in Z. unfold sep_code. split; lia. }
  destruct NS as [NS1 NS2]. unfold sep_code in NS1. rewrite NS1, NS2.
  unfold is_note_letter in Z. rewrite Z.
  rewrite (read_note_contract (zen2han c) fl len bl r ln F L B S N). reflexivity.
Qed.

(* programs of simple notes: every note (letter - possibly full-width -, accidentals, length, blanks/bars) is followed
   by a layout (list of separator / line break / comment items) *)
Record snote := mkSN { sn_c : Z; sn_fl : list Z; sn_len : list Z; sn_bl : list Z }.
Definition print_snote (x : snote) : list Z := sn_c x :: sn_fl x ++ sn_len x ++ sn_bl x.
Definition snote_ok (x : snote) : bool :=
  is_note_letter (zen2han (sn_c x)) && forallb is_flag_char (sn_fl x) && forallb is_len_char (sn_len x)
  && forallb is_len_blank (sn_bl x).
Definition snote_tok (x : snote) : tok := simple_note_tok (zen2han (sn_c x)) (sn_fl x) (sn_len x).
Definition nprog := list (snote * list litem).
Fixpoint print_nprog (p : nprog) : list Z :=
  match p with [] => [] | (x, its) :: p' => print_snote x ++ print_items its ++ print_nprog p' end.
(* the side conditions, checked along the text: after the blanks of every note the text is a boundary for the note
   reader (note_boundary; in particular a '#' comment does not follow a bare note letter directly, a block comment
   does not follow the note directly, and no '^' continues the length after a line break) *)
Fixpoint nprog_ok (p : nprog) (rest : list Z) (ln : Z) : bool :=
  match p with
  | [] => true
  | (x, its) :: p' =>
      let after := print_items its ++ print_nprog p' ++ rest in
      snote_ok x && forallb litem_ok its && forallb is_layout its
      && negb (is_flag_char (peek0 (sn_len x ++ sn_bl x ++ after)))
      && note_boundary after ln
      && nprog_ok p' rest (ln + items_lines its)
  end.
Fixpoint nprog_toks (p : nprog) (ln : Z) : list tok :=
  match p with
  | [] => []
  | (x, its) :: p' => snote_tok x :: items_toks ln its ++ nprog_toks p' (ln + items_lines its)
  end.
Fixpoint nprog_fuel (p : nprog) : nat :=
  match p with [] => O | (x, its) :: p' => S (length its + nprog_fuel p') end.
Fixpoint nprog_lines (p : nprog) : Z :=
  match p with [] => 0 | (x, its) :: p' => items_lines its + nprog_lines p' end.

Theorem nprog_run f n : forall p ls rest ln h acc, nprog_ok p rest ln = true ->
  LOOP f (nprog_fuel p + n) ls (print_nprog p ++ rest) ln h acc
  = LOOP f n ls rest (ln + nprog_lines p) h (acc ++ nprog_toks p ln).
Proof.
  induction p as [|[x its] p IH]; intros ls rest ln h acc H.
  - cbn [nprog_fuel print_nprog app nprog_lines nprog_toks Nat.add]. rewrite Z.add_0_r, app_nil_r. reflexivity.
  - cbn [nprog_ok] in H.
    apply andb_true_iff in H. destruct H as [H H6]. apply andb_true_iff in H. destruct H as [H H5].
    apply andb_true_iff in H. destruct H as [H H4]. apply andb_true_iff in H. destruct H as [H H3].
    apply andb_true_iff in H. destruct H as [H1 H2]. apply negb_true_iff in H4.
    unfold snote_ok in H1.
    apply andb_true_iff in H1. destruct H1 as [H1 B]. apply andb_true_iff in H1. destruct H1 as [H1 L].
    apply andb_true_iff in H1. destruct H1 as [Zn F].
    cbn [nprog_fuel print_nprog nprog_lines nprog_toks Nat.add]. unfold print_snote.
    rewrite <- !app_assoc. cbn [app]. rewrite <- !app_assoc.
    rewrite (note_step f _ ls (sn_c x) (sn_fl x) (sn_len x) (sn_bl x) _ ln h acc Zn F L B H4 H5).
    rewrite <- Nat.add_assoc.
    destruct (layout_insensitive f (nprog_fuel p + n) its ls (print_nprog p ++ rest) ln h
                (acc ++ [snote_tok x]) H2 H3) as [E _].
    unfold snote_tok in *. rewrite E. rewrite <- (items_lines_count its H2).
    rewrite (IH ls rest _ h _ H6). rewrite Z.add_assoc, <- !app_assoc. reflexivity.
Qed.

Lemma nprog_toks_erase : forall p ln, erase_lineno (nprog_toks p ln) = map (fun xi => snote_tok (fst xi)) p.
Proof.
  induction p as [|[x its] p IH]; intros ln; cbn [nprog_toks map fst]; [reflexivity|].
  change (snote_tok x :: items_toks ln its ++ nprog_toks p (ln + items_lines its))
    with ([snote_tok x] ++ items_toks ln its ++ nprog_toks p (ln + items_lines its)).
  rewrite !erase_lineno_app, items_toks_layout, IH. reflexivity.
Qed.
Lemma nprog_fuel_length p : (nprog_fuel p <= length (print_nprog p))%nat.
Proof.
  induction p as [|[x its] p IH]; cbn [nprog_fuel print_nprog]; [lia|].
  unfold print_snote. cbn [app length]. rewrite !app_length. pose proof (print_items_length its). lia.
Qed.

(* the whole lexer on  layout, note, layout, note, ... : the tokens are the notes, in order, plus LineNo / Comment *)
Theorem lex_nprog its0 p ls ln :
  forallb litem_ok its0 = true -> forallb is_layout its0 = true -> nprog_ok p [] (ln + items_lines its0) = true ->
  lex_pre (print_items its0 ++ print_nprog p) = false ->
  lex ls (print_items its0 ++ print_nprog p) ln
  = Ok (TLineNo ln :: items_toks ln its0 ++ nprog_toks p (ln + items_lines its0), ls)
  /\ erase_lineno (TLineNo ln :: items_toks ln its0 ++ nprog_toks p (ln + items_lines its0))
     = map (fun xi => snote_tok (fst xi)) p.
Proof.
  intros H0 L0 HP NF. split.
  - rewrite (lex_unfold_plain _ _ _ NF).
    pose proof (print_items_length its0) as A. pose proof (nprog_fuel_length p) as B.
    set (src := print_items its0 ++ print_nprog p).
    set (k := S (length src - length its0 - nprog_fuel p)).
    assert (E : S (length src) = (length its0 + (nprog_fuel p + k))%nat).
    { unfold k, src. rewrite app_length. lia. }
    rewrite E. unfold src.
    destruct (layout_insensitive (length (print_items its0 ++ print_nprog p)) (nprog_fuel p + k) its0 ls
                (print_nprog p) ln false [TLineNo ln] H0 L0) as [E1 _].
    rewrite E1. rewrite <- (items_lines_count its0 H0).
    rewrite <- (app_nil_r (print_nprog p)).
    rewrite (nprog_run _ k p ls [] _ false _ HP). unfold k. cbn [LOOP LOOPG app]. reflexivity.
  - change (TLineNo ln :: items_toks ln its0 ++ nprog_toks p (ln + items_lines its0))
      with ([TLineNo ln] ++ items_toks ln its0 ++ nprog_toks p (ln + items_lines its0)).
    rewrite !erase_lineno_app, items_toks_layout, nprog_toks_erase. reflexivity.
Qed.

(* C18 for this fragment: two layouts of the same notes lex to the same tokens up to LineNo / Comment *)
Theorem notes_layout its1 p1 its2 p2 ls ln :
  forallb litem_ok its1 = true -> forallb is_layout its1 = true -> nprog_ok p1 [] (ln + items_lines its1) = true ->
  forallb litem_ok its2 = true -> forallb is_layout its2 = true -> nprog_ok p2 [] (ln + items_lines its2) = true ->
  map (fun xi => snote_tok (fst xi)) p1 = map (fun xi => snote_tok (fst xi)) p2 ->
  lex_pre (print_items its1 ++ print_nprog p1) = false -> lex_pre (print_items its2 ++ print_nprog p2) = false ->
  exists t1 t2, lex ls (print_items its1 ++ print_nprog p1) ln = Ok (t1, ls)
             /\ lex ls (print_items its2 ++ print_nprog p2) ln = Ok (t2, ls)
             /\ erase_lineno t1 = erase_lineno t2
             /\ erase_lineno t1 = map (fun xi => snote_tok (fst xi)) p1.
Proof.
  intros A1 B1 C1 A2 B2 C2 E N1 N2.
  destruct (lex_nprog its1 p1 ls ln A1 B1 C1 N1) as [X1 Y1]. destruct (lex_nprog its2 p2 ls ln A2 B2 C2 N2) as [X2 Y2].
  eexists. eexists. split; [exact X1|]. split; [exact X2|]. split; [rewrite Y1, Y2; exact E|exact Y1].
Qed.
