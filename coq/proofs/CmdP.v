(* C15: lemmas about the command model (model/Cmd.v), the generated tables (gen/) and the
   prescription (spec/GmSpec.v, spec/CmdSpec.v). *)
From Sakura.Model Require Import Base Event Utf8 Cmd Writer.
From Sakura.Spec Require Import SmfSpec TrackSpec GmSpec Utf8Spec CmdSpec.
From Sakura.Gen Require Import SysFuncTable VoiceTable DocTable.
From Sakura.Proofs Require Import VlqP WriterP.
Ltac Zify.zify_post_hook ::= Z.div_mod_to_equations.

(* ------------------------------------------------------------------------------------------ *)
(* equality tests                                                                              *)
(* ------------------------------------------------------------------------------------------ *)
Lemma zlist_eq_eq a : forall b, zlist_eq a b = true -> a = b.
Proof.
  induction a as [|x a IH]; intros [|y b] H; cbn in H; try discriminate; auto.
  apply andb_prop in H. destruct H as [H1 H2]. apply Z.eqb_eq in H1. f_equal; auto.
Qed.
Lemma zlist_eq_refl a : zlist_eq a a = true.
Proof. induction a; cbn; auto. rewrite Z.eqb_refl. auto. Qed.
Lemma list_eqb_eq a : forall b, list_eqb a b = true -> a = b.
Proof.
  induction a as [|x a IH]; intros [|y b] H; cbn in H; try discriminate; auto.
  apply andb_prop in H. destruct H as [H1 H2]. apply Z.eqb_eq in H1. f_equal; auto.
Qed.

Definition ttype_of_id (z : Z) : ttype := nth (Z.to_nat z) all_ttypes TkUnimplemented.
Lemma ttype_of_id_id t : ttype_of_id (ttype_id t) = t.
Proof. destruct t; reflexivity. Qed.
Lemma ttype_eqb_eq a b : ttype_eqb a b = true -> a = b.
Proof.
  unfold ttype_eqb. intros H. apply Z.eqb_eq in H.
  rewrite <- (ttype_of_id_id a), <- (ttype_of_id_id b), H. reflexivity.
Qed.
Lemma ttype_eqb_refl a : ttype_eqb a a = true.
Proof. unfold ttype_eqb. apply Z.eqb_refl. Qed.

Lemma assoc_In {A} k (l : list (list Z * A)) v : assoc k l = Some v -> In (k, v) l.
Proof.
  induction l as [|[k' v'] l IH]; cbn; [discriminate|].
  destruct (zlist_eq k k') eqn:E.
  - intros H. inversion H. subst. apply zlist_eq_eq in E. subst. auto.
  - auto.
Qed.

Lemma find_sysfunc_In n l r : find_sysfunc n l = Some r -> In r l /\ sf_name r = n.
Proof.
  induction l as [|x l IH]; cbn; [discriminate|].
  destruct (list_eqb n (sf_name x)) eqn:E.
  - intros H. inversion H. subst. apply list_eqb_eq in E. auto.
  - intros H. destruct (IH H). auto.
Qed.

(* ------------------------------------------------------------------------------------------ *)
(* the table: names are unique, so a row is what its name looks up                             *)
(* ------------------------------------------------------------------------------------------ *)
Definition row_eqb (a b : sysfunc) : bool :=
  list_eqb (sf_name a) (sf_name b) && ttype_eqb (sf_type a) (sf_type b) && (sf_arg a =? sf_arg b)
  && (sf_tag1 a =? sf_tag1 b) && (sf_tag2 a =? sf_tag2 b).
Lemma row_eqb_eq a b : row_eqb a b = true -> a = b.
Proof.
  unfold row_eqb. intros H. repeat (apply andb_prop in H; destruct H as [H ?]).
  destruct a, b; cbn in *. apply list_eqb_eq in H. apply ttype_eqb_eq in H3.
  repeat match goal with H : (_ =? _) = true |- _ => apply Z.eqb_eq in H end. subst. reflexivity.
Qed.
Definition row_unique (r : sysfunc) : bool :=
  match find_sysfunc (sf_name r) sysfuncs with Some r' => row_eqb r r' | None => false end.
Lemma rows_unique_b : forallb row_unique sysfuncs = true.
Proof. vm_compute. reflexivity. Qed.
Lemma find_row r : In r sysfuncs -> find_sysfunc (sf_name r) sysfuncs = Some r.
Proof.
  intros H. pose proof (proj1 (forallb_forall _ _) rows_unique_b r H) as U. unfold row_unique in U.
  destruct (find_sysfunc (sf_name r) sysfuncs); [|discriminate]. apply row_eqb_eq in U. subst. reflexivity.
Qed.
Lemma sysfunc_count_ok : zlen sysfuncs = sysfunc_count.
Proof. vm_compute. reflexivity. Qed.

(* ------------------------------------------------------------------------------------------ *)
(* table theorems                                                                              *)
(* ------------------------------------------------------------------------------------------ *)
(* controller commands: code = command.md's CC#n = the MIDI standard *)
Definition cc_row_ok (r : sysfunc) : bool :=
  if ttype_eqb (sf_type r) TkControlChangeCommand then
    match assoc (sf_name r) doc_cc, assoc (sf_name r) named_controllers with
    | Some d, Some g => (sf_tag1 r =? d) && (d =? g)
    | _, _ => false
    end
  else true.
Lemma cc_rows_ok_b : forallb cc_row_ok sysfuncs = true.
Proof. vm_compute. reflexivity. Qed.
Lemma cc_numbers r : In r sysfuncs -> sf_type r = TkControlChangeCommand ->
  assoc (sf_name r) doc_cc = Some (sf_tag1 r) /\ assoc (sf_name r) named_controllers = Some (sf_tag1 r).
Proof.
  intros H T. pose proof (proj1 (forallb_forall _ _) cc_rows_ok_b r H) as U. unfold cc_row_ok in U.
  rewrite T in U. rewrite ttype_eqb_refl in U.
  destruct (assoc (sf_name r) doc_cc); [|discriminate].
  destruct (assoc (sf_name r) named_controllers); [|discriminate].
  apply andb_prop in U. destruct U as [U1 U2]. apply Z.eqb_eq in U1. apply Z.eqb_eq in U2. subst. auto.
Qed.
(* conversely every documented CC#n row is such a command *)
Definition doc_cc_ok (p : list Z * Z) : bool :=
  match find_sysfunc (fst p) sysfuncs with
  | Some r => ttype_eqb (sf_type r) TkControlChangeCommand && (sf_tag1 r =? snd p)
  | None => false
  end.
Lemma doc_cc_ok_b : forallb doc_cc_ok doc_cc = true.
Proof. vm_compute. reflexivity. Qed.
Lemma doc_cc_defined n v : In (n, v) doc_cc ->
  exists r, In r sysfuncs /\ sf_name r = n /\ sf_type r = TkControlChangeCommand /\ sf_tag1 r = v.
Proof.
  intros H. pose proof (proj1 (forallb_forall _ _) doc_cc_ok_b _ H) as U. unfold doc_cc_ok in U. cbn [fst snd] in U.
  destruct (find_sysfunc n sysfuncs) as [r|] eqn:F; [|discriminate].
  apply find_sysfunc_In in F. destruct F. apply andb_prop in U. destruct U as [U1 U2].
  apply ttype_eqb_eq in U1. apply Z.eqb_eq in U2. exists r. auto.
Qed.

(* alias groups of the documentation *)
Definition same_row (a b : sysfunc) : bool :=
  ttype_eqb (sf_type a) (sf_type b) && (sf_arg a =? sf_arg b) && (sf_tag1 a =? sf_tag1 b) && (sf_tag2 a =? sf_tag2 b).
Definition pair_ok (a b : list Z) : bool :=
  match find_sysfunc a sysfuncs, find_sysfunc b sysfuncs with
  | Some ra, Some rb => same_row ra rb
  | _, _ => true
  end.
Definition group_ok (g : list (list Z)) : bool := forallb (fun a => forallb (pair_ok a) g) g.
Fixpoint group_eqb (a b : list (list Z)) : bool :=
  match a, b with
  | [], [] => true
  | x :: a', y :: b' => zlist_eq x y && group_eqb a' b'
  | _, _ => false
  end.
Lemma group_eqb_eq a : forall b, group_eqb a b = true -> a = b.
Proof.
  induction a as [|x a IH]; intros [|y b] H; cbn in H; try discriminate; auto.
  apply andb_prop in H. destruct H as [H1 H2]. apply zlist_eq_eq in H1. f_equal; auto.
Qed.
Lemma group_eqb_refl a : group_eqb a a = true.
Proof. induction a; cbn; auto. rewrite zlist_eq_refl. auto. Qed.
Definition mem_group (g : list (list Z)) (l : list (list (list Z))) : bool := existsb (group_eqb g) l.
Lemma mem_group_In g l : mem_group g l = true <-> In g l.
Proof.
  unfold mem_group. rewrite existsb_exists. split.
  - intros [x [Hx E]]. apply group_eqb_eq in E. subst. auto.
  - intros H. exists g. split; auto. apply group_eqb_refl.
Qed.

Lemma aliases_from_check (exceptions : list (list (list Z))) :
  forallb (fun g => mem_group g exceptions || group_ok g) doc_alias_groups = true ->
  forall g, In g doc_alias_groups -> ~ In g exceptions ->
  forall a b ra rb, In a g -> In b g ->
    find_sysfunc a sysfuncs = Some ra -> find_sysfunc b sysfuncs = Some rb ->
    sf_type ra = sf_type rb /\ sf_arg ra = sf_arg rb /\ sf_tag1 ra = sf_tag1 rb /\ sf_tag2 ra = sf_tag2 rb.
Proof.
  intros C g Hg Hn a b ra rb Ha Hb Fa Fb.
  pose proof (proj1 (forallb_forall _ _) C g Hg) as U. cbn beta in U.
  destruct (mem_group g exceptions) eqn:M.
  - apply mem_group_In in M. contradiction.
  - cbn [orb] in U. unfold group_ok in U.
    pose proof (proj1 (forallb_forall _ _) U a Ha) as U1. cbn beta in U1.
    pose proof (proj1 (forallb_forall _ _) U1 b Hb) as U2. unfold pair_ok in U2. rewrite Fa, Fb in U2.
    unfold same_row in U2. repeat (apply andb_prop in U2; destruct U2 as [U2 ?]).
    apply ttype_eqb_eq in U2. repeat match goal with H : (_ =? _) = true |- _ => apply Z.eqb_eq in H end. auto.
Qed.
Lemma exceptions_from_check (exceptions : list (list (list Z))) :
  forallb (fun g => mem_group g doc_alias_groups && negb (group_ok g)) exceptions = true ->
  forall g, In g exceptions -> In g doc_alias_groups /\ group_ok g = false.
Proof.
  intros C g Hg. pose proof (proj1 (forallb_forall _ _) C g Hg) as U. cbn beta in U.
  apply andb_prop in U. destruct U as [U1 U2]. apply mem_group_In in U1. apply negb_true_iff in U2. auto.
Qed.

(* every documented command name except the listed ones is a row of the table *)
Definition name_defined (n : list Z) : bool := match find_sysfunc n sysfuncs with Some _ => true | None => false end.
Lemma defined_from_check (exceptions : list (list Z)) :
  forallb (fun n => existsb (zlist_eq n) exceptions || name_defined n) doc_command_names = true ->
  forall n, In n doc_command_names -> ~ In n exceptions -> exists r, In r sysfuncs /\ sf_name r = n.
Proof.
  intros C n Hn He. pose proof (proj1 (forallb_forall _ _) C n Hn) as U. cbn beta in U.
  destruct (existsb (zlist_eq n) exceptions) eqn:M.
  - apply existsb_exists in M. destruct M as [x [Hx E]]. apply zlist_eq_eq in E. subst. contradiction.
  - cbn [orb] in U. unfold name_defined in U. destruct (find_sysfunc n sysfuncs) as [r|] eqn:F; [|discriminate].
    apply find_sysfunc_In in F. exists r. auto.
Qed.

(* voices *)
Definition pair_in (t : list (list Z * Z)) (p : list Z * Z) : bool :=
  match assoc (fst p) t with Some v => v =? snd p | None => false end.
Lemma pair_in_ok t l : forallb (pair_in t) l = true -> forall n v, In (n, v) l -> assoc n t = Some v.
Proof.
  intros C n v H. pose proof (proj1 (forallb_forall _ _) C _ H) as U. unfold pair_in in U. cbn [fst snd] in U.
  destruct (assoc n t); [|discriminate]. apply Z.eqb_eq in U. subst. reflexivity.
Qed.
Definition pair_agrees (t : list (list Z * Z)) (p : list Z * Z) : bool :=
  match assoc (fst p) t with Some v => v =? snd p | None => true end.
Lemma pair_agrees_ok t l : forallb (pair_agrees t) l = true ->
  forall n v d, In (n, v) l -> assoc n t = Some d -> d = v.
Proof.
  intros C n v d H A. pose proof (proj1 (forallb_forall _ _) C _ H) as U. unfold pair_agrees in U. cbn [fst snd] in U.
  rewrite A in U. apply Z.eqb_eq in U. auto.
Qed.

Definition doc_all_voices : list (list Z * Z) := doc_voices ++ doc_drumsets ++ doc_drumnotes.
Lemma doc_voices_defined_b : forallb (pair_in voices) doc_all_voices = true.
Proof. vm_compute. reflexivity. Qed.
Lemma voices_agree_doc_b : forallb (pair_agrees doc_all_voices) voices = true.
Proof. vm_compute. reflexivity. Qed.
Lemma doc_values_agree_b : forallb (pair_agrees voices) doc_values = true.
Proof. vm_compute. reflexivity. Qed.
Lemma gm_programs_b : forallb (pair_in voices) gm_programs && forallb (pair_in doc_voices) gm_programs = true.
Proof. vm_compute. reflexivity. Qed.
Lemma gm_percussion_b : forallb (pair_in voices) gm_percussion && forallb (pair_in doc_drumnotes) gm_percussion = true.
Proof. vm_compute. reflexivity. Qed.
Lemma doc_voices_complete : map snd doc_voices = map Z.of_nat (seq 1 128).
Proof. vm_compute. reflexivity. Qed.

Lemma voices_thm :
  (forall n v, In (n, v) doc_all_voices -> assoc n voices = Some v) /\
  (forall n v d, In (n, v) voices -> assoc n doc_all_voices = Some d -> d = v) /\
  (forall n v d, In (n, v) doc_values -> assoc n voices = Some d -> d = v) /\
  (forall n v, In (n, v) gm_programs -> assoc n voices = Some v /\ assoc n doc_voices = Some v) /\
  (forall n v, In (n, v) gm_percussion -> assoc n voices = Some v /\ assoc n doc_drumnotes = Some v) /\
  map snd doc_voices = map Z.of_nat (seq 1 128).
Proof.
  pose proof gm_programs_b as G. apply andb_prop in G. destruct G as [G1 G2].
  pose proof gm_percussion_b as P. apply andb_prop in P. destruct P as [P1 P2].
  split; [|split; [|split; [|split; [|split]]]]; try (intros n v H; split).
  - apply pair_in_ok, doc_voices_defined_b.
  - apply pair_agrees_ok, voices_agree_doc_b.
  - apply pair_agrees_ok, doc_values_agree_b.
  - exact (pair_in_ok _ _ G1 n v H).
  - exact (pair_in_ok _ _ G2 n v H).
  - exact (pair_in_ok _ _ P1 n v H).
  - exact (pair_in_ok _ _ P2 n v H).
  - apply doc_voices_complete.
Qed.

(* RPN / NRPN addresses *)
Definition rpn_row_ok (r : sysfunc) : bool :=
  if ttype_eqb (sf_type r) TkRPNCommand then
    match assoc (sf_name r) named_rpn with Some (m, l) => (sf_tag1 r =? m) && (sf_tag2 r =? l) | None => false end
  else if ttype_eqb (sf_type r) TkNRPNCommand then
    match assoc (sf_name r) named_nrpn with Some (m, l) => (sf_tag1 r =? m) && (sf_tag2 r =? l) | None => false end
  else true.
Lemma rpn_rows_ok_b : forallb rpn_row_ok sysfuncs = true.
Proof. vm_compute. reflexivity. Qed.
Definition named_param_ok (ty : ttype) (p : list Z * (Z * Z)) : bool :=
  match find_sysfunc (fst p) sysfuncs with
  | Some r => ttype_eqb (sf_type r) ty && (sf_tag1 r =? fst (snd p)) && (sf_tag2 r =? snd (snd p))
  | None => false
  end.
Lemma named_params_b : forallb (named_param_ok TkRPNCommand) named_rpn && forallb (named_param_ok TkNRPNCommand) named_nrpn = true.
Proof. vm_compute. reflexivity. Qed.
Lemma rpn_addresses :
  (forall r, In r sysfuncs -> sf_type r = TkRPNCommand -> assoc (sf_name r) named_rpn = Some (sf_tag1 r, sf_tag2 r)) /\
  (forall r, In r sysfuncs -> sf_type r = TkNRPNCommand -> assoc (sf_name r) named_nrpn = Some (sf_tag1 r, sf_tag2 r)) /\
  (forall n a, In (n, a) named_rpn -> exists r, In r sysfuncs /\ sf_name r = n /\ sf_type r = TkRPNCommand /\ (sf_tag1 r, sf_tag2 r) = a) /\
  (forall n a, In (n, a) named_nrpn -> exists r, In r sysfuncs /\ sf_name r = n /\ sf_type r = TkNRPNCommand /\ (sf_tag1 r, sf_tag2 r) = a).
Proof.
  pose proof named_params_b as N. apply andb_prop in N. destruct N as [N1 N2].
  repeat split.
  - intros r H T. pose proof (proj1 (forallb_forall _ _) rpn_rows_ok_b r H) as U. unfold rpn_row_ok in U.
    rewrite T in U. rewrite ttype_eqb_refl in U. destruct (assoc (sf_name r) named_rpn) as [[m l]|]; [|discriminate].
    apply andb_prop in U. destruct U as [U1 U2]. apply Z.eqb_eq in U1. apply Z.eqb_eq in U2. subst. reflexivity.
  - intros r H T. pose proof (proj1 (forallb_forall _ _) rpn_rows_ok_b r H) as U. unfold rpn_row_ok in U.
    rewrite T in U. change (ttype_eqb TkNRPNCommand TkRPNCommand) with false in U. rewrite ttype_eqb_refl in U.
    destruct (assoc (sf_name r) named_nrpn) as [[m l]|]; [|discriminate].
    apply andb_prop in U. destruct U as [U1 U2]. apply Z.eqb_eq in U1. apply Z.eqb_eq in U2. subst. reflexivity.
  - intros n [m l] H. pose proof (proj1 (forallb_forall _ _) N1 _ H) as U. unfold named_param_ok in U. cbn [fst snd] in U.
    destruct (find_sysfunc n sysfuncs) as [r|] eqn:F; [|discriminate]. apply find_sysfunc_In in F. destruct F.
    repeat (apply andb_prop in U; destruct U as [U ?]). apply ttype_eqb_eq in U.
    repeat match goal with H : (_ =? _) = true |- _ => apply Z.eqb_eq in H end. subst. exists r. auto.
  - intros n [m l] H. pose proof (proj1 (forallb_forall _ _) N2 _ H) as U. unfold named_param_ok in U. cbn [fst snd] in U.
    destruct (find_sysfunc n sysfuncs) as [r|] eqn:F; [|discriminate]. apply find_sysfunc_In in F. destruct F.
    repeat (apply andb_prop in U; destruct U as [U ?]). apply ttype_eqb_eq in U.
    repeat match goal with H : (_ =? _) = true |- _ => apply Z.eqb_eq in H end. subst. exists r. auto.
Qed.

(* text meta types, resets, GS effect addresses: the row's tag is the standard's number *)
Definition tag_row_ok (ty : ttype) (t : list (list Z * Z)) (r : sysfunc) : bool :=
  if ttype_eqb (sf_type r) ty then match assoc (sf_name r) t with Some v => sf_tag1 r =? v | None => false end else true.
Lemma tag_row_from_check ty t : forallb (tag_row_ok ty t) sysfuncs = true ->
  forall r, In r sysfuncs -> sf_type r = ty -> assoc (sf_name r) t = Some (sf_tag1 r).
Proof.
  intros C r H T. pose proof (proj1 (forallb_forall _ _) C r H) as U. unfold tag_row_ok in U.
  rewrite T, ttype_eqb_refl in U. destruct (assoc (sf_name r) t); [|discriminate]. apply Z.eqb_eq in U. subst. reflexivity.
Qed.
Lemma meta_rows_b : forallb (tag_row_ok TkMetaText named_text_meta) sysfuncs = true.
Proof. vm_compute. reflexivity. Qed.
Lemma meta_types r : In r sysfuncs -> sf_type r = TkMetaText -> assoc (sf_name r) named_text_meta = Some (sf_tag1 r).
Proof. apply tag_row_from_check, meta_rows_b. Qed.

(* ------------------------------------------------------------------------------------------ *)
(* from events to bytes and back                                                               *)
(* ------------------------------------------------------------------------------------------ *)
Lemma track_of_wire evs items :
  forallb event_ok evs = true -> wire 0 evs = items -> deltas_ok items = true ->
  generate_track evs = Ok (enc_track items ++ EOT) /\
  decode_track (enc_track items ++ EOT) = Some (items ++ [EOTmsg]).
Proof.
  intros H W D. subst items.
  assert (G : generate_track evs = Ok (enc_track (wire 0 evs) ++ EOT)).
  { unfold generate_track. rewrite (write_events_wire evs 0 H). reflexivity. }
  split; [exact G|].
  destruct (generate_track_decodes evs H D) as [bs [G' Dc]]. rewrite G in G'. inversion G'. subst. exact Dc.
Qed.

Lemma clamp_id lo hi v : lo <= v <= hi -> clamp lo hi v = v.
Proof. unfold clamp. lia. Qed.
Lemma deltas_one t (m : msg) (ms : list msg) : 0 <= t < 2 ^ 28 ->
  deltas_ok ((t, m) :: map (fun x => (0, x)) ms) = true.
Proof.
  intros H. unfold deltas_ok. cbn [forallb fst]. apply andb_true_intro. split; [lia|].
  induction ms; cbn [map forallb fst]; auto.
Qed.

Ltac ev_unfold := unfold cmd_cc, cmd_select_data, ev_cc, ev_voice, ev_pitch_bend, ev_meta, ev_sysex_raw.
Ltac wire_cbn := cbn [wire wire_msgs e_type e_time e_ch e_v1 e_v2 e_v3 e_data app map].

Ltac norm_bytes T :=
  unfold enc_track, enc_item in T; cbn [flat_map fst snd enc_msg app] in T;
  rewrite ?app_nil_r in T; rewrite <- ?app_assoc in T; change (push_delta 0) with [0] in T; cbn [app] in T.

(* control change *)
Lemma cc_wire time ch no v : 0 <= time -> 0 <= ch <= 15 -> 0 <= no <= 127 -> 0 <= v <= 127 ->
  wire 0 (cmd_cc time ch no v) = [(time, MCC ch no v)].
Proof.
  intros. ev_unfold. wire_cbn. rewrite !clamp_id by lia. repeat f_equal; lia.
Qed.
Lemma cc_bytes time ch no v : 0 <= time < 2 ^ 28 -> 0 <= ch <= 15 -> 0 <= no <= 127 -> 0 <= v <= 127 ->
  generate_track (cmd_cc time ch no v) = Ok (push_delta time ++ [176 + ch; no; v] ++ EOT) /\
  decode_track (push_delta time ++ [176 + ch; no; v] ++ EOT) = Some [(time, MCC ch no v); EOTmsg].
Proof.
  intros Ht Hc Hn Hv.
  pose proof (track_of_wire (cmd_cc time ch no v) [(time, MCC ch no v)] eq_refl
                (cc_wire time ch no v ltac:(lia) Hc Hn Hv) (deltas_one time _ [] Ht)) as T.
  norm_bytes T. exact T.
Qed.

Lemma value_range_clamp lo v hi : lo <= hi -> value_range lo v hi = clamp lo hi v.
Proof. unfold value_range, clamp. intros. destruct (v <? lo) eqn:A; [lia|]. destruct (v >? hi) eqn:B; lia. Qed.

(* program change *)
Lemma voice1_eq time ch n : cmd_voice time ch [n] = [ev_voice time ch (clamp 1 128 n - 1)].
Proof. unfold cmd_voice. cbn [length Nat.eqb]. rewrite value_range_clamp by lia. reflexivity. Qed.
Lemma voice3_eq time ch n msb lsb :
  cmd_voice time ch [n; msb; lsb] = [ev_cc time ch 0 msb; ev_cc time ch 32 lsb; ev_voice time ch (clamp 1 128 n - 1)].
Proof. unfold cmd_voice. cbn [length Nat.eqb nth]. rewrite value_range_clamp by lia. reflexivity. Qed.

Lemma program_bytes time ch n : 0 <= time < 2 ^ 28 -> 0 <= ch <= 15 -> 1 <= n <= 128 ->
  generate_track (cmd_voice time ch [n]) = Ok (push_delta time ++ [192 + ch; n - 1] ++ EOT) /\
  decode_track (push_delta time ++ [192 + ch; n - 1] ++ EOT) = Some [(time, MProgram ch (n - 1)); EOTmsg].
Proof.
  intros Ht Hc Hn. rewrite voice1_eq.
  assert (W : wire 0 [ev_voice time ch (clamp 1 128 n - 1)] = [(time, MProgram ch (n - 1))]).
  { ev_unfold. wire_cbn. rewrite (clamp_id 1 128 n) by lia. rewrite !clamp_id by lia. repeat f_equal; lia. }
  pose proof (fun H => track_of_wire _ _ H W (deltas_one time _ [] Ht)) as T. specialize (T eq_refl). norm_bytes T. exact T.
Qed.
Lemma program_bank_bytes time ch n msb lsb : 0 <= time < 2 ^ 28 -> 0 <= ch <= 15 -> 1 <= n <= 128 ->
  0 <= msb <= 127 -> 0 <= lsb <= 127 ->
  generate_track (cmd_voice time ch [n; msb; lsb]) =
    Ok (push_delta time ++ [176 + ch; 0; msb; 0; 176 + ch; 32; lsb; 0; 192 + ch; n - 1] ++ EOT) /\
  decode_track (push_delta time ++ [176 + ch; 0; msb; 0; 176 + ch; 32; lsb; 0; 192 + ch; n - 1] ++ EOT) =
    Some [(time, MCC ch CC_BANK_MSB msb); (0, MCC ch CC_BANK_LSB lsb); (0, MProgram ch (n - 1)); EOTmsg].
Proof.
  intros Ht Hc Hn Hm Hl. rewrite voice3_eq.
  assert (W : wire 0 [ev_cc time ch 0 msb; ev_cc time ch 32 lsb; ev_voice time ch (clamp 1 128 n - 1)]
              = [(time, MCC ch 0 msb); (0, MCC ch 32 lsb); (0, MProgram ch (n - 1))]).
  { ev_unfold. wire_cbn. rewrite (clamp_id 1 128 n) by lia. rewrite !clamp_id by lia. repeat f_equal; lia. }
  pose proof (fun H => track_of_wire _ _ H W (deltas_one time _ [_; _] Ht)) as T. specialize (T eq_refl). norm_bytes T. exact T.
Qed.

(* tempo *)
Lemma tempo_bytes_of mpq : 0 <= mpq < 2 ^ 24 ->
  [as_u8 (Z.land (Z.shiftr mpq 16) 255); as_u8 (Z.land (Z.shiftr mpq 8) 255); as_u8 (Z.land (Z.shiftr mpq 0) 255)]
  = [mpq / 65536; (mpq / 256) mod 256; mpq mod 256].
Proof.
  intros H. rewrite !land_255, !shiftr_k by lia. change (2 ^ 16) with 65536. change (2 ^ 8) with 256. change (2 ^ 0) with 1.
  rewrite Z.div_1_r. unfold as_u8. f_equal; [lia | f_equal; [lia | f_equal; lia]].
Qed.
Lemma tempo_eq time bpm : 10 <= bpm <= 300 ->
  cmd_tempo time bpm = [ev_meta time 255 META_TEMPO 3 (tempo_payload bpm)].
Proof.
  intros H. unfold cmd_tempo, tempo_change, tempo_mpq. rewrite value_range_clamp, clamp_id by lia.
  replace (bpm >? 0) with true by lia. rewrite Z.quot_div_nonneg by lia.
  rewrite tempo_bytes_of. 2:{ split; [apply Z.div_pos; lia|]. apply Z.div_lt_upper_bound; lia. }
  reflexivity.
Qed.
Lemma tempo_clamps time bpm : cmd_tempo time bpm = cmd_tempo time (clamp 10 300 bpm).
Proof.
  unfold cmd_tempo. rewrite !value_range_clamp by lia. f_equal. unfold clamp. lia.
Qed.
Lemma tempo_payload_value bpm : 10 <= bpm <= 300 ->
  exists a b c, tempo_payload bpm = [a; b; c] /\ 0 <= a < 256 /\ 0 <= b < 256 /\ 0 <= c < 256 /\
                (a * 256 + b) * 256 + c = 60000000 / bpm.
Proof.
  intros H. unfold tempo_payload, MICROSECONDS_PER_MINUTE. set (us := 60000000 / bpm).
  assert (0 <= us < 2 ^ 24). { unfold us. split; [apply Z.div_pos; lia|]. apply Z.div_lt_upper_bound; lia. }
  exists (us / 65536), ((us / 256) mod 256), (us mod 256). repeat split; lia.
Qed.
Lemma tempo_bytes time bpm : 0 <= time < 2 ^ 28 -> 10 <= bpm <= 300 ->
  generate_track (cmd_tempo time bpm) = Ok (push_delta time ++ [255; 81; 3] ++ tempo_payload bpm ++ EOT) /\
  decode_track (push_delta time ++ [255; 81; 3] ++ tempo_payload bpm ++ EOT) = Some [(time, MMeta 81 (tempo_payload bpm)); EOTmsg].
Proof.
  intros Ht Hb. rewrite tempo_eq by assumption.
  destruct (tempo_payload_value bpm Hb) as [a [b [c [E [Ha [Hb' [Hc Hv]]]]]]]. rewrite E.
  assert (Hok : forallb event_ok [ev_meta time 255 META_TEMPO 3 [a; b; c]] = true).
  { unfold event_ok, ev_meta, bytes_ok, byte_ok, data7, zlen. cbn [forallb e_type e_data e_v1 e_v2 e_v3 length].
    repeat (apply andb_true_intro; split); try reflexivity; lia. }
  assert (W : wire 0 [ev_meta time 255 META_TEMPO 3 [a; b; c]] = [(time, MMeta 81 [a; b; c])]).
  { ev_unfold. wire_cbn. repeat f_equal; lia. }
  pose proof (track_of_wire _ _ Hok W (deltas_one time _ [] Ht)) as T. norm_bytes T.
  change (push_delta (zlen [a; b; c])) with [3] in T. cbn [app] in T. exact T.
Qed.

Ltac finish_track W Ht ms :=
  let T := fresh "T" in
  pose proof (fun H => track_of_wire _ _ H W (deltas_one _ _ ms Ht)) as T; specialize (T eq_refl); norm_bytes T; exact T.

(* time signature *)
Lemma log2_cases dd l : log2_denominator dd = Some l ->
  (dd = 2 /\ l = 1) \/ (dd = 4 /\ l = 2) \/ (dd = 8 /\ l = 3) \/ (dd = 16 /\ l = 4).
Proof.
  unfold log2_denominator. destruct (dd =? 2) eqn:A; [intros H; inversion H; lia|].
  destruct (dd =? 4) eqn:B; [intros H; inversion H; lia|].
  destruct (dd =? 8) eqn:C; [intros H; inversion H; lia|].
  destruct (dd =? 16) eqn:D; [intros H; inversion H; lia|]. discriminate.
Qed.
Lemma timesig_eq time nn dd l : 2 <= nn <= 64 -> log2_denominator dd = Some l ->
  cmd_timesig time [nn; dd] = [ev_meta time 255 META_TIME_SIGNATURE 4 [nn; l; 24; 8]].
Proof.
  intros Hn Hl. apply log2_cases in Hl. unfold cmd_timesig. rewrite value_range_clamp, clamp_id by lia.
  rewrite (as_u8_small nn) by lia.
  destruct Hl as [[-> ->]|[[-> ->]|[[-> ->]|[-> ->]]]]; reflexivity.
Qed.
Lemma timesig_clamps time a0 a1 : cmd_timesig time [a0; a1] = cmd_timesig time [clamp 2 64 a0; timesig_deno a1].
Proof.
  unfold cmd_timesig. rewrite !value_range_clamp by lia. rewrite (clamp_id 2 64 (clamp 2 64 a0)) by (unfold clamp; lia).
  do 3 f_equal. f_equal. f_equal. f_equal.
  unfold timesig_deno. rewrite !value_range_clamp by lia.
  set (d := clamp 2 64 a1).
  destruct (d =? 2) eqn:A; [reflexivity|]. destruct (d =? 4) eqn:B; [reflexivity|].
  destruct (d =? 8) eqn:C; [reflexivity|]. destruct (d =? 16) eqn:D; reflexivity.
Qed.
Lemma timesig_bytes time nn dd l : 0 <= time < 2 ^ 28 -> 2 <= nn <= 64 -> log2_denominator dd = Some l ->
  generate_track (cmd_timesig time [nn; dd]) = Ok (push_delta time ++ [255; 88; 4; nn; l; 24; 8] ++ EOT) /\
  decode_track (push_delta time ++ [255; 88; 4; nn; l; 24; 8] ++ EOT) = Some [(time, MMeta 88 [nn; l; 24; 8]); EOTmsg].
Proof.
  intros Ht Hn Hl. rewrite (timesig_eq time nn dd l Hn Hl). apply log2_cases in Hl.
  assert (0 <= l < 128) by lia.
  assert (Hok : forallb event_ok [ev_meta time 255 META_TIME_SIGNATURE 4 [nn; l; 24; 8]] = true).
  { unfold event_ok, ev_meta, bytes_ok, byte_ok, data7, zlen. cbn [forallb e_type e_data e_v1 e_v2 e_v3 length].
    repeat (apply andb_true_intro; split); try reflexivity; lia. }
  assert (W : wire 0 [ev_meta time 255 META_TIME_SIGNATURE 4 [nn; l; 24; 8]] = [(time, MMeta 88 [nn; l; 24; 8])]).
  { ev_unfold. wire_cbn. repeat f_equal; lia. }
  pose proof (track_of_wire _ _ Hok W (deltas_one time _ [] Ht)) as T. norm_bytes T.
  change (push_delta (zlen [nn; l; 24; 8])) with [4] in T. cbn [app] in T. exact T.
Qed.

(* pitch bend *)
Lemma bend_bytes_v time ch v14 : 0 <= time < 2 ^ 28 -> 0 <= ch <= 15 -> 0 <= v14 <= 16383 ->
  generate_track [ev_pitch_bend time ch v14] = Ok (push_delta time ++ [224 + ch; bend_lsb v14; bend_msb v14] ++ EOT) /\
  decode_track (push_delta time ++ [224 + ch; bend_lsb v14; bend_msb v14] ++ EOT)
    = Some [(time, MBend ch (bend_lsb v14) (bend_msb v14)); EOTmsg].
Proof.
  intros Ht Hc Hv.
  assert (W : wire 0 [ev_pitch_bend time ch v14] = [(time, MBend ch (bend_lsb v14) (bend_msb v14))]).
  { ev_unfold. wire_cbn. rewrite !clamp_id by lia. unfold bend_lsb, bend_msb. repeat f_equal; lia. }
  finish_track W Ht (@nil msg).
Qed.
Lemma bend_big_bytes time ch v : 0 <= time < 2 ^ 28 -> 0 <= ch <= 15 -> -8192 <= v <= 8191 ->
  let v14 := v + BEND_CENTRE in
  generate_track (cmd_pitch_bend time ch true v) = Ok (push_delta time ++ [224 + ch; bend_lsb v14; bend_msb v14] ++ EOT) /\
  decode_track (push_delta time ++ [224 + ch; bend_lsb v14; bend_msb v14] ++ EOT)
    = Some [(time, MBend ch (bend_lsb v14) (bend_msb v14)); EOTmsg] /\
  0 <= bend_lsb v14 < 128 /\ 0 <= bend_msb v14 < 128 /\ bend_lsb v14 + 128 * bend_msb v14 = v + 8192.
Proof.
  intros Ht Hc Hv v14. unfold cmd_pitch_bend. fold BEND_CENTRE. fold v14.
  assert (0 <= v14 <= 16383) by (unfold v14, BEND_CENTRE; lia).
  destruct (bend_bytes_v time ch v14 Ht Hc H) as [A B].
  repeat split; try assumption; unfold bend_lsb, bend_msb, v14, BEND_CENTRE in *; lia.
Qed.
Lemma bend_small_bytes time ch v : 0 <= time < 2 ^ 28 -> 0 <= ch <= 15 -> 0 <= v <= 127 ->
  generate_track (cmd_pitch_bend time ch false v) = Ok (push_delta time ++ [224 + ch; 0; v] ++ EOT) /\
  decode_track (push_delta time ++ [224 + ch; 0; v] ++ EOT) = Some [(time, MBend ch 0 v); EOTmsg].
Proof.
  intros Ht Hc Hv. unfold cmd_pitch_bend.
  assert (0 <= v * 128 <= 16383) by lia.
  pose proof (bend_bytes_v time ch (v * 128) Ht Hc H) as T.
  replace (bend_lsb (v * 128)) with 0 in T by (unfold bend_lsb; lia).
  replace (bend_msb (v * 128)) with v in T by (unfold bend_msb; lia). exact T.
Qed.

(* RPN / NRPN: select, then data entry *)
Lemma select_data_bytes time ch cc1 cc2 cc3 m l v : 0 <= time < 2 ^ 28 -> 0 <= ch <= 15 ->
  0 <= cc1 <= 127 -> 0 <= cc2 <= 127 -> 0 <= cc3 <= 127 -> 0 <= m <= 127 -> 0 <= l <= 127 -> 0 <= v <= 127 ->
  generate_track (cmd_select_data time ch cc1 cc2 cc3 m l v) =
    Ok (push_delta time ++ [176 + ch; cc1; m; 0; 176 + ch; cc2; l; 0; 176 + ch; cc3; v] ++ EOT) /\
  decode_track (push_delta time ++ [176 + ch; cc1; m; 0; 176 + ch; cc2; l; 0; 176 + ch; cc3; v] ++ EOT) =
    Some [(time, MCC ch cc1 m); (0, MCC ch cc2 l); (0, MCC ch cc3 v); EOTmsg].
Proof.
  intros Ht Hc H1 H2 H3 Hm Hl Hv.
  assert (W : wire 0 (cmd_select_data time ch cc1 cc2 cc3 m l v) = [(time, MCC ch cc1 m); (0, MCC ch cc2 l); (0, MCC ch cc3 v)]).
  { ev_unfold. wire_cbn. rewrite !clamp_id by lia. repeat f_equal; lia. }
  finish_track W Ht [MCC ch cc2 l; MCC ch cc3 v].
Qed.

(* the rows of the table run the modelled arm with the row's tags *)
Lemma run_row_of r st args txt : In r sysfuncs -> run_command (sf_name r) st args txt = run_row r st args txt.
Proof. intros H. unfold run_command. rewrite (find_row r H). reflexivity. Qed.
Lemma named_controller_runs r st v : In r sysfuncs -> sf_type r = TkControlChangeCommand ->
  run_command (sf_name r) st [v] [] = Ok (cmd_cc (c_time st) (c_ch st) (sf_tag1 r) v).
Proof. intros H T. rewrite run_row_of by assumption. unfold run_row. rewrite T. reflexivity. Qed.
Lemma named_rpn_runs r st v : In r sysfuncs -> sf_type r = TkRPNCommand ->
  run_command (sf_name r) st [v] [] = Ok (cmd_rpn (c_time st) (c_ch st) (sf_tag1 r) (sf_tag2 r) v).
Proof. intros H T. rewrite run_row_of by assumption. unfold run_row. rewrite T. reflexivity. Qed.
Lemma named_nrpn_runs r st v : In r sysfuncs -> sf_type r = TkNRPNCommand ->
  run_command (sf_name r) st [v] [] = Ok (cmd_nrpn (c_time st) (c_ch st) (sf_tag1 r) (sf_tag2 r) v).
Proof. intros H T. rewrite run_row_of by assumption. unfold run_row. rewrite T. reflexivity. Qed.
Lemma text_runs r st txt : In r sysfuncs -> sf_type r = TkMetaText ->
  run_command (sf_name r) st [] txt = Ok (cmd_meta_text (c_time st) (sf_tag1 r) txt).
Proof. intros H T. rewrite run_row_of by assumption. unfold run_row. rewrite T. reflexivity. Qed.

(* ---- system exclusive ---- *)
Lemma sysex_track time payload : 0 <= time < 2 ^ 28 -> forallb byte_ok payload = true -> zlen payload + 1 < 2 ^ 28 ->
  generate_track [ev_sysex_raw time (240 :: payload)] =
    Ok (push_delta time ++ [240] ++ push_delta (zlen payload) ++ payload ++ EOT) /\
  decode_track (push_delta time ++ [240] ++ push_delta (zlen payload) ++ payload ++ EOT) = Some [(time, MSysEx payload); EOTmsg].
Proof.
  intros Ht Hb Hl.
  assert (Hok : forallb event_ok [ev_sysex_raw time (240 :: payload)] = true).
  { unfold event_ok, ev_sysex_raw, bytes_ok. cbn [forallb e_type e_data]. rewrite Hb.
    replace (zlen (240 :: payload)) with (zlen payload + 1) by (unfold zlen; cbn [length]; lia).
    repeat (apply andb_true_intro; split); try reflexivity; lia. }
  assert (W : wire 0 [ev_sysex_raw time (240 :: payload)] = [(time, MSysEx payload)]).
  { ev_unfold. wire_cbn. cbn [Z.eqb Pos.eqb]. repeat f_equal; lia. }
  pose proof (track_of_wire _ _ Hok W (deltas_one time _ [] Ht)) as T. norm_bytes T.
  cbn [app]. rewrite <- ?app_assoc in T. exact T.
Qed.

(* Event::sysex in checksum mode *)
Definition zsum (l : list Z) : Z := fold_right Z.add 0 l.
Definition no_marker (l : list Z) : Prop := Forall (fun x => x <> -1 /\ x <> -2) l.

Lemma sum_loop_before pre : forall r s, Forall (fun x => x <> -1) pre ->
  sysex_sum_loop (pre ++ r) false s = map as_u8 pre ++ sysex_sum_loop r false s.
Proof.
  induction pre as [|x pre IH]; intros r s H; [reflexivity|].
  inversion H; subst. cbn [app sysex_sum_loop andb map].
  replace (x =? -1) with false by lia. rewrite IH by assumption. reflexivity.
Qed.
Lemma sum_loop_inside body : forall r s, no_marker body ->
  sysex_sum_loop (body ++ r) true s = map as_u8 body ++ sysex_sum_loop r true (s + zsum body).
Proof.
  induction body as [|x body IH]; intros r s H.
  - cbn [app map zsum fold_right]. rewrite Z.add_0_r. reflexivity.
  - inversion H as [|? ? [H1 H2] H3]; subst. cbn [app sysex_sum_loop andb map].
    replace (x =? -2) with false by lia. replace (x =? -1) with false by lia.
    rewrite IH by assumption. cbn [zsum fold_right]. fold (zsum body). rewrite Z.add_assoc. reflexivity.
Qed.
Lemma zsum_u8_mod body : zsum (map as_u8 body) mod 128 = zsum body mod 128.
Proof.
  induction body as [|x body IH]; [reflexivity|].
  cbn [map zsum fold_right]. fold (zsum (map as_u8 body)). fold (zsum body).
  rewrite (Z.add_mod (as_u8 x)), (Z.add_mod x) by lia. rewrite IH.
  replace (as_u8 x mod 128) with (x mod 128) by (unfold as_u8; lia). reflexivity.
Qed.
Lemma zsum_app a b : zsum (a ++ b) = zsum a + zsum b.
Proof. induction a; cbn [app zsum fold_right]; [reflexivity|]. fold (zsum (a0 ++ b)). fold (zsum a0). lia. Qed.

Lemma roland_checksum_law time pre body post :
  Forall (fun x => x <> -1) pre -> no_marker body ->
  let cs := roland_checksum (map as_u8 body) in
  ev_sysex time (pre ++ [-1] ++ body ++ [-2] ++ post) true
    = ev_sysex_raw time (map as_u8 pre ++ map as_u8 body ++ [cs] ++ sysex_sum_loop post false (zsum body)) /\
  0 <= cs < 128 /\ (zsum (map as_u8 body) + cs) mod 128 = 0 /\ roland_ok (map as_u8 body ++ [cs]) = true.
Proof.
  intros Hp Hb cs. unfold ev_sysex.
  assert (L : (zsum (map as_u8 body) + cs) mod 128 = 0).
  { unfold cs, roland_checksum. fold (zsum (map as_u8 body)). lia. }
  split; [|split; [|split]].
  - f_equal. rewrite sum_loop_before by assumption. f_equal.
    cbn [app sysex_sum_loop andb]. cbn [Z.eqb Pos.eqb]. rewrite sum_loop_inside by assumption. f_equal.
    cbn [app sysex_sum_loop andb]. cbn [Z.eqb Pos.eqb]. f_equal.
    rewrite Z.add_0_l. rewrite !land_127. unfold cs, roland_checksum. fold (zsum (map as_u8 body)).
    rewrite zsum_u8_mod. apply as_u8_small. lia.
  - unfold cs, roland_checksum. lia.
  - exact L.
  - unfold roland_ok. fold (zsum (map as_u8 body ++ [cs])). rewrite zsum_app. cbn [zsum fold_right].
    apply Z.eqb_eq. rewrite Z.add_0_r. exact L.
Qed.

(* ... and for EVERY group of a message, not only the first: the loop outside a group, whatever sum an earlier group left
   behind, writes the next group with the checksum of that group alone and is outside a group again afterwards; so the
   statement applies again to `post` (a second, third ... group). *)
Lemma roland_checksum_every_group pre body post s :
  Forall (fun x => x <> -1) pre -> no_marker body ->
  let cs := roland_checksum (map as_u8 body) in
  sysex_sum_loop (pre ++ [-1] ++ body ++ [-2] ++ post) false s
    = map as_u8 pre ++ map as_u8 body ++ [cs] ++ sysex_sum_loop post false (zsum body) /\
  (zsum (map as_u8 body) + cs) mod 128 = 0.
Proof.
  intros Hp Hb cs.
  assert (L : (zsum (map as_u8 body) + cs) mod 128 = 0).
  { unfold cs, roland_checksum. fold (zsum (map as_u8 body)). lia. }
  split; [|exact L].
  rewrite sum_loop_before by assumption. f_equal.
  cbn [app sysex_sum_loop andb]. cbn [Z.eqb Pos.eqb]. rewrite sum_loop_inside by assumption. f_equal.
  cbn [app sysex_sum_loop andb]. cbn [Z.eqb Pos.eqb]. f_equal.
  rewrite Z.add_0_l. rewrite !land_127. unfold cs, roland_checksum. fold (zsum (map as_u8 body)).
  rewrite zsum_u8_mod. apply as_u8_small. lia.
Qed.
(* two groups in one message, spelled out *)
Lemma roland_checksum_two_groups time pre b1 mid b2 post :
  Forall (fun x => x <> -1) pre -> no_marker b1 -> Forall (fun x => x <> -1) mid -> no_marker b2 ->
  ev_sysex time (pre ++ [-1] ++ b1 ++ [-2] ++ mid ++ [-1] ++ b2 ++ [-2] ++ post) true
    = ev_sysex_raw time (map as_u8 pre ++ map as_u8 b1 ++ [roland_checksum (map as_u8 b1)] ++
                         map as_u8 mid ++ map as_u8 b2 ++ [roland_checksum (map as_u8 b2)] ++ sysex_sum_loop post false (zsum b2)).
Proof.
  intros Hp H1 Hm H2. unfold ev_sysex. f_equal.
  destruct (roland_checksum_every_group pre b1 (mid ++ [-1] ++ b2 ++ [-2] ++ post) 0 Hp H1) as [E1 _].
  rewrite E1. do 3 f_equal.
  destruct (roland_checksum_every_group mid b2 post (zsum b1) Hm H2) as [E2 _].
  exact E2.
Qed.

Lemma map_as_u8_bytes l : Forall (fun x => 0 <= x <= 255) l -> map as_u8 l = l.
Proof. induction 1; cbn [map]; [reflexivity|]. rewrite as_u8_small by lia. f_equal. assumption. Qed.
Lemma bytes_no_marker l : Forall (fun x => 0 <= x <= 255) l -> no_marker l.
Proof. unfold no_marker. intros H. eapply Forall_impl; [|exact H]. cbn beta. intros. lia. Qed.

(* GS data set (DT1) as the model builds it = the GS format with the Roland checksum *)
Lemma gs_dt1_eq time dev body : 0 <= dev <= 255 -> Forall (fun x => 0 <= x <= 255) body ->
  gs_dt1 time dev body = ev_sysex_raw time (240 :: GS_DT1 dev body).
Proof.
  intros Hd Hb. unfold gs_dt1.
  change ([240; 65; dev; 66; 18; -1] ++ body ++ [-2; 247]) with ([240; 65; dev; 66; 18] ++ [-1] ++ body ++ [-2] ++ [247]).
  destruct (roland_checksum_law time [240; 65; dev; 66; 18] body [247]) as [E _].
  { repeat constructor; lia. } { apply bytes_no_marker; assumption. }
  rewrite E. rewrite (map_as_u8_bytes body Hb).
  cbn [map sysex_sum_loop andb]. cbn [Z.eqb Pos.eqb]. rewrite !as_u8_small by lia.
  unfold GS_DT1. cbn [app]. reflexivity.
Qed.

(* resets *)
Lemma reset_eq time dev :
  cmd_sysex_reset time dev 0 = [ev_sysex_raw time (240 :: GM_SYSTEM_ON)] /\
  cmd_sysex_reset time dev 1 = [ev_sysex_raw time (240 :: GS_RESET dev)] /\
  cmd_sysex_reset time dev 2 = [ev_sysex_raw time (240 :: XG_SYSTEM_ON dev)].
Proof. repeat split. Qed.

(* universal real time: master volume / balance *)
Lemma master_volume_eq time v : 0 <= v <= 127 ->
  cmd_sysex_command time 1 [v] = [ev_sysex_raw time (240 :: MASTER_VOLUME v)].
Proof.
  intros H. unfold cmd_sysex_command. cbn [as_u8 Z.modulo Z.div_eucl Z.pos_div_eucl Z.land Pos.land Z.eqb Pos.eqb].
  change (Z.land (as_u8 1) 127 =? 1) with true. cbn match.
  unfold ev_sysex. cbn [map]. rewrite land_127. rewrite (as_u8_small v) by lia.
  replace (v mod 128) with v by lia. rewrite !as_u8_small by lia. reflexivity.
Qed.
Lemma master_balance_eq time v : -8192 <= v <= 8191 ->
  cmd_sysex_command time 2 [v] = [ev_sysex_raw time (240 :: MASTER_BALANCE (v + BEND_CENTRE))].
Proof.
  intros H. unfold cmd_sysex_command.
  change (Z.land (as_u8 2) 127 =? 1) with false. change (Z.land (as_u8 2) 127 =? 2) with true. cbn match.
  unfold ev_sysex, BEND_CENTRE. cbn [map]. rewrite !land_127, shiftr_7.
  rewrite !as_u8_small by lia. unfold MASTER_BALANCE.
  replace (((v + 8192) / 128) mod 128) with ((v + 8192) / 128) by lia. reflexivity.
Qed.

(* ---- UTF-8 ---- *)
Lemma land_63 v : Z.land v 63 = v mod 64.
Proof. change 63 with (Z.ones 6). rewrite Z.land_ones by lia. reflexivity. Qed.

(* the model's encoder is the RFC's bit layout *)
Lemma utf8_char_spec c : utf8_char c = utf8_bytes c.
Proof.
  unfold utf8_char, utf8_bytes. rewrite !land_63, !shiftr_k by lia.
  change (2 ^ 6) with 64. change (2 ^ 12) with 4096. change (2 ^ 18) with 262144.
  replace (c <=? 127) with (c <? 128) by lia. replace (c <=? 2047) with (c <? 2048) by lia.
  replace (c <=? 65535) with (c <? 65536) by lia. reflexivity.
Qed.
Lemma utf8_encode_spec s : utf8_encode s = utf8 s.
Proof. unfold utf8_encode, utf8. induction s; cbn [flat_map]; [reflexivity|]. rewrite utf8_char_spec, IHs. reflexivity. Qed.
Lemma utf8_char_len c : zlen (utf8_char c) = utf8_len c.
Proof. unfold utf8_char, utf8_len. destruct (c <? 128); [reflexivity|]. destruct (c <? 2048); [reflexivity|]. destruct (c <? 65536); reflexivity. Qed.
Lemma utf8_len_pos c : 1 <= utf8_len c <= 4.
Proof. unfold utf8_len. destruct (c <? 128); [lia|]. destruct (c <? 2048); [lia|]. destruct (c <? 65536); lia. Qed.
Lemma utf8_app a b : utf8 (a ++ b) = utf8 a ++ utf8 b.
Proof. unfold utf8. apply flat_map_app. Qed.
Lemma zlen_app {A} (a b : list A) : zlen (a ++ b) = zlen a + zlen b.
Proof. unfold zlen. rewrite app_length. lia. Qed.
Lemma zlen_nonneg {A} (a : list A) : 0 <= zlen a.
Proof. unfold zlen. lia. Qed.

(* every byte of an encoding of scalar values is a byte *)
Lemma utf8_bytes_ok c : 0 <= c < 1114112 -> forallb byte_ok (utf8_bytes c) = true.
Proof.
  intros H. rewrite <- utf8_char_spec. unfold utf8_char, byte_ok.
  destruct (c <? 128) eqn:A; [cbn [forallb]; repeat (apply andb_true_intro; split); lia|].
  destruct (c <? 2048) eqn:B; [cbn [forallb]; repeat (apply andb_true_intro; split); lia|].
  destruct (c <? 65536) eqn:C; cbn [forallb]; repeat (apply andb_true_intro; split); lia.
Qed.
Lemma utf8_ok s : Forall scalar s -> forallb byte_ok (utf8 s) = true.
Proof.
  induction 1 as [|c s Hc Hs IH]; [reflexivity|]. unfold utf8. cbn [flat_map]. rewrite forallb_app.
  fold (utf8 s). rewrite IH. rewrite utf8_bytes_ok by (unfold scalar in Hc; lia). reflexivity.
Qed.

(* strict decoder inverts the encoder on scalar values *)
Lemma decode1_encode c r : scalar c -> utf8_decode1 (utf8_bytes c ++ r) = Some (c, r).
Proof.
  intros H. rewrite <- utf8_char_spec. unfold utf8_char, scalar in *.
  destruct (c <? 128) eqn:A.
  { cbn [app utf8_decode1]. replace ((0 <=? c) && (c <? 128)) with true by lia. reflexivity. }
  destruct (c <? 2048) eqn:B.
  { cbn [app utf8_decode1]. set (b0 := 192 + c / 64). set (b1 := 128 + c mod 64).
    replace ((0 <=? b0) && (b0 <? 128)) with false by (unfold b0; lia).
    replace ((192 <=? b0) && (b0 <? 224)) with true by (unfold b0; lia).
    unfold cont. replace ((128 <=? b1) && (b1 <? 192)) with true by (unfold b1; lia).
    replace ((b0 - 192) * 64 + (b1 - 128)) with c by (unfold b0, b1; lia).
    replace (128 <=? c) with true by lia. reflexivity. }
  destruct (c <? 65536) eqn:C.
  { cbn [app utf8_decode1]. set (b0 := 224 + c / 4096). set (b1 := 128 + (c / 64) mod 64). set (b2 := 128 + c mod 64).
    replace ((0 <=? b0) && (b0 <? 128)) with false by (unfold b0; lia).
    replace ((192 <=? b0) && (b0 <? 224)) with false by (unfold b0; lia).
    replace ((224 <=? b0) && (b0 <? 240)) with true by (unfold b0; lia).
    unfold cont. replace ((128 <=? b1) && (b1 <? 192)) with true by (unfold b1; lia).
    replace ((128 <=? b2) && (b2 <? 192)) with true by (unfold b2; lia).
    replace (((b0 - 224) * 64 + (b1 - 128)) * 64 + (b2 - 128)) with c by (unfold b0, b1, b2; lia).
    replace (2048 <=? c) with true by lia. unfold scalarb.
    replace (((0 <=? c) && (c <? 55296)) || ((57344 <=? c) && (c <? 1114112))) with true by lia. reflexivity. }
  cbn [app utf8_decode1].
  set (b0 := 240 + c / 262144). set (b1 := 128 + (c / 4096) mod 64). set (b2 := 128 + (c / 64) mod 64). set (b3 := 128 + c mod 64).
  replace ((0 <=? b0) && (b0 <? 128)) with false by (unfold b0; lia).
  replace ((192 <=? b0) && (b0 <? 224)) with false by (unfold b0; lia).
  replace ((224 <=? b0) && (b0 <? 240)) with false by (unfold b0; lia).
  replace ((240 <=? b0) && (b0 <? 248)) with true by (unfold b0; lia).
  unfold cont. replace ((128 <=? b1) && (b1 <? 192)) with true by (unfold b1; lia).
  replace ((128 <=? b2) && (b2 <? 192)) with true by (unfold b2; lia).
  replace ((128 <=? b3) && (b3 <? 192)) with true by (unfold b3; lia).
  replace ((((b0 - 240) * 64 + (b1 - 128)) * 64 + (b2 - 128)) * 64 + (b3 - 128)) with c by (unfold b0, b1, b2, b3; lia).
  replace (65536 <=? c) with true by lia. unfold scalarb.
  replace (((0 <=? c) && (c <? 55296)) || ((57344 <=? c) && (c <? 1114112))) with true by lia. reflexivity.
Qed.
Lemma utf8_bytes_nonempty c : exists b t, utf8_bytes c = b :: t.
Proof.
  unfold utf8_bytes. destruct (c <=? 127); [eauto|]. destruct (c <=? 2047); [eauto|]. destruct (c <=? 65535); eauto.
Qed.
Lemma decode_encode_f s : forall fuel, Forall scalar s -> (length s < fuel)%nat -> utf8_decode_f fuel (utf8 s) = Some s.
Proof.
  induction s as [|c s IH]; intros fuel H F.
  - destruct fuel; [lia|]. reflexivity.
  - inversion H; subst. destruct fuel as [|f]; [lia|]. cbn [length] in F.
    unfold utf8. cbn [flat_map]. fold (utf8 s). cbn [utf8_decode_f].
    destruct (utf8_bytes_nonempty c) as [b [t E]].
    assert (N : utf8_bytes c ++ utf8 s = b :: (t ++ utf8 s)) by (rewrite E; reflexivity).
    rewrite N. rewrite <- N. rewrite decode1_encode by assumption.
    rewrite IH by (try assumption; lia). try reflexivity.
Qed.
Lemma utf8_length_ge s : (length s <= length (utf8 s))%nat.
Proof.
  induction s as [|c s IH]; [cbn; lia|]. unfold utf8. cbn [flat_map length]. fold (utf8 s). rewrite app_length.
  destruct (utf8_bytes_nonempty c) as [b [t E]]. rewrite E. cbn [length]. lia.
Qed.
Theorem utf8_roundtrip s : Forall scalar s -> utf8_decode (utf8 s) = Some s.
Proof. intros H. unfold utf8_decode. apply decode_encode_f; [assumption|]. pose proof (utf8_length_ge s). lia. Qed.

(* ---- the cut of MetaText ---- *)
Lemma meta_cut_fit s : forall cnt, meta_cut s cnt = fit_below (128 - cnt) s.
Proof.
  induction s as [|c s IH]; intros cnt; [reflexivity|]. cbn [meta_cut fit_below].
  rewrite <- utf8_char_spec. fold (zlen (utf8_char c)). rewrite utf8_char_len.
  replace (cnt + utf8_len c <? 128) with (utf8_len c <? 128 - cnt) by lia.
  destruct (utf8_len c <? 128 - cnt); [|reflexivity]. rewrite IH. f_equal. f_equal. lia.
Qed.
Lemma fit_below_spec s : forall L, 0 < L ->
  exists rest, s = fit_below L s ++ rest /\ zlen (utf8 (fit_below L s)) < L /\
    (rest = [] \/ exists c r, rest = c :: r /\ L <= zlen (utf8 (fit_below L s ++ [c]))).
Proof.
  induction s as [|c s IH]; intros L HL.
  - exists []. cbn. repeat split; auto.
  - cbn [fit_below]. fold (zlen (utf8_bytes c)). set (n := zlen (utf8_bytes c)).
    assert (1 <= n <= 4) by (unfold n; rewrite <- utf8_char_spec, utf8_char_len; apply utf8_len_pos).
    destruct (n <? L) eqn:E.
    + destruct (IH (L - n) ltac:(lia)) as [rest [E1 [E2 E3]]]. exists rest. split; [|split].
      * cbn [app]. f_equal. exact E1.
      * change (c :: fit_below (L - n) s) with ([c] ++ fit_below (L - n) s). rewrite utf8_app, zlen_app.
        unfold utf8 at 1. cbn [flat_map]. rewrite app_nil_r. fold n. lia.
      * destruct E3 as [->|[c' [r [-> E4]]]]; [left; reflexivity|]. right. exists c', r. split; [reflexivity|].
        change ((c :: fit_below (L - n) s) ++ [c']) with ([c] ++ (fit_below (L - n) s ++ [c'])).
        rewrite utf8_app, zlen_app. unfold utf8 at 1. cbn [flat_map]. rewrite app_nil_r. fold n. lia.
    + exists (c :: s). split; [reflexivity|]. split; [unfold zlen; cbn; lia|]. right. exists c, s. split; [reflexivity|].
      cbn [app]. unfold utf8. cbn [flat_map]. rewrite app_nil_r. fold n. lia.
Qed.

Theorem meta_text_thm time ty txt : Forall scalar txt ->
  exists kept rest,
    txt = kept ++ rest /\
    cmd_meta_text time ty txt = [ev_meta time 255 ty (zlen (utf8 kept)) (utf8 kept)] /\
    utf8 txt = utf8 kept ++ utf8 rest /\
    utf8_decode (utf8 kept) = Some kept /\
    zlen (utf8 kept) < 128 /\
    (rest = [] \/ exists c r, rest = c :: r /\ 128 <= zlen (utf8 (kept ++ [c]))).
Proof.
  intros H. destruct (fit_below_spec txt 128 ltac:(lia)) as [rest [E1 [E2 E3]]].
  exists (fit_below 128 txt), rest. split; [exact E1|]. split; [|split; [|split; [|split]]].
  - unfold cmd_meta_text. rewrite utf8_encode_spec, meta_cut_fit. reflexivity.
  - rewrite <- utf8_app, <- E1. reflexivity.
  - apply utf8_roundtrip. rewrite E1 in H. apply Forall_app in H. tauto.
  - exact E2.
  - exact E3.
Qed.
Lemma meta_text_eq time ty txt : cmd_meta_text time ty txt = [ev_meta time 255 ty (zlen (utf8 (fit_below 128 txt))) (utf8 (fit_below 128 txt))].
Proof. unfold cmd_meta_text. rewrite utf8_encode_spec, meta_cut_fit. reflexivity. Qed.

(* on the wire: FF ty len payload, decoded as the meta event of that type *)
Lemma meta_text_bytes time ty txt : 0 <= time < 2 ^ 28 -> 1 <= ty <= 7 -> Forall scalar txt ->
  let p := utf8 (fit_below 128 txt) in
  generate_track (cmd_meta_text time ty txt) = Ok (push_delta time ++ [255; ty; zlen p] ++ p ++ EOT) /\
  decode_track (push_delta time ++ [255; ty; zlen p] ++ p ++ EOT) = Some [(time, MMeta ty p); EOTmsg] /\ zlen p < 128.
Proof.
  intros Ht Hty Hs p. rewrite meta_text_eq. fold p.
  destruct (fit_below_spec txt 128 ltac:(lia)) as [rest [E1 [E2 E3]]]. fold p in E2.
  assert (Hb : forallb byte_ok p = true).
  { apply utf8_ok. rewrite E1 in Hs. apply Forall_app in Hs. tauto. }
  pose proof (zlen_nonneg p) as Hp.
  assert (Hok : forallb event_ok [ev_meta time 255 ty (zlen p) p] = true).
  { unfold event_ok, ev_meta, bytes_ok, data7. cbn [forallb e_type e_data e_v1 e_v2 e_v3]. rewrite Hb.
    replace (ty =? 47) with false by lia.
    repeat (apply andb_true_intro; split); try reflexivity; lia. }
  assert (W : wire 0 [ev_meta time 255 ty (zlen p) p] = [(time, MMeta ty p)]).
  { ev_unfold. wire_cbn. repeat f_equal; lia. }
  pose proof (track_of_wire _ _ Hok W (deltas_one time _ [] Ht)) as T. norm_bytes T.
  rewrite (push_delta_small (zlen p)) in T by lia. cbn [app] in T. split; [exact (proj1 T)|]. split; [exact (proj2 T)|exact E2].
Qed.

(* ------------------------------------------------------------------------------------------ *)
(* the model meets the prescription                                                            *)
(* ------------------------------------------------------------------------------------------ *)
(* what a row of the table makes exec() do, as a prescription class (type and tags only) *)
Definition row_prescription (r : sysfunc) : option prescription :=
  match sf_type r with
  | TkControlChangeCommand => Some (PController (sf_tag1 r))
  | TkControlChange => Some PControlChange
  | TkVoice => Some PProgram
  | TkTempo => Some PTempo
  | TkTimeSignature => Some PTimeSig
  | TkMetaText => Some (PText (sf_tag1 r))
  | TkPort => Some PPort
  | TkPitchBend => Some PBend
  | TkRPN => Some PRpnDirect
  | TkNRPN => Some PNrpnDirect
  | TkRPNCommand => Some (PRpn (sf_tag1 r, sf_tag2 r))
  | TkNRPNCommand => Some (PNrpn (sf_tag1 r, sf_tag2 r))
  | TkSysexReset =>
      if sf_tag1 r =? 0 then Some (PFixedSysEx GM_SYSTEM_ON)
      else if sf_tag1 r =? 1 then Some (PFixedSysEx (GS_RESET DEFAULT_DEVICE))
      else if sf_tag1 r =? 2 then Some (PFixedSysEx (XG_SYSTEM_ON DEFAULT_DEVICE)) else None
  | TkSysExCommand => if sf_tag1 r =? 1 then Some PMasterVolume else if sf_tag1 r =? 2 then Some PMasterBalance else None
  | TkGSEffect =>
      if sf_tag1 r =? 0 then Some PGsEffectDirect else if sf_tag1 r =? 17 then Some PGsScaleTuning
      else if sf_tag1 r =? 21 then Some PGsRhythm
      else if (48 <=? sf_tag1 r) && (sf_tag1 r <=? 64) then Some (PGsEffect (sf_tag1 r)) else None
  | _ => None
  end.

Definition presc_code (p : prescription) : list Z :=
  match p with
  | PController n => [1; n] | PControlChange => [2] | PProgram => [3] | PTempo => [4] | PTimeSig => [5]
  | PText t => [6; t] | PPort => [7] | PBend => [8] | PBendSmall => [9]
  | PRpn (m, l) => [10; m; l] | PNrpn (m, l) => [11; m; l] | PRpnDirect => [12] | PNrpnDirect => [13]
  | PFixedSysEx pl => 14 :: pl | PMasterVolume => [15] | PMasterBalance => [16]
  | PGsEffect a => [17; a] | PGsEffectDirect => [18] | PGsRhythm => [19] | PGsScaleTuning => [20]
  end.
Lemma presc_code_inj a b : presc_code a = presc_code b -> a = b.
Proof.
  destruct a as [| | | | | | | | | [? ?] | [? ?] | | | | | | | | |], b as [| | | | | | | | | [? ?] | [? ?] | | | | | | | | |];
    cbn [presc_code]; intros H; try discriminate; inversion H; reflexivity.
Qed.

Definition is_char_name (n : list Z) : bool := match n with [c] => (c =? 112) || (c =? 121) || (c =? 64) | _ => false end.
Definition all_prescribed_names : list (list Z) := map fst prescribed ++ concat doc_alias_groups.
Definition name_row_ok (n : list Z) : bool :=
  match prescription_of n with
  | None => true
  | Some p =>
      if is_char_name n then true
      else match find_sysfunc n sysfuncs with
           | Some r => match row_prescription r with Some q => zlist_eq (presc_code q) (presc_code p) | None => false end
           | None => false
           end
  end.
Lemma names_rows_b : forallb name_row_ok all_prescribed_names = true.
Proof. vm_compute. reflexivity. Qed.

Lemma group_of_In n gs g : group_of n gs = Some g -> In g gs /\ In n g.
Proof.
  induction gs as [|x gs IH]; cbn [group_of]; [discriminate|].
  destruct (mem_name n x) eqn:M.
  - intros H. inversion H. subst. split; [left; reflexivity|].
    unfold mem_name in M. apply existsb_exists in M. destruct M as [y [Hy E]]. apply zlist_eq_eq in E. subst. exact Hy.
  - intros H. destruct (IH H). split; [right|]; assumption.
Qed.
Lemma prescription_names n p : prescription_of n = Some p -> In n all_prescribed_names.
Proof.
  unfold prescription_of, all_prescribed_names. intros H. apply in_or_app.
  destruct (assoc n prescribed) eqn:A.
  - left. apply assoc_In in A. apply (in_map fst) in A. exact A.
  - right. destruct (group_of n doc_alias_groups) as [g|] eqn:G; [|discriminate].
    apply group_of_In in G. destruct G as [G1 G2]. apply in_concat. exists g. auto.
Qed.
(* every spelling with a prescription that is not one of p, y, @ is a row whose class is that prescription *)
Lemma prescribed_row n p : prescription_of n = Some p -> is_char_name n = false ->
  exists r, In r sysfuncs /\ sf_name r = n /\ row_prescription r = Some p.
Proof.
  intros H C. pose proof (proj1 (forallb_forall _ _) names_rows_b n (prescription_names n p H)) as U.
  unfold name_row_ok in U. rewrite H, C in U.
  destruct (find_sysfunc n sysfuncs) as [r|] eqn:F; [|discriminate].
  destruct (row_prescription r) as [q|] eqn:Q; [|discriminate].
  apply zlist_eq_eq, presc_code_inj in U. subst q. apply find_sysfunc_In in F. destruct F. exists r. auto.
Qed.

Definition meets (evs : list event) (time : Z) (ms : list msg) : Prop :=
  forallb event_ok evs = true /\ wire 0 evs = spec_items time ms.

(* tags of the rows that become data bytes are data bytes *)
Definition tags_ok (r : sysfunc) : bool :=
  if ttype_eqb (sf_type r) TkControlChangeCommand || ttype_eqb (sf_type r) TkRPNCommand || ttype_eqb (sf_type r) TkNRPNCommand
  then (0 <=? sf_tag1 r) && (sf_tag1 r <=? 127) && (0 <=? sf_tag2 r) && (sf_tag2 r <=? 127)
  else if ttype_eqb (sf_type r) TkMetaText then (1 <=? sf_tag1 r) && (sf_tag1 r <=? 7)
  else true.
Lemma tags_ok_b : forallb tags_ok sysfuncs = true.
Proof. vm_compute. reflexivity. Qed.
Lemma tags_data r : In r sysfuncs ->
  sf_type r = TkControlChangeCommand \/ sf_type r = TkRPNCommand \/ sf_type r = TkNRPNCommand ->
  0 <= sf_tag1 r <= 127 /\ 0 <= sf_tag2 r <= 127.
Proof.
  intros H T. pose proof (proj1 (forallb_forall _ _) tags_ok_b r H) as U. unfold tags_ok in U.
  destruct T as [T|[T|T]]; rewrite T in U; cbn [ttype_eqb ttype_id Z.eqb Pos.eqb orb] in U; lia.
Qed.
Lemma tags_meta r : In r sysfuncs -> sf_type r = TkMetaText -> 1 <= sf_tag1 r <= 7.
Proof.
  intros H T. pose proof (proj1 (forallb_forall _ _) tags_ok_b r H) as U. unfold tags_ok in U.
  rewrite T in U; cbn [ttype_eqb ttype_id Z.eqb Pos.eqb orb] in U; lia.
Qed.

Lemma select_data_wire time ch cc1 cc2 cc3 m l v : 0 <= time -> 0 <= ch <= 15 ->
  0 <= cc1 <= 127 -> 0 <= cc2 <= 127 -> 0 <= cc3 <= 127 -> 0 <= m <= 127 -> 0 <= l <= 127 -> 0 <= v <= 127 ->
  wire 0 (cmd_select_data time ch cc1 cc2 cc3 m l v) = [(time, MCC ch cc1 m); (0, MCC ch cc2 l); (0, MCC ch cc3 v)].
Proof. intros. ev_unfold. wire_cbn. rewrite !clamp_id by lia. repeat f_equal; lia. Qed.
Lemma voice1_wire time ch n : 0 <= time -> 0 <= ch <= 15 -> 1 <= n <= 128 ->
  wire 0 (cmd_voice time ch [n]) = [(time, MProgram ch (n - 1))].
Proof.
  intros. rewrite voice1_eq. ev_unfold. wire_cbn. rewrite (clamp_id 1 128 n) by lia. rewrite !clamp_id by lia. repeat f_equal; lia.
Qed.
Lemma voice3_wire time ch n msb lsb : 0 <= time -> 0 <= ch <= 15 -> 1 <= n <= 128 -> 0 <= msb <= 127 -> 0 <= lsb <= 127 ->
  wire 0 (cmd_voice time ch [n; msb; lsb]) = [(time, MCC ch 0 msb); (0, MCC ch 32 lsb); (0, MProgram ch (n - 1))].
Proof.
  intros. rewrite voice3_eq. ev_unfold. wire_cbn. rewrite (clamp_id 1 128 n) by lia. rewrite !clamp_id by lia. repeat f_equal; lia.
Qed.
Lemma bend_wire time ch v14 : 0 <= time -> 0 <= ch <= 15 -> 0 <= v14 <= 16383 ->
  wire 0 [ev_pitch_bend time ch v14] = [(time, MBend ch (bend_lsb v14) (bend_msb v14))].
Proof. intros. ev_unfold. wire_cbn. rewrite !clamp_id by lia. unfold bend_lsb, bend_msb. repeat f_equal; lia. Qed.
Lemma meta_meets time ty p : 0 <= time -> 0 <= ty <= 127 -> ty <> 47 -> forallb byte_ok p = true -> zlen p < 128 ->
  meets [ev_meta time 255 ty (zlen p) p] time [MMeta ty p].
Proof.
  intros Ht Hty H47 Hb Hl. pose proof (zlen_nonneg p). split.
  - unfold event_ok, ev_meta, bytes_ok, data7. cbn [forallb e_type e_data e_v1 e_v2 e_v3]. rewrite Hb.
    replace (ty =? 47) with false by lia. repeat (apply andb_true_intro; split); try reflexivity; lia.
  - ev_unfold. wire_cbn. cbn [spec_items map]. repeat f_equal; lia.
Qed.
Lemma sysex_meets time payload : 0 <= time -> forallb byte_ok payload = true -> zlen payload + 1 < 2 ^ 28 ->
  meets [ev_sysex_raw time (240 :: payload)] time [MSysEx payload].
Proof.
  intros Ht Hb Hl. split.
  - unfold event_ok, ev_sysex_raw, bytes_ok. cbn [forallb e_type e_data]. rewrite Hb.
    replace (zlen (240 :: payload)) with (zlen payload + 1) by (unfold zlen; cbn [length]; lia).
    repeat (apply andb_true_intro; split); try reflexivity; lia.
  - ev_unfold. wire_cbn. cbn [Z.eqb Pos.eqb spec_items map]. repeat f_equal; lia.
Qed.
Lemma roland_range body : 0 <= roland_checksum body < 128.
Proof. unfold roland_checksum. lia. Qed.
Lemma gs4_meets time dev a b c d : 0 <= time -> 0 <= dev <= 127 -> 0 <= a <= 127 -> 0 <= b <= 127 -> 0 <= c <= 127 -> 0 <= d <= 127 ->
  meets [gs_dt1 time dev [a; b; c; d]] time [MSysEx (GS_DT1 dev [a; b; c; d])].
Proof.
  intros. rewrite gs_dt1_eq by (try lia; repeat constructor; lia).
  apply sysex_meets; [lia| |unfold zlen; cbn; lia].
  pose proof (roland_range [a; b; c; d]). unfold GS_DT1, byte_ok. cbn [app forallb].
  repeat (apply andb_true_intro; split); try reflexivity; lia.
Qed.

(* several events at one tick: the first carries the delta, the others follow at delta 0 *)
Lemma wire_same_time time evs ms : forall tp, time <= tp ->
  Forall2 (fun e m => e_time e = time /\ wire_msgs e = [m]) evs ms ->
  wire tp evs = map (fun m => (0, m)) ms.
Proof.
  intros tp Htp F. revert tp Htp. induction F as [|e m evs ms [Ht Hm] F IH]; intros tp Htp; [reflexivity|].
  cbn [wire map]. rewrite Hm, Ht. cbn [map app]. f_equal; [f_equal; lia|]. apply IH. lia.
Qed.
Lemma wire_burst time evs ms : 0 <= time ->
  Forall2 (fun e m => e_time e = time /\ wire_msgs e = [m]) evs ms -> wire 0 evs = spec_items time ms.
Proof.
  intros Ht F. destruct F as [|e m evs ms [Ht' Hm] F]; [reflexivity|].
  cbn [wire spec_items]. rewrite Hm, Ht'. cbn [map app]. f_equal; [f_equal; lia|].
  apply (wire_same_time time); [lia|assumption].
Qed.
Lemma sysex_event_ok time pl : forallb byte_ok pl = true -> zlen pl + 1 < 2 ^ 28 -> event_ok (ev_sysex_raw time (240 :: pl)) = true.
Proof.
  intros Hb Hl. unfold event_ok, ev_sysex_raw, bytes_ok. cbn [forallb e_type e_data]. rewrite Hb.
  replace (zlen (240 :: pl)) with (zlen pl + 1) by (unfold zlen; cbn [length]; lia).
  repeat (apply andb_true_intro; split); try reflexivity; lia.
Qed.
Lemma forallb_d7_Forall l : forallb CmdSpec.d7 l = true -> Forall (fun x => 0 <= x <= 127) l.
Proof.
  induction l as [|x l IH]; cbn [forallb]; intros H; constructor.
  - apply andb_prop in H. destruct H as [H _]. unfold CmdSpec.d7 in H. lia.
  - apply IH. apply andb_prop in H. tauto.
Qed.
Lemma Forall_bytes_ok l : Forall (fun x => 0 <= x <= 127) l -> forallb byte_ok l = true.
Proof. induction 1; cbn [forallb]; [reflexivity|]. rewrite IHForall. unfold byte_ok. lia. Qed.
Lemma gs_bytes_ok dev body : 0 <= dev <= 127 -> Forall (fun x => 0 <= x <= 127) body -> forallb byte_ok (GS_DT1 dev body) = true.
Proof.
  intros Hd Hb. pose proof (roland_range body). unfold GS_DT1. rewrite !forallb_app. rewrite (Forall_bytes_ok body Hb).
  unfold byte_ok. cbn [forallb]. repeat (apply andb_true_intro; split); try reflexivity; lia.
Qed.

Lemma scale_meets time dev args : 0 <= time -> 0 <= dev <= 127 -> length args = 12%nat -> forallb CmdSpec.d7 args = true ->
  meets (map (fun ic => gs_dt1 time dev ([64; ic; 64] ++ firstn 12 args)) [17; 18; 19; 20; 21; 22; 23; 24; 25; 26; 27; 28; 29; 30; 31]) time
        (map (fun x => MSysEx (GS_DT1 dev ([64; 16 + x; 64] ++ args))) [1; 2; 3; 4; 5; 6; 7; 8; 9; 10; 11; 12; 13; 14; 15]).
Proof.
  intros Ht Hd Hl Hv. rewrite firstn_all2 by lia. apply forallb_d7_Forall in Hv.
  assert (B : forall ic, 0 <= ic <= 127 -> Forall (fun x => 0 <= x <= 127) ([64; ic; 64] ++ args)).
  { intros ic Hic. apply Forall_app. split; [repeat constructor; lia|assumption]. }
  assert (E : forall ic, 0 <= ic <= 127 ->
               gs_dt1 time dev ([64; ic; 64] ++ args) = ev_sysex_raw time (240 :: GS_DT1 dev ([64; ic; 64] ++ args))).
  { intros ic Hic. apply gs_dt1_eq; [lia|]. eapply Forall_impl; [|apply (B ic Hic)]. cbn beta. intros. lia. }
  assert (K : forall ic, 0 <= ic <= 127 -> event_ok (ev_sysex_raw time (240 :: GS_DT1 dev ([64; ic; 64] ++ args))) = true).
  { intros ic Hic. apply sysex_event_ok; [apply gs_bytes_ok; [lia|apply B; lia]|].
    unfold GS_DT1, zlen. rewrite !app_length. cbn [length]. rewrite Hl. cbn. lia. }
  cbn [map]. rewrite !E by lia. split.
  - cbn [forallb]. rewrite !K by lia. reflexivity.
  - apply wire_burst; [assumption|]. cbn [Z.add Pos.add Pos.succ].
    repeat (constructor; [split; reflexivity|]). constructor.
Qed.

Ltac split_conds S :=
  repeat match type of S with
         | (if ?c then _ else _) = Some _ => let E := fresh "E" in destruct c eqn:E; [|discriminate S]
         | match ?c with Some _ => _ | None => _ end = Some _ => let E := fresh "E" in destruct c eqn:E; [|discriminate S]
         end.
Ltac bools :=
  repeat match goal with
         | H : CmdSpec.d7 _ = true |- _ => unfold CmdSpec.d7 in H
         | H : d14s _ = true |- _ => unfold d14s in H
         | H : _ && _ = true |- _ => apply andb_prop in H; destruct H
         | H : (_ <=? _) = true |- _ => apply Z.leb_le in H
         | H : (_ <? _) = true |- _ => apply Z.ltb_lt in H
         end.
Ltac args_shape args S :=
  destruct args as [|?a0 [|?a1 [|?a2 [|?a3 ?args']]]]; cbn [spec_msgs] in S; try discriminate S.

Definition row_goal (r : sysfunc) : Prop := forall p time ch args txt ms,
  In r sysfuncs -> row_prescription r = Some p ->
  spec_msgs p ch DEFAULT_DEVICE args txt = Some ms -> 0 <= time -> 0 <= ch <= 15 -> Forall scalar txt ->
  exists evs, run_row r (mkC time ch DEFAULT_DEVICE) args txt = Ok evs /\ meets evs time ms.
Ltac rg_start T :=
  intros p time ch args txt ms Hin R S Ht Hc Hs; unfold row_prescription in R; unfold run_row;
  rewrite T in R |- *; cbn [c_time c_ch c_dev]; unfold DEFAULT_DEVICE in *.
Lemma rg_Voice r : sf_type r = TkVoice -> row_goal r.
Proof.
  intros T. rg_start T.
  inversion R; try subst p; clear R. args_shape args S.
    + split_conds S. bools. inversion S; try subst ms; clear S. eexists. split; [reflexivity|].
      split; [reflexivity|]. rewrite voice1_wire by lia. reflexivity.
    + split_conds S. bools. inversion S; try subst ms; clear S.  eexists. split; [reflexivity|].
      split; [reflexivity|]. rewrite voice3_wire by lia. reflexivity.
Qed.
Lemma rg_ControlChange r : sf_type r = TkControlChange -> row_goal r.
Proof.
  intros T. rg_start T.
  inversion R; try subst p; clear R. args_shape args S. split_conds S. bools. inversion S; try subst ms; clear S.
     eexists. split; [reflexivity|]. split; [reflexivity|]. rewrite cc_wire by lia. reflexivity.
Qed.
Lemma rg_Tempo r : sf_type r = TkTempo -> row_goal r.
Proof.
  intros T. rg_start T.
  inversion R; try subst p; clear R. args_shape args S. split_conds S. bools. inversion S; try subst ms; clear S.
    eexists. split; [reflexivity|]. rewrite tempo_eq by lia.
    destruct (tempo_payload_value a0 ltac:(lia)) as [a [b [c [E0 [Ha [Hb [Hc' Hv]]]]]]]. rewrite E0.
    change 3 with (zlen [a; b; c]). apply meta_meets; unfold META_TEMPO, zlen; cbn [length]; try lia.
    unfold byte_ok. cbn [forallb]. repeat (apply andb_true_intro; split); try reflexivity; lia.
Qed.
Lemma rg_MetaText r : sf_type r = TkMetaText -> row_goal r.
Proof.
  intros T. rg_start T.
  inversion R; try subst p; clear R. pose proof (tags_meta r Hin T) as Hty.
    destruct args; cbn [spec_msgs] in S; [|discriminate S]. inversion S; try subst ms; clear S.
    eexists. split; [reflexivity|]. rewrite meta_text_eq.
    destruct (fit_below_spec txt 128 ltac:(lia)) as [rest [E1 [E2 E3]]].
    apply meta_meets; try lia. apply utf8_ok. rewrite E1 in Hs. apply Forall_app in Hs. tauto.
Qed.
Lemma rg_Port r : sf_type r = TkPort -> row_goal r.
Proof.
  intros T. rg_start T.
  inversion R; try subst p; clear R. args_shape args S. split_conds S. bools. inversion S; try subst ms; clear S.
    eexists. split; [reflexivity|]. unfold cmd_port. rewrite as_u8_small by lia.
    change 1 with (zlen [a0]) at 1. apply meta_meets; unfold META_PORT, zlen; cbn [length]; try lia.
    unfold byte_ok. cbn [forallb]. repeat (apply andb_true_intro; split); try reflexivity; lia.
Qed.
Lemma rg_TimeSignature r : sf_type r = TkTimeSignature -> row_goal r.
Proof.
  intros T. rg_start T.
  inversion R; try subst p; clear R. args_shape args S. split_conds S. bools.
    match goal with H : timesig_payload _ _ = Some ?pl |- _ =>
      unfold timesig_payload in H; destruct (log2_denominator a1) as [lg|] eqn:L; [|discriminate H]; inversion H; try subst pl; clear H end.
    inversion S; try subst ms; clear S. eexists. split; [reflexivity|]. rewrite (timesig_eq time a0 a1 lg) by (try assumption; lia).
    apply log2_cases in L. change 4 with (zlen [a0; lg; 24; 8]) at 1.
    apply meta_meets; unfold META_TIME_SIGNATURE, zlen; cbn [length]; try lia.
    unfold byte_ok. cbn [forallb]. repeat (apply andb_true_intro; split); try reflexivity; lia.
Qed.
Lemma rg_PitchBend r : sf_type r = TkPitchBend -> row_goal r.
Proof.
  intros T. rg_start T.
  inversion R; try subst p; clear R. args_shape args S. split_conds S. bools. inversion S; try subst ms; clear S.
    unfold BEND_CENTRE in *. eexists. split; [reflexivity|]. split; [reflexivity|].
    unfold cmd_pitch_bend. rewrite bend_wire by lia. reflexivity.
Qed.
Lemma rg_GSEffect r : sf_type r = TkGSEffect -> row_goal r.
Proof.
  intros T. rg_start T.
  destruct (sf_tag1 r =? 0) eqn:G0.
    { inversion R; try subst p; clear R. args_shape args S. split_conds S. bools. inversion S; try subst ms; clear S. 
      unfold cmd_gs_effect. rewrite G0. cbn [nth]. rewrite !as_u8_small by lia.
      eexists. split; [reflexivity|]. apply gs4_meets; lia. }
    destruct (sf_tag1 r =? 17) eqn:G17.
    { inversion R; try subst p; clear R. cbn [spec_msgs] in S. split_conds S.
      apply andb_prop in E. destruct E as [E1 E2]. apply Nat.eqb_eq in E1. inversion S; try subst ms; clear S.
      unfold cmd_gs_effect. rewrite G0, G17. replace (12 <=? length args)%nat with true by (rewrite E1; reflexivity).
      eexists. split; [reflexivity|]. apply scale_meets; try lia; assumption. }
    destruct (sf_tag1 r =? 21) eqn:G21.
    { inversion R; try subst p; clear R. args_shape args S. split_conds S. bools. inversion S; try subst ms; clear S.
      unfold cmd_gs_effect. rewrite G0, G17, G21. cbn [nth]. cbv zeta.
      assert (B : as_u8 (if ch =? 9 then 0 else if ch <=? 9 then ch + 1 else ch) = gs_block ch).
      { unfold gs_block. destruct (ch =? 9) eqn:A; [reflexivity|]. replace (ch <? 9) with (ch <=? 9) by lia.
        destruct (ch <=? 9) eqn:A2; apply as_u8_small; lia. }
      rewrite B. rewrite as_u8_small by lia. rewrite (Z.add_comm 16).
      assert (0 <= gs_block ch <= 15). { unfold gs_block. destruct (ch =? 9) eqn:A3; [lia|]. destruct (ch <? 9) eqn:A4; lia. }
      eexists. split; [reflexivity|]. apply gs4_meets; lia. }
    destruct ((48 <=? sf_tag1 r) && (sf_tag1 r <=? 64)) eqn:G; [|discriminate R].
    unfold cmd_gs_effect. rewrite G0, G17, G21, G.
    inversion R; try subst p; clear R. args_shape args S. split_conds S. bools. inversion S; try subst ms; clear S.
    rewrite Z.rem_small by lia. rewrite !as_u8_small by lia.
    eexists. split; [reflexivity|]. apply gs4_meets; lia.
Qed.
Lemma rg_ControlChangeCommand r : sf_type r = TkControlChangeCommand -> row_goal r.
Proof.
  intros T. rg_start T.
  inversion R; try subst p; clear R. pose proof (tags_data r Hin (or_introl T)) as [Hg _].
    args_shape args S. split_conds S. bools. inversion S; try subst ms; clear S. 
    eexists. split; [reflexivity|]. split; [reflexivity|]. rewrite cc_wire by lia. reflexivity.
Qed.
Lemma rg_RPN r : sf_type r = TkRPN -> row_goal r.
Proof.
  intros T. rg_start T.
  inversion R; try subst p; clear R. args_shape args S. split_conds S. bools. inversion S; try subst ms; clear S. 
    eexists. split; [reflexivity|]. split; [reflexivity|]. unfold cmd_rpn_direct, cmd_rpn. rewrite select_data_wire by lia. reflexivity.
Qed.
Lemma rg_RPNCommand r : sf_type r = TkRPNCommand -> row_goal r.
Proof.
  intros T. rg_start T.
  inversion R; try subst p; clear R. pose proof (tags_data r Hin (or_intror (or_introl T))) as [Hg1 Hg2].
    args_shape args S. split_conds S. bools. inversion S; try subst ms; clear S. 
    eexists. split; [reflexivity|]. split; [reflexivity|]. unfold cmd_rpn. rewrite select_data_wire by lia. reflexivity.
Qed.
Lemma rg_NRPN r : sf_type r = TkNRPN -> row_goal r.
Proof.
  intros T. rg_start T.
  inversion R; try subst p; clear R. args_shape args S. split_conds S. bools. inversion S; try subst ms; clear S. 
    eexists. split; [reflexivity|]. split; [reflexivity|]. unfold cmd_nrpn_direct, cmd_nrpn. rewrite select_data_wire by lia. reflexivity.
Qed.
Lemma rg_NRPNCommand r : sf_type r = TkNRPNCommand -> row_goal r.
Proof.
  intros T. rg_start T.
  inversion R; try subst p; clear R. pose proof (tags_data r Hin (or_intror (or_intror T))) as [Hg1 Hg2].
    args_shape args S. split_conds S. bools. inversion S; try subst ms; clear S. 
    eexists. split; [reflexivity|]. split; [reflexivity|]. unfold cmd_nrpn. rewrite select_data_wire by lia. reflexivity.
Qed.
Lemma rg_SysexReset r : sf_type r = TkSysexReset -> row_goal r.
Proof.
  intros T. rg_start T.
  destruct (sf_tag1 r =? 0) eqn:G0; [|destruct (sf_tag1 r =? 1) eqn:G1; [|destruct (sf_tag1 r =? 2) eqn:G2; [|discriminate R]]];
      inversion R; try subst p; clear R; cbn [spec_msgs] in S; inversion S; try subst ms; clear S;
      (eexists; split; [reflexivity|]); unfold cmd_sysex_reset; rewrite ?G0, ?G1, ?G2; apply sysex_meets; try lia; reflexivity.
Qed.
Lemma rg_SysExCommand r : sf_type r = TkSysExCommand -> row_goal r.
Proof.
  intros T. rg_start T.
  destruct (sf_tag1 r =? 1) eqn:G1; [|destruct (sf_tag1 r =? 2) eqn:G2; [|discriminate R]];
      inversion R; try subst p; clear R; args_shape args S; split_conds S; bools; inversion S; try subst ms; clear S.
    + apply Z.eqb_eq in G1. rewrite G1.  rewrite master_volume_eq by lia. eexists. split; [reflexivity|].
      apply sysex_meets; [lia| |reflexivity]. unfold MASTER_VOLUME, byte_ok. cbn [forallb].
      repeat (apply andb_true_intro; split); try reflexivity; lia.
    + apply Z.eqb_eq in G2. rewrite G2. rewrite master_balance_eq by lia. eexists. split; [reflexivity|].
      apply sysex_meets; [lia| |reflexivity]. unfold MASTER_BALANCE, BEND_CENTRE, byte_ok. cbn [forallb].
      repeat (apply andb_true_intro; split); try reflexivity; lia.
Qed.

Theorem row_meets r p st args txt ms :
  In r sysfuncs -> row_prescription r = Some p ->
  spec_msgs p (c_ch st) (c_dev st) args txt = Some ms ->
  0 <= c_time st -> 0 <= c_ch st <= 15 -> c_dev st = DEFAULT_DEVICE -> Forall scalar txt ->
  exists evs, run_row r st args txt = Ok evs /\ meets evs (c_time st) ms.
Proof.
  intros Hin R S Ht Hc Hd Hs. destruct st as [time ch dev]. cbn [c_time c_ch c_dev] in *. subst dev.
  assert (G : row_goal r); [|exact (G p time ch args txt ms Hin R S Ht Hc Hs)].
  clear - R. unfold row_prescription in R.
  destruct (sf_type r) eqn:T; try discriminate R; clear R.
  all: first [ exact (rg_Voice r T) | exact (rg_ControlChange r T) | exact (rg_Tempo r T) | exact (rg_MetaText r T)
             | exact (rg_Port r T) | exact (rg_TimeSignature r T) | exact (rg_PitchBend r T) | exact (rg_GSEffect r T)
             | exact (rg_ControlChangeCommand r T) | exact (rg_RPN r T) | exact (rg_RPNCommand r T) | exact (rg_NRPN r T)
             | exact (rg_NRPNCommand r T) | exact (rg_SysexReset r T) | exact (rg_SysExCommand r T) ].
Qed.

Lemma run_any_row n st args txt : is_char_name n = false -> run_any n st args txt = run_command n st args txt.
Proof.
  unfold is_char_name, run_any. destruct n as [|c [|d n]]; try reflexivity. intros H. rewrite H. reflexivity.
Qed.
Lemma char_names n : is_char_name n = true -> n = [112] \/ n = [121] \/ n = [64].
Proof.
  unfold is_char_name. destruct n as [|c [|d n]]; try discriminate. intros H.
  destruct (c =? 112) eqn:A; [left; f_equal; lia|]. destruct (c =? 121) eqn:B; [right; left; f_equal; lia|].
  destruct (c =? 64) eqn:C; [right; right; f_equal; lia|]. discriminate.
Qed.
Lemma char_prescriptions :
  prescription_of [112] = Some PBendSmall /\ prescription_of [121] = Some PControlChange /\ prescription_of [64] = Some PProgram.
Proof. vm_compute. auto. Qed.

Lemma char_meets n p st args txt ms : is_char_name n = true ->
  prescription_of n = Some p -> spec_msgs p (c_ch st) (c_dev st) args txt = Some ms ->
  0 <= c_time st -> 0 <= c_ch st <= 15 ->
  exists evs, run_any n st args txt = Ok evs /\ meets evs (c_time st) ms.
Proof.
  intros C P S Ht Hc. destruct st as [time ch dev]. cbn [c_time c_ch c_dev] in *.
  destruct char_prescriptions as [P1 [P2 P3]].
  destruct (char_names n C) as [-> | [-> | ->]].
  - rewrite P1 in P. inversion P; subst p; clear P. args_shape args S. split_conds S. bools. inversion S; subst ms; clear S.
    eexists. split; [reflexivity|]. split; [reflexivity|]. unfold cmd_pitch_bend. cbn [c_time c_ch]. rewrite bend_wire by lia.
    reflexivity.
  - rewrite P2 in P. inversion P; subst p; clear P. args_shape args S. split_conds S. bools. inversion S; subst ms; clear S.
    eexists. split; [reflexivity|]. split; [reflexivity|]. cbn [c_time c_ch]. rewrite cc_wire by lia. reflexivity.
  - rewrite P3 in P. inversion P; subst p; clear P. args_shape args S.
    + split_conds S. bools. inversion S; subst ms; clear S. eexists. split; [reflexivity|].
      split; [reflexivity|]. cbn [c_time c_ch]. rewrite voice1_wire by lia. reflexivity.
    + split_conds S. bools. inversion S; subst ms; clear S. eexists. split; [reflexivity|].
      split; [reflexivity|]. cbn [c_time c_ch]. rewrite voice3_wire by lia. reflexivity.
Qed.

(* for every spelling the documentation / the standards give a prescription for and every argument
   tuple in the documented domain, the model's events denote exactly the prescribed messages *)
Theorem model_meets_prescription n p st args txt ms :
  prescription_of n = Some p ->
  spec_msgs p (c_ch st) (c_dev st) args txt = Some ms ->
  0 <= c_time st < 2 ^ 28 -> 0 <= c_ch st <= 15 -> c_dev st = DEFAULT_DEVICE -> Forall scalar txt ->
  exists evs, run_any n st args txt = Ok evs /\
    generate_track evs = Ok (enc_track (spec_items (c_time st) ms) ++ EOT) /\
    decode_track (enc_track (spec_items (c_time st) ms) ++ EOT) = Some (spec_items (c_time st) ms ++ [EOTmsg]).
Proof.
  intros P S Ht Hc Hd Hs.
  assert (M : exists evs, run_any n st args txt = Ok evs /\ meets evs (c_time st) ms).
  { destruct (is_char_name n) eqn:C.
    - apply (char_meets n p st args txt ms C P S); lia.
    - destruct (prescribed_row n p P C) as [r [Hin [Hn R]]].
      rewrite run_any_row by assumption. subst n. rewrite run_row_of by assumption.
      apply (row_meets r p st args txt ms Hin R S); try assumption; lia. }
  destruct M as [evs [E [Hok W]]]. exists evs. split; [exact E|].
  apply track_of_wire; try assumption.
  unfold spec_items. destruct ms as [|m ms']; [reflexivity|]. apply deltas_one. exact Ht.
Qed.
