(* C15: lemmas about the command model (model/Cmd.v), the generated tables (gen/) and the
   prescription (spec/GmSpec.v, spec/CmdSpec.v). *)
From Sakura.Model Require Import Base Event Utf8 Cmd Writer.
From Sakura.Spec Require Import SmfSpec TrackSpec GmSpec Utf8Spec CmdSpec.
From Sakura.Gen Require Import SysFuncTable VoiceTable DocTable.
From Sakura.Proofs Require Import VlqP WriterP.
Ltac Zify.zify_post_hook ::= Z.div_mod_to_equations.

(* ------------------------------------------------------------------------------------------ *)
(* equality tests                                                                              *)
(* ------------------------------------------------------------------------------------------ *)
Lemma zlist_eq_eq a : forall b, zlist_eq a b = true -> a = b.
Proof.
  induction a as [|x a IH]; intros [|y b] H; cbn in H; try discriminate; auto.
  apply andb_prop in H. destruct H as [H1 H2]. apply Z.eqb_eq in H1. f_equal; auto.
Qed.
Lemma zlist_eq_refl a : zlist_eq a a = true.
Proof. induction a; cbn; auto. rewrite Z.eqb_refl. auto. Qed.
Lemma list_eqb_eq a : forall b, list_eqb a b = true -> a = b.
Proof.
  induction a as [|x a IH]; intros [|y b] H; cbn in H; try discriminate; auto.
  apply andb_prop in H. destruct H as [H1 H2]. apply Z.eqb_eq in H1. f_equal; auto.
Qed.

Definition ttype_of_id (z : Z) : ttype := nth (Z.to_nat z) all_ttypes TkUnimplemented.
Lemma ttype_of_id_id t : ttype_of_id (ttype_id t) = t.
Proof. destruct t; reflexivity. Qed.
Lemma ttype_eqb_eq a b : ttype_eqb a b = true -> a = b.
Proof.
  unfold ttype_eqb. intros H. apply Z.eqb_eq in H.
  rewrite <- (ttype_of_id_id a), <- (ttype_of_id_id b), H. reflexivity.
Qed.
Lemma ttype_eqb_refl a : ttype_eqb a a = true.
Proof. unfold ttype_eqb. apply Z.eqb_refl. Qed.

Lemma assoc_In {A} k (l : list (list Z * A)) v : assoc k l = Some v -> In (k, v) l.
Proof.
  induction l as [|[k' v'] l IH]; cbn; [discriminate|].
  destruct (zlist_eq k k') eqn:E.
  - intros H. inversion H. subst. apply zlist_eq_eq in E. subst. auto.
  - auto.
Qed.

Lemma find_sysfunc_In n l r : find_sysfunc n l = Some r -> In r l /\ sf_name r = n.
Proof.
  induction l as [|x l IH]; cbn; [discriminate|].
  destruct (list_eqb n (sf_name x)) eqn:E.
  - intros H. inversion H. subst. apply list_eqb_eq in E. auto.
  - intros H. destruct (IH H). auto.
Qed.

(* ------------------------------------------------------------------------------------------ *)
(* the table: names are unique, so a row is what its name looks up                             *)
(* ------------------------------------------------------------------------------------------ *)
Definition row_eqb (a b : sysfunc) : bool :=
  list_eqb (sf_name a) (sf_name b) && ttype_eqb (sf_type a) (sf_type b) && (sf_arg a =? sf_arg b)
  && (sf_tag1 a =? sf_tag1 b) && (sf_tag2 a =? sf_tag2 b).
Lemma row_eqb_eq a b : row_eqb a b = true -> a = b.
Proof.
  unfold row_eqb. intros H. repeat (apply andb_prop in H; destruct H as [H ?]).
  destruct a, b; cbn in *. apply list_eqb_eq in H. apply ttype_eqb_eq in H3.
  repeat match goal with H : (_ =? _) = true |- _ => apply Z.eqb_eq in H end. subst. reflexivity.
Qed.
Definition row_unique (r : sysfunc) : bool :=
  match find_sysfunc (sf_name r) sysfuncs with Some r' => row_eqb r r' | None => false end.
Lemma rows_unique_b : forallb row_unique sysfuncs = true.
Proof. vm_compute. reflexivity. Qed.
Lemma find_row r : In r sysfuncs -> find_sysfunc (sf_name r) sysfuncs = Some r.
Proof.
  intros H. pose proof (proj1 (forallb_forall _ _) rows_unique_b r H) as U. unfold row_unique in U.
  destruct (find_sysfunc (sf_name r) sysfuncs); [|discriminate]. apply row_eqb_eq in U. subst. reflexivity.
Qed.
Lemma sysfunc_count_ok : zlen sysfuncs = sysfunc_count.
Proof. vm_compute. reflexivity. Qed.

(* ------------------------------------------------------------------------------------------ *)
(* table theorems                                                                              *)
(* ------------------------------------------------------------------------------------------ *)
(* controller commands: code = command.md's CC#n = the MIDI standard *)
Definition cc_row_ok (r : sysfunc) : bool :=
  if ttype_eqb (sf_type r) TkControlChangeCommand then
    match assoc (sf_name r) doc_cc, assoc (sf_name r) named_controllers with
    | Some d, Some g => (sf_tag1 r =? d) && (d =? g)
    | _, _ => false
    end
  else true.
Lemma cc_rows_ok_b : forallb cc_row_ok sysfuncs = true.
Proof. vm_compute. reflexivity. Qed.
Lemma cc_numbers r : In r sysfuncs -> sf_type r = TkControlChangeCommand ->
  assoc (sf_name r) doc_cc = Some (sf_tag1 r) /\ assoc (sf_name r) named_controllers = Some (sf_tag1 r).
Proof.
  intros H T. pose proof (proj1 (forallb_forall _ _) cc_rows_ok_b r H) as U. unfold cc_row_ok in U.
  rewrite T in U. rewrite ttype_eqb_refl in U.
  destruct (assoc (sf_name r) doc_cc); [|discriminate].
  destruct (assoc (sf_name r) named_controllers); [|discriminate].
  apply andb_prop in U. destruct U as [U1 U2]. apply Z.eqb_eq in U1. apply Z.eqb_eq in U2. subst. auto.
Qed.
(* conversely every documented CC#n row is such a command *)
Definition doc_cc_ok (p : list Z * Z) : bool :=
  match find_sysfunc (fst p) sysfuncs with
  | Some r => ttype_eqb (sf_type r) TkControlChangeCommand && (sf_tag1 r =? snd p)
  | None => false
  end.
Lemma doc_cc_ok_b : forallb doc_cc_ok doc_cc = true.
Proof. vm_compute. reflexivity. Qed.
Lemma doc_cc_defined n v : In (n, v) doc_cc ->
  exists r, In r sysfuncs /\ sf_name r = n /\ sf_type r = TkControlChangeCommand /\ sf_tag1 r = v.
Proof.
  intros H. pose proof (proj1 (forallb_forall _ _) doc_cc_ok_b _ H) as U. unfold doc_cc_ok in U. cbn [fst snd] in U.
  destruct (find_sysfunc n sysfuncs) as [r|] eqn:F; [|discriminate].
  apply find_sysfunc_In in F. destruct F. apply andb_prop in U. destruct U as [U1 U2].
  apply ttype_eqb_eq in U1. apply Z.eqb_eq in U2. exists r. auto.
Qed.

(* alias groups of the documentation *)
Definition same_row (a b : sysfunc) : bool :=
  ttype_eqb (sf_type a) (sf_type b) && (sf_arg a =? sf_arg b) && (sf_tag1 a =? sf_tag1 b) && (sf_tag2 a =? sf_tag2 b).
Definition pair_ok (a b : list Z) : bool :=
  match find_sysfunc a sysfuncs, find_sysfunc b sysfuncs with
  | Some ra, Some rb => same_row ra rb
  | _, _ => true
  end.
Definition group_ok (g : list (list Z)) : bool := forallb (fun a => forallb (pair_ok a) g) g.
Fixpoint group_eqb (a b : list (list Z)) : bool :=
  match a, b with
  | [], [] => true
  | x :: a', y :: b' => zlist_eq x y && group_eqb a' b'
  | _, _ => false
  end.
Lemma group_eqb_eq a : forall b, group_eqb a b = true -> a = b.
Proof.
  induction a as [|x a IH]; intros [|y b] H; cbn in H; try discriminate; auto.
  apply andb_prop in H. destruct H as [H1 H2]. apply zlist_eq_eq in H1. f_equal; auto.
Qed.
Lemma group_eqb_refl a : group_eqb a a = true.
Proof. induction a; cbn; auto. rewrite zlist_eq_refl. auto. Qed.
Definition mem_group (g : list (list Z)) (l : list (list (list Z))) : bool := existsb (group_eqb g) l.
Lemma mem_group_In g l : mem_group g l = true <-> In g l.
Proof.
  unfold mem_group. rewrite existsb_exists. split.
  - intros [x [Hx E]]. apply group_eqb_eq in E. subst. auto.
  - intros H. exists g. split; auto. apply group_eqb_refl.
Qed.

Lemma aliases_from_check (exceptions : list (list (list Z))) :
  forallb (fun g => mem_group g exceptions || group_ok g) doc_alias_groups = true ->
  forall g, In g doc_alias_groups -> ~ In g exceptions ->
  forall a b ra rb, In a g -> In b g ->
    find_sysfunc a sysfuncs = Some ra -> find_sysfunc b sysfuncs = Some rb ->
    sf_type ra = sf_type rb /\ sf_arg ra = sf_arg rb /\ sf_tag1 ra = sf_tag1 rb /\ sf_tag2 ra = sf_tag2 rb.
Proof.
  intros C g Hg Hn a b ra rb Ha Hb Fa Fb.
  pose proof (proj1 (forallb_forall _ _) C g Hg) as U. cbn beta in U.
  destruct (mem_group g exceptions) eqn:M.
  - apply mem_group_In in M. contradiction.
  - cbn [orb] in U. unfold group_ok in U.
    pose proof (proj1 (forallb_forall _ _) U a Ha) as U1. cbn beta in U1.
    pose proof (proj1 (forallb_forall _ _) U1 b Hb) as U2. unfold pair_ok in U2. rewrite Fa, Fb in U2.
    unfold same_row in U2. repeat (apply andb_prop in U2; destruct U2 as [U2 ?]).
    apply ttype_eqb_eq in U2. repeat match goal with H : (_ =? _) = true |- _ => apply Z.eqb_eq in H end. auto.
Qed.
Lemma exceptions_from_check (exceptions : list (list (list Z))) :
  forallb (fun g => mem_group g doc_alias_groups && negb (group_ok g)) exceptions = true ->
  forall g, In g exceptions -> In g doc_alias_groups /\ group_ok g = false.
Proof.
  intros C g Hg. pose proof (proj1 (forallb_forall _ _) C g Hg) as U. cbn beta in U.
  apply andb_prop in U. destruct U as [U1 U2]. apply mem_group_In in U1. apply negb_true_iff in U2. auto.
Qed.

(* every documented command name except the listed ones is a row of the table *)
Definition name_defined (n : list Z) : bool := match find_sysfunc n sysfuncs with Some _ => true | None => false end.
Lemma defined_from_check (exceptions : list (list Z)) :
  forallb (fun n => existsb (zlist_eq n) exceptions || name_defined n) doc_command_names = true ->
  forall n, In n doc_command_names -> ~ In n exceptions -> exists r, In r sysfuncs /\ sf_name r = n.
Proof.
  intros C n Hn He. pose proof (proj1 (forallb_forall _ _) C n Hn) as U. cbn beta in U.
  destruct (existsb (zlist_eq n) exceptions) eqn:M.
  - apply existsb_exists in M. destruct M as [x [Hx E]]. apply zlist_eq_eq in E. subst. contradiction.
  - cbn [orb] in U. unfold name_defined in U. destruct (find_sysfunc n sysfuncs) as [r|] eqn:F; [|discriminate].
    apply find_sysfunc_In in F. exists r. auto.
Qed.

(* voices *)
Definition pair_in (t : list (list Z * Z)) (p : list Z * Z) : bool :=
  match assoc (fst p) t with Some v => v =? snd p | None => false end.
Lemma pair_in_ok t l : forallb (pair_in t) l = true -> forall n v, In (n, v) l -> assoc n t = Some v.
Proof.
  intros C n v H. pose proof (proj1 (forallb_forall _ _) C _ H) as U. unfold pair_in in U. cbn [fst snd] in U.
  destruct (assoc n t); [|discriminate]. apply Z.eqb_eq in U. subst. reflexivity.
Qed.
Definition pair_agrees (t : list (list Z * Z)) (p : list Z * Z) : bool :=
  match assoc (fst p) t with Some v => v =? snd p | None => true end.
Lemma pair_agrees_ok t l : forallb (pair_agrees t) l = true ->
  forall n v d, In (n, v) l -> assoc n t = Some d -> d = v.
Proof.
  intros C n v d H A. pose proof (proj1 (forallb_forall _ _) C _ H) as U. unfold pair_agrees in U. cbn [fst snd] in U.
  rewrite A in U. apply Z.eqb_eq in U. auto.
Qed.

Definition doc_all_voices : list (list Z * Z) := doc_voices ++ doc_drumsets ++ doc_drumnotes.
Lemma doc_voices_defined_b : forallb (pair_in voices) doc_all_voices = true.
Proof. vm_compute. reflexivity. Qed.
Lemma voices_agree_doc_b : forallb (pair_agrees doc_all_voices) voices = true.
Proof. vm_compute. reflexivity. Qed.
Lemma doc_values_agree_b : forallb (pair_agrees voices) doc_values = true.
Proof. vm_compute. reflexivity. Qed.
Lemma gm_programs_b : forallb (pair_in voices) gm_programs && forallb (pair_in doc_voices) gm_programs = true.
Proof. vm_compute. reflexivity. Qed.
Lemma gm_percussion_b : forallb (pair_in voices) gm_percussion && forallb (pair_in doc_drumnotes) gm_percussion = true.
Proof. vm_compute. reflexivity. Qed.
Lemma doc_voices_complete : map snd doc_voices = map Z.of_nat (seq 1 128).
Proof. vm_compute. reflexivity. Qed.

Lemma voices_thm :
  (forall n v, In (n, v) doc_all_voices -> assoc n voices = Some v) /\
  (forall n v d, In (n, v) voices -> assoc n doc_all_voices = Some d -> d = v) /\
  (forall n v d, In (n, v) doc_values -> assoc n voices = Some d -> d = v) /\
  (forall n v, In (n, v) gm_programs -> assoc n voices = Some v /\ assoc n doc_voices = Some v) /\
  (forall n v, In (n, v) gm_percussion -> assoc n voices = Some v /\ assoc n doc_drumnotes = Some v) /\
  map snd doc_voices = map Z.of_nat (seq 1 128).
Proof.
  pose proof gm_programs_b as G. apply andb_prop in G. destruct G as [G1 G2].
  pose proof gm_percussion_b as P. apply andb_prop in P. destruct P as [P1 P2].
  split; [|split; [|split; [|split; [|split]]]]; try (intros n v H; split).
  - apply pair_in_ok, doc_voices_defined_b.
  - apply pair_agrees_ok, voices_agree_doc_b.
  - apply pair_agrees_ok, doc_values_agree_b.
  - exact (pair_in_ok _ _ G1 n v H).
  - exact (pair_in_ok _ _ G2 n v H).
  - exact (pair_in_ok _ _ P1 n v H).
  - exact (pair_in_ok _ _ P2 n v H).
  - apply doc_voices_complete.
Qed.

(* RPN / NRPN addresses *)
Definition rpn_row_ok (r : sysfunc) : bool :=
  if ttype_eqb (sf_type r) TkRPNCommand then
    match assoc (sf_name r) named_rpn with Some (m, l) => (sf_tag1 r =? m) && (sf_tag2 r =? l) | None => false end
  else if ttype_eqb (sf_type r) TkNRPNCommand then
    match assoc (sf_name r) named_nrpn with Some (m, l) => (sf_tag1 r =? m) && (sf_tag2 r =? l) | None => false end
  else true.
Lemma rpn_rows_ok_b : forallb rpn_row_ok sysfuncs = true.
Proof. vm_compute. reflexivity. Qed.
Definition named_param_ok (ty : ttype) (p : list Z * (Z * Z)) : bool :=
  match find_sysfunc (fst p) sysfuncs with
  | Some r => ttype_eqb (sf_type r) ty && (sf_tag1 r =? fst (snd p)) && (sf_tag2 r =? snd (snd p))
  | None => false
  end.
Lemma named_params_b : forallb (named_param_ok TkRPNCommand) named_rpn && forallb (named_param_ok TkNRPNCommand) named_nrpn = true.
Proof. vm_compute. reflexivity. Qed.
Lemma rpn_addresses :
  (forall r, In r sysfuncs -> sf_type r = TkRPNCommand -> assoc (sf_name r) named_rpn = Some (sf_tag1 r, sf_tag2 r)) /\
  (forall r, In r sysfuncs -> sf_type r = TkNRPNCommand -> assoc (sf_name r) named_nrpn = Some (sf_tag1 r, sf_tag2 r)) /\
  (forall n a, In (n, a) named_rpn -> exists r, In r sysfuncs /\ sf_name r = n /\ sf_type r = TkRPNCommand /\ (sf_tag1 r, sf_tag2 r) = a) /\
  (forall n a, In (n, a) named_nrpn -> exists r, In r sysfuncs /\ sf_name r = n /\ sf_type r = TkNRPNCommand /\ (sf_tag1 r, sf_tag2 r) = a).
Proof.
  pose proof named_params_b as N. apply andb_prop in N. destruct N as [N1 N2].
  repeat split.
  - intros r H T. pose proof (proj1 (forallb_forall _ _) rpn_rows_ok_b r H) as U. unfold rpn_row_ok in U.
    rewrite T in U. rewrite ttype_eqb_refl in U. destruct (assoc (sf_name r) named_rpn) as [[m l]|]; [|discriminate].
    apply andb_prop in U. destruct U as [U1 U2]. apply Z.eqb_eq in U1. apply Z.eqb_eq in U2. subst. reflexivity.
  - intros r H T. pose proof (proj1 (forallb_forall _ _) rpn_rows_ok_b r H) as U. unfold rpn_row_ok in U.
    rewrite T in U. change (ttype_eqb TkNRPNCommand TkRPNCommand) with false in U. rewrite ttype_eqb_refl in U.
    destruct (assoc (sf_name r) named_nrpn) as [[m l]|]; [|discriminate].
    apply andb_prop in U. destruct U as [U1 U2]. apply Z.eqb_eq in U1. apply Z.eqb_eq in U2. subst. reflexivity.
  - intros n [m l] H. pose proof (proj1 (forallb_forall _ _) N1 _ H) as U. unfold named_param_ok in U. cbn [fst snd] in U.
    destruct (find_sysfunc n sysfuncs) as [r|] eqn:F; [|discriminate]. apply find_sysfunc_In in F. destruct F.
    repeat (apply andb_prop in U; destruct U as [U ?]). apply ttype_eqb_eq in U.
    repeat match goal with H : (_ =? _) = true |- _ => apply Z.eqb_eq in H end. subst. exists r. auto.
  - intros n [m l] H. pose proof (proj1 (forallb_forall _ _) N2 _ H) as U. unfold named_param_ok in U. cbn [fst snd] in U.
    destruct (find_sysfunc n sysfuncs) as [r|] eqn:F; [|discriminate]. apply find_sysfunc_In in F. destruct F.
    repeat (apply andb_prop in U; destruct U as [U ?]). apply ttype_eqb_eq in U.
    repeat match goal with H : (_ =? _) = true |- _ => apply Z.eqb_eq in H end. subst. exists r. auto.
Qed.

(* text meta types, resets, GS effect addresses: the row's tag is the standard's number *)
Definition tag_row_ok (ty : ttype) (t : list (list Z * Z)) (r : sysfunc) : bool :=
  if ttype_eqb (sf_type r) ty then match assoc (sf_name r) t with Some v => sf_tag1 r =? v | None => false end else true.
Lemma tag_row_from_check ty t : forallb (tag_row_ok ty t) sysfuncs = true ->
  forall r, In r sysfuncs -> sf_type r = ty -> assoc (sf_name r) t = Some (sf_tag1 r).
Proof.
  intros C r H T. pose proof (proj1 (forallb_forall _ _) C r H) as U. unfold tag_row_ok in U.
  rewrite T, ttype_eqb_refl in U. destruct (assoc (sf_name r) t); [|discriminate]. apply Z.eqb_eq in U. subst. reflexivity.
Qed.
Lemma meta_rows_b : forallb (tag_row_ok TkMetaText named_text_meta) sysfuncs = true.
Proof. vm_compute. reflexivity. Qed.
Lemma meta_types r : In r sysfuncs -> sf_type r = TkMetaText -> assoc (sf_name r) named_text_meta = Some (sf_tag1 r).
Proof. apply tag_row_from_check, meta_rows_b. Qed.
