(* C05 - from a flat token list to the structured program: a total parser of the loop brackets, sound and complete for
   LoopSpec.flatten, so that "the brackets of this token list are balanced" is a computable predicate and the generic
   theorem (flat machine = structured meaning) applies to what the lexer produced.  Then: the two shapes of the property
   on token lists, the machine on the simplest unbalanced lists, and a state-free bound on the machine steps. *)
From Coq Require Import List ZArith Bool Lia.
From Sakura.Model Require Import LoopMachine.
From Sakura.Spec Require Import LoopSpec.
From Sakura.Proofs Require Import LoopP.
Import ListNotations.

(* ------------------------------------------------------------------------------------------------ *)
(* 1. the parser                                                                                      *)
Section Parse.
  Variable D : Type.
  Notation tokl := (list (ltok D)).

  (* a sequence of items up to the first ':' or ']' that belongs to an enclosing loop (or the end of the text);
     the fuel is one more than the number of tokens *)
  Fixpoint parse_seq (fuel : nat) (toks : tokl) : option (prog D * tokl) :=
    match fuel with
    | O => None
    | S f =>
        match toks with
        | [] => Some (PNil, [])
        | LOther d :: r =>
            match parse_seq f r with
            | Some (p, rest) => Some (PCons (Leaf d) p, rest)
            | None => None
            end
        | LBegin n :: r =>
            match parse_seq f r with
            | Some (a, LEnd :: r2) =>
                match parse_seq f r2 with
                | Some (p, rest) => Some (PCons (Loop n a None) p, rest)
                | None => None
                end
            | Some (a, LBreak :: r2) =>
                match parse_seq f r2 with
                | Some (b, LEnd :: r4) =>
                    match parse_seq f r4 with
                    | Some (p, rest) => Some (PCons (Loop n a (Some b)) p, rest)
                    | None => None
                    end
                | _ => None
                end
            | _ => None
            end
        | LBreak :: _ | LEnd :: _ => Some (PNil, toks)
        end
    end.

  Definition parse_loops (toks : tokl) : option (prog D) :=
    match parse_seq (S (length toks)) toks with
    | Some (p, []) => Some p
    | _ => None
    end.
  Definition balanced (toks : tokl) : bool := match parse_loops toks with Some _ => true | None => false end.

  (* where a sequence stops *)
  Definition stop (rest : tokl) : Prop :=
    match rest with [] | LBreak :: _ | LEnd :: _ => True | _ => False end.

  Lemma parse_seq_sound : forall fuel toks p rest,
    parse_seq fuel toks = Some (p, rest) -> toks = flatten p ++ rest /\ stop rest.
  Proof.
    induction fuel as [|f IH]; intros toks p rest H; [discriminate H|]. cbn [parse_seq] in H.
    destruct toks as [|t r]; [injection H as <- <-; split; [reflexivity|exact I]|].
    destruct t as [n| | |d].
    - destruct (parse_seq f r) as [[a r1]|] eqn:E1; [|discriminate H].
      destruct (IH _ _ _ E1) as [-> _]. destruct r1 as [|t1 r2]; [discriminate H|].
      destruct t1 as [n1| | |d1]; try discriminate H.
      + destruct (parse_seq f r2) as [[b r3]|] eqn:E2; [|discriminate H].
        destruct (IH _ _ _ E2) as [-> _]. destruct r3 as [|t3 r4]; [discriminate H|].
        destruct t3 as [n3| | |d3]; try discriminate H.
        destruct (parse_seq f r4) as [[q rest']|] eqn:E3; [|discriminate H].
        destruct (IH _ _ _ E3) as [-> S3]. injection H as <- <-. split; [|exact S3].
        rewrite flatten_cons, flat_item_some. norm_list. reflexivity.
      + destruct (parse_seq f r2) as [[q rest']|] eqn:E2; [|discriminate H].
        destruct (IH _ _ _ E2) as [-> S2]. injection H as <- <-. split; [|exact S2].
        rewrite flatten_cons, flat_item_none. norm_list. reflexivity.
    - injection H as <- <-. split; [reflexivity|exact I].
    - injection H as <- <-. split; [reflexivity|exact I].
    - destruct (parse_seq f r) as [[q rest']|] eqn:E1; [|discriminate H].
      destruct (IH _ _ _ E1) as [-> S1]. injection H as <- <-. split; [reflexivity|exact S1].
  Qed.

  Theorem parse_loops_sound toks p : parse_loops toks = Some p -> flatten p = toks.
  Proof.
    unfold parse_loops. destruct (parse_seq (S (length toks)) toks) as [[q rest]|] eqn:E; [|discriminate].
    destruct rest; [|discriminate]. intros H. injection H as <-.
    destruct (parse_seq_sound _ _ _ _ E) as [-> _]. rewrite app_nil_r. reflexivity.
  Qed.

  (* completeness, with the fuel made explicit *)
  Definition complete_prog (p : prog D) : Prop :=
    forall fuel rest, stop rest -> length (flatten p) + length rest < fuel -> parse_seq fuel (flatten p ++ rest) = Some (p, rest).
  Definition complete_item (i : item D) : Prop :=
    forall fuel p rest, complete_prog p -> stop rest -> length (flat_item i) + length (flatten p) + length rest < fuel ->
      parse_seq fuel (flat_item i ++ flatten p ++ rest) = Some (PCons i p, rest).

  Lemma parse_seq_complete : (forall i, complete_item i) /\ (forall p, complete_prog p).
  Proof.
    apply item_prog_mutind.
    - (* a non-loop token *)
      intros d fuel p rest Hp Hs Hf. destruct fuel as [|f]; [lia|]. cbn [flat_item app parse_seq length] in *.
      rewrite Hp by (assumption || lia). reflexivity.
    - (* [n a] *)
      intros n a Ha fuel p rest Hp Hs Hf. destruct fuel as [|f]; [lia|].
      rewrite flat_item_none in Hf |- *. cbn [length] in Hf. rewrite ?app_length in Hf. cbn [length] in Hf.
      norm_list. cbn [parse_seq].
      rewrite (Ha f (LEnd :: flatten p ++ rest)); [|exact I|cbn [length]; rewrite ?app_length; lia].
      rewrite Hp by (assumption || lia). reflexivity.
    - (* [n a : b] *)
      intros n a b Ha Hb fuel p rest Hp Hs Hf. destruct fuel as [|f]; [lia|].
      rewrite flat_item_some in Hf |- *. cbn [length] in Hf. rewrite ?app_length in Hf. cbn [length] in Hf.
      rewrite ?app_length in Hf. cbn [length] in Hf.
      norm_list. cbn [parse_seq].
      rewrite (Ha f (LBreak :: flatten b ++ LEnd :: flatten p ++ rest)); [|exact I|cbn [length]; rewrite ?app_length; cbn [length]; rewrite ?app_length; lia].
      rewrite (Hb f (LEnd :: flatten p ++ rest)); [|exact I|cbn [length]; rewrite ?app_length; lia].
      rewrite Hp by (assumption || lia). reflexivity.
    - (* the empty program *)
      intros fuel rest Hs Hf. destruct fuel as [|f]; [lia|]. cbn [flatten app parse_seq].
      destruct rest as [|t r]; [reflexivity|]. destruct t; try reflexivity; destruct Hs.
    - (* an item, then a program *)
      intros i p Hi Hp fuel rest Hs Hf. rewrite flatten_cons in Hf |- *. rewrite <- app_assoc.
      apply Hi; [exact Hp|exact Hs|]. rewrite app_length in Hf. lia.
  Qed.

  Theorem parse_loops_complete p : parse_loops (flatten p) = Some p.
  Proof.
    unfold parse_loops. pose proof (proj2 parse_seq_complete p (S (length (flatten p))) [] I) as H.
    rewrite app_nil_r in H. rewrite H; [reflexivity|cbn [length]; lia].
  Qed.

  (* so: a token list is the text of a structured program exactly when its brackets are balanced, and of one only *)
  Corollary balanced_iff (toks : tokl) : balanced toks = true <-> exists p : prog D, flatten p = toks.
  Proof.
    unfold balanced. split.
    - destruct (parse_loops toks) as [p|] eqn:E; [|discriminate]. intros _. exists p. apply parse_loops_sound, E.
    - intros [p <-]. rewrite parse_loops_complete. reflexivity.
  Qed.
  Corollary flatten_injective (p q : prog D) : flatten p = flatten q -> p = q.
  Proof. intros H. pose proof (parse_loops_complete p) as E. rewrite H, parse_loops_complete in E. injection E as ->. reflexivity. Qed.
End Parse.
Arguments parse_seq {D} fuel toks.
Arguments parse_loops {D} toks.
Arguments balanced {D} toks.

(* ------------------------------------------------------------------------------------------------ *)
(* 2. the machine on a token list whose brackets are balanced                                         *)
Section Run.
  Variable D : Type.
  Variable St : Type.
  Variable step : D -> St -> St.
  Variable halted : St -> bool.
  Variable cnt : Z -> St -> nat.
  Notation tokl := (list (ltok D)).
  Notation runM := (run D St step halted cnt).
  Notation semM := (sem D St step halted (count1 cnt)).
  Notation sem_itemM := (sem_item D St step halted (count1 cnt)).
  Notation costM := (cost D St step halted (count1 cnt)).
  Notation cost_itemM := (cost_item D St step halted (count1 cnt)).

  (* no hypothesis on the counts: a count that evaluates to 0 runs once (count1) *)
  Theorem run_parsed (toks : tokl) (p : prog D) (s : St) (fuel : nat) :
    parse_loops toks = Some p -> costM p s < fuel -> runM fuel toks s = Some (semM p s).
  Proof. intros H Hf. rewrite <- (parse_loops_sound D toks p H). apply run_flat_total. exact Hf. Qed.

  (* all counts positive: the structured meaning with the counts as written *)
  Theorem run_parsed_pos (toks : tokl) (p : prog D) (s : St) (fuel : nat) :
    parse_loops toks = Some p -> loops_pos D St cnt p -> cost D St step halted cnt p s < fuel ->
    runM fuel toks s = Some (sem D St step halted cnt p s).
  Proof. intros H Hp Hf. rewrite <- (parse_loops_sound D toks p H). apply flat_vs_structured_fuel; assumption. Qed.

  (* ---- the cost of the unrolled texts is below the cost of the loop ---- *)
  Lemma cost_papp (a b : prog D) s : costM (papp a b) s = costM a s + costM b (semM a s).
  Proof.
    revert s. induction a as [|i a IH]; intros s; [reflexivity|].
    cbn [papp]. rewrite !cost_cons, sem_cons, IH. lia.
  Qed.
  Lemma cost_prepeat_le (a : prog D) : forall k s,
    costM (prepeat k a) s <= cpasses (costM a) (fun _ => 0) (semM a) (fun x => x) k s.
  Proof.
    induction k as [|k IH]; intros s; [cbn [prepeat cpasses]; reflexivity|].
    cbn [prepeat cpasses]. rewrite cost_papp. specialize (IH (semM a s)). lia.
  Qed.
  Lemma cost_break_le (a b : prog D) : forall k s,
    costM (papp (prepeat k (papp a b)) a) s <= cpasses (costM a) (costM b) (semM a) (semM b) (S k) s.
  Proof.
    induction k as [|k IH]; intros s.
    - cbn [prepeat papp cpasses]. lia.
    - change (prepeat (S k) (papp a b)) with (papp (papp a b) (prepeat k (papp a b))).
      change (papp (papp (papp a b) (prepeat k (papp a b))) a) with (papp (papp (papp a b) (prepeat k (papp a b))) a).
      assert (E : forall x y z : prog D, papp (papp x y) z = papp x (papp y z)).
      { intros x y z. induction x as [|i x IHx]; [reflexivity|]. cbn [papp]. rewrite IHx. reflexivity. }
      rewrite E, cost_papp, cost_papp, sem_app.
      specialize (IH (semM b (semM a s))). cbn [cpasses] in IH |- *. lia.
  Qed.

  Lemma flatten_prepeat (a : prog D) k : flatten (prepeat k a) = concat (repeat (flatten a) k).
  Proof. induction k as [|k IH]; [reflexivity|]. cbn [prepeat repeat concat]. rewrite flatten_app, IH. reflexivity. Qed.

  (* ---- the two shapes of the property, on token lists ---- *)
  (* [n body] runs like body written k times, k the count *)
  Theorem repeat_tokens (n : Z) (body : tokl) (pb : prog D) (s : St) (k fuel : nat) :
    parse_loops body = Some pb -> count1 cnt n s = k -> cost_itemM (Loop n pb None) s < fuel ->
    runM fuel (LBegin n :: body ++ [LEnd]) s = runM fuel (concat (repeat body k)) s.
  Proof.
    intros H Hk Hf. pose proof (parse_loops_sound D body pb H) as E. subst body.
    change (LBegin n :: flatten pb ++ [LEnd]) with (flat_item (Loop n pb None)).
    replace (flat_item (Loop n pb None)) with (flatten (PCons (Loop n pb None) PNil)) by (rewrite flatten_cons; apply app_nil_r).
    rewrite <- flatten_prepeat.
    rewrite (run_flat_total D St step halted cnt (PCons (Loop n pb None) PNil) s fuel)
      by (rewrite cost_cons; cbn [cost]; lia).
    rewrite (run_flat_total D St step halted cnt (prepeat k pb) s fuel).
    - f_equal. apply (loop_repeat D St step halted (count1 cnt)). exact Hk.
    - rewrite cost_item_loop in Hf. rewrite Hk in Hf. pose proof (cost_prepeat_le pb k s). cbn [cost_opt sem_opt] in Hf. lia.
  Qed.

  (* [n a : b] runs like (a b) written k times, then a, for the count k + 1 *)
  Theorem break_tokens (n : Z) (ta tb : tokl) (pa pb : prog D) (s : St) (k fuel : nat) :
    parse_loops ta = Some pa -> parse_loops tb = Some pb -> count1 cnt n s = S k ->
    cost_itemM (Loop n pa (Some pb)) s < fuel ->
    runM fuel (LBegin n :: ta ++ [LBreak] ++ tb ++ [LEnd]) s = runM fuel (concat (repeat (ta ++ tb) k) ++ ta) s.
  Proof.
    intros Ha Hb Hk Hf. pose proof (parse_loops_sound D ta pa Ha) as Ea. pose proof (parse_loops_sound D tb pb Hb) as Eb. subst ta tb.
    change (LBegin n :: flatten pa ++ [LBreak] ++ flatten pb ++ [LEnd]) with (flat_item (Loop n pa (Some pb))).
    replace (flat_item (Loop n pa (Some pb))) with (flatten (PCons (Loop n pa (Some pb)) PNil)) by (rewrite flatten_cons; apply app_nil_r).
    rewrite <- flatten_app, <- flatten_prepeat, <- flatten_app.
    rewrite (run_flat_total D St step halted cnt (PCons (Loop n pa (Some pb)) PNil) s fuel)
      by (rewrite cost_cons; cbn [cost]; lia).
    rewrite (run_flat_total D St step halted cnt (papp (prepeat k (papp pa pb)) pa) s fuel).
    - f_equal. apply (loop_break D St step halted (count1 cnt)). exact Hk.
    - rewrite cost_item_loop in Hf. rewrite Hk in Hf. pose proof (cost_break_le pa pb k s). cbn [cost_opt sem_opt] in Hf. lia.
  Qed.
End Run.

(* ------------------------------------------------------------------------------------------------ *)
(* 3. the simplest unbalanced texts: what the machine (model/LoopMachine.v = the pos / loop_stack loop of exec()) does *)
Section Unbalanced.
  Variable D : Type.
  Variable St : Type.
  Variable step : D -> St -> St.
  Variable halted : St -> bool.
  Variable cnt : Z -> St -> nat.
  Notation tokl := (list (ltok D)).
  Notation runM := (run D St step halted cnt).
  Notation semM := (sem D St step halted (count1 cnt)).
  Notation costM := (cost D St step halted (count1 cnt)).
  Notation mstepM := (mstep D St step halted cnt).
  Notation Cfg := (mkCfg St).

  Lemma cfg_eta (c : config St) : c = Cfg (pos St c) (stack St c) (st St c).
  Proof. destruct c; reflexivity. Qed.

  (* p, then a token x that the machine passes over in one step keeping the (empty) stack, then q *)
  Lemma run_skip_one (x : ltok D) (p q : prog D) (s : St) (fuel : nat) :
    (forall toks P s1, nth_error toks P = Some x -> halted s1 = false -> mstepM toks (Cfg P [] s1) = Some (Cfg (S P) [] s1)) ->
    costM p s + 1 + costM q (semM p s) < fuel ->
    runM fuel (flatten p ++ x :: flatten q) s = Some (semM q (semM p s)).
  Proof.
    intros Hx Hf. set (toks := flatten p ++ x :: flatten q).
    destruct (segment_total D St step halted cnt p [] (x :: flatten q) [] s) as (m1 & c1 & S1 & M1 & E1 & D1).
    cbn [app length] in S1. fold toks in S1.
    assert (Hdone : forall c m, starn D St step halted cnt toks m (Cfg 0 [] s) c -> mstepM toks c = None -> m < fuel ->
                      runM fuel toks s = Some (st St c)).
    { intros c m Hs Hn Hm. unfold run. rewrite (mrun_starn D St step halted cnt toks m _ c Hs Hn fuel Hm). reflexivity. }
    destruct (halted (semM p s)) eqn:Hh.
    - (* halted inside p *)
      rewrite (Hdone c1 m1 S1); [|apply mstep_none_halted; rewrite E1; exact Hh|lia].
      rewrite E1. f_equal. symmetry. apply (semM_halted D St step halted cnt). exact Hh.
    - destruct D1 as [[P1 K1]|D1]; [|discriminate D1].
      cbn [length Nat.add] in P1.
      assert (C1 : c1 = Cfg (length (flatten p)) [] (semM p s)) by (rewrite (cfg_eta c1), P1, K1, E1; reflexivity).
      assert (N1 : nth_error toks (length (flatten p)) = Some x) by (unfold toks; apply nth_error_mid; reflexivity).
      pose proof (Hx toks _ _ N1 Hh) as Step.
      destruct (segment_total D St step halted cnt q (flatten p ++ [x]) [] [] (semM p s)) as (m2 & c2 & S2 & M2 & E2 & D2).
      rewrite app_nil_r in S2. replace ((flatten p ++ [x]) ++ flatten q) with toks in S2 by (unfold toks; rewrite <- app_assoc; reflexivity).
      rewrite app_length in S2. cbn [length] in S2. replace (length (flatten p) + 1) with (S (length (flatten p))) in S2 by lia.
      assert (S12 : starn D St step halted cnt toks (m1 + S m2) (Cfg 0 [] s) c2).
      { eapply starn_trans; [exact S1|]. rewrite C1. eapply starn_step; [exact Step|exact S2]. }
      rewrite (Hdone c2 _ S12); [rewrite E2; reflexivity| |lia].
      destruct D2 as [[P2 _]|D2].
      + apply mstep_none_end. unfold toks. rewrite P2. cbn [pos]. rewrite ?app_length. cbn [length]. rewrite ?app_length. cbn [length]. lia.
      + apply mstep_none_halted. rewrite E2. exact D2.
  Qed.

  (* a `]` outside any loop is passed over: `p ] q` runs like `p q` *)
  Theorem run_lone_end (p q : prog D) (s : St) (fuel : nat) :
    costM p s + 1 + costM q (semM p s) < fuel ->
    runM fuel (flatten p ++ LEnd :: flatten q) s = Some (semM q (semM p s)).
  Proof.
    apply run_skip_one. intros toks P s1 Hn Hh. unfold mstep. cbn [pos st stack]. rewrite Hn, Hh. reflexivity.
  Qed.
  (* so is a `:` outside any loop *)
  Theorem run_lone_break (p q : prog D) (s : St) (fuel : nat) :
    costM p s + 1 + costM q (semM p s) < fuel ->
    runM fuel (flatten p ++ LBreak :: flatten q) s = Some (semM q (semM p s)).
  Proof.
    apply run_skip_one. intros toks P s1 Hn Hh. unfold mstep. cbn [pos st stack]. rewrite Hn, Hh. reflexivity.
  Qed.

  (* a `[n` that is never closed: what follows it runs once, whatever n *)
  Theorem run_unclosed_begin (n : Z) (p : prog D) (s : St) (fuel : nat) :
    1 + costM p s < fuel -> runM fuel (LBegin n :: flatten p) s = Some (semM p s).
  Proof.
    intros Hf. set (toks := LBegin n :: flatten p).
    destruct (halted s) eqn:Hh.
    - unfold run. destruct fuel as [|f]; [lia|]. cbn [mrun].
      rewrite (mstep_none_halted D St step halted cnt toks (Cfg 0 [] s) Hh). cbn [st].
      symmetry. f_equal. apply (semM_halted D St step halted cnt). exact Hh.
    - set (it := mkItem 1 0 0 (cnt n s)).
      assert (Step : mstepM toks (Cfg 0 [] s) = Some (Cfg 1 [it] s)) by (apply mstep_begin; [reflexivity|exact Hh]).
      destruct (segment_total D St step halted cnt p [LBegin n] [] [it] s) as (m2 & c2 & S2 & M2 & E2 & D2).
      rewrite app_nil_r in S2. cbn [app length] in S2. fold toks in S2.
      assert (N2 : mstepM toks c2 = None).
      { destruct D2 as [[P2 _]|D2].
        - apply mstep_none_end. unfold toks. rewrite P2. cbn [length]. lia.
        - apply mstep_none_halted. rewrite E2. exact D2. }
      unfold run. rewrite (mrun_starn D St step halted cnt toks (S m2) _ c2 (starn_step _ _ _ _ _ _ _ _ _ _ Step S2) N2 fuel) by lia.
      rewrite E2. reflexivity.
  Qed.
End Unbalanced.

(* ------------------------------------------------------------------------------------------------ *)
(* 4. a bound on the machine steps that does not mention the state: K n bounds the count of `[n`        *)
Section StaticCost.
  Variable D : Type.
  Variable St : Type.
  Variable step : D -> St -> St.
  Variable halted : St -> bool.
  Variable cnt : Z -> St -> nat.
  Variable K : Z -> nat.
  Hypothesis HK : forall n s, count1 cnt n s <= K n.
  Notation costM := (cost D St step halted (count1 cnt)).
  Notation cost_itemM := (cost_item D St step halted (count1 cnt)).

  Fixpoint scost_item (i : item D) : nat :=
    match i with
    | Leaf _ => 1
    | Loop n a b => 1 + K n * (scost a + (match b with Some b' => scost b' | None => 0 end) + 2)
    end
  with scost (p : prog D) : nat :=
    match p with
    | PNil => 0
    | PCons i p' => scost_item i + scost p'
    end.

  Lemma cpasses_le (ca cb : St -> nat) (fa fb : St -> St) (A B : nat) :
    (forall s, ca s <= A) -> (forall s, cb s <= B) -> forall k s, cpasses ca cb fa fb k s <= k * (A + B + 2).
  Proof.
    intros HA HB. induction k as [|k IH]; intros s; [cbn [cpasses]; lia|].
    cbn [cpasses]. specialize (IH (fb (fa s))). specialize (HA s). specialize (HB (fa s)). rewrite Nat.mul_succ_l. lia.
  Qed.

  Lemma cost_le_scost : (forall i s, cost_itemM i s <= scost_item i) /\ (forall p s, costM p s <= scost p).
  Proof.
    apply item_prog_mutind.
    - intros d s. reflexivity.
    - intros n a Ha s. rewrite cost_item_loop. cbn [cost_opt scost_item].
      pose proof (cpasses_le (costM a) (fun _ => 0) (sem D St step halted (count1 cnt) a) (sem_opt D St step halted (count1 cnt) None)
                    (scost a) 0 Ha (fun _ => le_n 0) (count1 cnt n s) s) as Hc.
      pose proof (HK n s) as Hk.
      assert (count1 cnt n s * (scost a + 0 + 2) <= K n * (scost a + 0 + 2)) by (apply Nat.mul_le_mono_r; exact Hk). lia.
    - intros n a b Ha Hb s. rewrite cost_item_loop. cbn [cost_opt scost_item].
      pose proof (cpasses_le (costM a) (costM b) (sem D St step halted (count1 cnt) a) (sem_opt D St step halted (count1 cnt) (Some b))
                    (scost a) (scost b) Ha Hb (count1 cnt n s) s) as Hc.
      pose proof (HK n s) as Hk.
      assert (count1 cnt n s * (scost a + scost b + 2) <= K n * (scost a + scost b + 2)) by (apply Nat.mul_le_mono_r; exact Hk). lia.
    - intros s. reflexivity.
    - intros i p Hi Hp s. rewrite cost_cons. cbn [scost]. specialize (Hi s). specialize (Hp (sem_item D St step halted (count1 cnt) i s)). lia.
  Qed.
End StaticCost.
Arguments scost {D} K p.
Arguments scost_item {D} K i.

(* ------------------------------------------------------------------------------------------------ *)
(* 5. an invariant of the steps of the tokens that occur in a program is an invariant of its meaning    *)
Section Invariant.
  Variable D : Type.
  Variable St : Type.
  Variable step : D -> St -> St.
  Variable halted : St -> bool.
  Variable cnt : Z -> St -> nat.
  Variable P : St -> Prop.

  Lemma passes_invariant (fa fb : St -> St) : (forall s, P s -> P (fa s)) -> (forall s, P s -> P (fb s)) ->
    forall k s, P s -> P (passes fa fb k s).
  Proof.
    intros Ha Hb. induction k as [|k IH]; intros s Hs; [exact Hs|].
    destruct k as [|k]; [apply Ha, Hs|]. rewrite passes_SS. apply IH, Hb, Ha, Hs.
  Qed.

  Lemma sem_invariant :
    (forall i, (forall d, In (LOther d) (flat_item i) -> forall s, P s -> P (step d s)) ->
               forall s, P s -> P (sem_item D St step halted cnt i s)) /\
    (forall p, (forall d, In (LOther d) (flatten p) -> forall s, P s -> P (step d s)) ->
               forall s, P s -> P (sem D St step halted cnt p s)).
  Proof.
    apply item_prog_mutind.
    - intros d H s Hs. rewrite sem_item_leaf. destruct (halted s); [exact Hs|]. apply H; [left; reflexivity|exact Hs].
    - intros n a Ha H s Hs. rewrite sem_item_loop. apply passes_invariant; [|intros x Hx; exact Hx|exact Hs].
      apply Ha. intros d Hd. apply H. rewrite flat_item_none. right. apply in_or_app. left. exact Hd.
    - intros n a b Ha Hb H s Hs. rewrite sem_item_loop. apply passes_invariant; [| |exact Hs].
      + apply Ha. intros d Hd. apply H. rewrite flat_item_some. right. apply in_or_app. left. exact Hd.
      + apply Hb. intros d Hd. apply H. rewrite flat_item_some. right. apply in_or_app. right. apply in_or_app. right.
        apply in_or_app. left. exact Hd.
    - intros _ s Hs. exact Hs.
    - intros i p Hi Hp H s Hs. rewrite sem_cons. apply Hp.
      + intros d Hd. apply H. rewrite flatten_cons. apply in_or_app. right. exact Hd.
      + apply Hi; [|exact Hs]. intros d Hd. apply H. rewrite flatten_cons. apply in_or_app. left. exact Hd.
  Qed.
End Invariant.
