(* absolute ticks of the decoded messages equal the times of the (sorted) event list *)
From Sakura.Model Require Import Base Event Writer.
From Sakura.Spec Require Import SmfSpec TrackSpec.
From Sakura.Proofs Require Import SortP.
From Coq Require Import Lia Sorted.
Open Scope Z_scope.

Definition msg_times (evs : list event) : list Z :=
  flat_map (fun e => map (fun _ => e_time e) (wire_msgs e)) evs.

Lemma abs_ticks_app t0 a b :
  abs_ticks t0 (a ++ b) = abs_ticks t0 a ++ abs_ticks (fold_left (fun t p => t + fst p) a t0) b.
Proof.
  revert t0. induction a as [|[d m] a IH]; intros t0; [reflexivity|].
  cbn [app abs_ticks fold_left fst]. rewrite IH. reflexivity.
Qed.

Lemma abs_ticks_zero t0 (ms : list msg) :
  abs_ticks t0 (map (fun x => (0, x)) ms) = map (fun _ => t0) ms
  /\ fold_left (fun t p => t + fst p) (map (fun x : msg => (0, x)) ms) t0 = t0.
Proof.
  induction ms as [|m ms [IH1 IH2]]; [split; reflexivity|].
  cbn [map abs_ticks fold_left fst]. rewrite Z.add_0_r. rewrite IH1, IH2. split; reflexivity.
Qed.

Theorem abs_ticks_wire evs : forall tp,
  StronglySorted time_le evs -> Forall (fun e => tp <= e_time e) evs ->
  abs_ticks tp (wire tp evs) = msg_times evs.
Proof.
  induction evs as [|e r IH]; intros tp Hs Hge; [reflexivity|].
  inversion Hs as [|a b Hsr Hall]; subst. inversion Hge as [|a b He Hr]; subst.
  cbn [wire msg_times flat_map].
  assert (Hr' : Forall (fun x => e_time e <= e_time x) r) by exact Hall.
  destruct (wire_msgs e) as [|m ms].
  - cbn [map app]. apply IH; assumption.
  - rewrite abs_ticks_app. cbn [abs_ticks fold_left fst map].
    replace (tp + Z.max (e_time e - tp) 0) with (e_time e) by lia.
    destruct (abs_ticks_zero (e_time e) ms) as [E1 E2]. rewrite E1, E2.
    replace (Z.max tp (e_time e)) with (e_time e) by lia.
    cbn [app]. f_equal. f_equal. apply IH; assumption.
Qed.

(* the sorted list handed to the writer is strongly sorted *)
Lemma events_sort_strongly l : StronglySorted time_le (events_sort l).
Proof.
  apply Sorted_StronglySorted; [intros a b c; unfold time_le; lia | apply events_sort_sorted].
Qed.
