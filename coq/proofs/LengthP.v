(* calc_length (model) = denote (specification) for every well-formed length expression. *)
From Sakura.Model Require Import Base Cursor Length.
From Sakura.Spec Require Import LenSpec.
From Sakura.Gen Require Import Consts.
From Sakura.Proofs Require Import NumeralP.
From Coq Require Import Lia.
Open Scope Z_scope.

Definition dg (d : Z) : Z := 48 + d.

Definition stop_ok (r : list Z) : Prop :=
  match r with [] => True | c :: _ => is_digit c = false end.
(* what may follow a number inside a length: nothing, a dot, '^' or '+' *)
Definition after_num_ok (r : list Z) : Prop :=
  match r with [] => True | c :: _ => c = 46 \/ c = 94 \/ c = 43 end.
(* what may follow the dots: nothing, '^' or '+' *)
Definition after_dots_ok (r : list Z) : Prop :=
  match r with [] => True | c :: _ => c = 94 \/ c = 43 end.

Lemma digit_ok_range d : digit_ok d = true -> 0 <= d <= 9.
Proof. unfold digit_ok. lia. Qed.

Lemma is_digit_dg d : digit_ok d = true -> is_digit (dg d) = true.
Proof. intros H. apply digit_ok_range in H. unfold is_digit, dg. lia. Qed.

Lemma after_num_stop r : after_num_ok r -> stop_ok r.
Proof. destruct r as [|c r]; simpl; auto. intros [->|[->| ->]]; reflexivity. Qed.

Lemma numeral_cap_is_code : numeral_cap = NUMERAL_MAX.
Proof. reflexivity. Qed.

Lemma value_of_horner ds : forall acc, value_of acc ds = horner 10 acc ds.
Proof. induction ds as [|d ds IH]; intros acc; cbn [value_of horner]; [reflexivity|apply IH]. Qed.

Lemma digits_nonneg ds : forallb digit_ok ds = true -> Forall (fun d => 0 <= d) ds.
Proof.
  induction ds as [|d ds IH]; intros H; constructor.
  - cbn [forallb] in H. apply andb_prop in H. destruct H as [H _]. apply digit_ok_range in H. lia.
  - cbn [forallb] in H. apply andb_prop in H. destruct H as [_ H]. apply IH. exact H.
Qed.

Lemma take_dec_digits_sat ds : forall acc r,
  forallb digit_ok ds = true -> stop_ok r ->
  take_dec acc (map dg ds ++ r) = (horner_sat 10 acc ds, r).
Proof.
  induction ds as [|d ds IH]; intros acc r Hd Hr.
  - cbn [map app horner_sat]. destruct r as [|c r]; [reflexivity|].
    cbn [take_dec]. cbn in Hr. rewrite Hr. reflexivity.
  - cbn [forallb] in Hd. apply andb_prop in Hd. destruct Hd as [Hd Hds].
    cbn [map app take_dec horner_sat]. rewrite (is_digit_dg d Hd).
    replace (acc * 10 + (dg d - 48)) with (acc * 10 + d) by (unfold dg; lia).
    apply IH; assumption.
Qed.

(* the digits denote their value, capped *)
Lemma take_dec_digits ds r :
  forallb digit_ok ds = true -> stop_ok r ->
  take_dec 0 (map dg ds ++ r) = (numeral ds, r).
Proof.
  intros Hd Hr. rewrite take_dec_digits_sat by assumption. f_equal.
  rewrite horner_sat_min; [|lia|apply digits_nonneg; exact Hd|pose proof numeral_max_pos; lia].
  unfold numeral. rewrite value_of_horner. reflexivity.
Qed.

Lemma get_int_numeral def (neg : bool) ds r :
  ds <> [] -> forallb digit_ok ds = true -> after_num_ok r ->
  get_int def ((if neg then [45] else []) ++ map dg ds ++ r)
  = ((if neg then -1 else 1) * numeral ds, r).
Proof.
  intros Hne Hd Hr.
  destruct ds as [|d ds]; [congruence|].
  pose proof Hd as Hd0. cbn [forallb] in Hd0. apply andb_prop in Hd0. destruct Hd0 as [Hd1 Hds].
  pose proof (digit_ok_range _ Hd1) as Rd.
  assert (Hs1 : forall s1, s1 = map dg (d :: ds) ++ r ->
     (if prefixb [c_0; c_x] s1 || eq_char s1 c_DOLLAR then
        let '(v, s2) := get_hex def true s1 in (wrap_sign ((if neg then -1 else 1) * v), s2)
      else if prefixb [c_0; c_o] s1 then
        let s2 := skipn 2 s1 in
        if is_oct_digit (peek0 s2) && negb (match s2 with [] => true | _ => false end) then
          let '(no, s3) := take_oct 0 s2 in (no * (if neg then -1 else 1), s3)
        else (def, s2)
      else if negb (is_numeric s1) then (def, s1)
      else let '(no, s2) := take_dec 0 s1 in (no * (if neg then -1 else 1), s2))
     = ((if neg then -1 else 1) * numeral (d :: ds), r)).
  { intros s1 ->.
    assert (Hx : forall k, k = 120 \/ k = 111 -> prefixb [c_0; k] (map dg (d :: ds) ++ r) = false).
    { intros k Hk. cbn [map app prefixb]. unfold c_0.
      destruct (48 =? dg d) eqn:E0; [|reflexivity]. cbn [andb].
      destruct ds as [|d2 ds2].
      - cbn [map app]. destruct r as [|c r']; [reflexivity|]. cbn in Hr.
        cbn [prefixb]. assert (k =? c = false) by lia. rewrite H. reflexivity.
      - cbn [map app prefixb]. cbn [forallb] in Hds. apply andb_prop in Hds. destruct Hds as [Hd2 _].
        apply digit_ok_range in Hd2. assert (k =? dg d2 = false) by (unfold dg; lia).
        rewrite H. reflexivity. }
    unfold c_x, c_o in *. rewrite (Hx 120) by auto. rewrite (Hx 111) by auto.
    assert (Hdol : eq_char (map dg (d :: ds) ++ r) c_DOLLAR = false).
    { cbn [map app eq_char]. unfold c_DOLLAR, dg. lia. }
    rewrite Hdol. cbn [orb].
    assert (Hnum : is_numeric (map dg (d :: ds) ++ r) = true).
    { cbn [map app is_numeric]. apply is_digit_dg; assumption. }
    rewrite Hnum. cbn [negb].
    rewrite (take_dec_digits (d :: ds) r Hd (after_num_stop r Hr)).
    f_equal. lia. }
  unfold get_int. destruct neg.
  - cbn [app eq_char]. replace (45 =? c_MINUS) with true by reflexivity. cbn [tl].
    apply Hs1. reflexivity.
  - cbn [app]. assert (E : eq_char (map dg (d :: ds) ++ r) c_MINUS = false).
    { cbn [map app eq_char]. unfold c_MINUS, dg. lia. }
    rewrite E. apply Hs1. reflexivity.
Qed.

(* ---- dots ---- *)
Lemma dots_add_dotted k x : (k <= 4)%nat -> dots_add (Z.of_nat k) x = dotted k x.
Proof. reflexivity. Qed.

Lemma after_dots_cases t : after_dots_ok t -> t = [] \/ exists c r, t = c :: r /\ (c = 94 \/ c = 43).
Proof. destruct t as [|c r]; [left; reflexivity|]. intros H. right. exists c, r. auto. Qed.

Lemma head_dots_repeat k x t : (k <= 4)%nat -> after_dots_ok t ->
  head_dots x (repeat 46 k ++ t) = (dotted k x, t).
Proof.
  intros Hk Ht. apply after_dots_cases in Ht.
  assert (H0 : dotted 0 x = x).
  { unfold dotted. cbn. rewrite Z.mul_0_r. cbn. lia. }
  destruct k as [|[|[|[|[|k]]]]]; try lia;
  destruct Ht as [-> | (c & r & -> & [-> | ->])]; try reflexivity;
  cbn [repeat app head_dots]; unfold head_dots; cbn [prefixb repeat app]; cbn; rewrite ?H0; reflexivity.
Qed.

Lemma quot3_2 n : Z.quot (n * 3) 2 = n + Z.quot (n * 1) 2.
Proof.
  rewrite Z.mul_1_r.
  replace (n * 3) with (n * 2 + n) by lia.
  pose proof (Z.quot_rem' n 2) as E. 
  pose proof (Z.rem_bound_pos_pos n 2). pose proof (Z.rem_bound_neg_pos n 2).
  rewrite Z.add_comm. rewrite Z.quot_add; [lia | lia | destruct (Z_lt_le_dec n 0); nia].
Qed.

(* ---- the printed form ---- *)
Lemma print_atom_eq a :
  print_atom a = (if a_step a then [37] else []) ++ (if a_neg a then [45] else [])
                 ++ map dg (a_num a) ++ repeat 46 (a_dots a).
Proof. reflexivity. Qed.

Lemma after_dots_parts ps : after_dots_ok (flat_map print_part ps).
Proof. destruct ps as [|[[|] a] ps]; cbn; auto. Qed.

Lemma after_num_dots k t : after_dots_ok t -> after_num_ok (repeat 46 k ++ t).
Proof.
  destruct k as [|k]; cbn [repeat app].
  - destruct t as [|c t]; cbn; [auto|]. intros [->| ->]; auto.
  - intros _. cbn. auto.
Qed.

Lemma atom_wf_inv a : atom_wf a = true ->
  forallb digit_ok (a_num a) = true /\ (a_dots a <= 4)%nat /\ (a_neg a = true -> a_num a <> []).
Proof.
  unfold atom_wf. intros H. apply andb_prop in H. destruct H as [H H3].
  apply andb_prop in H. destruct H as [H1 H2]. split; [assumption|]. split.
  - apply Nat.leb_le. assumption.
  - intros Hn. rewrite Hn in H3. destruct (a_num a); [discriminate | congruence].
Qed.

Lemma not_numeric_after_num r : after_num_ok r -> is_numeric r = false /\ eq_char r c_MINUS = false.
Proof. destruct r as [|c r]; cbn; auto. intros [->|[->| ->]]; auto. Qed.

(* value read for the head, before its dots *)
Definition head_base (tb d : Z) (a : atom) : Z :=
  match a_num a with
  | [] => d
  | _ => if a_step a then signed a else if signed a >? 0 then Z.quot (4 * tb) (signed a) else 0
  end.

Lemma head_value_print tb d a t : atom_wf a = true -> after_dots_ok t ->
  head_value tb d (print_atom a ++ t) = (head_base tb d a, repeat 46 (a_dots a) ++ t).
Proof.
  intros Hwf Ht. destruct (atom_wf_inv a Hwf) as (Hd & Hk & Hneg).
  rewrite print_atom_eq. unfold head_value, head_base, signed.
  pose proof (after_num_dots (a_dots a) t Ht) as Hr.
  destruct (a_num a) as [|d0 ds] eqn:En.
  - (* no number *)
    assert (a_neg a = false) as -> by (destruct (a_neg a); [exfalso; apply Hneg; auto | reflexivity]).
    cbn [map app]. destruct (not_numeric_after_num _ Hr) as [N1 N2].
    destruct (a_step a); cbn [app eq_char tl]; [replace (37 =? c_PCT) with true by reflexivity|];
      cbn [tl].
    + rewrite N1, N2. reflexivity.
    + assert (eq_char (repeat 46 (a_dots a) ++ t) c_PCT = false) as ->.
      { destruct (repeat 46 (a_dots a) ++ t) as [|c r]; cbn in *; auto. destruct Hr as [->|[->| ->]]; auto. }
      rewrite N1, N2. reflexivity.
  - (* a number *)
    assert (Hne : d0 :: ds <> []) by congruence.
    rewrite <- !app_assoc.
    set (num := (if a_neg a then [45] else []) ++ map dg (d0 :: ds) ++ repeat 46 (a_dots a) ++ t).
    assert (Hnum : is_numeric num || eq_char num c_MINUS = true).
    { unfold num. destruct (a_neg a); cbn [app map is_numeric eq_char].
      - rewrite orb_true_r. reflexivity.
      - cbn [forallb] in Hd. apply andb_prop in Hd. destruct Hd as [Hd _].
        rewrite (is_digit_dg _ Hd). reflexivity. }
    assert (Hpct : eq_char num c_PCT = false).
    { unfold num. destruct (a_neg a); cbn [app map eq_char]; [reflexivity|].
      cbn [forallb] in Hd. apply andb_prop in Hd. destruct Hd as [Hd _]. apply digit_ok_range in Hd.
      unfold dg, c_PCT. lia. }
    destruct (a_step a); cbn [app eq_char tl]; [replace (37 =? c_PCT) with true by reflexivity|];
      cbn [tl]; fold num.
    + rewrite Hnum. unfold num. rewrite (get_int_numeral 0 (a_neg a) (d0 :: ds) _ Hne Hd Hr). reflexivity.
    + rewrite Hpct, Hnum. unfold num. rewrite (get_int_numeral 4 (a_neg a) (d0 :: ds) _ Hne Hd Hr).
      replace (tb * 4) with (4 * tb) by lia. reflexivity.
Qed.

Lemma dhead_base tb d a : dhead tb d a = dotted (a_dots a) (head_base tb d a).
Proof. reflexivity. Qed.

(* value of a part before its dots *)
Definition part_base (tb d : Z) (a : atom) : Z :=
  match a_num a with
  | [] => d
  | _ => if a_step a then signed a else if signed a =? 0 then d else Z.quot (4 * tb) (signed a)
  end.

Lemma part_dots_repeat k x t : (k <= 4)%nat -> after_dots_ok t ->
  part_dots x (repeat 46 k ++ t) = (dotted k x, t).
Proof.
  intros Hk Ht. apply after_dots_cases in Ht.
  assert (H0 : dotted 0 x = x).
  { unfold dotted. cbn. rewrite Z.mul_0_r. cbn. lia. }
  assert (H1 : Z.quot (x * 3) 2 = dotted 1 x).
  { unfold dotted. rewrite quot3_2. reflexivity. }
  destruct k as [|[|[|[|[|k]]]]]; try lia;
  destruct Ht as [-> | (c & r & -> & [-> | ->])];
  unfold part_dots; cbn [prefixb repeat app]; cbn; rewrite ?H0, ?H1; reflexivity.
Qed.

Lemma part_wf_inv a : part_wf a = true ->
  atom_wf a = true /\ (a_num a = [] -> a_step a = false /\ a_neg a = false /\ a_dots a = O).
Proof.
  unfold part_wf. intros H. apply andb_prop in H. destruct H as [H1 H2]. split; [assumption|].
  intros E. rewrite E in H2. apply andb_prop in H2. destruct H2 as [H2 H3].
  apply andb_prop in H2. destruct H2 as [H2 H4].
  repeat split; try (apply negb_true_iff; assumption). apply Nat.eqb_eq. assumption.
Qed.

Lemma part_value_print tb d p t : part_wf (snd p) = true -> after_dots_ok t ->
  part_value tb d (print_part p ++ t) = Some (dpart tb d (snd p), t).
Proof.
  destruct p as [op a]. cbn [snd]. intros Hwf Ht.
  destruct (part_wf_inv a Hwf) as (Hawf & Hempty).
  destruct (atom_wf_inv a Hawf) as (Hd & Hk & Hneg).
  unfold print_part. cbn [fst snd]. rewrite print_atom_eq.
  assert (Hop : forall s, part_value tb d ((if op then [94] else [43]) ++ s) =
     (let '(step, s1) := if eq_char s c_PCT then (true, tl s) else (false, s) in
        if is_numeric s1 || eq_char s1 c_MINUS then
          let '(n, s2) :=
            if step then get_int 0 s1
            else let '(i, s2) := get_int 4 s1 in
                 ((if i =? 0 then d else Z.quot (tb * 4) i), s2) in
          let '(n', s3) := part_dots n s2 in Some (n', s3)
        else Some (d, s1))).
  { intros s. destruct op; reflexivity. }
  rewrite <- !app_assoc. rewrite Hop. clear Hop.
  pose proof (after_num_dots (a_dots a) t Ht) as Hr.
  unfold dpart, signed.
  destruct (a_num a) as [|d0 ds] eqn:En.
  - destruct (Hempty eq_refl) as (-> & -> & ->). cbn [app map repeat].
    assert (eq_char t c_PCT = false) as ->.
    { destruct t as [|c r]; cbn in *; auto. destruct Ht as [->| ->]; auto. }
    assert (is_numeric t || eq_char t c_MINUS = false) as ->.
    { destruct t as [|c r]; cbn in *; auto. destruct Ht as [->| ->]; auto. }
    unfold dotted. cbn. rewrite Z.mul_0_r. cbn. rewrite Z.add_0_r. reflexivity.
  - assert (Hne : d0 :: ds <> []) by congruence.
    set (num := (if a_neg a then [45] else []) ++ map dg (d0 :: ds) ++ repeat 46 (a_dots a) ++ t).
    assert (Hnum : is_numeric num || eq_char num c_MINUS = true).
    { unfold num. destruct (a_neg a); cbn [app map is_numeric eq_char].
      - rewrite orb_true_r. reflexivity.
      - cbn [forallb] in Hd. apply andb_prop in Hd. destruct Hd as [Hd _].
        rewrite (is_digit_dg _ Hd). reflexivity. }
    assert (Hpct : eq_char num c_PCT = false).
    { unfold num. destruct (a_neg a); cbn [app map eq_char]; [reflexivity|].
      cbn [forallb] in Hd. apply andb_prop in Hd. destruct Hd as [Hd _]. apply digit_ok_range in Hd.
      unfold dg, c_PCT. lia. }
    destruct (a_step a); cbn [app eq_char tl]; [replace (37 =? c_PCT) with true by reflexivity|];
      cbn [tl]; fold num.
    + rewrite Hnum. unfold num. rewrite (get_int_numeral 0 (a_neg a) (d0 :: ds) _ Hne Hd Hr).
      rewrite (part_dots_repeat _ _ _ Hk Ht). reflexivity.
    + rewrite Hpct, Hnum. unfold num. rewrite (get_int_numeral 4 (a_neg a) (d0 :: ds) _ Hne Hd Hr).
      rewrite (part_dots_repeat _ _ _ Hk Ht).
      replace (tb * 4) with (4 * tb) by lia. reflexivity.
Qed.

Lemma parts_loop_print tb d ps : forall fuel acc,
  forallb (fun p => part_wf (snd p)) ps = true -> (length ps < fuel)%nat ->
  parts_loop fuel tb d acc (flat_map print_part ps)
  = fold_left (fun acc p => acc + dpart tb d (snd p)) ps acc.
Proof.
  induction ps as [|p ps IH]; intros fuel acc Hwf Hf.
  - destruct fuel; reflexivity.
  - destruct fuel as [|f]; [cbn in Hf; lia|].
    cbn [forallb] in Hwf. apply andb_prop in Hwf. destruct Hwf as [Hp Hps].
    cbn [flat_map parts_loop fold_left].
    rewrite (part_value_print tb d p _ Hp (after_dots_parts ps)).
    apply IH; [assumption | cbn in Hf; lia].
Qed.

Lemma print_part_nonempty p : (1 <= length (print_part p))%nat.
Proof. destruct p as [[|] a]; cbn; lia. Qed.

Lemma length_flat_parts ps : (length ps <= length (flat_map print_part ps))%nat.
Proof.
  induction ps as [|p ps IH]; cbn [flat_map length]; [lia|].
  rewrite app_length. pose proof (print_part_nonempty p). lia.
Qed.

Theorem calc_length_denotes tb d e : expr_wf e = true ->
  calc_length (print e) tb d = denote tb d e.
Proof.
  destruct e as [h ps]. unfold expr_wf, print, denote. cbn [fst snd]. intros Hwf.
  apply andb_prop in Hwf. destruct Hwf as [Hh Hps].
  unfold calc_length.
  destruct (print_atom h ++ flat_map print_part ps) as [|c0 s0] eqn:Es.
  - (* the empty string: head prints nothing and there are no parts *)
    apply app_eq_nil in Es. destruct Es as [Eh Ep].
    assert (ps = []) as ->.
    { destruct ps as [|p ps]; [reflexivity|]. cbn [flat_map] in Ep.
      apply app_eq_nil in Ep. destruct Ep as [Ep _]. pose proof (print_part_nonempty p) as L.
      rewrite Ep in L. cbn in L. lia. }
    cbn [fold_left]. rewrite print_atom_eq in Eh.
    destruct (a_step h); [discriminate|]. destruct (a_neg h); [discriminate|].
    cbn [app] in Eh. apply app_eq_nil in Eh. destruct Eh as [En Ek].
    unfold dhead. destruct (a_num h); [|discriminate].
    destruct (a_dots h); [|discriminate].
    unfold dotted. cbn. rewrite Z.mul_0_r. cbn. lia.
  - rewrite <- Es.
    rewrite (head_value_print tb d h _ Hh (after_dots_parts ps)).
    destruct (atom_wf_inv h Hh) as (_ & Hk & _).
    rewrite (head_dots_repeat _ _ _ Hk (after_dots_parts ps)).
    rewrite <- dhead_base.
    apply parts_loop_print; [assumption|].
    pose proof (length_flat_parts ps). lia.
Qed.

(* additivity: appending one more part adds exactly that part's value *)
Theorem denote_snoc tb d h ps p :
  denote tb d (h, ps ++ [p]) = denote tb d (h, ps) + dpart tb d (snd p).
Proof. unfold denote. cbn [fst snd]. rewrite fold_left_app. reflexivity. Qed.

Theorem calc_length_additive tb d h ps p :
  expr_wf (h, ps) = true -> part_wf (snd p) = true ->
  calc_length (print (h, ps) ++ print_part p) tb d
  = calc_length (print (h, ps)) tb d + dpart tb d (snd p).
Proof.
  intros He Hp.
  assert (Hw : expr_wf (h, ps ++ [p]) = true).
  { unfold expr_wf in *. cbn [fst snd] in *. apply andb_prop in He. destruct He as [H1 H2].
    rewrite H1, forallb_app, H2. cbn. rewrite Hp. reflexivity. }
  rewrite (calc_length_denotes tb d (h, ps) He).
  replace (print (h, ps) ++ print_part p) with (print (h, ps ++ [p])).
  - rewrite (calc_length_denotes tb d _ Hw). apply denote_snoc.
  - unfold print. cbn [fst snd]. rewrite flat_map_app. cbn [flat_map].
    rewrite app_nil_r, app_assoc. reflexivity.
Qed.
