(* C14 - the time-translation law extended to the reservation commands.
   TimeP.v proves "a program started L ticks later does the same, L ticks later" on tracks on which nothing is
   reserved (its relation `shifted` carries tr_rsv = rsv_new).  Here:
   1. the Track methods of model/Reserve.v are translation invariant: on the track moved by d (pointer, the start
      tick of a pending v.onTime ramp and the events) every method does the same, moved by d - the ramp values are
      a function of the offset from the ramp's start, never of the absolute tick;
   2. the relation is extended to tracks WITH reservations (the only reservation field that holds an absolute tick is
      v_on_time_start), the step lemma to every reservation arm of RunCore.step_song and to the arms of the note
      language on such tracks, and the simulation of the loop machine (TimeP.run_sim, imported) is run again. *)
From Sakura.Model Require Import Base Cursor Length Event Song Token LoopMachine LexCore RunCore Tie RunRsv.
From Sakura.Model Require Reserve.
From Sakura.Proofs Require Import ExtP IdleP RsvP TimeP.
From Coq Require Import Lia.
Open Scope Z_scope.

(* ------------------------------------------------------------------------------------------------ *)
(* 1. model/Reserve.v: the track moved by d                                                           *)

(* the pointer is d later; the first n events are kept and every later one is d later; the start tick of the
   v.onTime ramp is st (see rstart_ok); every other field is the same *)
Definition rshift (d : Z) (n : nat) (st : Z) (k : Reserve.track) : Reserve.track :=
  Reserve.mkTrack (Reserve.tr_timepos k + d) (Reserve.tr_channel k) (Reserve.tr_velocity k) (Reserve.tr_qlen k)
    (Reserve.tr_timing k) (Reserve.tr_octave k) st (Reserve.tr_v_on_time k)
    (Reserve.tr_v k) (Reserve.tr_q k) (Reserve.tr_t k) (Reserve.tr_o k) (Reserve.tr_l k) (Reserve.tr_freq k)
    (shift_tail d n (Reserve.tr_events k)) (Reserve.tr_cc_on_note k) (Reserve.tr_cc_on_note_wave k).
(* the start tick is read only while a ramp is pending (calc_v_on_time leaves -1 behind when the ramp is over):
   it is d later whenever it is alive *)
Definition rstart_ok (d st : Z) (k : Reserve.track) : Prop :=
  Reserve.tr_v_on_time k <> None -> st = Reserve.tr_v_on_time_start k + d.
(* everything moved: all events, and the start tick *)
Definition shift_rtrack (d : Z) (k : Reserve.track) : Reserve.track := rshift d 0 (Reserve.tr_v_on_time_start k + d) k.

Lemma rstart_ok_plus d k : rstart_ok d (Reserve.tr_v_on_time_start k + d) k.
Proof. intros _. reflexivity. Qed.

(* ---- ramps: write_cc_on_time / write_pb_on_time ---- *)
Lemma ramp_events_shift mk d base freq maxv seg : (forall t v, mk (t + d) v = shift_ev d (mk t v)) ->
  Reserve.ramp_events mk (base + d) freq maxv seg = map (shift_ev d) (Reserve.ramp_events mk base freq maxv seg).
Proof.
  intros Hmk. destruct seg as [[lo hi] len]. unfold Reserve.ramp_events.
  induction (Reserve.zrange len) as [|j l IH]; [reflexivity|].
  cbn [flat_map]. rewrite map_app, IH. f_equal. destruct (Z.rem j freq =? 0); [|reflexivity].
  cbn [map]. rewrite <- Hmk. replace (base + d + j) with (base + j + d) by lia. reflexivity.
Qed.

Lemma next_base_shift d base len : Reserve.next_base (base + d) len = Reserve.next_base base len + d.
Proof. unfold Reserve.next_base. destruct (len >? 0); lia. Qed.

Lemma ramp_segments_shift mk d freq maxv : (forall t v, mk (t + d) v = shift_ev d (mk t v)) ->
  forall segs base,
  Reserve.ramp_segments mk (base + d) freq maxv segs = map (shift_ev d) (Reserve.ramp_segments mk base freq maxv segs).
Proof.
  intros Hmk. induction segs as [|seg r IH]; intros base; [reflexivity|].
  cbn [Reserve.ramp_segments]. rewrite map_app, ramp_events_shift by exact Hmk. rewrite next_base_shift, IH. reflexivity.
Qed.

Lemma ev_cc_shift d ch no t v : ev_cc (t + d) ch no v = shift_ev d (ev_cc t ch no v).
Proof. reflexivity. Qed.
Lemma ev_pb_shift d ch t v : ev_pitch_bend (t + d) ch v = shift_ev d (ev_pitch_bend t ch v).
Proof. reflexivity. Qed.

Theorem write_cc_on_time_shift d n st k cc ia : (n <= length (Reserve.tr_events k))%nat ->
  Reserve.write_cc_on_time (rshift d n st k) cc ia = rshift d n st (Reserve.write_cc_on_time k cc ia).
Proof.
  intros Hn. unfold Reserve.write_cc_on_time, rshift, Reserve.set_events, Reserve.cc_freq.
  cbn [Reserve.tr_timepos Reserve.tr_channel Reserve.tr_velocity Reserve.tr_qlen Reserve.tr_timing Reserve.tr_octave
       Reserve.tr_v_on_time_start Reserve.tr_v_on_time Reserve.tr_v Reserve.tr_q Reserve.tr_t Reserve.tr_o Reserve.tr_l
       Reserve.tr_freq Reserve.tr_events Reserve.tr_cc_on_note Reserve.tr_cc_on_note_wave].
  rewrite shift_tail_app by exact Hn.
  rewrite (ramp_segments_shift _ d _ _ (ev_cc_shift d (Reserve.tr_channel k) cc)). reflexivity.
Qed.

Theorem write_pb_on_time_shift d n st k big ia tb : (n <= length (Reserve.tr_events k))%nat ->
  Reserve.write_pb_on_time (rshift d n st k) big ia tb = rshift d n st (Reserve.write_pb_on_time k big ia tb).
Proof.
  intros Hn. unfold Reserve.write_pb_on_time, rshift, Reserve.set_events.
  cbn [Reserve.tr_timepos Reserve.tr_channel Reserve.tr_velocity Reserve.tr_qlen Reserve.tr_timing Reserve.tr_octave
       Reserve.tr_v_on_time_start Reserve.tr_v_on_time Reserve.tr_v Reserve.tr_q Reserve.tr_t Reserve.tr_o Reserve.tr_l
       Reserve.tr_freq Reserve.tr_events Reserve.tr_cc_on_note Reserve.tr_cc_on_note_wave].
  rewrite shift_tail_app by exact Hn.
  rewrite (ramp_segments_shift _ d _ _ (ev_pb_shift d (Reserve.tr_channel k))). reflexivity.
Qed.

(* the events a ramp appends, spelled out: those of the unmoved track, d later, with the same values *)
Theorem write_cc_on_time_events d k cc ia :
  exists E, Reserve.tr_events (Reserve.write_cc_on_time k cc ia) = Reserve.tr_events k ++ E /\
    Reserve.tr_events (Reserve.write_cc_on_time (shift_rtrack d k) cc ia)
    = map (shift_ev d) (Reserve.tr_events k) ++ map (shift_ev d) E.
Proof.
  eexists. split; [reflexivity|]. unfold shift_rtrack. rewrite write_cc_on_time_shift by (cbn [length]; lia).
  cbn [rshift Reserve.tr_events Reserve.write_cc_on_time Reserve.set_events]. unfold shift_tail.
  cbn [firstn skipn app]. apply map_app.
Qed.

(* ---- the lists: set / remove (no time involved) ---- *)
Lemma remove_cc_on_shift d n st k no : Reserve.remove_cc_on (rshift d n st k) no = rshift d n st (Reserve.remove_cc_on k no).
Proof. reflexivity. Qed.
Lemma remove_cc_on_note_wave_shift d n st k no :
  Reserve.remove_cc_on_note_wave (rshift d n st k) no = rshift d n st (Reserve.remove_cc_on_note_wave k no).
Proof. reflexivity. Qed.
Lemma set_cc_on_note_shift d n st k no ia : Reserve.set_cc_on_note (rshift d n st k) no ia = rshift d n st (Reserve.set_cc_on_note k no ia).
Proof. reflexivity. Qed.
Lemma set_cc_on_note_wave_shift d n st k no ia :
  Reserve.set_cc_on_note_wave (rshift d n st k) no ia = rshift d n st (Reserve.set_cc_on_note_wave k no ia).
Proof. reflexivity. Qed.
Lemma set_freq_shift d n st k f : Reserve.set_freq (rshift d n st k) f = rshift d n st (Reserve.set_freq k f).
Proof. reflexivity. Qed.
Lemma set_timepos_shift d n st k x : Reserve.set_timepos (rshift d n st k) (x + d) = rshift d n st (Reserve.set_timepos k x).
Proof. reflexivity. Qed.

(* ---- write_cc_on_note / write_cc_on_note_wave: at the start of the note ---- *)
Lemma cc_note_events_shift d sp ch l :
  Reserve.cc_note_events (sp + d) ch l = map (shift_ev d) (Reserve.cc_note_events sp ch l).
Proof.
  unfold Reserve.cc_note_events. induction l as [|c l IH]; [reflexivity|].
  cbn [flat_map]. rewrite map_app, IH. destruct (Reserve.cc_pending c); reflexivity.
Qed.

Theorem write_cc_on_note_shift d n st k sp : (n <= length (Reserve.tr_events k))%nat ->
  Reserve.write_cc_on_note (rshift d n st k) (sp + d) = rshift d n st (Reserve.write_cc_on_note k sp).
Proof.
  intros Hn. unfold Reserve.write_cc_on_note, rshift, Reserve.set_events, Reserve.set_cc_list.
  cbn [Reserve.tr_timepos Reserve.tr_channel Reserve.tr_velocity Reserve.tr_qlen Reserve.tr_timing Reserve.tr_octave
       Reserve.tr_v_on_time_start Reserve.tr_v_on_time Reserve.tr_v Reserve.tr_q Reserve.tr_t Reserve.tr_o Reserve.tr_l
       Reserve.tr_freq Reserve.tr_events Reserve.tr_cc_on_note Reserve.tr_cc_on_note_wave].
  rewrite shift_tail_app by exact Hn. rewrite cc_note_events_shift. reflexivity.
Qed.

Lemma write_cc_on_time_length k cc ia :
  (length (Reserve.tr_events k) <= length (Reserve.tr_events (Reserve.write_cc_on_time k cc ia)))%nat.
Proof. unfold Reserve.write_cc_on_time. cbn [Reserve.set_events Reserve.tr_events]. rewrite app_length. lia. Qed.

Lemma wave_fold_shift d n st l : forall k, (n <= length (Reserve.tr_events k))%nat ->
  fold_left (fun t cow => Reserve.write_cc_on_time t (Reserve.cc_no cow) (Reserve.cc_data cow)) l (rshift d n st k)
  = rshift d n st (fold_left (fun t cow => Reserve.write_cc_on_time t (Reserve.cc_no cow) (Reserve.cc_data cow)) l k).
Proof.
  induction l as [|c l IH]; intros k Hn; [reflexivity|]. cbn [fold_left].
  rewrite write_cc_on_time_shift by exact Hn. apply IH.
  pose proof (write_cc_on_time_length k (Reserve.cc_no c) (Reserve.cc_data c)). lia.
Qed.

Theorem write_cc_on_note_wave_shift d n st k sp : (n <= length (Reserve.tr_events k))%nat ->
  Reserve.write_cc_on_note_wave (rshift d n st k) (sp + d) = rshift d n st (Reserve.write_cc_on_note_wave k sp).
Proof.
  intros Hn. unfold Reserve.write_cc_on_note_wave.
  change (Reserve.tr_cc_on_note_wave (rshift d n st k)) with (Reserve.tr_cc_on_note_wave k).
  change (Reserve.tr_timepos (rshift d n st k)) with (Reserve.tr_timepos k + d).
  rewrite set_timepos_shift, wave_fold_shift by exact Hn. apply set_timepos_shift.
Qed.

Lemma write_cc_on_note_length k sp :
  (length (Reserve.tr_events k) <= length (Reserve.tr_events (Reserve.write_cc_on_note k sp)))%nat.
Proof. unfold Reserve.write_cc_on_note. cbn [Reserve.set_events Reserve.set_cc_list Reserve.tr_events]. rewrite app_length. lia. Qed.

(* ---- calc_v_on_time: reads pointer - start ---- *)
Theorem calc_v_on_time_shift d n st k def : rstart_ok d st k ->
  exists st', Reserve.calc_v_on_time (rshift d n st k) def
              = (fst (Reserve.calc_v_on_time k def), rshift d n st' (snd (Reserve.calc_v_on_time k def))) /\
              rstart_ok d st' (snd (Reserve.calc_v_on_time k def)).
Proof.
  intros Hst. unfold Reserve.calc_v_on_time.
  change (Reserve.tr_v_on_time (rshift d n st k)) with (Reserve.tr_v_on_time k).
  destruct (Reserve.tr_v_on_time k) as [ia|] eqn:E.
  - assert (Es : st = Reserve.tr_v_on_time_start k + d) by (apply Hst; rewrite E; discriminate).
    change (Reserve.tr_timepos (rshift d n st k)) with (Reserve.tr_timepos k + d).
    change (Reserve.tr_v_on_time_start (rshift d n st k)) with st. rewrite Es.
    replace (Reserve.tr_timepos k + d - (Reserve.tr_v_on_time_start k + d))
      with (Reserve.tr_timepos k - Reserve.tr_v_on_time_start k) by lia.
    destruct (Reserve.v_on_time_loop _ _) as [area result]. cbn [fst snd].
    destruct (area <=? _).
    + exists (-1). split; [reflexivity|]. intros H. exfalso. apply H. reflexivity.
    + exists (Reserve.tr_v_on_time_start k + d). split; [reflexivity|]. intros _. reflexivity.
  - exists st. split; [reflexivity|]. cbn [snd]. intros H. exfalso. apply H. exact E.
Qed.

(* ---- calc_{v,t,qlen,o,l}_on_note: no time involved ---- *)
Theorem calc_on_note_shift w d n st k def :
  Reserve.calc_on_note w (rshift d n st k) def
  = (fst (Reserve.calc_on_note w k def), rshift d n st (snd (Reserve.calc_on_note w k def))).
Proof.
  destruct w; unfold Reserve.calc_on_note, Reserve.calc_v_on_note, Reserve.calc_qlen_on_note, Reserve.calc_t_on_note,
    Reserve.calc_o_on_note, Reserve.calc_l_on_note;
  match goal with |- context [Reserve.on_note_step ?c (?f (rshift d n st k)) def] => change (f (rshift d n st k)) with (f k);
    destruct (Reserve.on_note_step c (f k) def) as [[v r] a] end; cbn [fst snd]; try destruct a; reflexivity.
Qed.

Lemma calc_on_note_v_on_time w k def :
  Reserve.tr_v_on_time (snd (Reserve.calc_on_note w k def)) = Reserve.tr_v_on_time k /\
  Reserve.tr_v_on_time_start (snd (Reserve.calc_on_note w k def)) = Reserve.tr_v_on_time_start k /\
  Reserve.tr_events (snd (Reserve.calc_on_note w k def)) = Reserve.tr_events k.
Proof.
  destruct w; unfold Reserve.calc_on_note, Reserve.calc_v_on_note, Reserve.calc_qlen_on_note, Reserve.calc_t_on_note,
    Reserve.calc_o_on_note, Reserve.calc_l_on_note;
  match goal with |- context [Reserve.on_note_step ?c ?r def] => destruct (Reserve.on_note_step c r def) as [[v r'] a] end;
  cbn [snd]; try destruct a; repeat split.
Qed.

Lemma rstart_ok_on_note w d st k def : rstart_ok d st k -> rstart_ok d st (snd (Reserve.calc_on_note w k def)).
Proof. unfold rstart_ok. destruct (calc_on_note_v_on_time w k def) as [-> [-> _]]. exact (fun H => H). Qed.

(* the six calc_* calls of a note, in the order of the code *)
Theorem rsv_on_note_shift d n st k v tm q : rstart_ok d st k ->
  exists st', rsv_on_note (rshift d n st k) v tm q
              = (fst (rsv_on_note k v tm q), rshift d n st' (snd (rsv_on_note k v tm q))) /\
              rstart_ok d st' (snd (rsv_on_note k v tm q)) /\
              Reserve.tr_events (snd (rsv_on_note k v tm q)) = Reserve.tr_events k.
Proof.
  intros Hst. unfold rsv_on_note.
  destruct (calc_v_on_time_shift d n st k v Hst) as (st1 & E1 & H1). rewrite E1.
  pose proof (RsvP.calc_v_on_time_core k v) as (_ & _ & Ev0).
  destruct (Reserve.calc_v_on_time k v) as [v1 k1]. cbn [fst snd] in H1, Ev0 |- *.
  change Reserve.calc_v_on_note with (Reserve.calc_on_note Reserve.WV).
  change Reserve.calc_t_on_note with (Reserve.calc_on_note Reserve.WT).
  change Reserve.calc_qlen_on_note with (Reserve.calc_on_note Reserve.WQ).
  change Reserve.calc_o_on_note with (Reserve.calc_on_note Reserve.WO).
  change Reserve.calc_l_on_note with (Reserve.calc_on_note Reserve.WL).
  rewrite calc_on_note_shift.
  pose proof (rstart_ok_on_note Reserve.WV d st1 k1 v1 H1) as H2.
  pose proof (calc_on_note_v_on_time Reserve.WV k1 v1) as (_ & _ & Ev1).
  destruct (Reserve.calc_on_note Reserve.WV k1 v1) as [v2 k2]. cbn [fst snd] in H2, Ev1 |- *.
  rewrite calc_on_note_shift.
  pose proof (rstart_ok_on_note Reserve.WT d st1 k2 tm H2) as H3.
  pose proof (calc_on_note_v_on_time Reserve.WT k2 tm) as (_ & _ & Ev2).
  destruct (Reserve.calc_on_note Reserve.WT k2 tm) as [t1 k3]. cbn [fst snd] in H3, Ev2 |- *.
  rewrite calc_on_note_shift.
  pose proof (rstart_ok_on_note Reserve.WQ d st1 k3 q H3) as H4.
  pose proof (calc_on_note_v_on_time Reserve.WQ k3 q) as (_ & _ & Ev3).
  destruct (Reserve.calc_on_note Reserve.WQ k3 q) as [q1 k4]. cbn [fst snd] in H4, Ev3 |- *.
  rewrite calc_on_note_shift.
  pose proof (rstart_ok_on_note Reserve.WO d st1 k4 (-1) H4) as H5.
  pose proof (calc_on_note_v_on_time Reserve.WO k4 (-1)) as (_ & _ & Ev4).
  destruct (Reserve.calc_on_note Reserve.WO k4 (-1)) as [o1 k5]. cbn [fst snd] in H5, Ev4 |- *.
  rewrite calc_on_note_shift.
  pose proof (rstart_ok_on_note Reserve.WL d st1 k5 (-1) H5) as H6.
  pose proof (calc_on_note_v_on_time Reserve.WL k5 (-1)) as (_ & _ & Ev5).
  destruct (Reserve.calc_on_note Reserve.WL k5 (-1)) as [l1 k6]. cbn [fst snd] in H6, Ev5 |- *.
  exists st1. split; [reflexivity|]. split; [exact H6|]. congruence.
Qed.

(* ------------------------------------------------------------------------------------------------ *)
(* 2. the pipeline track moved by L                                                                   *)

Definition rsv_set_start (r : rsv) (st : Z) : rsv :=
  mkRsv st (rv_v_on_time r) (rv_v r) (rv_q r) (rv_t r) (rv_o r) (rv_l r) (rv_freq r) (rv_cc_on_note r) (rv_cc_on_note_wave r)
        (rv_v_rand r) (rv_q_rand r) (rv_t_rand r) (rv_o_rand r).
(* TimeP.shift_track, and the start tick of the v.onTime ramp is st *)
Definition shift_track_r (L : Z) (n : nat) (st : Z) (t : track) : track :=
  mkTrack (tr_timepos t + L) (tr_channel t) (tr_length t) (tr_octave t) (tr_velocity t) (tr_qlen t) (tr_timing t) (tr_track_key t)
          (tr_tie_mode t) (tr_tie_value t) (tr_bend_range t) (shift_tail L n (tr_events t)) (tr_tie_notes t)
          (rsv_set_start (tr_rsv t) st).
Definition start_ok (L st : Z) (t : track) : Prop :=
  rv_v_on_time (tr_rsv t) <> None -> st = rv_v_on_time_start (tr_rsv t) + L.

Lemma shift_track_r_is L n st t : shift_track_r L n st t = tr_set_rsv (shift_track L n t) (rsv_set_start (tr_rsv t) st).
Proof. reflexivity. Qed.
Lemma shift_track_r_idle L n t : tr_rsv t = rsv_new -> shift_track_r L n (-1) t = shift_track L n t.
Proof. intros H. destruct t as [x1 x2 x3 x4 x5 x6 x7 x8 x9 x10 x11 x12 x13 x14]. cbn [tr_rsv] in H. subst x14. reflexivity. Qed.

(* t' is t moved by L: no tie pending, the first n events kept *)
Definition trk_rel (L : Z) (n : nat) (t t' : track) : Prop :=
  (n <= length (tr_events t))%nat /\ tr_tie_notes t = [] /\ exists st, t' = shift_track_r L n st t /\ start_ok L st t.

Ltac prj :=
  cbn [shift_track_r rsv_set_start tr_timepos tr_channel tr_length tr_octave tr_velocity tr_qlen tr_timing tr_track_key tr_tie_mode
       tr_tie_value tr_bend_range tr_events tr_tie_notes tr_rsv rv_v_on_time_start rv_v_on_time rv_v rv_q rv_t rv_o rv_l rv_freq
       rv_cc_on_note rv_cc_on_note_wave rv_v_rand rv_q_rand rv_t_rand rv_o_rand].
Ltac prj_in H :=
  cbn [shift_track_r rsv_set_start tr_timepos tr_channel tr_length tr_octave tr_velocity tr_qlen tr_timing tr_track_key tr_tie_mode
       tr_tie_value tr_bend_range tr_events tr_tie_notes tr_rsv rv_v_on_time_start rv_v_on_time rv_v rv_q rv_t rv_o rv_l rv_freq
       rv_cc_on_note rv_cc_on_note_wave rv_v_rand rv_q_rand rv_t_rand rv_o_rand] in H.

(* a setter that touches neither the events, the pending ties nor the ramp: both sides do the same *)
Ltac trk_same H :=
  let Hn := fresh "Hn" in let Ht := fresh "Ht" in let st := fresh "st" in let Hst := fresh "Hst" in
  destruct H as (Hn & Ht & st & -> & Hst);
  split; [exact Hn|split; [exact Ht|exists st; split; [reflexivity|exact Hst]]].

Section TrackRel.
  Variables (L : Z) (n : nat).
  Local Notation rel := (trk_rel L n).

  Lemma trk_rel_fields t t' : rel t t' ->
    tr_timepos t' = tr_timepos t + L /\ tr_channel t' = tr_channel t /\ tr_length t' = tr_length t /\
    tr_octave t' = tr_octave t /\ tr_velocity t' = tr_velocity t /\ tr_qlen t' = tr_qlen t /\ tr_timing t' = tr_timing t /\
    tr_track_key t' = tr_track_key t /\ tr_tie_notes t' = [] /\
    tr_events t' = shift_tail L n (tr_events t).
  Proof. intros (Hn & Ht & st & -> & Hst). repeat split; try reflexivity. exact Ht. Qed.

  Lemma trk_rel_set_timepos t t' x : rel t t' -> rel (tr_set_timepos t x) (tr_set_timepos t' (x + L)).
  Proof. intros H. trk_same H. Qed.
  Lemma trk_rel_add_timepos t t' x : rel t t' -> rel (tr_set_timepos t (tr_timepos t + x)) (tr_set_timepos t' (tr_timepos t' + x)).
  Proof.
    intros H. destruct H as (Hn & Ht & st & -> & Hst).
    split; [exact Hn|split; [exact Ht|exists st; split; [|exact Hst]]].
    unfold tr_set_timepos, shift_track_r. prj. f_equal. lia.
  Qed.
  Lemma trk_rel_set_length t t' x : rel t t' -> rel (tr_set_length t x) (tr_set_length t' x).
  Proof. intros H. trk_same H. Qed.
  Lemma trk_rel_set_octave t t' x : rel t t' -> rel (tr_set_octave t x) (tr_set_octave t' x).
  Proof. intros H. trk_same H. Qed.
  Lemma trk_rel_set_velocity t t' x : rel t t' -> rel (tr_set_velocity t x) (tr_set_velocity t' x).
  Proof. intros H. trk_same H. Qed.
  Lemma trk_rel_set_qlen t t' x : rel t t' -> rel (tr_set_qlen t x) (tr_set_qlen t' x).
  Proof. intros H. trk_same H. Qed.
  Lemma trk_rel_set_timing t t' x : rel t t' -> rel (tr_set_timing t x) (tr_set_timing t' x).
  Proof. intros H. trk_same H. Qed.
  Lemma trk_rel_set_channel t t' x : rel t t' -> rel (tr_set_channel t x) (tr_set_channel t' x).
  Proof. intros H. trk_same H. Qed.
  Lemma trk_rel_set_track_key t t' x : rel t t' -> rel (tr_set_track_key t x) (tr_set_track_key t' x).
  Proof. intros H. trk_same H. Qed.
  Lemma trk_rel_set_tie_mode t t' a b : rel t t' -> rel (set_tie_mode t a b) (set_tie_mode t' a b).
  Proof. intros H. trk_same H. Qed.
  Lemma trk_rel_set_rand t t' w x : rel t t' -> rel (rsv_set_rand w x t) (rsv_set_rand w x t').
  Proof. intros H. destruct w; trk_same H. Qed.

  Lemma trk_rel_push_events t t' E : rel t t' -> rel (tr_push_events t E) (tr_push_events t' (map (shift_ev L) E)).
  Proof.
    intros (Hn & Ht & st & -> & Hst). split; [|split; [exact Ht|exists st; split; [|exact Hst]]].
    - unfold tr_push_events. cbn [tr_set_events tr_events]. rewrite app_length. lia.
    - unfold tr_push_events, tr_set_events, shift_track_r. prj. rewrite shift_tail_app by exact Hn. reflexivity.
  Qed.
  Lemma trk_rel_push_event t t' e : rel t t' -> rel (tr_push_event t e) (tr_push_event t' (shift_ev L e)).
  Proof. apply (trk_rel_push_events t t' [e]). Qed.

  (* a Reserve method used through the conversion *)
  Lemma to_rtrack_shift st t : to_rtrack (shift_track_r L n st t) = rshift L n st (to_rtrack t).
  Proof. reflexivity. Qed.
  Lemma of_rtrack_shift st st' t k : of_rtrack (shift_track_r L n st t) (rshift L n st' k) = shift_track_r L n st' (of_rtrack t k).
  Proof. reflexivity. Qed.

  Lemma on_rt_rel f g t t' : rel t t' ->
    (forall st k, (n <= length (Reserve.tr_events k))%nat -> rstart_ok L st k ->
       (length (Reserve.tr_events k) <= length (Reserve.tr_events (f k)))%nat /\
       exists st', g (rshift L n st k) = rshift L n st' (f k) /\ rstart_ok L st' (f k)) ->
    rel (on_rt t f) (on_rt t' g).
  Proof.
    intros (Hn & Ht & st & -> & Hst) Hf.
    destruct (Hf st (to_rtrack t) Hn Hst) as (Hlen & st' & Eg & Hst').
    split; [|split; [exact Ht|exists st'; split; [|exact Hst']]].
    - unfold on_rt. cbn [of_rtrack tr_events]. cbn [to_rtrack Reserve.tr_events] in Hlen. lia.
    - unfold on_rt. rewrite to_rtrack_shift, Eg. apply of_rtrack_shift.
  Qed.

  (* the same start tick, events only appended *)
  Lemma on_rt_rel_same f t t' : rel t t' ->
    (forall st k, (n <= length (Reserve.tr_events k))%nat ->
       (length (Reserve.tr_events k) <= length (Reserve.tr_events (f k)))%nat /\
       f (rshift L n st k) = rshift L n st (f k) /\
       Reserve.tr_v_on_time (f k) = Reserve.tr_v_on_time k /\ Reserve.tr_v_on_time_start (f k) = Reserve.tr_v_on_time_start k) ->
    rel (on_rt t f) (on_rt t' f).
  Proof.
    intros H Hf. apply on_rt_rel; [exact H|]. intros st k Hn Hst. destruct (Hf st k Hn) as (A & B & C & D).
    split; [exact A|]. exists st. split; [exact B|]. unfold rstart_ok. rewrite C, D. exact Hst.
  Qed.

  Lemma rsv_clear_rel w t t' : rel t t' -> rel (rsv_clear w t) (rsv_clear w t').
  Proof.
    intros H. unfold rsv_clear. apply on_rt_rel; [exact H|]. intros st k Hn Hst.
    split; [destruct w; cbn; lia|]. exists st. split; [destruct w; reflexivity|].
    unfold rstart_ok in *. destruct w; cbn in *; try exact Hst. intros E. exfalso. apply E. reflexivity.
  Qed.

  Lemma rsv_set_on_note_rel w cyc ia t t' : rel t t' -> rel (rsv_set_on_note w cyc ia t) (rsv_set_on_note w cyc ia t').
  Proof.
    intros H. unfold rsv_set_on_note. apply on_rt_rel; [exact H|]. intros st k Hn Hst.
    split; [destruct w; cbn; lia|]. exists st. split; [destruct w; reflexivity|].
    unfold rstart_ok in *. destruct w; cbn in *; try exact Hst. intros E. exfalso. apply E. reflexivity.
  Qed.

  (* v.onTime: the ramp starts at the pointer - L later on the moved track *)
  Lemma rsv_set_v_on_time_rel ia t t' : rel t t' -> rel (rsv_set_v_on_time ia t) (rsv_set_v_on_time ia t').
  Proof.
    intros H. unfold rsv_set_v_on_time. apply on_rt_rel; [exact H|]. intros st k Hn Hst.
    split; [cbn; lia|]. exists (Reserve.tr_timepos k + L). split; [reflexivity|]. intros _. reflexivity.
  Qed.

  Lemma cc_on_time_rel no ia t t' : rel t t' ->
    rel (on_rt t (fun k => Reserve.write_cc_on_time (Reserve.remove_cc_on k no) no ia))
        (on_rt t' (fun k => Reserve.write_cc_on_time (Reserve.remove_cc_on k no) no ia)).
  Proof.
    intros H. apply on_rt_rel_same; [exact H|]. intros st k Hn.
    split; [apply (write_cc_on_time_length (Reserve.remove_cc_on k no))|].
    split; [rewrite remove_cc_on_shift; apply write_cc_on_time_shift; exact Hn|]. split; reflexivity.
  Qed.
  Lemma cc_on_time_plain_rel no ia t t' : rel t t' ->
    rel (on_rt t (fun k => Reserve.write_cc_on_time k no ia)) (on_rt t' (fun k => Reserve.write_cc_on_time k no ia)).
  Proof.
    intros H. apply on_rt_rel_same; [exact H|]. intros st k Hn.
    split; [apply write_cc_on_time_length|]. split; [apply write_cc_on_time_shift; exact Hn|]. split; reflexivity.
  Qed.
  Lemma pb_on_time_rel big ia tb t t' : rel t t' ->
    rel (on_rt t (fun k => Reserve.write_pb_on_time k big ia tb)) (on_rt t' (fun k => Reserve.write_pb_on_time k big ia tb)).
  Proof.
    intros H. apply on_rt_rel_same; [exact H|]. intros st k Hn.
    split; [unfold Reserve.write_pb_on_time; cbn [Reserve.set_events Reserve.tr_events]; rewrite app_length; lia|].
    split; [apply write_pb_on_time_shift; exact Hn|]. split; reflexivity.
  Qed.
  Lemma set_cc_on_note_rel no ia t t' : rel t t' ->
    rel (on_rt t (fun k => Reserve.set_cc_on_note k no ia)) (on_rt t' (fun k => Reserve.set_cc_on_note k no ia)).
  Proof. intros H. apply on_rt_rel_same; [exact H|]. intros st k Hn. repeat split. cbn. lia. Qed.
  Lemma set_cc_on_note_wave_rel no ia t t' : rel t t' ->
    rel (on_rt t (fun k => Reserve.set_cc_on_note_wave k no ia)) (on_rt t' (fun k => Reserve.set_cc_on_note_wave k no ia)).
  Proof. intros H. apply on_rt_rel_same; [exact H|]. intros st k Hn. repeat split. cbn. lia. Qed.
  Lemma set_freq_rel v t t' : rel t t' ->
    rel (on_rt t (fun k => Reserve.set_freq k v)) (on_rt t' (fun k => Reserve.set_freq k v)).
  Proof. intros H. apply on_rt_rel_same; [exact H|]. intros st k Hn. repeat split. cbn. lia. Qed.
  Lemma remove_wave_rel no t t' : rel t t' ->
    rel (on_rt t (fun k => Reserve.remove_cc_on_note_wave k no)) (on_rt t' (fun k => Reserve.remove_cc_on_note_wave k no)).
  Proof. intros H. apply on_rt_rel_same; [exact H|]. intros st k Hn. repeat split. cbn. lia. Qed.

  (* write_cc_on_note(start); write_cc_on_note_wave(start) *)
  Lemma write_cc_notes_rel sp t t' : rel t t' -> rel (write_cc_notes t sp) (write_cc_notes t' (sp + L)).
  Proof.
    intros H. unfold write_cc_notes. apply on_rt_rel; [exact H|]. intros st k Hn Hst.
    pose proof (write_cc_on_note_length k sp) as H1.
    destruct (RsvP.write_cc_on_note_wave_ext (Reserve.write_cc_on_note k sp) sp) as (E & cl & cw & _ & EE).
    split.
    - rewrite EE. cbn [Reserve.set_cc_wave_list Reserve.set_cc_list Reserve.set_events Reserve.tr_events]. rewrite app_length. lia.
    - exists st. split.
      + rewrite write_cc_on_note_shift by exact Hn. apply write_cc_on_note_wave_shift. lia.
      + unfold rstart_ok. rewrite EE. exact Hst.
  Qed.

  (* the six calc_* calls *)
  Lemma rsv_advance_rel v tm q t t' : rel t t' -> rel (rsv_advance t v tm q) (rsv_advance t' v tm q).
  Proof.
    intros H. change (rsv_advance t v tm q) with (on_rt t (fun k => snd (rsv_on_note k v tm q))).
    change (rsv_advance t' v tm q) with (on_rt t' (fun k => snd (rsv_on_note k v tm q))).
    apply on_rt_rel; [exact H|]. intros st k Hn Hst.
    destruct (rsv_on_note_shift L n st k v tm q Hst) as (st' & E & Hst' & Ev).
    split; [rewrite Ev; lia|]. exists st'. split; [rewrite E; reflexivity|exact Hst'].
  Qed.
  Lemma rsv_values_rel v tm q t t' : rel t t' ->
    fst (rsv_on_note (to_rtrack t') v tm q) = fst (rsv_on_note (to_rtrack t) v tm q).
  Proof.
    intros (Hn & Ht & st & -> & Hst). rewrite to_rtrack_shift.
    destruct (rsv_on_note_shift L n st (to_rtrack t) v tm q Hst) as (st' & E & _). rewrite E. reflexivity.
  Qed.
End TrackRel.

(* ------------------------------------------------------------------------------------------------ *)
(* 3. the state moved by L, reservations included                                                     *)

Definition shift_state_r (L : Z) (n : nat) (h st : Z) (s : song) : song :=
  s_set_harmony_events (s_set_harmony_time (upd_cur s (shift_track_r L n st)) h) (map (shift_ev L) (s_harmony_events s)).

(* TimeP.shifted without "nothing is reserved": the reservation state is the same, except that the start tick of a
   pending v.onTime ramp is L later too *)
Definition shifted_r (L : Z) (n : nat) (s s' : song) : Prop :=
  cur_valid s /\ (n <= length (tr_events (cur_track s)))%nat /\ tr_tie_notes (cur_track s) = [] /\
  exists h st, s' = shift_state_r L n h st s /\ (s_harmony_flag s = true -> h = s_harmony_time s + L) /\
               start_ok L st (cur_track s).

Definition shifted_r_res (L : Z) (n : nat) (r r' : res song) : Prop :=
  match r, r' with
  | Ok s, Ok s' => shifted_r L n s s'
  | Panic a, Panic b => a = b
  | OutOfFuel, OutOfFuel => True
  | Unsupported a, Unsupported b => a = b
  | _, _ => False
  end.

(* the fragment: TimeP.shiftable and every reservation command *)
Fixpoint shiftable_r (t : tok) : bool :=
  match t with
  | TNote _ _ _ _ _ _ _ _ slur => slur <? 1
  | TDiv _ _ ch => forallb shiftable_r ch
  | TSub ch => forallb shiftable_r ch
  | TLineNo _ | TNoteN _ _ _ _ _ _ | TRest _ _ | TLength _ | TOctave _ | TOctaveRel _ | TOctaveOnce _
  | TVelocity _ _ | TVelocityRel _ | TQLen _ | TQLenRel _ | TTiming _ | TLoopBegin _ | TLoopBreak | TLoopEnd
  | THarmonyBegin | THarmonyEnd _ _ _ | TChannel _ | TVoice _ | TKeyFlag _ | TKeyShift _ | TTrackKey _ | TComment
  | TTimeSignature _ | TMeasureShift _ | TTempo _ | TVAdd _ | TQAdd _ | TTieMode _
  | TCC _ _ | TPitchBend _ _ | TRpnCmd _ _ _ _ | TRpnDirect _ _
  | TMetaText _ _ | TPort _ | TTempoChange _ _ | TSysEx _ _ | TSysexReset _ | TSysExCommand _ _ | TGSEffect _ _ _
  | TDeviceNumber _
  | TRandom _ _ | TOnNote _ _ _ | TVOnTime _ | TCCOnTime _ _ | TCCOnNote _ _ | TCCOnNoteWave _ _ | TCCFreq _
  | TPBOnTime _ _ | TDecresc _ _ _ => true
  | _ => false
  end.

Lemma shiftable_is_shiftable_r : forall t, shiftable t = true -> shiftable_r t = true.
Proof.
  fix IH 1. intros t. destruct t; cbn [shiftable shiftable_r]; try (intros H; exact H); try (intros H; discriminate H).
  - induction children as [|c r IHr]; [reflexivity|]. cbn [forallb]. intros H. apply andb_prop in H. destruct H as [H1 H2].
    rewrite (IH c H1). exact (IHr H2).
  - induction children as [|c r IHr]; [reflexivity|]. cbn [forallb]. intros H. apply andb_prop in H. destruct H as [H1 H2].
    rewrite (IH c H1). exact (IHr H2).
Qed.
Lemma shiftable_list_r X : forallb shiftable X = true -> forallb shiftable_r X = true.
Proof.
  induction X as [|c r IH]; [reflexivity|]. cbn [forallb]. intros H. apply andb_prop in H. destruct H as [H1 H2].
  rewrite (shiftable_is_shiftable_r c H1). exact (IH H2).
Qed.

(* the state with the current track replaced *)
Definition put (L h : Z) (t' : track) (s : song) : song :=
  s_set_harmony_events (s_set_harmony_time (upd_cur s (fun _ => t')) h) (map (shift_ev L) (s_harmony_events s)).

Lemma shift_state_r_put L n h st s : shift_state_r L n h st s = put L h (shift_track_r L n st (cur_track s)) s.
Proof.
  unfold shift_state_r, put, upd_cur. do 3 f_equal.
  apply (IdleP.i_upd_nth_at _ _ (track_new 0 0)). intros _. reflexivity.
Qed.

Lemma cur_track_put L h t' s : cur_valid s -> cur_track (put L h t' s) = t'.
Proof.
  intros H. unfold cur_track, put, upd_cur. cbn [s_tracks s_cur s_set_tracks s_set_harmony_time s_set_harmony_events].
  rewrite t_nth_upd_nth_eq by exact H. reflexivity.
Qed.

Lemma upd_cur_put L h t' s f g : upd_cur (put L h t' s) g = put L h (g t') (upd_cur s f).
Proof.
  unfold put, upd_cur. cbn [s_tracks s_cur s_harmony_events s_set_tracks s_set_harmony_time s_set_harmony_events].
  rewrite !t_upd_nth_upd_nth. reflexivity.
Qed.

Lemma shifted_r_intro L n h t' s : cur_valid s -> trk_rel L n (cur_track s) t' ->
  (s_harmony_flag s = true -> h = s_harmony_time s + L) -> shifted_r L n s (put L h t' s).
Proof.
  intros Hc (Hn & Ht & st & -> & Hst) Hh. split; [exact Hc|]. split; [exact Hn|]. split; [exact Ht|].
  exists h, st. split; [symmetry; apply shift_state_r_put|]. split; [exact Hh|exact Hst].
Qed.

Lemma shifted_r_elim L n s s' : shifted_r L n s s' ->
  cur_valid s /\ exists h t', trk_rel L n (cur_track s) t' /\ s' = put L h t' s /\ (s_harmony_flag s = true -> h = s_harmony_time s + L).
Proof.
  intros (Hc & Hn & Ht & h & st & -> & Hh & Hst). split; [exact Hc|]. exists h, (shift_track_r L n st (cur_track s)).
  split; [|split; [apply shift_state_r_put|exact Hh]].
  split; [exact Hn|]. split; [exact Ht|]. exists st. split; [reflexivity|exact Hst].
Qed.

(* TimeP's relation is the special case "nothing reserved" *)
Lemma shifted_is_shifted_r L n s s' : shifted L n s s' -> shifted_r L n s s'.
Proof.
  intros (Hc & Hn & Ht & Hi & h & -> & Hh). split; [exact Hc|]. split; [exact Hn|]. split; [exact Ht|].
  exists h, (-1). split; [|split; [exact Hh|]].
  - unfold shift_state, shift_state_r, upd_cur. do 3 f_equal.
    apply (IdleP.i_upd_nth_at _ _ (track_new 0 0)). intros _. symmetry. apply shift_track_r_idle. exact Hi.
  - unfold start_ok. rewrite Hi. intros E. exfalso. apply E. reflexivity.
Qed.

(* a track-only arm; G may differ from F in what it reads from the moved state *)
Lemma arm_upd L n h t' s F G : cur_valid s -> (s_harmony_flag s = true -> h = s_harmony_time s + L) ->
  trk_rel L n (F (cur_track s)) (G t') -> shifted_r L n (upd_cur s F) (upd_cur (put L h t' s) G).
Proof.
  intros Hc Hh Hr. rewrite (upd_cur_put L h t' s F G). apply shifted_r_intro.
  - apply t_cur_valid_upd_cur. exact Hc.
  - rewrite t_cur_track_upd_cur by exact Hc. exact Hr.
  - exact Hh.
Qed.

Lemma add_log_put L h t' s m : add_log (put L h t' s) m = put L h t' (add_log s m).
Proof. unfold add_log. change (s_logs (put L h t' s)) with (s_logs s). destruct (_ <=? _); reflexivity. Qed.

(* ---- TempoChange: every step of the ramp keeps the translation (as TimeP.shifted_exec_tempo_change; the arm writes
   tempo events from the pointer on and puts the pointer back - it never looks at the reservations) ---- *)
Lemma shifted_r_tempo_change L n s s' v : shifted_r L n s s' -> shifted_r L n (tempo_change s v) (tempo_change s' v).
Proof.
  intros H. destruct (shifted_r_elim L n s s' H) as (Hc & h & t' & Hr & -> & Hh). unfold tempo_change.
  rewrite (cur_track_put L h t' s Hc). destruct (trk_rel_fields L n _ _ Hr) as (-> & _).
  set (G := fun x : song => s_set_time x v (s_timesig_frac x) (s_timesig_deno x) (s_measure_shift x)).
  change (s_set_time (put L h t' s) v (s_timesig_frac (put L h t' s)) (s_timesig_deno (put L h t' s)) (s_measure_shift (put L h t' s)))
    with (put L h t' (G s)).
  change (s_set_time s v (s_timesig_frac s) (s_timesig_deno s) (s_measure_shift s)) with (G s).
  apply (arm_upd L n h t' (G s)); [exact Hc|exact Hh|]. change (cur_track (G s)) with (cur_track s).
  apply (trk_rel_push_event L n). exact Hr.
Qed.
Lemma shifted_r_move L n s s' d : shifted_r L n s s' ->
  shifted_r L n (upd_cur s (fun t => tr_set_timepos t (tr_timepos t + d))) (upd_cur s' (fun t => tr_set_timepos t (tr_timepos t + d))).
Proof.
  intros H. destruct (shifted_r_elim L n s s' H) as (Hc & h & t' & Hr & -> & Hh).
  apply arm_upd; [exact Hc|exact Hh|]. apply trk_rel_add_timepos. exact Hr.
Qed.
Lemma shifted_r_set_pos L n s s' p : shifted_r L n s s' ->
  shifted_r L n (upd_cur s (fun t => tr_set_timepos t p)) (upd_cur s' (fun t => tr_set_timepos t (p + L))).
Proof.
  intros H. destruct (shifted_r_elim L n s s' H) as (Hc & h & t' & Hr & -> & Hh).
  apply arm_upd; [exact Hc|exact Hh|]. apply trk_rel_set_timepos. exact Hr.
Qed.
Lemma shifted_r_ramp_loop L n a w st cnt : forall idx s s', shifted_r L n s s' ->
  shifted_r L n (tempo_ramp_loop s a w st cnt idx) (tempo_ramp_loop s' a w st cnt idx).
Proof.
  induction idx as [|i r IH]; intros s s' H; [exact H|]. cbn [tempo_ramp_loop].
  apply IH, shifted_r_move, shifted_r_tempo_change, H.
Qed.
Lemma shifted_r_pos L n s s' : shifted_r L n s s' -> tr_timepos (cur_track s') = tr_timepos (cur_track s) + L.
Proof.
  intros H. destruct (shifted_r_elim L n s s' H) as (Hc & h & t' & Hr & -> & Hh).
  rewrite (cur_track_put L h t' s Hc). destruct (trk_rel_fields L n _ _ Hr) as (-> & _). reflexivity.
Qed.
Lemma shifted_r_globals L n s s' : shifted_r L n s s' -> s_timebase s' = s_timebase s /\ s_tempo s' = s_tempo s.
Proof. intros (_ & _ & _ & h & st & -> & _). split; reflexivity. Qed.
Lemma shifted_r_a_to_b L n s s' a b len : shifted_r L n s s' ->
  shifted_r_res L n (tempo_change_a_to_b s a b len) (tempo_change_a_to_b s' a b len).
Proof.
  intros H. unfold tempo_change_a_to_b. destruct (shifted_r_globals L n s s' H) as [-> _]. rewrite (shifted_r_pos L n s s' H).
  destruct (_ =? 0); [reflexivity|]. destruct (RAMP_MAX <? len); [reflexivity|].
  cbn [shifted_r_res].
  replace (tr_timepos (cur_track s) + L + len) with (tr_timepos (cur_track s) + len + L) by lia.
  apply shifted_r_set_pos, shifted_r_tempo_change, shifted_r_set_pos, shifted_r_ramp_loop, H.
Qed.
Lemma shifted_r_exec_tempo_change L n s s' a rest : shifted_r L n s s' ->
  shifted_r_res L n (exec_tempo_change s a rest) (exec_tempo_change s' a rest).
Proof.
  intros H. unfold exec_tempo_change. destruct (shifted_r_globals L n s s' H) as [_ ->].
  destruct rest as [|b [|len [|x r]]]; try (apply shifted_r_a_to_b, H); cbn [shifted_r_res]; apply shifted_r_tempo_change, H.
Qed.

Section StepShiftR.
  Variables (L : Z) (n : nat).
  Variable ec : list tok -> res song -> res song.

  Definition respects_r : Prop :=
    forall X r r', forallb shiftable_r X = true -> shifted_r_res L n r r' -> shifted_r_res L n (ec X r) (ec X r').

  Local Notation rel := (trk_rel L n).

  (* the tail of emit_note for a lettered note *)
  Lemma emit_tail_rel ev slur sp (s2 : song) h2 t2' :
    cur_valid s2 -> rel (cur_track s2) t2' -> (s_harmony_flag s2 = true -> h2 = s_harmony_time s2 + L) -> slur <? 1 = true ->
    shifted_r_res L n
      (if s_harmony_flag s2 then
         Ok (s_set_harmony (upd_cur s2 (fun t => tr_set_timepos t (s_harmony_time s2))) true (s_harmony_time s2)
                           (s_harmony_events s2 ++ [ev]))
       else if slur >=? 1 then Ok (upd_cur s2 (fun t => push_tie_note t ev))
       else if negb (match tr_tie_notes (cur_track s2) with [] => true | _ => false end) then
         Ok (upd_cur s2 (fun t => check_tie_notes (s_timebase s2) (push_tie_note t ev)))
       else Ok (upd_cur s2 (fun t => tr_push_event (write_cc_notes t sp) ev)))
      (let s2' := put L h2 t2' s2 in let ev' := shift_ev L ev in
       if s_harmony_flag s2' then
         Ok (s_set_harmony (upd_cur s2' (fun t => tr_set_timepos t (s_harmony_time s2'))) true (s_harmony_time s2')
                           (s_harmony_events s2' ++ [ev']))
       else if slur >=? 1 then Ok (upd_cur s2' (fun t => push_tie_note t ev'))
       else if negb (match tr_tie_notes (cur_track s2') with [] => true | _ => false end) then
         Ok (upd_cur s2' (fun t => check_tie_notes (s_timebase s2') (push_tie_note t ev')))
       else Ok (upd_cur s2' (fun t => tr_push_event (write_cc_notes t (sp + L)) ev'))).
  Proof.
    intros Hc2 Hr2 Hh2 Hs. cbv zeta.
    change (s_harmony_flag (put L h2 t2' s2)) with (s_harmony_flag s2).
    destruct (s_harmony_flag s2) eqn:F.
    - change (s_harmony_time (put L h2 t2' s2)) with h2.
      change (s_harmony_events (put L h2 t2' s2)) with (map (shift_ev L) (s_harmony_events s2)).
      rewrite (Hh2 eq_refl).
      rewrite (upd_cur_put L _ t2' s2 (fun t => tr_set_timepos t (s_harmony_time s2))).
      set (Y := upd_cur s2 (fun t => tr_set_timepos t (s_harmony_time s2))).
      set (t3' := tr_set_timepos t2' (s_harmony_time s2 + L)).
      replace (s_set_harmony (put L (s_harmony_time s2 + L) t3' Y) true (s_harmony_time s2 + L)
                 (map (shift_ev L) (s_harmony_events s2) ++ [shift_ev L ev]))
        with (put L (s_harmony_time s2 + L) t3' (s_set_harmony Y true (s_harmony_time s2) (s_harmony_events s2 ++ [ev])))
        by (unfold put, s_set_harmony; cbn [s_harmony_events s_set_harmony_events s_set_harmony_time s_set_harmony_flag];
            rewrite map_app; reflexivity).
      cbn [shifted_r_res]. apply shifted_r_intro.
      + apply (t_cur_valid_upd_cur s2). exact Hc2.
      + change (cur_track (s_set_harmony Y true (s_harmony_time s2) (s_harmony_events s2 ++ [ev]))) with (cur_track Y).
        unfold Y. rewrite t_cur_track_upd_cur by exact Hc2. apply trk_rel_set_timepos. exact Hr2.
      + intros _. reflexivity.
    - replace (slur >=? 1) with false by lia.
      rewrite (cur_track_put L h2 t2' s2 Hc2).
      destruct (trk_rel_fields L n _ _ Hr2) as (_ & _ & _ & _ & _ & _ & _ & _ & Ht' & _). rewrite Ht'.
      destruct Hr2 as (Hn2 & Ht2 & Hx). rewrite Ht2. cbn [negb shifted_r_res].
      apply arm_upd; [exact Hc2|intros E; rewrite F in E; discriminate|].
      apply trk_rel_push_event, write_cc_notes_rel. split; [exact Hn2|split; [exact Ht2|exact Hx]].
  Qed.

  (* emit_note on two related states *)
  Lemma emit_note_rel (s2 : song) h2 t2' ev nl b slur :
    cur_valid s2 -> rel (cur_track s2) t2' -> (s_harmony_flag s2 = true -> h2 = s_harmony_time s2 + L) ->
    (b = true -> slur <? 1 = true) ->
    shifted_r_res L n (emit_note s2 ev nl b slur) (emit_note (put L h2 t2' s2) (shift_ev L ev) nl b slur).
  Proof.
    intros Hc2 Hr2 Hh2 Hb. unfold emit_note. cbv zeta. rewrite (cur_track_put L h2 t2' s2 Hc2).
    destruct (trk_rel_fields L n _ _ Hr2) as (Etp & _).
    destruct b.
    - specialize (Hb eq_refl). rewrite Etp.
      set (F1 := fun t => tr_set_timepos t (tr_timepos t + nl)).
      rewrite (upd_cur_put L h2 t2' s2 F1 F1). set (s1 := upd_cur s2 F1).
      assert (Hc1 : cur_valid s1) by (apply t_cur_valid_upd_cur; exact Hc2).
      assert (Hct1 : cur_track s1 = F1 (cur_track s2)) by (apply t_cur_track_upd_cur; exact Hc2).
      assert (Hr1 : rel (cur_track s1) (F1 t2')) by (rewrite Hct1; apply trk_rel_add_timepos; exact Hr2).
      change (s_octave_once (put L h2 (F1 t2') s1)) with (s_octave_once s1).
      destruct (s_octave_once s1 =? 0).
      + apply emit_tail_rel; assumption.
      + set (F2 := fun t => tr_set_octave t (tr_octave t - s_octave_once s1)).
        rewrite (upd_cur_put L h2 (F1 t2') s1 F2 F2).
        change (s_set_octave_once (put L h2 (F2 (F1 t2')) (upd_cur s1 F2)) 0)
          with (put L h2 (F2 (F1 t2')) (s_set_octave_once (upd_cur s1 F2) 0)).
        apply emit_tail_rel; try assumption.
        * apply (t_cur_valid_upd_cur s1 F2 Hc1).
        * change (cur_track (s_set_octave_once (upd_cur s1 F2) 0)) with (cur_track (upd_cur s1 F2)).
          rewrite t_cur_track_upd_cur by exact Hc1. unfold F2.
          destruct (trk_rel_fields L n _ _ Hr1) as (_ & _ & _ & -> & _). apply trk_rel_set_octave. exact Hr1.
    - cbn [shifted_r_res]. apply arm_upd; [exact Hc2|exact Hh2|].
      rewrite Etp. replace (tr_timepos (cur_track s2) + L + nl) with (tr_timepos (cur_track s2) + nl + L) by lia.
      apply trk_rel_set_timepos, trk_rel_push_event, write_cc_notes_rel. exact Hr2.
  Qed.

  (* commands that add events at the pointer of the current track *)
  Lemma add_events_rel_gen (s2 : song) h2 t2' f g :
    cur_valid s2 -> rel (cur_track s2) t2' -> (s_harmony_flag s2 = true -> h2 = s_harmony_time s2 + L) ->
    g (tr_timepos (cur_track s2) + L) (tr_channel (cur_track s2))
      = map (shift_ev L) (f (tr_timepos (cur_track s2)) (tr_channel (cur_track s2))) ->
    shifted_r L n (add_events s2 f) (add_events (put L h2 t2' s2) g).
  Proof.
    intros Hc2 Hr2 Hh2 Hf. rewrite !add_events_eq, (cur_track_put L h2 t2' s2 Hc2).
    destruct (trk_rel_fields L n _ _ Hr2) as (-> & -> & _). rewrite Hf.
    apply arm_upd; [exact Hc2|exact Hh2|]. apply trk_rel_push_events. exact Hr2.
  Qed.
  Lemma add_events_rel (s2 : song) h2 t2' f :
    cur_valid s2 -> rel (cur_track s2) t2' -> (s_harmony_flag s2 = true -> h2 = s_harmony_time s2 + L) ->
    (forall tp ch, f (tp + L) ch = map (shift_ev L) (f tp ch)) ->
    shifted_r L n (add_events s2 f) (add_events (put L h2 t2' s2) f).
  Proof.
    intros Hc2 Hr2 Hh2 Hf. rewrite !add_events_eq, (cur_track_put L h2 t2' s2 Hc2).
    destruct (trk_rel_fields L n _ _ Hr2) as (-> & -> & _). rewrite Hf.
    apply arm_upd; [exact Hc2|exact Hh2|]. apply trk_rel_push_events. exact Hr2.
  Qed.

  Section One.
  Variables (h : Z) (t' : track) (s : song).
  Hypothesis Hc : cur_valid s.
  Hypothesis Hr : rel (cur_track s) t'.
  Hypothesis Hh : s_harmony_flag s = true -> h = s_harmony_time s + L.

  Local Notation s' := (put L h t' s).

  Lemma ctp : cur_track s' = t'.
  Proof. apply cur_track_put. exact Hc. Qed.

  Lemma same_ok : shifted_r L n s s'.
  Proof. apply shifted_r_intro; assumption. Qed.

  (* an arm that changes global registers only (the function commutes with `put` by computation) *)
  Lemma glob_ok (s2 : song) : cur_valid s2 -> cur_track s2 = cur_track s -> s_harmony_flag s2 = s_harmony_flag s ->
    s_harmony_time s2 = s_harmony_time s -> shifted_r L n s2 (put L h t' s2).
  Proof. intros A B C D. apply shifted_r_intro; [exact A|rewrite B; exact Hr|rewrite C, D; exact Hh]. Qed.

  Lemma add_log_ok m : shifted_r L n (add_log s m) (add_log s' m).
  Proof.
    rewrite add_log_put. destruct (add_log_inv s m) as [I1 [I2 [I3 [I4 _]]]].
    apply glob_ok; unfold cur_valid, cur_track; rewrite ?I1, ?I2; try assumption; reflexivity.
  Qed.

  Hypothesis Hec : respects_r.

  Theorem step_shift_r t : shiftable_r t = true -> shifted_r_res L n (step_song ec t s) (step_song ec t s').
  Proof.
    intros Hs.
    pose proof (trk_rel_fields L n _ _ Hr) as (Etp & Ech & Elen & Eoct & Evel & Eql & Etm & Ekey & Etie & Eev).
    destruct t; cbn [shiftable_r] in Hs; try discriminate; cbn [step_song shifted_r_res].
    - (* TLineNo *) apply (glob_ok (s_set_lineno s ln)); try reflexivity; exact Hc.
    - (* TNote *)
      unfold exec_note. cbv zeta. unfold note_number, key_flag_at. rewrite !ctp.
      change (s_timebase s') with (s_timebase s). change (s_use_key_shift s') with (s_use_key_shift s).
      change (s_key_flag s') with (s_key_flag s). change (s_key_shift s') with (s_key_shift s).
      change (s_rand_seed s') with (s_rand_seed s).
      rewrite Etp, Ech, Elen, Eoct, Evel, Eql, Etm, Ekey.
      rewrite (rsv_values_rel L n _ _ _ _ _ Hr).
      destruct Hr as (Hn0 & Ht0 & st0 & Et' & Hst0).
      replace (tr_rsv t') with (rsv_set_start (tr_rsv (cur_track s)) st0) by (rewrite Et'; reflexivity).
      cbn [rsv_set_start rv_o_rand rv_v_rand rv_t_rand rv_q_rand].
      match goal with |- context [rsv_on_note ?k ?V ?T ?Q] => set (V0 := V); set (T0 := T); set (Q0 := Q) end.
      destruct (fst (rsv_on_note (to_rtrack (cur_track s)) V0 T0 Q0)) as [[[[v1 t1] q1] oa] lo].
      destruct (draw_octave _ _ _) as [no2 sd1]. destruct (draw sd1 _ _) as [v2 sd2].
      destruct (draw sd2 _ _) as [t2 sd3]. destruct (draw sd3 _ _) as [q2 sd4].
      rewrite shift_ev_note.
      set (F := fun x => rsv_advance x V0 T0 Q0).
      change (s_set_rand_seed (upd_cur s' F) sd4) with (upd_cur (put L h t' (s_set_rand_seed s sd4)) F).
      rewrite (upd_cur_put L h t' (s_set_rand_seed s sd4) F F).
      apply emit_note_rel.
      + apply (t_cur_valid_upd_cur (s_set_rand_seed s sd4) F Hc).
      + rewrite (t_cur_track_upd_cur (s_set_rand_seed s sd4) F Hc). apply rsv_advance_rel.
        split; [exact Hn0|split; [exact Ht0|exists st0; split; [exact Et'|exact Hst0]]].
      + exact Hh.
      + intros _. exact Hs.
    - (* TNoteN *)
      unfold exec_note_n. cbv zeta. rewrite !ctp.
      change (s_timebase s') with (s_timebase s). change (s_key_shift s') with (s_key_shift s).
      change (s_rand_seed s') with (s_rand_seed s).
      rewrite Etp, Ech, Elen, Evel, Eql, Etm, Ekey.
      rewrite (rsv_values_rel L n _ _ _ _ _ Hr).
      destruct Hr as (Hn0 & Ht0 & st0 & Et' & Hst0).
      replace (tr_rsv t') with (rsv_set_start (tr_rsv (cur_track s)) st0) by (rewrite Et'; reflexivity).
      cbn [rsv_set_start rv_o_rand rv_v_rand rv_t_rand rv_q_rand].
      match goal with |- context [rsv_on_note ?k ?V ?T ?Q] => set (V0 := V); set (T0 := T); set (Q0 := Q) end.
      destruct (fst (rsv_on_note (to_rtrack (cur_track s)) V0 T0 Q0)) as [[[[v1 t1] q1] oa] lo].
      destruct (draw _ _ _) as [v2 sd2]. destruct (draw sd2 _ _) as [t2 sd3]. destruct (draw sd3 _ _) as [q2 sd4].
      rewrite shift_ev_note.
      set (F := fun x => rsv_advance x V0 T0 Q0).
      change (s_set_rand_seed (upd_cur s' F) sd4) with (upd_cur (put L h t' (s_set_rand_seed s sd4)) F).
      rewrite (upd_cur_put L h t' (s_set_rand_seed s sd4) F F).
      apply emit_note_rel.
      + apply (t_cur_valid_upd_cur (s_set_rand_seed s sd4) F Hc).
      + rewrite (t_cur_track_upd_cur (s_set_rand_seed s sd4) F Hc). apply rsv_advance_rel.
        split; [exact Hn0|split; [exact Ht0|exists st0; split; [exact Et'|exact Hst0]]].
      + exact Hh.
      + discriminate.
    - (* TRest *) unfold exec_rest. change (s_timebase s') with (s_timebase s).
      apply arm_upd; [exact Hc|exact Hh|]. rewrite Elen. apply trk_rel_add_timepos. exact Hr.
    - (* TLength *) change (s_timebase s') with (s_timebase s).
      apply arm_upd; [exact Hc|exact Hh|]. apply trk_rel_set_length, rsv_clear_rel. exact Hr.
    - (* TOctave *) apply arm_upd; [exact Hc|exact Hh|]. apply trk_rel_set_octave, rsv_clear_rel. exact Hr.
    - (* TOctaveRel *) apply arm_upd; [exact Hc|exact Hh|]. rewrite Eoct. apply trk_rel_set_octave. exact Hr.
    - (* TOctaveOnce *)
      cbv zeta. rewrite ctp, Eoct.
      set (after := value_range 0 (tr_octave (cur_track s) + v) 10).
      set (F := fun t => tr_set_octave t after).
      rewrite (upd_cur_put L h t' s F F).
      change (s_octave_once s') with (s_octave_once s).
      set (k := s_octave_once s + (after - tr_octave (cur_track s))).
      change (s_set_octave_once (put L h (F t') (upd_cur s F)) k) with (put L h (F t') (s_set_octave_once (upd_cur s F) k)).
      apply shifted_r_intro.
      + apply (t_cur_valid_upd_cur s F Hc).
      + change (cur_track (s_set_octave_once (upd_cur s F) k)) with (cur_track (upd_cur s F)).
        rewrite t_cur_track_upd_cur by exact Hc. apply trk_rel_set_octave. exact Hr.
      + exact Hh.
    - (* TVelocity *) destruct (ino >? 0); [reflexivity|]. cbn [shifted_r_res].
      apply arm_upd; [exact Hc|exact Hh|]. apply trk_rel_set_velocity, rsv_clear_rel. exact Hr.
    - (* TVelocityRel *) change (s_v_add s') with (s_v_add s).
      apply arm_upd; [exact Hc|exact Hh|]. rewrite Evel. apply trk_rel_set_velocity. exact Hr.
    - (* TQLen *) apply arm_upd; [exact Hc|exact Hh|]. apply trk_rel_set_qlen, rsv_clear_rel. exact Hr.
    - (* TQLenRel *) change (s_q_add s') with (s_q_add s).
      apply arm_upd; [exact Hc|exact Hh|]. rewrite Eql. apply trk_rel_set_qlen. exact Hr.
    - (* TTiming *) apply arm_upd; [exact Hc|exact Hh|]. apply trk_rel_set_timing, rsv_clear_rel. exact Hr.
    - (* TLoopBegin *) exact same_ok.
    - (* TLoopBreak *) exact same_ok.
    - (* TLoopEnd *) exact same_ok.
    - (* THarmonyBegin *) rewrite ctp, Etp.
      change (s_harmony_events s') with (map (shift_ev L) (s_harmony_events s)).
      change (s_set_harmony s' true (tr_timepos (cur_track s) + L) (map (shift_ev L) (s_harmony_events s)))
        with (put L (tr_timepos (cur_track s) + L) t' (s_set_harmony s true (tr_timepos (cur_track s)) (s_harmony_events s))).
      apply shifted_r_intro; [exact Hc|exact Hr|]. intros _. reflexivity.
    - (* THarmonyEnd *) unfold exec_harmony_end. change (s_harmony_flag s') with (s_harmony_flag s).
      destruct (s_harmony_flag s) eqn:F; [|apply shifted_r_intro; [exact Hc|exact Hr|rewrite F; discriminate]].
      rewrite ctp. change (s_harmony_time s') with h.
      change (s_harmony_events s') with (map (shift_ev L) (s_harmony_events s)). change (s_timebase s') with (s_timebase s).
      rewrite (Hh eq_refl), Eql, Elen.
      set (q := if qlen <? 0 then tr_qlen (cur_track s) else qlen).
      set (nl := calc_length len (s_timebase s) (tr_length (cur_track s))).
      set (H := s_harmony_time s).
      set (evs := map (fun e => set_harmony_note e H nl q vel) (rev (s_harmony_events s))).
      assert (Eevs : map (fun e => set_harmony_note e (H + L) nl q vel) (rev (map (shift_ev L) (s_harmony_events s)))
                     = map (shift_ev L) evs).
      { unfold evs. rewrite <- map_rev, !map_map. apply map_ext. intros e. apply set_harmony_note_shift. }
      rewrite Eevs.
      set (F1 := fun t => tr_set_timepos (tr_set_events t (tr_events t ++ evs)) (H + nl)).
      set (G1 := fun t => tr_set_timepos (tr_set_events t (tr_events t ++ map (shift_ev L) evs)) (H + L + nl)).
      rewrite (upd_cur_put L (H + L) t' s F1 G1).
      change (s_set_harmony (put L (H + L) (G1 t') (upd_cur s F1)) false (H + L) [])
        with (put L (H + L) (G1 t') (s_set_harmony (upd_cur s F1) false H [])).
      apply shifted_r_intro.
      + apply (t_cur_valid_upd_cur s F1 Hc).
      + change (cur_track (s_set_harmony (upd_cur s F1) false H [])) with (cur_track (upd_cur s F1)).
        rewrite t_cur_track_upd_cur by exact Hc. unfold F1, G1.
        replace (H + L + nl) with (H + nl + L) by lia.
        apply trk_rel_set_timepos. apply (trk_rel_push_events L n _ _ evs Hr).
      + cbn. discriminate.
    - (* TDiv *)
      rewrite ctp, Etp, Elen. change (s_timebase s') with (s_timebase s).
      set (dl := calc_length len (s_timebase s) (tr_length (cur_track s))).
      set (nlen := if cnt >? 0 then Z.quot dl cnt else 0).
      set (F0 := fun t => tr_set_length t nlen).
      assert (R0 : shifted_r_res L n (Ok (upd_cur s F0)) (Ok (upd_cur s' F0)))
        by (cbn [shifted_r_res]; apply arm_upd; [exact Hc|exact Hh|]; apply trk_rel_set_length; exact Hr).
      pose proof (Hec children _ _ Hs R0) as R1.
      destruct (ec children (Ok (upd_cur s F0))) as [s2| | |], (ec children (Ok (upd_cur s' F0))) as [s2'| | |];
        cbn [shifted_r_res] in R1; try contradiction; cbn [bind shifted_r_res]; try exact R1.
      destruct (shifted_r_elim L n _ _ R1) as (Hc2 & h2 & t2' & Hr2 & -> & Hh2).
      apply arm_upd; [exact Hc2|exact Hh2|].
      replace (tr_timepos (cur_track s) + L + dl) with (tr_timepos (cur_track s) + dl + L) by lia.
      apply trk_rel_set_length, trk_rel_set_timepos. exact Hr2.
    - (* TSub *)
      rewrite ctp, Etp.
      assert (R0 : shifted_r_res L n (Ok s) (Ok s')) by exact same_ok.
      pose proof (Hec children _ _ Hs R0) as R1.
      destruct (ec children (Ok s)) as [s2| | |], (ec children (Ok s')) as [s2'| | |];
        cbn [shifted_r_res] in R1; try contradiction; cbn [bind shifted_r_res]; try exact R1.
      destruct (shifted_r_elim L n _ _ R1) as (Hc2 & h2 & t2' & Hr2 & -> & Hh2).
      apply arm_upd; [exact Hc2|exact Hh2|]. apply trk_rel_set_timepos. exact Hr2.
    - (* TChannel *) apply arm_upd; [exact Hc|exact Hh|]. apply trk_rel_set_channel. exact Hr.
    - (* TVoice *) unfold exec_voice. rewrite ctp, Etp, Ech.
      destruct args as [|a [|b r]]; (apply arm_upd; [exact Hc|exact Hh|]);
        repeat (apply (trk_rel_push_event L n)); exact Hr.
    - (* TKeyFlag *) apply (glob_ok (s_set_key_flag s flags)); try reflexivity; exact Hc.
    - (* TKeyShift *) apply (glob_ok (s_set_key_shift s arg)); try reflexivity; exact Hc.
    - (* TTrackKey *) apply arm_upd; [exact Hc|exact Hh|]. apply trk_rel_set_track_key. exact Hr.
    - (* TComment *) exact same_ok.
    - (* TTimeSignature *) unfold exec_time_signature, runtime_error.
      destruct args as [|a [|b r]].
      + apply add_log_ok.
      + apply add_log_ok.
      + cbv zeta.
        set (okd := (value_range 2 b 64 =? 2) || (value_range 2 b 64 =? 4) || (value_range 2 b 64 =? 8) || (value_range 2 b 64 =? 16)).
        change (s_lineno s') with (s_lineno s). change (s_ja s') with (s_ja s).
        match goal with |- context [add_log s ?m] => set (msg := m) end.
        set (s1 := if okd then s else add_log s msg).
        assert (E1 : (if okd then s' else add_log s' msg) = put L h t' s1)
          by (unfold s1; destruct okd; [reflexivity|apply add_log_put]).
        rewrite E1.
        assert (I : s_cur s1 = s_cur s /\ s_tracks s1 = s_tracks s /\ s_harmony_flag s1 = s_harmony_flag s /\ s_harmony_time s1 = s_harmony_time s)
          by (unfold s1; destruct okd; [repeat split; reflexivity|destruct (add_log_inv s msg) as [I1 [I2 [I3 [I4 _]]]]; repeat split; assumption]).
        destruct I as [I1 [I2 [I3 I4]]].
        assert (Hc1 : cur_valid s1) by (unfold cur_valid; rewrite I1, I2; exact Hc).
        assert (Hct1 : cur_track s1 = cur_track s) by (unfold cur_track; rewrite I1, I2; reflexivity).
        set (dn := if okd then value_range 2 b 64 else 4).
        set (G := fun x : song => s_set_time x (s_tempo x) (value_range 2 a 64) dn (s_measure_shift x)).
        change (s_set_time (put L h t' s1) (s_tempo (put L h t' s1)) (value_range 2 a 64) dn (s_measure_shift (put L h t' s1)))
          with (put L h t' (G s1)).
        assert (Hc2 : cur_valid (G s1)) by exact Hc1.
        rewrite (cur_track_put L h t' (G s1) Hc2).
        change (cur_track (s_set_time s1 (s_tempo s1) (value_range 2 a 64) dn (s_measure_shift s1))) with (cur_track s1).
        rewrite Hct1, Etp.
        apply (arm_upd L n h t' (G s1)); [exact Hc2| |].
        * change (s_harmony_flag (G s1)) with (s_harmony_flag s1). change (s_harmony_time (G s1)) with (s_harmony_time s1).
          rewrite I3, I4. exact Hh.
        * change (cur_track (G s1)) with (cur_track s1). rewrite Hct1. apply (trk_rel_push_event L n). exact Hr.
    - (* TMeasureShift *)
      apply (glob_ok (s_set_time s (s_tempo s) (s_timesig_frac s) (s_timesig_deno s) arg)); try reflexivity; exact Hc.
    - (* TTempo *) unfold tempo_change. rewrite ctp, Etp.
      set (tv := value_range 10 arg 300).
      set (G := fun x : song => s_set_time x tv (s_timesig_frac x) (s_timesig_deno x) (s_measure_shift x)).
      change (s_set_time s' tv (s_timesig_frac s') (s_timesig_deno s') (s_measure_shift s')) with (put L h t' (G s)).
      apply (arm_upd L n h t' (G s)); [exact Hc|exact Hh|]. apply (trk_rel_push_event L n). exact Hr.
    - (* TVAdd *) apply (glob_ok (s_set_adds s arg (s_q_add s))); try reflexivity; exact Hc.
    - (* TQAdd *) apply (glob_ok (s_set_adds s (s_v_add s) arg)); try reflexivity; exact Hc.
    - (* TTieMode *) apply arm_upd; [exact Hc|exact Hh|]. apply trk_rel_set_tie_mode. exact Hr.
    - (* TCC *)
      set (W := fun t => on_rt t (fun k => Reserve.remove_cc_on_note_wave k no)).
      rewrite (upd_cur_put L h t' s W W).
      apply add_events_rel; [apply (t_cur_valid_upd_cur s W Hc)| |exact Hh|reflexivity].
      rewrite t_cur_track_upd_cur by exact Hc. apply remove_wave_rel. exact Hr.
    - (* TPitchBend *) apply add_events_rel; [exact Hc|exact Hr|exact Hh|reflexivity].
    - (* TRpnCmd *) apply add_events_rel; [exact Hc|exact Hr|exact Hh|]. destruct nrpn; reflexivity.
    - (* TRpnDirect *) unfold exec_rpn_direct, runtime_error. change (s_lineno s') with (s_lineno s).
      destruct args as [|a [|b [|c [|d l]]]]; try apply add_log_ok.
      apply add_events_rel; [exact Hc|exact Hr|exact Hh|]. destruct nrpn; reflexivity.
    - (* TRandom *) apply arm_upd; [exact Hc|exact Hh|]. apply trk_rel_set_rand. exact Hr.
    - (* TOnNote *) apply arm_upd; [exact Hc|exact Hh|]. apply rsv_set_on_note_rel. exact Hr.
    - (* TVOnTime *) apply arm_upd; [exact Hc|exact Hh|]. apply rsv_set_v_on_time_rel. exact Hr.
    - (* TCCOnTime *) apply arm_upd; [exact Hc|exact Hh|]. apply cc_on_time_rel. exact Hr.
    - (* TCCOnNote *) apply arm_upd; [exact Hc|exact Hh|]. apply set_cc_on_note_rel. exact Hr.
    - (* TCCOnNoteWave *) apply arm_upd; [exact Hc|exact Hh|]. apply set_cc_on_note_wave_rel. exact Hr.
    - (* TCCFreq *) apply arm_upd; [exact Hc|exact Hh|]. apply set_freq_rel. exact Hr.
    - (* TPBOnTime *) change (s_timebase s') with (s_timebase s).
      apply arm_upd; [exact Hc|exact Hh|]. apply pb_on_time_rel. exact Hr.
    - (* TDecresc *) rewrite ctp, Elen. change (s_timebase s') with (s_timebase s).
      destruct (RAMP_MAX <? _); [reflexivity|]. cbn [shifted_r_res].
      apply arm_upd; [exact Hc|exact Hh|]. apply cc_on_time_plain_rel. exact Hr.
    - (* TMetaText *) destruct (_ && _); [|reflexivity]. cbn [shifted_r_res].
      apply add_events_rel; [exact Hc|exact Hr|exact Hh|reflexivity].
    - (* TPort *) apply add_events_rel; [exact Hc|exact Hr|exact Hh|reflexivity].
    - (* TTempoChange *) apply shifted_r_exec_tempo_change. exact same_ok.
    - (* TSysEx *) unfold exec_sysex, runtime_error. change (s_lineno s') with (s_lineno s).
      destruct args as [|a0 ar]; [apply add_log_ok|]. destruct (SYSEX_MAX <? _); [reflexivity|]. cbn [shifted_r_res].
      apply add_events_rel; [exact Hc|exact Hr|exact Hh|]. intros tp _. apply cmd_sysex_shift.
    - (* TSysexReset *) change (s_device s') with (s_device s).
      apply add_events_rel; [exact Hc|exact Hr|exact Hh|]. intros tp _. apply cmd_sysex_reset_shift.
    - (* TSysExCommand *) apply add_events_rel; [exact Hc|exact Hr|exact Hh|]. intros tp _. apply cmd_sysex_command_shift.
    - (* TGSEffect *) unfold exec_gs_effect. rewrite ctp, Etp, Ech. change (s_device s') with (s_device s).
      rewrite cmd_gs_effect_shift.
      destruct (Cmd.cmd_gs_effect _ _ _ _ _) as [evs| | |]; cbn [map_res bind shifted_r_res]; try reflexivity.
      apply add_events_rel_gen; [exact Hc|exact Hr|exact Hh|reflexivity].
    - (* TDeviceNumber *) apply (glob_ok (s_set_device s (as_u8 (nth 0 args 0)))); try reflexivity; exact Hc.
  Qed.
  End One.
End StepShiftR.

Theorem step_tok_shift_r L n ec : respects_r L n ec -> forall t r r', shiftable_r t = true -> shifted_r_res L n r r' ->
  shifted_r_res L n (step_tok ec t r) (step_tok ec t r').
Proof.
  intros Hec t r r' Ht R. destruct r as [s| | |], r' as [s'| | |]; cbn [shifted_r_res] in R; try contradiction;
    cbn [step_tok bind shifted_r_res]; try exact R.
  destruct (shifted_r_elim L n _ _ R) as (Hc & h & t' & Hr & -> & Hh). apply step_shift_r; assumption.
Qed.

(* ------------------------------------------------------------------------------------------------ *)
(* 4. exec(): the simulation of the loop machine (TimeP.run_sim) with the extended relation           *)

Lemma shiftable_r_other X i t : forallb shiftable_r X = true -> nth_error (map to_ltok X) i = Some (LOther t) -> shiftable_r t = true.
Proof.
  intros HX E. rewrite nth_error_map in E. destruct (nth_error X i) as [t0|] eqn:E0; [|discriminate].
  cbn [option_map] in E. rewrite forallb_forall in HX. specialize (HX t0 (nth_error_In _ _ E0)).
  destruct t0; cbn [to_ltok] in E; try discriminate; injection E as <-; exact HX.
Qed.

Lemma halted_shifted_r L n r r' : shifted_r_res L n r r' -> halted r = halted r'.
Proof.
  destruct r as [s| | |], r' as [s'| | |]; cbn [shifted_r_res]; try contradiction; try reflexivity.
  intros (_ & _ & _ & h & st & -> & _). reflexivity.
Qed.

Theorem exec_with_shift_r L n ec fuel : respects_r L n ec -> respects_r L n (exec_with ec fuel).
Proof.
  intros Hec X r r' HX HR. unfold exec_with.
  pose proof (run_sim (step_tok ec) halted count_of (shifted_r_res L n) (fun t => shiftable_r t = true)
                (fun d a b Pd Rab => step_tok_shift_r L n ec Hec d a b Pd Rab)
                (halted_shifted_r L n) (fun k a b _ => eq_refl)
                (map to_ltok X) (fun i d => shiftable_r_other X i d HX) fuel r r' HR) as M.
  destruct (run tok (res song) (step_tok ec) halted count_of fuel (map to_ltok X) r) as [x|],
           (run tok (res song) (step_tok ec) halted count_of fuel (map to_ltok X) r') as [y|];
    try contradiction; [exact M|exact I].
Qed.

Theorem exec_f_shift_r L n steps : forall d, respects_r L n (exec_f d steps).
Proof.
  induction d as [|d IH]; intros X r r' HX HR; [exact I|].
  rewrite !exec_f_with. apply exec_with_shift_r; assumption.
Qed.

(* the start of a run: no tie pending, no chord open, and no v.onTime ramp pending (a pending ramp is anchored at an
   absolute tick: a rest in front of the program would be a rest INSIDE the ramp).  Any other reservation may be pending. *)
Definition calm_r (s : song) : Prop :=
  cur_valid s /\ tr_tie_notes (cur_track s) = [] /\ s_harmony_flag s = false /\ s_harmony_events s = [] /\
  rv_v_on_time (tr_rsv (cur_track s)) = None.

Lemma calm_is_calm_r s : calm s -> calm_r s.
Proof. intros (A & B & C & D & E). repeat split; try assumption. rewrite E. reflexivity. Qed.

Lemma shifted_r_start L s : calm_r s -> shifted_r L (length (tr_events (cur_track s))) s (shift_song L s).
Proof.
  intros (Hc & Ht & Hf & He & Hv). split; [exact Hc|]. split; [lia|]. split; [exact Ht|].
  exists (s_harmony_time s), (rv_v_on_time_start (tr_rsv (cur_track s))). split; [|split].
  - unfold shift_song, shift_state_r, upd_cur. rewrite He.
    cbn [s_tracks s_cur s_harmony_events s_set_tracks s_set_harmony_time s_set_harmony_events map].
    rewrite (t_upd_nth_at (fun t => tr_set_timepos t (tr_timepos t + L))
               (shift_track_r L (length (tr_events (cur_track s))) (rv_v_on_time_start (tr_rsv (cur_track s))))
               (track_new 0 0) (s_tracks s) (s_cur s)).
    + destruct s; cbn in *; subst; reflexivity.
    + fold (cur_track s). unfold shift_track_r. rewrite shift_tail_all.
      destruct (cur_track s) as [x1 x2 x3 x4 x5 x6 x7 x8 x9 x10 x11 x12 x13 r]. destruct r. reflexivity.
  - rewrite Hf. discriminate.
  - intros E. exfalso. apply E. exact Hv.
Qed.

(* what `shifted_r` says, field by field *)
Theorem shifted_r_unpack L n s s' : shifted_r L n s s' ->
  tr_timepos (cur_track s') = tr_timepos (cur_track s) + L /\
  tr_events (cur_track s') = firstn n (tr_events (cur_track s)) ++ map (shift_ev L) (skipn n (tr_events (cur_track s))) /\
  (rv_v_on_time (tr_rsv (cur_track s)) <> None ->
   rv_v_on_time_start (tr_rsv (cur_track s')) = rv_v_on_time_start (tr_rsv (cur_track s)) + L) /\
  rsv_set_start (tr_rsv (cur_track s')) 0 = rsv_set_start (tr_rsv (cur_track s)) 0 /\
  tr_set_rsv (tr_set_events (tr_set_timepos (cur_track s') 0) []) rsv_new
    = tr_set_rsv (tr_set_events (tr_set_timepos (cur_track s) 0) []) rsv_new /\
  length (s_tracks s') = length (s_tracks s) /\
  (forall i, i <> s_cur s -> nth i (s_tracks s') (track_new 0 0) = nth i (s_tracks s) (track_new 0 0)) /\
  s_set_harmony_events (s_set_harmony_time (s_set_tracks s' []) 0) [] = s_set_harmony_events (s_set_harmony_time (s_set_tracks s []) 0) [] /\
  s_harmony_events s' = map (shift_ev L) (s_harmony_events s) /\
  (s_harmony_flag s = true -> s_harmony_time s' = s_harmony_time s + L).
Proof.
  intros (Hc & Hn & Ht & h & st & -> & Hh & Hst).
  assert (E : cur_track (shift_state_r L n h st s) = shift_track_r L n st (cur_track s)).
  { rewrite shift_state_r_put. apply cur_track_put. exact Hc. }
  rewrite E. repeat split; try reflexivity.
  - exact Hst.
  - unfold shift_state_r, upd_cur. cbn [s_tracks s_set_tracks s_set_harmony_time s_set_harmony_events]. apply t_upd_nth_length.
  - intros i Hne. unfold shift_state_r, upd_cur. cbn [s_tracks s_set_tracks s_set_harmony_time s_set_harmony_events].
    apply t_nth_upd_nth_neq. exact Hne.
  - exact Hh.
Qed.

(* THE LAW, reservations included *)
Theorem shift_law_r ec fuel p s L : respects_r L (length (tr_events (cur_track s))) ec ->
  forallb shiftable_r p = true -> calm_r s ->
  shifted_r_res L (length (tr_events (cur_track s))) (exec_with ec fuel p (Ok s)) (exec_with ec fuel p (Ok (shift_song L s))).
Proof.
  intros Hec Hp Hs. apply exec_with_shift_r; [exact Hec|exact Hp|]. cbn [shifted_r_res]. apply shifted_r_start. exact Hs.
Qed.

Theorem rest_shift_r ec fuel p s len :
  let L := calc_length len (s_timebase s) (tr_length (cur_track s)) in
  respects_r L (length (tr_events (cur_track s))) ec -> forallb shiftable_r p = true -> calm_r s -> s_break_flag s = 0 ->
  shifted_r_res L (length (tr_events (cur_track s))) (exec_with ec fuel p (Ok s)) (exec_with ec (S fuel) (TRest 1 len :: p) (Ok s)).
Proof.
  intros L Hec Hp Hs Hb.
  replace (exec_with ec (S fuel) (TRest 1 len :: p) (Ok s)) with (exec_with ec fuel p (Ok (shift_song L s))).
  - apply shift_law_r; assumption.
  - unfold exec_with. cbn [map to_ltok]. rewrite run_prefix by (cbn [halted]; rewrite Hb; reflexivity).
    cbn [step_tok bind]. rewrite rest_is_shift. reflexivity.
Qed.

Theorem run_toks_shift_r L n ec p : respects_r L n ec -> forallb shiftable_r p = true ->
  forall r r', shifted_r_res L n r r' -> shifted_r_res L n (run_toks ec p r) (run_toks ec p r').
Proof.
  intros Hec. induction p as [|t p IH]; intros Hp r r' HR; [exact HR|].
  cbn [forallb] in Hp. apply andb_prop in Hp. destruct Hp as [Ht Hp].
  change (run_toks ec (t :: p) r) with (run_toks ec p (step_tok ec t r)).
  change (run_toks ec (t :: p) r') with (run_toks ec p (step_tok ec t r')).
  apply IH; [exact Hp|]. apply step_tok_shift_r; assumption.
Qed.

Theorem rest_shift_fold_r ec p s len :
  let L := calc_length len (s_timebase s) (tr_length (cur_track s)) in
  respects_r L (length (tr_events (cur_track s))) ec -> forallb shiftable_r p = true -> calm_r s ->
  shifted_r_res L (length (tr_events (cur_track s))) (run_toks ec p (Ok s)) (run_toks ec (TRest 1 len :: p) (Ok s)).
Proof.
  intros L Hec Hp Hs. rewrite run_toks_cons, rest_is_shift.
  apply run_toks_shift_r; [exact Hec|exact Hp|]. cbn [shifted_r_res]. apply shifted_r_start. exact Hs.
Qed.
