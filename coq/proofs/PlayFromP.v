(* C14 - Track::play_from (Compile.play_from): for ARBITRARY event lists, what is dropped, what is kept and
   re-timed, what is restored at tick 0 - PER CHANNEL - and in which order, before and after the writer's stable sort. *)
From Sakura.Model Require Import Base Event Writer Compile.
From Sakura.Proofs Require Import SortP.
From Coq Require Import Lia Permutation Sorted.
Open Scope Z_scope.

(* ------------------------------------------------------------------------------------------------ *)
(* 0. vocabulary of the statements (independent of the fold in Compile.play_from)                     *)

(* the play-from point becomes tick 0 *)
Definition retime (tp : Z) (e : event) : event := set_time e (e_time e - tp).
Definition at_zero (e : event) : event := set_time e 0.

Definition is_type (ty : etype) (e : event) : bool := etype_eqb (e_type e) ty.

(* the event kinds play_from lets through at all *)
Definition passes_type (e : event) : bool :=
  match e_type e with NoteOn | Voice | ControllChange | Meta | SysEx => true | _ => false end.
(* kept and re-timed: of such a kind, at or after the point *)
Definition kept (tp : Z) (e : event) : bool := passes_type e && (tp <=? e_time e).
(* Meta / SysEx before the point: kept, moved to tick 0 *)
Definition early_meta (tp : Z) (e : event) : bool :=
  match e_type e with Meta | SysEx => e_time e <? tp | _ => false end.

(* the channel an event sounds on: its channel field as the writer sends it, 0..15 (see chan_of_writer) *)
Definition chan_of (e : event) : Z := value_range 0 (e_ch e) 15.
(* a controller change for number `no` on channel `ch` / a program change on channel `ch` *)
Definition cc_on (ch no : Z) (e : event) : bool := is_type ControllChange e && (chan_of e =? ch) && (e_v1 e =? no).
Definition voice_on (ch : Z) (e : event) : bool := is_type Voice e && (chan_of e =? ch).
Definition before (tp : Z) (q : event -> bool) (e : event) : bool := q e && (e_time e <? tp).

(* the LAST element of l that satisfies p (see last_of_some / last_of_none) *)
Definition last_of {A} (p : A -> bool) (l : list A) : option A :=
  fold_left (fun acc x => if p x then Some x else acc) l None.

(* the LAST change of controller `no` ON CHANNEL `ch` before the point / the last program change ON CHANNEL `ch` before
   the point ("last" in the order of the list, which is the order the commands were executed in) *)
Definition latest_cc_ev (tp ch no : Z) (evs : list event) : option event := last_of (before tp (cc_on ch no)) evs.
Definition latest_voice_ev (tp ch : Z) (evs : list event) : option event := last_of (before tp (voice_on ch)) evs.

(* the four segments of the result *)
Definition pf_early (tp : Z) (evs : list event) : list event := map at_zero (filter (early_meta tp) evs).
Definition pf_kept (tp : Z) (evs : list event) : list event := map (retime tp) (filter (kept tp) evs).
(* the value as the writer sends it (0..127), on the channel it was set on *)
Definition restored_cc_of (tp : Z) (evs : list event) (ch no : nat) : list event :=
  match latest_cc_ev tp (Z.of_nat ch) (Z.of_nat no) evs with
  | Some e => [ev_cc 0 (Z.of_nat ch) (Z.of_nat no) (value_range 0 (e_v2 e) 127)]
  | None => []
  end.
(* channel 0..15 in ascending order, within a channel the controller numbers 0..127 in ascending order *)
Definition pf_restored_cc (tp : Z) (evs : list event) : list event :=
  flat_map (fun ch => flat_map (restored_cc_of tp evs ch) (seq 0 128)) (seq 0 16).
Definition restored_voice_of (tp : Z) (evs : list event) (ch : nat) : list event :=
  match latest_voice_ev tp (Z.of_nat ch) evs with
  | Some e => if e_v1 e >=? 0 then [ev_voice 0 (Z.of_nat ch) (e_v1 e)] else []
  | None => []
  end.
Definition pf_restored_voice (tp : Z) (evs : list event) : list event := flat_map (restored_voice_of tp evs) (seq 0 16).
(* all controllers, then all programs *)
Definition pf_restored (tp : Z) (evs : list event) : list event := pf_restored_cc tp evs ++ pf_restored_voice tp evs.

(* ------------------------------------------------------------------------------------------------ *)
(* 1. last_of                                                                                         *)

Lemma last_of_snoc {A} (p : A -> bool) l x : last_of p (l ++ [x]) = if p x then Some x else last_of p l.
Proof. unfold last_of. rewrite fold_left_app. reflexivity. Qed.

Lemma filter_snoc {A} (p : A -> bool) l x : filter p (l ++ [x]) = filter p l ++ (if p x then [x] else []).
Proof. rewrite filter_app. cbn [filter]. destruct (p x); reflexivity. Qed.

Lemma last_of_some {A} (p : A -> bool) l x :
  last_of p l = Some x <-> exists l1 l2, l = l1 ++ x :: l2 /\ p x = true /\ forallb (fun y => negb (p y)) l2 = true.
Proof.
  revert x. induction l as [|y l IH] using rev_ind; intros x.
  - split; [discriminate|]. intros [l1 [l2 [E _]]]. destruct l1; discriminate.
  - rewrite last_of_snoc. destruct (p y) eqn:Py.
    + split.
      * intros E; injection E as <-. exists l, []. repeat split; assumption.
      * intros [l1 [l2 [E [Px Hl2]]]].
        destruct l2 as [|z l2] using rev_ind.
        -- apply app_inj_tail in E. destruct E as [_ ->]. reflexivity.
        -- clear IHl2. rewrite app_comm_cons, app_assoc in E. apply app_inj_tail in E. destruct E as [_ ->].
           rewrite forallb_app in Hl2. cbn [forallb] in Hl2. rewrite Py in Hl2. cbn in Hl2.
           rewrite andb_false_r in Hl2. discriminate.
    + rewrite IH. split.
      * intros [l1 [l2 [-> [Px Hl2]]]]. exists l1, (l2 ++ [y]). rewrite <- app_assoc. repeat split; [assumption|].
        rewrite forallb_app. cbn [forallb]. rewrite Hl2, Py. reflexivity.
      * intros [l1 [l2 [E [Px Hl2]]]].
        destruct l2 as [|z l2] using rev_ind.
        -- apply app_inj_tail in E. destruct E as [_ ->]. congruence.
        -- clear IHl2. rewrite app_comm_cons, app_assoc in E. apply app_inj_tail in E. destruct E as [-> ->].
           rewrite forallb_app in Hl2. apply andb_prop in Hl2. exists l1, l2. repeat split; [assumption|apply Hl2].
Qed.

Lemma last_of_none {A} (p : A -> bool) l : last_of p l = None <-> forallb (fun y => negb (p y)) l = true.
Proof.
  induction l as [|y l IH] using rev_ind; [split; reflexivity|].
  rewrite last_of_snoc, forallb_app. cbn [forallb]. destruct (p y); cbn [negb].
  - rewrite andb_false_r. split; discriminate.
  - rewrite !andb_true_r. exact IH.
Qed.

(* ------------------------------------------------------------------------------------------------ *)
(* 2. the fold of play_from                                                                           *)

Definition pf_init : pf_acc := mkPf [] [] (repeat (repeat (-1) 128) 16) (repeat (-1) 16).
Definition pf_run (tp : Z) (evs : list event) : pf_acc := fold_left (pf_step tp) evs pf_init.

Lemma pf_run_snoc tp evs e : pf_run tp (evs ++ [e]) = pf_step tp (pf_run tp evs) e.
Proof. unfold pf_run. rewrite fold_left_app. reflexivity. Qed.

Lemma set_cc_length v l : forall n, length (set_cc n v l) = length l.
Proof. induction l as [|x r IH]; intros [|n]; cbn [set_cc length]; try reflexivity. rewrite IH. reflexivity. Qed.

Lemma nth_set_cc v d l : forall n i,
  nth i (set_cc n v l) d = if Nat.eqb i n && Nat.ltb n (length l) then v else nth i l d.
Proof.
  induction l as [|x r IH]; intros n i.
  - replace (Nat.ltb n (length (@nil Z))) with false by (symmetry; apply Nat.ltb_ge; cbn [length]; lia).
    rewrite andb_false_r. destruct n; reflexivity.
  - destruct n as [|n], i as [|i]; cbn [set_cc nth length]; try reflexivity.
    rewrite IH. reflexivity.
Qed.

Lemma set_cc2_length n v t : forall c, length (set_cc2 c n v t) = length t.
Proof. induction t as [|x r IH]; intros [|c]; cbn [set_cc2 length]; try reflexivity. rewrite IH. reflexivity. Qed.

Lemma set_cc2_rows n v t : forall c,
  Forall (fun r => length r = 128%nat) t -> Forall (fun r => length r = 128%nat) (set_cc2 c n v t).
Proof.
  induction t as [|x r IH]; intros [|c] H; cbn [set_cc2]; try exact H; inversion H as [|? ? Hx Hr]; subst; constructor.
  - rewrite set_cc_length. exact Hx.
  - exact Hr.
  - exact Hx.
  - apply IH. exact Hr.
Qed.

Lemma nth_set_cc2 n v t : forall c i,
  nth i (set_cc2 c n v t) [] = if Nat.eqb i c && Nat.ltb c (length t) then set_cc n v (nth c t []) else nth i t [].
Proof.
  induction t as [|x r IH]; intros c i.
  - replace (Nat.ltb c (length (@nil (list Z)))) with false by (symmetry; apply Nat.ltb_ge; cbn [length]; lia).
    rewrite andb_false_r. destruct c; reflexivity.
  - destruct c as [|c], i as [|i]; cbn [set_cc2 nth length]; try reflexivity.
    rewrite IH. reflexivity.
Qed.

Lemma chan_of_range e : 0 <= chan_of e <= 15.
Proof. unfold chan_of, value_range. destruct (Z.ltb_spec (e_ch e) 0); [lia|]. destruct (Z.gtb_spec (e_ch e) 15); lia. Qed.

Lemma pf_chan_spec e : (pf_chan e < 16)%nat /\ Z.of_nat (pf_chan e) = chan_of e.
Proof. pose proof (chan_of_range e) as H. unfold pf_chan. fold (chan_of e). lia. Qed.

(* the tables keep their dimensions: 16 rows of 128 values, 16 programs *)
Lemma pf_dims tp evs :
  length (pf_cc (pf_run tp evs)) = 16%nat /\ Forall (fun r => length r = 128%nat) (pf_cc (pf_run tp evs)) /\
  length (pf_voice (pf_run tp evs)) = 16%nat.
Proof.
  induction evs as [|e l IH] using rev_ind.
  - split; [reflexivity|]. split; [|reflexivity]. cbn [pf_run fold_left pf_init pf_cc].
    apply Forall_forall. intros r Hr. apply repeat_spec in Hr. subst r. apply repeat_length.
  - rewrite pf_run_snoc. unfold pf_step.
    destruct (e_type e); try exact IH; destruct (e_time e - tp <? 0); try exact IH.
    all: try (destruct (_ && _); [|exact IH]); cbn [pf_cc pf_voice]; rewrite ?set_cc_length, ?set_cc2_length;
      destruct IH as [A [B C]]; (split; [exact A|]); (split; [|exact C]); try exact B; apply set_cc2_rows; exact B.
Qed.

Lemma pf_row_length tp evs ch : (ch < 16)%nat -> length (nth ch (pf_cc (pf_run tp evs)) []) = 128%nat.
Proof.
  intros H. destruct (pf_dims tp evs) as [A [B _]]. rewrite Forall_forall in B. apply B. apply nth_In. lia.
Qed.

Lemma pf_head_spec tp evs : pf_head (pf_run tp evs) = pf_early tp evs.
Proof.
  unfold pf_early. induction evs as [|e l IH] using rev_ind; [reflexivity|].
  rewrite pf_run_snoc, filter_snoc, map_app, <- IH. unfold pf_step, early_meta.
  replace (e_time e - tp <? 0) with (e_time e <? tp) by lia.
  destruct ((0 <=? e_v1 e) && (e_v1 e <? 128)); destruct (e_type e); destruct (e_time e <? tp); cbn [pf_head map]; rewrite ?app_nil_r; reflexivity.
Qed.

Lemma pf_rest_spec tp evs : pf_rest (pf_run tp evs) = pf_kept tp evs.
Proof.
  unfold pf_kept. induction evs as [|e l IH] using rev_ind; [reflexivity|].
  rewrite pf_run_snoc, filter_snoc, map_app, <- IH. unfold pf_step, kept, passes_type, retime.
  replace (e_time e - tp <? 0) with (negb (tp <=? e_time e)) by lia.
  destruct ((0 <=? e_v1 e) && (e_v1 e <? 128)); destruct (e_type e); destruct (tp <=? e_time e); cbn [negb andb pf_rest map]; rewrite ?app_nil_r; reflexivity.
Qed.

(* voices[ch]: the program of the last program change on channel ch before the point *)
Lemma pf_voice_spec tp evs ch : (ch < 16)%nat ->
  nth ch (pf_voice (pf_run tp evs)) (-1) = match latest_voice_ev tp (Z.of_nat ch) evs with Some e => e_v1 e | None => -1 end.
Proof.
  intros Hch. unfold latest_voice_ev. induction evs as [|e l IH] using rev_ind.
  - cbn [pf_run fold_left pf_init pf_voice last_of]. apply nth_repeat.
  - rewrite pf_run_snoc, last_of_snoc. unfold pf_step, before, voice_on, is_type.
    replace (e_time e - tp <? 0) with (e_time e <? tp) by lia.
    destruct ((0 <=? e_v1 e) && (e_v1 e <? 128));
      destruct (e_type e); destruct (e_time e <? tp); cbn [etype_eqb andb pf_voice]; rewrite ?andb_false_r; try exact IH.
    all: rewrite andb_true_r, nth_set_cc; destruct (pf_dims tp l) as [_ [_ L]]; rewrite L;
      destruct (pf_chan_spec e) as [C1 C2];
      replace (Nat.ltb (pf_chan e) 16) with true by (symmetry; apply Nat.ltb_lt; exact C1); rewrite andb_true_r;
      destruct (Z.eqb_spec (chan_of e) (Z.of_nat ch)) as [E|E];
      [replace (Nat.eqb ch (pf_chan e)) with true by (symmetry; apply Nat.eqb_eq; lia); reflexivity
      |replace (Nat.eqb ch (pf_chan e)) with false by (symmetry; apply Nat.eqb_neq; lia); exact IH].
Qed.

(* cc_values[ch][no]: the value (as the writer sends it) of the last change of controller no on channel ch before the point *)
Lemma pf_cc_spec tp evs ch no : (ch < 16)%nat -> (no < 128)%nat ->
  nth no (nth ch (pf_cc (pf_run tp evs)) []) (-1)
  = match latest_cc_ev tp (Z.of_nat ch) (Z.of_nat no) evs with Some e => value_range 0 (e_v2 e) 127 | None => -1 end.
Proof.
  intros Hch Hno. unfold latest_cc_ev. induction evs as [|e l IH] using rev_ind.
  - cbn [pf_run fold_left pf_init pf_cc last_of].
    rewrite (nth_indep _ [] (repeat (-1) 128)) by (rewrite repeat_length; exact Hch). rewrite nth_repeat. apply nth_repeat.
  - rewrite pf_run_snoc, last_of_snoc. unfold pf_step, before, cc_on, is_type.
    replace (e_time e - tp <? 0) with (e_time e <? tp) by lia.
    destruct (e_type e); destruct (e_time e <? tp); cbn [etype_eqb andb pf_cc]; rewrite ?andb_false_r; try exact IH.
    rewrite andb_true_r.
    destruct ((0 <=? e_v1 e) && (e_v1 e <? 128)) eqn:R.
    + cbn [pf_cc]. rewrite nth_set_cc2. destruct (pf_dims tp l) as [L _]. rewrite L.
      destruct (pf_chan_spec e) as [C1 C2].
      replace (Nat.ltb (pf_chan e) 16) with true by (symmetry; apply Nat.ltb_lt; exact C1). rewrite andb_true_r.
      destruct (Z.eqb_spec (chan_of e) (Z.of_nat ch)) as [E|E]; cbn [andb].
      * replace (Nat.eqb ch (pf_chan e)) with true by (symmetry; apply Nat.eqb_eq; lia).
        replace (pf_chan e) with ch by lia.
        rewrite nth_set_cc, (pf_row_length tp l ch Hch).
        destruct (Z.eqb_spec (e_v1 e) (Z.of_nat no)) as [N|N].
        -- replace (Nat.eqb no (Z.to_nat (e_v1 e))) with true by (symmetry; apply Nat.eqb_eq; lia).
           replace (Nat.ltb (Z.to_nat (e_v1 e)) 128) with true by (symmetry; apply Nat.ltb_lt; lia). reflexivity.
        -- replace (Nat.eqb no (Z.to_nat (e_v1 e))) with false by (symmetry; apply Nat.eqb_neq; lia). exact IH.
      * replace (Nat.eqb ch (pf_chan e)) with false by (symmetry; apply Nat.eqb_neq; lia). exact IH.
    + replace (e_v1 e =? Z.of_nat no) with false by lia. rewrite andb_false_r. exact IH.
Qed.

(* the restoring loops over the tables: one event per entry that is not negative, channel-major, in controller order *)
Lemma restore_ccs_seq (g : nat -> Z) ch : forall n k,
  restore_ccs ch (Z.of_nat k) (map g (seq k n))
  = flat_map (fun i => if g i <? 0 then [] else [ev_cc 0 ch (Z.of_nat i) (g i)]) (seq k n).
Proof.
  induction n as [|n IH]; intros k; [reflexivity|].
  cbn [seq map restore_ccs flat_map]. f_equal.
  replace (Z.of_nat k + 1) with (Z.of_nat (S k)) by lia. apply IH.
Qed.

Lemma restore_cc_rows_seq (R : nat -> list Z) : forall n k,
  restore_cc_rows (Z.of_nat k) (map R (seq k n)) = flat_map (fun c => restore_ccs (Z.of_nat c) 0 (R c)) (seq k n).
Proof.
  induction n as [|n IH]; intros k; [reflexivity|].
  cbn [seq map restore_cc_rows flat_map]. f_equal.
  replace (Z.of_nat k + 1) with (Z.of_nat (S k)) by lia. apply IH.
Qed.

Lemma restore_voices_seq (g : nat -> Z) : forall n k,
  restore_voices (Z.of_nat k) (map g (seq k n))
  = flat_map (fun c => if g c >=? 0 then [ev_voice 0 (Z.of_nat c) (g c)] else []) (seq k n).
Proof.
  induction n as [|n IH]; intros k; [reflexivity|].
  cbn [seq map restore_voices flat_map]. f_equal.
  replace (Z.of_nat k + 1) with (Z.of_nat (S k)) by lia. apply IH.
Qed.

Lemma table_is_map {A} (F : nat -> A) (d : A) (l : list A) (n : nat) :
  length l = n -> (forall i, (i < n)%nat -> nth i l d = F i) -> l = map F (seq 0 n).
Proof.
  intros Hl H. apply (nth_ext _ _ d (F 0%nat)).
  - rewrite Hl, map_length, seq_length. reflexivity.
  - intros i Hi. rewrite Hl in Hi. rewrite (H i Hi), (map_nth F), seq_nth by exact Hi. reflexivity.
Qed.

Lemma value_range_not_neg v : (value_range 0 v 127 <? 0) = false.
Proof. unfold value_range. destruct (Z.ltb_spec v 0); [reflexivity|]. destruct (Z.gtb_spec v 127); lia. Qed.

Lemma restore_cc_rows_spec tp evs : restore_cc_rows 0 (pf_cc (pf_run tp evs)) = pf_restored_cc tp evs.
Proof.
  set (G := fun ch no : nat =>
    match latest_cc_ev tp (Z.of_nat ch) (Z.of_nat no) evs with Some e => value_range 0 (e_v2 e) 127 | None => -1 end).
  assert (T : pf_cc (pf_run tp evs) = map (fun ch => map (G ch) (seq 0 128)) (seq 0 16)).
  { apply (table_is_map _ []); [apply (pf_dims tp evs)|]. intros ch Hch.
    apply (table_is_map _ (-1)); [apply pf_row_length; exact Hch|]. intros no Hno. apply pf_cc_spec; assumption. }
  rewrite T. etransitivity; [exact (restore_cc_rows_seq (fun ch => map (G ch) (seq 0 128)) 16 0)|]. unfold pf_restored_cc.
  apply flat_map_ext. intros ch. etransitivity; [exact (restore_ccs_seq (G ch) (Z.of_nat ch) 128 0)|].
  apply flat_map_ext. intros no. unfold restored_cc_of, G.
  destruct (latest_cc_ev tp (Z.of_nat ch) (Z.of_nat no) evs) as [e|]; [rewrite value_range_not_neg|]; reflexivity.
Qed.

Lemma restore_voices_spec tp evs : restore_voices 0 (pf_voice (pf_run tp evs)) = pf_restored_voice tp evs.
Proof.
  set (g := fun ch : nat => match latest_voice_ev tp (Z.of_nat ch) evs with Some e => e_v1 e | None => -1 end).
  assert (T : pf_voice (pf_run tp evs) = map g (seq 0 16)).
  { apply (table_is_map _ (-1)); [apply (pf_dims tp evs)|]. intros ch Hch. apply pf_voice_spec. exact Hch. }
  rewrite T. etransitivity; [exact (restore_voices_seq g 16 0)|]. unfold pf_restored_voice.
  apply flat_map_ext. intros ch. unfold restored_voice_of, g.
  destruct (latest_voice_ev tp (Z.of_nat ch) evs) as [e|]; reflexivity.
Qed.

(* THE DECOMPOSITION: early Meta/SysEx at tick 0, then the restored controllers (channel 0..15, within a channel in
   ascending number) and the restored programs (channel 0..15), then everything kept, re-timed, in the original order *)
Theorem play_from_decomposition tp evs :
  play_from tp evs = pf_early tp evs ++ pf_restored tp evs ++ pf_kept tp evs.
Proof.
  unfold play_from. fold pf_init. fold (pf_run tp evs).
  rewrite pf_head_spec, pf_rest_spec, restore_cc_rows_spec, restore_voices_spec.
  unfold pf_restored. rewrite <- app_assoc. reflexivity.
Qed.

(* ------------------------------------------------------------------------------------------------ *)
(* 3. consequences: (a) notes, (b) other kept kinds, (c) restored values, (e) dropped kinds           *)

Lemma filter_flat_map_nil {A B} (q : B -> bool) (F : A -> list B) l :
  (forall a, filter q (F a) = []) -> filter q (flat_map F l) = [].
Proof. intros H. induction l as [|a l IH]; [reflexivity|]. cbn [flat_map]. rewrite filter_app, H, IH. reflexivity. Qed.

Lemma is_type_at_zero ty e : is_type ty (at_zero e) = is_type ty e. Proof. reflexivity. Qed.
Lemma is_type_retime ty tp e : is_type ty (retime tp e) = is_type ty e. Proof. reflexivity. Qed.

Lemma filter_map_inv {A} (q : A -> bool) (f : A -> A) l : (forall x, q (f x) = q x) -> filter q (map f l) = map f (filter q l).
Proof.
  intros H. induction l as [|x l IH]; [reflexivity|]. cbn [map filter]. rewrite H. destruct (q x); cbn [map]; rewrite IH; reflexivity.
Qed.

Lemma filter_filter {A} (p q : A -> bool) l : filter q (filter p l) = filter (fun x => q x && p x) l.
Proof.
  induction l as [|x l IH]; [reflexivity|]. cbn [filter]. destruct (p x) eqn:P; cbn [filter]; rewrite ?P, IH.
  - destruct (q x); reflexivity.
  - rewrite andb_false_r. reflexivity.
Qed.

(* any predicate that does not look at the time selects, among the kept events, the re-timed originals *)
Lemma kept_filter (q : event -> bool) tp evs : (forall e t, q (set_time e t) = q e) ->
  filter q (pf_kept tp evs) = map (retime tp) (filter (fun e => q e && kept tp e) evs).
Proof.
  intros H. unfold pf_kept. rewrite filter_map_inv by (intros x; apply H). rewrite filter_filter. reflexivity.
Qed.

Lemma early_no_note tp evs : filter (is_type NoteOn) (pf_early tp evs) = [].
Proof.
  unfold pf_early. rewrite filter_map_inv by (intros; apply is_type_at_zero). rewrite filter_filter.
  induction evs as [|e l IH]; [reflexivity|]. cbn [filter]. unfold early_meta, is_type at 1.
  destruct (e_type e); cbn [etype_eqb andb]; exact IH.
Qed.

Lemma restored_no_note tp evs : filter (is_type NoteOn) (pf_restored tp evs) = [].
Proof.
  unfold pf_restored. rewrite filter_app. unfold pf_restored_cc, pf_restored_voice.
  rewrite !filter_flat_map_nil; [reflexivity| |].
  - intros ch. unfold restored_voice_of. destruct (latest_voice_ev _ _ _) as [e|]; [destruct (e_v1 e >=? 0)|]; reflexivity.
  - intros ch. apply filter_flat_map_nil. intros no. unfold restored_cc_of. destruct (latest_cc_ev _ _ _ _) as [e|]; reflexivity.
Qed.

(* (a) the note-ons of the result are exactly the note-ons at or after the point, re-timed, in order *)
Theorem play_from_notes tp evs :
  filter (is_type NoteOn) (play_from tp evs)
  = map (retime tp) (filter (fun e => is_type NoteOn e && (tp <=? e_time e)) evs).
Proof.
  rewrite play_from_decomposition, !filter_app, early_no_note, restored_no_note. cbn [app].
  rewrite kept_filter by reflexivity. f_equal. apply filter_ext. intros e. unfold kept, passes_type, is_type.
  destruct (e_type e); reflexivity.
Qed.

(* (b) the kept segment holds, for each of the five kinds, exactly the events of that kind at or after the point *)
Theorem play_from_kept_kind tp evs ty : passes_type (mkEvent ty 0 0 0 0 0 None) = true ->
  filter (is_type ty) (pf_kept tp evs) = map (retime tp) (filter (fun e => is_type ty e && (tp <=? e_time e)) evs).
Proof.
  intros Hty. rewrite kept_filter by reflexivity. f_equal. apply filter_ext. intros e. unfold kept, passes_type, is_type in *.
  cbn [e_type] in Hty. destruct (e_type e), ty; cbn [etype_eqb andb]; try reflexivity; discriminate.
Qed.

(* Meta / SysEx written before the point are not lost: they are issued at tick 0, first of all *)
Theorem play_from_early tp evs :
  pf_early tp evs = map at_zero (filter (fun e => (is_type Meta e || is_type SysEx e) && (e_time e <? tp)) evs).
Proof.
  unfold pf_early. f_equal. apply filter_ext. intros e. unfold early_meta, is_type. destruct (e_type e); reflexivity.
Qed.

(* (c) for every channel and controller number: exactly one restoring event if that controller was written on that
   channel before the point (none otherwise), carrying the LATEST such value as the writer sends it, on that channel *)
Lemma filter_flat_map_pick {B} (q : B -> bool) (F : nat -> list B) (k : nat) (R : list B) :
  (forall i, filter q (F i) = if Nat.eqb i k then R else []) ->
  forall n a, filter q (flat_map F (seq a n)) = if Nat.leb a k && Nat.ltb k (a + n) then R else [].
Proof.
  intros H. induction n as [|n IH]; intros a.
  - cbn [seq flat_map filter]. destruct (Nat.leb_spec a k), (Nat.ltb_spec k (a + 0)); cbn [andb]; try reflexivity; lia.
  - cbn [seq flat_map]. rewrite filter_app, H, IH.
    destruct (Nat.eqb_spec a k) as [->|N].
    + replace (Nat.leb (S k) k) with false by (symmetry; apply Nat.leb_gt; lia). cbn [andb]. rewrite app_nil_r.
      rewrite Nat.leb_refl. replace (Nat.ltb k (k + S n)) with true by (symmetry; apply Nat.ltb_lt; lia). reflexivity.
    + cbn [app]. destruct (Nat.leb_spec (S a) k), (Nat.leb_spec a k), (Nat.ltb_spec k (S a + n)), (Nat.ltb_spec k (a + S n));
        cbn [andb]; try reflexivity; lia.
Qed.

Definition on_chan_no (ch no : Z) (e : event) : bool := (e_ch e =? ch) && (e_v1 e =? no).

Lemma restored_cc_of_key tp evs ch no c k :
  filter (on_chan_no (Z.of_nat c) (Z.of_nat k)) (restored_cc_of tp evs ch no)
  = if Nat.eqb ch c && Nat.eqb no k then restored_cc_of tp evs ch no else [].
Proof.
  unfold restored_cc_of. destruct (latest_cc_ev _ _ _ _) as [e|]; [|destruct (_ && _); reflexivity].
  unfold on_chan_no. cbn [filter ev_cc e_v1 e_ch].
  destruct (Nat.eqb_spec ch c) as [->|C]; [rewrite Z.eqb_refl|replace (Z.of_nat ch =? Z.of_nat c) with false by lia; reflexivity].
  destruct (Nat.eqb_spec no k) as [->|N]; [rewrite Z.eqb_refl; reflexivity|].
  replace (Z.of_nat no =? Z.of_nat k) with false by lia. reflexivity.
Qed.

Theorem restored_cc_unique tp evs ch no : 0 <= ch < 16 -> 0 <= no < 128 ->
  filter (fun e => (e_ch e =? ch) && (e_v1 e =? no)) (pf_restored_cc tp evs)
  = match latest_cc_ev tp ch no evs with
    | Some e => [ev_cc 0 ch no (value_range 0 (e_v2 e) 127)]
    | None => []
    end.
Proof.
  intros Hc Hn. change (fun e => (e_ch e =? ch) && (e_v1 e =? no)) with (on_chan_no ch no).
  replace ch with (Z.of_nat (Z.to_nat ch)) by lia. replace no with (Z.of_nat (Z.to_nat no)) by lia.
  set (c := Z.to_nat ch). set (k := Z.to_nat no).
  unfold pf_restored_cc.
  rewrite (filter_flat_map_pick _ _ c (restored_cc_of tp evs c k)).
  - cbn [Nat.leb andb]. replace (Nat.ltb c (0 + 16)) with true by (symmetry; apply Nat.ltb_lt; unfold c; lia). reflexivity.
  - intros i. destruct (Nat.eqb_spec i c) as [->|N].
    + rewrite (filter_flat_map_pick _ _ k (restored_cc_of tp evs c k)).
      * cbn [Nat.leb andb]. replace (Nat.ltb k (0 + 128)) with true by (symmetry; apply Nat.ltb_lt; unfold k; lia). reflexivity.
      * intros j. rewrite restored_cc_of_key, Nat.eqb_refl. cbn [andb]. destruct (Nat.eqb_spec j k) as [->|]; reflexivity.
    + apply filter_flat_map_nil. intros j. rewrite restored_cc_of_key.
      replace (Nat.eqb i c) with false by (symmetry; apply Nat.eqb_neq; exact N). reflexivity.
Qed.

(* every restored controller event: a controller change at tick 0, channel 0..15, number 0..127, value 0..127 - and that
   controller WAS written on that channel before the point (nothing is re-issued for a pair never set) *)
Theorem restored_cc_shape tp evs e : In e (pf_restored_cc tp evs) ->
  e_type e = ControllChange /\ e_time e = 0 /\ 0 <= e_ch e < 16 /\ 0 <= e_v1 e < 128 /\ 0 <= e_v2 e <= 127 /\
  exists e0, latest_cc_ev tp (e_ch e) (e_v1 e) evs = Some e0 /\ e_v2 e = value_range 0 (e_v2 e0) 127.
Proof.
  unfold pf_restored_cc. rewrite in_flat_map. intros [ch [Hch He]]. apply in_seq in Hch.
  rewrite in_flat_map in He. destruct He as [no [Hno He]]. apply in_seq in Hno.
  unfold restored_cc_of in He. destruct (latest_cc_ev tp (Z.of_nat ch) (Z.of_nat no) evs) as [e0|] eqn:L; [|destruct He].
  destruct He as [<-|[]]. cbn [ev_cc e_type e_time e_v1 e_v2 e_ch].
  assert (B : 0 <= value_range 0 (e_v2 e0) 127 <= 127).
  { unfold value_range. destruct (Z.ltb_spec (e_v2 e0) 0); [lia|]. destruct (Z.gtb_spec (e_v2 e0) 127); lia. }
  repeat split; try lia. exists e0. split; [exact L|reflexivity].
Qed.

(* the programs: per channel the latest program change before the point, on that channel *)
Lemma restored_voice_of_key tp evs ch c :
  filter (fun e => e_ch e =? Z.of_nat c) (restored_voice_of tp evs ch)
  = if Nat.eqb ch c then restored_voice_of tp evs ch else [].
Proof.
  unfold restored_voice_of. destruct (latest_voice_ev _ _ _) as [e|]; [|destruct (Nat.eqb ch c); reflexivity].
  destruct (e_v1 e >=? 0); [|destruct (Nat.eqb ch c); reflexivity].
  cbn [filter ev_voice e_ch]. destruct (Nat.eqb_spec ch c) as [->|C]; [rewrite Z.eqb_refl; reflexivity|].
  replace (Z.of_nat ch =? Z.of_nat c) with false by lia. reflexivity.
Qed.

Theorem restored_voice_unique tp evs ch : 0 <= ch < 16 ->
  filter (fun e => e_ch e =? ch) (pf_restored_voice tp evs)
  = match latest_voice_ev tp ch evs with
    | Some e => if e_v1 e >=? 0 then [ev_voice 0 ch (e_v1 e)] else []
    | None => []
    end.
Proof.
  intros Hc. replace ch with (Z.of_nat (Z.to_nat ch)) by lia. set (c := Z.to_nat ch).
  unfold pf_restored_voice. rewrite (filter_flat_map_pick _ _ c (restored_voice_of tp evs c)).
  - cbn [Nat.leb andb]. replace (Nat.ltb c (0 + 16)) with true by (symmetry; apply Nat.ltb_lt; unfold c; lia). reflexivity.
  - intros i. rewrite restored_voice_of_key. destruct (Nat.eqb_spec i c) as [->|]; reflexivity.
Qed.

Theorem restored_voice_shape tp evs e : In e (pf_restored_voice tp evs) ->
  e_type e = Voice /\ e_time e = 0 /\ 0 <= e_ch e < 16 /\ 0 <= e_v1 e /\
  exists e0, latest_voice_ev tp (e_ch e) evs = Some e0 /\ e_v1 e = e_v1 e0.
Proof.
  unfold pf_restored_voice. rewrite in_flat_map. intros [ch [Hch He]]. apply in_seq in Hch.
  unfold restored_voice_of in He. destruct (latest_voice_ev tp (Z.of_nat ch) evs) as [e0|] eqn:L; [|destruct He].
  destruct (Z.geb_spec (e_v1 e0) 0) as [G|G]; [|destruct He].
  destruct He as [<-|[]]. cbn [ev_voice e_type e_time e_v1 e_ch].
  repeat split; try lia. exists e0. split; [exact L|reflexivity].
Qed.

(* the channel of the statements is the channel byte the writer sends; for the events the compiler produces
   (channel 0..15) it is the channel field itself *)
Theorem chan_of_writer e :
  chan_of e = Z.min (Z.max (e_ch e) 0) 15 /\ midi_ch (e_ch e) = chan_of e /\ (0 <= e_ch e <= 15 -> chan_of e = e_ch e).
Proof.
  assert (A : chan_of e = Z.min (Z.max (e_ch e) 0) 15).
  { unfold chan_of, value_range. destruct (Z.ltb_spec (e_ch e) 0); [lia|]. destruct (Z.gtb_spec (e_ch e) 15); lia. }
  split; [exact A|]. split.
  - unfold midi_ch, as_u8. rewrite <- A. pose proof (chan_of_range e). apply Z.mod_small. lia.
  - intros H. rewrite A. lia.
Qed.

(* what "latest" means: the last such event of the list before the point *)
Lemma is_type_true ty e : is_type ty e = true <-> e_type e = ty.
Proof. unfold is_type. destruct (e_type e), ty; cbn [etype_eqb]; split; intros H; try reflexivity; discriminate. Qed.

Lemma before_true tp q e : before tp q e = true <-> q e = true /\ e_time e < tp.
Proof. unfold before. rewrite andb_true_iff, Z.ltb_lt. reflexivity. Qed.

Lemma cc_on_true ch no e : cc_on ch no e = true <-> e_type e = ControllChange /\ chan_of e = ch /\ e_v1 e = no.
Proof. unfold cc_on. rewrite !andb_true_iff, is_type_true, !Z.eqb_eq. tauto. Qed.

Lemma voice_on_true ch e : voice_on ch e = true <-> e_type e = Voice /\ chan_of e = ch.
Proof. unfold voice_on. rewrite andb_true_iff, is_type_true, Z.eqb_eq. reflexivity. Qed.

Lemma last_of_some_P {A} (p : A -> bool) (P : A -> Prop) : (forall x, p x = true <-> P x) -> forall l x,
  last_of p l = Some x <-> exists l1 l2, l = l1 ++ x :: l2 /\ P x /\ Forall (fun y => ~ P y) l2.
Proof.
  intros HP l x. rewrite last_of_some. split; intros [l1 [l2 [E [Px H]]]]; exists l1, l2; (split; [exact E|split; [apply HP; exact Px|]]).
  - apply Forall_forall. intros y Hy Py. rewrite forallb_forall in H. specialize (H y Hy). apply HP in Py. rewrite Py in H. discriminate.
  - apply forallb_forall. intros y Hy. rewrite Forall_forall in H. destruct (p y) eqn:E'; [|reflexivity].
    exfalso. apply (H y Hy), HP, E'.
Qed.

Lemma last_of_none_P {A} (p : A -> bool) (P : A -> Prop) : (forall x, p x = true <-> P x) -> forall l,
  last_of p l = None <-> Forall (fun y => ~ P y) l.
Proof.
  intros HP l. rewrite last_of_none. split; intros H.
  - apply Forall_forall. intros y Hy Py. rewrite forallb_forall in H. specialize (H y Hy). apply HP in Py. rewrite Py in H. discriminate.
  - apply forallb_forall. intros y Hy. rewrite Forall_forall in H. destruct (p y) eqn:E'; [|reflexivity].
    exfalso. apply (H y Hy), HP, E'.
Qed.

Lemma cc_pred_true tp ch no x :
  before tp (cc_on ch no) x = true <-> e_type x = ControllChange /\ e_time x < tp /\ chan_of x = ch /\ e_v1 x = no.
Proof. rewrite before_true, cc_on_true. tauto. Qed.

Lemma voice_pred_true tp ch x :
  before tp (voice_on ch) x = true <-> e_type x = Voice /\ e_time x < tp /\ chan_of x = ch.
Proof. rewrite before_true, voice_on_true. tauto. Qed.

Theorem latest_cc_some tp ch no evs e :
  latest_cc_ev tp ch no evs = Some e <->
  exists l1 l2, evs = l1 ++ e :: l2 /\ e_type e = ControllChange /\ e_time e < tp /\ chan_of e = ch /\ e_v1 e = no /\
    Forall (fun x => ~ (e_type x = ControllChange /\ e_time x < tp /\ chan_of x = ch /\ e_v1 x = no)) l2.
Proof.
  unfold latest_cc_ev. rewrite (last_of_some_P _ _ (cc_pred_true tp ch no)).
  split; intros (l1 & l2 & E & H); exists l1, l2; (split; [exact E|]); tauto.
Qed.

Theorem latest_cc_none tp ch no evs :
  latest_cc_ev tp ch no evs = None <->
  Forall (fun x => ~ (e_type x = ControllChange /\ e_time x < tp /\ chan_of x = ch /\ e_v1 x = no)) evs.
Proof. unfold latest_cc_ev. apply (last_of_none_P _ _ (cc_pred_true tp ch no)). Qed.

Theorem latest_voice_some tp ch evs e :
  latest_voice_ev tp ch evs = Some e <->
  exists l1 l2, evs = l1 ++ e :: l2 /\ e_type e = Voice /\ e_time e < tp /\ chan_of e = ch /\
    Forall (fun x => ~ (e_type x = Voice /\ e_time x < tp /\ chan_of x = ch)) l2.
Proof.
  unfold latest_voice_ev. rewrite (last_of_some_P _ _ (voice_pred_true tp ch)).
  split; intros (l1 & l2 & E & H); exists l1, l2; (split; [exact E|]); tauto.
Qed.

Theorem latest_voice_none tp ch evs :
  latest_voice_ev tp ch evs = None <-> Forall (fun x => ~ (e_type x = Voice /\ e_time x < tp /\ chan_of x = ch)) evs.
Proof. unfold latest_voice_ev. apply (last_of_none_P _ _ (voice_pred_true tp ch)). Qed.

(* (e) nothing else passes: NoteOff, PitchBend, PitchBendRange and DirectSMF events are dropped wherever they stand *)
Theorem play_from_kinds tp evs : Forall (fun e => passes_type e = true) (play_from tp evs).
Proof.
  rewrite play_from_decomposition. apply Forall_app. split; [|apply Forall_app; split].
  - unfold pf_early. apply Forall_forall. intros e He. apply in_map_iff in He. destruct He as [x [<- Hx]].
    apply filter_In in Hx. destruct Hx as [_ Hx]. unfold early_meta in Hx. unfold passes_type, at_zero. cbn [set_time e_type].
    destruct (e_type x); try discriminate; reflexivity.
  - unfold pf_restored. apply Forall_app. split.
    + apply Forall_forall. intros e He. apply restored_cc_shape in He. destruct He as [T _]. unfold passes_type. rewrite T. reflexivity.
    + apply Forall_forall. intros e He. apply restored_voice_shape in He. destruct He as [T _]. unfold passes_type. rewrite T. reflexivity.
  - unfold pf_kept. apply Forall_forall. intros e He. apply in_map_iff in He. destruct He as [x [<- Hx]].
    apply filter_In in Hx. destruct Hx as [_ Hx]. unfold kept in Hx. apply andb_prop in Hx. exact (proj1 Hx).
Qed.

Theorem play_from_drops tp evs ty : passes_type (mkEvent ty 0 0 0 0 0 None) = false ->
  filter (is_type ty) (play_from tp evs) = [].
Proof.
  intros Hty. pose proof (play_from_kinds tp evs) as H. induction (play_from tp evs) as [|e l IH]; [reflexivity|].
  inversion H as [|? ? He Hl]; subst. cbn [filter]. rewrite (IH Hl).
  unfold passes_type, is_type in *. cbn [e_type] in Hty. destruct (e_type e), ty; cbn [etype_eqb]; try reflexivity; discriminate.
Qed.

(* every kept event has a time >= 0; early and restored events are at tick 0 *)
Lemma pf_kept_times tp evs : Forall (fun e => 0 <= e_time e) (pf_kept tp evs).
Proof.
  unfold pf_kept. apply Forall_forall. intros e He. apply in_map_iff in He. destruct He as [x [<- Hx]].
  apply filter_In in Hx. destruct Hx as [_ Hx]. unfold kept in Hx. apply andb_prop in Hx. cbn [retime set_time e_time]. lia.
Qed.

Lemma pf_early_times tp evs : Forall (fun e => e_time e = 0) (pf_early tp evs).
Proof. unfold pf_early. apply Forall_forall. intros e He. apply in_map_iff in He. destruct He as [x [<- _]]. reflexivity. Qed.

Lemma pf_restored_times tp evs : Forall (fun e => e_time e = 0) (pf_restored tp evs).
Proof.
  unfold pf_restored. apply Forall_app. split.
  - apply Forall_forall. intros e He. apply restored_cc_shape in He. apply He.
  - apply Forall_forall. intros e He. apply restored_voice_shape in He. apply He.
Qed.

(* ------------------------------------------------------------------------------------------------ *)
(* 4. (d) order: before the sort by construction, after the writer's normalize + stable sort           *)

(* in the list play_from returns, every restored event stands before every kept event *)
Theorem play_from_order tp evs :
  exists pre post, play_from tp evs = pre ++ post /\ pre = pf_early tp evs ++ pf_restored tp evs /\ post = pf_kept tp evs.
Proof. eexists. eexists. split; [|split; reflexivity]. rewrite play_from_decomposition, app_assoc. reflexivity. Qed.

Lemma split_note_off_app a b : split_note_off (a ++ b) = split_note_off a ++ split_note_off b.
Proof. rewrite !split_note_off_spec. apply flat_map_app. Qed.

Lemma split_note_off_no_note l : filter (is_type NoteOn) l = [] -> split_note_off l = l.
Proof.
  induction l as [|e l IH]; [reflexivity|]. cbn [filter split_note_off]. unfold is_type at 1.
  destruct (e_type e); cbn [etype_eqb]; try discriminate; intros H; rewrite (IH H); reflexivity.
Qed.

Lemma at_time_all l t : Forall (fun e => e_time e = t) l -> at_time t l = l.
Proof.
  induction 1 as [|e l He _ IH]; [reflexivity|]. unfold at_time in *. cbn [filter]. rewrite He, Z.eqb_refl, IH. reflexivity.
Qed.

Lemma at_time_app t a b : at_time t (a ++ b) = at_time t a ++ at_time t b.
Proof. apply filter_app. Qed.

(* a time-sorted list is: what lies before t, what lies at t, what lies after t *)
Lemma sorted_three l t : Sorted time_le l ->
  l = filter (fun e => e_time e <? t) l ++ at_time t l ++ filter (fun e => t <? e_time e) l.
Proof.
  intros Hs. apply Sorted_StronglySorted in Hs; [|intros a b c; unfold time_le; lia].
  induction Hs as [|x l Hs IH Hall]; [reflexivity|].
  unfold at_time in *. cbn [filter].
  destruct (Z.lt_trichotomy (e_time x) t) as [Lt|[Eq|Gt]].
  - replace (e_time x <? t) with true by lia. replace (e_time x =? t) with false by lia. replace (t <? e_time x) with false by lia.
    cbn [app]. f_equal. exact IH.
  - replace (e_time x <? t) with false by lia. replace (e_time x =? t) with true by lia. replace (t <? e_time x) with false by lia.
    assert (F : filter (fun e => e_time e <? t) l = []).
    { clear IH Hs. induction Hall as [|y r Hy _ IHr]; [reflexivity|]. unfold time_le in Hy. cbn [filter].
      replace (e_time y <? t) with false by lia. exact IHr. }
    rewrite F in *. cbn [app] in *. f_equal. exact IH.
  - replace (e_time x <? t) with false by lia. replace (e_time x =? t) with false by lia. replace (t <? e_time x) with true by lia.
    assert (F : filter (fun e => e_time e <? t) l = [] /\ filter (fun e => e_time e =? t) l = []).
    { clear IH Hs. induction Hall as [|y r Hy _ IHr]; [split; reflexivity|]. unfold time_le in Hy. cbn [filter].
      replace (e_time y <? t) with false by lia. replace (e_time y =? t) with false by lia. exact IHr. }
    destruct F as [F1 F2]. rewrite F1, F2 in *. cbn [app] in *. f_equal. exact IH.
Qed.

Lemma split_prefix {A} (X : list A) : forall l1 e l2 Y, l1 ++ e :: l2 = X ++ Y -> ~ In e X -> exists b, l1 = X ++ b.
Proof.
  induction X as [|x X IH]; intros l1 e l2 Y E Hn; [exists l1; reflexivity|].
  destruct l1 as [|a l1]; cbn [app] in E; injection E as E1 E2.
  - subst. exfalso. apply Hn. left. reflexivity.
  - subst a. destruct (IH l1 e l2 Y E2) as [b ->]; [intros H; apply Hn; right; exact H|]. exists b. reflexivity.
Qed.

(* the sorted list the writer turns into bytes: at tick 0 the early events, then the restored ones, then what
   the kept segment has at tick 0 (stability of the sort) *)
Theorem play_from_sorted_tick0 tp evs :
  at_time 0 (normalize_and_sort (play_from tp evs))
  = pf_early tp evs ++ pf_restored tp evs ++ at_time 0 (split_note_off (pf_kept tp evs)).
Proof.
  unfold normalize_and_sort. rewrite events_sort_stable, play_from_decomposition, !split_note_off_app, !at_time_app.
  rewrite (split_note_off_no_note _ (early_no_note tp evs)), (split_note_off_no_note _ (restored_no_note tp evs)).
  rewrite (at_time_all _ 0 (pf_early_times tp evs)), (at_time_all _ 0 (pf_restored_times tp evs)). reflexivity.
Qed.

(* (d) in the sorted list every note-on - also one at tick 0 - has the whole block of early and restored events
   before it; what may precede the block has a negative time (note-offs of notes with a negative gate) *)
Theorem play_from_sorted_order tp evs l1 e l2 :
  normalize_and_sort (play_from tp evs) = l1 ++ e :: l2 -> e_type e = NoteOn ->
  exists a b, l1 = a ++ (pf_early tp evs ++ pf_restored tp evs) ++ b /\ Forall (fun x => e_type x = NoteOff /\ e_time x < 0) a.
Proof.
  intros E Te.
  assert (Hsorted : Sorted time_le (normalize_and_sort (play_from tp evs))) by apply events_sort_sorted.
  pose proof (sorted_three _ 0 Hsorted) as H3. rewrite play_from_sorted_tick0 in H3.
  set (S := normalize_and_sort (play_from tp evs)) in *.
  set (N := filter (fun x => e_time x <? 0) S) in *.
  (* members of S *)
  assert (Hmem : forall x, In x S -> (passes_type x = true /\ 0 <= e_time x) \/ e_type x = NoteOff).
  { intros x Hx. unfold S, normalize_and_sort in Hx.
    apply (Permutation_in _ (events_sort_perm _)) in Hx. rewrite split_note_off_spec in Hx.
    apply in_flat_map in Hx. destruct Hx as [y [Hy Hx]].
    assert (Py : passes_type y = true /\ 0 <= e_time y).
    { pose proof (play_from_kinds tp evs) as K. rewrite Forall_forall in K. split; [apply K; exact Hy|].
      rewrite play_from_decomposition in Hy. apply in_app_or in Hy. destruct Hy as [Hy|Hy].
      - pose proof (pf_early_times tp evs) as T. rewrite Forall_forall in T. rewrite (T y Hy). lia.
      - apply in_app_or in Hy. destruct Hy as [Hy|Hy].
        + pose proof (pf_restored_times tp evs) as T. rewrite Forall_forall in T. rewrite (T y Hy). lia.
        + pose proof (pf_kept_times tp evs) as T. rewrite Forall_forall in T. apply (T y Hy). }
    destruct (e_type y) eqn:Ty; cbn [In] in Hx;
      try (destruct Hx as [<-|[]]; left; exact Py).
    destruct Hx as [<-|[<-|[]]]; [left; exact Py|right; reflexivity]. }
  assert (HN : Forall (fun x => e_type x = NoteOff /\ e_time x < 0) N).
  { apply Forall_forall. intros x Hx. unfold N in Hx. apply filter_In in Hx. destruct Hx as [Hx Hneg].
    destruct (Hmem x Hx) as [[_ Hpos]|Hoff]; [lia|]. split; [exact Hoff|lia]. }
  exists N.
  assert (Hnot : ~ In e (N ++ pf_early tp evs ++ pf_restored tp evs)).
  { intros Hin. apply in_app_or in Hin. destruct Hin as [Hin|Hin].
    - rewrite Forall_forall in HN. destruct (HN e Hin) as [T _]. congruence.
    - assert (F : filter (is_type NoteOn) (pf_early tp evs ++ pf_restored tp evs) = [])
        by (rewrite filter_app, early_no_note, restored_no_note; reflexivity).
      assert (Hf : In e (filter (is_type NoteOn) (pf_early tp evs ++ pf_restored tp evs))).
      { apply filter_In. split; [exact Hin|]. unfold is_type. rewrite Te. reflexivity. }
      rewrite F in Hf. destruct Hf. }
  assert (H3' : l1 ++ e :: l2 = (N ++ pf_early tp evs ++ pf_restored tp evs)
                 ++ (at_time 0 (split_note_off (pf_kept tp evs)) ++ filter (fun x => 0 <? e_time x) S)).
  { rewrite <- E. etransitivity; [exact H3|]. rewrite <- !app_assoc. reflexivity. }
  destruct (split_prefix _ _ _ _ _ H3' Hnot) as [b ->].
  exists b. split; [|exact HN]. rewrite <- !app_assoc. reflexivity.
Qed.

(* ------------------------------------------------------------------------------------------------ *)
(* 5. what compile() hands to the writer: play_from of the TIME-SORTED events, so "latest" is latest in time  *)

Theorem tracks_for_writer_play_from s : 0 <= Song.s_play_from s ->
  tracks_for_writer s
  = map (fun t => play_from (Song.s_play_from s) (events_sort (Song.tr_events (Tie.check_tie_notes (Song.s_timebase s) t))))
        (Song.s_tracks s).
Proof.
  intros H. unfold tracks_for_writer. apply map_ext. intros t.
  replace (Song.s_play_from s <? 0) with false by lia. reflexivity.
Qed.

Theorem tracks_for_writer_off s : Song.s_play_from s < 0 ->
  tracks_for_writer s = map (fun t => Song.tr_events (Tie.check_tie_notes (Song.s_timebase s) t)) (Song.s_tracks s).
Proof.
  intros H. unfold tracks_for_writer. apply map_ext. intros t.
  replace (Song.s_play_from s <? 0) with true by lia. reflexivity.
Qed.

Lemma sorted_before_mid l1 e l2 : Sorted time_le (l1 ++ e :: l2) -> Forall (fun x => e_time x <= e_time e) l1.
Proof.
  intros Hs. apply Sorted_StronglySorted in Hs; [|intros a b c; unfold time_le; lia].
  induction l1 as [|x l1 IH]; [constructor|]. cbn [app] in Hs. inversion Hs as [|? ? Hs' Hall]; subst.
  constructor; [|apply IH; exact Hs'].
  rewrite Forall_forall in Hall. apply (Hall e). apply in_or_app. right. left. reflexivity.
Qed.

Lemma at_time_mid t l1 e l2 : e_time e = t -> at_time t (l1 ++ e :: l2) = at_time t l1 ++ e :: at_time t l2.
Proof. intros H. unfold at_time. rewrite filter_app. cbn [filter]. rewrite H, Z.eqb_refl. reflexivity. Qed.

(* over the sorted list the last such event of the list is the latest in time; among those of that tick, the one
   written last (stability of the sort).  q: any predicate on events, e.g. "controller no on channel ch" *)
Lemma latest_in_time_gen (q : event -> bool) tp evs e : last_of (before tp q) (events_sort evs) = Some e ->
  In e evs /\ q e = true /\ e_time e < tp /\
  Forall (fun x => q x = true -> e_time x < tp -> e_time x <= e_time e) evs /\
  exists a b, at_time (e_time e) evs = a ++ e :: b /\ Forall (fun x => q x <> true) b.
Proof.
  intros L. apply (last_of_some_P _ _ (before_true tp q)) in L. destruct L as [l1 [l2 [E [[Q Tm] Hl2]]]].
  pose proof (events_sort_sorted evs) as Hs. rewrite E in Hs.
  pose proof (sorted_before_mid l1 e l2 Hs) as H1.
  assert (Hin : forall x, In x evs -> In x (l1 ++ e :: l2)).
  { intros x Hx. rewrite <- E. apply (Permutation_in _ (Permutation_sym (events_sort_perm evs))). exact Hx. }
  split; [apply (Permutation_in _ (events_sort_perm evs)); rewrite E; apply in_or_app; right; left; reflexivity|].
  split; [exact Q|]. split; [exact Tm|]. split.
  - apply Forall_forall. intros x Hx X1 X2. apply Hin in Hx. apply in_app_or in Hx. destruct Hx as [Hx|[<-|Hx]].
    + rewrite Forall_forall in H1. apply H1. exact Hx.
    + lia.
    + rewrite Forall_forall in Hl2. exfalso. apply (Hl2 x Hx). split; assumption.
  - exists (at_time (e_time e) l1), (at_time (e_time e) l2). split.
    + rewrite <- (events_sort_stable evs), E. apply at_time_mid. reflexivity.
    + apply Forall_forall. intros x Hx X1. unfold at_time in Hx. apply filter_In in Hx. destruct Hx as [Hx Ht].
      rewrite Forall_forall in Hl2. apply (Hl2 x Hx). split; [assumption|lia].
Qed.

Theorem latest_cc_in_time tp ch no evs e : latest_cc_ev tp ch no (events_sort evs) = Some e ->
  In e evs /\ e_type e = ControllChange /\ e_time e < tp /\ chan_of e = ch /\ e_v1 e = no /\
  Forall (fun x => e_type x = ControllChange -> chan_of x = ch -> e_v1 x = no -> e_time x < tp -> e_time x <= e_time e) evs /\
  exists a b, at_time (e_time e) evs = a ++ e :: b /\
    Forall (fun x => ~ (e_type x = ControllChange /\ chan_of x = ch /\ e_v1 x = no)) b.
Proof.
  intros L. apply latest_in_time_gen in L. destruct L as (I & Q & Tm & F & a & b & Ea & Fb).
  apply cc_on_true in Q. destruct Q as (Q1 & Q2 & Q3).
  repeat (split; [assumption|]). split.
  - eapply Forall_impl; [|exact F]. cbv beta. intros x Hx X1 X2 X3 X4. apply Hx; [|exact X4]. apply cc_on_true. tauto.
  - exists a, b. split; [exact Ea|]. eapply Forall_impl; [|exact Fb]. cbv beta. intros x Hx X. apply Hx, cc_on_true, X.
Qed.

Theorem latest_voice_in_time tp ch evs e : latest_voice_ev tp ch (events_sort evs) = Some e ->
  In e evs /\ e_type e = Voice /\ e_time e < tp /\ chan_of e = ch /\
  Forall (fun x => e_type x = Voice -> chan_of x = ch -> e_time x < tp -> e_time x <= e_time e) evs /\
  exists a b, at_time (e_time e) evs = a ++ e :: b /\ Forall (fun x => ~ (e_type x = Voice /\ chan_of x = ch)) b.
Proof.
  intros L. apply latest_in_time_gen in L. destruct L as (I & Q & Tm & F & a & b & Ea & Fb).
  apply voice_on_true in Q. destruct Q as (Q1 & Q2).
  repeat (split; [assumption|]). split.
  - eapply Forall_impl; [|exact F]. cbv beta. intros x Hx X1 X2 X3. apply Hx; [|exact X3]. apply voice_on_true. tauto.
  - exists a, b. split; [exact Ea|]. eapply Forall_impl; [|exact Fb]. cbv beta. intros x Hx X. apply Hx, voice_on_true, X.
Qed.

(* nothing such before the point in the written list <-> nothing restored *)
Lemma Forall_sorted_iff (P : event -> Prop) evs : Forall P (events_sort evs) <-> Forall P evs.
Proof.
  split; intros H; apply Forall_forall; intros x Hx; rewrite Forall_forall in H; apply H.
  - apply (Permutation_in _ (Permutation_sym (events_sort_perm evs))). exact Hx.
  - apply (Permutation_in _ (events_sort_perm evs)). exact Hx.
Qed.

Theorem latest_cc_sorted_none tp ch no evs :
  latest_cc_ev tp ch no (events_sort evs) = None <->
  Forall (fun x => ~ (e_type x = ControllChange /\ e_time x < tp /\ chan_of x = ch /\ e_v1 x = no)) evs.
Proof. rewrite latest_cc_none. apply Forall_sorted_iff. Qed.

Theorem latest_voice_sorted_none tp ch evs :
  latest_voice_ev tp ch (events_sort evs) = None <->
  Forall (fun x => ~ (e_type x = Voice /\ e_time x < tp /\ chan_of x = ch)) evs.
Proof. rewrite latest_voice_none. apply Forall_sorted_iff. Qed.
