(* C14 - Track::play_from (Compile.play_from): for ARBITRARY event lists, what is dropped, what is kept and
   re-timed, what is restored at tick 0, and in which order - before and after the writer's stable sort. *)
From Sakura.Model Require Import Base Event Writer Compile.
From Sakura.Proofs Require Import SortP.
From Coq Require Import Lia Permutation Sorted.
Open Scope Z_scope.

(* ------------------------------------------------------------------------------------------------ *)
(* 0. vocabulary of the statements (independent of the fold in Compile.play_from)                     *)

(* the play-from point becomes tick 0 *)
Definition retime (tp : Z) (e : event) : event := set_time e (e_time e - tp).
Definition at_zero (e : event) : event := set_time e 0.

Definition is_type (ty : etype) (e : event) : bool := etype_eqb (e_type e) ty.

(* the event kinds play_from lets through at all *)
Definition passes_type (e : event) : bool :=
  match e_type e with NoteOn | Voice | ControllChange | Meta | SysEx => true | _ => false end.
(* kept and re-timed: of such a kind, at or after the point *)
Definition kept (tp : Z) (e : event) : bool := passes_type e && (tp <=? e_time e).
(* Meta / SysEx before the point: kept, moved to tick 0 *)
Definition early_meta (tp : Z) (e : event) : bool :=
  match e_type e with Meta | SysEx => e_time e <? tp | _ => false end.
Definition cc_before (tp : Z) (e : event) : bool := is_type ControllChange e && (e_time e <? tp).
Definition voice_before (tp : Z) (e : event) : bool := is_type Voice e && (e_time e <? tp).

(* the LAST element of l that satisfies p (see last_of_some / last_of_none) *)
Definition last_of {A} (p : A -> bool) (l : list A) : option A :=
  fold_left (fun acc x => if p x then Some x else acc) l None.

(* the value controller `no` has when the point is reached / the program in force / the channel of the last of them *)
Definition latest_cc (tp no : Z) (evs : list event) : option Z :=
  option_map e_v2 (last_of (fun e => cc_before tp e && (e_v1 e =? no)) evs).
Definition latest_voice (tp : Z) (evs : list event) : option Z :=
  option_map e_v1 (last_of (voice_before tp) evs).
Definition restore_ch (tp : Z) (evs : list event) : Z :=
  match last_of (fun e => cc_before tp e || voice_before tp e) evs with Some e => e_ch e | None => 0 end.

(* the four segments of the result *)
Definition pf_early (tp : Z) (evs : list event) : list event := map at_zero (filter (early_meta tp) evs).
Definition pf_kept (tp : Z) (evs : list event) : list event := map (retime tp) (filter (kept tp) evs).
Definition restored_cc_of (tp : Z) (evs : list event) (no : nat) : list event :=
  match latest_cc tp (Z.of_nat no) evs with
  | Some v => if v <? 0 then [] else [ev_cc 0 (restore_ch tp evs) (Z.of_nat no) v]
  | None => []
  end.
Definition pf_restored_cc (tp : Z) (evs : list event) : list event := flat_map (restored_cc_of tp evs) (seq 0 128).
Definition pf_restored_voice (tp : Z) (evs : list event) : list event :=
  match latest_voice tp evs with
  | Some v => if v >=? 0 then [ev_voice 0 (restore_ch tp evs) v] else []
  | None => []
  end.
Definition pf_restored (tp : Z) (evs : list event) : list event := pf_restored_cc tp evs ++ pf_restored_voice tp evs.

(* ------------------------------------------------------------------------------------------------ *)
(* 1. last_of                                                                                         *)

Lemma last_of_snoc {A} (p : A -> bool) l x : last_of p (l ++ [x]) = if p x then Some x else last_of p l.
Proof. unfold last_of. rewrite fold_left_app. reflexivity. Qed.

Lemma filter_snoc {A} (p : A -> bool) l x : filter p (l ++ [x]) = filter p l ++ (if p x then [x] else []).
Proof. rewrite filter_app. cbn [filter]. destruct (p x); reflexivity. Qed.

Lemma last_of_some {A} (p : A -> bool) l x :
  last_of p l = Some x <-> exists l1 l2, l = l1 ++ x :: l2 /\ p x = true /\ forallb (fun y => negb (p y)) l2 = true.
Proof.
  revert x. induction l as [|y l IH] using rev_ind; intros x.
  - split; [discriminate|]. intros [l1 [l2 [E _]]]. destruct l1; discriminate.
  - rewrite last_of_snoc. destruct (p y) eqn:Py.
    + split.
      * intros E; injection E as <-. exists l, []. repeat split; assumption.
      * intros [l1 [l2 [E [Px Hl2]]]].
        destruct l2 as [|z l2] using rev_ind.
        -- apply app_inj_tail in E. destruct E as [_ ->]. reflexivity.
        -- clear IHl2. rewrite app_comm_cons, app_assoc in E. apply app_inj_tail in E. destruct E as [_ ->].
           rewrite forallb_app in Hl2. cbn [forallb] in Hl2. rewrite Py in Hl2. cbn in Hl2.
           rewrite andb_false_r in Hl2. discriminate.
    + rewrite IH. split.
      * intros [l1 [l2 [-> [Px Hl2]]]]. exists l1, (l2 ++ [y]). rewrite <- app_assoc. repeat split; [assumption|].
        rewrite forallb_app. cbn [forallb]. rewrite Hl2, Py. reflexivity.
      * intros [l1 [l2 [E [Px Hl2]]]].
        destruct l2 as [|z l2] using rev_ind.
        -- apply app_inj_tail in E. destruct E as [_ ->]. congruence.
        -- clear IHl2. rewrite app_comm_cons, app_assoc in E. apply app_inj_tail in E. destruct E as [-> ->].
           rewrite forallb_app in Hl2. apply andb_prop in Hl2. exists l1, l2. repeat split; [assumption|apply Hl2].
Qed.

Lemma last_of_none {A} (p : A -> bool) l : last_of p l = None <-> forallb (fun y => negb (p y)) l = true.
Proof.
  induction l as [|y l IH] using rev_ind; [split; reflexivity|].
  rewrite last_of_snoc, forallb_app. cbn [forallb]. destruct (p y); cbn [negb].
  - rewrite andb_false_r. split; discriminate.
  - rewrite !andb_true_r. exact IH.
Qed.

(* ------------------------------------------------------------------------------------------------ *)
(* 2. the fold of play_from                                                                           *)

Definition pf_init : pf_acc := mkPf [] [] (repeat (-1) 128) (-1) 0.
Definition pf_run (tp : Z) (evs : list event) : pf_acc := fold_left (pf_step tp) evs pf_init.

Lemma pf_run_snoc tp evs e : pf_run tp (evs ++ [e]) = pf_step tp (pf_run tp evs) e.
Proof. unfold pf_run. rewrite fold_left_app. reflexivity. Qed.

Lemma set_cc_length v l : forall n, length (set_cc n v l) = length l.
Proof. induction l as [|x r IH]; intros [|n]; cbn [set_cc length]; try reflexivity. rewrite IH. reflexivity. Qed.

Lemma nth_set_cc v d l : forall n i,
  nth i (set_cc n v l) d = if Nat.eqb i n && Nat.ltb n (length l) then v else nth i l d.
Proof.
  induction l as [|x r IH]; intros n i.
  - replace (Nat.ltb n (length (@nil Z))) with false by (symmetry; apply Nat.ltb_ge; cbn [length]; lia).
    rewrite andb_false_r. destruct n; reflexivity.
  - destruct n as [|n], i as [|i]; cbn [set_cc nth length]; try reflexivity.
    rewrite IH. reflexivity.
Qed.

Lemma pf_cc_length tp evs : length (pf_cc (pf_run tp evs)) = 128%nat.
Proof.
  induction evs as [|e l IH] using rev_ind; [reflexivity|].
  rewrite pf_run_snoc. unfold pf_step.
  destruct (e_type e); try exact IH; destruct (e_time e - tp <? 0); try exact IH.
  cbn [pf_cc]. destruct (_ && _); [rewrite set_cc_length|]; exact IH.
Qed.

Lemma pf_head_spec tp evs : pf_head (pf_run tp evs) = pf_early tp evs.
Proof.
  unfold pf_early. induction evs as [|e l IH] using rev_ind; [reflexivity|].
  rewrite pf_run_snoc, filter_snoc, map_app, <- IH. unfold pf_step, early_meta.
  replace (e_time e - tp <? 0) with (e_time e <? tp) by lia.
  destruct (e_type e); destruct (e_time e <? tp); cbn [pf_head map]; rewrite ?app_nil_r; reflexivity.
Qed.

Lemma pf_rest_spec tp evs : pf_rest (pf_run tp evs) = pf_kept tp evs.
Proof.
  unfold pf_kept. induction evs as [|e l IH] using rev_ind; [reflexivity|].
  rewrite pf_run_snoc, filter_snoc, map_app, <- IH. unfold pf_step, kept, passes_type, retime.
  replace (e_time e - tp <? 0) with (negb (tp <=? e_time e)) by lia.
  destruct (e_type e); destruct (tp <=? e_time e); cbn [negb andb pf_rest map]; rewrite ?app_nil_r; reflexivity.
Qed.

Lemma pf_voice_spec tp evs :
  pf_voice (pf_run tp evs) = match latest_voice tp evs with Some v => v | None => -1 end.
Proof.
  unfold latest_voice. induction evs as [|e l IH] using rev_ind; [reflexivity|].
  rewrite pf_run_snoc, last_of_snoc. unfold pf_step, voice_before, is_type.
  replace (e_time e - tp <? 0) with (e_time e <? tp) by lia.
  destruct (e_type e); destruct (e_time e <? tp); cbn [etype_eqb andb pf_voice option_map]; try exact IH; reflexivity.
Qed.

Lemma pf_ch_spec tp evs : pf_ch (pf_run tp evs) = restore_ch tp evs.
Proof.
  unfold restore_ch. induction evs as [|e l IH] using rev_ind; [reflexivity|].
  rewrite pf_run_snoc, last_of_snoc. unfold pf_step, cc_before, voice_before, is_type.
  replace (e_time e - tp <? 0) with (e_time e <? tp) by lia.
  destruct (e_type e); destruct (e_time e <? tp); cbn [etype_eqb andb orb pf_ch]; try exact IH; reflexivity.
Qed.

Lemma pf_cc_spec tp evs no : (no < 128)%nat ->
  nth no (pf_cc (pf_run tp evs)) (-1) = match latest_cc tp (Z.of_nat no) evs with Some v => v | None => -1 end.
Proof.
  intros Hno. unfold latest_cc. induction evs as [|e l IH] using rev_ind.
  - cbn [pf_run fold_left pf_init pf_cc last_of option_map].
    apply nth_repeat.
  - rewrite pf_run_snoc, last_of_snoc. unfold pf_step, cc_before, is_type.
    replace (e_time e - tp <? 0) with (e_time e <? tp) by lia.
    destruct (e_type e); destruct (e_time e <? tp); cbn [etype_eqb andb pf_cc]; try exact IH.
    destruct ((0 <=? e_v1 e) && (e_v1 e <? 128)) eqn:R.
    + rewrite nth_set_cc, pf_cc_length.
      destruct (e_v1 e =? Z.of_nat no) eqn:E.
      * replace (Nat.eqb no (Z.to_nat (e_v1 e))) with true by (symmetry; apply Nat.eqb_eq; lia).
        replace (Nat.ltb (Z.to_nat (e_v1 e)) 128) with true by (symmetry; apply Nat.ltb_lt; lia).
        reflexivity.
      * replace (Nat.eqb no (Z.to_nat (e_v1 e))) with false by (symmetry; apply Nat.eqb_neq; lia).
        exact IH.
    + replace (e_v1 e =? Z.of_nat no) with false by lia. exact IH.
Qed.

(* restore_ccs over the table: one event per entry that is not negative, in controller order *)
Lemma restore_ccs_seq ch (g : nat -> Z) : forall n k,
  restore_ccs (Z.of_nat k) ch (map g (seq k n))
  = flat_map (fun i => if g i <? 0 then [] else [ev_cc 0 ch (Z.of_nat i) (g i)]) (seq k n).
Proof.
  induction n as [|n IH]; intros k; [reflexivity|].
  cbn [seq map restore_ccs flat_map]. f_equal.
  replace (Z.of_nat k + 1) with (Z.of_nat (S k)) by lia. apply IH.
Qed.

Lemma pf_cc_table tp evs :
  pf_cc (pf_run tp evs)
  = map (fun no => match latest_cc tp (Z.of_nat no) evs with Some v => v | None => -1 end) (seq 0 128).
Proof.
  set (F := fun no => match latest_cc tp (Z.of_nat no) evs with Some v => v | None => -1 end).
  apply (nth_ext _ _ (-1) (F 0%nat)).
  - rewrite pf_cc_length, map_length, seq_length. reflexivity.
  - intros n Hn. rewrite pf_cc_length in Hn. rewrite pf_cc_spec by exact Hn.
    rewrite (map_nth F), seq_nth by exact Hn. reflexivity.
Qed.

(* THE DECOMPOSITION: early Meta/SysEx at tick 0, then the restored controllers (ascending number) and program,
   then everything kept, re-timed, in the original order *)
Theorem play_from_decomposition tp evs :
  play_from tp evs = pf_early tp evs ++ pf_restored tp evs ++ pf_kept tp evs.
Proof.
  unfold play_from. fold pf_init. fold (pf_run tp evs).
  rewrite pf_head_spec, pf_rest_spec, pf_ch_spec, pf_voice_spec, pf_cc_table.
  f_equal. unfold pf_restored. rewrite <- app_assoc. f_equal; [|f_equal].
  - change 0 with (Z.of_nat 0) at 1. rewrite restore_ccs_seq. unfold pf_restored_cc.
    apply flat_map_ext. intros no. unfold restored_cc_of.
    destruct (latest_cc tp (Z.of_nat no) evs) as [v|]; reflexivity.
  - unfold pf_restored_voice. destruct (latest_voice tp evs) as [v|]; reflexivity.
Qed.

(* ------------------------------------------------------------------------------------------------ *)
(* 3. consequences: (a) notes, (b) other kept kinds, (c) restored values, (e) dropped kinds           *)

Lemma filter_flat_map_nil {A B} (q : B -> bool) (F : A -> list B) l :
  (forall a, filter q (F a) = []) -> filter q (flat_map F l) = [].
Proof. intros H. induction l as [|a l IH]; [reflexivity|]. cbn [flat_map]. rewrite filter_app, H, IH. reflexivity. Qed.

Lemma is_type_at_zero ty e : is_type ty (at_zero e) = is_type ty e. Proof. reflexivity. Qed.
Lemma is_type_retime ty tp e : is_type ty (retime tp e) = is_type ty e. Proof. reflexivity. Qed.

Lemma filter_map_inv {A} (q : A -> bool) (f : A -> A) l : (forall x, q (f x) = q x) -> filter q (map f l) = map f (filter q l).
Proof.
  intros H. induction l as [|x l IH]; [reflexivity|]. cbn [map filter]. rewrite H. destruct (q x); cbn [map]; rewrite IH; reflexivity.
Qed.

Lemma filter_filter {A} (p q : A -> bool) l : filter q (filter p l) = filter (fun x => q x && p x) l.
Proof.
  induction l as [|x l IH]; [reflexivity|]. cbn [filter]. destruct (p x) eqn:P; cbn [filter]; rewrite ?P, IH.
  - destruct (q x); reflexivity.
  - rewrite andb_false_r. reflexivity.
Qed.

(* any predicate that does not look at the time selects, among the kept events, the re-timed originals *)
Lemma kept_filter (q : event -> bool) tp evs : (forall e t, q (set_time e t) = q e) ->
  filter q (pf_kept tp evs) = map (retime tp) (filter (fun e => q e && kept tp e) evs).
Proof.
  intros H. unfold pf_kept. rewrite filter_map_inv by (intros x; apply H). rewrite filter_filter. reflexivity.
Qed.

Lemma early_no_note tp evs : filter (is_type NoteOn) (pf_early tp evs) = [].
Proof.
  unfold pf_early. rewrite filter_map_inv by (intros; apply is_type_at_zero). rewrite filter_filter.
  induction evs as [|e l IH]; [reflexivity|]. cbn [filter]. unfold early_meta, is_type at 1.
  destruct (e_type e); cbn [etype_eqb andb]; exact IH.
Qed.

Lemma restored_no_note tp evs : filter (is_type NoteOn) (pf_restored tp evs) = [].
Proof.
  unfold pf_restored. rewrite filter_app. unfold pf_restored_cc.
  rewrite filter_flat_map_nil.
  - unfold pf_restored_voice. destruct (latest_voice tp evs) as [v|]; [destruct (v >=? 0)|]; reflexivity.
  - intros no. unfold restored_cc_of. destruct (latest_cc _ _ _) as [v|]; [destruct (v <? 0)|]; reflexivity.
Qed.

(* (a) the note-ons of the result are exactly the note-ons at or after the point, re-timed, in order *)
Theorem play_from_notes tp evs :
  filter (is_type NoteOn) (play_from tp evs)
  = map (retime tp) (filter (fun e => is_type NoteOn e && (tp <=? e_time e)) evs).
Proof.
  rewrite play_from_decomposition, !filter_app, early_no_note, restored_no_note. cbn [app].
  rewrite kept_filter by reflexivity. f_equal. apply filter_ext. intros e. unfold kept, passes_type, is_type.
  destruct (e_type e); reflexivity.
Qed.

(* (b) the kept segment holds, for each of the five kinds, exactly the events of that kind at or after the point *)
Theorem play_from_kept_kind tp evs ty : passes_type (mkEvent ty 0 0 0 0 0 None) = true ->
  filter (is_type ty) (pf_kept tp evs) = map (retime tp) (filter (fun e => is_type ty e && (tp <=? e_time e)) evs).
Proof.
  intros Hty. rewrite kept_filter by reflexivity. f_equal. apply filter_ext. intros e. unfold kept, passes_type, is_type in *.
  cbn [e_type] in Hty. destruct (e_type e), ty; cbn [etype_eqb andb]; try reflexivity; discriminate.
Qed.

(* Meta / SysEx written before the point are not lost: they are issued at tick 0, first of all *)
Theorem play_from_early tp evs :
  pf_early tp evs = map at_zero (filter (fun e => (is_type Meta e || is_type SysEx e) && (e_time e <? tp)) evs).
Proof.
  unfold pf_early. f_equal. apply filter_ext. intros e. unfold early_meta, is_type. destruct (e_type e); reflexivity.
Qed.

(* (c) for every controller number there is at most one restoring event; there is exactly one, carrying the LATEST
   value written before the point, as soon as that value is not negative *)
Lemma restored_cc_of_v1 tp evs no k :
  filter (fun e => e_v1 e =? Z.of_nat k) (restored_cc_of tp evs no)
  = if Nat.eqb no k then restored_cc_of tp evs no else [].
Proof.
  unfold restored_cc_of. destruct (latest_cc _ _ _) as [v|]; [|destruct (Nat.eqb no k); reflexivity].
  destruct (v <? 0); [destruct (Nat.eqb no k); reflexivity|].
  cbn [filter ev_cc e_v1]. destruct (Nat.eqb_spec no k) as [->|N].
  - rewrite Z.eqb_refl. reflexivity.
  - replace (Z.of_nat no =? Z.of_nat k) with false by lia. reflexivity.
Qed.

Lemma filter_flat_map_seq tp evs k : forall n a,
  filter (fun e => e_v1 e =? Z.of_nat k) (flat_map (restored_cc_of tp evs) (seq a n))
  = if Nat.leb a k && Nat.ltb k (a + n) then restored_cc_of tp evs k else [].
Proof.
  induction n as [|n IH]; intros a.
  - cbn [seq flat_map filter]. destruct (Nat.leb_spec a k), (Nat.ltb_spec k (a + 0)); cbn [andb]; try reflexivity; lia.
  - cbn [seq flat_map]. rewrite filter_app, restored_cc_of_v1, IH.
    destruct (Nat.eqb_spec a k) as [->|N].
    + replace (Nat.leb (S k) k) with false by (symmetry; apply Nat.leb_gt; lia). cbn [andb]. rewrite app_nil_r.
      rewrite Nat.leb_refl. replace (Nat.ltb k (k + S n)) with true by (symmetry; apply Nat.ltb_lt; lia). reflexivity.
    + cbn [app]. destruct (Nat.leb_spec (S a) k), (Nat.leb_spec a k), (Nat.ltb_spec k (S a + n)), (Nat.ltb_spec k (a + S n));
        cbn [andb]; try reflexivity; lia.
Qed.

Theorem restored_cc_unique tp evs no : 0 <= no < 128 ->
  filter (fun e => e_v1 e =? no) (pf_restored_cc tp evs)
  = match latest_cc tp no evs with
    | Some v => if v <? 0 then [] else [ev_cc 0 (restore_ch tp evs) no v]
    | None => []
    end.
Proof.
  intros H. unfold pf_restored_cc. replace no with (Z.of_nat (Z.to_nat no)) by lia.
  rewrite filter_flat_map_seq. cbn [Nat.leb andb].
  replace (Nat.ltb (Z.to_nat no) (0 + 128)) with true by (symmetry; apply Nat.ltb_lt; lia). reflexivity.
Qed.

(* every restored controller event is a controller change at tick 0 with a number in 0..127 *)
Theorem restored_cc_shape tp evs e : In e (pf_restored_cc tp evs) ->
  e_type e = ControllChange /\ e_time e = 0 /\ 0 <= e_v1 e < 128 /\ e_ch e = restore_ch tp evs /\
  latest_cc tp (e_v1 e) evs = Some (e_v2 e) /\ 0 <= e_v2 e.
Proof.
  unfold pf_restored_cc. rewrite in_flat_map. intros [no [Hno He]]. apply in_seq in Hno.
  unfold restored_cc_of in He. destruct (latest_cc tp (Z.of_nat no) evs) as [v|] eqn:L; [|destruct He].
  destruct (v <? 0) eqn:V; [destruct He|]. destruct He as [<-|[]]. cbn [ev_cc e_type e_time e_v1 e_v2 e_ch].
  repeat split; try lia. exact L.
Qed.

(* what "latest" means: the last controller change for that number before the point *)
Theorem latest_cc_some tp no evs v :
  latest_cc tp no evs = Some v <->
  exists l1 e l2, evs = l1 ++ e :: l2 /\ e_type e = ControllChange /\ e_time e < tp /\ e_v1 e = no /\ e_v2 e = v /\
    Forall (fun x => ~ (e_type x = ControllChange /\ e_time x < tp /\ e_v1 x = no)) l2.
Proof.
  unfold latest_cc. split.
  - destruct (last_of _ evs) as [e|] eqn:L; [|discriminate]. cbn [option_map]. intros E; injection E as <-.
    apply last_of_some in L. destruct L as [l1 [l2 [-> [Pe Hl2]]]]. exists l1, e, l2.
    unfold cc_before, is_type in Pe. apply andb_prop in Pe. destruct Pe as [Pe1 Pe3]. apply andb_prop in Pe1. destruct Pe1 as [Pe1 Pe2].
    repeat split; try lia; [destruct (e_type e); try discriminate; reflexivity|].
    apply Forall_forall. intros x Hx [X1 [X2 X3]]. rewrite forallb_forall in Hl2. specialize (Hl2 x Hx).
    unfold cc_before, is_type in Hl2. rewrite X1 in Hl2. cbn [etype_eqb andb] in Hl2.
    replace (e_time x <? tp) with true in Hl2 by lia. replace (e_v1 x =? no) with true in Hl2 by lia. discriminate.
  - intros [l1 [e [l2 [-> [T [Tm [N [V Hl2]]]]]]]].
    replace (last_of (fun e0 => cc_before tp e0 && (e_v1 e0 =? no)) (l1 ++ e :: l2)) with (Some e); [cbn [option_map]; congruence|].
    symmetry. apply last_of_some. exists l1, l2. split; [reflexivity|]. split.
    + unfold cc_before, is_type. rewrite T. cbn [etype_eqb andb]. lia.
    + apply forallb_forall. intros x Hx. rewrite Forall_forall in Hl2. specialize (Hl2 x Hx).
      unfold cc_before, is_type. destruct (e_type x) eqn:Tx; cbn [etype_eqb andb negb]; try reflexivity.
      destruct (e_time x <? tp) eqn:A; cbn [andb negb]; [|reflexivity].
      destruct (e_v1 x =? no) eqn:B; cbn [negb]; [|reflexivity]. exfalso. apply Hl2. repeat split; lia.
Qed.

Theorem latest_cc_none tp no evs :
  latest_cc tp no evs = None <-> Forall (fun x => ~ (e_type x = ControllChange /\ e_time x < tp /\ e_v1 x = no)) evs.
Proof.
  unfold latest_cc. destruct (last_of _ evs) as [e|] eqn:L; cbn [option_map].
  - split; [discriminate|]. intros H. apply last_of_some in L. destruct L as [l1 [l2 [-> [Pe _]]]].
    rewrite Forall_forall in H. exfalso. apply (H e); [apply in_or_app; right; left; reflexivity|].
    unfold cc_before, is_type in Pe. apply andb_prop in Pe. destruct Pe as [Pe1 Pe3]. apply andb_prop in Pe1. destruct Pe1 as [Pe1 Pe2].
    repeat split; try lia. destruct (e_type e); try discriminate; reflexivity.
  - split; [|reflexivity]. intros _. apply last_of_none in L. apply Forall_forall. intros x Hx [X1 [X2 X3]].
    rewrite forallb_forall in L. specialize (L x Hx). unfold cc_before, is_type in L. rewrite X1 in L. cbn [etype_eqb andb] in L.
    replace (e_time x <? tp) with true in L by lia. replace (e_v1 x =? no) with true in L by lia. discriminate.
Qed.

Theorem latest_voice_some tp evs v :
  latest_voice tp evs = Some v <->
  exists l1 e l2, evs = l1 ++ e :: l2 /\ e_type e = Voice /\ e_time e < tp /\ e_v1 e = v /\
    Forall (fun x => ~ (e_type x = Voice /\ e_time x < tp)) l2.
Proof.
  unfold latest_voice. split.
  - destruct (last_of _ evs) as [e|] eqn:L; [|discriminate]. cbn [option_map]. intros E; injection E as <-.
    apply last_of_some in L. destruct L as [l1 [l2 [-> [Pe Hl2]]]]. exists l1, e, l2.
    unfold voice_before, is_type in Pe. apply andb_prop in Pe. destruct Pe as [Pe1 Pe2].
    repeat split; try lia; [destruct (e_type e); try discriminate; reflexivity|].
    apply Forall_forall. intros x Hx [X1 X2]. rewrite forallb_forall in Hl2. specialize (Hl2 x Hx).
    unfold voice_before, is_type in Hl2. rewrite X1 in Hl2. cbn [etype_eqb andb] in Hl2.
    replace (e_time x <? tp) with true in Hl2 by lia. discriminate.
  - intros [l1 [e [l2 [-> [T [Tm [V Hl2]]]]]]].
    replace (last_of (voice_before tp) (l1 ++ e :: l2)) with (Some e); [cbn [option_map]; congruence|].
    symmetry. apply last_of_some. exists l1, l2. split; [reflexivity|]. split.
    + unfold voice_before, is_type. rewrite T. cbn [etype_eqb andb]. lia.
    + apply forallb_forall. intros x Hx. rewrite Forall_forall in Hl2. specialize (Hl2 x Hx).
      unfold voice_before, is_type. destruct (e_type x) eqn:Tx; cbn [etype_eqb andb negb]; try reflexivity.
      destruct (e_time x <? tp) eqn:A; cbn [negb]; [|reflexivity]. exfalso. apply Hl2. split; [reflexivity|lia].
Qed.

(* the program: one restoring event with the latest program before the point (when it is not negative) *)
Theorem restored_voice_spec tp evs :
  pf_restored_voice tp evs
  = match latest_voice tp evs with Some v => if v >=? 0 then [ev_voice 0 (restore_ch tp evs) v] else [] | None => [] end.
Proof. reflexivity. Qed.

(* the channel the restored events are sent on: that of the last controller / program event before the point *)
Theorem restore_ch_spec tp evs :
  (forall e, last_of (fun e => cc_before tp e || voice_before tp e) evs = Some e -> restore_ch tp evs = e_ch e) /\
  (last_of (fun e => cc_before tp e || voice_before tp e) evs = None -> restore_ch tp evs = 0).
Proof. unfold restore_ch. split; [intros e ->|intros ->]; reflexivity. Qed.

(* (e) nothing else passes: NoteOff, PitchBend, PitchBendRange and DirectSMF events are dropped wherever they stand *)
Theorem play_from_kinds tp evs : Forall (fun e => passes_type e = true) (play_from tp evs).
Proof.
  rewrite play_from_decomposition. apply Forall_app. split; [|apply Forall_app; split].
  - unfold pf_early. apply Forall_forall. intros e He. apply in_map_iff in He. destruct He as [x [<- Hx]].
    apply filter_In in Hx. destruct Hx as [_ Hx]. unfold early_meta in Hx. unfold passes_type, at_zero. cbn [set_time e_type].
    destruct (e_type x); try discriminate; reflexivity.
  - unfold pf_restored. apply Forall_app. split.
    + apply Forall_forall. intros e He. apply restored_cc_shape in He. destruct He as [T _]. unfold passes_type. rewrite T. reflexivity.
    + unfold pf_restored_voice. destruct (latest_voice tp evs) as [v|]; [destruct (v >=? 0)|]; repeat constructor.
  - unfold pf_kept. apply Forall_forall. intros e He. apply in_map_iff in He. destruct He as [x [<- Hx]].
    apply filter_In in Hx. destruct Hx as [_ Hx]. unfold kept in Hx. apply andb_prop in Hx. exact (proj1 Hx).
Qed.

Theorem play_from_drops tp evs ty : passes_type (mkEvent ty 0 0 0 0 0 None) = false ->
  filter (is_type ty) (play_from tp evs) = [].
Proof.
  intros Hty. pose proof (play_from_kinds tp evs) as H. induction (play_from tp evs) as [|e l IH]; [reflexivity|].
  inversion H as [|? ? He Hl]; subst. cbn [filter]. rewrite (IH Hl).
  unfold passes_type, is_type in *. cbn [e_type] in Hty. destruct (e_type e), ty; cbn [etype_eqb]; try reflexivity; discriminate.
Qed.

(* every kept event has a time >= 0; early and restored events are at tick 0 *)
Lemma pf_kept_times tp evs : Forall (fun e => 0 <= e_time e) (pf_kept tp evs).
Proof.
  unfold pf_kept. apply Forall_forall. intros e He. apply in_map_iff in He. destruct He as [x [<- Hx]].
  apply filter_In in Hx. destruct Hx as [_ Hx]. unfold kept in Hx. apply andb_prop in Hx. cbn [retime set_time e_time]. lia.
Qed.

Lemma pf_early_times tp evs : Forall (fun e => e_time e = 0) (pf_early tp evs).
Proof. unfold pf_early. apply Forall_forall. intros e He. apply in_map_iff in He. destruct He as [x [<- _]]. reflexivity. Qed.

Lemma pf_restored_times tp evs : Forall (fun e => e_time e = 0) (pf_restored tp evs).
Proof.
  unfold pf_restored. apply Forall_app. split.
  - apply Forall_forall. intros e He. apply restored_cc_shape in He. apply He.
  - unfold pf_restored_voice. destruct (latest_voice tp evs) as [v|]; [destruct (v >=? 0)|]; repeat constructor.
Qed.

(* ------------------------------------------------------------------------------------------------ *)
(* 4. (d) order: before the sort by construction, after the writer's normalize + stable sort           *)

(* in the list play_from returns, every restored event stands before every kept event *)
Theorem play_from_order tp evs :
  exists pre post, play_from tp evs = pre ++ post /\ pre = pf_early tp evs ++ pf_restored tp evs /\ post = pf_kept tp evs.
Proof. eexists. eexists. split; [|split; reflexivity]. rewrite play_from_decomposition, app_assoc. reflexivity. Qed.

Lemma split_note_off_app a b : split_note_off (a ++ b) = split_note_off a ++ split_note_off b.
Proof. rewrite !split_note_off_spec. apply flat_map_app. Qed.

Lemma split_note_off_no_note l : filter (is_type NoteOn) l = [] -> split_note_off l = l.
Proof.
  induction l as [|e l IH]; [reflexivity|]. cbn [filter split_note_off]. unfold is_type at 1.
  destruct (e_type e); cbn [etype_eqb]; try discriminate; intros H; rewrite (IH H); reflexivity.
Qed.

Lemma at_time_all l t : Forall (fun e => e_time e = t) l -> at_time t l = l.
Proof.
  induction 1 as [|e l He _ IH]; [reflexivity|]. unfold at_time in *. cbn [filter]. rewrite He, Z.eqb_refl, IH. reflexivity.
Qed.

Lemma at_time_app t a b : at_time t (a ++ b) = at_time t a ++ at_time t b.
Proof. apply filter_app. Qed.

(* a time-sorted list is: what lies before t, what lies at t, what lies after t *)
Lemma sorted_three l t : Sorted time_le l ->
  l = filter (fun e => e_time e <? t) l ++ at_time t l ++ filter (fun e => t <? e_time e) l.
Proof.
  intros Hs. apply Sorted_StronglySorted in Hs; [|intros a b c; unfold time_le; lia].
  induction Hs as [|x l Hs IH Hall]; [reflexivity|].
  unfold at_time in *. cbn [filter].
  destruct (Z.lt_trichotomy (e_time x) t) as [Lt|[Eq|Gt]].
  - replace (e_time x <? t) with true by lia. replace (e_time x =? t) with false by lia. replace (t <? e_time x) with false by lia.
    cbn [app]. f_equal. exact IH.
  - replace (e_time x <? t) with false by lia. replace (e_time x =? t) with true by lia. replace (t <? e_time x) with false by lia.
    assert (F : filter (fun e => e_time e <? t) l = []).
    { clear IH Hs. induction Hall as [|y r Hy _ IHr]; [reflexivity|]. unfold time_le in Hy. cbn [filter].
      replace (e_time y <? t) with false by lia. exact IHr. }
    rewrite F in *. cbn [app] in *. f_equal. exact IH.
  - replace (e_time x <? t) with false by lia. replace (e_time x =? t) with false by lia. replace (t <? e_time x) with true by lia.
    assert (F : filter (fun e => e_time e <? t) l = [] /\ filter (fun e => e_time e =? t) l = []).
    { clear IH Hs. induction Hall as [|y r Hy _ IHr]; [split; reflexivity|]. unfold time_le in Hy. cbn [filter].
      replace (e_time y <? t) with false by lia. replace (e_time y =? t) with false by lia. exact IHr. }
    destruct F as [F1 F2]. rewrite F1, F2 in *. cbn [app] in *. f_equal. exact IH.
Qed.

Lemma split_prefix {A} (X : list A) : forall l1 e l2 Y, l1 ++ e :: l2 = X ++ Y -> ~ In e X -> exists b, l1 = X ++ b.
Proof.
  induction X as [|x X IH]; intros l1 e l2 Y E Hn; [exists l1; reflexivity|].
  destruct l1 as [|a l1]; cbn [app] in E; injection E as E1 E2.
  - subst. exfalso. apply Hn. left. reflexivity.
  - subst a. destruct (IH l1 e l2 Y E2) as [b ->]; [intros H; apply Hn; right; exact H|]. exists b. reflexivity.
Qed.

(* the sorted list the writer turns into bytes: at tick 0 the early events, then the restored ones, then what
   the kept segment has at tick 0 (stability of the sort) *)
Theorem play_from_sorted_tick0 tp evs :
  at_time 0 (normalize_and_sort (play_from tp evs))
  = pf_early tp evs ++ pf_restored tp evs ++ at_time 0 (split_note_off (pf_kept tp evs)).
Proof.
  unfold normalize_and_sort. rewrite events_sort_stable, play_from_decomposition, !split_note_off_app, !at_time_app.
  rewrite (split_note_off_no_note _ (early_no_note tp evs)), (split_note_off_no_note _ (restored_no_note tp evs)).
  rewrite (at_time_all _ 0 (pf_early_times tp evs)), (at_time_all _ 0 (pf_restored_times tp evs)). reflexivity.
Qed.

(* (d) in the sorted list every note-on - also one at tick 0 - has the whole block of early and restored events
   before it; what may precede the block has a negative time (note-offs of notes with a negative gate) *)
Theorem play_from_sorted_order tp evs l1 e l2 :
  normalize_and_sort (play_from tp evs) = l1 ++ e :: l2 -> e_type e = NoteOn ->
  exists a b, l1 = a ++ (pf_early tp evs ++ pf_restored tp evs) ++ b /\ Forall (fun x => e_type x = NoteOff /\ e_time x < 0) a.
Proof.
  intros E Te.
  assert (Hsorted : Sorted time_le (normalize_and_sort (play_from tp evs))) by apply events_sort_sorted.
  pose proof (sorted_three _ 0 Hsorted) as H3. rewrite play_from_sorted_tick0 in H3.
  set (S := normalize_and_sort (play_from tp evs)) in *.
  set (N := filter (fun x => e_time x <? 0) S) in *.
  (* members of S *)
  assert (Hmem : forall x, In x S -> (passes_type x = true /\ 0 <= e_time x) \/ e_type x = NoteOff).
  { intros x Hx. unfold S, normalize_and_sort in Hx.
    apply (Permutation_in _ (events_sort_perm _)) in Hx. rewrite split_note_off_spec in Hx.
    apply in_flat_map in Hx. destruct Hx as [y [Hy Hx]].
    assert (Py : passes_type y = true /\ 0 <= e_time y).
    { pose proof (play_from_kinds tp evs) as K. rewrite Forall_forall in K. split; [apply K; exact Hy|].
      rewrite play_from_decomposition in Hy. apply in_app_or in Hy. destruct Hy as [Hy|Hy].
      - pose proof (pf_early_times tp evs) as T. rewrite Forall_forall in T. rewrite (T y Hy). lia.
      - apply in_app_or in Hy. destruct Hy as [Hy|Hy].
        + pose proof (pf_restored_times tp evs) as T. rewrite Forall_forall in T. rewrite (T y Hy). lia.
        + pose proof (pf_kept_times tp evs) as T. rewrite Forall_forall in T. apply (T y Hy). }
    destruct (e_type y) eqn:Ty; cbn [In] in Hx;
      try (destruct Hx as [<-|[]]; left; exact Py).
    destruct Hx as [<-|[<-|[]]]; [left; exact Py|right; reflexivity]. }
  assert (HN : Forall (fun x => e_type x = NoteOff /\ e_time x < 0) N).
  { apply Forall_forall. intros x Hx. unfold N in Hx. apply filter_In in Hx. destruct Hx as [Hx Hneg].
    destruct (Hmem x Hx) as [[_ Hpos]|Hoff]; [lia|]. split; [exact Hoff|lia]. }
  exists N.
  assert (Hnot : ~ In e (N ++ pf_early tp evs ++ pf_restored tp evs)).
  { intros Hin. apply in_app_or in Hin. destruct Hin as [Hin|Hin].
    - rewrite Forall_forall in HN. destruct (HN e Hin) as [T _]. congruence.
    - assert (F : filter (is_type NoteOn) (pf_early tp evs ++ pf_restored tp evs) = [])
        by (rewrite filter_app, early_no_note, restored_no_note; reflexivity).
      assert (Hf : In e (filter (is_type NoteOn) (pf_early tp evs ++ pf_restored tp evs))).
      { apply filter_In. split; [exact Hin|]. unfold is_type. rewrite Te. reflexivity. }
      rewrite F in Hf. destruct Hf. }
  assert (H3' : l1 ++ e :: l2 = (N ++ pf_early tp evs ++ pf_restored tp evs)
                 ++ (at_time 0 (split_note_off (pf_kept tp evs)) ++ filter (fun x => 0 <? e_time x) S)).
  { rewrite <- E. etransitivity; [exact H3|]. rewrite <- !app_assoc. reflexivity. }
  destruct (split_prefix _ _ _ _ _ H3' Hnot) as [b ->].
  exists b. split; [|exact HN]. rewrite <- !app_assoc. reflexivity.
Qed.

(* ------------------------------------------------------------------------------------------------ *)
(* 5. what compile() hands to the writer                                                              *)

Theorem tracks_for_writer_play_from s : 0 <= Song.s_play_from s ->
  tracks_for_writer s
  = map (fun t => play_from (Song.s_play_from s) (Song.tr_events (Tie.check_tie_notes (Song.s_timebase s) t))) (Song.s_tracks s).
Proof.
  intros H. unfold tracks_for_writer. apply map_ext. intros t.
  replace (Song.s_play_from s <? 0) with false by lia. reflexivity.
Qed.
