(* reservation lemmas (C16): on_note / on_cycle over arbitrary value lists and note counts,
   controller reservations, ramp ticks / start / range, v.onTime shape, random width, xorshift. *)
From Sakura.Model Require Import Base Event F32 Reserve.
From Sakura.Spec Require Import ReserveSpec.
From Coq Require Import Lia Sorted Znumtheory.
Open Scope Z_scope.

(* ------------------------------------------------------------------------------------------- *)
(* record plumbing                                                                             *)
(* ------------------------------------------------------------------------------------------- *)
Definition clear_flag (w : which) : bool := match w with WO | WL => true | _ => false end.

Lemma calc_on_note_unfold w k def :
  calc_on_note w k def =
  let '(v, r, applied) := on_note_step (clear_flag w) (get_res w k) def in
  (v, set_res w (if applied then set_stored w k v else k) r).
Proof.
  destruct w; cbn [calc_on_note get_res set_res set_stored clear_flag];
    unfold calc_v_on_note, calc_qlen_on_note, calc_t_on_note, calc_o_on_note, calc_l_on_note;
    destruct (on_note_step _ _ def) as [[v r] a]; destruct a; reflexivity.
Qed.

Lemma set_res_get w k : set_res w k (get_res w k) = k.
Proof. destruct w, k; reflexivity. Qed.
Lemma get_set_res w k r : get_res w (set_res w k r) = r.
Proof. destruct w; reflexivity. Qed.
Lemma set_res_set_res w k r r' : set_res w (set_res w k r) r' = set_res w k r'.
Proof. destruct w; reflexivity. Qed.
Lemma get_res_set_stored w k v : get_res w (set_stored w k v) = get_res w k.
Proof. destruct w; reflexivity. Qed.
Lemma set_stored_set_res w k r v : set_stored w (set_res w k r) v = set_res w (set_stored w k v) r.
Proof. destruct w; reflexivity. Qed.
Lemma set_stored_twice w k a b : set_stored w (set_stored w k a) b = set_stored w k b.
Proof. destruct w; reflexivity. Qed.

(* the value left in the track by a run of applied values: the last one (nothing for l) *)
Definition store_last (w : which) (k : track) (applied : list Z) : track :=
  match applied with [] => k | _ => set_stored w k (last applied 0) end.

Lemma store_last_cons w k r v l :
  store_last w (set_res w (set_stored w k v) r) l = set_res w (store_last w k (v :: l)) r.
Proof.
  destruct l as [|x l]; [reflexivity|].
  unfold store_last. rewrite set_stored_set_res, set_stored_twice. reflexivity.
Qed.

(* ------------------------------------------------------------------------------------------- *)
(* on_note_step                                                                                *)
(* ------------------------------------------------------------------------------------------- *)
Lemma step_none c r def : r_list r = None -> on_note_step c r def = (def, r, false).
Proof. intros H. unfold on_note_step. rewrite H. reflexivity. Qed.

Lemma zlen_pos {A} (l : list A) : l <> [] -> 0 < zlen l.
Proof. destruct l; [congruence|]. intros _. unfold zlen. cbn [length]. lia. Qed.

Lemma step_in_range c vs (i : nat) cyc def : (i < length vs)%nat ->
  on_note_step c (mkOnres (Some vs) (Z.of_nat i) cyc) def =
  (nth i vs 0, mkOnres (Some vs) (Z.of_nat (S i)) cyc, true).
Proof.
  intros Hi. unfold on_note_step. cbn [r_list r_index r_cycle]. unfold zlen.
  destruct (Z.of_nat (length vs) =? 0) eqn:E0; [lia|].
  destruct (Z.of_nat i >=? Z.of_nat (length vs)) eqn:E1; [lia|]. cbn [andb].
  unfold idx_usize. destruct (Z.of_nat i <? 0) eqn:E2; [lia|].
  rewrite Z.rem_small by lia. rewrite Nat2Z.id. rewrite Nat2Z.inj_succ. reflexivity.
Qed.

Lemma step_exhausted c vs def : vs <> [] ->
  on_note_step c (mkOnres (Some vs) (Z.of_nat (length vs)) false) def = (def, mkOnres None 0 false, false).
Proof.
  intros Hne. pose proof (zlen_pos vs Hne) as Hp. unfold on_note_step. cbn [r_list r_index r_cycle]. unfold zlen in *.
  destruct (Z.of_nat (length vs) =? 0) eqn:E0; [lia|].
  destruct (Z.of_nat (length vs) >=? Z.of_nat (length vs)) eqn:E1; [|lia]. reflexivity.
Qed.

Lemma step_wrap c vs def : vs <> [] ->
  on_note_step c (mkOnres (Some vs) (Z.of_nat (length vs)) true) def = (nth 0 vs 0, mkOnres (Some vs) 1 true, true).
Proof.
  intros Hne. pose proof (zlen_pos vs Hne) as Hp. unfold on_note_step. cbn [r_list r_index r_cycle]. unfold zlen in *.
  destruct (Z.of_nat (length vs) =? 0) eqn:E0; [lia|].
  destruct (Z.of_nat (length vs) >=? Z.of_nat (length vs)) eqn:E1; [|lia]. cbn [andb negb].
  unfold idx_usize. cbn. reflexivity.
Qed.

(* ------------------------------------------------------------------------------------------- *)
(* runs of notes                                                                               *)
(* ------------------------------------------------------------------------------------------- *)
Lemma run_calls_cons f k d rest :
  run_calls f k (d :: rest) = let '(v, k1) := f k d in let '(vs, k2) := run_calls f k1 rest in (v :: vs, k2).
Proof. reflexivity. Qed.

(* no reservation: every note takes its own default, nothing changes *)
Lemma run_none w : forall defs k, r_list (get_res w k) = None -> run_calls (calc_on_note w) k defs = (defs, k).
Proof.
  induction defs as [|d rest IH]; intros k H; [reflexivity|].
  rewrite run_calls_cons, calc_on_note_unfold, (step_none _ _ _ H). cbn iota. rewrite set_res_get, (IH k H). reflexivity.
Qed.

Lemma skipn_nth_cons {A} (d : A) : forall i l, (i < length l)%nat -> skipn i l = nth i l d :: skipn (S i) l.
Proof.
  induction i as [|i IH]; intros [|x l] H; cbn [length] in H; try lia; [reflexivity|].
  cbn [skipn nth]. rewrite (IH l) by lia. reflexivity.
Qed.

Definition on_note_final (vs : list Z) (i n : nat) : onres :=
  if (n <=? length vs - i)%nat then mkOnres (Some vs) (Z.of_nat (i + n)) false else mkOnres None 0 false.

Lemma on_note_run w vs : vs <> [] -> forall defs i k,
  get_res w k = mkOnres (Some vs) (Z.of_nat i) false -> (i <= length vs)%nat ->
  run_calls (calc_on_note w) k defs =
    (firstn (length defs) (skipn i vs) ++ skipn (length vs - i) defs,
     set_res w (store_last w k (firstn (length defs) (skipn i vs))) (on_note_final vs i (length defs))).
Proof.
  intros Hne. induction defs as [|d rest IH]; intros i k Hk Hi.
  - cbn [length firstn run_calls app]. rewrite skipn_nil. unfold on_note_final, store_last.
    cbn [Nat.leb]. rewrite Nat.add_0_r, <- Hk, set_res_get. reflexivity.
  - rewrite run_calls_cons, calc_on_note_unfold, Hk.
    destruct (Nat.eq_dec i (length vs)) as [E|E].
    + subst i. rewrite (step_exhausted _ _ _ Hne). cbn iota.
      rewrite run_none by (rewrite get_set_res; reflexivity).
      rewrite skipn_all, Nat.sub_diag. rewrite firstn_nil. cbn [app skipn store_last].
      unfold on_note_final. rewrite Nat.sub_diag. cbn [length Nat.leb]. reflexivity.
    + assert (Hlt : (i < length vs)%nat) by lia.
      rewrite (step_in_range _ _ _ _ _ Hlt). cbn iota.
      rewrite (IH (S i)) by (first [rewrite get_set_res; reflexivity | lia]).
      assert (HF : on_note_final vs (S i) (length rest) = on_note_final vs i (length (d :: rest))).
      { unfold on_note_final. cbn [length].
        destruct (Nat.leb_spec (length rest) (length vs - S i)); destruct (Nat.leb_spec (S (length rest)) (length vs - i));
          try lia; [f_equal; lia | reflexivity]. }
      rewrite HF, store_last_cons, set_res_set_res.
      rewrite (skipn_nth_cons 0 i vs Hlt). cbn [length firstn app].
      replace (length vs - i)%nat with (S (length vs - S i)) by lia. cbn [skipn]. reflexivity.
Qed.

Theorem on_note_spec w k vs defs : vs <> [] -> get_res w k = mkOnres (Some vs) 0 false ->
  run_calls (calc_on_note w) k defs =
    (firstn (length defs) vs ++ skipn (length vs) defs,
     set_res w (store_last w k (firstn (length defs) vs))
       (if (length defs <=? length vs)%nat then mkOnres (Some vs) (Z.of_nat (length defs)) false
        else mkOnres None 0 false)).
Proof.
  intros Hne Hk. rewrite (on_note_run w vs Hne defs 0 k Hk) by lia.
  cbn [skipn]. unfold on_note_final. rewrite Nat.sub_0_r. reflexivity.
Qed.

Lemma nth_firstn_lt {A} (d : A) : forall n i l, (i < n)%nat -> nth i (firstn n l) d = nth i l d.
Proof.
  induction n as [|n IH]; intros i l H; [lia|]. destruct l as [|x l]; [destruct i; reflexivity|].
  destruct i as [|i]; [reflexivity|]. cbn [firstn nth]. apply IH. lia.
Qed.
Lemma nth_skipn_add {A} (d : A) : forall n i l, nth i (skipn n l) d = nth (n + i) l d.
Proof.
  induction n as [|n IH]; intros i l; [reflexivity|]. destruct l as [|x l]; [destruct i; reflexivity|].
  cbn [skipn plus nth]. apply IH.
Qed.

(* readable corollaries: the i-th note gets vs[i]; note number |vs| gets its own default *)
Theorem on_note_nth w k vs defs (i : nat) : vs <> [] -> get_res w k = mkOnres (Some vs) 0 false ->
  (i < length defs)%nat ->
  nth i (fst (run_calls (calc_on_note w) k defs)) 0 = if (i <? length vs)%nat then nth i vs 0 else nth i defs 0.
Proof.
  intros Hne Hk Hi. rewrite (on_note_spec w k vs defs Hne Hk). cbn [fst].
  destruct (Nat.ltb_spec i (length vs)) as [H|H].
  - rewrite app_nth1 by (rewrite firstn_length; lia). apply nth_firstn_lt. assumption.
  - rewrite app_nth2 by (rewrite firstn_length; lia). rewrite firstn_length.
    replace (Nat.min (length defs) (length vs)) with (length vs) by lia.
    rewrite nth_skipn_add. f_equal. lia.
Qed.

(* a cancelled / absent reservation: the note takes its default and the track is unchanged *)
Theorem cancel_spec w k def : r_list (get_res w k) = None -> calc_on_note w k def = (def, k).
Proof. intros H. rewrite calc_on_note_unfold, (step_none _ _ _ H). cbn iota. rewrite set_res_get. reflexivity. Qed.

(* ---- onCycle ---- *)
Lemma on_cycle_run w vs : vs <> [] -> forall defs i k,
  get_res w k = mkOnres (Some vs) (Z.of_nat i) true -> (i <= length vs)%nat ->
  exists j, (j <= length vs)%nat /\
  run_calls (calc_on_note w) k defs =
    (map (fun c => nth ((i + c) mod length vs) vs 0) (seq 0 (length defs)),
     set_res w (store_last w k (map (fun c => nth ((i + c) mod length vs) vs 0) (seq 0 (length defs))))
       (mkOnres (Some vs) (Z.of_nat j) true)).
Proof.
  intros Hne. assert (Hn : (length vs <> 0)%nat) by (destruct vs; cbn; congruence).
  induction defs as [|d rest IH]; intros i k Hk Hi.
  - exists i. split; [assumption|]. cbn [length seq map run_calls store_last]. rewrite <- Hk, set_res_get. reflexivity.
  - rewrite run_calls_cons, calc_on_note_unfold, Hk.
    destruct (Nat.eq_dec i (length vs)) as [E|E].
    + subst i. rewrite (step_wrap _ _ _ Hne). cbn iota.
      destruct (IH 1%nat (set_res w (set_stored w k (nth 0 vs 0)) (mkOnres (Some vs) 1 true))) as [j [Hj HR]];
        [rewrite get_set_res; reflexivity | lia |].
      exists j. split; [assumption|]. rewrite HR. cbn [length seq map].
      rewrite <- seq_shift, map_map. rewrite Nat.add_0_r, Nat.mod_same by assumption.
      assert (HM : map (fun c => nth ((1 + c) mod length vs) vs 0) (seq 0 (length rest)) =
                   map (fun x => nth ((length vs + S x) mod length vs) vs 0) (seq 0 (length rest))).
      { apply map_ext. intros c. f_equal.
        replace (length vs + S c)%nat with (S c + 1 * length vs)%nat by lia. rewrite Nat.mod_add by assumption. reflexivity. }
      rewrite HM, store_last_cons, set_res_set_res. reflexivity.
    + assert (Hlt : (i < length vs)%nat) by lia.
      rewrite (step_in_range _ _ _ _ _ Hlt). cbn iota.
      destruct (IH (S i) (set_res w (set_stored w k (nth i vs 0)) (mkOnres (Some vs) (Z.of_nat (S i)) true))) as [j [Hj HR]];
        [rewrite get_set_res; reflexivity | lia |].
      exists j. split; [assumption|]. rewrite HR. cbn [length seq map].
      rewrite <- seq_shift, map_map. rewrite Nat.add_0_r, Nat.mod_small by assumption.
      assert (HM : map (fun c => nth ((S i + c) mod length vs) vs 0) (seq 0 (length rest)) =
                   map (fun x => nth ((i + S x) mod length vs) vs 0) (seq 0 (length rest))).
      { apply map_ext. intros c. f_equal. f_equal. lia. }
      rewrite HM, store_last_cons, set_res_set_res. reflexivity.
Qed.

Theorem on_cycle_spec w k vs defs : vs <> [] -> get_res w k = mkOnres (Some vs) 0 true ->
  let rs := map (fun i => nth (i mod length vs) vs 0) (seq 0 (length defs)) in
  exists j, (j <= length vs)%nat /\
  run_calls (calc_on_note w) k defs = (rs, set_res w (store_last w k rs) (mkOnres (Some vs) (Z.of_nat j) true)).
Proof.
  intros Hne Hk rs. destruct (on_cycle_run w vs Hne defs 0%nat k Hk) as [j [Hj HR]]; [lia|].
  exists j. split; [assumption|]. exact HR.
Qed.

(* ------------------------------------------------------------------------------------------- *)
(* controller .onNote                                                                          *)
(* ------------------------------------------------------------------------------------------- *)
Definition cc_view (c : cc_res) : Z * list Z := (cc_no c, cc_data c).
Definition adv (n : nat) (c : cc_res) : cc_res := mkCC (cc_no c) (cc_data c) (Z.of_nat n).
Definition alive (n : nat) (c : cc_res) : bool := Z.of_nat n <? zlen (cc_data c).
Definition all_at (j : nat) (l : list cc_res) : Prop := Forall (fun c => cc_index c = Z.of_nat j) l.

Lemma nth_error_nth_lt {A} (d : A) : forall l i, (i < length l)%nat -> nth_error l i = Some (nth i l d).
Proof.
  induction l as [|x l IH]; intros i H; cbn [length] in H; [lia|]. destruct i; [reflexivity|]. cbn. apply IH. lia.
Qed.

Lemma pending_at j c : cc_index c = Z.of_nat j -> cc_pending c = alive j c.
Proof. intros H. unfold cc_pending, alive. rewrite H. destruct (0 <=? Z.of_nat j) eqn:E; [reflexivity | lia]. Qed.

Lemma cc_events_at s ch j : forall l, all_at j l -> cc_note_events s ch l = cc_at s ch j (map cc_view l).
Proof.
  induction l as [|c l IH]; intros H; [reflexivity|]. inversion H as [|? ? Hc Hl]; subst.
  unfold cc_note_events, cc_at in *. cbn [flat_map map]. rewrite (IH Hl). f_equal.
  rewrite (pending_at j c Hc). unfold alive, zlen, cc_view. cbn [fst snd]. rewrite Hc, Nat2Z.id.
  destruct (Z.of_nat j <? Z.of_nat (length (cc_data c))) eqn:E.
  - rewrite (nth_error_nth_lt 0) by lia. reflexivity.
  - destruct (nth_error (cc_data c) j) eqn:N; [|reflexivity].
    assert (nth_error (cc_data c) j <> None) as NN by congruence. apply nth_error_Some in NN. lia.
Qed.

Lemma cc_bump_one j c : cc_index c = Z.of_nat j ->
  cc_pending (cc_bump c) = alive (S j) c /\ (alive (S j) c = true -> cc_bump c = adv (S j) c).
Proof.
  intros Hc. unfold cc_bump. rewrite (pending_at j c Hc).
  destruct (alive j c) eqn:E.
  - unfold cc_pending, alive, adv in *. cbn [cc_index cc_data]. rewrite Hc.
    replace (Z.of_nat j + 1) with (Z.of_nat (S j)) by lia.
    destruct (0 <=? Z.of_nat (S j)) eqn:E0; [|exfalso; apply Z.leb_gt in E0; lia]. split; reflexivity.
  - rewrite (pending_at j c Hc), E. unfold alive in *. apply Z.ltb_ge in E.
    assert (E1 : (Z.of_nat (S j) <? zlen (cc_data c)) = false) by (apply Z.ltb_ge; lia).
    rewrite E1. split; [reflexivity | discriminate].
Qed.

Lemma cc_bump_at j : forall l, all_at j l ->
  filter cc_pending (map cc_bump l) = map (adv (S j)) (filter (alive (S j)) l).
Proof.
  induction l as [|c l IH]; intros H; [reflexivity|]. inversion H as [|? ? Hc Hl]; subst.
  cbn [map filter]. rewrite (IH Hl). destruct (cc_bump_one j c Hc) as [Hp Ha]. rewrite Hp.
  destruct (alive (S j) c); [|reflexivity]. cbn [map]. rewrite Ha by reflexivity. reflexivity.
Qed.

Lemma all_at_adv n l : all_at n (map (adv n) l).
Proof. unfold all_at. apply Forall_forall. intros c Hin. apply in_map_iff in Hin. destruct Hin as [x [<- _]]. reflexivity. Qed.

(* a list that is used up contributes nothing later, and only (number, data) matter *)
Lemma cc_at_alive s ch a b j : (b <= j)%nat -> forall l,
  cc_at s ch j (map cc_view (map (adv a) (filter (alive b) l))) = cc_at s ch j (map cc_view l).
Proof.
  intros Hb. induction l as [|c l IH]; [reflexivity|]. cbn [filter].
  destruct (alive b c) eqn:E.
  - cbn [map]. unfold cc_at in *. cbn [flat_map]. rewrite IH. reflexivity.
  - rewrite IH. unfold cc_at. cbn [map flat_map].
    replace (nth_error (snd (cc_view c)) j) with (@None Z); [reflexivity|].
    unfold cc_view. cbn [snd]. symmetry. apply nth_error_None. unfold alive, zlen in E. lia.
Qed.

Lemma cc_notes_alive ch a b : forall starts j l, (b <= j)%nat ->
  cc_notes ch j (map cc_view (map (adv a) (filter (alive b) l))) starts = cc_notes ch j (map cc_view l) starts.
Proof.
  induction starts as [|s r IH]; intros j l Hb; [reflexivity|].
  cbn [cc_notes]. rewrite cc_at_alive by assumption. rewrite IH by lia. reflexivity.
Qed.

Lemma write_cc_on_note_at k s j : all_at j (tr_cc_on_note k) ->
  tr_events (write_cc_on_note k s) = tr_events k ++ cc_at s (tr_channel k) j (map cc_view (tr_cc_on_note k))
  /\ tr_cc_on_note (write_cc_on_note k s) = map (adv (S j)) (filter (alive (S j)) (tr_cc_on_note k))
  /\ tr_channel (write_cc_on_note k s) = tr_channel k.
Proof.
  intros H. unfold write_cc_on_note. cbn [tr_events tr_cc_on_note tr_channel set_cc_list set_events].
  rewrite (cc_events_at _ _ j _ H), (cc_bump_at j _ H). repeat split.
Qed.

Lemma filter_alive_adv a b l : filter (alive b) (map (adv a) l) = map (adv a) (filter (alive b) l).
Proof.
  induction l as [|c l IH]; [reflexivity|]. cbn [map filter]. rewrite IH.
  replace (alive b (adv a c)) with (alive b c) by reflexivity. destruct (alive b c); reflexivity.
Qed.
Lemma filter_alive_twice a b l : (a <= b)%nat -> filter (alive b) (filter (alive a) l) = filter (alive b) l.
Proof.
  intros H. induction l as [|c l IH]; [reflexivity|]. cbn [filter].
  destruct (alive a c) eqn:Ea; cbn [filter]; rewrite IH; [reflexivity|].
  destruct (alive b c) eqn:Eb; [|reflexivity]. unfold alive in *. lia.
Qed.
Lemma map_adv_adv a b l : map (adv b) (map (adv a) l) = map (adv b) l.
Proof. rewrite map_map. apply map_ext. intros c. reflexivity. Qed.

Lemma run_cc_notes_at : forall starts k j, all_at j (tr_cc_on_note k) ->
  tr_events (run_cc_notes k starts) =
    tr_events k ++ cc_notes (tr_channel k) j (map cc_view (tr_cc_on_note k)) starts
  /\ (starts <> [] ->
      tr_cc_on_note (run_cc_notes k starts) =
        map (adv (j + length starts)) (filter (alive (j + length starts)) (tr_cc_on_note k))).
Proof.
  induction starts as [|s r IH]; intros k j H.
  - cbn [run_cc_notes cc_notes]. rewrite app_nil_r. split; [reflexivity | congruence].
  - cbn [run_cc_notes cc_notes].
    destruct (write_cc_on_note_at k s j H) as [He [Hl Hc]].
    assert (H1 : all_at (S j) (tr_cc_on_note (write_cc_on_note k s))) by (rewrite Hl; apply all_at_adv).
    destruct (IH (write_cc_on_note k s) (S j) H1) as [IHe IHl]. split.
    + rewrite IHe, He, Hc, Hl, <- app_assoc. rewrite cc_notes_alive by lia. reflexivity.
    + intros _. destruct r as [|s2 r2].
      * cbn [run_cc_notes length]. rewrite Hl. replace (j + 1)%nat with (S j) by lia. reflexivity.
      * rewrite IHl by congruence. rewrite Hl, filter_alive_adv, map_adv_adv, filter_alive_twice by lia.
        cbn [length]. replace (S j + S (length r2))%nat with (j + S (S (length r2)))%nat by lia. reflexivity.
Qed.

(* from a fresh reservation state (all indices 0, as set_cc_on_note leaves them) *)
Theorem cc_on_note_spec k starts : all_at 0 (tr_cc_on_note k) ->
  tr_events (run_cc_notes k starts) = tr_events k ++ cc_notes (tr_channel k) 0 (map cc_view (tr_cc_on_note k)) starts
  /\ (starts <> [] ->
      tr_cc_on_note (run_cc_notes k starts) =
        map (adv (length starts)) (filter (alive (length starts)) (tr_cc_on_note k))).
Proof. intros H. exact (run_cc_notes_at starts k 0%nat H). Qed.

(* set_cc_on_note: the new list replaces any pending one for that controller (note and wave
   reservations alike), starts at index 0 and goes last; other controllers are untouched *)
Theorem set_cc_on_note_spec k no ia :
  tr_cc_on_note (set_cc_on_note k no ia) = filter (fun c => negb (cc_no c =? no)) (tr_cc_on_note k) ++ [mkCC no ia 0]
  /\ tr_cc_on_note_wave (set_cc_on_note k no ia) = filter (fun c => negb (cc_no c =? no)) (tr_cc_on_note_wave k)
  /\ tr_events (set_cc_on_note k no ia) = tr_events k
  /\ (all_at 0 (tr_cc_on_note k) -> all_at 0 (tr_cc_on_note (set_cc_on_note k no ia))).
Proof.
  unfold set_cc_on_note, remove_cc_on, remove_cc_on_note_wave, remove_cc_on_note, remove_cc.
  cbn [tr_cc_on_note tr_cc_on_note_wave tr_events set_cc_list set_cc_wave_list]. repeat split.
  intros H. unfold all_at in *. apply Forall_app. split.
  - apply Forall_forall. intros c Hc. apply filter_In in Hc. rewrite Forall_forall in H. apply H. tauto.
  - constructor; [reflexivity | constructor].
Qed.

(* ------------------------------------------------------------------------------------------- *)
(* ramps: ticks                                                                                *)
(* ------------------------------------------------------------------------------------------- *)
Lemma zrange_from_map : forall n j, zrange_from n j = map (fun i => j + Z.of_nat i) (seq 0 n).
Proof.
  induction n as [|n IH]; intros j; [reflexivity|]. cbn [zrange_from seq map]. rewrite IH, <- seq_shift, map_map.
  f_equal; [lia|]. apply map_ext. intros i. lia.
Qed.
Lemma zrange_count_up len : zrange len = count_up (Z.to_nat len).
Proof. unfold zrange, count_up. rewrite zrange_from_map. apply map_ext. intros i. lia. Qed.

Lemma In_count_up n j : In j (count_up n) <-> 0 <= j < Z.of_nat n.
Proof.
  unfold count_up. rewrite in_map_iff. split.
  - intros [i [<- Hi]]. apply in_seq in Hi. lia.
  - intros H. exists (Z.to_nat j). split; [lia|]. apply in_seq. lia.
Qed.

Lemma flat_map_if {A B} (p : A -> bool) (f : A -> B) : forall l,
  flat_map (fun x => if p x then [f x] else []) l = map f (filter p l).
Proof. induction l as [|x l IH]; [reflexivity|]. cbn [flat_map filter]. rewrite IH. destruct (p x); reflexivity. Qed.

Lemma filter_ext_in' {A} (p q : A -> bool) : forall l, (forall x, In x l -> p x = q x) -> filter p l = filter q l.
Proof.
  induction l as [|x l IH]; intros H; [reflexivity|]. cbn [filter]. rewrite (H x) by (left; reflexivity).
  rewrite IH by (intros y Hy; apply H; right; assumption). reflexivity.
Qed.

Lemma ramp_events_ticks mk base freq maxv lo hi len : 1 <= freq ->
  ramp_events mk base freq maxv (lo, hi, len) =
  map (fun j => mk (base + j) (value_range 0 (ramp_value lo hi j len) maxv)) (ticks freq len).
Proof.
  intros Hf. unfold ramp_events, ticks. rewrite flat_map_if, zrange_count_up. f_equal.
  apply filter_ext_in'. intros j Hj. apply In_count_up in Hj. rewrite Z.rem_mod_nonneg by lia. reflexivity.
Qed.

Lemma next_base_max base len : next_base base len = base + Z.max 0 len.
Proof. unfold next_base. destruct (len >? 0) eqn:E; lia. Qed.

Lemma ramp_segments_spec mk freq maxv : 1 <= freq -> forall segs base,
  ramp_segments mk base freq maxv segs = ramp_spec mk ramp_value freq maxv base segs.
Proof.
  intros Hf. induction segs as [|[[lo hi] len] r IH]; intros base; [reflexivity|].
  cbn [ramp_segments snd]. rewrite IH, next_base_max, (ramp_events_ticks _ _ _ _ _ _ _ Hf).
  unfold ramp_spec. cbn [seg_starts combine flat_map]. reflexivity.
Qed.

Lemma cc_freq_ge1 k : 1 <= cc_freq k /\ cc_freq k = Z.max 1 (tr_freq k).
Proof. unfold cc_freq. destruct (tr_freq k <? 1) eqn:E; lia. Qed.
Lemma pb_freq_ge1 tb : 1 <= pb_freq tb /\ (32 <= tb -> pb_freq tb = tb / 32).
Proof.
  unfold pb_freq. destruct (tb <? 32) eqn:E.
  - split; lia.
  - apply Z.ltb_ge in E. rewrite Z.quot_div_nonneg by lia. split; [|reflexivity].
    assert (32 / 32 <= tb / 32) by (apply Z.div_le_mono; lia). change (32 / 32) with 1 in H. lia.
Qed.

Theorem cc_on_time_spec k cc ia :
  tr_events (write_cc_on_time k cc ia) =
  tr_events k ++ ramp_spec (fun t v => ev_cc t (tr_channel k) cc v) ramp_value (Z.max 1 (tr_freq k)) 127
                           (tr_timepos k) (triples ia).
Proof.
  unfold write_cc_on_time. cbn [tr_events set_events]. destruct (cc_freq_ge1 k) as [H1 H2].
  rewrite ramp_segments_spec by assumption. rewrite H2. reflexivity.
Qed.

Theorem pb_on_time_spec k is_big ia tb :
  tr_events (write_pb_on_time k is_big ia tb) =
  tr_events k ++ ramp_spec (fun t v => ev_pitch_bend t (tr_channel k) v) ramp_value (pb_freq tb) 16383
                           (tr_timepos k) (map (pb_segment is_big) (triples ia)).
Proof.
  unfold write_pb_on_time. cbn [tr_events set_events]. destruct (pb_freq_ge1 tb) as [H1 _].
  rewrite ramp_segments_spec by assumption. reflexivity.
Qed.

(* nothing but the event list changes *)
Theorem cc_on_time_frame k cc ia : write_cc_on_time k cc ia = set_events k (tr_events (write_cc_on_time k cc ia)).
Proof. reflexivity. Qed.

Lemma StronglySorted_filter {A} (R : A -> A -> Prop) (p : A -> bool) : forall l,
  StronglySorted R l -> StronglySorted R (filter p l).
Proof.
  induction l as [|x l IH]; intros H; [constructor|]. inversion H as [|? ? Hs Hf]; subst. cbn [filter].
  destruct (p x); [|apply IH; assumption]. constructor; [apply IH; assumption|].
  apply Forall_forall. intros y Hy. apply filter_In in Hy. rewrite Forall_forall in Hf. apply Hf. tauto.
Qed.

Lemma count_up_sorted n : StronglySorted Z.lt (count_up n).
Proof.
  unfold count_up. generalize 0%nat as s. induction n as [|n IH]; intros s; [constructor|].
  cbn [seq map]. constructor; [apply IH|]. apply Forall_forall. intros y Hy. apply in_map_iff in Hy.
  destruct Hy as [i [<- Hi]]. apply in_seq in Hi. lia.
Qed.

(* the ticks of a segment are exactly the multiples of freq in [0, len), each once, ascending *)
Theorem ticks_exact freq len : 1 <= freq ->
  (forall j, In j (ticks freq len) <-> 0 <= j < len /\ (freq | j)) /\ StronglySorted Z.lt (ticks freq len).
Proof.
  intros Hf. split.
  - intros j. unfold ticks. rewrite filter_In, In_count_up. rewrite Z.eqb_eq, Z.mod_divide by lia.
    split; intros [A B]; (split; [|assumption]); lia.
  - apply StronglySorted_filter, count_up_sorted.
Qed.

Lemma ticks_head freq len : 1 <= freq -> 0 < len -> exists rest, ticks freq len = 0 :: rest.
Proof.
  intros Hf Hl. unfold ticks, count_up. destruct (Z.to_nat len) as [|n] eqn:E; [lia|].
  cbn [seq map filter]. change (Z.of_nat 0) with 0. rewrite Z.mod_0_l by lia. cbn. eexists. reflexivity.
Qed.

(* ---- range ---- *)
Lemma value_range_bounds v maxv : 0 <= maxv -> 0 <= value_range 0 v maxv <= maxv.
Proof. intros H. unfold value_range. destruct (v <? 0) eqn:A; [lia|]. destruct (v >? maxv) eqn:B; lia. Qed.

Lemma ramp_spec_forall (P : event -> Prop) mk value freq maxv :
  (forall t v, 0 <= v <= maxv -> P (mk t v)) -> 0 <= maxv -> forall segs base, Forall P (ramp_spec mk value freq maxv base segs).
Proof.
  intros HP Hm segs base. unfold ramp_spec. apply Forall_forall. intros e He.
  apply in_flat_map in He. destruct He as [[b [[lo hi] len]] [_ He]]. apply in_map_iff in He.
  destruct He as [j [<- _]]. apply HP. apply value_range_bounds. assumption.
Qed.

Theorem cc_on_time_range k cc ia : exists new,
  tr_events (write_cc_on_time k cc ia) = tr_events k ++ new /\
  Forall (fun e => e_type e = ControllChange /\ e_ch e = tr_channel k /\ e_v1 e = cc /\ 0 <= e_v2 e <= 127) new.
Proof.
  eexists. split; [apply cc_on_time_spec|]. apply ramp_spec_forall; [|lia].
  intros t v Hv. cbn. repeat split; lia.
Qed.

Theorem pb_on_time_range k is_big ia tb : exists new,
  tr_events (write_pb_on_time k is_big ia tb) = tr_events k ++ new /\
  Forall (fun e => e_type e = PitchBend /\ e_ch e = tr_channel k /\ 0 <= e_v1 e <= 16383) new.
Proof.
  eexists. split; [apply pb_on_time_spec|]. apply ramp_spec_forall; [|lia].
  intros t v Hv. cbn. repeat split; lia.
Qed.

(* ------------------------------------------------------------------------------------------- *)
(* ramps: the first value of a segment is lo. The three f32 facts are evaluated by the kernel   *)
(* (vm_compute) on every integer of the stated range, then combined.                            *)
(* ------------------------------------------------------------------------------------------- *)
Fixpoint check_range (f : Z -> bool) (n : nat) (z : Z) : bool :=
  match n with O => true | S m => f z && check_range f m (z + 1) end.
Lemma check_range_sound f : forall n z, check_range f n z = true -> forall i, z <= i < z + Z.of_nat n -> f i = true.
Proof.
  induction n as [|n IH]; intros z H i Hi; [lia|]. cbn [check_range] in H. apply andb_prop in H. destruct H as [H0 H1].
  destruct (Z.eq_dec i z) as [->|Hne]; [assumption|]. apply (IH (z + 1) H1). lia.
Qed.

Lemma check_range_sound_Z f n z : 0 <= n -> check_range f (Z.to_nat n) z = true -> forall i, z <= i < z + n -> f i = true.
Proof. intros Hn H i Hi. apply (check_range_sound f (Z.to_nat n) z H). rewrite Z2Nat.id by assumption. assumption. Qed.

Definition RB : Z := 65536.      (* bound of the range on which ramp_start is stated *)
Definition is_zero (x : f32) : bool := match x with S754_zero _ => true | _ => false end.
Definition chk_div (len : Z) : bool :=
  match f32_div (f32_of_Z 0) (f32_of_Z len) with S754_zero false => true | _ => false end.
Definition chk_mul (d : Z) : bool := is_zero (f32_mul (f32_of_Z d) (S754_zero false)).
Definition chk_add (lo : Z) : bool :=
  (f32_to_Z (f32_add (S754_zero false) (f32_of_Z lo)) =? lo) && (f32_to_Z (f32_add (S754_zero true) (f32_of_Z lo)) =? lo).

Lemma chk_div_all : check_range chk_div (Z.to_nat RB) 1 = true.
Proof. vm_compute. reflexivity. Qed.
Lemma chk_mul_all : check_range chk_mul (Z.to_nat (2 * RB + 1)) (- RB) = true.
Proof. vm_compute. reflexivity. Qed.
Lemma chk_add_all : check_range chk_add (Z.to_nat (2 * RB + 1)) (- RB) = true.
Proof. vm_compute. reflexivity. Qed.

Theorem ramp_value_start lo hi len :
  - RB <= lo <= RB -> - RB <= hi - lo <= RB -> 0 < len <= RB -> ramp_value lo hi 0 len = lo.
Proof.
  intros Hlo Hd Hlen. unfold ramp_value, ramp_f32.
  assert (A : chk_div len = true).
  { apply (check_range_sound_Z chk_div RB 1); [discriminate | exact chk_div_all | unfold RB in *; lia]. }
  assert (B : chk_mul (hi - lo) = true).
  { apply (check_range_sound_Z chk_mul (2 * RB + 1) (- RB)); [discriminate | exact chk_mul_all | unfold RB in *; lia]. }
  assert (C : chk_add lo = true).
  { apply (check_range_sound_Z chk_add (2 * RB + 1) (- RB)); [discriminate | exact chk_add_all | unfold RB in *; lia]. }
  unfold chk_div in A. destruct (f32_div (f32_of_Z 0) (f32_of_Z len)) as [[|]| | |]; try discriminate.
  unfold chk_mul, is_zero in B. destruct (f32_mul (f32_of_Z (hi - lo)) (S754_zero false)) as [s| | |]; try discriminate.
  unfold chk_add in C. apply andb_prop in C. destruct C as [C1 C2]. apply Z.eqb_eq in C1, C2.
  destruct s; assumption.
Qed.

Theorem ramp_start_spec (mk : Z -> Z -> event) b freq maxv lo hi len :
  1 <= freq -> - RB <= lo <= RB -> - RB <= hi - lo <= RB -> 0 < len <= RB ->
  exists rest,
    map (fun j => mk (b + j) (value_range 0 (ramp_value lo hi j len) maxv)) (ticks freq len)
    = mk b (value_range 0 lo maxv) :: rest.
Proof.
  intros Hf Hlo Hd Hlen. destruct (ticks_head freq len Hf ltac:(lia)) as [rest ->].
  cbn [map]. rewrite ramp_value_start by assumption. rewrite Z.add_0_r. eexists. reflexivity.
Qed.

(* ------------------------------------------------------------------------------------------- *)
(* v.onTime                                                                                    *)
(* ------------------------------------------------------------------------------------------- *)
Definition lens_nonneg (segs : list (Z * Z * Z)) : Prop := Forall (fun s => 0 <= snd s) segs.

Definition vstep (cur : Z) (st : Z * Z) (seg : Z * Z * Z) : Z * Z :=
  let '(area, result) := st in
  let '(low, high, len) := seg in
  let area_to := area + len in
  (area_to, if (area <=? cur) && (cur <? area_to) then ramp_value low high (cur - area) len else result).
Definition loop_from (cur : Z) (segs : list (Z * Z * Z)) (st : Z * Z) : Z * Z := fold_left (vstep cur) segs st.
Lemma loop_from_cons cur s r st : loop_from cur (s :: r) st = loop_from cur r (vstep cur st s).
Proof. reflexivity. Qed.

Lemma locate_neg : forall segs c, lens_nonneg segs -> c < 0 -> locate segs c = None.
Proof.
  induction segs as [|[[lo hi] len] r IH]; intros c H Hc; [reflexivity|]. inversion H as [|? ? Hl Hr]; subst. cbn [snd] in Hl.
  cbn [locate]. destruct (0 <=? c) eqn:E; [lia|]. cbn [andb]. apply IH; [assumption | lia].
Qed.

Lemma loop_from_spec cur : forall segs area result, lens_nonneg segs ->
  loop_from cur segs (area, result) =
  (area + seg_total segs,
   match locate segs (cur - area) with Some (lo, hi, len, j) => ramp_value lo hi j len | None => result end).
Proof.
  induction segs as [|[[lo hi] len] r IH]; intros area result H.
  - cbn. f_equal. lia.
  - inversion H as [|? ? Hl Hr]; subst. cbn [snd] in Hl.
    rewrite loop_from_cons. cbn [vstep]. rewrite IH by assumption.
    cbn [seg_total locate]. f_equal; [lia|].
    replace (cur - (area + len)) with (cur - area - len) by lia.
    destruct ((area <=? cur) && (cur <? area + len)) eqn:E.
    + apply andb_prop in E. destruct E as [E1 E2]. apply Z.leb_le in E1. apply Z.ltb_lt in E2.
      rewrite (locate_neg r (cur - area - len)) by (assumption || lia).
      destruct (0 <=? cur - area) eqn:F1; [|lia]. destruct (cur - area <? len) eqn:F2; [|lia]. reflexivity.
    + destruct ((0 <=? cur - area) && (cur - area <? len)) eqn:F; [|reflexivity].
      apply andb_prop in F. destruct F as [F1 F2]. apply Z.leb_le in F1. apply Z.ltb_lt in F2.
      apply Bool.andb_false_iff in E. destruct E as [E|E]; [apply Z.leb_gt in E | apply Z.ltb_ge in E]; lia.
Qed.

Theorem v_on_time_spec k ia def : tr_v_on_time k = Some ia -> lens_nonneg (triples ia) ->
  let cur := tr_timepos k - tr_v_on_time_start k in
  calc_v_on_time k def =
    (match locate (triples ia) cur with
     | Some (lo, hi, len, j) => let v := ramp_value lo hi j len in if v =? isize_min then def else v
     | None => def
     end,
     if seg_total (triples ia) <=? cur then set_v_on_time k None (-1) else k).
Proof.
  intros Hk Hl cur. unfold calc_v_on_time. rewrite Hk. fold cur.
  change (v_on_time_loop cur (triples ia)) with (loop_from cur (triples ia) (0, isize_min)).
  rewrite loop_from_spec by assumption. rewrite Z.add_0_l, Z.sub_0_r.
  destruct (locate (triples ia) cur) as [[[[lo hi] len] j]|]; reflexivity.
Qed.

Theorem v_on_time_none k def : tr_v_on_time k = None -> calc_v_on_time k def = (def, k).
Proof. intros H. unfold calc_v_on_time. rewrite H. reflexivity. Qed.

(* what `locate` means: the segment containing the relative time, segments laid end to end *)
Theorem locate_spec : forall segs c lo hi len j, lens_nonneg segs ->
  locate segs c = Some (lo, hi, len, j) ->
  0 <= j < len /\ exists pre post, segs = pre ++ (lo, hi, len) :: post /\ c = seg_total pre + j.
Proof.
  induction segs as [|[[lo0 hi0] len0] r IH]; intros c lo hi len j H HL; [discriminate|].
  inversion H as [|? ? Hl Hr]; subst. cbn [locate] in HL.
  destruct ((0 <=? c) && (c <? len0)) eqn:E.
  - inversion HL; subst. apply andb_prop in E. destruct E as [E1 E2]. apply Z.leb_le in E1. apply Z.ltb_lt in E2.
    split; [lia|]. exists [], r. split; [reflexivity | cbn; lia].
  - destruct (IH _ _ _ _ _ Hr HL) as [Hj [pre [post [-> Hc]]]]. split; [assumption|].
    exists ((lo0, hi0, len0) :: pre), post. split; [reflexivity|]. cbn [seg_total]. lia.
Qed.

Theorem locate_outside segs c : lens_nonneg segs -> c < 0 \/ seg_total segs <= c -> locate segs c = None.
Proof.
  intros H [Hc|Hc]; [apply locate_neg; assumption|]. revert c Hc.
  induction segs as [|[[lo hi] len] r IH]; intros c Hc; [reflexivity|]. inversion H as [|? ? Hl Hr]; subst. cbn [snd] in Hl.
  cbn [seg_total] in Hc. cbn [locate].
  assert (seg_total r >= 0).
  { clear - Hr. induction r as [|[[a b] l] r IH]; [cbn; lia|]. inversion Hr; subst. cbn [snd] in *. cbn [seg_total]. specialize (IH H2). lia. }
  destruct (c <? len) eqn:E; [lia|]. rewrite Bool.andb_false_r. apply IH; [assumption | lia].
Qed.

(* ------------------------------------------------------------------------------------------- *)
(* .Random                                                                                     *)
(* ------------------------------------------------------------------------------------------- *)
Lemma u32_range z : 0 <= u32 z < 2 ^ 32.
Proof. unfold u32. apply Z.mod_pos_bound. reflexivity. Qed.

Lemma lxor_range a b : 0 <= a < 2 ^ 32 -> 0 <= b < 2 ^ 32 -> 0 <= Z.lxor a b < 2 ^ 32.
Proof.
  intros Ha Hb. assert (H0 : 0 <= Z.lxor a b) by (apply Z.lxor_nonneg; lia). split; [assumption|].
  destruct (Z.eq_dec (Z.lxor a b) 0) as [->|Hne]; [reflexivity|].
  pose proof (Z.log2_lxor a b ltac:(lia) ltac:(lia)) as HL.
  assert (La : Z.log2 a < 32) by (destruct (Z.eq_dec a 0) as [->|]; [reflexivity | apply Z.log2_lt_pow2; lia]).
  assert (Lb : Z.log2 b < 32) by (destruct (Z.eq_dec b 0) as [->|]; [reflexivity | apply Z.log2_lt_pow2; lia]).
  apply Z.log2_lt_pow2; lia.
Qed.

Lemma shiftr_range a n : 0 <= n -> 0 <= a < 2 ^ 32 -> 0 <= Z.shiftr a n < 2 ^ 32.
Proof.
  intros Hn Ha. rewrite Z.shiftr_div_pow2 by assumption.
  assert (Hp0 : 0 < 2 ^ n) by (apply Z.pow_pos_nonneg; lia). split; [apply Z.div_pos; lia|].
  assert (Hp : 0 < 2 ^ n) by (apply Z.pow_pos_nonneg; lia).
  apply Z.le_lt_trans with a; [|lia]. apply Z.div_le_upper_bound; [lia|]. nia.
Qed.

Theorem rand_next_range seed : 0 <= seed < 2 ^ 32 -> 0 <= rand_next seed < 2 ^ 32.
Proof.
  intros H. unfold rand_next.
  assert (H1 := lxor_range _ _ H (u32_range (Z.shiftl seed 13))).
  assert (H2 := lxor_range _ _ H1 (shiftr_range _ 17 ltac:(lia) H1)).
  exact (lxor_range _ _ H2 (u32_range _)).
Qed.

Theorem rand_value_width seed val r : 0 <= seed < 2 ^ 32 -> 0 < r ->
  let '(v, s') := calc_rand_value seed val r in
  - (r / 2) <= v - val < r - r / 2 /\ Z.abs (v - val) <= r / 2 /\ s' = rand_next seed /\ 0 <= s' < 2 ^ 32.
Proof.
  intros Hs Hr. unfold calc_rand_value. destruct (r <=? 0) eqn:E; [lia|].
  pose proof (rand_next_range seed Hs) as HR.
  assert (Hrem : 0 <= Z.rem (rand_next seed) r < r) by (apply Z.rem_bound_pos; lia).
  rewrite Z.quot_div_nonneg by lia.
  assert (Hd : 0 <= r / 2) by (apply Z.div_pos; lia).
  assert (Hh : 2 * (r / 2) <= r < 2 * (r / 2) + 2).
  { pose proof (Z.div_mod r 2 ltac:(lia)). pose proof (Z.mod_pos_bound r 2 ltac:(lia)). lia. }
  repeat split; try lia.
Qed.

Theorem rand_value_off seed val r : r <= 0 -> calc_rand_value seed val r = (val, seed).
Proof. intros H. unfold calc_rand_value. destruct (r <=? 0) eqn:E; [reflexivity | lia]. Qed.

Lemma iter_shift {A} (f : A -> A) : forall n x, Nat.iter n f (f x) = f (Nat.iter n f x).
Proof.
  induction n as [|n IH]; intros x; [reflexivity|].
  change (Nat.iter (S n) f (f x)) with (f (Nat.iter n f (f x))). rewrite IH. reflexivity.
Qed.

(* the generator is a function of the seed: the i-th number is the (i+1)-fold iterate *)
Theorem rand_seq_iter : forall n seed i, (i < n)%nat -> nth i (rand_seq seed n) 0 = Nat.iter (S i) rand_next seed.
Proof.
  induction n as [|n IH]; intros seed i Hi; [lia|]. cbn [rand_seq]. destruct i as [|i]; [reflexivity|].
  cbn [nth]. rewrite IH by lia. rewrite iter_shift. reflexivity.
Qed.

(* xorshift32 never reaches 0 from a non-zero seed: each of the three steps maps only 0 to 0 *)

Lemma xs_left a x : 0 <= a -> rel_prime (2 ^ 32) (2 ^ a - 1) -> 0 <= x < 2 ^ 32 ->
  Z.lxor x (u32 (Z.shiftl x a)) = 0 -> x = 0.
Proof.
  intros Ha Hrp Hx H. apply Z.lxor_eq in H. unfold u32 in H. rewrite Z.shiftl_mul_pow2 in H by assumption.
  pose proof (Z.div_mod (x * 2 ^ a) (2 ^ 32) ltac:(lia)) as HD. rewrite <- H in HD.
  assert (Hdiv : (2 ^ 32 | (2 ^ a - 1) * x)).
  { exists (x * 2 ^ a / 2 ^ 32). lia. }
  apply Gauss in Hdiv; [|assumption].
  destruct (Z.eq_dec x 0) as [|Hne]; [assumption|]. apply Z.divide_pos_le in Hdiv; lia.
Qed.

Lemma xs_right n x : 0 < n -> 0 <= x -> Z.lxor x (Z.shiftr x n) = 0 -> x = 0.
Proof.
  intros Hn Hx H. apply Z.lxor_eq in H. rewrite Z.shiftr_div_pow2 in H by lia.
  destruct (Z.eq_dec x 0) as [|Hne]; [assumption|]. exfalso.
  assert (2 <= 2 ^ n) by (change 2 with (2 ^ 1) at 1; apply Z.pow_le_mono_r; lia).
  assert (x / 2 ^ n < x) by (apply Z.div_lt; lia). lia.
Qed.

Lemma rp13 : rel_prime (2 ^ 32) (2 ^ 13 - 1).
Proof. apply Zgcd_1_rel_prime. reflexivity. Qed.
Lemma rp5 : rel_prime (2 ^ 32) (2 ^ 5 - 1).
Proof. apply Zgcd_1_rel_prime. reflexivity. Qed.

Theorem rand_next_nonzero seed : 0 < seed < 2 ^ 32 -> 0 < rand_next seed < 2 ^ 32.
Proof.
  intros H. pose proof (rand_next_range seed ltac:(lia)) as HR.
  destruct (Z.eq_dec (rand_next seed) 0) as [E|E]; [|lia]. exfalso. unfold rand_next in E.
  assert (H1 := lxor_range _ _ (conj (Z.lt_le_incl _ _ (proj1 H)) (proj2 H)) (u32_range (Z.shiftl seed 13))).
  assert (H2 := lxor_range _ _ H1 (shiftr_range _ 17 ltac:(lia) H1)).
  apply (xs_left 5) in E; [|lia | exact rp5 | exact H2].
  apply (xs_right 17) in E; [|lia | lia].
  apply (xs_left 13) in E; [|lia | exact rp13 | lia]. lia.
Qed.

(* the plain v/q/t/o/l arms clear the reservation (and v also the onTime ramp), so by cancel_spec the
   following notes take their own defaults *)
Theorem plain_arm_cancels w v s :
  r_list (get_res w (rs_k (exec_cmd s (RPlain w v)))) = None
  /\ (w = WV -> tr_v_on_time (rs_k (exec_cmd s (RPlain w v))) = None).
Proof. destruct w; split; try reflexivity; intros H; try discriminate H; reflexivity. Qed.

(* a reservation arm installs the list at index 0 with the given cycle flag *)
Theorem on_note_arm w cyc ia s :
  get_res w (rs_k (exec_cmd s (ROnNote w cyc ia))) = mkOnres (Some ia) 0 cyc.
Proof. destruct w; reflexivity. Qed.
