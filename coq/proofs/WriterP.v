(* The track writer against the specification decoder:
     decode_track (generate_track evs) = Some (wire 0 evs ++ [End-of-Track])           *)
From Sakura.Model Require Import Base Event Writer.
From Sakura.Spec Require Import SmfSpec TrackSpec.
From Sakura.Proofs Require Import VlqP.
From Coq Require Import Lia ZifyBool.
Open Scope Z_scope.
Ltac Zify.zify_post_hook ::= Z.div_mod_to_equations.

(* ---- an encoder for messages, inverse of the specification decoder ---- *)
Definition enc_msg (m : msg) : list Z :=
  match m with
  | MNoteOff ch k v => [128 + ch; k; v]
  | MNoteOn ch k v => [144 + ch; k; v]
  | MPolyAT ch k v => [160 + ch; k; v]
  | MCC ch n v => [176 + ch; n; v]
  | MProgram ch p => [192 + ch; p]
  | MChanAT ch v => [208 + ch; v]
  | MBend ch l h => [224 + ch; l; h]
  | MMeta ty p => [255; ty] ++ push_delta (zlen p) ++ p
  | MSysEx p => [240] ++ push_delta (zlen p) ++ p
  | MEscape p => [247] ++ push_delta (zlen p) ++ p
  end.

Definition ch_ok (c : Z) : Prop := 0 <= c <= 15.
Definition d7 (v : Z) : Prop := 0 <= v <= 127.
Definition payload_ok (p : list Z) : Prop := forallb byte_ok p = true /\ zlen p < 2 ^ 28.
Definition msg_wf (m : msg) : Prop :=
  match m with
  | MNoteOff ch k v | MNoteOn ch k v | MPolyAT ch k v | MCC ch k v | MBend ch k v => ch_ok ch /\ d7 k /\ d7 v
  | MProgram ch p | MChanAT ch p => ch_ok ch /\ d7 p
  | MMeta ty p => d7 ty /\ payload_ok p
  | MSysEx p | MEscape p => payload_ok p
  end.

Lemma take_n_app p : forall r, forallb byte_ok p = true -> take_n (length p) (p ++ r) = Some (p, r).
Proof.
  induction p as [|b p IH]; intros r H; [reflexivity|].
  cbn [forallb] in H. apply andb_prop in H. destruct H as [Hb Hp].
  cbn [length app take_n]. rewrite Hb, (IH r Hp). reflexivity.
Qed.

Lemma vlq_payload p r : payload_ok p ->
  vlq_decode (push_delta (zlen p) ++ p ++ r) = Some (zlen p, p ++ r).
Proof.
  intros [_ H]. apply vlq_roundtrip. unfold zlen in *. lia.
Qed.

Ltac solve_ifs :=
  repeat match goal with
  | |- context [if ?b then _ else _] =>
      first [ replace b with true by (unfold data7; lia) | replace b with false by (unfold data7; lia) ]
  end.

Lemma decode_enc_msg m r : msg_wf m -> decode_msg (enc_msg m ++ r) = Some (m, r).
Proof.
  destruct m; cbn [msg_wf enc_msg]; unfold ch_ok, d7.
  1-7: intros H; unfold decode_msg; cbn [app]; cbv zeta; solve_ifs; repeat f_equal; lia.
  - intros [Hty Hp]. unfold decode_msg. cbn [app]. cbv zeta.
    replace ((128 <=? 255) && (255 <? 240)) with false by reflexivity.
    replace (255 =? 255) with true by reflexivity.
    replace (data7 ty) with true by (unfold data7; lia).
    rewrite <- app_assoc. rewrite (vlq_payload payload r Hp).
    unfold zlen. rewrite Nat2Z.id. rewrite (take_n_app payload r (proj1 Hp)). reflexivity.
  - intros Hp. unfold decode_msg. cbn [app]. cbv zeta.
    replace ((128 <=? 240) && (240 <? 240)) with false by reflexivity.
    replace (240 =? 255) with false by reflexivity.
    replace ((240 =? 240) || (240 =? 247)) with true by reflexivity.
    rewrite <- app_assoc. rewrite (vlq_payload payload r Hp).
    unfold zlen. rewrite Nat2Z.id. rewrite (take_n_app payload r (proj1 Hp)). reflexivity.
  - intros Hp. unfold decode_msg. cbn [app]. cbv zeta.
    replace ((128 <=? 247) && (247 <? 240)) with false by reflexivity.
    replace (247 =? 255) with false by reflexivity.
    replace ((247 =? 240) || (247 =? 247)) with true by reflexivity.
    rewrite <- app_assoc. rewrite (vlq_payload payload r Hp).
    unfold zlen. rewrite Nat2Z.id. rewrite (take_n_app payload r (proj1 Hp)). reflexivity.
Qed.

(* ---- tracks ---- *)
Definition enc_item (p : Z * msg) : list Z := push_delta (fst p) ++ enc_msg (snd p).
Definition enc_track (l : list (Z * msg)) : list Z := flat_map enc_item l.
Definition item_ok (p : Z * msg) : Prop := 0 <= fst p < 2 ^ 28 /\ msg_wf (snd p) /\ is_eot (snd p) = false.

Lemma decode_track_enc l : forall fuel, Forall item_ok l -> (length l < fuel)%nat ->
  decode_track_f fuel (enc_track l ++ enc_item EOTmsg) = Some (l ++ [EOTmsg]).
Proof.
  induction l as [|[dt m] l IH]; intros fuel Hok Hf.
  - destruct fuel as [|f]; [cbn in Hf; lia|]. reflexivity.
  - destruct fuel as [|f]; [cbn in Hf; lia|].
    inversion Hok as [|x y Hp Hl]; subst. destruct Hp as (Hdt & Hwf & Hne). cbn [fst snd] in *.
    cbn [enc_track flat_map]. unfold enc_item at 1. cbn [fst snd].
    rewrite <- !app_assoc. cbn [decode_track_f].
    destruct (vlq_roundtrip dt (enc_msg m ++ flat_map enc_item l ++ enc_item EOTmsg) Hdt) as [-> _].
    rewrite (decode_enc_msg m _ Hwf). rewrite Hne.
    fold (enc_track l). rewrite (IH f Hl) by (cbn in Hf; lia). reflexivity.
Qed.

Lemma push_delta_nonempty t : (1 <= length (push_delta t))%nat.
Proof. unfold push_delta. rewrite app_length. cbn. lia. Qed.

Lemma enc_track_length l : (length l <= length (enc_track l))%nat.
Proof.
  induction l as [|p l IH]; cbn [enc_track flat_map length]; [lia|].
  rewrite app_length. unfold enc_item at 1. rewrite app_length.
  pose proof (push_delta_nonempty (fst p)). fold (enc_track l). lia.
Qed.

Theorem decode_enc_track l : Forall item_ok l ->
  decode_track (enc_track l ++ enc_item EOTmsg) = Some (l ++ [EOTmsg]).
Proof.
  intros H. unfold decode_track. apply decode_track_enc; [assumption|].
  rewrite app_length. pose proof (enc_track_length l). lia.
Qed.

(* ---- the writer produces exactly the encoding of `wire` ---- *)
Lemma push_delta_max t : push_delta t = push_delta (Z.max t 0).
Proof.
  destruct (Z_lt_le_dec t 0).
  - rewrite push_delta_neg by lia. replace (Z.max t 0) with 0 by lia. reflexivity.
  - replace (Z.max t 0) with t by lia. reflexivity.
Qed.

Lemma midi_data7_clamp v : midi_data7 v = clamp 0 127 v.
Proof. unfold midi_data7, clamp. apply as_u8_small. lia. Qed.
Lemma midi_ch_clamp v : midi_ch v = clamp 0 15 v.
Proof. unfold midi_ch, clamp. apply as_u8_small. lia. Qed.

Lemma push_delta_small n : 0 <= n < 128 -> push_delta n = [n].
Proof.
  intros H. rewrite push_delta_eq by lia.
  replace (n / 128) with 0 by lia. replace (n mod 128) with n by lia. reflexivity.
Qed.

Lemma enc_track_app a b : enc_track (a ++ b) = enc_track a ++ enc_track b.
Proof. unfold enc_track. apply flat_map_app. Qed.

Ltac norm := cbn [enc_track flat_map map]; unfold enc_item; cbn [fst snd enc_msg]; rewrite ?app_nil_r, <- ?push_delta_max.

Lemma write_event_wire tp e : event_ok e = true ->
  match wire_msgs e with
  | [] => write_event tp e = Ok None
  | m :: ms => write_event tp e
               = Ok (Some (enc_track ((Z.max (e_time e - tp) 0, m) :: map (fun x => (0, x)) ms)))
  end.
Proof.
  unfold event_ok, wire_msgs, write_event. intros Hok.
  destruct (e_type e) eqn:Ety.
  - (* NoteOn *) norm. rewrite !midi_data7_clamp, midi_ch_clamp. reflexivity.
  - norm. rewrite !midi_data7_clamp, midi_ch_clamp. reflexivity.
  - norm. rewrite !midi_data7_clamp, midi_ch_clamp. reflexivity.
  - (* PitchBend *) norm. rewrite midi_ch_clamp.
    rewrite land_127, shiftr_7, land_127.
    fold (clamp 0 16383 (e_v1 e)). set (v := clamp 0 16383 (e_v1 e)).
    assert (0 <= v <= 16383) by (unfold v, clamp; lia).
    rewrite !as_u8_small by lia.
    replace ((v / 128) mod 128) with (v / 128) by lia. reflexivity.
  - (* PitchBendRange *) norm. rewrite midi_ch_clamp.
    rewrite (push_delta_small 0) by lia.
    replace ((e_v1 e >=? 0) && (e_v1 e <=? 24)) with ((0 <=? e_v1 e) && (e_v1 e <=? 24)) by lia.
    destruct ((0 <=? e_v1 e) && (e_v1 e <=? 24)) eqn:E.
    + rewrite as_u8_small by lia. rewrite <- !app_assoc. reflexivity.
    + rewrite <- !app_assoc. reflexivity.
  - (* Voice *) norm. rewrite !midi_data7_clamp, midi_ch_clamp. reflexivity.
  - (* Meta *) unfold get_data. destruct (e_data e) as [d|]; [|discriminate].
    cbn [bind]. norm.
    repeat (apply andb_prop in Hok; destruct Hok as [Hok ?]).
    unfold data7 in *.
    assert (e_v1 e = 255) as -> by lia. assert (e_v3 e = zlen d) as -> by lia.
    rewrite (push_delta_small (zlen d)) by (unfold zlen in *; lia).
    rewrite !as_u8_small by (unfold zlen in *; lia). reflexivity.
  - (* SysEx *) unfold get_data. destruct (e_data e) as [d|]; [|discriminate].
    cbn [bind]. destruct d as [|b0 rest]; [reflexivity|].
    norm.
    destruct (b0 =? 240) eqn:E.
    + replace (zlen (b0 :: rest) - 1) with (zlen rest) by (unfold zlen; cbn [length]; lia). reflexivity.
    + reflexivity.
  - (* DirectSMF *) unfold get_data. destruct (e_data e) as [[|b d]|]; try discriminate. reflexivity.
Qed.

Lemma write_events_wire evs : forall tp, forallb event_ok evs = true ->
  write_events tp evs = Ok (enc_track (wire tp evs)).
Proof.
  induction evs as [|e r IH]; intros tp H; [reflexivity|].
  cbn [forallb] in H. apply andb_prop in H. destruct H as [He Hr].
  cbn [write_events wire].
  pose proof (write_event_wire tp e He) as W.
  destruct (wire_msgs e) as [|m ms].
  - rewrite W. cbn [bind]. apply IH; assumption.
  - rewrite W. cbn [bind]. rewrite (IH _ Hr). cbn [bind].
    rewrite enc_track_app. reflexivity.
Qed.

(* every message `wire` produces is well-formed and is not End-of-Track *)
Lemma clamp_range lo hi v : lo <= hi -> lo <= clamp lo hi v <= hi.
Proof. unfold clamp. lia. Qed.

Lemma is_eot_meta ty d : is_eot (MMeta ty d) = (ty =? 47) && (zlen d =? 0).
Proof.
  destruct (Z.eq_dec ty 47) as [->|Hn].
  - destruct d; reflexivity.
  - replace (ty =? 47) with false by lia. cbn [andb].
    destruct ty as [|p|p]; try reflexivity.
    do 6 (destruct p as [p|p|]; try reflexivity). exfalso. apply Hn. reflexivity.
Qed.

Lemma wire_msgs_ok e : event_ok e = true ->
  Forall (fun m => msg_wf m /\ is_eot m = false) (wire_msgs e).
Proof.
  unfold event_ok, wire_msgs. intros Hok.
  pose proof (clamp_range 0 15 (e_ch e) ltac:(lia)) as Hc.
  pose proof (clamp_range 0 127 (e_v1 e) ltac:(lia)) as H1.
  pose proof (clamp_range 0 127 (e_v2 e) ltac:(lia)) as H2.
  pose proof (clamp_range 0 127 (e_v3 e) ltac:(lia)) as H3.
  destruct (e_type e); cbn [msg_wf is_eot]; unfold ch_ok, d7.
  1-3,6: repeat constructor; lia.
  - (* bend *) pose proof (clamp_range 0 16383 (e_v1 e) ltac:(lia)) as Hb.
    repeat constructor; lia.
  - destruct ((0 <=? e_v1 e) && (e_v1 e <=? 24)) eqn:E; repeat constructor; lia.
  - (* meta *) destruct (e_data e) as [d|]; [|discriminate].
    repeat (apply andb_prop in Hok; destruct Hok as [Hok ?]).
    unfold data7 in *. constructor; [|constructor]. split.
    + cbn. unfold payload_ok. repeat split; try lia. assumption.
    + rewrite is_eot_meta. apply negb_true_iff in H. exact H.
  - (* sysex *) destruct (e_data e) as [d|]; [|discriminate].
    apply andb_prop in Hok. destruct Hok as [Hb Hl].
    destruct d as [|b0 rest]; [constructor|].
    constructor; [|constructor]. split; [|reflexivity].
    cbn. unfold payload_ok. destruct (b0 =? 240).
    + cbn [bytes_ok forallb] in Hb. apply andb_prop in Hb. destruct Hb as [_ Hb].
      split; [assumption|]. unfold zlen in *. cbn [length] in Hl. lia.
    + split; [assumption|]. lia.
  - constructor.
Qed.

Lemma wire_items_ok evs : forall tp, forallb event_ok evs = true -> deltas_ok (wire tp evs) = true ->
  Forall item_ok (wire tp evs).
Proof.
  induction evs as [|e r IH]; intros tp H D; [constructor|].
  cbn [forallb] in H. apply andb_prop in H. destruct H as [He Hr].
  cbn [wire] in *. pose proof (wire_msgs_ok e He) as W.
  destruct (wire_msgs e) as [|m ms]; [apply IH; assumption|].
  unfold deltas_ok in D. rewrite forallb_app in D. apply andb_prop in D. destruct D as [D1 D2].
  apply Forall_app. split; [|apply IH; assumption].
  inversion W as [|x y [Hm1 Hm2] Hms]; subst.
  cbn [forallb fst] in D1. apply andb_prop in D1. destruct D1 as [D1 _].
  constructor.
  - unfold item_ok. cbn [fst snd]. repeat split; try assumption; lia.
  - clear - Hms. induction Hms as [|x l [Hx1 Hx2] Hl IHl]; cbn [map]; constructor; [|assumption].
    unfold item_ok. cbn [fst snd]. repeat split; try assumption; lia.
Qed.

Lemma enc_item_EOT : enc_item EOTmsg = EOT.
Proof. reflexivity. Qed.

Theorem generate_track_decodes evs :
  forallb event_ok evs = true -> deltas_ok (wire 0 evs) = true ->
  exists bs, generate_track evs = Ok bs /\ decode_track bs = Some (wire 0 evs ++ [EOTmsg]).
Proof.
  intros H D. unfold generate_track. rewrite (write_events_wire evs 0 H). cbn [bind].
  eexists. split; [reflexivity|].
  rewrite <- enc_item_EOT. apply decode_enc_track. apply wire_items_ok; assumption.
Qed.
