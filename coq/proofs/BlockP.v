(* C06 - Sub, tuplet (Div) and chord arms of RunCore.step_song: their time-pointer laws, for arbitrary
   block contents.  Also the list/track/song bookkeeping lemmas shared with TrackIndepP.v (C12). *)
From Sakura.Model Require Import Base Cursor Length Event Song Token LoopMachine LexCore RunCore.
From Sakura.Spec Require Import LoopSpec.
From Sakura.Proofs Require Import LoopP ExtP IdleP.
Open Scope Z_scope.

(* ------------------------------------------------------------------------------------------------ *)
(* 0. definitions used in the property statements                                                     *)

(* the current track exists (an invariant of the interpreter: change_cur_track creates what is missing) *)
Definition cur_ok (s : song) : Prop := (s_cur s < length (s_tracks s))%nat.

(* executing a token list from left to right, no loop brackets interpreted: what exec() does on a
   loop-free list (see exec_f_loopfree below) *)
Definition fold_steps (ec : list tok -> res song -> res song) (toks : list tok) (s : res song) : res song :=
  fold_left (fun acc t => step_tok ec t acc) toks s.

Definition loop_free_tok (t : tok) : bool :=
  match t with TLoopBegin _ | TLoopBreak | TLoopEnd => false | _ => true end.
Definition loop_free (toks : list tok) : bool := forallb loop_free_tok toks.

(* a lettered note without slur, as written inside a chord *)
Definition is_chord_note (t : tok) : Prop :=
  exists base flag natural len qlen vel timing oct, t = TNote base flag natural len qlen vel timing oct 0.

(* the event exec_note builds for a lettered note in state s (before the chord end rewrites it) *)
Definition note_event (s : song) (t : tok) : event :=
  match t with
  | TNote base flag natural len qlen vel timing oct _ =>
      let trk := cur_track s in
      let q := if qlen =? 0 then tr_qlen trk else qlen in
      let v := if vel <? 0 then tr_velocity trk else vel in
      let tm := if timing =? ISIZE_MIN then tr_timing trk else timing in
      ev_note (tr_timepos trk + tm) (tr_channel trk) (value_range 0 (note_number s base flag natural oct) 127)
              (note_len_real (calc_length len (s_timebase s) (tr_length trk)) q) (value_range 0 v 127)
  | _ => ev_note 0 0 0 0 0
  end.

(* ------------------------------------------------------------------------------------------------ *)
(* 1. lists, tracks, songs                                                                            *)

Lemma upd_nth_length {A} (f : A -> A) l : forall n, length (upd_nth n f l) = length l.
Proof. induction l as [|x r IH]; intros [|n]; cbn [upd_nth length]; try reflexivity. rewrite IH. reflexivity. Qed.

Lemma nth_upd_nth_eq {A} (f : A -> A) (d : A) l : forall n, (n < length l)%nat -> nth n (upd_nth n f l) d = f (nth n l d).
Proof.
  induction l as [|x r IH]; intros [|n] H; cbn [length] in H; try lia; cbn [upd_nth nth]; [reflexivity|].
  apply IH. lia.
Qed.

Lemma nth_upd_nth_neq {A} (f : A -> A) (d : A) l : forall n i, i <> n -> nth i (upd_nth n f l) d = nth i l d.
Proof.
  induction l as [|x r IH]; intros [|n] [|i] H; cbn [upd_nth nth]; try reflexivity; try congruence.
  apply IH. congruence.
Qed.

Lemma upd_nth_upd_nth {A} (f g : A -> A) l : forall n, upd_nth n g (upd_nth n f l) = upd_nth n (fun x => g (f x)) l.
Proof. induction l as [|x r IH]; intros [|n]; cbn [upd_nth]; try reflexivity. rewrite IH. reflexivity. Qed.

Lemma upd_nth_const {A} (f : A -> A) (d : A) l : forall n, upd_nth n f l = upd_nth n (fun _ => f (nth n l d)) l.
Proof. induction l as [|x r IH]; intros [|n]; cbn [upd_nth nth]; try reflexivity. rewrite <- IH. reflexivity. Qed.

Lemma upd_nth_ext {A} (f g : A -> A) l : forall n, (forall x, f x = g x) -> upd_nth n f l = upd_nth n g l.
Proof. intros n H. revert n. induction l as [|x r IH]; intros [|n]; cbn [upd_nth]; try reflexivity; [rewrite H|rewrite IH]; reflexivity. Qed.

Lemma upd_nth_id {A} (f : A -> A) (d : A) l : forall n, f (nth n l d) = nth n l d -> upd_nth n f l = l.
Proof.
  induction l as [|x r IH]; intros [|n] H; cbn [upd_nth nth] in *; try reflexivity; [rewrite H|rewrite IH by exact H]; reflexivity.
Qed.

Lemma tr_set_timepos_same t : tr_set_timepos t (tr_timepos t) = t.
Proof. destruct t; reflexivity. Qed.
Lemma tr_set_length_same t : tr_set_length t (tr_length t) = t.
Proof. destruct t; reflexivity. Qed.

(* a song is its track list plus everything else *)
Lemma song_eq (a b : song) : s_set_tracks a [] = s_set_tracks b [] -> s_tracks a = s_tracks b -> a = b.
Proof. destruct a, b; cbn. intros H1 H2. injection H1. intros. subst. reflexivity. Qed.

Lemma cur_track_upd_cur s f : cur_ok s -> cur_track (upd_cur s f) = f (cur_track s).
Proof. intros H. unfold cur_track, upd_cur. cbn [s_tracks s_cur s_set_tracks]. apply nth_upd_nth_eq. exact H. Qed.

Lemma upd_cur_upd_cur s f g : upd_cur (upd_cur s f) g = upd_cur s (fun t => g (f t)).
Proof. unfold upd_cur. cbn [s_tracks s_cur s_set_tracks]. rewrite upd_nth_upd_nth. destruct s; reflexivity. Qed.

Lemma cur_ok_upd_cur s f : cur_ok s -> cur_ok (upd_cur s f).
Proof. unfold cur_ok, upd_cur. cbn [s_tracks s_cur s_set_tracks]. rewrite upd_nth_length. exact (fun H => H). Qed.

Lemma upd_cur_other s f i : i <> s_cur s -> nth i (s_tracks (upd_cur s f)) (track_new 0 0) = nth i (s_tracks s) (track_new 0 0).
Proof. intros H. unfold upd_cur. cbn [s_tracks s_set_tracks]. apply nth_upd_nth_neq. exact H. Qed.

Lemma upd_cur_globals s f : s_set_tracks (upd_cur s f) [] = s_set_tracks s [].
Proof. reflexivity. Qed.

(* ------------------------------------------------------------------------------------------------ *)
(* 2. Sub                                                                                             *)

Section Blocks.
  Variable ec : list tok -> res song -> res song.

  Lemma sub_law X s s' :
    step_song ec (TSub X) s = Ok s' ->
    exists s2, ec X (Ok s) = Ok s2 /\
               s' = upd_cur s2 (fun t => tr_set_timepos t (tr_timepos (cur_track s))).
  Proof.
    cbn [step_song]. destruct (ec X (Ok s)) as [s2| | |] eqn:E; cbn [bind]; try discriminate.
    intros H. injection H as <-. exists s2. split; reflexivity.
  Qed.

  (* frame: apart from the time pointer of the current track, the state is the one X left *)
  Lemma sub_frame X s s' :
    step_song ec (TSub X) s = Ok s' ->
    exists s2, ec X (Ok s) = Ok s2 /\
      s_set_tracks s' [] = s_set_tracks s2 [] /\
      length (s_tracks s') = length (s_tracks s2) /\
      (forall i, i <> s_cur s2 -> nth i (s_tracks s') (track_new 0 0) = nth i (s_tracks s2) (track_new 0 0)) /\
      (cur_ok s2 -> cur_track s' = tr_set_timepos (cur_track s2) (tr_timepos (cur_track s))).
  Proof.
    intros H. destruct (sub_law X s s' H) as [s2 [E ->]]. exists s2. split; [exact E|].
    split; [reflexivity|]. split; [unfold upd_cur; cbn [s_tracks s_set_tracks]; apply upd_nth_length|].
    split; [intros i Hi; apply upd_cur_other; exact Hi|]. intros Hc. apply cur_track_upd_cur. exact Hc.
  Qed.

  (* when the track X ends on exists (it always does; it is the track Sub was written on unless X switched),
     its pointer is where the pointer stood before Sub *)
  Lemma sub_restores X s s' s2 :
    step_song ec (TSub X) s = Ok s' -> ec X (Ok s) = Ok s2 -> cur_ok s2 ->
    s_cur s' = s_cur s2 /\ tr_timepos (cur_track s') = tr_timepos (cur_track s).
  Proof.
    intros H E Hc. destruct (sub_law X s s' H) as [s2' [E' ->]]. rewrite E in E'. injection E' as <-.
    rewrite cur_track_upd_cur by exact Hc. split; reflexivity.
  Qed.

  (* ---------------------------------------------------------------------------------------------- *)
  (* 3. Div (tuplet)                                                                                  *)

  Definition div_len (len : list ch) (s : song) : Z := calc_length len (s_timebase s) (tr_length (cur_track s)).
  Definition div_share (cnt : Z) (len : list ch) (s : song) : Z := if cnt >? 0 then Z.quot (div_len len s) cnt else 0.
  Definition div_entry (cnt : Z) (len : list ch) (s : song) : song :=
    upd_cur s (fun t => tr_set_length t (div_share cnt len s)).

  Lemma div_law cnt len X s s' :
    step_song ec (TDiv cnt len X) s = Ok s' ->
    exists s2, ec X (Ok (div_entry cnt len s)) = Ok s2 /\
      s' = upd_cur s2 (fun t => tr_set_length (tr_set_timepos t (tr_timepos (cur_track s) + div_len len s))
                                              (tr_length (cur_track s))).
  Proof.
    cbn [step_song]. fold (div_len len s). fold (div_share cnt len s). fold (div_entry cnt len s).
    destruct (ec X (Ok (div_entry cnt len s))) as [s2| | |] eqn:E; cbn [bind]; try discriminate.
    intros H. injection H as <-. exists s2. split; reflexivity.
  Qed.

  Lemma div_entry_length cnt len s : cur_ok s ->
    tr_length (cur_track (div_entry cnt len s)) = div_share cnt len s /\
    tr_timepos (cur_track (div_entry cnt len s)) = tr_timepos (cur_track s).
  Proof. intros H. unfold div_entry. rewrite cur_track_upd_cur by exact H. split; reflexivity. Qed.

  Lemma div_advance cnt len X s s' s2 :
    step_song ec (TDiv cnt len X) s = Ok s' -> ec X (Ok (div_entry cnt len s)) = Ok s2 -> cur_ok s2 ->
    s_cur s' = s_cur s2 /\ tr_timepos (cur_track s') = tr_timepos (cur_track s) + calc_length len (s_timebase s) (tr_length (cur_track s)).
  Proof.
    intros H E Hc. destruct (div_law cnt len X s s' H) as [s2' [E' ->]]. rewrite E in E'. injection E' as <-.
    rewrite cur_track_upd_cur by exact Hc. split; reflexivity.
  Qed.

  Lemma div_restores_length cnt len X s s' s2 :
    step_song ec (TDiv cnt len X) s = Ok s' -> ec X (Ok (div_entry cnt len s)) = Ok s2 -> cur_ok s2 ->
    tr_length (cur_track s') = tr_length (cur_track s).
  Proof.
    intros H E Hc. destruct (div_law cnt len X s s' H) as [s2' [E' ->]]. rewrite E in E'. injection E' as <-.
    rewrite cur_track_upd_cur by exact Hc. reflexivity.
  Qed.

  (* X runs with the default length set to the share *)
  Lemma div_children_length cnt len s : cur_ok s -> cnt > 0 ->
    tr_length (cur_track (div_entry cnt len s)) = Z.quot (calc_length len (s_timebase s) (tr_length (cur_track s))) cnt /\ tr_timepos (cur_track (div_entry cnt len s)) = tr_timepos (cur_track s).
  Proof.
    intros Hc Hp. destruct (div_entry_length cnt len s Hc) as [A B]. rewrite A, B. split; [|reflexivity].
    unfold div_share, div_len. destruct (Z.gtb_spec cnt 0); [reflexivity|lia].
  Qed.

  Lemma div_frame cnt len X s s' :
    step_song ec (TDiv cnt len X) s = Ok s' ->
    exists s2, ec X (Ok (div_entry cnt len s)) = Ok s2 /\
      s_set_tracks s' [] = s_set_tracks s2 [] /\
      length (s_tracks s') = length (s_tracks s2) /\
      (forall i, i <> s_cur s2 -> nth i (s_tracks s') (track_new 0 0) = nth i (s_tracks s2) (track_new 0 0)) /\
      (cur_ok s2 -> cur_track s' = tr_set_length (tr_set_timepos (cur_track s2) (tr_timepos (cur_track s) + div_len len s))
                                                 (tr_length (cur_track s))).
  Proof.
    intros H. destruct (div_law cnt len X s s' H) as [s2 [E ->]]. exists s2. split; [exact E|].
    split; [reflexivity|]. split; [unfold upd_cur; cbn [s_tracks s_set_tracks]; apply upd_nth_length|].
    split; [intros i Hi; apply upd_cur_other; exact Hi|]. intros Hc. apply cur_track_upd_cur. exact Hc.
  Qed.
End Blocks.

(* ------------------------------------------------------------------------------------------------ *)
(* 4. elements without a length of their own take the default length (inside a tuplet: the share)     *)

Lemma calc_length_empty tb d : calc_length [] tb d = d.
Proof. reflexivity. Qed.

Section Elements.
  Variable ec : list tok -> res song -> res song.

  (* a lettered note outside a chord, no tie pending, nothing reserved on the track *)
  Lemma note_plain base flag natural len qlen vel timing oct s :
    cur_ok s -> s_harmony_flag s = false -> tr_tie_notes (cur_track s) = [] -> tr_rsv (cur_track s) = rsv_new ->
    exists s',
      step_song ec (TNote base flag natural len qlen vel timing oct 0) s = Ok s' /\
      tr_timepos (cur_track s') = tr_timepos (cur_track s) + calc_length len (s_timebase s) (tr_length (cur_track s)) /\
      tr_events (cur_track s') = tr_events (cur_track s) ++ [note_event s (TNote base flag natural len qlen vel timing oct 0)] /\
      tr_length (cur_track s') = tr_length (cur_track s) /\
      cur_ok s' /\ s_harmony_flag s' = false /\ tr_tie_notes (cur_track s') = [] /\
      s_timebase s' = s_timebase s /\ s_cur s' = s_cur s /\ tr_rsv (cur_track s') = rsv_new.
  Proof.
    intros Hc Hh Ht Hi. cbn [step_song]. rewrite (exec_note_idle s _ _ _ _ _ _ _ _ _ Hc Hi). unfold exec_note_plain.
    set (ev := ev_note _ _ _ _ _). set (nl := calc_length len _ _).
    assert (Hev : ev = note_event s (TNote base flag natural len qlen vel timing oct 0)) by reflexivity.
    unfold emit_note_plain.
    set (s1 := upd_cur s (fun t => tr_set_timepos t (tr_timepos t + nl))).
    assert (Hc1 : cur_ok s1) by (apply cur_ok_upd_cur; exact Hc).
    assert (H1 : cur_track s1 = tr_set_timepos (cur_track s) (tr_timepos (cur_track s) + nl))
      by (apply cur_track_upd_cur; exact Hc).
    change (s_octave_once s1) with (s_octave_once s).
    destruct (s_octave_once s =? 0) eqn:Eo.
    - change (s_harmony_flag s1) with (s_harmony_flag s). rewrite Hh. rewrite H1.
      cbn [tr_tie_notes tr_set_timepos]. rewrite Ht. cbn [Z.geb Z.compare orb negb].
      eexists. split; [reflexivity|].
      rewrite cur_track_upd_cur by exact Hc1. rewrite H1. cbn [tr_push_event tr_set_events tr_set_timepos tr_timepos tr_events tr_length tr_tie_notes tr_rsv].
      rewrite Hev. repeat split; try reflexivity; try assumption.
      apply cur_ok_upd_cur. exact Hc1.
    - set (s2 := s_set_octave_once _ 0).
      assert (Hc2 : cur_ok s2) by (unfold s2, cur_ok; cbn [s_cur s_tracks s_set_octave_once]; apply cur_ok_upd_cur; exact Hc1).
      assert (H2 : cur_track s2 = tr_set_octave (cur_track s1) (tr_octave (cur_track s1) - s_octave_once s))
        by (unfold s2, cur_track; cbn [s_cur s_tracks s_set_octave_once]; apply (cur_track_upd_cur s1); exact Hc1).
      change (s_harmony_flag s2) with (s_harmony_flag s). rewrite Hh. rewrite H2, H1.
      cbn [tr_tie_notes tr_set_timepos tr_set_octave]. rewrite Ht. cbn [Z.geb Z.compare orb negb].
      eexists. split; [reflexivity|].
      rewrite cur_track_upd_cur by exact Hc2. rewrite H2, H1.
      cbn [tr_push_event tr_set_events tr_set_timepos tr_set_octave tr_timepos tr_events tr_length tr_tie_notes tr_rsv].
      rewrite Hev. repeat split; try reflexivity; try assumption.
      apply cur_ok_upd_cur. exact Hc2.
  Qed.

  (* a numbered note *)
  Lemma note_n_plain no len qlen vel timing s :
    cur_ok s -> tr_rsv (cur_track s) = rsv_new ->
    exists s' e,
      step_song ec (TNoteN no len qlen vel timing 0) s = Ok s' /\
      tr_timepos (cur_track s') = tr_timepos (cur_track s) + calc_length len (s_timebase s) (tr_length (cur_track s)) /\
      tr_events (cur_track s') = tr_events (cur_track s) ++ [e] /\
      e_v2 e = note_len_real (calc_length len (s_timebase s) (tr_length (cur_track s)))
                             (if negb (qlen =? 0) then qlen else tr_qlen (cur_track s)) /\
      tr_length (cur_track s') = tr_length (cur_track s) /\
      cur_ok s' /\ s_harmony_flag s' = s_harmony_flag s /\ tr_tie_notes (cur_track s') = tr_tie_notes (cur_track s) /\
      s_timebase s' = s_timebase s /\ s_cur s' = s_cur s /\ tr_rsv (cur_track s') = rsv_new.
  Proof.
    intros Hc Hi. cbn [step_song]. rewrite (exec_note_n_idle s _ _ _ _ _ _ Hc Hi).
    unfold exec_note_n_plain, emit_note_plain. cbn [Z.geb Z.compare].
    eexists. eexists. split; [reflexivity|].
    rewrite cur_track_upd_cur by exact Hc.
    cbn [tr_push_event tr_set_events tr_set_timepos tr_timepos tr_events tr_length tr_tie_notes tr_rsv e_v2 ev_note].
    repeat split; try reflexivity; try exact Hi. apply cur_ok_upd_cur. exact Hc.
  Qed.

  (* a rest *)
  Lemma rest_plain dir len s :
    cur_ok s ->
    exists s',
      step_song ec (TRest dir len) s = Ok s' /\
      tr_timepos (cur_track s') = tr_timepos (cur_track s) + calc_length len (s_timebase s) (tr_length (cur_track s)) * dir /\
      tr_events (cur_track s') = tr_events (cur_track s) /\
      tr_length (cur_track s') = tr_length (cur_track s) /\
      cur_ok s' /\ s_harmony_flag s' = s_harmony_flag s /\ tr_tie_notes (cur_track s') = tr_tie_notes (cur_track s) /\
      s_timebase s' = s_timebase s /\ s_cur s' = s_cur s /\ tr_rsv (cur_track s') = tr_rsv (cur_track s).
  Proof.
    intros Hc. cbn [step_song]. unfold exec_rest. eexists. split; [reflexivity|].
    rewrite cur_track_upd_cur by exact Hc.
    cbn [tr_set_timepos tr_timepos tr_events tr_length tr_tie_notes tr_rsv].
    repeat split; try reflexivity. apply cur_ok_upd_cur. exact Hc.
  Qed.
End Elements.

(* counted tuplet elements that carry no length of their own *)
Definition plain_elem (t : tok) : Prop :=
  (exists base flag natural qlen vel timing oct, t = TNote base flag natural [] qlen vel timing oct 0) \/
  (exists no qlen vel timing, t = TNoteN no [] qlen vel timing 0) \/
  t = TRest 1 [].

(* what the laws below need of a state: the track exists, no chord is open, no tie is pending, and nothing is
   reserved on the track (no onNote / onCycle / onTime list, no controller reservation, random widths 0) *)
Definition quiet (s : song) : Prop :=
  cur_ok s /\ s_harmony_flag s = false /\ tr_tie_notes (cur_track s) = [] /\ tr_rsv (cur_track s) = rsv_new.

Definition share_event (L : Z) (e : event) : Prop := e_type e = NoteOn /\ exists q, e_v2 e = note_len_real L q.

Section Share.
  Variable ec : list tok -> res song -> res song.

  Lemma fold_steps_app a b r : fold_steps ec (a ++ b) r = fold_steps ec b (fold_steps ec a r).
  Proof. unfold fold_steps. apply fold_left_app. Qed.

  Lemma fold_steps_cons t r s : fold_steps ec (t :: r) (Ok s) = fold_steps ec r (step_song ec t s).
  Proof. reflexivity. Qed.

  Lemma plain_elem_step t s : quiet s -> plain_elem t ->
    exists s' evs,
      step_song ec t s = Ok s' /\ quiet s' /\
      tr_timepos (cur_track s') = tr_timepos (cur_track s) + tr_length (cur_track s) /\
      tr_length (cur_track s') = tr_length (cur_track s) /\
      s_timebase s' = s_timebase s /\ s_cur s' = s_cur s /\
      tr_events (cur_track s') = tr_events (cur_track s) ++ evs /\
      Forall (share_event (tr_length (cur_track s))) evs.
  Proof.
    intros [Hc [Hh [Ht Hi]]] [[b [f [n [q [v [tm [o ->]]]]]]] | [[no [q [v [tm ->]]]] | ->]].
    - destruct (note_plain ec b f n [] q v tm o s Hc Hh Ht Hi) as [s' [E [Htp [Hev [Hl [Hc' [Hh' [Ht' [Htb [Hcur Hi']]]]]]]]]].
      exists s', [note_event s (TNote b f n [] q v tm o 0)]. rewrite calc_length_empty in Htp.
      repeat split; try assumption. constructor; [|constructor].
      split; [reflexivity|]. cbn [note_event e_v2 ev_note]. rewrite calc_length_empty. eexists. reflexivity.
    - destruct (note_n_plain ec no [] q v tm s Hc Hi) as [s' [e [E [Htp [Hev [Hd [Hl [Hc' [Hh' [Ht' [Htb [Hcur Hi']]]]]]]]]]]].
      exists s', [e]. rewrite calc_length_empty in Htp, Hd.
      repeat split; try assumption; try congruence. constructor; [|constructor].
      split; [|eexists; exact Hd].
      cbn [step_song] in E. rewrite (exec_note_n_idle s _ _ _ _ _ _ Hc Hi) in E.
      unfold exec_note_n_plain, emit_note_plain in E. cbn [Z.geb Z.compare] in E. injection E as <-.
      rewrite cur_track_upd_cur in Hev by exact Hc.
      cbn [tr_push_event tr_set_events tr_set_timepos tr_events] in Hev.
      apply app_inv_head in Hev. injection Hev as <-. reflexivity.
    - destruct (rest_plain ec 1 [] s Hc) as [s' [E [Htp [Hev [Hl [Hc' [Hh' [Ht' [Htb [Hcur Hi']]]]]]]]]].
      exists s', []. rewrite calc_length_empty, Z.mul_1_r in Htp. rewrite app_nil_r.
      repeat split; try assumption; try congruence. constructor.
  Qed.

  Lemma plain_fold X : Forall plain_elem X -> forall s, quiet s ->
    exists s' evs,
      fold_steps ec X (Ok s) = Ok s' /\ quiet s' /\
      tr_timepos (cur_track s') = tr_timepos (cur_track s) + Z.of_nat (length X) * tr_length (cur_track s) /\
      tr_length (cur_track s') = tr_length (cur_track s) /\
      s_timebase s' = s_timebase s /\ s_cur s' = s_cur s /\
      tr_events (cur_track s') = tr_events (cur_track s) ++ evs /\
      Forall (share_event (tr_length (cur_track s))) evs.
  Proof.
    induction 1 as [|t X Ht _ IH]; intros s Hq.
    - exists s, []. cbn [fold_steps fold_left length]. rewrite app_nil_r.
      repeat split; try reflexivity; try apply Hq; try constructor. lia.
    - destruct (plain_elem_step t s Hq Ht) as [s1 [e1 [E1 [Hq1 [Htp1 [Hl1 [Htb1 [Hc1 [Hev1 Hf1]]]]]]]]].
      destruct (IH s1 Hq1) as [s' [e2 [E2 [Hq2 [Htp2 [Hl2 [Htb2 [Hc2 [Hev2 Hf2]]]]]]]]].
      exists s', (e1 ++ e2). rewrite fold_steps_cons, E1.
      repeat split; try apply Hq2; try congruence.
      + rewrite Htp2, Htp1, Hl1. cbn [length]. lia.
      + rewrite Hev2, Hev1, app_assoc. reflexivity.
      + apply Forall_app. split; [exact Hf1|]. rewrite <- Hl1. exact Hf2.
  Qed.

  (* the tuplet with n such elements: after k of them the pointer stands at start + k * (D quot n); their
     notes last (D quot n) * gate / 100; at the end the pointer is forced to start + D and the default
     length is the old one again *)
  Theorem div_share_law len X s :
    quiet s -> Forall plain_elem X -> X <> [] ->
    let n := Z.of_nat (length X) in
    let D := calc_length len (s_timebase s) (tr_length (cur_track s)) in
    let tp := tr_timepos (cur_track s) in
    (forall X1 X2, X = X1 ++ X2 ->
       exists s1 evs, fold_steps ec X1 (Ok (div_entry n len s)) = Ok s1 /\
         tr_timepos (cur_track s1) = tp + Z.of_nat (length X1) * Z.quot D n /\
         tr_length (cur_track s1) = Z.quot D n /\
         tr_events (cur_track s1) = tr_events (cur_track s) ++ evs /\
         Forall (share_event (Z.quot D n)) evs) /\
    exists s', step_song (fold_steps ec) (TDiv n len X) s = Ok s' /\
      tr_timepos (cur_track s') = tp + D /\ tr_length (cur_track s') = tr_length (cur_track s).
  Proof.
    intros Hq HX Hne n D tp.
    assert (Hn : n >? 0 = true) by (destruct X; [congruence|cbn [length] in n; lia]).
    assert (Hq0 : quiet (div_entry n len s)).
    { destruct Hq as [Hc [Hh [Ht Hi]]]. unfold quiet, div_entry.
      rewrite cur_track_upd_cur by exact Hc. repeat split; [apply cur_ok_upd_cur; exact Hc|exact Hh|exact Ht|exact Hi]. }
    destruct (div_entry_length n len s (proj1 Hq)) as [HL HT].
    assert (Hsh : div_share n len s = Z.quot D n) by (unfold div_share; rewrite Hn; reflexivity).
    split.
    - intros X1 X2 ->. apply Forall_app in HX. destruct HX as [HX1 _].
      destruct (plain_fold X1 HX1 _ Hq0) as [s1 [evs [E [_ [Htp [Hl [_ [_ [Hev Hf]]]]]]]]].
      assert (HE : tr_events (cur_track (div_entry n len s)) = tr_events (cur_track s))
        by (unfold div_entry; rewrite cur_track_upd_cur by apply Hq; reflexivity).
      exists s1, evs. rewrite HL, HT, Hsh, ?HE in *.
      repeat split; assumption.
    - destruct (plain_fold X HX _ Hq0) as [s2 [evs [E [Hq2 _]]]].
      assert (Hstep : step_song (fold_steps ec) (TDiv n len X) s =
              Ok (upd_cur s2 (fun t => tr_set_length (tr_set_timepos t (tr_timepos (cur_track s) + div_len len s))
                                                      (tr_length (cur_track s))))).
      { cbn [step_song]. fold (div_len len s). fold (div_share n len s). fold (div_entry n len s). rewrite E. reflexivity. }
      eexists. split; [exact Hstep|]. rewrite cur_track_upd_cur by apply Hq2. split; reflexivity.
  Qed.
End Share.

(* ------------------------------------------------------------------------------------------------ *)
(* 5. chords                                                                                          *)

Lemma s_set_harmony_tracks s l f t e :
  s_set_harmony (s_set_tracks s l) f t e = s_set_tracks (s_set_harmony s f t e) l.
Proof. reflexivity. Qed.

Lemma s_set_tracks_same s : s_set_tracks s (s_tracks s) = s.
Proof. destruct s; reflexivity. Qed.

Section Chord.
  Variable ec : list tok -> res song -> res song.

  (* inside an open chord a note is only collected: the track is left exactly as it was *)
  Lemma chord_note_step s evs t :
    cur_ok s -> s_octave_once s = 0 -> tr_rsv (cur_track s) = rsv_new -> is_chord_note t ->
    step_song ec t (s_set_harmony s true (tr_timepos (cur_track s)) evs)
    = Ok (s_set_harmony s true (tr_timepos (cur_track s)) (evs ++ [note_event s t])).
  Proof.
    intros Hc Ho Hi [b [f [n [len [q [v [tm [o ->]]]]]]]].
    set (tp := tr_timepos (cur_track s)). set (S := s_set_harmony s true tp evs).
    cbn [step_song]. rewrite (exec_note_idle S _ _ _ _ _ _ _ _ _ Hc Hi). unfold exec_note_plain.
    change (cur_track S) with (cur_track s). change (s_timebase S) with (s_timebase s).
    change (note_number S b f n o) with (note_number s b f n o).
    set (ev := ev_note _ _ _ _ _). set (nl := calc_length len _ _).
    change (note_event s (TNote b f n len q v tm o 0)) with ev.
    unfold emit_note_plain.
    change (s_octave_once (upd_cur S (fun t => tr_set_timepos t (tr_timepos t + nl)))) with (s_octave_once s).
    rewrite Ho. cbn [Z.eqb].
    change (s_harmony_flag (upd_cur S (fun t => tr_set_timepos t (tr_timepos t + nl)))) with true. cbv iota.
    change (s_harmony_time (upd_cur S (fun t => tr_set_timepos t (tr_timepos t + nl)))) with tp.
    change (s_harmony_events (upd_cur S (fun t => tr_set_timepos t (tr_timepos t + nl)))) with evs.
    rewrite upd_cur_upd_cur. f_equal.
    unfold upd_cur. change (s_tracks S) with (s_tracks s). change (s_cur S) with (s_cur s).
    rewrite (upd_nth_id _ (track_new 0 0)).
    - unfold S. destruct s; reflexivity.
    - fold (cur_track s). unfold tp. clear. destruct (cur_track s); reflexivity.
  Qed.

  Lemma chord_notes_fold ns : Forall is_chord_note ns -> forall s evs,
    cur_ok s -> s_octave_once s = 0 -> tr_rsv (cur_track s) = rsv_new ->
    fold_steps ec ns (Ok (s_set_harmony s true (tr_timepos (cur_track s)) evs))
    = Ok (s_set_harmony s true (tr_timepos (cur_track s)) (evs ++ map (note_event s) ns)).
  Proof.
    induction 1 as [|t ns Ht _ IH]; intros s evs Hc Ho Hi.
    - cbn [fold_steps fold_left map]. rewrite app_nil_r. reflexivity.
    - rewrite fold_steps_cons, (chord_note_step s evs t Hc Ho Hi Ht), (IH s _ Hc Ho Hi).
      cbn [map]. rewrite <- app_assoc. reflexivity.
  Qed.

  Definition chord_gate (q : Z) (s : song) : Z := if q <? 0 then tr_qlen (cur_track s) else q.

  (* the events a chord leaves in the track: the collected notes, last written first, each moved to the
     start tick, with the chord's duration and (when given) velocity *)
  Definition chord_events (ns : list tok) (len : list ch) (q : Z) (vel : option Z) (s : song) : list event :=
    map (fun e => set_harmony_note e (tr_timepos (cur_track s))
                                   (calc_length len (s_timebase s) (tr_length (cur_track s))) (chord_gate q s) vel)
        (rev (map (note_event s) ns)).

  Lemma chord_exec ns len q vel s :
    Forall is_chord_note ns -> cur_ok s -> s_harmony_flag s = false -> s_harmony_events s = [] -> s_octave_once s = 0 ->
    tr_rsv (cur_track s) = rsv_new ->
    fold_steps ec ([THarmonyBegin] ++ ns ++ [THarmonyEnd len q vel]) (Ok s)
    = Ok (s_set_harmony
            (upd_cur s (fun t => tr_set_timepos (tr_set_events t (tr_events t ++ chord_events ns len q vel s))
                                                (tr_timepos (cur_track s) + calc_length len (s_timebase s) (tr_length (cur_track s)))))
            false (tr_timepos (cur_track s)) []).
  Proof.
    intros Hns Hc Hf He Ho Hi.
    change ([THarmonyBegin] ++ ns ++ [THarmonyEnd len q vel]) with (THarmonyBegin :: (ns ++ [THarmonyEnd len q vel])).
    rewrite fold_steps_cons. cbn [step_song]. rewrite He.
    rewrite fold_steps_app, (chord_notes_fold ns Hns s [] Hc Ho Hi). cbn [app].
    rewrite fold_steps_cons. cbn [fold_steps fold_left step_song]. reflexivity.
  Qed.

  Lemma chord_events_props ns len q vel s :
    chord_gate q s <> 0 ->
    length (chord_events ns len q vel s) = length ns /\
    Forall (fun e =>
      e_time e = tr_timepos (cur_track s) /\
      e_v2 e = Z.quot (calc_length len (s_timebase s) (tr_length (cur_track s)) * chord_gate q s) 100 /\
      (forall v, vel = Some v -> e_v3 e = v)) (chord_events ns len q vel s) /\
    (Forall is_chord_note ns ->
     Forall (fun e => e_type e = NoteOn /\ e_ch e = tr_channel (cur_track s)) (chord_events ns len q vel s)) /\
    map e_v1 (chord_events ns len q vel s) = rev (map (fun t => e_v1 (note_event s t)) ns).
  Proof.
    intros Hq. unfold chord_events. split; [rewrite map_length, rev_length, map_length; reflexivity|].
    split; [|split].
    - apply Forall_forall. intros e He. apply in_map_iff in He. destruct He as [e0 [<- _]].
      cbn [set_harmony_note e_time e_v2 e_v3]. destruct (chord_gate q s =? 0) eqn:E; [lia|].
      repeat split. intros v ->. reflexivity.
    - intros Hns. apply Forall_forall. intros e He. apply in_map_iff in He. destruct He as [e0 [<- He0]].
      apply in_rev, in_map_iff in He0. destruct He0 as [t [<- Ht]].
      rewrite Forall_forall in Hns. destruct (Hns t Ht) as [b [f [n [l [q0 [v [tm [o ->]]]]]]]].
      split; reflexivity.
    - rewrite map_map. cbn [set_harmony_note e_v1]. rewrite <- map_rev, map_map, map_rev. reflexivity.
  Qed.

  (* the chord law *)
  Theorem chord_law ns len q vel s :
    Forall is_chord_note ns -> cur_ok s -> s_harmony_flag s = false -> s_harmony_events s = [] -> s_octave_once s = 0 ->
    tr_rsv (cur_track s) = rsv_new ->
    let trk := cur_track s in
    let note_len := calc_length len (s_timebase s) (tr_length trk) in
    let q' := if q <? 0 then tr_qlen trk else q in
    q' <> 0 ->
    exists s' evs,
      fold_steps ec ([THarmonyBegin] ++ ns ++ [THarmonyEnd len q vel]) (Ok s) = Ok s' /\
      tr_events (cur_track s') = tr_events trk ++ evs /\
      length evs = length ns /\
      Forall (fun e => e_type e = NoteOn /\ e_ch e = tr_channel trk /\
                       e_time e = tr_timepos trk /\
                       e_v2 e = Z.quot (note_len * q') 100 /\
                       (forall v, vel = Some v -> e_v3 e = v)) evs /\
      map e_v1 evs = rev (map (fun t => e_v1 (note_event s t)) ns) /\
      tr_timepos (cur_track s') = tr_timepos trk + note_len /\
      tr_length (cur_track s') = tr_length trk /\
      s_harmony_flag s' = false /\ s_harmony_events s' = [] /\ s_octave_once s' = 0 /\ cur_ok s' /\
      (forall i, i <> s_cur s -> nth i (s_tracks s') (track_new 0 0) = nth i (s_tracks s) (track_new 0 0)) /\
      s_cur s' = s_cur s /\ s_timebase s' = s_timebase s.
  Proof.
    intros Hns Hc Hf He Ho Hi trk note_len q' Hq.
    destruct (chord_events_props ns len q vel s Hq) as [Hlen [Hall [Hty Hkeys]]].
    eexists. exists (chord_events ns len q vel s). split; [apply chord_exec; assumption|].
    set (F := fun t : track => _).
    change (cur_track (s_set_harmony (upd_cur s F) false (tr_timepos (cur_track s)) [])) with (cur_track (upd_cur s F)).
    rewrite cur_track_upd_cur by exact Hc. unfold F.
    cbn [tr_events tr_timepos tr_length tr_set_timepos tr_set_events s_harmony_flag s_harmony_events s_set_harmony
         s_octave_once s_cur s_timebase].
    split; [reflexivity|]. split; [exact Hlen|]. split.
    { specialize (Hty Hns). rewrite Forall_forall in *. intros e He'. destruct (Hall e He') as [A [B C]].
      destruct (Hty e He') as [T Ch]. repeat split; assumption. }
    split; [exact Hkeys|]. repeat split; try reflexivity; try assumption.
    - apply (cur_ok_upd_cur s F Hc).
    - intros i Hne. apply (upd_cur_other s F i Hne).
  Qed.
End Chord.

(* ------------------------------------------------------------------------------------------------ *)
(* 6. exec() on a loop-free token list is the left-to-right fold                                      *)

Section MachineInvariant.
  Context {D St : Type} (step : D -> St -> St) (halted : St -> bool) (cnt : Z -> St -> nat).
  Context (P : St -> Prop) (HP : forall d s, P s -> P (step d s)).

  Lemma mstep_invariant toks c c' : P (st St c) -> mstep D St step halted cnt toks c = Some c' -> P (st St c').
  Proof.
    intros H. unfold mstep. destruct (nth_error toks (pos St c)) as [t|]; [|discriminate].
    destruct (halted (st St c)); [discriminate|].
    destruct t as [n| | |d].
    - intros E; injection E as <-. exact H.
    - destruct (stack St c) as [|it rest]; [intros E; injection E as <-; exact H|].
      destruct (Nat.leb (count it) (Datatypes.S (index it))).
      + match goal with |- context [Nat.ltb 0 ?e] => destruct (Nat.ltb 0 e) end; intros E; injection E as <-; exact H.
      + intros E; injection E as <-; exact H.
    - destruct (stack St c) as [|it rest]; [intros E; injection E as <-; exact H|].
      match goal with |- context [Nat.ltb ?a ?b] => destruct (Nat.ltb a b) end; intros E; injection E as <-; exact H.
    - intros E; injection E as <-. apply HP. exact H.
  Qed.

  Lemma mrun_invariant toks : forall fuel c c', P (st St c) -> mrun D St step halted cnt fuel toks c = Some c' -> P (st St c').
  Proof.
    induction fuel as [|f IH]; intros c c' H; [discriminate|]. cbn [mrun].
    destruct (mstep D St step halted cnt toks c) as [c1|] eqn:E.
    - apply IH. apply (mstep_invariant toks c c1 H E).
    - intros E'; injection E' as <-. exact H.
  Qed.

  Lemma run_invariant toks fuel s s' : P s -> run D St step halted cnt fuel toks s = Some s' -> P s'.
  Proof.
    intros H. unfold run. destruct (mrun D St step halted cnt fuel toks (mkCfg St 0 [] s)) as [c|] eqn:E; [|discriminate].
    intros E'; injection E' as <-. apply (mrun_invariant toks fuel (mkCfg St 0 [] s) c H E).
  Qed.
End MachineInvariant.

(* no token of the modelled fragment raises break_flag *)
Definition keeps_break_flag (ec : list tok -> res song -> res song) : Prop :=
  forall X s s2, ec X (Ok s) = Ok s2 -> s_break_flag s2 = s_break_flag s.

Lemma add_log_break_flag s m : s_break_flag (add_log s m) = s_break_flag s.
Proof. unfold add_log. destruct (_ <=? _); reflexivity. Qed.

Lemma bf_upd_cur s f : s_break_flag (upd_cur s f) = s_break_flag s.
Proof. reflexivity. Qed.
Lemma bf_set_time s a b c d : s_break_flag (s_set_time s a b c d) = s_break_flag s.
Proof. reflexivity. Qed.
Lemma bf_set_play_from s v : s_break_flag (s_set_play_from s v) = s_break_flag s.
Proof. reflexivity. Qed.
Lemma bf_runtime_error s m : s_break_flag (runtime_error s m) = s_break_flag s.
Proof. apply add_log_break_flag. Qed.
Lemma bf_song_with_ls s ls : s_break_flag (song_with_ls s ls) = s_break_flag s.
Proof. reflexivity. Qed.

Lemma bf_change_cur_track s i : s_break_flag (change_cur_track s i) = s_break_flag s.
Proof. unfold change_cur_track, settle_octave_once. destruct (_ =? 0); reflexivity. Qed.
Lemma exec_play_break_flag ec s args ln s' : keeps_break_flag ec ->
  exec_play ec s args ln = Ok s' -> s_break_flag s' = s_break_flag s.
Proof.
  intros Hec E. apply exec_play_ok in E. destruct E as (Hn & _ & s4 & last & Hp & ->).
  rewrite bf_change_cur_track. change (s_break_flag s4 = s_break_flag s).
  apply (play_parts_inv (fun x => s_break_flag x = s_break_flag s) ec ln (tr_timepos (cur_track s))) in Hp; [exact Hp| | | |reflexivity].
  - intros s0 i _ H0. unfold play_enter. rewrite bf_upd_cur, bf_change_cur_track. exact H0.
  - intros s2 txt toks ls' s3 H2 _ E3. apply Hec in E3. rewrite E3, bf_song_with_ls. exact H2.
  - unfold zlen in Hn. lia.
Qed.

Lemma step_song_break_flag ec : keeps_break_flag ec ->
  forall t s s', step_song ec t s = Ok s' -> s_break_flag s' = s_break_flag s.
Proof.
  intros Hec t s s'. destruct t; cbn [step_song];
  first
  [ solve [intros E; injection E as <-; reflexivity]
  | (* notes *)
    solve [unfold exec_note, exec_note_n; destr_lets; unfold emit_note; destr_lets;
           try discriminate; intros E; injection E as <-; reflexivity]
  | (* one guard *)
    solve [unfold exec_harmony_end, change_cur_track, settle_octave_once;
           repeat match goal with |- context [if ?b then _ else _] => destruct b end;
           try discriminate; intros E; injection E as <-; reflexivity]
  | (* Sub / Div *)
    solve [match goal with |- context [ec ?X (Ok ?x)] => destruct (ec X (Ok x)) as [s2| | |] eqn:E2 end;
           cbn [bind]; try discriminate; intros E; injection E as <-; apply Hec in E2; exact E2]
  | (* macro call: the nested exec() *)
    solve [intros E;
           repeat (match type of E with
                   | context [match vars_get ?n ?v with _ => _ end] => destruct (vars_get n v) as [[]|]
                   | context [match ?a with Some _ => _ | None => _ end] => destruct a
                   | context [bind (lex ?a ?b ?c) _] => destruct (lex a b c) as [[? ?]| | |]
                   end; cbn [bind] in E; try discriminate);
           apply Hec in E; rewrite E, bf_song_with_ls, ?add_log_break_flag; reflexivity]
  | (* argument lists *)
    solve [unfold exec_voice, exec_get_time, exec_time_signature;
           match goal with |- context [match ?a with [] => _ | _ => _ end] => destruct a as [|a0 [|a1 [|a2 ar]]] end;
           intros E; injection E as <-;
           repeat match goal with |- context [if ?b then _ else _] => destruct b end;
           repeat rewrite ?bf_upd_cur, ?bf_set_time, ?bf_set_play_from, ?bf_runtime_error;
           reflexivity]
  | (* RPN / NRPN with an argument list *)
    solve [intros E; injection E as <-;
           match goal with |- context [exec_rpn_direct ?a ?b ?c] =>
             destruct (exec_rpn_direct_cases a b c) as [[f ->]|[m ->]] end;
           [reflexivity|apply bf_runtime_error]]
  | (* PLAY *)
    solve [apply exec_play_break_flag; exact Hec]
  | (* TempoChange *)
    solve [intros E; apply (exec_tempo_change_inv (fun x => s_break_flag x = s_break_flag s)) in E;
           [exact E | intros s0 v H0; exact H0 | intros s0 f H0; exact H0 | reflexivity]]
  | (* SysEx *)
    solve [intros E; apply exec_sysex_cases in E; destruct E as [[_ [m ->]]|[_ [_ ->]]]; [apply bf_runtime_error|reflexivity]]
  | (* GSEffect *)
    solve [intros E; apply exec_gs_effect_cases in E; destruct E as (evs & _ & ->); reflexivity] ].
Qed.

Definition flag_kept (b : Z) (r : res song) : Prop := match r with Ok s => s_break_flag s = b | _ => True end.

Lemma step_tok_flag_kept ec b : keeps_break_flag ec -> forall t r, flag_kept b r -> flag_kept b (step_tok ec t r).
Proof.
  intros Hec t [s| | |] H; cbn [step_tok bind flag_kept]; try exact I.
  destruct (step_song ec t s) as [s'| | |] eqn:E; try exact I. cbn [flag_kept] in *.
  rewrite (step_song_break_flag ec Hec t s s' E). exact H.
Qed.

Lemma exec_f_keeps_break_flag steps : forall d, keeps_break_flag (exec_f d steps).
Proof.
  induction d as [|d IH]; intros X s s2; [discriminate|]. cbn [exec_f].
  destruct (run _ _ _ _ _ _ _ _) as [r|] eqn:E; [|discriminate]. intros ->.
  apply (run_invariant (step_tok (exec_f d steps)) halted count_of (flag_kept (s_break_flag s))
           (step_tok_flag_kept _ _ IH) _ _ _ _ (eq_refl : flag_kept (s_break_flag s) (Ok s)) E).
Qed.

Fixpoint leaves (toks : list tok) : prog tok :=
  match toks with [] => PNil | t :: r => PCons (Leaf t) (leaves r) end.

Lemma flatten_leaves toks : loop_free toks = true -> map to_ltok toks = flatten (leaves toks).
Proof.
  induction toks as [|t r IH]; [reflexivity|]. cbn [loop_free forallb]. intros H. apply andb_prop in H. destruct H as [Ht Hr].
  cbn [map leaves flatten flat_item app]. rewrite <- (IH Hr). destruct t; try discriminate; reflexivity.
Qed.

Lemma cost_leaves {St} step (halted : St -> bool) cnt toks s : cost tok St step halted cnt (leaves toks) s = length toks.
Proof. revert s. induction toks as [|t r IH]; intros s; [reflexivity|]. cbn [leaves cost cost_item length]. rewrite IH. reflexivity. Qed.

Lemma sem_leaves_fold ec cnt toks : keeps_break_flag ec -> forall r, flag_kept 0 r ->
  sem tok (res song) (step_tok ec) halted cnt (leaves toks) r = fold_steps ec toks r.
Proof.
  intros Hec. induction toks as [|t rest IH]; intros r Hr; [reflexivity|].
  cbn [leaves sem sem_item]. change (fold_steps ec (t :: rest) r) with (fold_steps ec rest (step_tok ec t r)).
  destruct r as [s| | |]; cbn [halted].
  - cbn [flag_kept] in Hr. rewrite Hr. cbn [Z.eqb negb]. apply IH. apply step_tok_flag_kept; [exact Hec|exact Hr].
  - apply IH. exact I.
  - apply IH. exact I.
  - apply IH. exact I.
Qed.

(* exec() of a loop-free list: the fold, as soon as the per-loop fuel exceeds the length of the list *)
Theorem exec_f_loopfree d steps toks s :
  loop_free toks = true -> (length toks < steps)%nat -> s_break_flag s = 0 ->
  exec_f (S d) steps toks (Ok s) = fold_steps (exec_f d steps) toks (Ok s).
Proof.
  intros Hlf Hlen Hb. cbn [exec_f]. rewrite (flatten_leaves toks Hlf).
  rewrite (run_flat_total tok (res song) (step_tok (exec_f d steps)) halted count_of (leaves toks) (Ok s) steps)
    by (rewrite cost_leaves; exact Hlen).
  apply sem_leaves_fold; [apply exec_f_keeps_break_flag | exact Hb].
Qed.

(* ------------------------------------------------------------------------------------------------ *)
(* 7. the chord and share laws for exec() itself                                                      *)

Lemma chord_tokens_loop_free ns len q vel :
  Forall is_chord_note ns -> loop_free ([THarmonyBegin] ++ ns ++ [THarmonyEnd len q vel]) = true.
Proof.
  intros H. unfold loop_free. rewrite !forallb_app. cbn [forallb loop_free_tok andb]. rewrite andb_true_r.
  apply forallb_forall. intros t Ht. rewrite Forall_forall in H.
  destruct (H t Ht) as [b [f [n [l [q0 [v [tm [o ->]]]]]]]]. reflexivity.
Qed.

Lemma plain_loop_free X : Forall plain_elem X -> loop_free X = true.
Proof.
  intros H. apply forallb_forall. intros t Ht. rewrite Forall_forall in H.
  destruct (H t Ht) as [[b [f [n [q [v [tm [o ->]]]]]]] | [[no [q [v [tm ->]]]] | ->]]; reflexivity.
Qed.

Theorem chord_exec_f d steps ns len q vel s :
  Forall is_chord_note ns -> (length ns + 2 < steps)%nat -> s_break_flag s = 0 ->
  exec_f (S d) steps ([THarmonyBegin] ++ ns ++ [THarmonyEnd len q vel]) (Ok s)
  = fold_steps (exec_f d steps) ([THarmonyBegin] ++ ns ++ [THarmonyEnd len q vel]) (Ok s).
Proof.
  intros Hns Hlen Hb. apply exec_f_loopfree; [apply chord_tokens_loop_free; exact Hns| |exact Hb].
  rewrite !app_length. cbn [length]. lia.
Qed.

(* the tuplet whose children are executed by exec() *)
Theorem div_share_exec d steps len X s :
  quiet s -> Forall plain_elem X -> X <> [] -> (length X < steps)%nat -> s_break_flag s = 0 ->
  let n := Z.of_nat (length X) in
  let D := calc_length len (s_timebase s) (tr_length (cur_track s)) in
  let tp := tr_timepos (cur_track s) in
  (forall X1 X2, X = X1 ++ X2 ->
     exists s1 evs, exec_f (S d) steps X1 (Ok (div_entry n len s)) = Ok s1 /\
       tr_timepos (cur_track s1) = tp + Z.of_nat (length X1) * Z.quot D n /\
       tr_length (cur_track s1) = Z.quot D n /\
       tr_events (cur_track s1) = tr_events (cur_track s) ++ evs /\
       Forall (share_event (Z.quot D n)) evs) /\
  exists s', step_song (exec_f (S d) steps) (TDiv n len X) s = Ok s' /\
    tr_timepos (cur_track s') = tp + D /\ tr_length (cur_track s') = tr_length (cur_track s).
Proof.
  intros Hq HX Hne Hlen Hb n D tp.
  destruct (div_share_law (exec_f d steps) len X s Hq HX Hne) as [Hpre [s' [Hs [Htp Hl]]]].
  assert (Hbe : s_break_flag (div_entry n len s) = 0) by exact Hb.
  split.
  - intros X1 X2 E. destruct (Hpre X1 X2 E) as [s1 [evs [H1 H2]]]. exists s1, evs. split; [|exact H2].
    rewrite exec_f_loopfree; [exact H1| | |exact Hbe].
    + subst X. apply Forall_app in HX. apply plain_loop_free. apply HX.
    + subst X. rewrite app_length in Hlen. lia.
  - exists s'. split; [|split; assumption].
    cbn [step_song] in Hs |- *. fold (div_len len s) in Hs |- *. fold (div_share n len s) in Hs |- *.
    fold (div_entry n len s) in Hs |- *.
    rewrite exec_f_loopfree; [exact Hs|apply plain_loop_free; exact HX|exact Hlen|exact Hbe].
Qed.
